/-
  Executable model of the fee distributor's epoch ledger
  (`contracts/liquidity_hub/fee_distributor/src/{commands,contract,state}.rs`).

  Assumption (stated in every theorem that uses it): ONE distribution asset over the whole history
  (native `uwhale` in the harness).  `Vec<Asset>` fields of an `Epoch` are therefore `Option Nat`:
  `none` = the empty vector, `some x` = `[Asset{distribution asset, x}]`.  The distinction matters:
  `query_claimable` filters on `available.is_empty()` (an expired epoch has `available = []`, an epoch
  emptied by claims has `available = [0]`).

  What is outside the model is a parameter:
   * `newEpoch … inflow` – `inflow` is the `epoch.total` that the collector's `ForwardFeesResponse`
     carried (and the amount it transferred); any value.
   * `claim … view ans` – `view` is the lair's `Bonded{address}` answer (`none` = no bonded assets,
     `some fb` = `first_bonded_epoch_id`), `ans id` the lair's `Weight{address, epoch.start_time,
     epoch.global_index}` answer for epoch `id` (`share` atomics, or the query failed / panicked).
     The ledger theorems hold for every such answer.
-/
import WW.Cw.Arith
import WW.Gen.Constants
namespace WW.Distributor

/-- `fee_distributor::Epoch` (without `global_index`, which only travels to the lair) -/
structure Epoch where
  id : Nat
  start : Nat
  total : Option Nat
  avail : Option Nat
  claimed : Option Nat
deriving Repr, DecidableEq

/-- amount of a ≤1-element asset vector -/
def amt : Option Nat → Nat
  | some x => x
  | none => 0

structure Cfg where
  genesis : Nat
  duration : Nat
  owner : Nat
deriving Repr, DecidableEq

structure St where
  /-- `EPOCHS`, newest first (`range(.., Descending)`) -/
  epochs : List Epoch
  /-- `LAST_CLAIMED_EPOCH` -/
  last : List (Nat × Nat)
  /-- `config.grace_period` -/
  grace : Nat
  /-- bank balance of the distribution asset -/
  bal : Nat
deriving Repr, DecidableEq

def St.init (grace : Nat) : St := { epochs := [], last := [], grace := grace, bal := 0 }

/-- answer of the bonding contract to one `Weight` query -/
inductive LairAns where
  | share (atomics : Nat)
  | err
  | panic
deriving Repr, DecidableEq

def lookup (u : Nat) : List (Nat × Nat) → Option Nat
  | [] => none
  | (k, v) :: r => if k = u then some v else lookup u r

def setLast (u v : Nat) : List (Nat × Nat) → List (Nat × Nat)
  | [] => [(u, v)]
  | (k, w) :: r => if k = u then (k, v) :: r else (k, w) :: setLast u v r

def sumAvail : List Epoch → Nat
  | [] => 0
  | e :: es => amt e.avail + sumAvail es

def sumClaimed : List Epoch → Nat
  | [] => 0
  | e :: es => amt e.claimed + sumClaimed es

/-- `get_current_epoch`: the newest epoch or `Epoch::default()` -/
def current (s : St) : Epoch :=
  match s.epochs with
  | e :: _ => e
  | [] => { id := 0, start := 0, total := none, avail := none, claimed := none }

/-- the id and start time `create_new_epoch` gives the next epoch, with its three ways to fail -/
def nextEpoch (cfg : Cfg) (s : St) (now : Nat) : Res (Nat × Nat) :=
  let cur := current s
  -- env.block.time.minus_nanos(current_epoch.start_time.nanos())  (panics on underflow)
  if now < cur.start then .panic
  else if now - cur.start < cfg.duration then .err            -- CurrentEpochNotExpired
  else
    if cur.id = 0 ∧ cur.start = 0 then
      if now < cfg.genesis then .err                          -- GenesisEpochNotStarted
      else if cur.id + 1 ≤ U64MAX then .ok (cur.id + 1, cfg.genesis) else .err
    else if cur.start + cfg.duration ≤ U64MAX then             -- plus_nanos (panics on overflow)
      if cur.id + 1 ≤ U64MAX then .ok (cur.id + 1, cur.start + cfg.duration) else .err
    else .panic

/-- `get_expiring_epoch` + the write-back in `reply`: the epoch at position `k` of the descending
    list (k = grace−1, the oldest of the `grace` newest) gets `available = []`; returns what it held.
    Position beyond the list = nothing is expiring yet. -/
def takeOut : Nat → List Epoch → List Epoch × Option Nat
  | _, [] => ([], none)
  | 0, e :: es => ({ e with avail := none } :: es, e.avail)
  | k + 1, e :: es => let r := takeOut k es; (e :: r.1, r.2)

/-- `asset::aggregate_assets(new_epoch.total, unclaimed_fees)` on ≤1-element vectors -/
def aggOpt : Option Nat → Option Nat → Res (Option Nat)
  | a, none => .ok a
  | none, some b => .ok (some b)
  | some a, some b => if a + b ≤ U128MAX then .ok (some (a + b)) else .err

/-- the distributor's `reply` to the collector's answer: `inflow` = `epoch.total` set by the collector
    (`none` when it had nothing to forward) — that amount has arrived in the contract's balance. -/
def receiveEpoch (s : St) (id start : Nat) (inflow : Option Nat) : Res St :=
  if s.grace = 0 then .err   -- unreachable: grace_period ≥ 1 is validated at instantiate and on update
  else
    let r := takeOut (s.grace - 1) s.epochs
    match aggOpt inflow r.2 with
    | .ok tot =>
      .ok { s with epochs := { id := id, start := start, total := tot, avail := tot, claimed := none } :: r.1,
                   bal := s.bal + amt inflow }
    | .err => .err
    | .panic => .panic

/-- `NewEpoch` with the collector's forwarding abstracted to its result -/
def newEpoch (cfg : Cfg) (s : St) (now : Nat) (inflow : Option Nat) : Res St :=
  match nextEpoch cfg s now with
  | .ok (id, start) => receiveEpoch s id start inflow
  | .err => .err
  | .panic => .panic

/-- lower bound (exclusive) on the epoch ids an address may claim: its last claimed epoch, else the
    epoch in which it first bonded; `none` = never bonded and never claimed → nothing -/
def claimBound (s : St) (u : Nat) (view : Option Nat) : Option Nat :=
  match lookup u s.last with
  | some lc => some lc
  | none => view

def isClaimable (b : Nat) (e : Epoch) : Bool := decide (b < e.id) && e.avail.isSome

/-- ids of `query_claimable`: the `n` newest epochs, above the bound, with a non-empty `available` -/
def claimableIds (b : Nat) : Nat → List Epoch → List Nat
  | 0, _ => []
  | _, [] => []
  | n + 1, e :: es => if isClaimable b e then e.id :: claimableIds b n es else claimableIds b n es

def claimable (s : St) (u : Nat) (view : Option Nat) : List Nat :=
  match claimBound s u view with
  | some b => claimableIds b s.grace s.epochs
  | none => []

/-- body of the `claim` loop for one epoch: new epoch record and the reward -/
def claimEpoch (e : Epoch) (a : LairAns) : Res (Epoch × Nat) :=
  match a with
  | .err => .err
  | .panic => .panic
  | .share sh =>
    match e.total with
    | none => .ok (e, 0)                                       -- `for fee in epoch.total` runs zero times
    | some t =>
      if t * sh / E18 > U128MAX then .err                      -- checked_mul_floor
      else if t * sh / E18 = 0 then .ok (e, 0)                 -- nothing to claim
      else
        match e.avail with
        | none => .err                                         -- "Invalid fee"
        | some av =>
          -- In the Rust the `InvalidReward` result of the soundness check is discarded (`let _ = ….map(..)
          -- .ok_or_else(..)?` unwraps only the outer `Result`); the transaction still fails, at
          -- `available_fee.amount.checked_sub(reward)?` two statements later. Same observable: Err.
          if t * sh / E18 > av then .err
          else
            match e.claimed with
            | none => .ok ({ e with avail := some (av - t * sh / E18), claimed := some (t * sh / E18) }, t * sh / E18)
            | some c =>
              if c + t * sh / E18 ≤ U128MAX then
                .ok ({ e with avail := some (av - t * sh / E18), claimed := some (c + t * sh / E18) }, t * sh / E18)
              else .err

/-- the `claim` loop over the window (the `n` newest epochs), newest first; `acc` = rewards so far
    (`aggregate_assets`, checked) -/
def claimWalk (ans : Nat → LairAns) (b : Nat) : Nat → List Epoch → Nat → Res (List Epoch × Nat)
  | 0, es, acc => .ok (es, acc)
  | _, [], acc => .ok ([], acc)
  | n + 1, e :: es, acc =>
    if isClaimable b e then
      match claimEpoch e (ans e.id) with
      | .ok (e', r) =>
        if acc + r ≤ U128MAX then
          match claimWalk ans b n es (acc + r) with
          | .ok (es', t) => .ok (e' :: es', t)
          | .err => .err
          | .panic => .panic
        else .err
      | .err => .err
      | .panic => .panic
    else
      match claimWalk ans b n es acc with
      | .ok (es', t) => .ok (e :: es', t)
      | .err => .err
      | .panic => .panic

/-- `Claim {}` by `u`; returns the new state and the amount sent to `u` -/
def claim (s : St) (u : Nat) (view : Option Nat) (ans : Nat → LairAns) : Res (St × Nat) :=
  match claimBound s u view with
  | none => .err                                               -- NothingToClaim
  | some b =>
    match claimableIds b s.grace s.epochs with
    | [] => .err                                               -- NothingToClaim
    | top :: _ =>
      match claimWalk ans b s.grace s.epochs 0 with
      | .ok (es', paid) =>
        if paid ≤ s.bal then                                   -- bank send
          .ok ({ s with epochs := es', last := setLast u top s.last, bal := s.bal - paid }, paid)
        else .err
      | .err => .err
      | .panic => .panic

/-- `UpdateConfig { grace_period }` -/
def updateGrace (cfg : Cfg) (s : St) (sender g : Nat) : Res St :=
  if sender ≠ cfg.owner then .err
  else if g < 1 ∨ g > WW.Gen.DISTRIBUTOR_MAX_GRACE_PERIOD then .err
  else if g < s.grace then .err
  else .ok { s with grace := g }

/-- somebody sends distribution-asset tokens to the contract -/
def gift (s : St) (a : Nat) : St := { s with bal := s.bal + a }

/-- operations of the ledger (the history alphabet of C09) -/
inductive Op where
  | newEpoch (now : Nat) (inflow : Option Nat)
  | claim (u : Nat) (view : Option Nat) (ans : Nat → LairAns)
  | grace (sender g : Nat)
  | gift (a : Nat)

def step (cfg : Cfg) (s : St) : Op → Res St
  | .newEpoch now inflow => newEpoch cfg s now inflow
  | .claim u view ans => match claim s u view ans with
    | .ok (s', _) => .ok s'
    | .err => .err
    | .panic => .panic
  | .grace sender g => updateGrace cfg s sender g
  | .gift a => .ok (gift s a)

/-- fold a history; failed operations leave the state unchanged -/
def reach (cfg : Cfg) (s : St) : List Op → St
  | [] => s
  | op :: ops => match step cfg s op with
    | .ok s' => reach cfg s' ops
    | _ => reach cfg s ops

end WW.Distributor
