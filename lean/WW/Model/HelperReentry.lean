/-
  Re-entrant transactions on the frontend helper's path.

  One of the two assets of the helper's pair (asset 3, cw20 A) is a HOSTILE cw20 token: it is cw20-base, and when
  armed it sends ONE message of its own choosing from inside a `TransferFrom` in which the helper takes part —
  i.e. BETWEEN the helper's own messages of a `Deposit`:

    trigger 1  inside the helper's `TransferFrom { owner = depositor, recipient = helper }`
    trigger 2  inside the pair's  `TransferFrom { owner = helper, recipient = pair }` (the pair is executing the
               helper's `ProvideLiquidity` sub-message)
    (triggers 3, 4: `Transfer` / `Send` by or to the helper — the helper's path contains none; never hit)

  The nested message is sent by the token's own account (`Hook.sender`, mallory in the harness) with its own
  funds and allowances (`Hook.offers`), plainly (its failure fails the whole transaction) or as a sub-message
  whose failure is swallowed (`Hook.catch_`). It is any operation of the incentive contract or a `Deposit` of
  its own through the same helper.

  What the REAL helper does in that transient state (transcribed from `frontend_helper/src/contract.rs` and
  `reply/deposit_pair.rs`): `Deposit` SAVES `TEMP_STATE { receiver = sender, unbonding_duration, pair }` (an
  `Item`: the nested deposit overwrites the pending one), the reply LOADS it (it is never removed) and stakes
  the helper's WHOLE LP balance for the receiver it finds there. Hence after a nested deposit that went through
  the outer reply stakes the outer depositor's LP for the NESTED sender under the NESTED duration
  (`Tmp` below is that item; see `WW.C11.nested_deposit_takes_outer_lp`).

  `helperDeposit` of `WW.Model.Incentive` is exactly `hdPull`, `hdPair`, `hdMint`, `hdReply` in a row
  (`WW.Inc.helperDeposit_phases`); the hook fires after `hdPull` (trigger 1) or after `hdPair` (trigger 2).
-/
import WW.Model.Incentive
namespace WW.Inc
open WW WW.Gen

/-- what the armed hostile pool token does -/
structure Hook where
  /-- 1: inside the helper's pull from the depositor, 2: inside the pair's pull from the helper; else never -/
  trig : Nat
  /-- the nested message is a sub-message whose failure is swallowed -/
  catch_ : Bool
  /-- the token's account -/
  sender : Addr
  /-- what that account offers with the nested message (native → funds, cw20 → its allowance to the callee) -/
  offers : List (Nat × Nat)
  inner : Op
deriving Repr, DecidableEq

/-- a transaction: a plain operation, or an operation sent while the hostile pool token is armed -/
inductive Tx where
  | plain (op : Op)
  | reenter (hk : Hook) (outer : Op)
deriving Repr, DecidableEq

/-- the helper's `TEMP_STATE`: receiver and unbonding duration of the deposit whose reply is pending -/
abbrev Tmp := Addr × Nat

/-- the nested call happens in the same block -/
def Hook.env (hk : Hook) (e : Env) : Env :=
  { epoch := e.epoch, time := e.time, sender := hk.sender, offers := hk.offers }

/-! ### the helper deposit, message by message -/

/-- `Deposit` handler (allowance of the depositor to the helper must equal the stated cw20 amount) and its first
    message: `TransferFrom` depositor → helper -/
def hdPull (c : Cfg) (s : St) (e : Env) (a1 : Nat) : Res St := do
  guardErr (decide (aget (allowOf c e.offers) 3 = a1))
  let b ← applyMsgs c s.bal (allowOf c e.offers) [.pull e.sender HELPER 3 a1]
  pure { s with bal := b }

/-- the `ProvideLiquidity` sub-message up to the pair's `TransferFrom`: funds helper → pair, the pair's handler
    (native asset sent exactly, LP amount computed, not zero), `TransferFrom` helper → pair; returns the LP amount -/
def hdPair (c : Cfg) (s : St) (e : Env) (a0 a1 : Nat) : Res (St × Nat) := do
  let funds := fundsOf c e.offers
  let b ← attachFunds c s.bal HELPER PAIR funds
  guardErr (a0 = 0 || hasFunds funds 1 a0)
  let lp ← cadd U128MAX a0 a1
  guardErr (decide (lp ≠ 0))
  let b ← applyMsgs c b [(3, a1)] [.pull HELPER PAIR 3 a1]
  pure ({ s with bal := b }, lp)

/-- the pair's last message: the LP tokens go to the helper -/
def hdMint (c : Cfg) (s : St) (lp : Nat) : Res St := do
  let b ← applyMsgs c s.bal [] [.send PAIR HELPER 0 lp]
  pure { s with bal := b }

/-- the helper's reply: its WHOLE LP balance is staked for the receiver and duration found in `TEMP_STATE` -/
def hdReply (c : Cfg) (s : St) (e : Env) (u : Addr) (dur : Nat) : Res St := do
  let lpAmt := aget s.bal (HELPER, 0)
  let _ ← qOpenWeights (openOf s u)
  let has := (openOf s u).any (fun p => p.dur = dur)
  let e2 : Env := { e with sender := HELPER, offers := [(0, lpAmt)] }
  let b2 ← (if c.native 0 then attachFunds c s.bal HELPER INC [(0, lpAmt)] else pure s.bal)
  let s2 := { s with bal := b2 }
  let (s3, msgs) ← (if has then expandPosition c s2 e2 lpAmt dur (some u) else openPosition c s2 e2 lpAmt dur (some u))
  let b3 ← applyMsgs c s3.bal (allowOf c e2.offers) msgs
  pure { s3 with bal := b3 }

/-- the four parts in a row, with the depositor's own `TEMP_STATE` -/
def helperDepositP (c : Cfg) (s : St) (e : Env) (a0 a1 dur : Nat) : Res St := do
  let s1 ← hdPull c s e a1
  let (s2, lp) ← hdPair c s1 e a0 a1
  let s3 ← hdMint c s2 lp
  hdReply c s3 e e.sender dur

/-! ### the hook -/

/-- what `TEMP_STATE` holds after a nested operation that went through: a nested `Deposit` saved its own -/
def tmpAfter (hk : Hook) (tmp : Tmp) : Tmp :=
  match hk.inner with
  | .helperDeposit _ _ d => (hk.sender, d)
  | _ => tmp

/-- the armed trigger is hit in state `s` while `tmp` is pending: the nested operation runs as a whole
    transaction of its own. Result: state, `TEMP_STATE`, and `1` (went through) / `2` (refused and caught). -/
def fire (c : Cfg) (s : St) (e : Env) (hk : Hook) (tmp : Tmp) : Res (St × Tmp × Nat) :=
  match step c s (hk.env e) hk.inner with
  | .ok s' => .ok (s', tmpAfter hk tmp, 1)
  | .err => if hk.catch_ then .ok (s, tmp, 2) else .err
  | .panic => .panic

/-- a helper `Deposit` sent while the hostile pool token is armed; second component: `0` not triggered,
    `1` nested message went through, `2` refused and caught -/
def reenterDeposit (c : Cfg) (s : St) (e : Env) (hk : Hook) (a0 a1 dur : Nat) : Res (St × Nat) := do
  let b ← attachFunds c s.bal e.sender HELPER (fundsOf c e.offers)
  let s1 ← hdPull c { s with bal := b } e a1
  let (s1', tmp1, f1) ← (if hk.trig = 1 then fire c s1 e hk (e.sender, dur) else pure (s1, (e.sender, dur), 0))
  let (s2, lp) ← hdPair c s1' e a0 a1
  let (s2', tmp2, f2) ← (if hk.trig = 2 then fire c s2 e hk tmp1 else pure (s2, tmp1, f1))
  let s3 ← hdMint c s2' lp
  let s4 ← hdReply c s3 e tmp2.1 tmp2.2
  pure (s4, f2)

/-- one transaction; the hostile token is triggered only by transfers the helper takes part in, i.e. only
    on the path of a helper `Deposit` naming the pair's own assets -/
def stepTx (c : Cfg) (s : St) (e : Env) : Tx → Res (St × Nat)
  | .plain op => do
    let s' ← step c s e op
    pure (s', 0)
  | .reenter hk (.helperDeposit a0 a1 dur) => reenterDeposit c s e hk a0 a1 dur
  | .reenter _ outer => do
    let s' ← step c s e outer
    pure (s', 0)

def stepTxOrStay (c : Cfg) (s : St) (e : Env) (tx : Tx) : St :=
  match stepTx c s e tx with
  | .ok r => r.1
  | _ => s

/-- histories of plain and re-entrant transactions -/
def reachTx (c : Cfg) (s : St) : List (Env × Tx) → St
  | [] => s
  | (e, tx) :: t => reachTx c (stepTxOrStay c s e tx) t

end WW.Inc
