/-
  Executable model of the bonding contract `contracts/liquidity_hub/whale_lair`
  (commands.rs / state.rs / queries.rs / helpers.rs at the current HEAD, i.e. *with* the fix that
  makes `unbond` accumulate into an existing same-timestamp record), together with the part of the
  bank module that the contract's messages touch (funds attached to `bond`, the `BankMsg::Send` of
  `withdraw`).

  Addresses and denoms are `Nat` ids. Storage maps are association lists with first-match
  lookup / replace / remove (`BOND`, `UNBOND`, `GlobalIndex.bonded_assets`); map iteration order
  (ascending key) only matters for `withdraw`/`Withdrawable` (`take(MAX_PAGE_LIMIT)`), where it is
  expressed through the rank of a record among the caller's records, and for the printed queries,
  which sort.

  The two cross-contract guards of `bond`/`unbond` (`validate_claimed`,
  `validate_bonding_for_current_epoch`, both smart queries to the fee distributor) are an input of
  the environment: `Env.guardsOk`. `false` makes the call fail with `err` at exactly the place where
  the Rust returns `UnclaimedRewards` / `NewEpochNotCreatedYet`.

  COINS THE CONTRACT RECEIVES WITHOUT A BOND.  `execute` hands `info` to `bond` and `unbond` only;
  `unbond` never looks at `info.funds`, `withdraw` receives `info.sender` alone, `update_config` reads
  `info.sender` alone, and a plain bank transfer runs no contract code at all.  The bank moves such coins
  to the contract before the handler runs (all or nothing with the handler), and no handler ever sends
  anything but `withdraw`'s `BankMsg::Send` of exactly the removed records' sum.  So they stay: the model
  books them in the ghost ledger `St.strays` (who, which denom, how much; newest first), which no handler
  reads, to which only `receive` adds and from which nothing is ever removed.  `bond` needs exactly one
  coin that matches the asset, so nothing attached to an accepted `bond` is stray.

  MIGRATION (`Op.migrate`): `contract.rs::migrate` — `check_contract_name`; stored cw2 version `>=` crate
  version → `MigrateInvalidVersion`; stored `< 0.9.0` → `migrations::migrate_to_v090`, which loads the
  `config` item as `ConfigV080` (a `cw_serde` struct, i.e. `deny_unknown_fields`, WITHOUT
  `fee_distributor_addr`) and saves it back as `Config` with `fee_distributor_addr = ""`;
  `set_contract_version`.  On the layout every release since 0.9.0 writes, `ConfigV080` does not parse
  (unknown field `fee_distributor_addr`): the migration from a version below 0.9.0 is REFUSED and nothing
  changes.  On the 0.8.x layout (`oldLayout`) it succeeds, every field is carried over, and the fee
  distributor address is the empty string until the owner sets it again (`St.fdSet = false`: both guards'
  queries and the `Bonded` query of an address with a bond fail).  The chain lets only the wasm admin
  migrate (`Cfg.admin`).  No bond, unbonding record, global index, period, growth rate or balance is
  touched by any branch.
-/
import WW.Cw.Arith
import WW.Gen.Constants
namespace WW.Lair
open WW

/-- nanoseconds per second (`Timestamp::seconds`) -/
def NS : Nat := 1000000000

/-- immutable part of the configuration -/
structure Cfg where
  /-- `Config.bonding_assets` (native denoms) -/
  whitelist : List Nat
  /-- `Config.owner` (ownership transfer is not modelled) -/
  owner : Nat
  /-- fee distributor `epoch_config.genesis_epoch` (only used by the `Bonded` query) -/
  genesis : Nat
  /-- fee distributor `epoch_config.duration` -/
  epochDur : Nat
  /-- the wasm admin of the contract instance (the only address the chain lets migrate it) -/
  admin : Nat := owner

/-- an entry of `BOND : Map<(&Addr, &Denom), Bond>` -/
structure BondRec where
  addr : Nat
  denom : Nat
  amount : Nat
  weight : Nat
  ts : Nat
deriving Repr, DecidableEq

/-- an entry of `UNBOND : Map<(&Addr, &Denom, u64), Bond>` (weight is always 0, timestamp = key) -/
structure UnbRec where
  addr : Nat
  denom : Nat
  ts : Nat
  amount : Nat
deriving Repr, DecidableEq

/-- a coin the contract received without a bond: funds attached to `unbond` / `withdraw` /
    `update_config`, or a plain bank transfer -/
structure StrayRec where
  addr : Nat
  denom : Nat
  amount : Nat
deriving Repr, DecidableEq

/-- a cw2 / crate version `major.minor.patch` -/
structure Ver where
  major : Nat
  minor : Nat
  patch : Nat
deriving Repr, DecidableEq

/-- `semver::Version` order on release versions -/
def Ver.lt (a b : Ver) : Bool :=
  a.major < b.major ||
    (a.major == b.major && (a.minor < b.minor || (a.minor == b.minor && a.patch < b.patch)))

/-- `GLOBAL : Item<GlobalIndex>` (`may_load().unwrap_or_default()`: absent = all zero) -/
structure Global where
  bonded : Nat
  assets : List (Nat × Nat)
  ts : Nat
  weight : Nat
deriving Repr, DecidableEq

structure St where
  /-- `Config.unbonding_period` (ns) -/
  period : Nat
  /-- `Config.growth_rate` (Decimal atomics) -/
  rate : Nat
  bonds : List BondRec
  unbonds : List UnbRec
  global : Global
  /-- `GLOBAL` has been saved at least once (the `Weight` query fails before that) -/
  gset : Bool
  /-- bank balance of the contract per denom -/
  bal : Nat → Nat
  /-- bank balance of each account per denom -/
  ubal : Nat → Nat → Nat
  /-- ghost ledger of the coins received without a bond (newest first); read by no handler -/
  strays : List StrayRec
  /-- `Config.fee_distributor_addr` names a contract (`false`: the empty string `migrate_to_v090`
      leaves behind — every smart query to it fails) -/
  fdSet : Bool

/-- block time, sender and the fee distributor's answer to the two guards -/
structure Env where
  now : Nat
  sender : Nat
  guardsOk : Bool

/-- `Asset.info` of a message -/
inductive AssetRef where
  | native (d : Nat)
  | token
deriving Repr, DecidableEq

inductive Op where
  /-- `ExecuteMsg::Bond { asset }` with `info.funds` -/
  | bond (asset : AssetRef) (amount : Nat) (funds : List (Nat × Nat))
  /-- `ExecuteMsg::Unbond { asset }` with `info.funds = coins` (the handler never reads them) -/
  | unbond (asset : AssetRef) (amount : Nat) (coins : List (Nat × Nat))
  /-- `ExecuteMsg::Withdraw { denom }` with `info.funds = coins` (the handler is not even given `info`) -/
  | withdraw (denom : Nat) (coins : List (Nat × Nat))
  /-- `ExecuteMsg::UpdateConfig { unbonding_period, growth_rate, owner: None, fee_distributor_addr: None }`
      with `info.funds = coins` -/
  | config (period : Option Nat) (rate : Option Nat) (coins : List (Nat × Nat))
  /-- `ExecuteMsg::UpdateConfig { fee_distributor_addr: Some(a contract), .. : None }` -/
  | setFd
  /-- a plain `BankMsg::Send` of `coins` from the sender to the contract -/
  | send (coins : List (Nat × Nat))
  /-- the `migrate` entry point sent by `Env.sender` on an instance whose stored cw2 version is `stored`,
      with the code of crate version `crate`; `oldLayout`: the `config` item is in the 0.8.x layout -/
  | migrate (stored crate : Ver) (oldLayout : Bool)
deriving Repr, DecidableEq

/-! ### storage maps -/

def getBond (a d : Nat) : List BondRec → Option BondRec
  | [] => none
  | r :: t => if r.addr = a ∧ r.denom = d then some r else getBond a d t

def updBond (n : BondRec) : List BondRec → List BondRec
  | [] => [n]
  | r :: t => if r.addr = n.addr ∧ r.denom = n.denom then n :: t else r :: updBond n t

def delBond (a d : Nat) : List BondRec → List BondRec
  | [] => []
  | r :: t => if r.addr = a ∧ r.denom = d then t else r :: delBond a d t

/-- `UNBOND.may_load(key)` then `save` of `asset.amount (+ existing.amount)?` -/
def addUnb (a d ts x : Nat) : List UnbRec → Res (List UnbRec)
  | [] => .ok [⟨a, d, ts, x⟩]
  | r :: t =>
    if r.addr = a ∧ r.denom = d ∧ r.ts = ts then
      match cadd U128MAX x r.amount with
      | .ok y => .ok ({ r with amount := y } :: t)
      | .err => .err
      | .panic => .panic
    else
      match addUnb a d ts x t with
      | .ok t' => .ok (r :: t')
      | .err => .err
      | .panic => .panic

/-- `asset::aggregate_assets(assets, vec![asset])` -/
def aggAsset (d x : Nat) : List (Nat × Nat) → Res (List (Nat × Nat))
  | [] => .ok [(d, x)]
  | (e, y) :: t =>
    if e = d then
      match cadd U128MAX y x with
      | .ok z => .ok ((e, z) :: t)
      | .err => .err
      | .panic => .panic
    else
      match aggAsset d x t with
      | .ok t' => .ok ((e, y) :: t')
      | .err => .err
      | .panic => .panic

/-- `asset::deduct_assets(assets, vec![asset])`: not found is an error -/
def dedAsset (d x : Nat) : List (Nat × Nat) → Res (List (Nat × Nat))
  | [] => .err
  | (e, y) :: t =>
    if e = d then
      match csub y x with
      | .ok z => .ok ((e, z) :: t)
      | .err => .err
      | .panic => .panic
    else
      match dedAsset d x t with
      | .ok t' => .ok ((e, y) :: t')
      | .err => .err
      | .panic => .panic

/-- amount reported for denom `d` in a `bonded_assets` vector (0 when absent) -/
def assetAmt (d : Nat) : List (Nat × Nat) → Nat
  | [] => 0
  | (e, y) :: t => if e = d then y else assetAmt d t

/-! ### weights -/

/-- `state::get_weight` -/
def getWeight (now w amt rate ts : Nat) : Res Nat := do
  let tf ← if ts = 0 then (pure 0 : Res Nat) else csub (now / NS) (ts / NS)
  let m ← cmul U128MAX amt tf
  let x ← u128MulDec m rate
  cadd U128MAX w x

/-! ### execute -/

/-- local part of `commands::bond`: the new `BOND` entry -/
def bondLocal (s : St) (e : Env) (d x : Nat) : Res BondRec := do
  let old : BondRec := match getBond e.sender d s.bonds with
    | some b => b
    | none => { addr := e.sender, denom := d, amount := 0, weight := 0, ts := 0 }
  let amt ← cadd U128MAX old.amount x
  let w ← cadd U128MAX old.weight x
  let w ← getWeight e.now w amt s.rate old.ts
  pure { addr := e.sender, denom := d, amount := amt, weight := w, ts := e.now }

/-- global part of `commands::bond` -/
def bondGlobal (s : St) (e : Env) (d x : Nat) : Res Global := do
  let g := s.global
  let w ← cadd U128MAX g.weight x
  let b ← cadd U128MAX g.bonded x
  let as ← aggAsset d x g.assets
  let w ← getWeight e.now w b s.rate g.ts
  pure { bonded := b, assets := as, ts := e.now, weight := w }

/-- `ExecuteMsg::Bond`. The attached funds are moved by the bank before the handler runs
    (zero coin / insufficient balance → error); any number of coins other than one is rejected by
    `validate_funds` at the latest. -/
def bond (cfg : Cfg) (s : St) (e : Env) (asset : AssetRef) (x : Nat) (funds : List (Nat × Nat)) : Res St :=
  match funds with
  | [(fd, fa)] =>
    -- bank: "Cannot transfer empty coins amount", insufficient funds
    if fa = 0 then .err
    else if s.ubal e.sender fd < fa then .err
    else
    match asset with
    | .token => .err
    | .native d =>
      -- validate_funds
      if fa ≠ x ∨ fd ≠ d ∨ ¬ cfg.whitelist.contains d then .err
      -- validate_claimed / validate_bonding_for_current_epoch (smart queries to `fee_distributor_addr`)
      else if ¬ s.fdSet then .err
      else if ¬ e.guardsOk then .err
      else
      match bondLocal s e d x with
      | .err => .err
      | .panic => .panic
      | .ok nb =>
      match bondGlobal s e d x with
      | .err => .err
      | .panic => .panic
      | .ok ng =>
      match padd U128MAX (s.bal d) x with
      | .err => .err
      | .panic => .panic
      | .ok nbal =>
        .ok { s with
          bonds := updBond nb s.bonds
          global := ng
          gset := true
          bal := fun d' => if d' = d then nbal else s.bal d'
          ubal := fun a' d' => if a' = e.sender ∧ d' = d then s.ubal e.sender d - x else s.ubal a' d' }
  | _ => .err

/-- what `commands::unbond` computes from the caller's bond `b`:
    the remaining bond and the weight slash -/
def unbondLocal (s : St) (e : Env) (b : BondRec) (x : Nat) : Res (BondRec × Nat) := do
  -- update_local_weight
  let w ← getWeight e.now b.weight b.amount s.rate b.ts
  -- weight * Decimal::from_ratio(asset.amount, bond.amount)
  let ratio ← dec128FromRatio x b.amount
  let slash ← u128MulDec w ratio
  let w' ← csub w slash
  let amt ← csub b.amount x
  pure ({ b with amount := amt, weight := w', ts := e.now }, slash)

/-- global part of `commands::unbond` -/
def unbondGlobal (s : St) (e : Env) (d x slash : Nat) : Res Global := do
  let g := s.global
  let w ← getWeight e.now g.weight g.bonded s.rate g.ts
  let b ← csub g.bonded x
  let as ← dedAsset d x g.assets
  let w ← csub w slash
  pure { bonded := b, assets := as, ts := e.now, weight := w }

/-- `ExecuteMsg::Unbond` -/
def unbond (s : St) (e : Env) (asset : AssetRef) (x : Nat) : Res St :=
  if x = 0 then .err
  else
  match asset with
  | .token => .err
  | .native d =>
    if ¬ s.fdSet then .err
    else if ¬ e.guardsOk then .err
    else
    match getBond e.sender d s.bonds with
    | none => .err
    | some b =>
      if b.amount < x then .err
      else
      match unbondLocal s e b x with
      | .err => .err
      | .panic => .panic
      | .ok (nb, slash) =>
      match addUnb e.sender d e.now x s.unbonds with
      | .err => .err
      | .panic => .panic
      | .ok nu =>
      match unbondGlobal s e d x slash with
      | .err => .err
      | .panic => .panic
      | .ok ng =>
        .ok { s with
          bonds := if nb.amount = 0 then delBond e.sender d s.bonds else updBond nb s.bonds
          unbonds := nu
          global := ng
          gset := true }

/-- the records of `(a, d)` -/
def mine (a d : Nat) (r : UnbRec) : Bool := r.addr = a && r.denom = d

/-- position of `r` in the ascending iteration over `UNBOND.prefix((a, d))` -/
def rank (a d : Nat) (l : List UnbRec) (r : UnbRec) : Nat :=
  (l.filter fun x => mine a d x && x.ts < r.ts).length

/-- `r` is visited by `.take(MAX_PAGE_LIMIT)` and has passed the unbonding period at `now`:
    `timestamp.minus_nanos(period) >= bond.timestamp` -/
def matured (a d now period : Nat) (l : List UnbRec) (r : UnbRec) : Bool :=
  mine a d r && rank a d l r < Gen.LAIR_MAX_PAGE_LIMIT && r.ts ≤ now - period

def sumAmt : List UnbRec → Nat
  | [] => 0
  | r :: t => r.amount + sumAmt t

/-- `ExecuteMsg::Withdraw { denom }` -/
def withdraw (s : St) (e : Env) (d : Nat) : Res St :=
  let a := e.sender
  if (s.unbonds.filter (mine a d)).isEmpty then .err
  -- `Timestamp::minus_nanos` underflow panics (evaluated for the first record)
  else if e.now < s.period then .panic
  else
    let paid := s.unbonds.filter (matured a d e.now s.period s.unbonds)
    let kept := s.unbonds.filter fun r => !matured a d e.now s.period s.unbonds r
    let refund := sumAmt paid
    -- refund_amount.checked_add
    if U128MAX < refund then .err
    -- bank: "Cannot transfer empty coins amount", insufficient funds
    else if refund = 0 then .err
    else if s.bal d < refund then .err
    else
    match padd U128MAX (s.ubal a d) refund with
    | .err => .err
    | .panic => .panic
    | .ok nub =>
      .ok { s with
        unbonds := kept
        bal := fun d' => if d' = d then s.bal d - refund else s.bal d'
        ubal := fun a' d' => if a' = a ∧ d' = d then nub else s.ubal a' d' }

/-- `ExecuteMsg::UpdateConfig` restricted to `unbonding_period` / `growth_rate` -/
def config (cfg : Cfg) (s : St) (e : Env) (period rate : Option Nat) : Res St :=
  if e.sender ≠ cfg.owner then .err
  else
    let p := match period with
      | some p => p
      | none => s.period
    match rate with
    | some r => if E18 < r then .err else .ok { s with period := p, rate := r }
    | none => .ok { s with period := p }

/-- `UpdateConfig { fee_distributor_addr: Some(_) }`: owner only -/
def setFd (cfg : Cfg) (s : St) (e : Env) : Res St :=
  if e.sender ≠ cfg.owner then .err else .ok { s with fdSet := true }

/-! ### coins received without a bond -/

/-- the bank moves one (non-zero) coin from `a` to the contract; it is entered into the stray ledger -/
def receive1 (s : St) (a d x : Nat) : Res St :=
  -- insufficient funds
  if s.ubal a d < x then .err
  else
  match padd U128MAX (s.bal d) x with
  | .err => .err
  | .panic => .panic
  | .ok nbal =>
    .ok { s with
      bal := fun d' => if d' = d then nbal else s.bal d'
      ubal := fun a' d' => if a' = a ∧ d' = d then s.ubal a d - x else s.ubal a' d'
      strays := ⟨a, d, x⟩ :: s.strays }

def receiveAll (s : St) (a : Nat) : List (Nat × Nat) → Res St
  | [] => .ok s
  | (d, x) :: t =>
    match receive1 s a d x with
    | .ok s1 => receiveAll s1 a t
    | .err => .err
    | .panic => .panic

/-- the bank's part of a message that carries `coins` to the contract, before any handler runs
    (the mock bank's `normalize_amount`: zero coins are dropped; nothing left of a non-empty list →
    "Cannot transfer empty coins amount"; an empty list moves nothing) -/
def receive (s : St) (a : Nat) (coins : List (Nat × Nat)) : Res St :=
  if coins.isEmpty then .ok s
  else
    let nz := coins.filter fun c => c.2 != 0
    if nz.isEmpty then .err else receiveAll s a nz

/-- the 0.9.0 threshold of `contract.rs::migrate` -/
def V090 : Ver := ⟨0, 9, 0⟩

/-- the `migrate` entry point -/
def migrate (cfg : Cfg) (s : St) (e : Env) (stored crate : Ver) (oldLayout : Bool) : Res St :=
  -- chain: "Only admin can migrate contract"
  if e.sender ≠ cfg.admin then .err
  -- `storage_version >= version` → MigrateInvalidVersion
  else if ¬ stored.lt crate then .err
  else if stored.lt V090 then
    -- migrate_to_v090: `ConfigV080` parses the 0.8.x layout only; `fee_distributor_addr := ""`
    if oldLayout then .ok { s with fdSet := false } else .err
  else .ok s

/-- run `h` on the state in which the attached coins have arrived; all or nothing -/
def withCoins (s : St) (a : Nat) (coins : List (Nat × Nat)) (h : St → Res St) : Res St :=
  match receive s a coins with
  | .ok s1 => h s1
  | .err => .err
  | .panic => .panic

def step (cfg : Cfg) (s : St) (e : Env) : Op → Res St
  | .bond asset x funds => bond cfg s e asset x funds
  | .unbond asset x coins => withCoins s e.sender coins fun s1 => unbond s1 e asset x
  | .withdraw d coins => withCoins s e.sender coins fun s1 => withdraw s1 e d
  | .config p r coins => withCoins s e.sender coins fun s1 => config cfg s1 e p r
  | .setFd => setFd cfg s e
  | .send coins => if coins.isEmpty then .err else receive s e.sender coins
  | .migrate stored crate l => migrate cfg s e stored crate l

/-- a failed operation leaves the state as it was (all-or-nothing transaction) -/
def stepOrStay (cfg : Cfg) (s : St) (eo : Env × Op) : St :=
  match step cfg s eo.1 eo.2 with
  | .ok s' => s'
  | _ => s

/-- the state after a history -/
def reach (cfg : Cfg) (s : St) (ops : List (Env × Op)) : St :=
  ops.foldl (stepOrStay cfg) s

/-- state right after instantiation and the owner's `UpdateConfig { fee_distributor_addr }` -/
def init (period rate : Nat) (ubal : Nat → Nat → Nat) : St :=
  { period := period, rate := rate, bonds := [], unbonds := [],
    global := { bonded := 0, assets := [], ts := 0, weight := 0 }, gset := false,
    bal := fun _ => 0, ubal := ubal, strays := [], fdSet := true }

/-! ### queries -/

def insertBy {α : Type} (key : α → Nat) (x : α) : List α → List α
  | [] => [x]
  | y :: t => if key x < key y then x :: y :: t else y :: insertBy key x t

def sortBy {α : Type} (key : α → Nat) (l : List α) : List α :=
  l.foldr (insertBy key) []

/-- `helpers::calculate_epoch` -/
def calcEpoch (cfg : Cfg) (ts : Nat) : Res Nat :=
  if ts < cfg.genesis then .ok 0
  else do
    let q ← cdiv (ts - cfg.genesis) cfg.epochDur
    cadd U64MAX q 1

/-- `QueryMsg::Bonded { address }` → (total_bonded, bonded_assets, first_bonded_epoch_id) -/
def qBonded (cfg : Cfg) (s : St) (a : Nat) : Res (Nat × List (Nat × Nat) × Nat) :=
  let bs := (sortBy (·.denom) (s.bonds.filter fun r => r.addr = a)).take Gen.LAIR_BONDING_ASSETS_LIMIT
  if bs.isEmpty then .ok (0, [], 0)
  -- the smart query for the fee distributor's `Config` (after the sums, which cannot fail on a
  -- reachable state; both failures are `Err`)
  else if ¬ s.fdSet then .err
  else do
    let first := bs.foldl (fun f b => if b.ts / NS < f / NS then b.ts else f) (16725229261 * NS)
    let total ← bs.foldlM (fun acc b => cadd U128MAX acc b.amount) 0
    let ep ← calcEpoch cfg first
    pure (total, bs.map (fun b => (b.denom, b.amount)), ep)

/-- all records of `(a, d)` in key order (`QueryMsg::Unbonding`, all pages) -/
def qUnbonding (s : St) (a d : Nat) : List UnbRec :=
  sortBy (·.ts) (s.unbonds.filter (mine a d))

/-- one page of `QueryMsg::Unbonding { address, denom, start_after, limit }`:
    `limit.unwrap_or(DEFAULT_PAGE_LIMIT).min(MAX_PAGE_LIMIT)` records with key `> start_after` -/
def qUnbondingPage (s : St) (a d : Nat) (startAfter limit : Option Nat) : List UnbRec :=
  let all : List UnbRec := qUnbonding s a d
  let from_ : List UnbRec := match startAfter with
    | some t => all.filter fun (r : UnbRec) => t < r.ts
    | none => all
  from_.take (min (limit.getD Gen.LAIR_DEFAULT_PAGE_LIMIT) Gen.LAIR_MAX_PAGE_LIMIT)

/-- `QueryMsg::Withdrawable { address, denom }` at block time `now` -/
def qWithdrawable (s : St) (now a d : Nat) : Res Nat :=
  if (s.unbonds.filter (mine a d)).isEmpty then .ok 0
  else if now < s.period then .panic
  else
    let w := sumAmt (s.unbonds.filter (matured a d now s.period s.unbonds))
    if U128MAX < w then .err else .ok w

/-- `QueryMsg::Weight { address, timestamp: None, global_index: None }` → (weight, global_weight, share) -/
def qWeight (s : St) (now a : Nat) : Res (Nat × Nat × Nat) := do
  let bs := (sortBy (·.denom) (s.bonds.filter fun r => r.addr = a)).take Gen.LAIR_MAX_PAGE_LIMIT
  let total ← bs.foldlM (fun acc b => do
    let w ← getWeight now b.weight b.amount s.rate b.ts
    cadd U128MAX acc w) 0
  -- `GLOBAL.may_load(..)...ok_or_else(|| "Global index not found")`
  guardErr s.gset
  let gw ← getWeight now s.global.weight s.global.bonded s.rate s.global.ts
  let share ← dec128FromRatio total gw
  pure (total, gw, share)

/-! ### ledger sums (the vocabulary of the C08 statements; not used by `step`) -/

/-- Σ of the bonds of denom `d` over all users -/
def sumBond (d : Nat) : List BondRec → Nat
  | [] => 0
  | r :: t => (if r.denom = d then r.amount else 0) + sumBond d t

/-- Σ of all bonds -/
def sumBondAll : List BondRec → Nat
  | [] => 0
  | r :: t => r.amount + sumBondAll t

/-- what user `a` has bonded in denom `d` (Σ over the entries at that key) -/
def sumBondOf (a d : Nat) : List BondRec → Nat
  | [] => 0
  | r :: t => (if r.addr = a ∧ r.denom = d then r.amount else 0) + sumBondOf a d t

/-- the amount of the entry found at `(a, d)` (0 when there is none) -/
def bondedOf (a d : Nat) (l : List BondRec) : Nat :=
  match getBond a d l with
  | some b => b.amount
  | none => 0

/-- Σ of the pending unbondings of denom `d` over all users -/
def sumUnb (d : Nat) : List UnbRec → Nat
  | [] => 0
  | r :: t => (if r.denom = d then r.amount else 0) + sumUnb d t

/-- Σ of the pending unbondings of user `a` in denom `d` -/
def sumUnbOf (a d : Nat) : List UnbRec → Nat
  | [] => 0
  | r :: t => (if r.addr = a ∧ r.denom = d then r.amount else 0) + sumUnbOf a d t

/-- Σ of the stray coins of denom `d` (whoever sent them) -/
def sumStray (d : Nat) : List StrayRec → Nat
  | [] => 0
  | r :: t => (if r.denom = d then r.amount else 0) + sumStray d t

/-- Σ of the stray coins of denom `d` that `a` sent -/
def sumStrayOf (a d : Nat) : List StrayRec → Nat
  | [] => 0
  | r :: t => (if r.addr = a ∧ r.denom = d then r.amount else 0) + sumStrayOf a d t

/-- Σ of the coins of denom `d` in a funds vector -/
def coinsAmt (d : Nat) : List (Nat × Nat) → Nat
  | [] => 0
  | (e, x) :: t => (if e = d then x else 0) + coinsAmt d t

/-- the amount recorded at the `UNBOND` key `(a, d, ts)` -/
def recAmt (a d ts : Nat) : List UnbRec → Nat
  | [] => 0
  | r :: t => (if r.addr = a ∧ r.denom = d ∧ r.ts = ts then r.amount else 0) + recAmt a d ts t

end WW.Lair
