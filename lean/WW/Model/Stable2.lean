/-
  Replica of the two-asset stableswap code of `terraswap_pair` (default features):
    helpers.rs   calculate_stableswap_d, calculate_stableswap_y, compute_d, compute_next_d,
                 compute_lp_mint_amount_for_stableswap_deposit, compute_swap (StableSwap arm)
    math.rs      Decimal256Helper::{decimal_with_precision, checked_multiply_ratio,
                 to_uint256_with_precision}                    (in WW/Cw/Arith.lean)
    commands.rs  provide_liquidity (StableSwap branch), swap, withdraw_liquidity
  Every loop is structural recursion on the code's own iteration cap; every `?` is an `err`,
  every `unwrap()` / unchecked operator a `panic`.
  `Decimal256` values are their atomics (18 decimals), `Uint256`/`Uint512`/`Uint128` are `Nat`
  with the width made explicit at each checked / unchecked operation.
-/
import WW.Cw.Arith
import WW.Gen.Constants
import WW.Model.CpSwap
namespace WW

/-! ### calculate_stableswap_d (Decimal256, normalised pools) -/

/-- `N_COINS` -/
def SS_N : Nat := Gen.PAIR_N_COINS
/-- `Decimal256::from_ratio(N_COINS, 1)` -/
def SS_N_DEC : Nat := SS_N * E18

/-- one Newton step of `calculate_stableswap_d`: the `try_fold` over `[offer_pool, ask_pool]`
    followed by the update of `current_d` -/
def ssDStep (op ap ann sum cur : Nat) : Res Nat := do
  -- fold, first pool
  let m0 ← dec256MulC op SS_N_DEC
  let a0 ← mulRatioC U256MAX cur cur m0
  -- fold, second pool
  let m1 ← dec256MulC ap SS_N_DEC
  let newD ← mulRatioC U256MAX a0 cur m1
  -- (ann * sum_pools + new_d * n_coins) * current_d
  let t1 ← dec256MulC ann sum
  let t2 ← dec256MulC newD SS_N_DEC
  let t3 ← cadd U256MAX t1 t2
  let num ← dec256MulC t3 cur
  -- (ann - 1) * current_d + (n_coins + 1) * new_d
  let u1 ← csub ann E18
  let u2 ← dec256MulC u1 cur
  let u3 ← cadd U256MAX SS_N_DEC E18
  let u4 ← dec256MulC u3 newD
  let den ← cadd U256MAX u2 u4
  dec256DivC num den

/-- the `for _ in 0..NEWTON_ITERATIONS` loop of `calculate_stableswap_d` -/
def ssDLoop : Nat → Nat → Nat → Nat → Nat → Nat → Nat → Res Nat
  | 0, _, _, _, _, _, _ => .err            -- ConvergeError
  | k + 1, op, ap, ann, sum, prec, cur => do
    let d ← ssDStep op ap ann sum cur
    if cur ≤ d then do
      let diff ← csub d cur
      let thr ← dec256WithPrecision 1 prec
      if diff ≤ thr then pure d else ssDLoop k op ap ann sum prec d
    else do
      let diff ← csub cur d
      let thr ← dec256WithPrecision 1 prec
      if diff ≤ thr then pure d else ssDLoop k op ap ann sum prec d

/-- `calculate_stableswap_d(offer_pool, ask_pool, amp, precision)` -/
def ssD (op ap amp prec : Nat) : Res Nat := do
  let sum ← cadd U256MAX op ap
  if sum = 0 then pure 0 else do
    let a2 ← cmul U256MAX amp SS_N
    let ann ← dec256FromRatio a2 1
    ssDLoop Gen.PAIR_NEWTON_ITERATIONS op ap ann sum prec sum

/-! ### calculate_stableswap_y (Uint256 at ask precision) -/

/-- one Newton step `y ← (y² + c) / (2y + b − d)` -/
def ssYStep (b c d y : Nat) : Res Nat := do
  let yy ← cmul U256MAX y y
  let num ← cadd U256MAX yy c
  let y2 ← cadd U256MAX y y
  let y2b ← cadd U256MAX y2 b
  let den ← csub y2b d
  cdiv num den

/-- the Newton loop of `calculate_stableswap_y` with its termination test and the final
    `try_into::<Uint128>()` -/
def ssYLoop : Nat → Nat → Nat → Nat → Nat → Res Nat
  | 0, _, _, _, _ => .err                  -- ConvergeError
  | k + 1, b, c, d, y => do
    let y' ← ssYStep b c d y
    if y ≤ y' then do
      let diff ← csub y' y
      if diff ≤ 1 then to128 y' else ssYLoop k b c d y'
    else do
      let diff ← csub y y'
      if diff ≤ 1 then to128 y' else ssYLoop k b c d y'

/-- `calculate_stableswap_y(offer_pool, ask_pool, offer_amount, amp, ask_precision, direction)`;
    `dir = 0` is `Simulate`, anything else `ReverseSimulate`. Pools / offer are Decimal256 atomics. -/
def ssY (op ap off amp askPrec dir : Nat) : Res Nat := do
  let ann ← cmul U256MAX amp SS_N
  let dDec ← ssD op ap amp askPrec
  let d ← dec256ToUintPrecision dDec askPrec
  let psDec ← (if dir = 0 then cadd U256MAX op off else csub ap off)
  let ps ← dec256ToUintPrecision psDec askPrec
  let ps2 ← cmul U256MAX ps SS_N
  let c1 ← mulRatioC U256MAX d d ps2
  let ann2 ← cmul U256MAX ann SS_N
  let c ← mulRatioC U256MAX c1 d ann2
  let q ← cdiv d ann
  let b ← cadd U256MAX ps q
  ssYLoop Gen.PAIR_NEWTON_ITERATIONS b c d d

/-! ### compute_swap, StableSwap arm -/

def ssSwap (opool apool off : Nat) (f : Fees) (amp offPrec askPrec : Nat) : Res SwapComp := do
  let opD ← dec256WithPrecision opool offPrec
  let apD ← dec256WithPrecision apool askPrec
  let offD ← dec256WithPrecision off offPrec
  let newPool ← ssY opD apD offD amp askPrec 0
  let apU ← dec256ToUintPrecision apD askPrec
  -- ask_pool.checked_sub(new_pool)?
  let gross ← csub apU newPool
  let offU ← dec256ToUintPrecision offD askPrec
  -- saturating_sub
  let spread := offU - gross
  let sf ← u256MulDec gross f.swap
  let pf ← u256MulDec gross f.prot
  let bf ← u256MulDec gross f.burn
  let r1 ← csub gross sf
  let r2 ← csub r1 pf
  let ret ← csub r2 bf
  let ret ← to128 ret
  let spread ← to128 spread
  let sf ← to128 sf
  let pf ← to128 pf
  let bf ← to128 bf
  pure { ret := ret, spread := spread, swapFee := sf, protFee := pf, burnFee := bf }

/-! ### compute_d / compute_next_d (Uint512, RAW amounts) -/

/-- `compute_next_d`; every `None` / failed `unwrap` ends in the caller's `unwrap()` → panic -/
def computeNextD (amp dInit dProd sumX : Nat) : Res Nat := do
  let ann ← pmul64 amp SS_N
  let lev ← pmul U512MAX sumX ann
  let dp2 ← pmul U512MAX dProd SS_N
  let s ← padd U512MAX dp2 lev
  let num ← pmul U512MAX dInit s
  let am1 ← psub ann 1
  let t ← pmul U512MAX dInit am1
  let dp3 ← pmul U512MAX dProd (SS_N + 1)
  let den ← padd U512MAX t dp3
  pdiv num den

/-- the body of the `for _ in 0..256` loop of `compute_d`: `d_prod`, then `compute_next_d` -/
def computeDStep (amp a2 b2 sumX d : Nat) : Res Nat := do
  let p0 ← pmul U512MAX d d
  let p1 ← pdiv p0 a2
  let p2 ← pmul U512MAX p1 d
  let dProd ← pdiv p2 b2
  computeNextD amp d dProd sumX

/-- the `for _ in 0..256` loop of `compute_d` (falls through with the last `d` when it never
    meets the `≤ 1` test) -/
def computeDLoop : Nat → Nat → Nat → Nat → Nat → Nat → Res Nat
  | 0, _, _, _, _, d => .ok d
  | k + 1, amp, a2, b2, sumX, d => do
    let d' ← computeDStep amp a2 b2 sumX d
    if d < d' then
      (if d' - d ≤ 1 then pure d' else computeDLoop k amp a2 b2 sumX d')
    else
      (if d - d' ≤ 1 then pure d' else computeDLoop k amp a2 b2 sumX d')

/-- the iteration cap written in `compute_d` (`for _ in 0..256`) -/
def COMPUTE_D_ITERATIONS : Nat := Gen.PAIR_COMPUTE_D_ITERATIONS

/-- `compute_d(amp, amount_a, amount_b).unwrap()` (it never returns `None`) -/
def computeD (amp a b : Nat) : Res Nat := do
  let sumX ← padd U128MAX a b
  if sumX = 0 then pure 0 else do
    let a2 ← pmul U128MAX a SS_N
    let b2 ← pmul U128MAX b SS_N
    computeDLoop COMPUTE_D_ITERATIONS amp a2 b2 sumX sumX

/-- the quotient `supply * (d1 - d0) / d0` and its `Uint128::try_from(..).unwrap()` -/
def lpMintQuot (supply d0 d1 : Nat) : Res Nat := do
  let diff ← psub d1 d0
  let m ← pmul U512MAX supply diff
  let q ← pdiv m d0
  if q ≤ U128MAX then pure q else .panic

/-- `compute_lp_mint_amount_for_stableswap_deposit`: `ok none` is the function's `None`
    (`d_1 <= d_0`), panics are its internal `unwrap`s -/
def ssLpMint (amp da db sa sb supply : Nat) : Res (Option Nat) := do
  let d0 ← computeD amp sa sb
  let na ← padd U128MAX sa da
  let nb ← padd U128MAX sb db
  let d1 ← computeD amp na nb
  if d1 ≤ d0 then pure none else do
    let q ← lpMintQuot supply d0 d1
    pure (some q)

/-! ### pool state machine: provide (StableSwap branch) / swap / withdraw
    Both assets native; three users; LP is a cw20. -/

structure SsCfg where
  amp : Nat
  dec0 : Nat
  dec1 : Nat
  fees : Fees
  /-- asset kinds: `true` = cw20 token, `false` = native coin (the default). The only places where the kind is
      observable: the bank refuses a zero-amount coin (as attached funds and as a `BankMsg::Send`), cw20-base 1.1
      accepts a zero-amount `Send` / `Transfer` -/
  cw0 : Bool := false
  cw1 : Bool := false
deriving Repr, DecidableEq

structure SsUser where
  a : Nat
  b : Nat
  lp : Nat
deriving Repr, DecidableEq

structure SsSt where
  /-- bank balances of the pair contract -/
  bal0 : Nat
  bal1 : Nat
  /-- `COLLECTED_PROTOCOL_FEES` -/
  pend0 : Nat
  pend1 : Nat
  /-- LP total supply and the part held by the pair itself -/
  sup : Nat
  lpPair : Nat
  users : List SsUser
deriving Repr, DecidableEq

inductive SsOp where
  | provide (u d0 d1 : Nat)
  | swap (u dir off : Nat)
  | withdraw (u amt : Nat)
  /-- `CollectProtocolFees {}` (permissionless): pending entries above the collectable minimum are sent
      to the fee collector (not one of the users) and reset -/
  | collect
deriving Repr, DecidableEq

def SsSt.user (s : SsSt) (u : Nat) : SsUser := s.users.getD u { a := 0, b := 0, lp := 0 }
def SsSt.setUser (s : SsSt) (u : Nat) (x : SsUser) : SsSt := { s with users := s.users.set u x }

/-- reported reserves (`Pool` query): balance − pending protocol fees -/
def SsSt.r0 (s : SsSt) : Nat := s.bal0 - s.pend0
def SsSt.r1 (s : SsSt) : Nat := s.bal1 - s.pend1

/-- 50 %: `MAX_ALLOWED_SLIPPAGE`, the `max_spread` every swap of the engine passes -/
def SS_MAX_SPREAD : Nat := E18 / 2

/-- `provide_liquidity`, StableSwap branch, no slippage tolerance, receiver = sender -/
def ssProvide (cfg : SsCfg) (s : SsSt) (u d0 d1 : Nat) : Res SsSt := do
  let usr := s.user u
  -- the bank moves the attached funds first
  guardErr (decide (u < s.users.length))
  guardErr (decide (d0 ≤ usr.a ∧ d1 ≤ usr.b))
  guardErr (decide (d0 ≠ 0 ∧ d1 ≠ 0))
  -- pools: balance (incl. deposit) − deposit − collected protocol fee
  let p0 ← csub s.bal0 s.pend0
  let p1 ← csub s.bal1 s.pend1
  if s.sup = 0 then do
    let d ← computeD cfg.amp d0 d1
    let d ← to128 d
    let minLp := Gen.MINIMUM_LIQUIDITY_AMOUNT * 2
    let share := d - minLp
    guardErr (decide (share ≠ 0))
    guardPanic (decide (minLp + share ≤ U128MAX))
    let usr' : SsUser := { a := usr.a - d0, b := usr.b - d1, lp := usr.lp + share }
    pure ({ s with bal0 := s.bal0 + d0, bal1 := s.bal1 + d1, sup := minLp + share,
                   lpPair := s.lpPair + minLp }.setUser u usr')
  else do
    let m ← ssLpMint cfg.amp d0 d1 p0 p1 s.sup
    match m with
    | none => .panic                         -- `.unwrap()` on `None`
    | some share => do
      -- (cw20-base 1.1 accepts a zero-amount mint: a deposit can mint nothing and still succeed)
      guardPanic (decide (s.sup + share ≤ U128MAX))
      let usr' : SsUser := { a := usr.a - d0, b := usr.b - d1, lp := usr.lp + share }
      pure ({ s with bal0 := s.bal0 + d0, bal1 := s.bal1 + d1, sup := s.sup + share }.setUser u usr')

/-- `assert_max_spread(None, Some(50%), offer, return + fees, spread)` -/
def ssSpreadCheck (retPlusFees spread : Nat) : Res Unit := do
  let den ← padd U128MAX retPlusFees spread
  let r ← dec256FromRatio spread den
  guardErr (decide (r ≤ SS_MAX_SPREAD))

/-- `swap` (native offer asset, `belief_price = None`, `max_spread = 50%`, `to = None`);
    `dir = 0` offers asset 0 -/
def ssSwapOp (cfg : SsCfg) (s : SsSt) (u dir off : Nat) : Res SsSt := do
  let usr := s.user u
  guardErr (decide (u < s.users.length))
  guardErr (decide (dir ≤ 1))
  -- a native offer travels as funds: the bank refuses a zero coin; a cw20 `Send` of zero reaches the hook
  guardErr (decide (off ≠ 0) || (if dir = 0 then cfg.cw0 else cfg.cw1))
  guardErr (decide (off ≤ (if dir = 0 then usr.a else usr.b)))
  let p0 ← csub s.bal0 s.pend0
  let p1 ← csub s.bal1 s.pend1
  let c ← (if dir = 0 then ssSwap p0 p1 off cfg.fees cfg.amp cfg.dec0 cfg.dec1
           else ssSwap p1 p0 off cfg.fees cfg.amp cfg.dec1 cfg.dec0)
  let f1 ← cadd U128MAX c.swapFee c.protFee
  let fees ← cadd U128MAX f1 c.burnFee
  let rf ← cadd U128MAX c.ret fees
  ssSpreadCheck rf c.spread
  if dir = 0 then
    pure ({ s with bal0 := s.bal0 + off, bal1 := s.bal1 - c.ret - c.burnFee,
                   pend1 := s.pend1 + c.protFee }.setUser u
            { usr with a := usr.a - off, b := usr.b + c.ret })
  else
    pure ({ s with bal1 := s.bal1 + off, bal0 := s.bal0 - c.ret - c.burnFee,
                   pend0 := s.pend0 + c.protFee }.setUser u
            { usr with b := usr.b - off, a := usr.a + c.ret })

/-- `withdraw_liquidity` through the LP token's `Send` hook -/
def ssWithdraw (cfg : SsCfg) (s : SsSt) (u amt : Nat) : Res SsSt := do
  let usr := s.user u
  guardErr (decide (u < s.users.length))
  -- (cw20-base 1.1 accepts a zero-amount `Send`; the zero refunds below are what fails)
  guardErr (decide (amt ≤ usr.lp))
  let p0 ← csub s.bal0 s.pend0
  let p1 ← csub s.bal1 s.pend1
  let ratio ← dec128FromRatio amt s.sup
  let x0 ← u128MulDec p0 ratio
  let x1 ← u128MulDec p1 ratio
  -- the bank rejects a zero-amount send; a cw20 transfer of zero goes through
  guardErr ((decide (x0 ≠ 0) || cfg.cw0) && (decide (x1 ≠ 0) || cfg.cw1))
  pure ({ s with bal0 := s.bal0 - x0, bal1 := s.bal1 - x1, sup := s.sup - amt }.setUser u
          { a := usr.a + x0, b := usr.b + x1, lp := usr.lp - amt })

/-- one asset's side of `collect_protocol_fees` -/
def ssCollectSide (bal pend : Nat) : Res (Nat × Nat) :=
  if pend > Gen.PAIR_MINIMUM_COLLECTABLE_BALANCE then do
    let b ← csub bal pend
    pure (b, 0)
  else pure (bal, pend)

/-- `collect_protocol_fees`: the all-time ledger (not part of this state) keeps growing, the pending one is
    what every later operation nets out of the balances -/
def ssCollect (s : SsSt) : Res SsSt := do
  let x0 ← ssCollectSide s.bal0 s.pend0
  let x1 ← ssCollectSide s.bal1 s.pend1
  pure { s with bal0 := x0.1, pend0 := x0.2, bal1 := x1.1, pend1 := x1.2 }

def ssStep (cfg : SsCfg) (s : SsSt) : SsOp → Res SsSt
  | .provide u d0 d1 => ssProvide cfg s u d0 d1
  | .swap u dir off => ssSwapOp cfg s u dir off
  | .withdraw u amt => ssWithdraw cfg s u amt
  | .collect => ssCollect s

/-- run a history; a failed operation leaves the state untouched -/
def ssReach (cfg : SsCfg) (s : SsSt) : List SsOp → SsSt
  | [] => s
  | op :: ops =>
    match ssStep cfg s op with
    | .ok s' => ssReach cfg s' ops
    | _ => ssReach cfg s ops

def ssInit (balA balB : Nat) : SsSt :=
  { bal0 := 0, bal1 := 0, pend0 := 0, pend1 := 0, sup := 0, lpPair := 0,
    users := [{ a := balA, b := balB, lp := 0 }, { a := balA, b := balB, lp := 0 },
              { a := balA, b := balB, lp := 0 }] }

end WW
