/-
  The joint state machine the `feeflow` engine is compared against: fee distributor ledger
  (`Distributor`) + fee collector pipeline (`Collector`) + the bookkeeping of what the un-modelled
  contracts told us (lair `Bonded` view per address; route / pair registry as set by the admin ops).

  `NewEpoch` = distributor `create_new_epoch` (clock) → collector `ForwardFees` (sender = distributor)
  → distributor `reply` (rollover, new epoch).  Everything fails or succeeds together (`Res`).

  STRAY COINS.  Any execute message can carry native coins (`info.funds`).  The bank moves them from the
  sender to the contract the message is addressed to BEFORE the contract runs; none of the entry points of
  the fee collector (`CollectFees`, `AggregateFees`, `ForwardFees`, `UpdateConfig`), the fee distributor
  (`NewEpoch`, `Claim`, `UpdateConfig`), the router (`AddSwapRoutes`, `RemoveSwapRoutes`) or the lair's
  `Unbond` looks at `info.funds`, so the coins simply stay on the receiving contract: a gift, then the
  operation, atomically (a failing operation reverts the gift).  The lair's `Bond` is the exception: it
  refuses anything but exactly the one coin being bonded (`validate_funds`).  `Op.coins payer asset amount op`
  = `op` sent with `amount` of `asset` attached by `payer` (nested `coins` = several coins); `asset` may
  be any index, also one that is no asset of the world (an unrelated denom: index `nassets`).

  SWAPS THAT FAIL FOR REASONS OUTSIDE THE MODEL.  The router executes the collector's aggregation swaps with
  `max_spread: 50 %`; a pair refuses a swap whose spread exceeds that (an amount of the size of the pair's
  reserve), and at the top of the u128 range its arithmetic can overflow.  Reserves are not part of this
  model, so WHETHER a swap the collector sends goes through is recorded from the real transaction, like the
  router's outputs: `Op.xfail code op` = `op` (a `NewEpoch` or a direct `AggregateFees`) in a transaction
  whose swap execution failed (`code` 1 = `Err`, 2 = panic): it fails iff it sends at least one swap message,
  otherwise it is `op`.

  RE-ENTRANCY.  A registered pair / vault need not be an honest contract (the factories instantiate whatever
  code id their owner configured).  `Op.reenter trig caught inner outer` = the transaction of `outer` in which a
  hostile registered contract, when the collector (or the router on the collector's behalf) calls it, sends
  `inner` ONCE before it returns: `trig` says which call (`CollectProtocolFees` of pair / vault `k`, `Swap` of
  pair `k` as a hop of an aggregation route), `caught` whether the hostile contract sent it as a sub-message and
  swallows its failure (`reply_on: Always`).  The hooked pipeline (`HS`, `fire`, `…H` below) is the message
  order of the real code: a factory page is read when the `CollectFees` / `AggregateFees` handler runs and its
  messages then execute in listing order; an aggregation pass decides what to swap (and how much) when its
  handler runs and the swap messages then execute one by one with the funds decided then; `ForwardFees` stores
  `TMP_EPOCH`, the collector's reply needs it (`CannotReadEpoch`) and REMOVES it — which is what refuses a
  `NewEpoch` nested into a `NewEpoch`: the nested one runs the whole pipeline and its reply consumes `TMP_EPOCH`,
  so the outer reply fails and the whole transaction (both epochs) reverts.

  THE PIPELINE FROM INSIDE A FLASH-LOAN CALLBACK.  `NewEpoch`, `CollectFees` and `AggregateFees` are permissionless, so
  the borrower of a flash loan on a registered vault can send them from its callback, while the vault's
  `LOAN_COUNTER` is 1 and its balance is down by the loan.  `Op.inloan k amount mode vbal fees inner` = the transaction
  `FlashLoan { amount }` on vault `k` whose borrower sends `inner` from its callback and then repays.  What the real
  vault does (`vault/src/execute/{flash_loan,collect_protocol_fee}.rs`, `execute/callback/after_trade.rs`):
  `flash_loan` records its balance (`vbal`, not part of this model's state: recorded from the real run like the
  router's outputs), sends `amount` to the borrower with the callback and queues `AfterTrade { old_balance, amount }`;
  `collect_protocol_fees` does NOT look at the loan counter: it zeroes the pending ledger and sends the pending amount
  to the collector out of the loan-reduced balance (a bank send that fails, and with it the whole transaction, when
  the balance does not cover it); `after_trade` computes the three fees `⌊amount · share⌋` from `Config.fees`
  (`fees`, recorded from the `Config` query), requires `balance ≥ old_balance + protocol + flash + burn`
  (`NegativeProfit` otherwise), adds the protocol fee to the pending (and all-time) ledger and burns the burn fee.
  The borrower of the engine tops the vault up to exactly the required balance (`exact`), to more (`over x`) or to one
  unit less (`short`): it therefore also MAKES UP FOR THE FEES THE VAULT PAID OUT to the collector in mid-loan.
-/
import WW.Model.Distributor
import WW.Model.Collector
namespace WW.Feeflow
open WW

structure Cfg where
  d : Distributor.Cfg
  c : Collector.Cfg
  nusers : Nat

structure St where
  d : Distributor.St
  c : Collector.St
  /-- lair `Bonded{address}` per address: `none` = no bonded assets, `some fb` = first bonded epoch id -/
  view : Nat → Option Nat
  /-- balance per address and asset -/
  ub : Nat → Nat → Nat
  /-- the DAO's balance per asset (the take rate is paid in whatever the distribution asset is) -/
  daoBal : Nat → Nat
  /-- the router's swap routes: `rts ask offer` = hops of the route `offer → ask`; `[]` = none.  The
      collector asks for routes towards the CURRENT distribution asset (`cview`) -/
  rts : Nat → Nat → List (Nat × Nat)
  /-- balances of the other contracts the engine sends messages to, per asset: `xb 0` = the router,
      `xb 1` = the whale lair.  Only stray coins ever land there. -/
  xb : Nat → Nat → Nat

/-- which call of a hostile registered contract triggers the nested message -/
inductive Trig where
  /-- `CollectProtocolFees` sent to pair `k` -/
  | poolCollect (k : Nat)
  /-- `CollectProtocolFees` sent to vault `k` -/
  | vaultCollect (k : Nat)
  /-- `Swap` sent to pair `k` by the router while it executes an aggregation route of the collector -/
  | poolSwap (k : Nat)
deriving Repr, DecidableEq

/-- how the borrower of an `inloan` transaction repays: it tops the vault up to the balance `after_trade` requires
    (`exact`), to `extra` more (`over`), or to one unit less (`short`) -/
inductive Repay where
  | exact
  | over (extra : Nat)
  | short
deriving Repr, DecidableEq

/-- a vault's `Config.fees`: the shares (atomics of an 18-decimals `Decimal`) of the protocol / flash-loan / burn fee -/
structure LoanFees where
  prot : Nat
  flash : Nat
  burn : Nat
deriving Repr, DecidableEq

inductive Op where
  | newEpoch (now : Nat) (router : Nat → Nat → Nat → Nat) (acc : Nat → Nat → Nat)
  | claim (u : Nat) (ans : Nat → Distributor.LairAns)
  /-- bond / unbond at the lair: `res` and the address's new `Bonded` view are the lair's business -/
  | bond (u : Nat) (res : Nat) (view : Option Nat)
  | grace (sender g : Nat)
  | colcfg (sender : Nat) (rate : Option Nat) (setDao : Bool) (active : Option Bool)
  | fwd (sender : Nat)
  /-- a trade on a pair / a flash loan on a vault left `fee` more pending protocol fee (`res` as recorded) -/
  | swap (res pool side fee : Nat)
  | loan (res vault fee : Nat)
  | gift (toCollector : Bool) (asset amount : Nat)
  | addRoute (sender offer ask : Nat) (hops : List (Nat × Nat))
  | rmRoute (sender offer ask : Nat)
  /-- `fee_distributor::UpdateConfig { distribution_asset }` -/
  | setDist (sender asset : Nat)
  | unreg (sender pool : Nat)
  | toggle (sender pool : Nat) (on : Bool)
  /-- `CollectFees` sent to the collector directly, in mid-history, by anybody -/
  | collect (sender : Nat) (f : Collector.FeesFor)
  /-- `AggregateFees` sent to the collector directly; router outputs / accrued fees as recorded -/
  | aggregate (sender : Nat) (f : Collector.FeesFor) (router : Nat → Nat → Nat → Nat) (acc : Nat → Nat → Nat)
  /-- the message of `op` sent with `amount` of `asset` attached (`info.funds`), paid by `payer` -/
  | coins (payer asset amount : Nat) (op : Op)
  /-- `op` in a transaction whose swap execution failed for a reason outside the model (spread above the
      collector's 50 % cap, arithmetic overflow in a pair): `code` 1 = `Err`, 2 = panic -/
  | xfail (code : Nat) (op : Op)
  /-- `outer` with a hostile registered contract that sends `inner` once when called (see the header).
      `hacc pre stage asset` = the protocol fees `(pair, side, amount)` that the OUTER operation's swap of `asset` in
      aggregation pass `stage` left pending in the pairs it went through, as recorded — `pre = 1`: by the hops
      before the hostile pair fired, `pre = 0`: by the other hops.  (Inside such a transaction it matters WHEN a fee
      accrues: a nested collection picks up what earlier swaps of the same transaction left.  The `acc` carried by
      `outer` itself — the same fees summed over the transaction — is not used then.) -/
  | reenter (trig : Trig) (caught : Bool) (hacc : Nat → Nat → Nat → List (Nat × Nat × Nat)) (inner outer : Op)
  /-- `inner` sent by the borrower of a flash loan of `amount` on vault `vault` FROM INSIDE ITS CALLBACK, then the
      repayment (see the header).  `vbal` = the vault's balance when the loan is taken and `fees` = its fee shares, as
      recorded from the real vault (balances of pairs / vaults are not part of this model's state) -/
  | inloan (vault amount : Nat) (mode : Repay) (vbal : Nat) (fees : LoanFees) (inner : Op)

/-- the contract an operation's message is addressed to -/
inductive Target where
  | collector
  | distributor
  | router
  | lair
  /-- not an execute message of the pipeline's contracts that the engine attaches stray coins to (trades and
      loans carry their own funds, `gift` is a bank send, pair administration goes to the pool factory) -/
  | nobody
deriving Repr, DecidableEq

def target : Op → Target
  | .newEpoch .. => .distributor
  | .claim .. => .distributor
  | .grace .. => .distributor
  | .setDist .. => .distributor
  | .colcfg .. => .collector
  | .fwd .. => .collector
  | .collect .. => .collector
  | .aggregate .. => .collector
  | .bond .. => .lair
  | .addRoute .. => .router
  | .rmRoute .. => .router
  | .swap .. => .nobody
  | .loan .. => .nobody
  | .gift .. => .nobody
  | .unreg .. => .nobody
  | .toggle .. => .nobody
  | .coins _ _ _ op => target op
  | .xfail _ op => target op
  | .reenter _ _ _ _ outer => target outer
  | .inloan .. => .nobody

def isCoins : Op → Bool
  | .coins .. => true
  | .xfail .. => true
  | .reenter .. => true
  | .inloan .. => true
  | _ => false

/-- the operation contains a `NewEpoch` (a nested one, when it succeeds, consumes the collector's `TMP_EPOCH`) -/
def hasNewEpoch : Op → Bool
  | .newEpoch .. => true
  | .coins _ _ _ op => hasNewEpoch op
  | .xfail _ op => hasNewEpoch op
  | .reenter _ _ _ inner outer => hasNewEpoch inner || hasNewEpoch outer
  | .inloan _ _ _ _ _ inner => hasNewEpoch inner
  | _ => false

def failCode {α : Type} (code : Nat) : Res α := if code = 2 then .panic else .err

/-- the collector's configuration / state as it sees them now: `query_distribution_asset` asks the
    distributor for its CURRENT `distribution_asset` on every aggregation and in the reply, and the router
    is asked for routes towards it -/
def ccfg (cfg : Cfg) (s : St) : Collector.Cfg := { cfg.c with dist := s.d.dist }
def cview (s : St) : Collector.St := { s.c with routes := s.rts s.d.dist }

def updRts (f : Nat → Nat → List (Nat × Nat)) (ask offer : Nat) (v : List (Nat × Nat)) :
    Nat → Nat → List (Nat × Nat) :=
  fun a o => if a = ask ∧ o = offer then v else f a o

/-- credit a claim's payout (one bank send per asset) to the claimer -/
def credit (ub : Nat → Nat → Nat) (u : Nat) : Distributor.Ledger → Nat → Nat → Nat
  | [] => ub
  | (a, x) :: r => credit (fun v b => if v = u ∧ b = a then ub v b + x else ub v b) u r

def updOpt (f : Nat → Option Nat) (i : Nat) (v : Option Nat) : Nat → Option Nat := fun j => if j = i then v else f j
def updHops (f : Nat → List (Nat × Nat)) (i : Nat) (v : List (Nat × Nat)) : Nat → List (Nat × Nat) :=
  fun j => if j = i then v else f j

def addXb (f : Nat → Nat → Nat) (c a x : Nat) : Nat → Nat → Nat :=
  fun c' a' => if c' = c ∧ a' = a then f c' a' + x else f c' a'

def debit (ub : Nat → Nat → Nat) (u a x : Nat) : Nat → Nat → Nat :=
  fun v b => if v = u ∧ b = a then ub v b - x else ub v b

/-- the payer's balances after attaching `amount` of `asset`: the balances of the bonders (addresses
    `< nusers`) in the assets of the world are part of the state; every other sender (owner, trader, stranger)
    and the unrelated denom are funded beyond anything a history attaches -/
def ubAfterPay (cfg : Cfg) (s : St) (payer asset amount : Nat) : Nat → Nat → Nat :=
  if payer < cfg.nusers ∧ asset < cfg.c.nassets then debit s.ub payer asset amount else s.ub

/-- the bank's part of a message with coins attached: `amount` of `asset` moves from `payer` to the
    contract the message is addressed to, before the contract runs.  Fails when a bonder attaches more
    than it holds. -/
def pay (cfg : Cfg) (s : St) (payer asset amount : Nat) : Target → Res St
  | .nobody => .err
  | t =>
    if payer < cfg.nusers ∧ asset < cfg.c.nassets ∧ s.ub payer asset < amount then .err
    else
      let s1 := { s with ub := ubAfterPay cfg s payer asset amount }
      match t with
      | .collector => .ok { s1 with c := { s.c with bal := Collector.add s.c.bal asset amount } }
      | .distributor => .ok { s1 with d := Distributor.gift s.d asset amount }
      | .router => .ok { s1 with xb := addXb s.xb 0 asset amount }
      | .lair => .ok { s1 with xb := addXb s.xb 1 asset amount }
      | .nobody => .err

/-- recorded outcome code → `Res` (0 ok, 1 err, 2 panic) -/
def ofCode (r : Nat) (s : St) : Res St := if r = 0 then .ok s else if r = 1 then .err else .panic

def modPool (k : Nat) (f : Collector.Pool → Collector.Pool) : List Collector.Pool → List Collector.Pool
  | [] => []
  | p :: ps => match k with
    | 0 => f p :: ps
    | k + 1 => p :: modPool k f ps

def modVault (k : Nat) (f : Collector.Vault → Collector.Vault) : List Collector.Vault → List Collector.Vault
  | [] => []
  | p :: ps => match k with
    | 0 => f p :: ps
    | k + 1 => p :: modVault k f ps

def newEpoch (cfg : Cfg) (s : St) (now : Nat) (router : Nat → Nat → Nat → Nat) (acc : Nat → Nat → Nat) :
    Res (St × Collector.Out) :=
  match Distributor.nextEpoch cfg.d s.d now with
  | .ok (id, start) =>
    match Collector.forwardFees (ccfg cfg s) (cview s) cfg.c.distributor id router acc with
    | .ok o =>
      match Distributor.receiveEpoch s.d id start o.inflow with
      | .ok d' => .ok ({ s with d := d', c := o.st, daoBal := Collector.add s.daoBal s.d.dist o.take }, o)
      | .err => .err
      | .panic => .panic
    | .err => .err
    | .panic => .panic
  | .err => .err
  | .panic => .panic

/-- does the plain `op` (a `NewEpoch` / a direct `AggregateFees`) send at least one swap message? -/
def sendsSwaps (cfg : Cfg) (s : St) : Op → Bool
  | .newEpoch now router acc =>
    match newEpoch cfg s now router acc with
    | .ok (_, o) => !o.swaps.isEmpty
    | _ => false
  | .aggregate sender f router acc =>
    match Collector.aggregateFees (ccfg cfg s) (cview s) sender f router acc with
    | .ok (_, _, sws) => !sws.isEmpty
    | _ => false
  | _ => false

/-! ### the hooked pipeline: a hostile registered pair / vault sends a message of its own when it is called -/

/-- the nested message of the hostile contract -/
structure Hook where
  trig : Trig
  /-- sent as a sub-message whose failure the hostile contract swallows (`reply_on: Always`) -/
  caught : Bool
  /-- when it succeeds it has removed the collector's `TMP_EPOCH` (it contains a `NewEpoch`) -/
  clears : Bool
  /-- the nested operation, on the joint state as it is when the hostile contract is called -/
  run : St → Res St
  /-- protocol fees accrued by the outer operation's own swaps, per swap (see `Op.reenter`) -/
  hacc : Nat → Nat → Nat → List (Nat × Nat × Nat)

/-- the joint state INSIDE a transaction -/
structure HS where
  s : St
  /-- the hostile contract has not sent its message yet (it sends it once) -/
  armed : Bool
  /-- 0 = the hostile contract was not triggered, 1 = its message went through, 2 = it was refused and the
      hostile contract swallowed the failure -/
  fired : Nat
  /-- the collector's `TMP_EPOCH`: id and start time of the epoch being created -/
  tmp : Option (Nat × Nat)
  /-- the swap messages the OUTER operation has executed so far `(stage, asset, amount in)` -/
  sws : List (Nat × Nat × Nat)

def HS.start (s : St) : HS := { s := s, armed := true, fired := 0, tmp := none, sws := [] }

/-- the hostile contract is being called: if it has not done so yet it sends its message.  A nested message
    that fails fails the transaction unless the hostile contract catches it — then NOTHING of it remains
    (CosmWasm reverts the sub-call) and the outer transaction goes on, `TMP_EPOCH` included. -/
def fire (hk : Hook) (h : HS) : Res HS :=
  if h.armed = true then
    match hk.run h.s with
    | .ok s' => .ok { h with s := s', armed := false, fired := 1, tmp := if hk.clears = true then none else h.tmp }
    | .err => if hk.caught = true then .ok { h with armed := false, fired := 2 } else .err
    | .panic => .panic
  else .ok h

/-- `CollectProtocolFees` sent to every pair / vault selected by `l` -/
def colPools (l : Collector.Pool → Bool) (s : St) : St :=
  { s with c := { s.c with bal := Collector.collectPools l s.c.pools s.c.bal, pools := Collector.poolsAfter l s.c.pools } }
def colVaults (l : Collector.Vault → Bool) (s : St) : St :=
  { s with c := { s.c with bal := Collector.collectVaults l s.c.vaults s.c.bal, vaults := Collector.vaultsAfter l s.c.vaults } }

/-- `CollectFees` for the pool factory's page `l` (read when the handler runs): one `CollectProtocolFees` per
    listed pair IN LISTING ORDER (ascending key); the hostile pair `k`, when its turn comes, fires -/
def collectPoolsH (hk : Hook) (l : Collector.Pool → Bool) (h : HS) : Res HS :=
  match hk.trig with
  | .poolCollect k =>
    match h.s.c.pools[k]? with
    | some hp =>
      if l hp = true then
        match fire hk { h with s := colPools (fun p => l p && Collector.keyLt (Collector.poolKey p) (Collector.poolKey hp)) h.s } with
        | .ok h1 => .ok { h1 with s := colPools (fun p => l p && !Collector.keyLt (Collector.poolKey p) (Collector.poolKey hp)) h1.s }
        | .err => .err
        | .panic => .panic
      else .ok { h with s := colPools l h.s }
    | none => .ok { h with s := colPools l h.s }
  | _ => .ok { h with s := colPools l h.s }

/-- the same for the vault factory's page (a vault's key is its asset's label: ascending asset index) -/
def collectVaultsH (hk : Hook) (l : Collector.Vault → Bool) (h : HS) : Res HS :=
  match hk.trig with
  | .vaultCollect k =>
    match h.s.c.vaults[k]? with
    | some hv =>
      if l hv = true then
        match fire hk { h with s := colVaults (fun v => l v && decide (v.asset < hv.asset)) h.s } with
        | .ok h1 => .ok { h1 with s := colVaults (fun v => l v && !decide (v.asset < hv.asset)) h1.s }
        | .err => .err
        | .panic => .panic
      else .ok { h with s := colVaults l h.s }
    | none => .ok { h with s := colVaults l h.s }
  | _ => .ok { h with s := colVaults l h.s }

/-- a directly sent `CollectFees` -/
def collectH (hk : Hook) (f : Collector.FeesFor) (h : HS) : Res HS :=
  match f with
  | .vaultFactory lim => collectVaultsH hk (Collector.vaultListed h.s.c.vaults (Collector.vaultPage lim)) h
  | .poolFactory lim => collectPoolsH hk (Collector.poolListed h.s.c.pools (Collector.poolPage lim)) h
  | .wrongFactory => .err
  | .onePool k =>
    match (if hk.trig = .poolCollect k ∧ (h.s.c.pools[k]?).isSome = true then fire hk h else .ok h) with
    | .ok h1 =>
      match Collector.collectFees h1.s.c 0 (.onePool k) with
      | .ok c' => .ok { h1 with s := { h1.s with c := c' } }
      | .err => .err
      | .panic => .panic
    | .err => .err
    | .panic => .panic
  | .oneVault k =>
    match (if hk.trig = .vaultCollect k ∧ (h.s.c.vaults[k]?).isSome = true then fire hk h else .ok h) with
    | .ok h1 =>
      match Collector.collectFees h1.s.c 0 (.oneVault k) with
      | .ok c' => .ok { h1 with s := { h1.s with c := c' } }
      | .err => .err
      | .panic => .panic
    | .err => .err
    | .panic => .panic

/-- protocol fees `(pair, side, amount)` left pending by a swap: side 0 = the pair's first asset -/
def accrue : List (Nat × Nat × Nat) → List Collector.Pool → List Collector.Pool
  | [], ps => ps
  | (k, side, x) :: r, ps =>
    accrue r (modPool k (fun p => if side = 0 then { p with pa := p.pa + x } else { p with pb := p.pb + x }) ps)

def accrueS (l : List (Nat × Nat × Nat)) (s : St) : St := { s with c := { s.c with pools := accrue l s.c.pools } }

/-- the route `hops` passes through the registered pair `k` -/
def viaPool (ps : List Collector.Pool) (k : Nat) (hops : List (Nat × Nat)) : Bool :=
  match ps[k]? with
  | some hp => hp.reg && hops.any fun x => (min x.1 x.2, max x.1 x.2) == Collector.poolKey hp
  | none => false

/-- executing the route `hops` calls the `Swap` of the hostile pair the trigger names -/
def swapTriggers (t : Trig) (ps : List Collector.Pool) (hops : List (Nat × Nat)) : Bool :=
  match t with
  | .poolSwap k => viaPool ps k hops
  | _ => false

/-- what an `AggregateFees` handler decides to swap — `(asset, amount, hops)` for every candidate above the
    minimum whose registered route simulates — from the balances, pairs, routes and distribution asset AS THEY
    ARE WHEN THE HANDLER RUNS; the swap messages carry these amounts and operations -/
def aggPlan (s : St) (cands : List Nat) : List (Nat × Nat × List (Nat × Nat)) :=
  (cands.filter fun i => decide (Collector.AGG_T < s.c.bal i) && Collector.simOk s.c.pools (s.rts s.d.dist i)).map
    fun i => (i, s.c.bal i, s.rts s.d.dist i)

/-- the swap messages of one aggregation pass, one by one: the bank moves the planned amount to the router (it
    must still be there), the router executes the hops (each pair must accept swaps; the hostile pair, when it
    is a hop, fires before it pays), then pays the collector in `dist` -/
def aggExecH (hk : Hook) (dist : Nat) (router : Nat → Nat → Nat → Nat) (stage : Nat) :
    List (Nat × Nat × List (Nat × Nat)) → HS → Res HS
  | [], h => .ok h
  | (i, amt, hops) :: rest, h =>
    if h.s.c.bal i < amt then .err
    else if Collector.execOk h.s.c.pools hops = false then .err
    else
      -- the funds leave the collector; the hops before the hostile pair accrue their fees; it fires; the others
      match (if swapTriggers hk.trig h.s.c.pools hops = true
             then fire hk { h with s := accrueS (hk.hacc 1 stage i)
                                          { h.s with c := { h.s.c with bal := Collector.upd h.s.c.bal i (h.s.c.bal i - amt) } },
                                   sws := h.sws ++ [(stage, i, amt)] }
             else .ok { h with s := accrueS (hk.hacc 1 stage i)
                                      { h.s with c := { h.s.c with bal := Collector.upd h.s.c.bal i (h.s.c.bal i - amt) } },
                               sws := h.sws ++ [(stage, i, amt)] }) with
      | .ok h2 =>
        aggExecH hk dist router stage rest
          { h2 with s := accrueS (hk.hacc 0 stage i)
                           { h2.s with c := { h2.s.c with bal := Collector.add h2.s.c.bal dist (router stage i amt) } } }
      | .err => .err
      | .panic => .panic

/-- a directly sent `AggregateFees` -/
def aggregateH (cfg : Cfg) (hk : Hook) (f : Collector.FeesFor) (router : Nat → Nat → Nat → Nat) (h : HS) : Res HS :=
  match Collector.aggCands (ccfg cfg h.s) (cview h.s) f with
  | none => .err
  | some cands =>
    match aggExecH hk h.s.d.dist router 0 (aggPlan h.s cands) h with
    | .ok h1 =>
      .ok { h1 with s := { h1.s with c := { h1.s.c with routes := h1.s.rts h1.s.d.dist } } }
    | .err => .err
    | .panic => .panic

/-- the collector's reply (take rate, transfer, `TMP_EPOCH` read AND REMOVED) followed by the distributor's -/
def replyH (h : HS) : Res HS :=
  match h.tmp with
  | none => .err                                                -- CannotReadEpoch
  | some (id, start) =>
    if Collector.takeOf h.s.c (h.s.c.bal h.s.d.dist) ≤ h.s.c.bal h.s.d.dist then
      match Distributor.receiveEpoch h.s.d id start
          (if h.s.c.bal h.s.d.dist - Collector.takeOf h.s.c (h.s.c.bal h.s.d.dist) = 0 then none
           else some (h.s.c.bal h.s.d.dist - Collector.takeOf h.s.c (h.s.c.bal h.s.d.dist))) with
      | .ok d' =>
        .ok { h with
              s := { h.s with
                     d := d',
                     c := { h.s.c with
                            bal := Collector.upd h.s.c.bal h.s.d.dist 0,
                            dao := h.s.c.dao + Collector.takeOf h.s.c (h.s.c.bal h.s.d.dist),
                            trh := if Collector.takeOf h.s.c (h.s.c.bal h.s.d.dist) = 0 then h.s.c.trh
                                   else h.s.c.trh ++ [(id, Collector.takeOf h.s.c (h.s.c.bal h.s.d.dist))],
                            routes := h.s.rts h.s.d.dist },
                     daoBal := Collector.add h.s.daoBal h.s.d.dist (Collector.takeOf h.s.c (h.s.c.bal h.s.d.dist)) },
              tmp := none }
      | .err => .err
      | .panic => .panic
    else .err

/-- `NewEpoch` with the hostile contract on one of the factory pages / aggregation routes -/
def newEpochH (cfg : Cfg) (hk : Hook) (s : St) (now : Nat) (router : Nat → Nat → Nat → Nat) : Res HS :=
  match Distributor.nextEpoch cfg.d s.d now with
  | .ok (id, start) =>
    -- ForwardFees (sent by the distributor): TMP_EPOCH := the new epoch; then the four self-calls
    match collectVaultsH hk (Collector.vaultListed s.c.vaults (Collector.vaultPage Collector.FWD_LIMIT))
        { s := s, armed := true, fired := 0, tmp := some (id, start), sws := [] } with
    | .ok h1 =>
      match collectPoolsH hk (Collector.poolListed h1.s.c.pools (Collector.poolPage Collector.FWD_LIMIT)) h1 with
      | .ok h2 =>
        match aggExecH hk h2.s.d.dist router 0
            (aggPlan h2.s (Collector.vaultAssets (ccfg cfg h2.s)
              (Collector.vaultListed h2.s.c.vaults (Collector.vaultPage Collector.FWD_LIMIT)) h2.s.c.vaults)) h2 with
        | .ok h3 =>
          match aggExecH hk h3.s.d.dist router 1
              (aggPlan h3.s (Collector.poolAssets (ccfg cfg h3.s)
                (Collector.poolListed h3.s.c.pools (Collector.poolPage Collector.FWD_LIMIT)) h3.s.c.pools)) h3 with
          | .ok h4 => replyH h4
          | .err => .err
          | .panic => .panic
        | .err => .err
        | .panic => .panic
      | .err => .err
      | .panic => .panic
    | .err => .err
    | .panic => .panic
  | .err => .err
  | .panic => .panic

/-- the operations in which the collector calls registered pairs / vaults, with the hostile contract's hook;
    `none` = `op` is none of them (the hostile contract is not called) -/
def stepH (cfg : Cfg) (hk : Hook) (s : St) : Op → Option (Res HS)
  | .newEpoch now router _ => some (newEpochH cfg hk s now router)
  | .collect _ f => some (collectH hk f (HS.start s))
  | .aggregate _ f router _ => some (aggregateH cfg hk f router (HS.start s))
  | .coins payer a x op =>
    match pay cfg s payer a x (target op) with
    | .ok s1 => stepH cfg hk s1 op
    | .err => some .err
    | .panic => some .panic
  | .xfail code op =>
    match stepH cfg hk s op with
    | some (.ok h) => if h.sws.isEmpty then some (.ok h) else some (failCode code)
    | r => r
  | _ => none

/-! ### the pipeline from inside a flash-loan callback (`Op.inloan`) -/

/-- `Fee::compute` on the loan amount: `⌊amount · share⌋` (conventions of `WW/Model/Vault.lean`) -/
def loanFee (share amount : Nat) : Nat := amount * share / E18

/-- pending protocol fees of vault `k` (0 when there is no such vault) -/
def pendOf (s : St) (k : Nat) : Nat :=
  match s.c.vaults[k]? with
  | some v => v.pend
  | none => 0

/-- what the borrower sends to the vault when `need` is missing for the balance `after_trade` requires -/
def repayOf : Repay → Nat → Nat
  | .exact, need => need
  | .over extra, need => need + extra
  | .short, need => need - 1

/-- `after_trade` booked the loan's protocol fee on the lending vault's pending ledger -/
def accrueLoan (k fee : Nat) (s : St) : St :=
  { s with c := { s.c with vaults := modVault k (fun v => { v with pend := v.pend + fee }) s.c.vaults } }

/-- result of a completed `inloan` transaction -/
structure LoanOut where
  st : St
  /-- the lending vault's balance after the transaction -/
  endBal : Nat
  /-- what the borrower sent to the vault -/
  repaid : Nat
  /-- what the lending vault paid to the collector in mid-loan (its pending fees, if the callback's message collected them) -/
  paidOut : Nat

/-- what the lending vault paid to the collector in mid-loan: whatever left its pending ledger while the callback's
    message ran (`s` → `s1`) — `collect_protocol_fees` ignores the loan counter -/
def loanPaidOut (s s1 : St) (k : Nat) : Nat := pendOf s k - pendOf s1 k

/-- the balance `after_trade` requires: `old_balance + protocol fee + flash-loan fee + burn fee` -/
def loanRequired (vbal amount : Nat) (fees : LoanFees) : Nat :=
  vbal + loanFee fees.prot amount + loanFee fees.flash amount + loanFee fees.burn amount

/-- the lending vault's balance when the borrower is about to repay: down by the loan and by the fees it paid out -/
def loanMid (s s1 : St) (k amount vbal : Nat) : Nat := vbal - amount - loanPaidOut s s1 k

/-- what the borrower sends: it tops the vault up from `loanMid` to the required balance (exactly / more / one short) -/
def loanRepaid (s s1 : St) (k amount : Nat) (mode : Repay) (vbal : Nat) (fees : LoanFees) : Nat :=
  repayOf mode (loanRequired vbal amount fees - loanMid s s1 k amount vbal)

/-- the rest of an `inloan` transaction once the callback's message has run (`s` → `s1`): the vault's bank send of the
    fees collected in mid-loan, the borrower's repayment, `after_trade` -/
def loanClose (s s1 : St) (k amount : Nat) (mode : Repay) (vbal : Nat) (fees : LoanFees) : Res LoanOut :=
  if vbal - amount < loanPaidOut s s1 k then .err                -- the bank send of the collected fees cannot be covered
  else if U128MAX < loanRequired vbal amount fees then .err      -- checked_add
  else if loanMid s s1 k amount vbal + loanRepaid s s1 k amount mode vbal fees < loanRequired vbal amount fees then .err   -- NegativeProfit
  else if U128MAX < pendOf s1 k + loanFee fees.prot amount then .err                                                   -- store_fee
  else
    .ok { st := accrueLoan k (loanFee fees.prot amount) s1,
          endBal := loanMid s s1 k amount vbal + loanRepaid s s1 k amount mode vbal fees - loanFee fees.burn amount,
          repaid := loanRepaid s s1 k amount mode vbal fees,
          paidOut := loanPaidOut s s1 k }

/-- `FlashLoan { amount }` on vault `k` whose borrower runs `inner` (the callback's message, on the joint state as it is
    then: nothing of it has changed, only the vault's balance is down by the loan) and repays -/
def inloanRun (s : St) (k amount : Nat) (mode : Repay) (vbal : Nat) (fees : LoanFees) (inner : St → Res St) : Res LoanOut :=
  match s.c.vaults[k]? with
  | none => .err                                                 -- no such contract
  | some _ =>
    if amount = 0 ∨ vbal < amount then .err                      -- the bank cannot send the loan
    else
      match inner s with
      | .ok s1 => loanClose s s1 k amount mode vbal fees
      | .err => .err
      | .panic => .panic

def step (cfg : Cfg) (s : St) : Op → Res St
  | .newEpoch now router acc =>
    match newEpoch cfg s now router acc with
    | .ok (s', _) => .ok s'
    | .err => .err
    | .panic => .panic
  | .claim u ans =>
    match Distributor.claim s.d u (s.view u) ans with
    | .ok (d', paid) => .ok { s with d := d', ub := credit s.ub u paid }
    | .err => .err
    | .panic => .panic
  | .bond u res view =>
    -- `validate_claimed`: the lair refuses while the distributor lists claimable epochs for the sender
    if res = 0 ∧ Distributor.claimable s.d u (s.view u) ≠ [] then .err
    else ofCode res { s with view := updOpt s.view u view }
  | .grace sender g =>
    match Distributor.updateGrace cfg.d s.d sender g with
    | .ok d' => .ok { s with d := d' }
    | .err => .err
    | .panic => .panic
  | .colcfg sender rate setDao active =>
    match Collector.updateConfig cfg.c s.c sender rate setDao active with
    | .ok c' => .ok { s with c := c' }
    | .err => .err
    | .panic => .panic
  | .fwd sender =>
    match Collector.forwardFees (ccfg cfg s) (cview s) sender 0 (fun _ _ _ => 0) (fun _ _ => 0) with
    | .ok o => .ok { s with c := o.st }     -- unreachable for sender ≠ distributor (C10.forward_auth)
    | .err => .err
    | .panic => .panic
  | .swap res pool side fee =>
    let ps := modPool pool (fun p => if side = 0 then { p with pb := p.pb + fee } else { p with pa := p.pa + fee }) s.c.pools
    ofCode res { s with c := { s.c with pools := ps } }
  | .loan res vault fee =>
    ofCode res { s with c := { s.c with vaults := modVault vault (fun v => { v with pend := v.pend + fee }) s.c.vaults } }
  | .gift toCol asset amount =>
    if toCol then .ok { s with c := { s.c with bal := Collector.add s.c.bal asset amount } }
    else .ok { s with d := Distributor.gift s.d asset amount }
  | .addRoute sender offer ask hops =>
    if sender ≠ cfg.c.owner then .err
    else if Collector.simOk s.c.pools hops = true then .ok { s with rts := updRts s.rts ask offer hops }
    else .err
  | .rmRoute sender offer ask =>
    if sender ≠ cfg.c.owner then .err
    else if (s.rts ask offer).isEmpty then .err
    else .ok { s with rts := updRts s.rts ask offer [] }
  | .setDist sender asset =>
    match Distributor.setDist cfg.d s.d sender asset with
    | .ok d' => .ok { s with d := d' }
    | .err => .err
    | .panic => .panic
  | .unreg sender pool =>
    if sender ≠ cfg.c.owner then .err
    else match s.c.pools[pool]? with
      | some p => if p.reg then .ok { s with c := { s.c with pools := modPool pool (fun p => { p with reg := false }) s.c.pools } } else .err
      | none => .err
  | .toggle sender pool on =>
    if sender ≠ cfg.c.owner then .err
    else .ok { s with c := { s.c with pools := modPool pool (fun p => { p with on := on }) s.c.pools } }
  | .collect sender f =>
    match Collector.collectFees s.c sender f with
    | .ok c' => .ok { s with c := c' }
    | .err => .err
    | .panic => .panic
  | .aggregate sender f router acc =>
    match Collector.aggregateFees (ccfg cfg s) (cview s) sender f router acc with
    | .ok (c', _, _) => .ok { s with c := c' }
    | .err => .err
    | .panic => .panic
  | .coins payer asset amount op =>
    -- the gift to the receiving contract, then the operation: one transaction
    match pay cfg s payer asset amount (target op) with
    | .ok s1 => step cfg s1 op
    | .err => .err
    | .panic => .panic
  | .xfail code op =>
    -- the swap execution failed in the real transaction: `op` fails iff it sends a swap message at all
    match step cfg s op with
    | .ok s' => if sendsSwaps cfg s op = true then failCode code else .ok s'
    | .err => .err
    | .panic => .panic
  | .reenter trig caught hacc inner outer =>
    match stepH cfg { trig := trig, caught := caught, clears := hasNewEpoch inner, run := fun s1 => step cfg s1 inner,
                      hacc := hacc } s outer with
    | some (.ok h) => .ok h.s
    | some .err => .err
    | some .panic => .panic
    | none => step cfg s outer
  | .inloan k amount mode vbal fees inner =>
    match inloanRun s k amount mode vbal fees (fun s0 => step cfg s0 inner) with
    | .ok o => .ok o.st
    | .err => .err
    | .panic => .panic

/-- fold a history of the joint machine; failed operations leave the state unchanged -/
def reach (cfg : Cfg) (s : St) : List Op → St
  | [] => s
  | op :: ops => match step cfg s op with
    | .ok s' => reach cfg s' ops
    | _ => reach cfg s ops

end WW.Feeflow
