/-
  The joint state machine the `feeflow` engine is compared against: fee distributor ledger
  (`Distributor`) + fee collector pipeline (`Collector`) + the bookkeeping of what the un-modelled
  contracts told us (lair `Bonded` view per address; route / pair registry as set by the admin ops).

  `NewEpoch` = distributor `create_new_epoch` (clock) → collector `ForwardFees` (sender = distributor)
  → distributor `reply` (rollover, new epoch).  Everything fails or succeeds together (`Res`).

  STRAY COINS.  Any execute message can carry native coins (`info.funds`).  The bank moves them from the
  sender to the contract the message is addressed to BEFORE the contract runs; none of the entry points of
  the fee collector (`CollectFees`, `AggregateFees`, `ForwardFees`, `UpdateConfig`), the fee distributor
  (`NewEpoch`, `Claim`, `UpdateConfig`), the router (`AddSwapRoutes`, `RemoveSwapRoutes`) or the lair's
  `Unbond` looks at `info.funds`, so the coins simply stay on the receiving contract: a gift, then the
  operation, atomically (a failing operation reverts the gift).  The lair's `Bond` is the exception: it
  refuses anything but exactly the one coin being bonded (`validate_funds`).  `Op.coins payer asset amount op`
  = `op` sent with `amount` of `asset` attached by `payer` (nested `coins` = several coins); `asset` may
  be any index, also one that is no asset of the world (an unrelated denom: index `nassets`).
-/
import WW.Model.Distributor
import WW.Model.Collector
namespace WW.Feeflow
open WW

structure Cfg where
  d : Distributor.Cfg
  c : Collector.Cfg
  nusers : Nat

structure St where
  d : Distributor.St
  c : Collector.St
  /-- lair `Bonded{address}` per address: `none` = no bonded assets, `some fb` = first bonded epoch id -/
  view : Nat → Option Nat
  /-- balance per address and asset -/
  ub : Nat → Nat → Nat
  /-- the DAO's balance per asset (the take rate is paid in whatever the distribution asset is) -/
  daoBal : Nat → Nat
  /-- the router's swap routes: `rts ask offer` = hops of the route `offer → ask`; `[]` = none.  The
      collector asks for routes towards the CURRENT distribution asset (`cview`) -/
  rts : Nat → Nat → List (Nat × Nat)
  /-- balances of the other contracts the engine sends messages to, per asset: `xb 0` = the router,
      `xb 1` = the whale lair.  Only stray coins ever land there. -/
  xb : Nat → Nat → Nat

inductive Op where
  | newEpoch (now : Nat) (router : Nat → Nat → Nat → Nat) (acc : Nat → Nat → Nat)
  | claim (u : Nat) (ans : Nat → Distributor.LairAns)
  /-- bond / unbond at the lair: `res` and the address's new `Bonded` view are the lair's business -/
  | bond (u : Nat) (res : Nat) (view : Option Nat)
  | grace (sender g : Nat)
  | colcfg (sender : Nat) (rate : Option Nat) (setDao : Bool) (active : Option Bool)
  | fwd (sender : Nat)
  /-- a trade on a pair / a flash loan on a vault left `fee` more pending protocol fee (`res` as recorded) -/
  | swap (res pool side fee : Nat)
  | loan (res vault fee : Nat)
  | gift (toCollector : Bool) (asset amount : Nat)
  | addRoute (sender offer ask : Nat) (hops : List (Nat × Nat))
  | rmRoute (sender offer ask : Nat)
  /-- `fee_distributor::UpdateConfig { distribution_asset }` -/
  | setDist (sender asset : Nat)
  | unreg (sender pool : Nat)
  | toggle (sender pool : Nat) (on : Bool)
  /-- `CollectFees` sent to the collector directly, in mid-history, by anybody -/
  | collect (sender : Nat) (f : Collector.FeesFor)
  /-- `AggregateFees` sent to the collector directly; router outputs / accrued fees as recorded -/
  | aggregate (sender : Nat) (f : Collector.FeesFor) (router : Nat → Nat → Nat → Nat) (acc : Nat → Nat → Nat)
  /-- the message of `op` sent with `amount` of `asset` attached (`info.funds`), paid by `payer` -/
  | coins (payer asset amount : Nat) (op : Op)

/-- the contract an operation's message is addressed to -/
inductive Target where
  | collector
  | distributor
  | router
  | lair
  /-- not an execute message of the pipeline's contracts that the engine attaches stray coins to (trades and
      loans carry their own funds, `gift` is a bank send, pair administration goes to the pool factory) -/
  | nobody
deriving Repr, DecidableEq

def target : Op → Target
  | .newEpoch .. => .distributor
  | .claim .. => .distributor
  | .grace .. => .distributor
  | .setDist .. => .distributor
  | .colcfg .. => .collector
  | .fwd .. => .collector
  | .collect .. => .collector
  | .aggregate .. => .collector
  | .bond .. => .lair
  | .addRoute .. => .router
  | .rmRoute .. => .router
  | .swap .. => .nobody
  | .loan .. => .nobody
  | .gift .. => .nobody
  | .unreg .. => .nobody
  | .toggle .. => .nobody
  | .coins _ _ _ op => target op

def isCoins : Op → Bool
  | .coins .. => true
  | _ => false

/-- the collector's configuration / state as it sees them now: `query_distribution_asset` asks the
    distributor for its CURRENT `distribution_asset` on every aggregation and in the reply, and the router
    is asked for routes towards it -/
def ccfg (cfg : Cfg) (s : St) : Collector.Cfg := { cfg.c with dist := s.d.dist }
def cview (s : St) : Collector.St := { s.c with routes := s.rts s.d.dist }

def updRts (f : Nat → Nat → List (Nat × Nat)) (ask offer : Nat) (v : List (Nat × Nat)) :
    Nat → Nat → List (Nat × Nat) :=
  fun a o => if a = ask ∧ o = offer then v else f a o

/-- credit a claim's payout (one bank send per asset) to the claimer -/
def credit (ub : Nat → Nat → Nat) (u : Nat) : Distributor.Ledger → Nat → Nat → Nat
  | [] => ub
  | (a, x) :: r => credit (fun v b => if v = u ∧ b = a then ub v b + x else ub v b) u r

def updOpt (f : Nat → Option Nat) (i : Nat) (v : Option Nat) : Nat → Option Nat := fun j => if j = i then v else f j
def updHops (f : Nat → List (Nat × Nat)) (i : Nat) (v : List (Nat × Nat)) : Nat → List (Nat × Nat) :=
  fun j => if j = i then v else f j

def addXb (f : Nat → Nat → Nat) (c a x : Nat) : Nat → Nat → Nat :=
  fun c' a' => if c' = c ∧ a' = a then f c' a' + x else f c' a'

def debit (ub : Nat → Nat → Nat) (u a x : Nat) : Nat → Nat → Nat :=
  fun v b => if v = u ∧ b = a then ub v b - x else ub v b

/-- the payer's balances after attaching `amount` of `asset`: the balances of the bonders (addresses
    `< nusers`) in the assets of the world are part of the state; every other sender (owner, trader, stranger)
    and the unrelated denom are funded beyond anything a history attaches -/
def ubAfterPay (cfg : Cfg) (s : St) (payer asset amount : Nat) : Nat → Nat → Nat :=
  if payer < cfg.nusers ∧ asset < cfg.c.nassets then debit s.ub payer asset amount else s.ub

/-- the bank's part of a message with coins attached: `amount` of `asset` moves from `payer` to the
    contract the message is addressed to, before the contract runs.  Fails when a bonder attaches more
    than it holds. -/
def pay (cfg : Cfg) (s : St) (payer asset amount : Nat) : Target → Res St
  | .nobody => .err
  | t =>
    if payer < cfg.nusers ∧ asset < cfg.c.nassets ∧ s.ub payer asset < amount then .err
    else
      let s1 := { s with ub := ubAfterPay cfg s payer asset amount }
      match t with
      | .collector => .ok { s1 with c := { s.c with bal := Collector.add s.c.bal asset amount } }
      | .distributor => .ok { s1 with d := Distributor.gift s.d asset amount }
      | .router => .ok { s1 with xb := addXb s.xb 0 asset amount }
      | .lair => .ok { s1 with xb := addXb s.xb 1 asset amount }
      | .nobody => .err

/-- recorded outcome code → `Res` (0 ok, 1 err, 2 panic) -/
def ofCode (r : Nat) (s : St) : Res St := if r = 0 then .ok s else if r = 1 then .err else .panic

def modPool (k : Nat) (f : Collector.Pool → Collector.Pool) : List Collector.Pool → List Collector.Pool
  | [] => []
  | p :: ps => match k with
    | 0 => f p :: ps
    | k + 1 => p :: modPool k f ps

def modVault (k : Nat) (f : Collector.Vault → Collector.Vault) : List Collector.Vault → List Collector.Vault
  | [] => []
  | p :: ps => match k with
    | 0 => f p :: ps
    | k + 1 => p :: modVault k f ps

def newEpoch (cfg : Cfg) (s : St) (now : Nat) (router : Nat → Nat → Nat → Nat) (acc : Nat → Nat → Nat) :
    Res (St × Collector.Out) :=
  match Distributor.nextEpoch cfg.d s.d now with
  | .ok (id, start) =>
    match Collector.forwardFees (ccfg cfg s) (cview s) cfg.c.distributor id router acc with
    | .ok o =>
      match Distributor.receiveEpoch s.d id start o.inflow with
      | .ok d' => .ok ({ s with d := d', c := o.st, daoBal := Collector.add s.daoBal s.d.dist o.take }, o)
      | .err => .err
      | .panic => .panic
    | .err => .err
    | .panic => .panic
  | .err => .err
  | .panic => .panic

def step (cfg : Cfg) (s : St) : Op → Res St
  | .newEpoch now router acc =>
    match newEpoch cfg s now router acc with
    | .ok (s', _) => .ok s'
    | .err => .err
    | .panic => .panic
  | .claim u ans =>
    match Distributor.claim s.d u (s.view u) ans with
    | .ok (d', paid) => .ok { s with d := d', ub := credit s.ub u paid }
    | .err => .err
    | .panic => .panic
  | .bond u res view =>
    -- `validate_claimed`: the lair refuses while the distributor lists claimable epochs for the sender
    if res = 0 ∧ Distributor.claimable s.d u (s.view u) ≠ [] then .err
    else ofCode res { s with view := updOpt s.view u view }
  | .grace sender g =>
    match Distributor.updateGrace cfg.d s.d sender g with
    | .ok d' => .ok { s with d := d' }
    | .err => .err
    | .panic => .panic
  | .colcfg sender rate setDao active =>
    match Collector.updateConfig cfg.c s.c sender rate setDao active with
    | .ok c' => .ok { s with c := c' }
    | .err => .err
    | .panic => .panic
  | .fwd sender =>
    match Collector.forwardFees (ccfg cfg s) (cview s) sender 0 (fun _ _ _ => 0) (fun _ _ => 0) with
    | .ok o => .ok { s with c := o.st }     -- unreachable for sender ≠ distributor (C10.forward_auth)
    | .err => .err
    | .panic => .panic
  | .swap res pool side fee =>
    let ps := modPool pool (fun p => if side = 0 then { p with pb := p.pb + fee } else { p with pa := p.pa + fee }) s.c.pools
    ofCode res { s with c := { s.c with pools := ps } }
  | .loan res vault fee =>
    ofCode res { s with c := { s.c with vaults := modVault vault (fun v => { v with pend := v.pend + fee }) s.c.vaults } }
  | .gift toCol asset amount =>
    if toCol then .ok { s with c := { s.c with bal := Collector.add s.c.bal asset amount } }
    else .ok { s with d := Distributor.gift s.d asset amount }
  | .addRoute sender offer ask hops =>
    if sender ≠ cfg.c.owner then .err
    else if Collector.simOk s.c.pools hops = true then .ok { s with rts := updRts s.rts ask offer hops }
    else .err
  | .rmRoute sender offer ask =>
    if sender ≠ cfg.c.owner then .err
    else if (s.rts ask offer).isEmpty then .err
    else .ok { s with rts := updRts s.rts ask offer [] }
  | .setDist sender asset =>
    match Distributor.setDist cfg.d s.d sender asset with
    | .ok d' => .ok { s with d := d' }
    | .err => .err
    | .panic => .panic
  | .unreg sender pool =>
    if sender ≠ cfg.c.owner then .err
    else match s.c.pools[pool]? with
      | some p => if p.reg then .ok { s with c := { s.c with pools := modPool pool (fun p => { p with reg := false }) s.c.pools } } else .err
      | none => .err
  | .toggle sender pool on =>
    if sender ≠ cfg.c.owner then .err
    else .ok { s with c := { s.c with pools := modPool pool (fun p => { p with on := on }) s.c.pools } }
  | .collect sender f =>
    match Collector.collectFees s.c sender f with
    | .ok c' => .ok { s with c := c' }
    | .err => .err
    | .panic => .panic
  | .aggregate sender f router acc =>
    match Collector.aggregateFees (ccfg cfg s) (cview s) sender f router acc with
    | .ok (c', _, _) => .ok { s with c := c' }
    | .err => .err
    | .panic => .panic
  | .coins payer asset amount op =>
    -- the gift to the receiving contract, then the operation: one transaction
    match pay cfg s payer asset amount (target op) with
    | .ok s1 => step cfg s1 op
    | .err => .err
    | .panic => .panic

/-- fold a history of the joint machine; failed operations leave the state unchanged -/
def reach (cfg : Cfg) (s : St) : List Op → St
  | [] => s
  | op :: ops => match step cfg s op with
    | .ok s' => reach cfg s' ops
    | _ => reach cfg s ops

end WW.Feeflow
