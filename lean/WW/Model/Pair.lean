/-
  State machine of a CONSTANT-PRODUCT `terraswap_pair` (default cargo features, cw20 LP token)
  together with the token effects of the messages its handlers emit:

    commands.rs  provide_liquidity (ConstantProduct arm), withdraw_liquidity (through the LP token's
                 `Send` hook), swap (native `ExecuteMsg::Swap` and cw20 `Send` hook),
                 collect_protocol_fees, update_config (pool_fees)
    queries.rs   query_pool
    state.rs     store_fee, COLLECTED_PROTOCOL_FEES / ALL_TIME_COLLECTED_PROTOCOL_FEES / ALL_TIME_BURNED_FEES
    asset.rs     assert_sent_native_token_balance, into_msg, into_burn_msg, MINIMUM_LIQUIDITY_AMOUNT

  A handler's outgoing messages are applied inline, in emission order; a failing message fails the
  whole operation (`err`: nothing changes).  The asset kind (native / cw20) is a field of the state:
  it decides where a short balance is noticed and whether a zero-amount transfer is accepted
  (the bank refuses zero coins, cw20-base 1.1 accepts zero transfers / mints / sends).

  Each asset of the pair is a `Side`; the same core functions serve both swap directions.
  Ghost fields (`chg`, `sent`, `brn`) count what was charged / transferred / destroyed; the harness
  reconstructs them from response events and balance deltas, so they are compared like observables.
-/
import WW.Cw.Arith
import WW.Gen.Constants
import WW.Model.CpSwap
import WW.Model.Slippage
import WW.Model.Stable2
namespace WW.Pair

/-- one asset of the pair -/
structure Side where
  /-- `true` = native coin, `false` = cw20 token -/
  native : Bool
  /-- what the pair contract holds (bank / cw20 balance) -/
  bal : Nat
  /-- `COLLECTED_PROTOCOL_FEES` entry -/
  pend : Nat
  /-- `ALL_TIME_COLLECTED_PROTOCOL_FEES` entry -/
  allTime : Nat
  /-- `ALL_TIME_BURNED_FEES` entry -/
  burned : Nat
  /-- balance of the fee collector named at instantiation -/
  col : Nat
  /-- balance of the alternative collector address `UpdateConfig{fee_collector_addr}` can switch to -/
  colB : Nat
  /-- ghost: Σ protocol fees charged to traders -/
  chg : Nat
  /-- ghost: Σ amounts transferred to the fee collector -/
  sent : Nat
  /-- ghost: Σ burn fees destroyed -/
  brn : Nat
  /-- circulating amount of the asset over the closed cast (pair + users + collector) -/
  tot : Nat
deriving Repr, DecidableEq

structure User where
  a : Nat
  b : Nat
  lp : Nat
deriving Repr, DecidableEq

structure St where
  x0 : Side
  x1 : Side
  /-- LP token total supply and the part held by the pair itself -/
  sup : Nat
  lpPair : Nat
  fees : Fees
  users : List User
  /-- `Config.fee_collector_addr` is the alternative collector -/
  useB : Bool
deriving Repr, DecidableEq

inductive Op where
  /-- `ProvideLiquidity` by user `u` with receiver `rcv`, deposits in pool order, slippage tolerance -/
  | provide (u rcv d0 d1 : Nat) (tol : Option Nat)
  /-- swap `off` of asset `dir` by `u`, proceeds to user `to`, `max_spread = ms`, `belief_price = None` -/
  | swap (u dir off : Nat) (ms : Option Nat) (to : Nat)
  /-- LP `Send { contract: pair, amount, msg: WithdrawLiquidity }` -/
  | withdraw (u amt : Nat)
  /-- `CollectProtocolFees {}` (anyone) -/
  | collect
  /-- `UpdateConfig { pool_fees }`; `owner = false` is any other sender -/
  | setFees (owner : Bool) (f : Fees)
  /-- `UpdateConfig { fee_collector_addr }`: the collector named at instantiation (`false`) or the
      alternative one (`true`) -/
  | setCollector (owner : Bool) (b : Bool)
  /-- plain transfer to the pair: asset 0 / 1, or (`which = 2`) LP tokens -/
  | donate (u which amt : Nat)
  /-- `ExecuteMsg::Swap` naming `off` while attaching `sent` (native), or naming a cw20 asset -/
  | swapBad (u dir off sent : Nat)
  /-- messages a cw20-LP pair must refuse whatever they carry: `ExecuteMsg::WithdrawLiquidity {}` with
      any attached coins (`kind = 0`; it is the token-factory entry point and the LP denom is empty),
      a `WithdrawLiquidity` hook arriving from a token that is not the LP token (`kind = 1`), a `Swap`
      hook arriving from a token that is not one of the pool assets (`kind = 2`) -/
  | foreign (kind u amt : Nat)
  /-- `ProvideLiquidity` naming asset `k` with the WRONG kind — a native asset as
      `Token { contract_addr: <denom> }`, a cw20 asset as `NativeToken { denom: <address> }` — the other
      asset named correctly with its native coins attached -/
  | provideBad (u d0 d1 k : Nat)
deriving Repr, DecidableEq

def St.user (s : St) (u : Nat) : User := s.users.getD u { a := 0, b := 0, lp := 0 }
def St.setUser (s : St) (u : Nat) (x : User) : St := { s with users := s.users.set u x }

/-- reported reserve (`Pool` query): balance − pending protocol fees -/
def Side.res (x : Side) : Nat := x.bal - x.pend

/-- what distinguishes the pair types: the swap computation (`helpers::compute_swap`; `dir = true`
    when asset 1 is offered) and the LP amounts `(to the receiver, to the pair itself)` minted by
    `provide_liquidity` for supply / pools / deposits / slippage tolerance -/
structure Curve where
  swap : Fees → Bool → Nat → Nat → Nat → Res SwapComp
  shares : Nat → Nat → Nat → Nat → Nat → Option Nat → Res (Nat × Nat)

/-! ### swap -/

/-- `commands::swap` on the two sides, the offer already on the pair's balance:
    pools are balance − pending (− offer on the offer side); proceeds and burn fee leave the pair,
    the protocol fee stays on the balance and is added to the ledgers. -/
def swapCore (cv : Curve) (f : Fees) (dir : Bool) (o a : Side) (amt : Nat) (ms : Option Nat) :
    Res (Side × SwapComp) := do
  let pO ← csub o.bal o.pend
  let pO ← csub pO amt
  let pA ← csub a.bal a.pend
  let c ← cv.swap f dir pO pA amt
  let f1 ← cadd U128MAX c.swapFee c.protFee
  let fees ← cadd U128MAX f1 c.burnFee
  let rf ← cadd U128MAX c.ret fees
  assertMaxSpread none ms amt rf c.spread
  -- store_fee uses unchecked `+`
  let burned' ← padd U128MAX a.burned c.burnFee
  let pend' ← padd U128MAX a.pend c.protFee
  let all' ← padd U128MAX a.allTime c.protFee
  -- messages: proceeds to the receiver (skipped when zero), burn of the burn fee (skipped when zero)
  let balA ← csub a.bal c.ret
  let balA ← csub balA c.burnFee
  pure ({ a with bal := balA, pend := pend', allTime := all', burned := burned',
                 chg := a.chg + c.protFee, brn := a.brn + c.burnFee, tot := a.tot - c.burnFee }, c)

/-- swap by user `u` of `off` of asset `dir` (0 / 1), proceeds to user `to` -/
def swap (cv : Curve) (s : St) (u dir off : Nat) (ms : Option Nat) (to : Nat) : Res St := do
  guardErr (decide (u < s.users.length ∧ to < s.users.length ∧ dir ≤ 1))
  let usr := s.user u
  if dir = 0 then do
    -- a zero native coin cannot be attached; a zero cw20 `Send` is accepted
    guardErr (!(s.x0.native && off == 0))
    guardErr (decide (off ≤ usr.a))
    let o := { s.x0 with bal := s.x0.bal + off }
    let (a', c) ← swapCore cv s.fees false o s.x1 off ms
    let s1 := { s with x0 := o, x1 := a' }.setUser u { usr with a := usr.a - off }
    let r := s1.user to
    pure (s1.setUser to { r with b := r.b + c.ret })
  else do
    guardErr (!(s.x1.native && off == 0))
    guardErr (decide (off ≤ usr.b))
    let o := { s.x1 with bal := s.x1.bal + off }
    let (a', c) ← swapCore cv s.fees true o s.x0 off ms
    let s1 := { s with x1 := o, x0 := a' }.setUser u { usr with b := usr.b - off }
    let r := s1.user to
    pure (s1.setUser to { r with a := r.a + c.ret })

/-- `ExecuteMsg::Swap` with a cw20 `offer_asset` (→ `Unauthorized`), or with attached funds that
    differ from the named amount (→ balance mismatch); with matching funds it is an ordinary swap -/
def swapBad (cv : Curve) (s : St) (u dir off sent : Nat) : Res St := do
  guardErr (decide (u < s.users.length ∧ dir ≤ 1))
  let nat := if dir = 0 then s.x0.native else s.x1.native
  guardErr nat
  guardErr (decide (off = sent))
  swap cv s u dir off none u

/-! ### provide_liquidity (ConstantProduct arm) -/

/-- LP amount minted to the receiver and to the pair itself, `PairType::ConstantProduct` -/
def provideShares (sup p0 p1 d0 d1 : Nat) (tol : Option Nat) : Res (Nat × Nat) :=
  if sup = 0 then do
    -- U256 product cannot overflow for two u128 factors; `checked_mul` kept for fidelity
    let prod ← cmul U256MAX d0 d1
    let share ← csub (isqrt prod) Gen.MINIMUM_LIQUIDITY_AMOUNT
    guardErr (decide (share ≠ 0))
    pure (share, Gen.MINIMUM_LIQUIDITY_AMOUNT)
  else do
    let a0 ← mulRatioP U128MAX d0 sup p0
    let a1 ← mulRatioP U128MAX d1 sup p1
    let amount := min a0 a1
    pairAssertSlippage tol d0 d1 p0 p1 .constantProduct amount sup
    pure (amount, 0)

/-- the constant-product pair -/
def cpCurve : Curve :=
  { swap := fun f _ op ap off => cpSwap op ap off f, shares := provideShares }

/-- LP amounts of the `PairType::StableSwap` arm of `provide_liquidity`: first deposit
    `compute_d(amp, d0, d1) − 2·1000` (saturating; `2·1000` locked in the pair), later deposits
    `compute_lp_mint_amount_for_stableswap_deposit(..).unwrap()` followed by the slippage assertion -/
def ssShares (amp : Nat) (sup p0 p1 d0 d1 : Nat) (tol : Option Nat) : Res (Nat × Nat) :=
  if sup = 0 then do
    let d ← computeD amp d0 d1
    let d ← to128 d
    let minLp := Gen.MINIMUM_LIQUIDITY_AMOUNT * 2
    let share := d - minLp
    guardErr (decide (share ≠ 0))
    pure (share, minLp)
  else do
    let m ← ssLpMint amp d0 d1 p0 p1 sup
    match m with
    | none => .panic
    | some share => do
      pairAssertSlippage tol d0 d1 p0 p1 .stableSwap share sup
      pure (share, 0)

/-- the two-asset stableswap pair (amplification `amp`, asset decimals `dec0`, `dec1`) -/
def ssCurve (amp dec0 dec1 : Nat) : Curve :=
  { swap := fun f dir op ap off =>
      if dir then ssSwap op ap off f amp dec1 dec0 else ssSwap op ap off f amp dec0 dec1
    shares := ssShares amp }

def provide (cv : Curve) (s : St) (u rcv d0 d1 : Nat) (tol : Option Nat) : Res St := do
  guardErr (decide (u < s.users.length ∧ rcv < s.users.length))
  let usr := s.user u
  -- native funds are moved by the bank before the handler runs
  guardErr ((!s.x0.native || decide (d0 ≤ usr.a)) && (!s.x1.native || decide (d1 ≤ usr.b)))
  guardErr (decide (d0 ≠ 0 ∧ d1 ≠ 0))
  -- pools: balance (− the native deposit that has already arrived) − collected protocol fee
  let p0 ← csub s.x0.bal s.x0.pend
  let p1 ← csub s.x1.bal s.x1.pend
  let (share, lock) ← cv.shares s.sup p0 p1 d0 d1 tol
  -- messages: cw20 `TransferFrom` (fails on a short balance), mint to the pair, mint to the receiver
  guardErr (decide (d0 ≤ usr.a ∧ d1 ≤ usr.b))
  -- cw20-base `total_supply += amount` is an unchecked `Uint128` addition
  guardPanic (decide (s.sup + lock + share ≤ U128MAX))
  let s1 := { s with x0 := { s.x0 with bal := s.x0.bal + d0 }, x1 := { s.x1 with bal := s.x1.bal + d1 },
                     sup := s.sup + lock + share, lpPair := s.lpPair + lock }.setUser u
              { usr with a := usr.a - d0, b := usr.b - d1 }
  let r := s1.user rcv
  pure (s1.setUser rcv { r with lp := r.lp + share })

/-- `ProvideLiquidity` with asset `k` named with the wrong kind. A `Token`-typed entry passes
    `assert_sent_native_token_balance` unchecked and then matches no pool asset: `.expect("Wrong asset
    info is given")` panics. A `NativeToken`-typed entry whose "denom" is a contract address finds no such
    coin attached: refused unless its amount is zero (then the same `expect` panics). -/
def provideBad (s : St) (u d0 d1 k : Nat) : Res St := do
  guardErr (decide (u < s.users.length ∧ k ≤ 1))
  let usr := s.user u
  -- the bank moves the correctly named asset's attached coins first
  if k = 0 then do
    guardErr (!s.x1.native || decide (d1 ≤ usr.b))
    if s.x0.native then .panic else if d0 = 0 then .panic else .err
  else do
    guardErr (!s.x0.native || decide (d0 ≤ usr.a))
    if s.x1.native then .panic else if d1 = 0 then .panic else .err

/-! ### withdraw_liquidity -/

/-- the two refunds of `withdraw_liquidity`: `(balance − pending) * Decimal::from_ratio(amount, total_share)` -/
def refunds (s : St) (amt : Nat) : Res (Nat × Nat) := do
  let ratio ← dec128FromRatio amt s.sup
  let p0 ← csub s.x0.bal s.x0.pend
  let x0 ← u128MulDec p0 ratio
  let p1 ← csub s.x1.bal s.x1.pend
  let x1 ← u128MulDec p1 ratio
  pure (x0, x1)

def withdraw (s : St) (u amt : Nat) : Res St := do
  guardErr (decide (u < s.users.length))
  let usr := s.user u
  -- the LP token's `Send` moves the tokens to the pair first (zero amount accepted)
  guardErr (decide (amt ≤ usr.lp))
  let (r0, r1) ← refunds s amt
  -- messages: two refunds (the bank refuses a zero coin), burn of the received LP tokens
  guardErr ((!s.x0.native || decide (r0 ≠ 0)) && (!s.x1.native || decide (r1 ≠ 0)))
  guardErr (decide (r0 ≤ s.x0.bal ∧ r1 ≤ s.x1.bal))
  pure ({ s with x0 := { s.x0 with bal := s.x0.bal - r0 }, x1 := { s.x1 with bal := s.x1.bal - r1 },
                 sup := s.sup - amt }.setUser u
          { a := usr.a + r0, b := usr.b + r1, lp := usr.lp - amt })

/-! ### collect_protocol_fees / update_config / plain transfers -/

/-- one ledger entry of `collect_protocol_fees`: sent and reset iff above the threshold -/
def collectSide (useB : Bool) (x : Side) : Res Side :=
  if x.pend > Gen.PAIR_MINIMUM_COLLECTABLE_BALANCE then do
    let b ← csub x.bal x.pend
    if useB then pure { x with bal := b, pend := 0, colB := x.colB + x.pend, sent := x.sent + x.pend }
    else pure { x with bal := b, pend := 0, col := x.col + x.pend, sent := x.sent + x.pend }
  else pure x

def collect (s : St) : Res St := do
  let x0 ← collectSide s.useB s.x0
  let x1 ← collectSide s.useB s.x1
  pure { s with x0 := x0, x1 := x1 }

def setCollector (s : St) (owner b : Bool) : Res St := do
  guardErr owner
  pure { s with useB := b }

def setFees (s : St) (owner : Bool) (f : Fees) : Res St := do
  guardErr owner
  guardErr f.valid
  pure { s with fees := f }

def donate (s : St) (u which amt : Nat) : Res St := do
  guardErr (decide (u < s.users.length))
  let usr := s.user u
  if which = 0 then do
    guardErr (!(s.x0.native && amt == 0))
    guardErr (decide (amt ≤ usr.a))
    pure ({ s with x0 := { s.x0 with bal := s.x0.bal + amt } }.setUser u { usr with a := usr.a - amt })
  else if which = 1 then do
    guardErr (!(s.x1.native && amt == 0))
    guardErr (decide (amt ≤ usr.b))
    pure ({ s with x1 := { s.x1 with bal := s.x1.bal + amt } }.setUser u { usr with b := usr.b - amt })
  else if which = 2 then do
    guardErr (decide (amt ≤ usr.lp))
    pure ({ s with lpPair := s.lpPair + amt }.setUser u { usr with lp := usr.lp - amt })
  else .err

def step (cv : Curve) (s : St) : Op → Res St
  | .provide u rcv d0 d1 tol => provide cv s u rcv d0 d1 tol
  | .swap u dir off ms to => swap cv s u dir off ms to
  | .withdraw u amt => withdraw s u amt
  | .collect => collect s
  | .setFees o f => setFees s o f
  | .setCollector o b => setCollector s o b
  | .donate u w amt => donate s u w amt
  | .swapBad u dir off sent => swapBad cv s u dir off sent
  | .foreign _ _ _ => .err
  | .provideBad u d0 d1 k => provideBad s u d0 d1 k

/-- run a history; a failed operation leaves the state untouched -/
def reach (cv : Curve) (s : St) : List Op → St
  | [] => s
  | op :: ops =>
    match step cv s op with
    | .ok s' => reach cv s' ops
    | _ => reach cv s ops

/-- `Pool {}` query: both reported reserves (unchecked subtraction) and the LP supply -/
def queryPool (s : St) : Res (Nat × Nat × Nat) := do
  let r0 ← psub s.x0.bal s.x0.pend
  let r1 ← psub s.x1.bal s.x1.pend
  pure (r0, r1, s.sup)

def sideInit (native : Bool) (tot : Nat) : Side :=
  { native := native, bal := 0, pend := 0, allTime := 0, burned := 0, col := 0, colB := 0, chg := 0, sent := 0,
    brn := 0, tot := tot }

/-- a freshly instantiated pair and `n` users holding `a` / `b` each -/
def init (n0 n1 : Bool) (f : Fees) (us : List User) : St :=
  { x0 := sideInit n0 ((us.map (·.a)).sum), x1 := sideInit n1 ((us.map (·.b)).sum), sup := 0, lpPair := 0,
    fees := f, users := us, useB := false }

end WW.Pair
