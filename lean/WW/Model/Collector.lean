/-
  Executable model of the fee collector's `ForwardFees` pipeline
  (`contracts/liquidity_hub/fee_collector/src/{commands,contract}.rs`):

    forward_fees (sender check, 4 self-submessages, each for ONE PAGE of its factory's listing:
                  `start_after: None, limit: Some(30)`)
      → CollectFees(vault factory)   : every vault ON THE PAGE sends all of its pending protocol fees
      → CollectFees(pool factory)    : every registered pair ON THE PAGE sends each pending entry above the
                                        pair's MINIMUM_COLLECTABLE_BALANCE and keeps the others on its ledger
      → AggregateFees(vault factory) : for each asset ≠ distribution asset of a vault on the page, ascending by label
      → AggregateFees(pool factory)  : for each asset ≠ distribution asset of a registered pair on the page:
                                        balance > MINIMUM_AGGREGABLE_BALANCE ∧ a route is registered ∧ its
                                        simulation succeeds  ⇒ the WHOLE balance is swapped through the router
                                        (a failing swap fails the transaction); otherwise untouched
      → reply                        : take rate → DAO, the rest → fee distributor, `epoch.total` = the rest

  A factory page (`read_pairs` / `read_vaults`) is the first `min(limit.unwrap_or(DEFAULT_LIMIT), MAX_LIMIT)`
  entries of the factory's map in ascending STORAGE-KEY order — not creation order: a vault's key is
  its asset's label, a pair's key is the two labels sorted and concatenated.  See "factory pages" below.

  Assets are indices `0 … n-1` in ascending label order (the order `TMP_ASSET_INFOS` iterates in), the
  labels are prefix-free (so the order of concatenated keys is the lexicographic order of index pairs);
  all assets are native (cw20 allowances are not modelled).  What the collector does not contain is a
  parameter: `router stage asset amount` = what the router paid for that swap, `acc pool side` = protocol
  fee that the aggregation swaps themselves left pending in a pair.  The router's *decisions* that the
  collector depends on are modelled from the registry state: a route simulates iff every hop has a
  registered pair, it executes iff moreover every such pair has swaps enabled.
-/
import WW.Cw.Arith
import WW.Gen.Constants
namespace WW.Collector

structure Pool where
  a : Nat
  b : Nat
  /-- listed by the pool factory's `Pairs` query -/
  reg : Bool
  /-- `feature_toggle.swaps_enabled` -/
  on : Bool
  /-- pending protocol fees (`COLLECTED_PROTOCOL_FEES`) in asset `a` / `b` -/
  pa : Nat
  pb : Nat
deriving Repr, DecidableEq

structure Vault where
  asset : Nat
  pend : Nat
deriving Repr, DecidableEq

structure Cfg where
  /-- index of the distribution asset -/
  dist : Nat
  nassets : Nat
  /-- address of the fee distributor (`config.fee_distributor`) -/
  distributor : Nat
  owner : Nat
deriving Repr, DecidableEq

structure St where
  /-- collector's balance per asset -/
  bal : Nat → Nat
  /-- `take_rate` atomics, `is_take_rate_active`, `take_rate_dao_address ≠ ""` -/
  rate : Nat
  active : Bool
  daoSet : Bool
  /-- the DAO's balance of the distribution asset -/
  dao : Nat
  /-- `TAKE_RATE_HISTORY` -/
  trh : List (Nat × Nat)
  pools : List Pool
  vaults : List Vault
  /-- registered swap route (hops) towards the distribution asset per asset; `[]` = none -/
  routes : Nat → List (Nat × Nat)

def upd (f : Nat → Nat) (i v : Nat) : Nat → Nat := fun j => if j = i then v else f j
def add (f : Nat → Nat) (i v : Nat) : Nat → Nat := fun j => if j = i then f j + v else f j

def PAIR_T : Nat := WW.Gen.PAIR_MINIMUM_COLLECTABLE_BALANCE
def AGG_T : Nat := WW.Gen.COLLECTOR_MINIMUM_AGGREGABLE_BALANCE

/-! ### factory pages

  `terraswap_factory::state::read_pairs` / `vault_factory::state::read_vaults`:
  `limit.unwrap_or(DEFAULT_LIMIT).min(MAX_LIMIT)` entries of `PAIRS` / `VAULTS` from the start of the
  map, `Order::Ascending` by storage key.  An entry is on the page iff fewer than `page size` entries
  have a smaller key (its *rank*); keys are unique (the factories refuse a second pair / vault for the
  same assets), a removed pair has no entry. -/

/-- `limit.unwrap_or(DEFAULT_LIMIT).min(MAX_LIMIT)` -/
def pageSize (limit : Option Nat) (dflt mx : Nat) : Nat := min (limit.getD dflt) mx
/-- page size of the pool factory's `Pairs { limit }` / the vault factory's `Vaults { limit }` -/
def poolPage (limit : Option Nat) : Nat :=
  pageSize limit WW.Gen.POOL_FACTORY_DEFAULT_LIMIT WW.Gen.POOL_FACTORY_MAX_LIMIT
def vaultPage (limit : Option Nat) : Nat :=
  pageSize limit WW.Gen.VAULT_FACTORY_DEFAULT_LIMIT WW.Gen.VAULT_FACTORY_MAX_LIMIT
/-- the `limit` that all four self-calls of `forward_fees` pass (`limit: Some(30u32)`) -/
def FWD_LIMIT : Option Nat := some WW.Gen.COLLECTOR_FORWARD_FEES_LIMIT

/-- storage key of a pair in `PAIRS`: the two asset labels, sorted, concatenated -/
def poolKey (p : Pool) : Nat × Nat := (min p.a p.b, max p.a p.b)
def keyLt (x y : Nat × Nat) : Bool := decide (x.1 < y.1) || (x.1 == y.1 && decide (x.2 < y.2))

/-- number of registered pairs whose key precedes `k` -/
def poolRank (k : Nat × Nat) : List Pool → Nat
  | [] => 0
  | q :: qs => (if q.reg = true ∧ keyLt (poolKey q) k = true then 1 else 0) + poolRank k qs
/-- number of vaults whose key (asset label) precedes asset `a` -/
def vaultRank (a : Nat) : List Vault → Nat
  | [] => 0
  | w :: ws => (if w.asset < a then 1 else 0) + vaultRank a ws
/-- number of entries in `PAIRS` -/
def regCount : List Pool → Nat
  | [] => 0
  | q :: qs => (if q.reg = true then 1 else 0) + regCount qs

/-- pair `p` is among the first `n` entries of the pool factory's listing of `ps` -/
def poolListed (ps : List Pool) (n : Nat) (p : Pool) : Bool := p.reg && decide (poolRank (poolKey p) ps < n)
/-- vault `v` is among the first `n` entries of the vault factory's listing of `vs` -/
def vaultListed (vs : List Vault) (n : Nat) (v : Vault) : Bool := decide (vaultRank v.asset vs < n)

/-! ### collection (`l` = "is on the factory page the message names") -/

def vsent (l : Bool) (p : Nat) : Nat := if l = true then p else 0
def vkept (l : Bool) (p : Nat) : Nat := if l = true then 0 else p

def collectVaults (l : Vault → Bool) : List Vault → (Nat → Nat) → (Nat → Nat)
  | [], b => b
  | v :: vs, b => collectVaults l vs (add b v.asset (vsent (l v) v.pend))

def vaultsAfter (l : Vault → Bool) (vs : List Vault) : List Vault :=
  vs.map fun v => { v with pend := vkept (l v) v.pend }

/-- amount of a pair's pending entry that `collect_protocol_fees` sends (all of it above the threshold) -/
def sent (reg : Bool) (p : Nat) : Nat := if reg ∧ PAIR_T < p then p else 0
def kept (reg : Bool) (p : Nat) : Nat := if reg ∧ PAIR_T < p then 0 else p

def collectPools (l : Pool → Bool) : List Pool → (Nat → Nat) → (Nat → Nat)
  | [], b => b
  | p :: ps, b => collectPools l ps (add (add b p.a (sent (l p) p.pa)) p.b (sent (l p) p.pb))

def poolsAfter (l : Pool → Bool) (ps : List Pool) : List Pool :=
  ps.map fun p => { p with pa := kept (l p) p.pa, pb := kept (l p) p.pb }

/-- what the collection moves into the collector, per asset -/
def vaultsCollected (l : Vault → Bool) (i : Nat) : List Vault → Nat
  | [] => 0
  | v :: vs => (if v.asset = i then vsent (l v) v.pend else 0) + vaultsCollected l i vs

def poolsCollected (l : Pool → Bool) (i : Nat) : List Pool → Nat
  | [] => 0
  | p :: ps => (if p.a = i then sent (l p) p.pa else 0) + (if p.b = i then sent (l p) p.pb else 0) + poolsCollected l i ps

/-- pending protocol fees of ALL vaults in asset `i` -/
def vaultsPending (i : Nat) : List Vault → Nat
  | [] => 0
  | v :: vs => (if v.asset = i then v.pend else 0) + vaultsPending i vs

/-! ### router registry decisions -/

def pairFor (ps : List Pool) (x y : Nat) : Option Pool :=
  ps.find? fun p => p.reg && ((p.a == x && p.b == y) || (p.a == y && p.b == x))

/-- `SwapRoute` query succeeds and `SimulateSwapOperations` succeeds: every hop has a registered pair -/
def simOk (ps : List Pool) (hops : List (Nat × Nat)) : Bool :=
  !hops.isEmpty && hops.all fun h => (pairFor ps h.1 h.2).isSome

/-- every pair on the route accepts swaps -/
def execOk (ps : List Pool) (hops : List (Nat × Nat)) : Bool :=
  hops.all fun h => match pairFor ps h.1 h.2 with
    | some p => p.on
    | none => false

/-! ### aggregation -/

/-- one `AggregateFees` pass over the candidate assets (ascending); returns the balances, the sum the
    router paid in distribution asset, and the swaps made `(stage, asset, amount in)` -/
def aggregate (dist : Nat) (router : Nat → Nat → Nat → Nat) (stage : Nat) (ps : List Pool)
    (routes : Nat → List (Nat × Nat)) : List Nat → (Nat → Nat) → Res ((Nat → Nat) × Nat × List (Nat × Nat × Nat))
  | [], b => .ok (b, 0, [])
  | i :: is, b =>
    if AGG_T < b i ∧ simOk ps (routes i) = true then
      if execOk ps (routes i) = true then
        match aggregate dist router stage ps routes is (add (upd b i 0) dist (router stage i (b i))) with
        | .ok (b', inn, sw) => .ok (b', router stage i (b i) + inn, (stage, i, b i) :: sw)
        | .err => .err
        | .panic => .panic
      else .err                                   -- the swap message fails → the whole transaction fails
    else aggregate dist router stage ps routes is b

/-- candidate assets of the two passes: the assets of the vaults / pairs on the factory page `l` -/
def vaultAssets (cfg : Cfg) (l : Vault → Bool) (vs : List Vault) : List Nat :=
  (List.range cfg.nassets).filter fun i => i != cfg.dist && vs.any fun v => l v && v.asset == i
def poolAssets (cfg : Cfg) (l : Pool → Bool) (ps : List Pool) : List Nat :=
  (List.range cfg.nassets).filter fun i => i != cfg.dist && ps.any fun p => l p && (p.a == i || p.b == i)

/-! ### reply: take rate and transfer -/

/-- `token_balance.checked_mul_floor(take_rate).unwrap_or(0)` when the take rate applies, else 0 -/
def takeOf (s : St) (tb : Nat) : Nat :=
  if s.active = true ∧ s.rate ≠ 0 ∧ s.daoSet = true then
    (if tb * s.rate / E18 ≤ U128MAX then tb * s.rate / E18 else 0)
  else 0

def addAcc (acc : Nat → Nat → Nat) : Nat → List Pool → List Pool
  | _, [] => []
  | k, p :: ps => { p with pa := p.pa + acc k 0, pb := p.pb + acc k 1 } :: addAcc acc (k + 1) ps

/-- result of a successful `ForwardFees` -/
structure Out where
  st : St
  /-- `epoch.total` in the `ForwardFeesResponse` (= amount transferred to the distributor) -/
  inflow : Option Nat
  /-- DAO's cut -/
  take : Nat
  /-- distribution-asset balance after aggregation, before the take rate -/
  base : Nat
  /-- what the router paid in, both passes -/
  swappedIn : Nat
  swaps : List (Nat × Nat × Nat)

/-- the vaults / pairs on the pages that `forward_fees` asks its factories for -/
def fwdVaults (s : St) : Vault → Bool := vaultListed s.vaults (vaultPage FWD_LIMIT)
def fwdPools (s : St) : Pool → Bool := poolListed s.pools (poolPage FWD_LIMIT)

/-- `ForwardFees { epoch }` sent by `sender` for the epoch with id `epochId` -/
def forwardFees (cfg : Cfg) (s : St) (sender epochId : Nat) (router : Nat → Nat → Nat → Nat)
    (acc : Nat → Nat → Nat) : Res Out :=
  if sender ≠ cfg.distributor then .err                         -- Unauthorized
  else
    let b1 := collectPools (fwdPools s) s.pools (collectVaults (fwdVaults s) s.vaults s.bal)
    let ps1 := poolsAfter (fwdPools s) s.pools
    match aggregate cfg.dist router 0 ps1 s.routes (vaultAssets cfg (fwdVaults s) s.vaults) b1 with
    | .ok (b2, in0, sw0) =>
      -- the collection changed neither keys nor registrations: the page is the one of `s.pools`
      match aggregate cfg.dist router 1 ps1 s.routes (poolAssets cfg (fwdPools s) ps1) b2 with
      | .ok (b3, in1, sw1) =>
        let tb := b3 cfg.dist
        let take := takeOf s tb
        if take ≤ tb then
          let rest := tb - take
          .ok { st := { s with bal := upd b3 cfg.dist 0,
                               dao := s.dao + take,
                               trh := if take = 0 then s.trh else s.trh ++ [(epochId, take)],
                               pools := addAcc acc 0 ps1,
                               vaults := vaultsAfter (fwdVaults s) s.vaults },
                inflow := if rest = 0 then none else some rest,
                take := take, base := tb, swappedIn := in0 + in1, swaps := sw0 ++ sw1 }
        else .err                                               -- bank send to the DAO cannot be covered
      | .err => .err
      | .panic => .panic
    | .err => .err
    | .panic => .panic

/-! ### `CollectFees` / `AggregateFees` sent directly (not as the self-calls of `ForwardFees`)

  Neither entry point looks at `info.sender` (`contract.rs::execute` does not even pass `info` on):
  ANYBODY may send them, at any time.  `sender` is kept as an argument to make that visible
  (`collectFees_any_sender` / `aggregateFees_any_sender` in `WW/Proofs/Collector.lean`).  What the
  code does reject:
   * a factory that does not answer the query of the named `FactoryType` (`wrongFactory`),
   * a contract address that is no contract (`onePool k` / `oneVault k` with `k` out of range),
   * `AggregateFees { Contracts {..} }` — always (`InvalidContractsFeeAggregation`).
  Sent directly the messages carry no reply id: no take rate, no transfer to the distributor, no epoch. -/

/-- the `FeesFor` values the harness sends (factory pages are `start_after: None, limit`) -/
inductive FeesFor where
  /-- `Factory { vault_factory, Vault { start_after: None, limit } }` -/
  | vaultFactory (limit : Option Nat)
  /-- `Factory { pool_factory, Pool { start_after: None, limit } }` -/
  | poolFactory (limit : Option Nat)
  /-- `Factory { pool_factory, Vault {..} }`: the factory cannot answer the `Vaults` query -/
  | wrongFactory
  /-- `Contracts { [pair k as Pool] }` — the pair need not be listed by the factory -/
  | onePool (k : Nat)
  /-- `Contracts { [vault k as Vault] }` -/
  | oneVault (k : Nat)
deriving Repr, DecidableEq

/-- `ExecuteMsg::CollectFees { collect_fees_for }` sent by `sender` -/
def collectFees (s : St) (_sender : Nat) : FeesFor → Res St
  | .vaultFactory lim =>
    .ok { s with bal := collectVaults (vaultListed s.vaults (vaultPage lim)) s.vaults s.bal,
                 vaults := vaultsAfter (vaultListed s.vaults (vaultPage lim)) s.vaults }
  | .poolFactory lim =>
    .ok { s with bal := collectPools (poolListed s.pools (poolPage lim)) s.pools s.bal,
                 pools := poolsAfter (poolListed s.pools (poolPage lim)) s.pools }
  | .wrongFactory => .err
  | .onePool k =>
    match s.pools[k]? with
    | some p => .ok { s with bal := add (add s.bal p.a (sent true p.pa)) p.b (sent true p.pb),
                             pools := s.pools.set k { p with pa := kept true p.pa, pb := kept true p.pb } }
    | none => .err
  | .oneVault k =>
    match s.vaults[k]? with
    | some v => .ok { s with bal := add s.bal v.asset v.pend, vaults := s.vaults.set k { v with pend := 0 } }
    | none => .err

/-- pending protocol fees of the pairs in asset `i` (collectable or not) -/
def poolsPending (i : Nat) : List Pool → Nat
  | [] => 0
  | p :: ps => (if p.a = i then p.pa else 0) + (if p.b = i then p.pb else 0) + poolsPending i ps

/-- what a direct `CollectFees` for `f` moves into the collector, per asset -/
def directCollected (s : St) (f : FeesFor) (i : Nat) : Nat :=
  match f with
  | .vaultFactory lim => vaultsCollected (vaultListed s.vaults (vaultPage lim)) i s.vaults
  | .poolFactory lim => poolsCollected (poolListed s.pools (poolPage lim)) i s.pools
  | .wrongFactory => 0
  | .onePool k =>
    match s.pools[k]? with
    | some p => (if p.a = i then sent true p.pa else 0) + (if p.b = i then sent true p.pb else 0)
    | none => 0
  | .oneVault k =>
    match s.vaults[k]? with
    | some v => if v.asset = i then v.pend else 0
    | none => 0

/-- the candidate assets a direct `AggregateFees` stores in `TMP_ASSET_INFOS`; `none` = rejected -/
def aggCands (cfg : Cfg) (s : St) : FeesFor → Option (List Nat)
  | .vaultFactory lim => some (vaultAssets cfg (vaultListed s.vaults (vaultPage lim)) s.vaults)
  | .poolFactory lim => some (poolAssets cfg (poolListed s.pools (poolPage lim)) s.pools)
  | _ => none

/-- `ExecuteMsg::AggregateFees { aggregate_fees_for }` sent by `sender`: one aggregation pass over the
    collector's own balances; the router pays the collector (`to: None`). Returns the new state, what
    the router paid in, and the swaps made. -/
def aggregateFees (cfg : Cfg) (s : St) (_sender : Nat) (f : FeesFor) (router : Nat → Nat → Nat → Nat)
    (acc : Nat → Nat → Nat) : Res (St × Nat × List (Nat × Nat × Nat)) :=
  match aggCands cfg s f with
  | none => .err
  | some cands =>
    match aggregate cfg.dist router 0 s.pools s.routes cands s.bal with
    | .ok (b, inn, sw) => .ok ({ s with bal := b, pools := addAcc acc 0 s.pools }, inn, sw)
    | .err => .err
    | .panic => .panic

/-- `UpdateConfig { take_rate, take_rate_dao_address, is_take_rate_active }` -/
def updateConfig (cfg : Cfg) (s : St) (sender : Nat) (rate : Option Nat) (setDao : Bool) (active : Option Bool) : Res St :=
  if sender ≠ cfg.owner then .err
  else
    match rate with
    | some r =>
      if r < E18 then .ok { s with rate := r, daoSet := s.daoSet || setDao, active := active.getD s.active }
      else .err                                                 -- InvalidTakeRate
    | none => .ok { s with daoSet := s.daoSet || setDao, active := active.getD s.active }

end WW.Collector
