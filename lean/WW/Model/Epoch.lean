/-
  Executable model of the two epoch clocks of white-whale-core (property C20).

  * the **epoch manager** (`contracts/liquidity_hub/epoch-manager/src/{contract,commands}.rs`):
    `instantiate`, `create_epoch`, `add_hook` / `remove_hook` (cw-controllers `Hooks` behind the cw-controllers
    `Admin`), `update_config`;
  * the clock of the **fee distributor** (`contracts/liquidity_hub/fee_distributor/src/{contract,commands,
    helpers,state}.rs`): `instantiate`, `create_new_epoch` (+ the reply that stores the epoch),
    `update_config` (epoch_config only).  Of an epoch only `id` and `start_time` are modelled; fee vectors and
    the global index are opaque to C20.

  All times are nanoseconds (`Timestamp` = u64), ids are u64.  `Res.err` = the Rust returned `Err`, `Res.panic`
  = it panicked (`Timestamp::minus_nanos` / `plus_nanos` are `strict_sub` / `strict_add`).
  Import-free apart from the arithmetic layer (linked into the native driver).
-/
import WW.Cw.Arith
import WW.Gen.Constants
namespace WW.Epoch
open WW

/-- `white_whale_std::epoch_manager::epoch_manager::EpochConfig` -/
structure Cfg where
  duration : Nat
  genesis : Nat
deriving Repr, DecidableEq

/-- `EpochV2 {id, start_time}` / the `(id, start_time)` part of `fee_distributor::Epoch` -/
structure Ep where
  id : Nat
  start : Nat
deriving Repr, DecidableEq

/-! ## Epoch manager -/

/-- storage of the epoch manager: `ADMIN`, `CONFIG`, `EPOCH`, `HOOKS` (addresses are numbers) -/
structure Mgr where
  owner : Nat
  cfg : Cfg
  cur : Ep
  hooks : List Nat
deriving Repr, DecidableEq

/-- `contract.rs::instantiate`: the start epoch must not lie in the past and `genesis_epoch` must equal its
    start time.  The duration is **not** validated (any u64, also 0), nor is the start id. -/
def Mgr.instantiate (now sender : Nat) (e0 : Ep) (cfg : Cfg) : Res Mgr :=
  if e0.start < now then .err
  else if cfg.genesis ≠ e0.start then .err
  else .ok { owner := sender, cfg := cfg, cur := e0, hooks := [] }

/-- `Hooks::execute_add_hook`: admin only; an address already registered is refused; appended at the end -/
def Mgr.addHook (s : Mgr) (sender h : Nat) : Res Mgr :=
  if sender ≠ s.owner then .err
  else if s.hooks.contains h then .err
  else .ok { s with hooks := s.hooks ++ [h] }

/-- `Hooks::execute_remove_hook`: admin only; must be registered; removes it, order kept -/
def Mgr.removeHook (s : Mgr) (sender h : Nat) : Res Mgr :=
  if sender ≠ s.owner then .err
  else if s.hooks.contains h then .ok { s with hooks := s.hooks.erase h }
  else .err

/-- `commands::update_config` (epoch_config only): admin only, **no validation** of the new config -/
def Mgr.updateConfig (s : Mgr) (sender : Nat) (cfg : Cfg) : Res Mgr :=
  if sender ≠ s.owner then .err else .ok { s with cfg := cfg }

/-- `commands::create_epoch`, in the order of the Rust:
    1. `env.block.time.minus_nanos(current.start_time)` – panics when `now < start` (before genesis);
    2. `… < duration` → `Err(CurrentEpochNotExpired)`;
    3. `id.checked_add(1).ok_or(EpochOverflow)?`;
    4. `start_time.plus_nanos(duration)` – panics on u64 overflow;
    5. saves the epoch and emits one `EpochChangedHookMsg{current_epoch}` submessage per registered hook, in
       registration order.  The sender is not looked at. -/
def Mgr.createEpoch (s : Mgr) (now : Nat) : Res (Mgr × List (Nat × Ep)) :=
  if now < s.cur.start then .panic
  else if now - s.cur.start < s.cfg.duration then .err
  else if U64MAX < s.cur.id + 1 then .err
  else if U64MAX < s.cur.start + s.cfg.duration then .panic
  else
    let e : Ep := { id := s.cur.id + 1, start := s.cur.start + s.cfg.duration }
    .ok ({ s with cur := e }, s.hooks.map (fun h => (h, e)))

/-- `queries::query_epoch(id)`: the current epoch as stored; any other id is answered by arithmetic on the
    CURRENT epoch and the CURRENT duration — `start − duration · (current id ⊖ id)` (`⊖` saturating: a
    future id gets the current start), with the u64 product and `Timestamp::minus_nanos` both panicking
    (overflow checks are on) when they do not fit -/
def Mgr.queryEpoch (s : Mgr) (id : Nat) : Res Ep :=
  if s.cur.id = id then .ok s.cur
  else
    let diff := s.cur.id - id
    if U64MAX < s.cfg.duration * diff then .panic
    else if s.cur.start < s.cfg.duration * diff then .panic
    else .ok { id := id, start := s.cur.start - s.cfg.duration * diff }

/-- operations of the manager -/
inductive MOp where
  | create
  | addHook (h : Nat)
  | removeHook (h : Nat)
  | updateConfig (cfg : Cfg)
deriving Repr, DecidableEq

/-- one transaction on the manager: new storage and the hook messages it sent -/
def Mgr.step (s : Mgr) (now sender : Nat) : MOp → Res (Mgr × List (Nat × Ep))
  | .create => s.createEpoch now
  | .addHook h => (s.addHook sender h) >>= fun s' => .ok (s', [])
  | .removeHook h => (s.removeHook sender h) >>= fun s' => .ok (s', [])
  | .updateConfig c => (s.updateConfig sender c) >>= fun s' => .ok (s', [])

/-- storage after a transaction; a failed one (err or panic) changes nothing -/
def Mgr.next (s : Mgr) (x : Nat × Nat × MOp) : Mgr :=
  match s.step x.1 x.2.1 x.2.2 with
  | .ok (s', _) => s'
  | _ => s

/-- storage after a history of `(block time, sender, op)`; no assumption on the times -/
def Mgr.reach (s : Mgr) : List (Nat × Nat × MOp) → Mgr
  | [] => s
  | x :: xs => Mgr.reach (s.next x) xs

/-- the epochs created along a history, in creation order -/
def Mgr.created (s : Mgr) : List (Nat × Nat × MOp) → List Ep
  | [] => []
  | x :: xs =>
    match x.2.2, s.step x.1 x.2.1 x.2.2 with
    | .create, .ok (s', _) => s'.cur :: Mgr.created s' xs
    | _, _ => Mgr.created (s.next x) xs

/-- every hook message sent along a history, in emission order -/
def Mgr.sent (s : Mgr) : List (Nat × Nat × MOp) → List (Nat × Ep)
  | [] => []
  | x :: xs =>
    match s.step x.1 x.2.1 x.2.2 with
    | .ok (s', ms) => ms ++ Mgr.sent s' xs
    | _ => Mgr.sent s xs

/-! ## Fee distributor clock -/

/-- `CONFIG.{owner, epoch_config}` and the last entry of the `EPOCHS` map (`Epoch::default()` = id 0,
    start 0 while the map is empty) -/
structure Dist where
  owner : Nat
  cfg : Cfg
  cur : Ep
deriving Repr, DecidableEq

/-- `helpers::validate_epoch_config` -/
def validEpochConfig (c : Cfg) : Bool := decide (Gen.DISTRIBUTOR_DAY_IN_NANOSECONDS ≤ c.duration)

/-- `contract.rs::instantiate` (grace period and addresses valid): the duration must be at least a day;
    the genesis time is not validated -/
def Dist.instantiate (sender : Nat) (cfg : Cfg) : Res Dist :=
  if validEpochConfig cfg then .ok { owner := sender, cfg := cfg, cur := { id := 0, start := 0 } } else .err

/-- `commands::update_config` with only `epoch_config` set: owner only, duration ≥ 1 day -/
def Dist.updateConfig (s : Dist) (sender : Nat) (cfg : Cfg) : Res Dist :=
  if sender ≠ s.owner then .err
  else if validEpochConfig cfg then .ok { s with cfg := cfg } else .err

/-- "no epoch yet": `current_epoch.id == 0 && current_epoch.start_time == Timestamp::default()` -/
def Dist.isFirst (s : Dist) : Bool := s.cur.id == 0 && s.cur.start == 0

/-- `commands::create_new_epoch` followed by the collector round trip and the reply that stores the epoch
    (no pools / vaults: the round trip cannot fail), in the order of the Rust:
    1. `block.time.minus_nanos(current.start_time)` – panic when `now < start`;
    2. `… < duration` → `Err(CurrentEpochNotExpired)` — **also for the very first epoch**, whose "current"
       epoch is the default one starting at time 0, i.e. the first epoch additionally needs `now ≥ duration`;
    3. first epoch: `now < genesis` → `Err(GenesisEpochNotStarted)`, start := genesis;
       later epochs: start := `start.plus_nanos(duration)` (panics on overflow);
    4. `id.checked_add(1)?`. The sender is not looked at. -/
def Dist.createNewEpoch (s : Dist) (now : Nat) : Res Dist :=
  if now < s.cur.start then .panic
  else if now - s.cur.start < s.cfg.duration then .err
  else if s.isFirst then
    if now < s.cfg.genesis then .err
    else if U64MAX < s.cur.id + 1 then .err
    else .ok { s with cur := { id := s.cur.id + 1, start := s.cfg.genesis } }
  else if U64MAX < s.cur.start + s.cfg.duration then .panic
  else if U64MAX < s.cur.id + 1 then .err
  else .ok { s with cur := { id := s.cur.id + 1, start := s.cur.start + s.cfg.duration } }

inductive DOp where
  | create
  | updateConfig (cfg : Cfg)
deriving Repr, DecidableEq

def Dist.step (s : Dist) (now sender : Nat) : DOp → Res Dist
  | .create => s.createNewEpoch now
  | .updateConfig c => s.updateConfig sender c

def Dist.next (s : Dist) (x : Nat × Nat × DOp) : Dist :=
  match s.step x.1 x.2.1 x.2.2 with
  | .ok s' => s'
  | _ => s

def Dist.reach (s : Dist) : List (Nat × Nat × DOp) → Dist
  | [] => s
  | x :: xs => Dist.reach (s.next x) xs

/-- the epochs created along a history, in creation order -/
def Dist.created (s : Dist) : List (Nat × Nat × DOp) → List Ep
  | [] => []
  | x :: xs =>
    match x.2.2, s.step x.1 x.2.1 x.2.2 with
    | .create, .ok s' => s'.cur :: Dist.created s' xs
    | _, _ => Dist.created (s.next x) xs

/-! ## The world of the correspondence run: both clocks and the recording hook contracts -/

/-- a recording hook contract: how many `EpochChangedHook` messages it got and the epoch of the last one -/
structure Recorder where
  count : Nat
  last : Ep
deriving Repr, DecidableEq

/-- hand one hook message to recorder number `m.1` -/
def deliver1 (recs : List Recorder) (m : Nat × Ep) : List Recorder :=
  recs.mapIdx fun i r => if i = m.1 then { count := r.count + 1, last := m.2 } else r

/-- submessages are executed in emission order -/
def deliver (recs : List Recorder) (ms : List (Nat × Ep)) : List Recorder := ms.foldl deliver1 recs

structure World where
  mgr : Option Mgr
  dist : Option Dist
  recs : List Recorder
deriving Repr, DecidableEq

inductive Op where
  | m (op : MOp)
  | d (op : DOp)
deriving Repr, DecidableEq

/-- number of recording hook contracts in the cast -/
def nRecorders : Nat := 3

/-- `init`: both contracts are instantiated by `sender` at block time `now`; a rejected instantiation leaves
    that contract absent -/
def World.init (now sender : Nat) (e0 : Ep) (mcfg dcfg : Cfg) : World :=
  { mgr := (Mgr.instantiate now sender e0 mcfg).toOption
    dist := (Dist.instantiate sender dcfg).toOption
    recs := List.replicate nRecorders { count := 0, last := { id := 0, start := 0 } } }

/-- one transaction; a message to a contract that was never instantiated fails -/
def World.step (w : World) (now sender : Nat) : Op → Res World
  | .m op =>
    match w.mgr with
    | none => .err
    | some s => (s.step now sender op) >>= fun r => .ok { w with mgr := some r.1, recs := deliver w.recs r.2 }
  | .d op =>
    match w.dist with
    | none => .err
    | some s => (s.step now sender op) >>= fun s' => .ok { w with dist := some s' }

end WW.Epoch
