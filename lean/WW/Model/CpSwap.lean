/-
  Replica of the `PairType::ConstantProduct` arm of
  `terraswap_pair/src/helpers.rs::compute_swap` (default features, i.e. no osmosis fee),
  with every point at which the Rust can return `Err` or panic.
-/
import WW.Cw.Arith
namespace WW

/-- `PoolFee` as `Decimal` atomics (18 decimals). -/
structure Fees where
  prot : Nat
  swap : Nat
  burn : Nat
deriving Repr, DecidableEq

/-- `PoolFee::is_valid`: each share `< 1` and the sum `< 1`. -/
def Fees.valid (f : Fees) : Bool :=
  f.prot < E18 && f.swap < E18 && f.burn < E18 && f.prot + f.swap + f.burn < E18

/-- `SwapComputation` -/
structure SwapComp where
  ret : Nat
  spread : Nat
  swapFee : Nat
  protFee : Nat
  burnFee : Nat
deriving Repr, DecidableEq

/-- the gross output of the constant-product formula -/
def cpGross (op ap off : Nat) : Nat := ap * off / (op + off)

/-- `Fee::compute` on a `Uint256` amount: `amount * Decimal256::from(share)` -/
def feeOf (share amt : Nat) : Nat := amt * share / E18

def cpSwap (op ap off : Nat) (f : Fees) : Res SwapComp := do
  -- Uint256::one() * Decimal256::from_ratio(ask_pool.mul(offer_amount), offer_pool + offer_amount)
  let prod ← pmul U256MAX ap off
  let den ← padd U256MAX op off
  let r ← dec256FromRatio prod den
  let gross ← u256MulDec 1 r
  -- exchange_rate = Decimal256::from_ratio(ask_pool, offer_pool)
  let er ← dec256FromRatio ap op
  -- (offer_amount * exchange_rate).saturating_sub(return_amount)
  let x ← u256MulDec off er
  let spread := x - gross
  let sf ← u256MulDec gross f.swap
  let pf ← u256MulDec gross f.prot
  let bf ← u256MulDec gross f.burn
  -- return_amount - swap_fee_amount - protocol_fee_amount - burn_fee_amount (unchecked)
  let r1 ← psub gross sf
  let r2 ← psub r1 pf
  let ret ← psub r2 bf
  let ret ← to128 ret
  let spread ← to128 spread
  let sf ← to128 sf
  let pf ← to128 pf
  let bf ← to128 bf
  pure { ret := ret, spread := spread, swapFee := sf, protFee := pf, burnFee := bf }

end WW
