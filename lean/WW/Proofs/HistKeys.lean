/- `maxKey` / `maxKeyLE` on association lists with distinct keys, and what one `expand_flow` does to a
   flow's asset history and funded amount (C11, C12). -/
import WW.Proofs.PosDelta
namespace WW.Inc
open WW WW.Gen

section Keys
variable {α : Type}

def mkStep (acc : Option (Nat × α)) (p : Nat × α) : Option (Nat × α) :=
  match acc with
  | none => some p
  | some q => if q.1 ≤ p.1 then some p else acc

theorem maxKey_eq_foldl (l : List (Nat × α)) : maxKey l = l.foldl mkStep none := rfl

theorem foldl_mkStep_none : ∀ (l : List (Nat × α)) (acc : Option (Nat × α)),
    l.foldl mkStep acc = none → acc = none ∧ l = [] := by
  intro l
  induction l with
  | nil => intro acc h; exact ⟨h, rfl⟩
  | cons x t ih =>
    intro acc h
    rw [List.foldl_cons] at h
    have := (ih _ h).1
    unfold mkStep at this
    split at this
    · cases this
    · split at this <;> cases this

theorem foldl_mkStep_some : ∀ (l : List (Nat × α)) (acc : Option (Nat × α)) (p : Nat × α),
    l.foldl mkStep acc = some p →
      (acc = some p ∨ p ∈ l) ∧ (∀ q ∈ l, q.1 ≤ p.1) ∧ (∀ q, acc = some q → q.1 ≤ p.1) := by
  intro l
  induction l with
  | nil =>
    intro acc p h
    refine ⟨Or.inl h, fun q hq => (by cases hq), ?_⟩
    intro q hq
    have h' : acc = some p := h
    rw [h'] at hq; injection hq with hq; rw [hq]
  | cons x t ih =>
    intro acc p h
    rw [List.foldl_cons] at h
    obtain ⟨h1, h2, h3⟩ := ih _ _ h
    cases acc with
    | none =>
      have hs : mkStep (none : Option (Nat × α)) x = some x := rfl
      rw [hs] at h1 h3
      have hx : x.1 ≤ p.1 := h3 x rfl
      refine ⟨Or.inr ?_, ?_, fun q hq => by cases hq⟩
      · rcases h1 with h1 | h1
        · injection h1 with h1; rw [h1]; exact List.mem_cons_self
        · exact List.mem_cons_of_mem _ h1
      · intro q hq
        rcases List.mem_cons.mp hq with hq | hq
        · rw [hq]; exact hx
        · exact h2 q hq
    | some q0 =>
      by_cases hle : q0.1 ≤ x.1
      · have hs : mkStep (some q0) x = some x := by unfold mkStep; simp [hle]
        rw [hs] at h1 h3
        have hx : x.1 ≤ p.1 := h3 x rfl
        refine ⟨Or.inr ?_, ?_, ?_⟩
        · rcases h1 with h1 | h1
          · injection h1 with h1; rw [h1]; exact List.mem_cons_self
          · exact List.mem_cons_of_mem _ h1
        · intro q hq
          rcases List.mem_cons.mp hq with hq | hq
          · rw [hq]; exact hx
          · exact h2 q hq
        · intro q hq; injection hq with hq; rw [← hq]; omega
      · have hs : mkStep (some q0) x = some q0 := by unfold mkStep; simp [hle]
        rw [hs] at h1 h3
        have hq0 : q0.1 ≤ p.1 := h3 q0 rfl
        refine ⟨?_, ?_, ?_⟩
        · rcases h1 with h1 | h1
          · exact Or.inl h1
          · exact Or.inr (List.mem_cons_of_mem _ h1)
        · intro q hq
          rcases List.mem_cons.mp hq with hq | hq
          · rw [hq]; omega
          · exact h2 q hq
        · intro q hq; injection hq with hq; rw [← hq]; exact hq0

def keysOf (l : List (Nat × α)) : List Nat := l.map (·.1)

theorem keys_unique {l : List (Nat × α)} (hn : (keysOf l).Nodup) {p q : Nat × α} (hp : p ∈ l) (hq : q ∈ l)
    (hk : p.1 = q.1) : p = q := by
  induction l with
  | nil => cases hp
  | cons x t ih =>
    simp only [keysOf, List.map_cons, List.nodup_cons] at hn
    rcases List.mem_cons.mp hp with hp | hp <;> rcases List.mem_cons.mp hq with hq | hq
    · rw [hp, hq]
    · exfalso; apply hn.1; rw [← hp, hk]; exact List.mem_map_of_mem (f := (·.1)) hq
    · exfalso; apply hn.1; rw [← hq, ← hk]; exact List.mem_map_of_mem (f := (·.1)) hp
    · exact ih hn.2 hp hq

theorem maxKey_none_iff (l : List (Nat × α)) : maxKey l = none ↔ l = [] := by
  constructor
  · intro h; rw [maxKey_eq_foldl] at h; exact (foldl_mkStep_none l none h).2
  · intro h; subst h; rfl

theorem maxKey_some_iff {l : List (Nat × α)} (hn : (keysOf l).Nodup) (p : Nat × α) :
    maxKey l = some p ↔ p ∈ l ∧ ∀ q ∈ l, q.1 ≤ p.1 := by
  constructor
  · intro h
    rw [maxKey_eq_foldl] at h
    obtain ⟨h1, h2, _⟩ := foldl_mkStep_some l none p h
    rcases h1 with h1 | h1
    · cases h1
    · exact ⟨h1, h2⟩
  · intro ⟨hp, hmax⟩
    cases hm : maxKey l with
    | none =>
      rw [(maxKey_none_iff l).mp hm] at hp; cases hp
    | some p' =>
      rw [maxKey_eq_foldl] at hm
      obtain ⟨h1, h2, _⟩ := foldl_mkStep_some l none p' hm
      rcases h1 with h1 | h1
      · cases h1
      · have : p' = p := keys_unique hn h1 hp (Nat.le_antisymm (hmax p' h1) (h2 p hp))
        rw [this]

def mkStepLE (e : Nat) (acc : Option (Nat × α)) (p : Nat × α) : Option (Nat × α) :=
  if p.1 ≤ e then
    match acc with
    | none => some p
    | some q => if q.1 ≤ p.1 then some p else acc
  else acc

theorem maxKeyLE_eq_foldl (l : List (Nat × α)) (e : Nat) : maxKeyLE l e = l.foldl (mkStepLE e) none := rfl

theorem foldl_mkStepLE (e : Nat) : ∀ (l : List (Nat × α)) (acc : Option (Nat × α)),
    l.foldl (mkStepLE e) acc = (l.filter (fun p => decide (p.1 ≤ e))).foldl mkStep acc := by
  intro l
  induction l with
  | nil => intro acc; rfl
  | cons x t ih =>
    intro acc
    rw [List.foldl_cons]
    by_cases hx : x.1 ≤ e
    · rw [List.filter_cons_of_pos (by simpa using hx), List.foldl_cons, ih]
      have : mkStepLE e acc x = mkStep acc x := by unfold mkStepLE mkStep; rw [if_pos hx]
      rw [this]
    · rw [List.filter_cons_of_neg (by simpa using hx), ih]
      have : mkStepLE e acc x = acc := by unfold mkStepLE; rw [if_neg hx]
      rw [this]

theorem maxKeyLE_eq_filter (l : List (Nat × α)) (e : Nat) :
    maxKeyLE l e = maxKey (l.filter (fun p => decide (p.1 ≤ e))) := by
  rw [maxKeyLE_eq_foldl, foldl_mkStepLE, maxKey_eq_foldl]

theorem maxKeyLE_of_all_le {l : List (Nat × α)} {e : Nat} (h : ∀ q ∈ l, q.1 ≤ e) : maxKeyLE l e = maxKey l := by
  rw [maxKeyLE_eq_filter]
  have : l.filter (fun p => decide (p.1 ≤ e)) = l := by
    apply List.filter_eq_self.mpr
    intro x hx; exact decide_eq_true (h x hx)
  rw [this]

/-! membership in `aset` -/

theorem mem_aset {l : List (Nat × α)} {k : Nat} {v : α} {p : Nat × α} (h : p ∈ aset l k v) :
    p = (k, v) ∨ p ∈ l := by
  induction l with
  | nil => simp only [aset, List.mem_singleton] at h; exact Or.inl h
  | cons x t ih =>
    obtain ⟨k', v'⟩ := x
    unfold aset at h
    split at h
    · rcases List.mem_cons.mp h with h | h
      · exact Or.inl h
      · exact Or.inr (List.mem_cons_of_mem _ h)
    · rcases List.mem_cons.mp h with h | h
      · exact Or.inr (by rw [h]; exact List.mem_cons_self)
      · rcases ih h with h | h
        · exact Or.inl h
        · exact Or.inr (List.mem_cons_of_mem _ h)

theorem mem_aset_self (l : List (Nat × α)) (k : Nat) (v : α) : (k, v) ∈ aset l k v := by
  induction l with
  | nil => simp [aset]
  | cons x t ih =>
    obtain ⟨k', v'⟩ := x
    unfold aset
    split
    · exact List.mem_cons_self
    · exact List.mem_cons_of_mem _ ih

theorem mem_aset_of_ne {l : List (Nat × α)} {k : Nat} {v : α} {p : Nat × α} (hp : p ∈ l) (hk : p.1 ≠ k) :
    p ∈ aset l k v := by
  induction l with
  | nil => cases hp
  | cons x t ih =>
    obtain ⟨k', v'⟩ := x
    unfold aset
    split
    · rename_i hkk
      rcases List.mem_cons.mp hp with hp | hp
      · exfalso; apply hk; rw [hp]; exact hkk
      · exact List.mem_cons_of_mem _ hp
    · rcases List.mem_cons.mp hp with hp | hp
      · rw [hp]; exact List.mem_cons_self
      · exact List.mem_cons_of_mem _ (ih hp)

theorem keysOf_aset_mem {l : List (Nat × α)} {k : Nat} {v : α} {x : Nat} (h : x ∈ keysOf (aset l k v)) :
    x = k ∨ x ∈ keysOf l := by
  obtain ⟨p, hp, hpe⟩ := List.mem_map.mp h
  rcases mem_aset hp with h | h
  · left; rw [← hpe, h]
  · right; exact List.mem_map.mpr ⟨p, h, hpe⟩

theorem nodup_keys_aset {l : List (Nat × α)} (k : Nat) (v : α) (hn : (keysOf l).Nodup) :
    (keysOf (aset l k v)).Nodup := by
  induction l with
  | nil => simp [aset, keysOf]
  | cons x t ih =>
    obtain ⟨k', v'⟩ := x
    simp only [keysOf, List.map_cons, List.nodup_cons] at hn
    unfold aset
    split
    · rename_i hkk
      simp only [keysOf, List.map_cons, List.nodup_cons]
      exact ⟨by rw [← hkk]; exact hn.1, hn.2⟩
    · rename_i hkk
      simp only [keysOf, List.map_cons, List.nodup_cons]
      refine ⟨?_, ih hn.2⟩
      intro hm
      rcases keysOf_aset_mem hm with h | h
      · exact hkk h
      · exact hn.1 h

theorem alook_some_mem {l : List (Nat × α)} {k : Nat} {v : α} (h : alook l k = some v) : (k, v) ∈ l := by
  induction l with
  | nil => cases h
  | cons x t ih =>
    obtain ⟨k', v'⟩ := x
    unfold alook at h
    split at h
    · rename_i hkk; injection h with h; rw [hkk, h]; exact List.mem_cons_self
    · exact List.mem_cons_of_mem _ (ih h)

theorem alook_none_ne {l : List (Nat × α)} {k : Nat} (h : alook l k = none) : ∀ p ∈ l, p.1 ≠ k := by
  induction l with
  | nil => intro p hp; cases hp
  | cons x t ih =>
    obtain ⟨k', v'⟩ := x
    unfold alook at h
    split at h
    · cases h
    · rename_i hkk
      intro p hp
      rcases List.mem_cons.mp hp with hp | hp
      · rw [hp]; exact hkk
      · exact ih h p hp

end Keys

/-! ### the funded amount of a flow through one expansion -/

theorem Flow.funded_eq (f : Flow) :
    f.funded = (match maxKey f.hist with | some (_, v) => v.1 | none => f.amount) := by
  unfold Flow.funded Flow.expanded Flow.lastHist
  cases maxKey f.hist with
  | none => rfl
  | some p => rfl

/-- the flow `expand_flow` works on: the stored one, or — when the expanded end is more than the
    expansion limit after the start — the reset one (unclaimed rest as a fresh flow from this epoch) -/
def resetFlow (f : Flow) (epoch : Nat) : Flow :=
  if f.expanded.2 - f.startE > INCENTIVE_FLOW_EXPANSION_LIMIT then
    { f with amount := (match f.lastHist with
                        | some (_, (fa, _)) => fa
                        | none => f.amount) - f.claimed,
             startE := epoch, endE := f.expanded.2, claimed := 0, hist := [], emitted := [] }
  else f

/-- the asset-history update of `expand_flow` -/
def addHist (f1 : Flow) (epoch amount endE : Nat) : Res Flow :=
  match alook f1.hist (epoch + 1) with
  | some (ea, _) => do
    let t ← cadd U128MAX ea amount
    pure { f1 with hist := aset f1.hist (epoch + 1) (t, endE) }
  | none => do
    let t ← cadd U128MAX (f1.amountAt epoch) amount
    pure { f1 with hist := aset f1.hist (epoch + 1) (t, endE) }

theorem resetFlow_spec (f : Flow) (epoch : Nat) (hn : (keysOf f.hist).Nodup) :
    (resetFlow f epoch).id = f.id ∧ (resetFlow f epoch).asset = f.asset
    ∧ (resetFlow f epoch).creator = f.creator
    ∧ (keysOf (resetFlow f epoch).hist).Nodup
    ∧ (∀ k, (∀ q ∈ f.hist, q.1 ≤ k) → ∀ q ∈ (resetFlow f epoch).hist, q.1 ≤ k)
    ∧ (f.claimed ≤ f.funded →
        (resetFlow f epoch).claimed ≤ (resetFlow f epoch).funded
        ∧ (resetFlow f epoch).funded - (resetFlow f epoch).claimed = f.funded - f.claimed) := by
  unfold resetFlow
  split
  · refine ⟨rfl, rfl, rfl, by simp [keysOf], fun k _ q hq => (by cases hq), ?_⟩
    intro _
    have hb : (match f.lastHist with | some (_, (fa, _)) => fa | none => f.amount) = f.funded := by
      unfold Flow.funded Flow.expanded
      cases f.lastHist with
      | none => rfl
      | some p => rfl
    rw [Flow.funded_eq]
    simp only [maxKey, List.foldl_nil]
    rw [hb]
    exact ⟨Nat.zero_le _, rfl⟩
  · exact ⟨rfl, rfl, rfl, hn, fun k h => h, fun h => ⟨h, rfl⟩⟩

theorem addHist_spec {f1 f2 : Flow} {epoch amount endE : Nat} (hn : (keysOf f1.hist).Nodup)
    (h : addHist f1 epoch amount endE = .ok f2) :
    f2.id = f1.id ∧ f2.asset = f1.asset ∧ f2.creator = f1.creator ∧ f2.claimed = f1.claimed
    ∧ (keysOf f2.hist).Nodup
    ∧ (f2.funded = f1.funded ∨ f2.funded = f1.funded + amount)
    ∧ ((∀ q ∈ f1.hist, q.1 ≤ epoch + 1) →
        f2.funded = f1.funded + amount ∧ ∀ q ∈ f2.hist, q.1 ≤ epoch + 1) := by
  -- both branches write `(base + amount, endE)` at key `epoch + 1`
  have key : ∃ base, f2 = { f1 with hist := aset f1.hist (epoch + 1) (base + amount, endE) }
      ∧ ((∀ q ∈ f1.hist, q.1 ≤ epoch + 1) → base = f1.funded) := by
    unfold addHist at h
    split at h
    · rename_i ea en hl
      obtain ⟨t, ht, h⟩ := bind_eq_ok h
      obtain ⟨ht1, _⟩ := cadd_eq_ok ht
      injection h with h
      refine ⟨ea, by rw [← h, ht1], ?_⟩
      intro hall
      have hmem := alook_some_mem hl
      have : maxKey f1.hist = some (epoch + 1, (ea, en)) :=
        (maxKey_some_iff hn _).mpr ⟨hmem, hall⟩
      rw [Flow.funded_eq, this]
    · rename_i hl
      obtain ⟨t, ht, h⟩ := bind_eq_ok h
      obtain ⟨ht1, _⟩ := cadd_eq_ok ht
      injection h with h
      refine ⟨f1.amountAt epoch, by rw [← h, ht1], ?_⟩
      intro hall
      have hne := alook_none_ne hl
      have hall' : ∀ q ∈ f1.hist, q.1 ≤ epoch := by
        intro q hq
        have h1 := hall q hq
        have h2 := hne q hq
        omega
      unfold Flow.amountAt
      rw [maxKeyLE_of_all_le hall', Flow.funded_eq]
      cases maxKey f1.hist with
      | none => rfl
      | some p => rfl
  obtain ⟨base, hf2, hbase⟩ := key
  subst hf2
  have hn2 := nodup_keys_aset (epoch + 1) (base + amount, endE) hn
  refine ⟨rfl, rfl, rfl, rfl, hn2, ?_, ?_⟩
  · by_cases hall : ∀ q ∈ f1.hist, q.1 ≤ epoch + 1
    · right
      have : maxKey (aset f1.hist (epoch + 1) (base + amount, endE)) = some (epoch + 1, (base + amount, endE)) := by
        apply (maxKey_some_iff hn2 _).mpr
        refine ⟨mem_aset_self _ _ _, ?_⟩
        intro q hq
        rcases mem_aset hq with hq | hq
        · rw [hq]
        · exact hall q hq
      rw [Flow.funded_eq]
      simp only [this]
      rw [hbase hall]
    · left
      have hex : ∃ q0, q0 ∈ f1.hist ∧ epoch + 1 < q0.1 := by
        by_contra hc
        apply hall
        intro q hq
        by_contra hlt
        exact hc ⟨q, hq, by omega⟩
      obtain ⟨q0, hq0, hq0k⟩ := hex
      cases hm : maxKey f1.hist with
      | none => rw [(maxKey_none_iff _).mp hm] at hq0; cases hq0
      | some p =>
        obtain ⟨hp, hmax⟩ := (maxKey_some_iff hn p).mp hm
        have hpk : epoch + 1 < p.1 := Nat.lt_of_lt_of_le hq0k (hmax q0 hq0)
        have : maxKey (aset f1.hist (epoch + 1) (base + amount, endE)) = some p := by
          apply (maxKey_some_iff hn2 _).mpr
          refine ⟨mem_aset_of_ne hp (by omega), ?_⟩
          intro q hq
          rcases mem_aset hq with hq | hq
          · rw [hq]; simp only; omega
          · exact hmax q hq
        rw [Flow.funded_eq, Flow.funded_eq]
        simp only [this, hm]
  · intro hall
    have : maxKey (aset f1.hist (epoch + 1) (base + amount, endE)) = some (epoch + 1, (base + amount, endE)) := by
      apply (maxKey_some_iff hn2 _).mpr
      refine ⟨mem_aset_self _ _ _, ?_⟩
      intro q hq
      rcases mem_aset hq with hq | hq
      · rw [hq]
      · exact hall q hq
    constructor
    · rw [Flow.funded_eq]
      simp only [this]
      rw [hbase hall]
    · intro q hq
      rcases mem_aset hq with hq | hq
      · rw [hq]
      · exact hall q hq

end WW.Inc
