/- Helper lemmas for the pause-switch model (C17). -/
import WW.Model.Toggles
namespace WW.Toggles
open WW

/-- the gate-table refinement: whenever a handler reads a switch, it is the switch the path names -/
theorem consults_sub_names (p : Path) (s : Switch) (h : p.consults = some s) : p.names = some s := by
  cases p <;> simp_all [Path.consults, Path.names]

/-- a path that names a switch but whose handler reads none is one of the two direct pool-withdraw
    entries or an LP-token `Send` whose payload is not a hook message (refused before any switch is read) -/
theorem names_not_consulted (p : Path) (s : Switch) (hn : p.names = some s) (hc : p.consults = none) :
    p = .pairWithdrawDirect ∨ p = .trioWithdrawDirect ∨ p = .pairHookMalformed ∨ p = .trioHookMalformed
      ∨ p = .vaultHookMalformed := by
  cases p <;> simp_all [Path.consults, Path.names]

theorem gate_of_consults {p : Path} {s : Switch} (h : p.consults = some s) (f : Flags) :
    gate p f = f.get s := by
  simp [gate, h]

theorem gate_of_not_consults {p : Path} (h : p.consults = none) (f : Flags) : gate p f = true := by
  simp [gate, h]

theorem get_set_same (f : Flags) (s : Switch) (v : Bool) : (f.set s v).get s = v := by
  cases s <;> rfl

theorem get_set_other (f : Flags) (s t : Switch) (v : Bool) (h : s ≠ t) : (f.set s v).get t = f.get t := by
  cases s <;> cases t <;> first | rfl | exact absurd rfl h

/-- an operation that succeeds changes at most the switches (the cw20-LP marker is never written and
    the loan counter is back where it was) -/
theorem step_frame (base : Path → Res Unit) (s s' : St) (op : Op) (h : step base s op = .ok s') :
    s'.lpCw20 = s.lpCw20 ∧ s'.loans = s.loans := by
  cases op with
  | setFlags o f =>
    simp only [step] at h
    split at h
    · cases h; exact ⟨rfl, rfl⟩
    · cases h
  | setPartial o a b c =>
    simp only [step] at h
    split at h
    · cases h; exact ⟨rfl, rfl⟩
    · cases h
  | touch o =>
    simp only [step] at h
    split at h
    · cases h; exact ⟨rfl, rfl⟩
    · cases h
  | call p =>
    simp only [step] at h
    split at h
    · cases h; exact ⟨rfl, rfl⟩
    · cases h
    · cases h
  | inLoan outer inner m lb =>
    simp only [step] at h
    split at h
    · cases h; exact ⟨rfl, rfl⟩
    · cases h
    · cases h
  | migrate a st cr body =>
    simp only [step] at h
    split at h
    · cases h; exact ⟨rfl, rfl⟩
    · cases h
    · cases h

theorem step_lpCw20 (base : Path → Res Unit) (s s' : St) (op : Op) (h : step base s op = .ok s') :
    s'.lpCw20 = s.lpCw20 := (step_frame base s s' op h).1

theorem step_loans (base : Path → Res Unit) (s s' : St) (op : Op) (h : step base s op = .ok s') :
    s'.loans = s.loans := (step_frame base s s' op h).2

theorem reach_lpCw20 (base : Path → Res Unit) (ops : List Op) (s : St) :
    (reach base s ops).lpCw20 = s.lpCw20 := by
  induction ops generalizing s with
  | nil => rfl
  | cons op ops ih =>
    simp only [reach]
    split
    · next s' h => rw [ih, step_lpCw20 base s s' op h]
    · exact ih s

/-- the loan counter is transient: between transactions it is where it started (0 for a new vault) -/
theorem reach_loans (base : Path → Res Unit) (ops : List Op) (s : St) :
    (reach base s ops).loans = s.loans := by
  induction ops generalizing s with
  | nil => rfl
  | cons op ops ih =>
    simp only [reach]
    split
    · next s' h => rw [ih, step_loans base s s' op h]
    · exact ih s

/-- the guards themselves never panic: with a base that does not, a call answers `ok` or `err` -/
theorem stepPath_ok_or_err (s : St) (p : Path) :
    stepPath (fun _ => .ok ()) s p = .ok () ∨ stepPath (fun _ => .ok ()) s p = .err := by
  unfold stepPath
  split
  · exact Or.inr rfl
  · split
    · exact Or.inr rfl
    · split
      · exact Or.inr rfl
      · exact Or.inl rfl

/-- the guards do not look at what the operation would do -/
theorem stepPath_err_any_base (b b' : Path → Res Unit) (s : St) (p : Path)
    (h : gate p s.flags = false ∨ entryRejects s.lpCw20 p = true ∨ loanRejects s.loans p = true) :
    stepPath b s p = .err ∧ stepPath b' s p = .err := by
  unfold stepPath
  rcases h with h | h | h
  · simp [h]
  · by_cases g : gate p s.flags = false <;> simp [g, h]
  · by_cases g : gate p s.flags = false <;> by_cases e : entryRejects s.lpCw20 p = true <;> simp [g, e, h]

theorem finishLoan_false_inner (r : Res Unit) (m : Mode) : (finishLoan r m false).inner ≠ some true := by
  unfold finishLoan
  cases r <;> cases m <;> simp

/-- the loan's own guards reject ⇒ the transaction is rejected, no inner message is sent -/
theorem stepInLoan_outer_err (s : St) (outer inner : Path) (m : Mode) (lb : LoanBase)
    (h : outer.isLoan = false ∨ stepPath (fun _ => .ok ()) s outer = .err) :
    stepInLoan s outer inner m lb = ⟨.err, none⟩ := by
  unfold stepInLoan
  rcases h with h | h
  · simp [h]
  · by_cases hl : outer.isLoan = false
    · simp [hl]
    · simp [hl, h]

/-- the inner message is rejected, plain message ⇒ the transaction is rejected -/
theorem stepInLoan_inner_err_propagate (s : St) (outer inner : Path) (lb : LoanBase)
    (h : stepPath (fun _ => lb.inner) { s with loans := s.loans + 1 } inner = .err) :
    stepInLoan s outer inner .propagate lb = ⟨.err, none⟩ := by
  by_cases hl : outer.isLoan = false
  · exact stepInLoan_outer_err s outer inner _ lb (Or.inl hl)
  · rcases stepPath_ok_or_err s outer with ho | ho
    · unfold stepInLoan
      simp [hl, ho, h]
    · exact stepInLoan_outer_err s outer inner _ lb (Or.inr ho)

/-- the inner message is rejected, caught ⇒ the loan goes on around a failed message -/
theorem stepInLoan_inner_err_catch (s : St) (outer inner : Path) (lb : LoanBase)
    (h : stepPath (fun _ => lb.inner) { s with loans := s.loans + 1 } inner = .err) :
    stepInLoan s outer inner .catch lb = ⟨.err, none⟩ ∨
    stepInLoan s outer inner .catch lb = finishLoan lb.caught .catch false := by
  by_cases hl : outer.isLoan = false
  · exact Or.inl (stepInLoan_outer_err s outer inner _ lb (Or.inl hl))
  · rcases stepPath_ok_or_err s outer with ho | ho
    · right
      unfold stepInLoan
      simp [hl, ho, h]
    · exact Or.inl (stepInLoan_outer_err s outer inner _ lb (Or.inr ho))

/-- … and which of the two it is depends on the loan's guards only -/
theorem stepInLoan_inner_err_catch_eq (s : St) (outer inner : Path) (lb lb' : LoanBase)
    (hc : lb'.caught = lb.caught)
    (h : stepPath (fun _ => lb.inner) { s with loans := s.loans + 1 } inner = .err)
    (h' : stepPath (fun _ => lb'.inner) { s with loans := s.loans + 1 } inner = .err) :
    stepInLoan s outer inner .catch lb' = stepInLoan s outer inner .catch lb := by
  by_cases hl : outer.isLoan = false
  · rw [stepInLoan_outer_err s outer inner _ lb (Or.inl hl), stepInLoan_outer_err s outer inner _ lb' (Or.inl hl)]
  · rcases stepPath_ok_or_err s outer with ho | ho
    · unfold stepInLoan
      simp [hl, ho, h, h', hc]
    · rw [stepInLoan_outer_err s outer inner _ lb (Or.inr ho), stepInLoan_outer_err s outer inner _ lb' (Or.inr ho)]

/-- a call never writes the switches -/
theorem step_call_flags (base : Path → Res Unit) (s s' : St) (p : Path) (h : step base s (.call p) = .ok s') :
    s' = s := by
  simp only [step] at h
  split at h
  · cases h; rfl
  · cases h
  · cases h

/-- a migration — whoever sends it, from whichever version, whatever its storage migration does — is the
    identity on the modelled state when it is accepted -/
theorem step_migrate_state (base : Path → Res Unit) (s s' : St) (a : Bool) (st cr : Ver) (body : Res Unit)
    (h : step base s (.migrate a st cr body) = .ok s') : s' = s := by
  simp only [step] at h
  split at h
  · cases h; rfl
  · cases h
  · cases h

/-- the operations that can write a switch: the owner's `UpdateConfig` carrying switches -/
def Op.ownerWrite : Op → Bool
  | .setFlags byOwner _ => byOwner
  | .setPartial byOwner _ _ _ => byOwner
  | _ => false

def Op.isMigrate : Op → Bool
  | .migrate _ _ _ _ => true
  | _ => false

/-- any operation that is not a switch-carrying `UpdateConfig` of the owner leaves the whole modelled
    state as it was, whether it succeeds or not -/
theorem step_not_ownerWrite (base : Path → Res Unit) (s s' : St) (op : Op) (hw : op.ownerWrite = false)
    (h : step base s op = .ok s') : s' = s := by
  cases op with
  | setFlags o f =>
    simp only [Op.ownerWrite] at hw
    subst hw
    simp [step] at h
  | setPartial o a b c =>
    simp only [Op.ownerWrite] at hw
    subst hw
    simp [step] at h
  | touch o =>
    simp only [step] at h
    split at h
    · cases h; rfl
    · cases h
  | call p => exact step_call_flags base s s' p h
  | inLoan outer inner m lb =>
    simp only [step] at h
    split at h
    · cases h; rfl
    · cases h
    · cases h
  | migrate a st cr body => exact step_migrate_state base s s' a st cr body h

theorem reach_not_ownerWrite (base : Path → Res Unit) (ops : List Op) (s : St)
    (hw : ∀ op ∈ ops, op.ownerWrite = false) : reach base s ops = s := by
  induction ops generalizing s with
  | nil => rfl
  | cons op ops ih =>
    have hop := hw op (List.mem_cons_self ..)
    have hrest : ∀ o ∈ ops, o.ownerWrite = false := fun o ho => hw o (List.mem_cons_of_mem _ ho)
    simp only [reach]
    split
    · next s' h =>
      rw [step_not_ownerWrite base s s' op hop h]
      exact ih s hrest
    · exact ih s hrest

theorem isMigrate_not_ownerWrite (op : Op) (h : op.isMigrate = true) : op.ownerWrite = false := by
  cases op <;> simp_all [Op.isMigrate, Op.ownerWrite]

/-- migrations can be struck out of a history: the state reached is the same -/
theorem reach_filter_migrate (base : Path → Res Unit) (ops : List Op) (s : St) :
    reach base s (ops.filter (fun op => !op.isMigrate)) = reach base s ops := by
  induction ops generalizing s with
  | nil => rfl
  | cons op ops ih =>
    by_cases hm : op.isMigrate = true
    · have hf : (op :: ops).filter (fun op => !op.isMigrate) = ops.filter (fun op => !op.isMigrate) := by
        simp [List.filter, hm]
      rw [hf, ih]
      simp only [reach]
      split
      · next s' h =>
        rw [step_not_ownerWrite base s s' op (isMigrate_not_ownerWrite op hm) h]
      · rfl
    · have hf : (op :: ops).filter (fun op => !op.isMigrate) = op :: ops.filter (fun op => !op.isMigrate) := by
        simp [List.filter, hm]
      rw [hf]
      simp only [reach]
      split
      · exact ih _
      · exact ih _

end WW.Toggles
