/- Helper lemmas for the pause-switch model (C17). -/
import WW.Model.Toggles
namespace WW.Toggles
open WW

/-- the gate-table refinement: whenever a handler reads a switch, it is the switch the path names -/
theorem consults_sub_names (p : Path) (s : Switch) (h : p.consults = some s) : p.names = some s := by
  cases p <;> simp_all [Path.consults, Path.names]

/-- a path that names a switch but whose handler reads none is one of the two direct pool-withdraw
    entries -/
theorem names_not_consulted (p : Path) (s : Switch) (hn : p.names = some s) (hc : p.consults = none) :
    p = .pairWithdrawDirect ∨ p = .trioWithdrawDirect := by
  cases p <;> simp_all [Path.consults, Path.names]

theorem gate_of_consults {p : Path} {s : Switch} (h : p.consults = some s) (f : Flags) :
    gate p f = f.get s := by
  simp [gate, h]

theorem gate_of_not_consults {p : Path} (h : p.consults = none) (f : Flags) : gate p f = true := by
  simp [gate, h]

theorem get_set_same (f : Flags) (s : Switch) (v : Bool) : (f.set s v).get s = v := by
  cases s <;> rfl

theorem get_set_other (f : Flags) (s t : Switch) (v : Bool) (h : s ≠ t) : (f.set s v).get t = f.get t := by
  cases s <;> cases t <;> first | rfl | exact absurd rfl h

/-- the cw20-LP marker is never written -/
theorem step_lpCw20 (base : Path → Res Unit) (s s' : St) (op : Op) (h : step base s op = .ok s') :
    s'.lpCw20 = s.lpCw20 := by
  cases op with
  | setFlags o f =>
    simp only [step] at h
    split at h
    · cases h; rfl
    · cases h
  | setPartial o a b c =>
    simp only [step] at h
    split at h
    · cases h; rfl
    · cases h
  | touch o =>
    simp only [step] at h
    split at h
    · cases h; rfl
    · cases h
  | call p =>
    simp only [step] at h
    split at h
    · cases h; rfl
    · cases h
    · cases h

theorem reach_lpCw20 (base : Path → Res Unit) (ops : List Op) (s : St) :
    (reach base s ops).lpCw20 = s.lpCw20 := by
  induction ops generalizing s with
  | nil => rfl
  | cons op ops ih =>
    simp only [reach]
    split
    · next s' h => rw [ih, step_lpCw20 base s s' op h]
    · exact ih s

/-- a call never writes the switches -/
theorem step_call_flags (base : Path → Res Unit) (s s' : St) (p : Path) (h : step base s (.call p) = .ok s') :
    s' = s := by
  simp only [step] at h
  split at h
  · cases h; rfl
  · cases h
  · cases h

end WW.Toggles
