/- Global-weight snapshot lemmas (the F11 repair): the snapshot of an epoch is taken before the first
   weight change of that epoch, equals the live global weight at that moment, and never changes. -/
import WW.Proofs.Flows
namespace WW.Inc
open WW WW.Gen

/-- how one operation may touch `GLOBAL_WEIGHT_SNAPSHOT`: not at all, or by recording the live global
    weight for the operation's epoch when that epoch had no snapshot yet -/
def SnapStep (s s' : St) (ep : Nat) : Prop :=
  s'.snap = s.snap ∨ (alook s.snap ep = none ∧ s'.snap = aset s.snap ep s.global)

theorem snapIfMissing_snap (s : St) (ep : Nat) :
    SnapStep s (snapIfMissing s ep) ep ∧ alook (snapIfMissing s ep).snap ep ≠ none := by
  unfold snapIfMissing
  split
  · rename_i g hg
    exact ⟨Or.inl rfl, by rw [hg]; simp⟩
  · rename_i hg
    exact ⟨Or.inr ⟨hg, rfl⟩, by simp [alook_aset_same]⟩

theorem addWeight_snap {s s' : St} {ep : Nat} {r : Addr} {w : Nat} (h : addWeight s ep r w = .ok s') :
    s'.snap = (snapIfMissing s ep).snap := by
  unfold addWeight at h
  obtain ⟨g, _, h⟩ := bind_eq_ok h
  obtain ⟨uw, _, h⟩ := bind_eq_ok h
  injection h with h
  subst h
  rfl

theorem openPosition_snap {c : Cfg} {s s' : St} {e : Env} {amount dur : Nat} {recv : Option Addr}
    {msgs : List Msg} (h : openPosition c s e amount dur recv = .ok (s', msgs)) :
    SnapStep s s' e.epoch ∧ alook s'.snap e.epoch ≠ none := by
  unfold openPosition at h
  obtain ⟨_, _, h⟩ := bind_eq_ok h
  obtain ⟨m, _, h⟩ := bind_eq_ok h
  dsimp only at h
  obtain ⟨_, _, h⟩ := bind_eq_ok h
  obtain ⟨w, _, h⟩ := bind_eq_ok h
  obtain ⟨s2, hs2, h⟩ := bind_eq_ok h
  injection h with h
  injection h with h1 h2
  subst h1
  have h3 := addWeight_snap hs2
  have h4 := snapIfMissing_snap ({ s with openPos := aset s.openPos (recv.getD e.sender) (openOf s (recv.getD e.sender) ++ [{ dur := dur, amt := amount }]) }) e.epoch
  unfold SnapStep at *
  rw [h3]
  exact h4

theorem expandPosition_snap {c : Cfg} {s s' : St} {e : Env} {amount dur : Nat} {recv : Option Addr}
    {msgs : List Msg} (h : expandPosition c s e amount dur recv = .ok (s', msgs)) :
    SnapStep s s' e.epoch ∧ alook s'.snap e.epoch ≠ none := by
  unfold expandPosition at h
  obtain ⟨m, _, h⟩ := bind_eq_ok h
  dsimp only at h
  split at h
  · cases h
  · rename_i ps _
    split at h
    · cases h
    · obtain ⟨newAmt, _, h⟩ := bind_eq_ok h
      obtain ⟨t, _, h⟩ := bind_eq_ok h
      obtain ⟨w1, _, h⟩ := bind_eq_ok h
      obtain ⟨w0, _, h⟩ := bind_eq_ok h
      obtain ⟨w, _, h⟩ := bind_eq_ok h
      obtain ⟨s2, hs2, h⟩ := bind_eq_ok h
      injection h with h
      injection h with h1 h2
      subst h1
      have h3 := addWeight_snap hs2
      have h4 := snapIfMissing_snap ({ s with openPos := aset s.openPos (recv.getD e.sender) (ps.map (fun q => if q.dur = dur then { q with amt := newAmt } else q)) }) e.epoch
      unfold SnapStep at *
      rw [h3]
      exact h4

theorem closePosition_snap {s s' : St} {e : Env} {dur : Nat} {msgs : List Msg}
    (h : closePosition s e dur = .ok (s', msgs)) :
    SnapStep s s' e.epoch ∧ alook s'.snap e.epoch ≠ none := by
  unfold closePosition at h
  obtain ⟨_, _, h⟩ := bind_eq_ok h
  split at h
  · cases h
  · split at h
    · cases h
    · rename_i p _
      obtain ⟨_, _, h⟩ := bind_eq_ok h
      dsimp only at h
      obtain ⟨w, _, h⟩ := bind_eq_ok h
      injection h with h
      injection h with h1 h2
      subst h1
      have h4 := snapIfMissing_snap ({ s with closedPos := aset s.closedPos e.sender (closedOf s e.sender ++ [{ amt := p.amt, ts := e.time + p.dur }]) }) e.epoch
      unfold SnapStep at *
      exact h4

theorem takeSnapshot_snap {s s' : St} {e : Env} {m : List Msg} (h : takeSnapshot s e = .ok (s', m)) :
    SnapStep s s' e.epoch ∧ alook s'.snap e.epoch ≠ none := by
  unfold takeSnapshot at h
  split at h
  · cases h
  · rename_i hn
    injection h with h; injection h with h1 h2; subst h1
    exact ⟨Or.inr ⟨hn, rfl⟩, by simp [alook_aset_same]⟩

theorem withdrawOp_snap {s s' : St} {e : Env} {m : List Msg} (h : withdrawOp s e = .ok (s', m)) :
    s'.snap = s.snap := by
  rw [(withdrawOp_spec h).1]

theorem claimExec_snap {s s' : St} {e : Env} {m : List Msg} (h : claimExec s e = .ok (s', m)) :
    s'.snap = s.snap := by
  unfold claimExec at h
  split at h
  · cases h
  · unfold claimCore at h
    split at h
    · cases h
    · split at h
      · injection h with h; injection h with h1 h2; subst h1; rfl
      · cases h
      · cases h

theorem closeFlow_snap {s s' : St} {e : Env} {id : Nat} {m : List Msg} (h : closeFlow s e id = .ok (s', m)) :
    s'.snap = s.snap := by
  unfold closeFlow at h
  split at h
  · cases h
  · split at h
    · cases h
    · injection h with h; injection h with h1 h2; subst h1; rfl

theorem openFlow_snap {c : Cfg} {s s' : St} {e : Env} {a amt : Nat} {st en : Option Nat} {m : List Msg}
    (h : openFlow c s e a amt st en = .ok (s', m)) : s'.snap = s.snap := by
  unfold openFlow at h
  obtain ⟨_, _, h⟩ := bind_eq_ok h
  obtain ⟨x, _, h⟩ := bind_eq_ok h
  obtain ⟨_, _, h⟩ := bind_eq_ok h
  obtain ⟨y, _, h⟩ := bind_eq_ok h
  dsimp only at h
  obtain ⟨_, _, h⟩ := bind_eq_ok h
  obtain ⟨_, _, h⟩ := bind_eq_ok h
  obtain ⟨_, _, h⟩ := bind_eq_ok h
  injection h with h; injection h with h1 h2; subst h1; rfl

theorem expandFlow_snap {c : Cfg} {s s' : St} {e : Env} {id a amt : Nat} {en : Option Nat} {m : List Msg}
    (h : expandFlow c s e id a amt en = .ok (s', m)) : s'.snap = s.snap := by
  unfold expandFlow at h
  split at h
  · cases h
  · dsimp only at h
    obtain ⟨_, _, h⟩ := bind_eq_ok h
    obtain ⟨_, _, h⟩ := bind_eq_ok h
    obtain ⟨_, _, h⟩ := bind_eq_ok h
    obtain ⟨_, _, h⟩ := bind_eq_ok h
    obtain ⟨f2, _, h⟩ := bind_eq_ok h
    obtain ⟨_, _, h⟩ := bind_eq_ok h
    obtain ⟨_, _, h⟩ := bind_eq_ok h
    injection h with h; injection h with h1 h2; subst h1; rfl

/-- every handler: snapshot untouched or taken for the current epoch from the live global weight;
    and if the weights changed, the current epoch has a snapshot afterwards -/
theorem handler_snap {c : Cfg} {s s' : St} {e : Env} {op : Op} {m : List Msg}
    (h : handler c s e op = .ok (s', m)) :
    SnapStep s s' e.epoch ∧ (wcore s' ≠ wcore s → alook s'.snap e.epoch ≠ none) := by
  cases op with
  | openPos amt dur recv => exact ⟨(openPosition_snap h).1, fun _ => (openPosition_snap h).2⟩
  | expandPos amt dur recv => exact ⟨(expandPosition_snap h).1, fun _ => (expandPosition_snap h).2⟩
  | closePos dur => exact ⟨(closePosition_snap h).1, fun _ => (closePosition_snap h).2⟩
  | snapshot => exact ⟨(takeSnapshot_snap h).1, fun _ => (takeSnapshot_snap h).2⟩
  | withdraw => exact ⟨Or.inl (withdrawOp_snap h), fun hne => absurd (withdrawOp_wcore h) hne⟩
  | claim => exact ⟨Or.inl (claimExec_snap h), fun hne => absurd (claimExec_wcore h) hne⟩
  | openFlow a amt st en => exact ⟨Or.inl (openFlow_snap h), fun hne => absurd (openFlow_wcore h) hne⟩
  | expandFlow id a amt en => exact ⟨Or.inl (expandFlow_snap h), fun hne => absurd (expandFlow_wcore h) hne⟩
  | closeFlow id => exact ⟨Or.inl (closeFlow_snap h), fun hne => absurd (closeFlow_wcore h) hne⟩
  | helperDeposit a0 a1 dur => cases h
  | helperDepositAs x0 x1 a0 a1 dur => cases h

theorem helperDeposit_snap {c : Cfg} {s s' : St} {e : Env} {a0 a1 dur : Nat}
    (h : helperDeposit c s e a0 a1 dur = .ok s') :
    SnapStep s s' e.epoch ∧ alook s'.snap e.epoch ≠ none := by
  unfold helperDeposit at h
  dsimp only at h
  obtain ⟨_, _, h⟩ := bind_eq_ok h
  obtain ⟨b1, _, h⟩ := bind_eq_ok h
  obtain ⟨b2, _, h⟩ := bind_eq_ok h
  obtain ⟨_, _, h⟩ := bind_eq_ok h
  obtain ⟨lp, _, h⟩ := bind_eq_ok h
  obtain ⟨_, _, h⟩ := bind_eq_ok h
  obtain ⟨b3, _, h⟩ := bind_eq_ok h
  obtain ⟨b4, _, h⟩ := bind_eq_ok h
  obtain ⟨_, _, h⟩ := bind_eq_ok h
  obtain ⟨b5, _, h⟩ := bind_eq_ok h
  obtain ⟨⟨s3, msgs⟩, h3, h⟩ := bind_eq_ok h
  obtain ⟨b6, _, h⟩ := bind_eq_ok h
  injection h with h
  subst h
  have : SnapStep ({ s with bal := b5 } : St) s3 e.epoch ∧ alook s3.snap e.epoch ≠ none := by
    split at h3
    · have := expandPosition_snap h3; exact this
    · have := openPosition_snap h3; exact this
  exact this

/-- **one transaction and the snapshots**: (a) a snapshot that exists is never changed; (b) a snapshot
    that appears in this transaction is for the transaction's epoch and equals the global weight *before*
    the transaction; (c) if the transaction changed any weight, its epoch has a snapshot afterwards. -/
theorem step_snap {c : Cfg} {s s' : St} {e : Env} {op : Op} (h : step c s e op = .ok s') :
    SnapStep s s' e.epoch ∧ (wcore s' ≠ wcore s → alook s'.snap e.epoch ≠ none) := by
  unfold step at h
  split at h
  · obtain ⟨b, _, h⟩ := bind_eq_ok h
    have := helperDeposit_snap h
    exact ⟨this.1, fun _ => this.2⟩
  · obtain ⟨b, _, h⟩ := bind_eq_ok h
    obtain ⟨⟨s1, msgs⟩, h1, h⟩ := bind_eq_ok h
    obtain ⟨b1, _, h⟩ := bind_eq_ok h
    injection h with h
    subst h
    have := handler_snap h1
    exact this

theorem SnapStep.keeps {s s' : St} {ep E g : Nat} (h : SnapStep s s' ep) (hg : alook s.snap E = some g) :
    alook s'.snap E = some g := by
  rcases h with h | ⟨hn, h⟩
  · rw [h]; exact hg
  · rw [h]
    by_cases he : E = ep
    · subst he; rw [hn] at hg; cases hg
    · rw [alook_aset_other _ _ he]; exact hg

theorem SnapStep.new_value {s s' : St} {ep E g : Nat} (h : SnapStep s s' ep) (hn : alook s.snap E = none)
    (hg : alook s'.snap E = some g) : E = ep ∧ g = s.global := by
  rcases h with h | ⟨_, h⟩
  · rw [h, hn] at hg; cases hg
  · rw [h] at hg
    by_cases he : E = ep
    · subst he; rw [alook_aset_same] at hg; injection hg with hg; exact ⟨rfl, hg.symm⟩
    · rw [alook_aset_other _ _ he, hn] at hg; cases hg

end WW.Inc
