/- C11: the staked total (sum over the two position maps) equals the sum of the per-address position
   amounts over any duplicate-free list of addresses that covers every address with a stored entry. -/
import WW.Proofs.HelperKeeps
namespace WW.Inc
open WW WW.Gen

/-- the position maps have one entry per address -/
structure PKeys (s : St) : Prop where
  openK : (keysOf s.openPos).Nodup
  closedK : (keysOf s.closedPos).Nodup

/-- a handler leaves a position map alone or writes one address's entry -/
def PosEff (s s1 : St) : Prop :=
  (s1.openPos = s.openPos ∨ ∃ r ps, s1.openPos = aset s.openPos r ps)
  ∧ (s1.closedPos = s.closedPos ∨ ∃ r ps, s1.closedPos = aset s.closedPos r ps)

theorem PKeys.of_eff {s s1 : St} (h : PKeys s) (he : PosEff s s1) : PKeys s1 := by
  obtain ⟨h1, h2⟩ := he
  constructor
  · rcases h1 with h1 | ⟨r, ps, h1⟩
    · rw [h1]; exact h.openK
    · rw [h1]; exact nodup_keys_aset r ps h.openK
  · rcases h2 with h2 | ⟨r, ps, h2⟩
    · rw [h2]; exact h.closedK
    · rw [h2]; exact nodup_keys_aset r ps h.closedK

theorem openPosition_posEff {c : Cfg} {s s1 : St} {e : Env} {amt dur : Nat} {recv : Option Addr} {m : List Msg}
    (h : openPosition c s e amt dur recv = .ok (s1, m)) : PosEff s s1 := by
  unfold openPosition at h
  obtain ⟨_, _, h⟩ := bind_eq_ok h
  obtain ⟨_, _, h⟩ := bind_eq_ok h
  dsimp only at h
  obtain ⟨_, _, h⟩ := bind_eq_ok h
  obtain ⟨w, _, h⟩ := bind_eq_ok h
  obtain ⟨s2, hs2, h⟩ := bind_eq_ok h
  injection h with h
  injection h with h1 h2
  subst h1
  obtain ⟨a1, _, _, a4, _, _⟩ := addWeight_spec hs2
  exact ⟨Or.inr ⟨_, _, a1⟩, Or.inl a4⟩

theorem expandPosition_posEff {c : Cfg} {s s1 : St} {e : Env} {amt dur : Nat} {recv : Option Addr} {m : List Msg}
    (h : expandPosition c s e amt dur recv = .ok (s1, m)) : PosEff s s1 := by
  unfold expandPosition at h
  obtain ⟨_, _, h⟩ := bind_eq_ok h
  dsimp only at h
  split at h
  · cases h
  · split at h
    · cases h
    · obtain ⟨_, _, h⟩ := bind_eq_ok h
      obtain ⟨_, _, h⟩ := bind_eq_ok h
      obtain ⟨_, _, h⟩ := bind_eq_ok h
      obtain ⟨_, _, h⟩ := bind_eq_ok h
      obtain ⟨_, _, h⟩ := bind_eq_ok h
      obtain ⟨s2, hs2, h⟩ := bind_eq_ok h
      injection h with h
      injection h with h1 h2
      subst h1
      obtain ⟨a1, _, _, a4, _, _⟩ := addWeight_spec hs2
      exact ⟨Or.inr ⟨_, _, a1⟩, Or.inl a4⟩

theorem handler_posEff {c : Cfg} {s s1 : St} {e : Env} {op : Op} {m : List Msg}
    (h : handler c s e op = .ok (s1, m)) : PosEff s s1 := by
  cases op with
  | openPos amt dur recv => exact openPosition_posEff h
  | expandPos amt dur recv => exact expandPosition_posEff h
  | closePos dur =>
    have h : closePosition s e dur = .ok (s1, m) := h
    unfold closePosition at h
    obtain ⟨_, _, h⟩ := bind_eq_ok h
    split at h
    · cases h
    · rename_i ps _
      split at h
      · cases h
      · rename_i p _
        obtain ⟨_, _, h⟩ := bind_eq_ok h
        dsimp only at h
        obtain ⟨w, _, h⟩ := bind_eq_ok h
        injection h with h
        injection h with h1 h2
        subst h1
        obtain ⟨f1, _, _, _, f5, _, _, _⟩ := snapIfMissing_frame ({ s with closedPos := aset s.closedPos e.sender (closedOf s e.sender ++ [{ amt := p.amt, ts := e.time + p.dur }]) }) e.epoch
        simp only at f1 f5
        refine ⟨Or.inr ⟨e.sender, ps.filter (fun q => q.dur ≠ dur), ?_⟩,
          Or.inr ⟨e.sender, closedOf s e.sender ++ [{ amt := p.amt, ts := e.time + p.dur }], ?_⟩⟩
        · simp only; rw [f1]
        · simp only; rw [f5]
  | withdraw =>
    obtain ⟨h1, _⟩ := withdrawOp_spec (s := s) (e := e) h
    subst h1
    exact ⟨Or.inl rfl, Or.inr ⟨_, _, rfl⟩⟩
  | claim =>
    obtain ⟨_, _, _, d2, d3, _, _⟩ := claimExec_delta (s := s) (e := e) h
    exact ⟨Or.inl d2, Or.inl d3⟩
  | snapshot =>
    obtain ⟨_, _, _, d4, d5, _⟩ := takeSnapshot_delta h
    exact ⟨Or.inl d4, Or.inl d5⟩
  | openFlow a amt st en =>
    obtain ⟨_, _, _, _, _, _, _, _, hs', _⟩ := openFlow_delta h
    subst hs'
    exact ⟨Or.inl rfl, Or.inl rfl⟩
  | expandFlow id a amt en =>
    obtain ⟨_, _, _, _, _, _, _, hs'⟩ := expandFlow_delta h
    subst hs'
    exact ⟨Or.inl rfl, Or.inl rfl⟩
  | closeFlow id =>
    have h : closeFlow s e id = .ok (s1, m) := h
    unfold closeFlow at h
    split at h
    · cases h
    · split at h
      · cases h
      · injection h with h; injection h with h1 h2; subst h1
        exact ⟨Or.inl rfl, Or.inl rfl⟩
  | helperDeposit a0 a1 dur => cases h
  | helperDepositAs x0 x1 a0 a1 dur => cases h

theorem step_PKeys {c : Cfg} {s s' : St} {e : Env} {op : Op} (hP : PKeys s) (h : step c s e op = .ok s') :
    PKeys s' := by
  unfold step at h
  split at h
  · obtain ⟨b, _, h⟩ := bind_eq_ok h
    unfold helperDeposit at h
    dsimp only at h
    obtain ⟨_, _, h⟩ := bind_eq_ok h
    obtain ⟨b1, _, h⟩ := bind_eq_ok h
    obtain ⟨b2, _, h⟩ := bind_eq_ok h
    obtain ⟨_, _, h⟩ := bind_eq_ok h
    obtain ⟨lp, _, h⟩ := bind_eq_ok h
    obtain ⟨_, _, h⟩ := bind_eq_ok h
    obtain ⟨b3, _, h⟩ := bind_eq_ok h
    obtain ⟨b4, _, h⟩ := bind_eq_ok h
    obtain ⟨_, _, h⟩ := bind_eq_ok h
    obtain ⟨b5, _, h⟩ := bind_eq_ok h
    obtain ⟨⟨s3, msgs⟩, h3, h⟩ := bind_eq_ok h
    obtain ⟨b6, _, h⟩ := bind_eq_ok h
    injection h with h
    subst h
    have hP2 : PKeys ({ s with bal := b5 } : St) := ⟨hP.openK, hP.closedK⟩
    have : PKeys s3 := by
      split at h3
      · exact hP2.of_eff (expandPosition_posEff h3)
      · exact hP2.of_eff (openPosition_posEff h3)
    exact ⟨this.openK, this.closedK⟩
  · obtain ⟨b, _, h⟩ := bind_eq_ok h
    obtain ⟨⟨s1, msgs⟩, h1, h⟩ := bind_eq_ok h
    obtain ⟨b1, _, h⟩ := bind_eq_ok h
    injection h with h
    subst h
    have hP2 : PKeys ({ s with bal := b } : St) := ⟨hP.openK, hP.closedK⟩
    have := hP2.of_eff (handler_posEff h1)
    exact ⟨this.openK, this.closedK⟩

theorem reach_PKeys {c : Cfg} {s : St} (hP : PKeys s) (ops : List (Env × Op)) : PKeys (reach c s ops) := by
  induction ops generalizing s with
  | nil => exact hP
  | cons p t ih =>
    obtain ⟨e, op⟩ := p
    show PKeys (reach c (stepOrStay c s e op) t)
    unfold stepOrStay
    split
    · rename_i s' hstep; exact ih (step_PKeys hP hstep)
    · exact ih hP

theorem init_PKeys (e0 : Nat) (bal : Bal) : PKeys (init e0 bal) := ⟨by simp [init, keysOf], by simp [init, keysOf]⟩

/-! ### Σ over addresses = Σ over the map -/

theorem sum_ite_eq {us : List Nat} (hn : us.Nodup) {k : Nat} (hk : k ∈ us) (v : Nat) (g : Nat → Nat) :
    (us.map (fun u => if k = u then v else g u)).sum + g k = v + (us.map g).sum := by
  induction us with
  | nil => cases hk
  | cons u t ih =>
    simp only [List.nodup_cons] at hn
    simp only [List.map_cons, List.sum_cons]
    by_cases hku : k = u
    · rw [if_pos hku]
      have : t.map (fun u => if k = u then v else g u) = t.map g := by
        apply List.map_congr_left
        intro x hx
        have : k ≠ x := fun he => hn.1 (by rw [← hku, he]; exact hx)
        simp [this]
      rw [this, hku]; omega
    · rw [if_neg hku]
      have hk' : k ∈ t := by
        rcases List.mem_cons.mp hk with h | h
        · exact absurd h hku
        · exact h
      have := ih hn.2 hk'
      omega

theorem alook_none_of_not_mem {α : Type} {l : List (Nat × α)} {k : Nat} (h : k ∉ keysOf l) : alook l k = none := by
  induction l with
  | nil => rfl
  | cons p t ih =>
    obtain ⟨k', v⟩ := p
    simp only [keysOf, List.map_cons, List.mem_cons, not_or] at h
    simp only [alook]
    rw [if_neg (fun he => h.1 he.symm)]
    exact ih h.2

theorem sum_over_addresses {α : Type} (f : α → Nat) {d : α} (hd : f d = 0) :
    ∀ (l : List (Nat × α)) (us : List Nat), (keysOf l).Nodup → us.Nodup → (∀ k ∈ keysOf l, k ∈ us) →
      (us.map (fun u => f ((alook l u).getD d))).sum = sumBy f l := by
  intro l
  induction l with
  | nil =>
    intro us _ _ _
    have : us.map (fun u => f ((alook ([] : List (Nat × α)) u).getD d)) = us.map (fun _ => 0) := by
      apply List.map_congr_left; intro u _; simp [alook, hd]
    rw [this]
    have : ∀ (l : List Nat), (l.map (fun _ => 0)).sum = 0 := by
      intro l; induction l with
      | nil => rfl
      | cons _ _ ih => simp only [List.map_cons, List.sum_cons, ih]
    rw [this]; rfl
  | cons p t ih =>
    intro us hn hus hsub
    obtain ⟨k, v⟩ := p
    simp only [keysOf, List.map_cons, List.nodup_cons] at hn
    have hk : k ∈ us := hsub k (by simp [keysOf])
    have hsub' : ∀ x ∈ keysOf t, x ∈ us := fun x hx => hsub x (by
      simp only [keysOf, List.map_cons, List.mem_cons]; exact Or.inr hx)
    have hrw : us.map (fun u => f ((alook ((k, v) :: t) u).getD d))
        = us.map (fun u => if k = u then f v else f ((alook t u).getD d)) := by
      apply List.map_congr_left
      intro u _
      simp only [alook]
      split <;> simp
    rw [hrw]
    have h1 := sum_ite_eq hus hk (f v) (fun u => f ((alook t u).getD d))
    have h2 := ih us hn.2 hus hsub'
    have h3 : f ((alook t k).getD d) = 0 := by
      rw [alook_none_of_not_mem hn.1]; exact hd
    simp only [sumBy]
    omega

end WW.Inc
