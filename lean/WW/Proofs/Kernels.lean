/-
  Helper lemmas for the equivalence theorems `gen_*_eq_model` (WW/Props/Kernels/*.lean): the primitives
  the translator `tools/rs2lean.py` emits, rewritten into the spelling the hand-written models use.
  Core Lean only (no Mathlib).  This file does not mention `WW.Gen.K`: the lemmas about one group of
  generated definitions live in `WW/Proofs/Kernels{Fees,Slippage}.lean`, so that a kernel that fails to
  translate breaks the obligations of ITS properties only.  NOTE: never let the kernel decide an `if … ≤ U256MAX` by evaluation
  (`rfl` / `decide` / `show` on terms that are not syntactically equal): `Nat.ble _ (2^256-1)` does not
  terminate in practice.  Everything here is by explicit rewriting.
-/
import WW.Cw.Arith
import WW.Model.Weight
import WW.Model.Trio
import WW.Model.Stable2
namespace WW

theorem Res.bind_assoc' {α β γ : Type} (x : Res α) (f : α → Res β) (g : β → Res γ) :
    (x >>= f >>= g) = (x >>= fun a => f a >>= g) := by
  cases x <;> rfl

theorem Res.rbind_ok {α β : Type} (a : α) (f : α → Res β) : (Res.ok a).bind f = f a := rfl
theorem Res.rbind_err {α β : Type} (f : α → Res β) : (Res.err : Res α).bind f = Res.err := rfl
theorem Res.rbind_panic {α β : Type} (f : α → Res β) : (Res.panic : Res α).bind f = Res.panic := rfl

/-- `Res.bind_ok` with a proof that is not `rfl`, so that `simp only` leaves a proof term -/
theorem Res.bind_ok_s {α β : Type} (a : α) (f : α → Res β) : (Res.ok a >>= f) = f a := id rfl
theorem Res.bind_err_s {α β : Type} (f : α → Res β) : ((Res.err : Res α) >>= f) = Res.err := id rfl
theorem Res.bind_panic_s {α β : Type} (f : α → Res β) : ((Res.panic : Res α) >>= f) = Res.panic := id rfl

/-- `if !c { return Err(..) }` against the model's `guardErr c` -/
theorem ite_not_err_eq_guardErr (p : Prop) [Decidable p] :
    (if ¬ p then (Res.err : Res Unit) else Res.ok ()) = guardErr (decide p) := by
  unfold guardErr
  by_cases h : p
  · rw [if_neg (not_not_intro h), decide_eq_true h]; rfl
  · rw [if_pos h, decide_eq_false h]; rfl

theorem pow_10_18 : (10 : Nat) ^ (18 - 0) = E18 := by decide

/-- `Decimal256::from_atomics(v, 0).unwrap()` is the panicking multiplication by 10^18 -/
theorem unwrapPanic_fromAtomics_zero (v : Nat) :
    unwrapPanic (dec256FromAtomics v 0) = pmul U256MAX v E18 := by
  unfold dec256FromAtomics dec256WithPrecision cmul pmul
  rw [if_pos (by decide : 0 < 18), pow_10_18]
  by_cases h : v * E18 ≤ U256MAX
  · rw [if_pos h, if_pos h]; rfl
  · rw [if_neg h, if_neg h]; rfl

theorem dec256Mul_eq_dmulP (a b : Nat) : dec256Mul a b = dmulP a b := rfl
theorem dec256MulC_eq_dmulC (a b : Nat) : dec256MulC a b = dmulC a b := rfl
theorem dec256DivC_eq_ddivC (a b : Nat) : dec256DivC a b = ddivC a b := rfl

theorem dec256PowLoop_succ (fuel x y n : Nat) : dec256PowLoop (fuel + 1) x y n =
    if n ≤ 1 then dec256Mul x y
    else if n % 2 = 0 then
      (dec256MulC x x).bind fun x2 => dec256PowLoop fuel x2 y (n / 2)
    else
      (dec256MulC x y).bind fun y2 => (dec256MulC x x).bind fun x2 =>
        dec256PowLoop fuel x2 y2 ((n - 1) / 2) := by
  rw [dec256PowLoop]

/-- `checked_pow(2)`: one checked squaring, then the final unchecked `x * one` -/
theorem dec256PowC_two (x : Nat) :
    dec256PowC x 2 = (dmulC x x >>= fun s => dmulP s E18) := by
  unfold dec256PowC
  rw [if_neg (by decide : ¬ (2 = 0))]
  rw [show (2 : Nat) = 1 + 1 from rfl, dec256PowLoop_succ]
  rw [if_neg (by decide : ¬ (1 + 1 ≤ 1)), if_pos (by decide : (1 + 1) % 2 = 0)]
  rw [show (1 + 1) / 2 = 0 + 1 from rfl]
  simp only [dec256PowLoop_succ]
  simp only [if_pos (by decide : 0 + 1 ≤ 1)]
  unfold dec256MulC dmulC
  by_cases h : x * x / E18 ≤ U256MAX
  · rw [if_pos h, Res.rbind_ok, Res.bind_ok, dec256Mul_eq_dmulP]
  · rw [if_neg h, Res.rbind_err, Res.bind_err]

theorem ppow_10_18 : ppow U128MAX 10 18 = .ok E18 := by
  unfold ppow
  rw [if_pos (by decide)]
  rfl

theorem narrowTo_128 (a : Nat) : narrowTo U128MAX a = to128 a := rfl
theorem narrowTo_64 (a : Nat) : narrowTo U64MAX a = Trio.to64 a := rfl

theorem Res.bind_pure_s {α : Type} (x : Res α) : (x >>= fun a => pure a) = x := by
  cases x <;> rfl

/-- `Res` is a functor; used to carry a model result into the generated result type -/
def Res.mapTo {α β : Type} (f : α → β) (x : Res α) : Res β := x >>= fun a => pure (f a)

/-! ### small facts about the checked primitives (named `k_…`: `WW/Proofs/Basic.lean` has Mathlib-side twins) -/

theorem k_cadd_ok {max a b : Nat} (h : a + b ≤ max) : cadd max a b = .ok (a + b) := by
  unfold cadd; rw [if_pos h]
theorem k_cadd_err {max a b : Nat} (h : ¬ a + b ≤ max) : cadd max a b = .err := by
  unfold cadd; rw [if_neg h]

/-- `Decimal::percent(100)` is one -/
theorem percent_100 : 100 * 10000000000000000 = E18 := by decide

/-- the generated `if c { return Err(..) }` statement -/
theorem ite_err_pos {c : Prop} [Decidable c] (h : c) :
    (if c then (Res.err : Res Unit) else Res.ok ()) = Res.err := if_pos h
theorem ite_err_neg {c : Prop} [Decidable c] (h : ¬ c) :
    (if c then (Res.err : Res Unit) else Res.ok ()) = Res.ok () := if_neg h

theorem Res.bind_ok_right {α : Type} (x : Res α) : (x >>= fun a => Res.ok a) = x := by
  cases x <;> rfl

theorem Res.bind_unit_ok (x : Res Unit) : (x >>= fun _ => Res.ok ()) = x := by
  cases x <;> rfl

theorem k_min_eq (a b : Nat) : min a b = Nat.min a b := rfl

/-- the translator's rendering of `a && b` with an effectful `b`, followed by its consumer -/
theorem and_shortcircuit {α β : Type} {c : Prop} [Decidable c] (x : Res α) (q : α → Prop)
    [DecidablePred q] (k : Bool → Res β) :
    ((if c then (x >>= fun t => pure (decide (q t))) else pure false) >>= k)
      = if c then (x >>= fun t => k (decide (q t))) else k false := by
  by_cases h : c
  · rw [if_pos h, if_pos h, Res.bind_assoc']
    cases x <;> rfl
  · rw [if_neg h, if_neg h]; rfl

/-- the translator's rendering of `a || b` with an effectful `b`, followed by its consumer -/
theorem or_shortcircuit {α β : Type} {c : Prop} [Decidable c] (x : Res α) (q : α → Prop)
    [DecidablePred q] (k : Bool → Res β) :
    ((if c then pure true else (x >>= fun t => pure (decide (q t)))) >>= k)
      = if c then k true else (x >>= fun t => k (decide (q t))) := by
  by_cases h : c
  · rw [if_pos h, if_pos h]; rfl
  · rw [if_neg h, if_neg h, Res.bind_assoc']
    cases x <;> rfl

theorem Res.ite_bind {α β : Type} {c : Prop} [Decidable c] (a b : Res α) (k : α → Res β) :
    ((if c then a else b) >>= k) = if c then a >>= k else b >>= k := by
  by_cases h : c
  · rw [if_pos h, if_pos h]
  · rw [if_neg h, if_neg h]

theorem optErr_some {α : Type} (a : α) : optErr (some a) = Res.ok a := rfl
theorem optErr_none {α : Type} : optErr (none : Option α) = Res.err := rfl

/-! ### `x.checked_op(y).unwrap()` is the panicking operator -/

theorem unwrapPanic_cmul (m a b : Nat) : unwrapPanic (cmul m a b) = pmul m a b := by
  unfold cmul pmul
  by_cases h : a * b ≤ m
  · rw [if_pos h, if_pos h]; rfl
  · rw [if_neg h, if_neg h]; rfl
theorem unwrapPanic_cadd (m a b : Nat) : unwrapPanic (cadd m a b) = padd m a b := by
  unfold cadd padd
  by_cases h : a + b ≤ m
  · rw [if_pos h, if_pos h]; rfl
  · rw [if_neg h, if_neg h]; rfl
theorem unwrapPanic_csub (a b : Nat) : unwrapPanic (csub a b) = psub a b := by
  unfold csub psub
  by_cases h : b ≤ a
  · rw [if_pos h, if_pos h]; rfl
  · rw [if_neg h, if_neg h]; rfl
theorem unwrapPanic_cdiv (a b : Nat) : unwrapPanic (cdiv a b) = Trio.pdiv a b := by
  unfold cdiv Trio.pdiv
  by_cases h : b = 0
  · rw [if_pos h, if_pos h]; rfl
  · rw [if_neg h, if_neg h]; rfl
theorem unwrapPanic_narrowTo_128 (a : Nat) : unwrapPanic (narrowTo U128MAX a) = Trio.to128P a := by
  unfold narrowTo Trio.to128P
  by_cases h : a ≤ U128MAX
  · rw [if_pos h, if_pos h]; rfl
  · rw [if_neg h, if_neg h]; rfl
theorem unwrapPanic_eq_unwrapP {α : Type} (x : Res α) : unwrapPanic x = Trio.unwrapP x := by
  cases x <;> rfl
/-- `N_COINS.checked_add(1)?` with `N_COINS: u8 = 3` -/
theorem cadd_u8_3_1 : cadd U8MAX 3 1 = .ok 4 := by
  unfold cadd
  rw [if_pos (by decide)]

/-- the termination test of the Newton loops (`if y > y_prev { if y - y_prev <= 1 { break } } else if
    y_prev - y <= 1 { break }`) against the model's `close1` -/
theorem newton_tail {α : Type} (a b : Nat) (done next : Res α) :
    (if a > b then (psub a b >>= fun t => if t ≤ 1 then done else next)
     else (psub b a >>= fun t => if t ≤ 1 then done else next))
      = if Trio.close1 a b = true then done else next := by
  unfold Trio.close1 psub
  by_cases h : a > b
  · rw [if_pos h, if_pos h, if_pos (by omega : b ≤ a), Res.bind_ok_s]
    by_cases h1 : a - b ≤ 1
    · rw [if_pos h1, if_pos (decide_eq_true h1)]
    · rw [if_neg h1, if_neg (by rw [decide_eq_false h1]; exact Bool.false_ne_true)]
  · rw [if_neg h, if_neg h, if_pos (by omega : a ≤ b), Res.bind_ok_s]
    by_cases h1 : b - a ≤ 1
    · rw [if_pos h1, if_pos (decide_eq_true h1)]
    · rw [if_neg h1, if_neg (by rw [decide_eq_false h1]; exact Bool.false_ne_true)]

theorem unwrapPanic_cdiv_arith (a b : Nat) : unwrapPanic (cdiv a b) = pdiv a b := by
  unfold cdiv pdiv
  by_cases h : b = 0
  · rw [if_pos h, if_pos h]; rfl
  · rw [if_neg h, if_neg h]; rfl

/-- a caller's `.unwrap()` distributes over the callee's statements -/
theorem unwrapPanic_bind {α β : Type} (x : Res α) (f : α → Res β) :
    unwrapPanic (x >>= f) = (unwrapPanic x >>= fun a => unwrapPanic (f a)) := by
  cases x <;> rfl
theorem unwrapPanic_idem {α : Type} (x : Res α) : unwrapPanic (unwrapPanic x) = unwrapPanic x := by
  cases x <;> rfl
theorem unwrapPanic_ok {α : Type} (a : α) : unwrapPanic (Res.ok a) = Res.ok a := rfl

/-- the termination test of the Newton loops against the spelling of `WW.computeDLoop` -/
theorem newton_tail_lt {α : Type} (a b : Nat) (done next : Res α) :
    (if a > b then (psub a b >>= fun t => if t ≤ 1 then done else next)
     else (psub b a >>= fun t => if t ≤ 1 then done else next))
      = if b < a then (if a - b ≤ 1 then done else next) else (if b - a ≤ 1 then done else next) := by
  unfold psub
  by_cases h : a > b
  · rw [if_pos h, if_pos h, if_pos (by omega : b ≤ a), Res.bind_ok_s]
  · rw [if_neg h, if_neg h, if_pos (by omega : a ≤ b), Res.bind_ok_s]

theorem unwrapPanic_pmul (m a b : Nat) : unwrapPanic (pmul m a b) = pmul m a b := by
  unfold pmul
  by_cases h : a * b ≤ m
  · rw [if_pos h]; rfl
  · rw [if_neg h]; rfl
theorem unwrapPanic_padd (m a b : Nat) : unwrapPanic (padd m a b) = padd m a b := by
  unfold padd
  by_cases h : a + b ≤ m
  · rw [if_pos h]; rfl
  · rw [if_neg h]; rfl
theorem unwrapPanic_psub (a b : Nat) : unwrapPanic (psub a b) = psub a b := by
  unfold psub
  by_cases h : b ≤ a
  · rw [if_pos h]; rfl
  · rw [if_neg h]; rfl
theorem unwrapPanic_pdiv (a b : Nat) : unwrapPanic (pdiv a b) = pdiv a b := by
  unfold pdiv
  by_cases h : b = 0
  · rw [if_pos h]; rfl
  · rw [if_neg h]; rfl
/-- `n_coins.u128() as u64` and `n_coins.checked_add(1u128.into()).unwrap()` for two coins -/
theorem two_as_u64 : 2 % 18446744073709551616 = 2 := by decide
theorem padd_u128_2_1 : padd U128MAX 2 1 = .ok (2 + 1) := by
  unfold padd
  rw [if_pos (by decide)]

theorem unwrapPanic_narrowTo (m a : Nat) :
    unwrapPanic (narrowTo m a) = if a ≤ m then Res.ok a else Res.panic := by
  unfold narrowTo
  by_cases h : a ≤ m
  · rw [if_pos h, if_pos h]; rfl
  · rw [if_neg h, if_neg h]; rfl

/-- `if a > b { a - b } else { b - a }` on unchecked operators never panics -/
theorem guarded_absdiff (a b : Nat) :
    (if a > b then psub a b else psub b a) = Res.ok (if a > b then a - b else b - a) := by
  unfold psub
  by_cases h : a > b
  · rw [if_pos h, if_pos h, if_pos (by omega : b ≤ a)]
  · rw [if_neg h, if_neg h, if_pos (by omega : a ≤ b)]

end WW
