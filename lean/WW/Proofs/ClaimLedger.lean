/- The claim loop as a ledger operation: a claim only raises `claimed_amount` (never above the funded
   amount), touches nothing else of a flow, and its transfer messages add up to exactly the raise (C11, C12). -/
import WW.Proofs.FlowSums
namespace WW.Inc
open WW WW.Gen

/-- everything of a flow except `claimed` and the emitted-tokens ledger -/
structure SameCore (f g : Flow) : Prop where
  id : f.id = g.id
  creator : f.creator = g.creator
  asset : f.asset = g.asset
  amount : f.amount = g.amount
  startE : f.startE = g.startE
  endE : f.endE = g.endE
  hist : f.hist = g.hist

theorem SameCore.refl (f : Flow) : SameCore f f := ⟨rfl, rfl, rfl, rfl, rfl, rfl, rfl⟩

theorem SameCore.trans {f g h : Flow} (a : SameCore f g) (b : SameCore g h) : SameCore f h :=
  ⟨a.id.trans b.id, a.creator.trans b.creator, a.asset.trans b.asset, a.amount.trans b.amount,
   a.startE.trans b.startE, a.endE.trans b.endE, a.hist.trans b.hist⟩

theorem SameCore.funded {f g : Flow} (h : SameCore f g) : f.funded = g.funded := by
  unfold Flow.funded Flow.expanded Flow.lastHist
  rw [h.hist, h.amount, h.endE]

theorem claimPay_core {u expAmt : Nat} {st st' : ClaimLoop} {emission uw g : Nat}
    (h : claimPay u expAmt st emission uw g = .ok (.next st')) : SameCore st'.flow st.flow := by
  unfold claimPay at h
  split at h
  · injection h with h; injection h with h; subst h; exact SameCore.refl _
  · split at h
    · split at h
      · split at h
        · cases h
        · split at h
          · injection h with h; injection h with h; subst h; exact SameCore.refl _
          · split at h
            · injection h with h; injection h with h; subst h
              exact ⟨rfl, rfl, rfl, rfl, rfl, rfl, rfl⟩
            · cases h
            · cases h
      · cases h
      · cases h
    · cases h
    · cases h

/-- loop invariant of `claim.rs` over one flow `f` for claimer `u` -/
structure CL (f : Flow) (u : Addr) (st : ClaimLoop) : Prop where
  core : SameCore st.flow f
  paid : msgSum st.msgs + f.claimed = st.flow.claimed
  sends : ∀ m ∈ st.msgs, ∃ amt, m = Msg.send INC u f.asset amt

def iterSt : Iter ClaimLoop → ClaimLoop
  | .next a => a
  | .stop a => a

theorem claimEpoch_CL {s : St} {u expAmt expEnd ep : Nat} {f : Flow} {st : ClaimLoop} {i : Iter ClaimLoop}
    (hcl : CL f u st) (h : claimEpoch s u expAmt expEnd st ep = .ok i) :
    CL f u (iterSt i) ∧ (st.flow.claimed ≤ expAmt → (iterSt i).flow.claimed ≤ expAmt) := by
  unfold claimEpoch at h
  simp only [] at h
  have hbase : ∀ (cnt a b : Nat), CL f u { st with count := cnt, lastUpd := a, lastSeen := b } := fun _ _ _ =>
    ⟨hcl.core, hcl.paid, hcl.sends⟩
  split at h
  · injection h with h; subst h; exact ⟨hbase _ _ _, fun hle => hle⟩
  · split at h
    · injection h with h; subst h; exact ⟨hbase _ _ _, fun hle => hle⟩
    · split at h
      · injection h with h; subst h; exact ⟨hbase _ _ _, fun hle => hle⟩
      · split at h
        · rename_i emission em hes
          generalize hwa : weightAt s u ep st.lastUpd st.lastSeen = wa at h
          obtain ⟨w1, w2, w3⟩ := wa
          have hcl1 : CL f u { flow := { st.flow with emitted := em }, lastUpd := w1, lastSeen := w2,
                               count := st.count + 1, msgs := st.msgs } :=
            ⟨⟨hcl.core.id, hcl.core.creator, hcl.core.asset, hcl.core.amount, hcl.core.startE,
              hcl.core.endE, hcl.core.hist⟩, hcl.paid, hcl.sends⟩
          cases w3 with
          | none =>
            simp only at h
            injection h with h; subst h
            exact ⟨hcl1, fun hle => hle⟩
          | some uw =>
            simp only at h
            obtain ⟨st', hi, _⟩ := claimPay_is_next h
            subst hi
            have hc := claimPay_core h
            obtain ⟨a1, _, a3, _, a5⟩ := claimPay_spec h
            simp only at a1 a3 a5 hc
            simp only [iterSt]
            refine ⟨⟨hc.trans hcl1.core, ?_, ?_⟩, a3⟩
            · rw [a5, msgSum_append]
              have hp := hcl.paid
              split
              · rename_i heq; rw [heq]; simp only [msgSum]; omega
              · simp only [msgSum]; omega
            · intro m hm
              rw [a5] at hm
              rcases List.mem_append.mp hm with hm | hm
              · exact hcl.sends m hm
              · split at hm
                · cases hm
                · simp only [List.mem_singleton] at hm
                  exact ⟨_, by rw [hm, hcl.core.asset]⟩
        · cases h
        · cases h

theorem claimEpochs_CL {s : St} {u expAmt expEnd : Nat} {f : Flow} :
    ∀ (n ep : Nat) (st st' : ClaimLoop), CL f u st → claimEpochs s u expAmt expEnd n ep st = .ok st' →
      CL f u st' ∧ (st.flow.claimed ≤ expAmt → st'.flow.claimed ≤ expAmt) := by
  intro n
  induction n with
  | zero =>
    intro ep st st' hcl h
    unfold claimEpochs at h
    injection h with h; subst h
    exact ⟨hcl, fun hle => hle⟩
  | succ n ih =>
    intro ep st st' hcl h
    unfold claimEpochs at h
    split at h
    · rename_i st1 hce
      obtain ⟨h1, h2⟩ := claimEpoch_CL hcl hce
      obtain ⟨h3, h4⟩ := ih (ep + 1) st1 st' h1 h
      exact ⟨h3, fun hle => h4 (h2 hle)⟩
    · rename_i st1 hce
      obtain ⟨h1, h2⟩ := claimEpoch_CL hcl hce
      injection h with h; subst h
      exact ⟨h1, h2⟩
    · cases h
    · cases h

/-- what `claim` does to one flow -/
theorem claimFlow_ledger {s : St} {u epoch : Nat} {f f' : Flow} {m : List Msg}
    (h : claimFlow s u epoch f = .ok (f', m)) :
    SameCore f' f ∧ msgSum m + f.claimed = f'.claimed
    ∧ (f.claimed ≤ f.funded → f'.claimed ≤ f.funded)
    ∧ (∀ x ∈ m, ∃ amt, x = Msg.send INC u f.asset amt) := by
  unfold claimFlow at h
  have hfun : f.funded = f.expanded.1 := rfl
  generalize hexp : f.expanded = ex at *
  obtain ⟨expAmt, expEnd⟩ := ex
  simp only at h hfun
  split at h
  · injection h with h; injection h with h1 h2; subst h1 h2
    exact ⟨SameCore.refl _, by simp [msgSum], fun hle => hle, fun x hx => by cases hx⟩
  · generalize hcs : claimStart s u f = cs at *
    obtain ⟨first, lu, ls⟩ := cs
    simp only at h
    split at h
    · rename_i st hloop
      injection h with h; injection h with h1 h2; subst h1 h2
      have h0 : CL f u { flow := f, lastUpd := lu, lastSeen := ls, count := 0, msgs := [] } :=
        ⟨SameCore.refl _, by simp [msgSum], fun x hx => by cases hx⟩
      obtain ⟨hc, hb⟩ := claimEpochs_CL _ _ _ _ h0 hloop
      simp only at hb
      exact ⟨hc.core, hc.paid, by rw [hfun]; exact hb, hc.sends⟩
    · cases h
    · cases h

/-- transfers from the contract to `u ≠ contract` in one asset -/
theorem sends_outs {u asset : Nat} (hu : u ≠ INC) (a : Nat) :
    ∀ (m : List Msg), (∀ x ∈ m, ∃ amt, x = Msg.send INC u asset amt) →
      outsOf INC a m = (if asset = a then msgSum m else 0) ∧ insOf INC a m = 0 := by
  intro m
  induction m with
  | nil => intro _; simp [outsOf, insOf, msgSum]
  | cons x t ih =>
    intro hall
    obtain ⟨amt, hx⟩ := hall x List.mem_cons_self
    obtain ⟨h1, h2⟩ := ih (fun y hy => hall y (List.mem_cons_of_mem _ hy))
    subst hx
    simp only [outsOf, insOf, msgOut, msgIn, msgSum, h1, h2]
    by_cases ha : asset = a <;> simp [ha, hu]

/-- what `claim` does to the list of flows -/
theorem claimFlows_ledger {s : St} {u epoch : Nat} :
    ∀ (fl fl' : List Flow) (msgs : List Msg), claimFlows s u epoch fl = .ok (fl', msgs) →
      List.Forall₂ SameCore fl' fl
      ∧ ((∀ f ∈ fl, f.claimed ≤ f.funded) →
          (∀ f ∈ fl', f.claimed ≤ f.funded)
          ∧ (u ≠ INC → ∀ a, ffSum a fl' + outsOf INC a msgs = ffSum a fl))
      ∧ (u ≠ INC → ∀ a, insOf INC a msgs = 0)
      ∧ (∀ x ∈ msgs, ∃ asset amt, x = Msg.send INC u asset amt) := by
  intro fl
  induction fl with
  | nil =>
    intro fl' msgs h
    unfold claimFlows at h
    injection h with h; injection h with h1 h2; subst h1 h2
    exact ⟨List.Forall₂.nil, fun _ => ⟨fun f hf => (by cases hf), fun _ a => rfl⟩, fun _ a => rfl,
      fun x hx => (by cases hx)⟩
  | cons f t ih =>
    intro fl' msgs h
    unfold claimFlows at h
    split at h
    · split at h
      · rename_i f' m hcf
        split at h
        · rename_i t' m' hct
          injection h with h; injection h with h1 h2; subst h1 h2
          obtain ⟨i1, i2, i3, i4⟩ := ih t' m' hct
          obtain ⟨c1, c2, c3, c4⟩ := claimFlow_ledger hcf
          refine ⟨List.Forall₂.cons c1 i1, ?_, ?_, ?_⟩
          · intro hall
            obtain ⟨j1, j2⟩ := i2 (fun g hg => hall g (List.mem_cons_of_mem _ hg))
            have hf := hall f List.mem_cons_self
            have hf' := c3 hf
            constructor
            · intro g hg
              rcases List.mem_cons.mp hg with hg | hg
              · subst hg; rw [c1.funded]; exact hf'
              · exact j1 g hg
            · intro hu a
              obtain ⟨o1, _⟩ := sends_outs hu a m c4
              rw [outsOf_append, o1]
              have := j2 hu a
              simp only [ffSum, contrib, c1.asset, c1.funded]
              split <;> omega
          · intro hu a
            rw [insOf_append, i3 hu a, (sends_outs hu a m c4).2]
          · intro x hx
            rcases List.mem_append.mp hx with hx | hx
            · obtain ⟨amt, hx⟩ := c4 x hx; exact ⟨_, amt, hx⟩
            · exact i4 x hx
        · cases h
        · cases h
      · cases h
      · cases h
    · split at h
      · rename_i t' m' hct
        injection h with h; injection h with h1 h2; subst h1 h2
        obtain ⟨i1, i2, i3, i4⟩ := ih t' _ hct
        refine ⟨List.Forall₂.cons (SameCore.refl _) i1, ?_, i3, i4⟩
        intro hall
        obtain ⟨j1, j2⟩ := i2 (fun g hg => hall g (List.mem_cons_of_mem _ hg))
        constructor
        · intro g hg
          rcases List.mem_cons.mp hg with hg | hg
          · subst hg; exact hall _ List.mem_cons_self
          · exact j1 g hg
        · intro hu a
          have := j2 hu a
          simp only [ffSum]; omega
      · cases h
      · cases h

theorem forall2_core_ids {l' l : List Flow} (h : List.Forall₂ SameCore l' l) : flowIds l' = flowIds l := by
  induction h with
  | nil => rfl
  | cons hc _ ih => simp only [flowIds, List.map_cons] at ih ⊢; rw [hc.id, ih]

theorem forall2_core_mem {l' l : List Flow} (h : List.Forall₂ SameCore l' l) :
    ∀ f' ∈ l', ∃ f ∈ l, SameCore f' f := by
  induction h with
  | nil => intro f' hf; cases hf
  | cons hc _ ih =>
    intro f' hf
    rcases List.mem_cons.mp hf with hf | hf
    · subst hf; exact ⟨_, List.mem_cons_self, hc⟩
    · obtain ⟨g, hg, hgc⟩ := ih f' hf
      exact ⟨g, List.mem_cons_of_mem _ hg, hgc⟩

end WW.Inc
