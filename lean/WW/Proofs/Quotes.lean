/- Helper lemmas for C14 (router + constant-product pair): inversion of the `Res` do-blocks of
   `WW/Model/Quotes.lean`, the frame lemma and the hop induction. -/
import WW.Model.Quotes
import WW.Proofs.Basic
namespace WW

/-! ### inversion lemmas for the `Res` primitives -/

theorem Res.bind_eq_ok {α β : Type} {x : Res α} {f : α → Res β} {b : β}
    (h : (x >>= f) = .ok b) : ∃ a, x = .ok a ∧ f a = .ok b := by
  cases x with
  | ok a => exact ⟨a, rfl, h⟩
  | err => cases h
  | panic => cases h

theorem csub_eq_ok {a b c : Nat} (h : csub a b = .ok c) : b ≤ a ∧ c = a - b := by
  unfold csub at h
  split at h
  · injection h with h; exact ⟨by assumption, h.symm⟩
  · cases h

theorem cadd_eq_ok {m a b c : Nat} (h : cadd m a b = .ok c) : a + b ≤ m ∧ c = a + b := by
  unfold cadd at h
  split at h
  · injection h with h; exact ⟨by assumption, h.symm⟩
  · cases h

theorem padd_eq_ok {m a b c : Nat} (h : padd m a b = .ok c) : a + b ≤ m ∧ c = a + b := by
  unfold padd at h
  split at h
  · injection h with h; exact ⟨by assumption, h.symm⟩
  · cases h

theorem pmul_eq_ok {m a b c : Nat} (h : pmul m a b = .ok c) : c = a * b := by
  unfold pmul at h
  split at h
  · injection h with h; exact h.symm
  · cases h

theorem psub_eq_ok {a b c : Nat} (h : psub a b = .ok c) : c = a - b := by
  unfold psub at h
  split at h
  · injection h with h; exact h.symm
  · cases h

theorem to128_eq_ok {a c : Nat} (h : to128 a = .ok c) : c = a := by
  unfold to128 at h
  split at h
  · injection h with h; exact h.symm
  · cases h

theorem u256MulDec_eq_ok {a d c : Nat} (h : u256MulDec a d = .ok c) : c = a * d / E18 := by
  unfold u256MulDec at h
  split at h
  · injection h with h; exact h.symm
  · cases h

theorem dec256FromRatio_eq_ok {n d c : Nat} (h : dec256FromRatio n d = .ok c) :
    d ≠ 0 ∧ c = n * E18 / d := by
  unfold dec256FromRatio mulRatioP at h
  split at h
  · cases h
  · split at h
    · injection h with h; exact ⟨by assumption, h.symm⟩
    · cases h

theorem guardErr_eq_ok {c : Bool} {u : Unit} (h : guardErr c = .ok u) : c = true := by
  unfold guardErr at h
  split at h
  · assumption
  · cases h

/-- a constant-product swap of nothing yields nothing (when it is computed at all) -/
theorem cpSwap_zero {op ap : Nat} {f : Fees} {c : SwapComp} (h : cpSwap op ap 0 f = .ok c) :
    c = ⟨0, 0, 0, 0, 0⟩ := by
  unfold cpSwap at h
  obtain ⟨prod, e1, h⟩ := Res.bind_eq_ok h
  obtain ⟨den, _, h⟩ := Res.bind_eq_ok h
  obtain ⟨r, e3, h⟩ := Res.bind_eq_ok h
  obtain ⟨gross, e4, h⟩ := Res.bind_eq_ok h
  obtain ⟨er, _, h⟩ := Res.bind_eq_ok h
  obtain ⟨x, e6, h⟩ := Res.bind_eq_ok h
  obtain ⟨sf, e7, h⟩ := Res.bind_eq_ok h
  obtain ⟨pf, e8, h⟩ := Res.bind_eq_ok h
  obtain ⟨bf, e9, h⟩ := Res.bind_eq_ok h
  obtain ⟨r1, e10, h⟩ := Res.bind_eq_ok h
  obtain ⟨r2, e11, h⟩ := Res.bind_eq_ok h
  obtain ⟨r3, e12, h⟩ := Res.bind_eq_ok h
  obtain ⟨ret, e13, h⟩ := Res.bind_eq_ok h
  obtain ⟨spread, e14, h⟩ := Res.bind_eq_ok h
  obtain ⟨sf', e15, h⟩ := Res.bind_eq_ok h
  obtain ⟨pf', e16, h⟩ := Res.bind_eq_ok h
  obtain ⟨bf', e17, h⟩ := Res.bind_eq_ok h
  have hprod : prod = 0 := by rw [pmul_eq_ok e1]; simp
  have hr : r = 0 := by rw [(dec256FromRatio_eq_ok e3).2, hprod]; simp
  have hgross : gross = 0 := by rw [u256MulDec_eq_ok e4, hr]; simp
  have hx : x = 0 := by rw [u256MulDec_eq_ok e6]; simp
  have hsf : sf = 0 := by rw [u256MulDec_eq_ok e7, hgross]; simp
  have hpf : pf = 0 := by rw [u256MulDec_eq_ok e8, hgross]; simp
  have hbf : bf = 0 := by rw [u256MulDec_eq_ok e9, hgross]; simp
  have h1 := psub_eq_ok e10
  have h2 := psub_eq_ok e11
  have h3 := psub_eq_ok e12
  have h13 := to128_eq_ok e13
  have h14 := to128_eq_ok e14
  have h15 := to128_eq_ok e15
  have h16 := to128_eq_ok e16
  have h17 := to128_eq_ok e17
  have hc : c = { ret := ret, spread := spread, swapFee := sf', protFee := pf', burnFee := bf' } := by
    injection h with h; exact h.symm
  rw [hc]
  have : ret = 0 := by omega
  have : spread = 0 := by omega
  have : sf' = 0 := by omega
  have : pf' = 0 := by omega
  have : bf' = 0 := by omega
  subst_vars
  rfl

namespace Quotes

theorem set_same {κ : Type} [DecidableEq κ] {α : Type} (f : κ → α) (k : κ) (v : α) :
    set f k v k = v := by
  simp [set]

theorem set_other {κ : Type} [DecidableEq κ] {α : Type} (f : κ → α) {k j : κ} (v : α) (h : j ≠ k) :
    set f k v j = f j := by
  simp [set, h]

/-- `assert_max_spread` on an all-zero computation divides by zero -/
theorem assertMaxSpread_zero (ms : Option Nat) : assertMaxSpread ms 0 0 = .panic := by
  unfold assertMaxSpread
  rw [padd_ok (by omega)]
  rfl

/-- what a successful `swapCore` did, in terms of the pre-state: the swap computation is the one the
    `Simulation` query returns on the pre-state, and the transfers / ledger updates are those amounts -/
structure SwapEffect (ps ps' : PoolSt) (k : Bool) (amt : Nat) (c : SwapComp) : Prop where
  /-- the offer is on the pair's balance -/
  balOffer : ps'.bal k = ps.bal k + amt
  /-- proceeds and burn fee left the pair's balance (swap and protocol fee stay) -/
  balAsk : ps'.bal (!k) + c.ret + c.burnFee = ps.bal (!k)
  /-- the protocol fee was added to the pending ledger … -/
  pendAsk : ps'.pend (!k) = ps.pend (!k) + c.protFee
  pendOffer : ps'.pend k = ps.pend k
  /-- … and to the all-time ledger -/
  allAsk : ps'.allTime (!k) = ps.allTime (!k) + c.protFee
  allOffer : ps'.allTime k = ps.allTime k
  /-- the burn fee was recorded -/
  burnAsk : ps'.burned (!k) = ps.burned (!k) + c.burnFee
  burnOffer : ps'.burned k = ps.burned k

/-- any pair type: the executed computation is the simulated one, and is what is transferred and
    recorded; it also passed `assert_max_spread` -/
theorem swapCoreG_ok {compute : Compute} {ps ps' : PoolSt} {k : Bool} {amt : Nat} {ms : Option Nat}
    {c : SwapComp} (h : swapCoreG compute ps k amt ms = .ok (ps', c)) :
    simCoreG compute ps k amt = .ok c ∧ SwapEffect ps ps' k amt c ∧
    (∃ pO pA, compute pO pA amt = .ok c) ∧
    (∃ rf, rf = c.ret + (c.swapFee + c.protFee + c.burnFee) ∧ assertMaxSpread ms rf c.spread = .ok ()) := by
  unfold swapCoreG at h
  obtain ⟨balO, e1, h⟩ := Res.bind_eq_ok h
  obtain ⟨pO1, e2, h⟩ := Res.bind_eq_ok h
  obtain ⟨pO, e3, h⟩ := Res.bind_eq_ok h
  obtain ⟨pA, e4, h⟩ := Res.bind_eq_ok h
  obtain ⟨c0, e5, h⟩ := Res.bind_eq_ok h
  obtain ⟨f1, e6, h⟩ := Res.bind_eq_ok h
  obtain ⟨fees, e7, h⟩ := Res.bind_eq_ok h
  obtain ⟨rf, e8, h⟩ := Res.bind_eq_ok h
  obtain ⟨u, e9, h⟩ := Res.bind_eq_ok h
  obtain ⟨burned', e10, h⟩ := Res.bind_eq_ok h
  obtain ⟨pend', e11, h⟩ := Res.bind_eq_ok h
  obtain ⟨all', e12, h⟩ := Res.bind_eq_ok h
  obtain ⟨balA1, e13, h⟩ := Res.bind_eq_ok h
  obtain ⟨balA, e14, h⟩ := Res.bind_eq_ok h
  have hfin : ps' = { bal := set (set ps.bal k balO) (!k) balA, pend := set ps.pend (!k) pend',
                      allTime := set ps.allTime (!k) all', burned := set ps.burned (!k) burned' }
      ∧ c = c0 := by
    injection h with h
    injection h with h1 h2
    exact ⟨h1.symm, h2.symm⟩
  obtain ⟨hps, hc⟩ := hfin
  subst hc
  obtain ⟨_, hbalO⟩ := cadd_eq_ok e1
  obtain ⟨hle2, hpO1⟩ := csub_eq_ok e2
  obtain ⟨hle3, hpO⟩ := csub_eq_ok e3
  obtain ⟨hle4, hpA⟩ := csub_eq_ok e4
  obtain ⟨_, hf1⟩ := cadd_eq_ok e6
  obtain ⟨_, hfees⟩ := cadd_eq_ok e7
  obtain ⟨_, hrf⟩ := cadd_eq_ok e8
  obtain ⟨_, hburned⟩ := padd_eq_ok e10
  obtain ⟨_, hpend⟩ := padd_eq_ok e11
  obtain ⟨_, hall⟩ := padd_eq_ok e12
  obtain ⟨hle13, hbalA1⟩ := csub_eq_ok e13
  obtain ⟨hle14, hbalA⟩ := csub_eq_ok e14
  have hkk : k ≠ (!k) := by cases k <;> simp
  refine ⟨?_, ?_, ⟨pO, pA, e5⟩, ⟨rf, by omega, e9⟩⟩
  · -- the query's pools are the execute pools
    unfold simCoreG queryPool
    have hq : pO = ps.bal k - ps.pend k := by omega
    have hle : ps.pend k ≤ ps.bal k := by omega
    rw [csub_ok hle]; rw [Res.bind_ok]
    rw [csub_ok hle4]; rw [Res.bind_ok]
    rw [← hq, ← hpA]
    exact e5
  · subst hps
    constructor
    · show set (set ps.bal k balO) (!k) balA k = _
      rw [set_other _ _ hkk, set_same]; exact hbalO
    · show set (set ps.bal k balO) (!k) balA (!k) + c.ret + c.burnFee = _
      rw [set_same]; omega
    · show set ps.pend (!k) pend' (!k) = _
      rw [set_same]; exact hpend
    · show set ps.pend (!k) pend' k = _
      rw [set_other _ _ hkk]
    · show set ps.allTime (!k) all' (!k) = _
      rw [set_same]; exact hall
    · show set ps.allTime (!k) all' k = _
      rw [set_other _ _ hkk]
    · show set ps.burned (!k) burned' (!k) = _
      rw [set_same]; exact hburned
    · show set ps.burned (!k) burned' k = _
      rw [set_other _ _ hkk]

/-- constant-product pair: as above, and a zero offer cannot get past `assert_max_spread` -/
theorem swapCore_ok {pc : PairCfg} {ps ps' : PoolSt} {k : Bool} {amt : Nat} {ms : Option Nat}
    {c : SwapComp} (h : swapCore pc ps k amt ms = .ok (ps', c)) :
    simCore pc ps k amt = .ok c ∧ SwapEffect ps ps' k amt c ∧ amt ≠ 0 := by
  obtain ⟨h1, h2, ⟨pO, pA, e5⟩, ⟨rf, hrf, e9⟩⟩ := swapCoreG_ok h
  refine ⟨h1, h2, ?_⟩
  intro h0
  subst h0
  have hz := cpSwap_zero e5
  subst hz
  have : rf = 0 := by simp at hrf; exact hrf
  subst this
  rw [assertMaxSpread_zero] at e9
  cases e9

/-- everything a successful `executeSwap` did -/
theorem executeSwap_ok {cfg : Cfg} {s s' : St} {i asset amt : Nat} {ms : Option Nat} {fr tr : Bool}
    {c : SwapComp} (h : executeSwap cfg s i asset amt ms fr tr = .ok (s', c)) :
    ∃ pc k ps' rO rA, cfg.pairs[i]? = some pc ∧ sideOf pc asset = some k
      ∧ swapCore pc (s.pool i) k amt ms = .ok (ps', c)
      ∧ payFrom fr (s.router asset) amt = .ok rO
      ∧ payTo tr (set s.router asset rO (assetOf pc (!k))) c.ret = .ok rA
      ∧ s'.pool = set s.pool i ps'
      ∧ s'.router = set (set s.router asset rO) (assetOf pc (!k)) rA := by
  unfold executeSwap at h
  split at h
  · cases h
  · rename_i pc hpc
    split at h
    · cases h
    · rename_i k hk
      obtain ⟨_, _, h⟩ := Res.bind_eq_ok h
      obtain ⟨rO, e2, h⟩ := Res.bind_eq_ok h
      obtain ⟨pc', e3, h⟩ := Res.bind_eq_ok h
      obtain ⟨rA, e4, h⟩ := Res.bind_eq_ok h
      injection h with h
      injection h with h1 h2
      subst h2
      refine ⟨pc, k, pc'.1, rO, rA, hpc, hk, ?_, e2, e4, ?_, ?_⟩
      · rw [e3]
      · rw [← h1]
      · rw [← h1]

/-- **the quote is the execution** (pool level): the computation of an executed swap is the one the
    `Simulation` query returns on the state before it -/
theorem executeSwap_sim {cfg : Cfg} {s s' : St} {i asset amt : Nat} {ms : Option Nat} {fr tr : Bool}
    {c : SwapComp} (h : executeSwap cfg s i asset amt ms fr tr = .ok (s', c)) :
    simulate cfg s i asset amt = .ok c := by
  obtain ⟨pc, k, ps', rO, rA, hpc, hk, hsw, _, _, _, _⟩ := executeSwap_ok h
  unfold simulate
  rw [hpc]
  simp only
  rw [hk]
  exact (swapCore_ok hsw).1

/-- **frame**: a swap on pair `i` leaves every other pool untouched -/
theorem executeSwap_frame {cfg : Cfg} {s s' : St} {i asset amt : Nat} {ms : Option Nat} {fr tr : Bool}
    {c : SwapComp} (h : executeSwap cfg s i asset amt ms fr tr = .ok (s', c)) {j : Nat} (hj : j ≠ i) :
    s'.pool j = s.pool j := by
  obtain ⟨pc, k, ps', rO, rA, _, _, _, _, _, hp, _⟩ := executeSwap_ok h
  rw [hp, set_other _ _ hj]

/-- the quote of pair `i` reads pool `i` only -/
theorem simulate_congr {cfg : Cfg} {s t : St} {i : Nat} (h : s.pool i = t.pool i) (asset amt : Nat) :
    simulate cfg s i asset amt = simulate cfg t i asset amt := by
  unfold simulate
  rw [h]

/-- a registered hop: the resolved pair trades the hop's offer asset against its ask asset -/
theorem resolve_some {cfg : Cfg} {h : Hop} {i : Nat} (hr : resolve cfg h = some i) :
    ∃ pc, cfg.pairs[i]? = some pc ∧ pairMatches pc h.offer h.ask = true := by
  unfold resolve at hr
  obtain ⟨hlt, hp, _⟩ := List.findIdx?_eq_some_iff_getElem.mp hr
  exact ⟨cfg.pairs[i], by simp [hlt], hp⟩

theorem ask_of_matches {pc : PairCfg} {x y : Nat} {k : Bool} (hm : pairMatches pc x y = true)
    (hk : sideOf pc x = some k) : assetOf pc (!k) = y := by
  unfold pairMatches at hm
  unfold sideOf at hk
  simp only [Bool.or_eq_true, Bool.and_eq_true, beq_iff_eq] at hm
  unfold assetOf
  split at hk
  · injection hk with hk; subst hk
    simp only [Bool.not_false, if_true]
    omega
  · split at hk
    · injection hk with hk; subst hk
      simp only [Bool.not_true]
      rcases hm with ⟨h1, _⟩ | ⟨h1, _⟩
      · exfalso; omega
      · simpa using h1
    · cases hk

/-- router balances after a router-paid hop that swapped the router's whole balance `x` of `offer`:
    nothing of `offer` is left; the proceeds are added to the ask asset iff the hop is not the last -/
theorem executeSwap_router {cfg : Cfg} {s s' : St} {i : Nat} {h : Hop} {ms : Option Nat} {tr : Bool}
    {c : SwapComp} (hr : resolve cfg h = some i)
    (he : executeSwap cfg s i h.offer (s.router h.offer) ms true tr = .ok (s', c)) :
    s.router h.offer ≠ 0 ∧
    s'.router = set (set s.router h.offer 0) h.ask
      (if tr then set s.router h.offer 0 h.ask + c.ret else set s.router h.offer 0 h.ask) := by
  obtain ⟨pc, k, ps', rO, rA, hpc, hk, hsw, hrO, hrA, _, hrt⟩ := executeSwap_ok he
  obtain ⟨pc2, hpc2, hm⟩ := resolve_some hr
  rw [hpc] at hpc2
  injection hpc2 with hpc2
  subst hpc2
  have hask := ask_of_matches hm hk
  rw [hask] at hrA hrt
  unfold payFrom at hrO
  simp only [if_true] at hrO
  obtain ⟨_, hrO⟩ := csub_eq_ok hrO
  have hrO0 : rO = 0 := by omega
  subst hrO0
  refine ⟨(swapCore_ok hsw).2.2, ?_⟩
  rw [hrt]
  unfold payTo at hrA
  cases tr
  · simp only [Bool.false_eq_true, if_false] at hrA ⊢
    injection hrA with hrA
    rw [hrA]
  · simp only [if_true] at hrA ⊢
    rw [(cadd_eq_ok hrA).2]

/-- **hop induction**: threading the real state through the hops gives, hop by hop, the amounts the
    stateless simulation computes on the initial state `s0` — provided no pair is visited twice
    (frame lemma) and the router holds exactly the running amount `x` of the asset `cur` it is
    about to offer and nothing of any other asset the remaining hops offer. -/
theorem execHops_sim (cfg : Cfg) (ms : Option Nat) (s0 : St) :
    ∀ (hops : List Hop) (s : St) (cur x : Nat) (s' : St) (recv : Nat),
      (pairIds cfg hops).Nodup →
      (∀ j ∈ pairIds cfg hops, s.pool j = s0.pool j) →
      (∀ h ∈ hops, s.router h.offer = if h.offer = cur then x else 0) →
      execHops cfg ms s hops x = .ok (s', recv) →
      simulateOps cfg s0 hops x = .ok recv := by
  intro hops
  induction hops with
  | nil =>
    intro s cur x s' recv _ _ _ he
    unfold execHops at he
    injection he with he
    injection he with _ h2
    unfold simulateOps
    rw [h2]
  | cons h rest ih =>
    intro s cur x s' recv hnd hfr hrt he
    unfold execHops at he
    split at he
    · cases he
    · rename_i i hres
      split at he
      · rename_i sc hsc
        -- the pair ids of the route: `i` first, then those of the rest
        have hids : pairIds cfg (h :: rest) = i :: pairIds cfg rest := by
          unfold pairIds
          rw [List.filterMap_cons, hres]
        rw [hids] at hnd hfr
        obtain ⟨hnotin, hnd'⟩ := List.nodup_cons.mp hnd
        -- the hop offers the running amount
        obtain ⟨s1, c⟩ := sc
        obtain ⟨hne, hrouter⟩ := executeSwap_router hres hsc
        have hamt : s.router h.offer = x ∧ h.offer = cur := by
          have := hrt h (List.mem_cons_self ..)
          by_cases hc : h.offer = cur
          · rw [if_pos hc] at this; exact ⟨this, hc⟩
          · rw [if_neg hc] at this; exact absurd this hne
        obtain ⟨hx, hcur⟩ := hamt
        -- its quote on the initial state is its execution
        have hsim : simulate cfg s0 i h.offer x = .ok c := by
          rw [← simulate_congr (hfr i (List.mem_cons_self ..)) h.offer x, ← hx]
          exact executeSwap_sim hsc
        unfold simulateOps
        rw [hres]
        simp only
        rw [hsim]
        simp only
        -- the rest of the route, by induction
        refine ih s1 h.ask c.ret s' recv hnd' ?_ ?_ he
        · intro j hj
          have hji : j ≠ i := fun e => hnotin (e ▸ hj)
          rw [executeSwap_frame hsc hji]
          exact hfr j (List.mem_cons_of_mem _ hj)
        · intro h' hh'
          have hrest : rest ≠ [] := List.ne_nil_of_mem hh'
          have htr : (!rest.isEmpty) = true := by
            cases rest with
            | nil => exact absurd rfl hrest
            | cons _ _ => rfl
          rw [hrouter, htr]
          simp only [if_true]
          have hold := hrt h' (List.mem_cons_of_mem _ hh')
          by_cases ha : h'.offer = h.ask
          · rw [if_pos ha, ha, set_same]
            -- the router held nothing of the ask asset before
            have : set s.router h.offer 0 h.ask = 0 := by
              by_cases hoa : h.ask = h.offer
              · rw [hoa, set_same]
              · rw [set_other _ _ hoa, ← ha, hold]
                rw [if_neg]
                intro e; exact hoa (by rw [← ha, e, hcur])
            omega
          · rw [if_neg ha, set_other _ _ ha]
            by_cases hb : h'.offer = h.offer
            · rw [hb, set_same]
            · rw [set_other _ _ hb, hold, if_neg]
              intro e; exact hb (by rw [e, hcur])
      · cases he
      · cases he

end Quotes
end WW
