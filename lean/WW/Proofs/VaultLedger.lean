/- Fee-ledger facts of the vault model for C07: what one successful transaction does to the pending
   ledger, the ghost sum of collector transfers, the all-time and burned counters and the asset's
   total supply. -/
import WW.Proofs.Vault
namespace WW.Vault
open WW

/-- the ledger footprint of one transaction: `pf` protocol fee charged, `bf` burn fee burned,
    `c` transferred to the collector by a collection -/
structure LedgerStep (s s' : St) (pf bf c : Nat) : Prop where
  pend : s'.pend + c = s.pend + pf
  sent : s'.sent = s.sent + c
  allTime : s'.allTime = s.allTime + pf
  burned : s'.burned = s.burned + bf
  supply : s'.assetSupply + bf = s.assetSupply

theorem LedgerStep.none {s s' : St} (h1 : s'.pend = s.pend) (h2 : s'.sent = s.sent)
    (h3 : s'.allTime = s.allTime) (h4 : s'.burned = s.burned) (h5 : s'.assetSupply = s.assetSupply) :
    LedgerStep s s' 0 0 0 := ⟨by omega, by omega, by omega, by omega, by omega⟩

theorem loanSpec_ledger {s s' : St} {amount : Nat} (L : LoanSpec s s' amount) :
    ∃ c, LedgerStep s s' (fee s.fees.prot amount) (fee s.fees.burn amount) c := by
  -- c = what the borrower's re-entrant collections moved out of the pending ledger
  have h1 := L.ledger
  have h2 := L.pendLe
  exact ⟨s.pend + fee s.fees.prot amount - s'.pend, ⟨by omega, by omega, L.allTime, L.burned, L.assetSupply⟩⟩

/-- every successful top-level operation has a ledger footprint; only loans charge fees (exactly
    `⌊share·loan⌋`), only collections (direct, or re-entrant inside a loan) pay the collector.
    `op.core` is the message itself, without the stray coins that may be attached to it (`Op.attach`):
    attached coins charge nothing and move nothing on the ledgers. -/
theorem step_ledger {s s' : St} (op : Op) (hI : Inv s) (h : step s op = some s') :
    ∃ pf bf c, LedgerStep s s' pf bf c ∧
      (pf ≠ 0 ∨ bf ≠ 0 → ∃ amount, (∃ cb, op.core = .loan amount cb) ∨ (∃ i p, op.core = .routerLoan i amount p)) := by
  induction op generalizing s s' with
  | deposit who amount sent =>
    simp only [step] at h
    split at h
    · cases h
    · obtain ⟨_, rfl⟩ := deposit_ok_of_some h
      exact ⟨0, 0, 0, LedgerStep.none (by simp only [depositRes]) (by simp only [depositRes])
        (by simp only [depositRes]) (by simp only [depositRes]) (by simp only [depositRes]), by simp⟩
  | withdraw who lp =>
    simp only [step] at h
    split at h
    · cases h
    · obtain ⟨_, _, _, _, _, _, a7, _, _, a10, a11, a12, _, _, _, _, _, hsent⟩ :=
        withdraw_spec_gen hI.abLen hI.lbLen (by omega) h
      exact ⟨0, 0, 0, LedgerStep.none a7 hsent a10 a11 a12, by simp⟩
  | collect =>
    simp only [step] at h
    unfold collect at h
    split at h
    · injection h with h; subst h
      exact ⟨0, 0, 0, LedgerStep.none rfl rfl rfl rfl rfl, by simp⟩
    · split at h
      · cases h
      · injection h with h; subst h
        refine ⟨0, 0, s.pend, ⟨?_, ?_, ?_, ?_, ?_⟩, by simp⟩ <;> simp only [collectRes] <;> omega
  | setFees f =>
    simp only [step] at h
    split at h
    · injection h with h; subst h
      exact ⟨0, 0, 0, LedgerStep.none rfl rfl rfl rfl rfl, by simp⟩
    · cases h
  | setToggles d w f =>
    simp only [step] at h
    injection h with h; subst h
    exact ⟨0, 0, 0, LedgerStep.none rfl rfl rfl rfl rfl, by simp⟩
  | loan amount cb =>
    simp only [step] at h
    obtain ⟨c, hc⟩ := loanSpec_ledger (loan_spec hI h)
    exact ⟨_, _, c, hc, fun _ => ⟨amount, Or.inl ⟨cb, rfl⟩⟩⟩
  | donate who n =>
    simp only [step] at h
    split at h
    · cases h
    · obtain ⟨rfl, _⟩ := payIn_spec hI.abLen (by omega) h
      exact ⟨0, 0, 0, LedgerStep.none rfl rfl rfl rfl rfl, by simp⟩
  | routerLoan initiator amount payload =>
    simp only [step] at h
    split at h
    · cases h
    · obtain ⟨c, hc⟩ := loanSpec_ledger (router_loan_spec hI (by omega) h)
      exact ⟨_, _, c, hc, fun _ => ⟨amount, Or.inr ⟨initiator, payload, rfl⟩⟩⟩
  | routerLoanNone who payload =>
    simp only [step] at h
    injection h with h; subst h
    exact ⟨0, 0, 0, LedgerStep.none rfl rfl rfl rfl rfl, by simp⟩
  | routerLoanMulti who a1 a2 payload => exact absurd h (by simp [step])
  | fundRouter who n =>
    simp only [step] at h
    split at h
    · cases h
    · obtain ⟨_, _, heq, _⟩ := move_spec hI.abLen (by omega) (by omega) h
      rw [heq]
      exact ⟨0, 0, 0, LedgerStep.none rfl rfl rfl rfl rfl, by simp⟩
  | nextLoanBy who amount payload => exact absurd h (by simp [step])
  | completeLoanBy who initiator amount => exact absurd h (by simp [step])
  | foreign k who a b => exact absurd h (by simp [step])
  | attach who sel n op ih =>
    obtain ⟨dst, s1, _, _, ha, hs⟩ := attach_parts h
    have A := arrive_spec hI ha
    obtain ⟨pf, bf, c, L, hc⟩ := ih A.inv hs
    have h1 := L.pend; have h2 := L.sent; have h3 := L.allTime; have h4 := L.burned; have h5 := L.supply
    have := A.pend; have := A.sent; have := A.allTime; have := A.burned; have := A.assetSupply
    exact ⟨pf, bf, c, ⟨by omega, by omega, by omega, by omega, by omega⟩, hc⟩

/-- the ledger identities as a state invariant -/
structure LedgerInv (K : Nat) (s : St) : Prop where
  ledger : s.pend + s.sent = s.allTime
  supply : s.burned + s.assetSupply = K

theorem ledgerInv_step {K : Nat} {s s' : St} (op : Op) (hI : Inv s) (hL : LedgerInv K s)
    (h : step s op = some s') : LedgerInv K s' := by
  obtain ⟨pf, bf, c, L, _⟩ := step_ledger op hI h
  have h1 := L.pend; have h2 := L.sent; have h3 := L.allTime; have h4 := L.burned; have h5 := L.supply
  have := hL.ledger; have := hL.supply
  exact ⟨by omega, by omega⟩

end WW.Vault
