/-
  Helpers for `WW/Props/Kernels/{CpSwap,TrioSwap}.lean`: conversions between the model's records and the
  generated ones, and `Fee::compute` in closed form.  Core Lean only.
-/
import WW.Gen.Kernels
import WW.Proofs.Kernels
import WW.Model.CpSwap
namespace WW

/-! ### conversions between the model's records and the generated ones -/

/-- the model's `SwapComp` as the generated `SwapComputation` (field by field) -/
def SwapComp.toGen (c : SwapComp) : Gen.K.SwapComputation :=
  { return_amount := c.ret, spread_amount := c.spread, swap_fee_amount := c.swapFee,
    protocol_fee_amount := c.protFee, burn_fee_amount := c.burnFee }

/-- the generated `PoolFee` as the model's `Fees` -/
def Fees.ofGen (p : Gen.K.PoolFee) : Fees :=
  { prot := p.protocol_fee.share, swap := p.swap_fee.share, burn := p.burn_fee.share }

theorem K_Fee_compute_eq (f : Gen.K.Fee) (a : Nat) : Gen.K.Fee_compute f a = u256MulDec a f.share := by
  unfold Gen.K.Fee_compute
  first | rfl | rw [Res.bind_pure_s]

end WW
