/- C13 `shares_le_one`: the ghost invariant tying the address-weight history to the global-weight
   snapshots. For every epoch `E` with a snapshot, the weights the claim loop can read for `E`
   (`effW`: the recorded entry with the largest epoch ≤ E) add up to at most the snapshot. -/
import WW.Proofs.Snapshot
namespace WW.Inc
open WW WW.Gen

/-- the weight of address `u` in effect at epoch `E` according to `ADDRESS_WEIGHT_HISTORY`: the entry
    recorded for the largest epoch `≤ E`, `0` if there is none (this is what `claim` / `get_rewards` carry
    along as `last_user_weight_seen` and what the share query reports) -/
def effW (wh : List ((Addr × Nat) × Nat)) (u : Addr) : Nat → Nat
  | 0 => (alook wh (u, 0)).getD 0
  | E + 1 =>
    match alook wh (u, E + 1) with
    | some w => w
    | none => effW wh u E

theorem effW_congr {wh wh' : List ((Addr × Nat) × Nat)} {u : Addr} :
    ∀ (E : Nat), (∀ k, k ≤ E → alook wh' (u, k) = alook wh (u, k)) → effW wh' u E = effW wh u E := by
  intro E
  induction E with
  | zero => intro h; unfold effW; rw [h 0 (Nat.le_refl _)]
  | succ E ih =>
    intro h
    unfold effW
    rw [h (E + 1) (Nat.le_refl _), ih (fun k hk => h k (by omega))]

theorem effW_none {wh : List ((Addr × Nat) × Nat)} {u : Addr} :
    ∀ (E : Nat), (∀ k, k ≤ E → alook wh (u, k) = none) → effW wh u E = 0 := by
  intro E
  induction E with
  | zero => intro h; unfold effW; rw [h 0 (Nat.le_refl _)]; rfl
  | succ E ih =>
    intro h
    unfold effW
    rw [h (E + 1) (Nat.le_refl _)]
    exact ih (fun k hk => h k (by omega))

theorem effW_top {wh : List ((Addr × Nat) × Nat)} {u : Addr} {E w : Nat} (h : alook wh (u, E) = some w) :
    effW wh u E = w := by
  cases E with
  | zero => unfold effW; rw [h]; rfl
  | succ E => unfold effW; rw [h]

theorem effW_succ (wh : List ((Addr × Nat) × Nat)) (u : Addr) (E : Nat) :
    effW wh u (E + 1) = (match alook wh (u, E + 1) with
                         | some w => w
                         | none => effW wh u E) := rfl

theorem effW_extend {wh : List ((Addr × Nat) × Nat)} {u : Addr} {E : Nat} :
    ∀ (d : Nat), (∀ k, E < k → k ≤ E + d → alook wh (u, k) = none) → effW wh u (E + d) = effW wh u E := by
  intro d
  induction d with
  | zero => intro _; rfl
  | succ d ih =>
    intro h
    show effW wh u (E + d + 1) = _
    rw [effW_succ, h (E + d + 1) (by omega) (by omega)]
    exact ih (fun k h1 h2 => h k h1 (by omega))

/-! ### sums over distinct addresses -/

theorem sum_map_le {us : List Addr} {f g : Addr → Nat} (h : ∀ u ∈ us, f u ≤ g u) :
    (us.map f).sum ≤ (us.map g).sum := by
  induction us with
  | nil => simp
  | cons u t ih =>
    simp only [List.map_cons, List.sum_cons]
    have := h u List.mem_cons_self
    have := ih (fun v hv => h v (List.mem_cons_of_mem _ hv))
    omega

theorem sum_ite_le {us : List Addr} (hn : us.Nodup) (k : Addr) (v : Nat) (g : Addr → Nat) :
    (us.map (fun u => if k = u then v else g u)).sum ≤ v + (us.map g).sum := by
  induction us with
  | nil => simp
  | cons u t ih =>
    simp only [List.nodup_cons] at hn
    simp only [List.map_cons, List.sum_cons]
    by_cases hk : k = u
    · rw [if_pos hk]
      have : t.map (fun u => if k = u then v else g u) = t.map g := by
        apply List.map_congr_left
        intro x hx
        have : k ≠ x := fun he => hn.1 (by rw [← hk, he]; exact hx)
        simp [this]
      rw [this]; omega
    · rw [if_neg hk]
      have := ih hn.2
      omega

theorem sum_aget_le_sumVals (l : List (Addr × Nat)) {us : List Addr} (hn : us.Nodup) :
    (us.map (fun u => aget l u)).sum ≤ sumVals l := by
  induction l with
  | nil =>
    have : us.map (fun u => aget ([] : List (Addr × Nat)) u) = us.map (fun _ => 0) := by
      apply List.map_congr_left; intro x _; rfl
    rw [this]
    have : ∀ (l : List Addr), (l.map (fun _ => 0)).sum = 0 := by
      intro l; induction l with
      | nil => rfl
      | cons _ _ ih => simp only [List.map_cons, List.sum_cons, ih]
    rw [this]; exact Nat.zero_le _
  | cons p t ih =>
    obtain ⟨k, v⟩ := p
    have : us.map (fun u => aget ((k, v) :: t) u) = us.map (fun u => if k = u then v else aget t u) := by
      apply List.map_congr_left
      intro x _
      simp only [aget, alook]
      split <;> rfl
    rw [this]
    have h1 := sum_ite_le hn k v (fun u => aget t u)
    simp only [sumVals]
    omega

/-! ### the invariant, on the four storage items it talks about -/

/-- `snapshot_global_weight_if_missing` on the snapshot map -/
def snapOf (sn : List (Nat × Nat)) (g ep : Nat) : List (Nat × Nat) :=
  match alook sn ep with
  | some _ => sn
  | none => aset sn ep g

theorem snapIfMissing_snapOf (s : St) (ep : Nat) : (snapIfMissing s ep).snap = snapOf s.snap s.global ep := by
  cases h : alook s.snap ep <;> simp [snapIfMissing, snapOf, h]

structure SI (sn : List (Nat × Nat)) (wh : List ((Addr × Nat) × Nat)) (aw : List (Addr × Nat)) (g : Nat)
    (cur : Nat) : Prop where
  /-- no history entry beyond the next epoch -/
  K : ∀ u k, cur + 1 < k → alook wh (u, k) = none
  /-- no snapshot of a future epoch -/
  S : ∀ E, cur < E → alook sn E = none
  /-- nobody's weight for the next epoch is written before the current epoch's snapshot exists -/
  N : alook sn cur = none → ∀ u, alook wh (u, cur + 1) = none
  /-- the latest history entry of an address (if any) is its live weight -/
  L : ∀ u, effW wh u (cur + 1) ≤ aget aw u
  /-- global weight = Σ address weights -/
  G : g = sumVals aw
  /-- the shares clause -/
  W : ∀ E gE, alook sn E = some gE → ∀ us : List Addr, us.Nodup → (us.map (fun u => effW wh u E)).sum ≤ gE

theorem SI.snap_le {sn wh aw g cur} (h : SI sn wh aw g cur) {E gE : Nat} (hs : alook sn E = some gE) : E ≤ cur := by
  by_contra hc
  have := h.S E (by omega)
  rw [this] at hs; cases hs

/-- the epoch moves on -/
theorem SI.adv {sn wh aw g cur} (h : SI sn wh aw g cur) {e : Nat} (hle : cur ≤ e) : SI sn wh aw g e := by
  rcases Nat.eq_or_lt_of_le hle with he | hlt
  · subst he; exact h
  · refine ⟨fun u k hk => h.K u k (by omega), fun E hE => h.S E (by omega), ?_, ?_, h.G, h.W⟩
    · intro _ u; exact h.K u (e + 1) (by omega)
    · intro u
      have : e + 1 = (cur + 1) + (e - cur) := by omega
      rw [this, effW_extend (e - cur) (fun k h1 _ => h.K u k h1)]
      exact h.L u

/-- the snapshot of the current epoch is taken (explicitly or lazily) -/
theorem SI.snap_new {sn wh aw g cur} (h : SI sn wh aw g cur) (hn : alook sn cur = none) :
    SI (aset sn cur g) wh aw g cur := by
  refine ⟨h.K, ?_, ?_, h.L, h.G, ?_⟩
  · intro E hE
    rw [alook_aset_other _ _ (by omega)]; exact h.S E hE
  · intro hc; rw [alook_aset_same] at hc; cases hc
  · intro E gE hs us hus
    by_cases hE : E = cur
    · subst hE
      rw [alook_aset_same] at hs
      injection hs with hs
      subst hs
      have h1 : (us.map (fun u => effW wh u E)).sum ≤ (us.map (fun u => aget aw u)).sum := by
        apply sum_map_le
        intro u _
        have hN := h.N hn u
        have : effW wh u (E + 1) = effW wh u E := by
          show (match alook wh (u, E + 1) with | some w => w | none => effW wh u E) = _
          rw [hN]
        rw [← this]; exact h.L u
      have h2 := sum_aget_le_sumVals aw hus
      rw [h.G]; omega
    · rw [alook_aset_other _ _ hE] at hs
      exact h.W E gE hs us hus

theorem SI.snapOf {sn wh aw g cur} (h : SI sn wh aw g cur) : SI (snapOf sn g cur) wh aw g cur := by
  unfold Inc.snapOf
  split
  · exact h
  · rename_i hn; exact h.snap_new hn

theorem snapOf_ne_none (sn : List (Nat × Nat)) (g ep : Nat) : alook (snapOf sn g ep) ep ≠ none := by
  unfold snapOf
  split
  · rename_i x hx; rw [hx]; simp
  · rw [alook_aset_same]; simp

/-- an address weight changes (the current epoch has its snapshot already) -/
theorem SI.change {sn wh aw g cur} (h : SI sn wh aw g cur) (hs : alook sn cur ≠ none) (r : Addr) (x g' : Nat)
    (hg : g' = sumVals (aset aw r x)) : SI sn (aset wh (r, cur + 1) x) (aset aw r x) g' cur := by
  have hother : ∀ u k, (u, k) ≠ (r, cur + 1) → alook (aset wh (r, cur + 1) x) (u, k) = alook wh (u, k) :=
    fun u k hne => alook_aset_other _ _ hne
  refine ⟨?_, h.S, fun hc => absurd hc hs, ?_, hg, ?_⟩
  · intro u k hk
    rw [hother u k (fun he => by injection he with _ h2; omega)]
    exact h.K u k hk
  · intro u
    by_cases hu : u = r
    · subst hu
      rw [effW_top (alook_aset_same _ _ _), aget_aset_same]
    · rw [aget_aset_other _ _ hu, effW_congr (cur + 1) (fun k _ => hother u k (fun he => by injection he with h1 _; exact hu h1))]
      exact h.L u
  · intro E gE hsE us hus
    have hE := h.snap_le hsE
    have : us.map (fun u => effW (aset wh (r, cur + 1) x) u E) = us.map (fun u => effW wh u E) := by
      apply List.map_congr_left
      intro u _
      exact effW_congr E (fun k hk => hother u k (fun he => by injection he with _ h2; omega))
    rw [this]
    exact h.W E gE hsE us hus

theorem alook_filter_ne_same (wh : List ((Addr × Nat) × Nat)) (u k : Nat) :
    alook (wh.filter (fun p => p.1.1 ≠ u)) (u, k) = none := by
  induction wh with
  | nil => rfl
  | cons p t ih =>
    by_cases hp : p.1.1 ≠ u
    · rw [List.filter_cons_of_pos (by simpa using hp)]
      obtain ⟨⟨a, b⟩, v⟩ := p
      simp only [alook]
      have : ¬ (a, b) = (u, k) := fun he => hp (by injection he with h1 _)
      rw [if_neg this]; exact ih
    · rw [List.filter_cons_of_neg (by simpa using hp)]; exact ih

theorem alook_filter_ne_other (wh : List ((Addr × Nat) × Nat)) {u v : Nat} (k : Nat) (hv : v ≠ u) :
    alook (wh.filter (fun p => p.1.1 ≠ u)) (v, k) = alook wh (v, k) := by
  induction wh with
  | nil => rfl
  | cons p t ih =>
    obtain ⟨⟨a, b⟩, w⟩ := p
    by_cases hp : a ≠ u
    · rw [List.filter_cons_of_pos (by simpa using hp)]
      simp only [alook]
      rw [ih]
    · rw [List.filter_cons_of_neg (by simpa using hp)]
      simp only [alook]
      have : ¬ (a, b) = (v, k) := fun he => by
        injection he with h1 _
        apply hv; rw [← h1]; exact (not_not.mp hp)
      rw [if_neg this]; exact ih

/-- an address claims: its history is replaced by one entry for the next epoch carrying its live weight -/
theorem SI.claim {sn wh aw g cur} (h : SI sn wh aw g cur) (hs : alook sn cur ≠ none) (u : Addr) :
    SI sn (aset (wh.filter (fun p => p.1.1 ≠ u)) (u, cur + 1) (aget aw u)) aw g cur := by
  have hother : ∀ v k, v ≠ u →
      alook (aset (wh.filter (fun p => p.1.1 ≠ u)) (u, cur + 1) (aget aw u)) (v, k) = alook wh (v, k) := by
    intro v k hv
    rw [alook_aset_other _ _ (fun he => by injection he with h1 _; exact hv h1)]
    exact alook_filter_ne_other wh k hv
  have hself : ∀ k, k ≠ cur + 1 →
      alook (aset (wh.filter (fun p => p.1.1 ≠ u)) (u, cur + 1) (aget aw u)) (u, k) = none := by
    intro k hk
    rw [alook_aset_other _ _ (fun he => by injection he with _ h2; exact hk h2)]
    exact alook_filter_ne_same wh u k
  refine ⟨?_, h.S, fun hc => absurd hc hs, ?_, h.G, ?_⟩
  · intro v k hk
    by_cases hv : v = u
    · subst hv; exact hself k (by omega)
    · rw [hother v k hv]; exact h.K v k hk
  · intro v
    by_cases hv : v = u
    · subst hv
      rw [effW_top (alook_aset_same _ _ _)]
    · rw [effW_congr (cur + 1) (fun k _ => hother v k hv)]
      exact h.L v
  · intro E gE hsE us hus
    have hE := h.snap_le hsE
    have : (us.map (fun v => effW (aset (wh.filter (fun p => p.1.1 ≠ u)) (u, cur + 1) (aget aw u)) v E)).sum
        ≤ (us.map (fun v => effW wh v E)).sum := by
      apply sum_map_le
      intro v _
      by_cases hv : v = u
      · subst hv
        rw [effW_none E (fun k hk => hself k (by omega))]
        exact Nat.zero_le _
      · rw [effW_congr E (fun k _ => hother v k hv)]
    have := h.W E gE hsE us hus
    omega

end WW.Inc
