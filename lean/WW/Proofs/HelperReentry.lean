/- C11, re-entrant transactions on the frontend helper's path (`WW.Model.HelperReentry`): the plain helper deposit is its
   four messages in a row; what each of them does to the ledgers; the reply; message parties of every handler; the
   custody invariant and the helper's balances through re-entrant transactions and histories of them. -/
import WW.Model.HelperReentry
import WW.Proofs.HelperKeeps
import WW.Proofs.CustodyHist
namespace WW.Inc
open WW WW.Gen

theorem Res.bind_assoc' {α β γ : Type} (x : Res α) (f : α → Res β) (g : β → Res γ) :
    ((x >>= f) >>= g) = (x >>= fun a => f a >>= g) := by
  cases x <;> rfl

/-- the plain helper deposit is `hdPull`, `hdPair`, `hdMint`, `hdReply` in a row, with the depositor's own
    `TEMP_STATE` -/
theorem helperDeposit_phases (c : Cfg) (s : St) (e : Env) (a0 a1 dur : Nat) :
    helperDeposit c s e a0 a1 dur = helperDepositP c s e a0 a1 dur := by
  unfold helperDeposit helperDepositP hdPull hdPair hdMint hdReply
  simp only [Res.bind_assoc', Res.bind_ok, Res.pure_eq]

/-! ### the first three messages move tokens between the depositor, the helper and the pair only -/

theorem hdPull_spec {c : Cfg} {s s' : St} {e : Env} {a1 : Nat} (h : hdPull c s e a1 = .ok s') :
    ∃ b, s' = { s with bal := b } ∧ aget (allowOf c e.offers) 3 = a1
      ∧ applyMsgs c s.bal (allowOf c e.offers) [.pull e.sender HELPER 3 a1] = .ok b := by
  unfold hdPull at h
  obtain ⟨_, hg, h⟩ := bind_eq_ok h
  obtain ⟨b, hb, h⟩ := bind_eq_ok h
  injection h with h
  exact ⟨b, h.symm, of_decide_eq_true (guardErr_eq_ok hg), hb⟩

theorem hdPair_spec {c : Cfg} {s s' : St} {e : Env} {a0 a1 lp : Nat} (h : hdPair c s e a0 a1 = .ok (s', lp)) :
    ∃ b1 b, s' = { s with bal := b } ∧ lp = a0 + a1 ∧ lp ≠ 0
      ∧ attachFunds c s.bal HELPER PAIR (fundsOf c e.offers) = .ok b1
      ∧ applyMsgs c b1 [(3, a1)] [.pull HELPER PAIR 3 a1] = .ok b := by
  unfold hdPair at h
  dsimp only at h
  obtain ⟨b1, hb1, h⟩ := bind_eq_ok h
  obtain ⟨_, _, h⟩ := bind_eq_ok h
  obtain ⟨lp', hlp, h⟩ := bind_eq_ok h
  obtain ⟨_, hg, h⟩ := bind_eq_ok h
  obtain ⟨b, hb, h⟩ := bind_eq_ok h
  injection h with h
  injection h with h1 h2
  subst h2
  have hlp' : lp' = a0 + a1 := by
    unfold cadd at hlp
    split at hlp
    · injection hlp with hlp; exact hlp.symm
    · cases hlp
  exact ⟨b1, b, h1.symm, hlp', of_decide_eq_true (guardErr_eq_ok hg), hb1, hb⟩

theorem hdMint_spec {c : Cfg} {s s' : St} {lp : Nat} (h : hdMint c s lp = .ok s') :
    ∃ b, s' = { s with bal := b } ∧ applyMsgs c s.bal [] [.send PAIR HELPER 0 lp] = .ok b := by
  unfold hdMint at h
  obtain ⟨b, hb, h⟩ := bind_eq_ok h
  injection h with h
  exact ⟨b, h.symm, hb⟩

theorem helper_ne_pair : HELPER ≠ PAIR := by decide

/-- an account that is neither the depositor, nor the helper, nor the pair is not touched by `hdPull` -/
theorem hdPull_other {c : Cfg} {s s' : St} {e : Env} {a1 : Nat} (h : hdPull c s e a1 = .ok s') (X : Addr)
    (h1 : X ≠ e.sender) (h2 : X ≠ HELPER) (a : Nat) : balOf s' X a = balOf s X a := by
  obtain ⟨b, hs', _, hb⟩ := hdPull_spec h
  subst hs'
  have t := applyMsgs_eff X a _ _ _ _ hb
  simp [insOf, outsOf, msgIn, msgOut, Ne.symm h1, Ne.symm h2] at t
  exact t

theorem hdPair_other {c : Cfg} {s s' : St} {e : Env} {a0 a1 lp : Nat} (h : hdPair c s e a0 a1 = .ok (s', lp)) (X : Addr)
    (h2 : X ≠ HELPER) (h3 : X ≠ PAIR) (a : Nat) : balOf s' X a = balOf s X a := by
  obtain ⟨b1, b, hs', _, _, hb1, hb⟩ := hdPair_spec h
  subst hs'
  have t1 := attachFunds_eff (x := HELPER) (y := PAIR) X a _ _ _ hb1
  rw [if_neg (fun hh => h2 hh.1.symm), if_neg (fun hh => h3 hh.1.symm)] at t1
  have t := applyMsgs_eff X a _ _ _ _ hb
  simp [insOf, outsOf, msgIn, msgOut, Ne.symm h2, Ne.symm h3] at t
  show aget b (X, a) = aget s.bal (X, a)
  omega

theorem hdMint_other {c : Cfg} {s s' : St} {lp : Nat} (h : hdMint c s lp = .ok s') (X : Addr)
    (h2 : X ≠ HELPER) (h3 : X ≠ PAIR) (a : Nat) : balOf s' X a = balOf s X a := by
  obtain ⟨b, hs', hb⟩ := hdMint_spec h
  subst hs'
  have t := applyMsgs_eff X a _ _ _ _ hb
  simp [insOf, outsOf, msgIn, msgOut, Ne.symm h2, Ne.symm h3] at t
  exact t

/-- the helper's own balances through the three messages -/
theorem hdPull_helper {c : Cfg} {s s' : St} {e : Env} {a1 : Nat} (h : hdPull c s e a1 = .ok s')
    (hs : e.sender ≠ HELPER) (a : Nat) : balOf s' HELPER a = balOf s HELPER a + (if a = 3 then a1 else 0) := by
  obtain ⟨b, hs', _, hb⟩ := hdPull_spec h
  subst hs'
  have t := applyMsgs_eff HELPER a _ _ _ _ hb
  show aget b (HELPER, a) = aget s.bal (HELPER, a) + _
  by_cases ha : a = 3
  · subst ha; simp [insOf, outsOf, msgIn, msgOut, hs] at t; simp only [if_true]; omega
  · have ha' : ¬ 3 = a := fun hh => ha hh.symm
    simp [insOf, outsOf, msgIn, msgOut, hs, ha'] at t; rw [if_neg ha]; omega

theorem hdPair_helper {c : Cfg} {s s' : St} {e : Env} {a0 a1 lp : Nat} (h : hdPair c s e a0 a1 = .ok (s', lp)) (a : Nat) :
    balOf s' HELPER a + att c a (fundsOf c e.offers) + (if a = 3 then a1 else 0) = balOf s HELPER a := by
  obtain ⟨b1, b, hs', _, _, hb1, hb⟩ := hdPair_spec h
  subst hs'
  have t1 := attachFunds_eff (x := HELPER) (y := PAIR) HELPER a _ _ _ hb1
  rw [if_pos ⟨rfl, pair_ne_helper⟩, if_neg (fun hh => pair_ne_helper hh.1)] at t1
  have t := applyMsgs_eff HELPER a _ _ _ _ hb
  show aget b (HELPER, a) + _ + _ = aget s.bal (HELPER, a)
  by_cases ha : a = 3
  · subst ha; simp [insOf, outsOf, msgIn, msgOut, pair_ne_helper] at t; simp only [if_true]; omega
  · have ha' : ¬ 3 = a := fun hh => ha hh.symm
    simp [insOf, outsOf, msgIn, msgOut, pair_ne_helper, ha'] at t; rw [if_neg ha]; omega

theorem hdMint_helper {c : Cfg} {s s' : St} {lp : Nat} (h : hdMint c s lp = .ok s') (a : Nat) :
    balOf s' HELPER a = balOf s HELPER a + (if a = 0 then lp else 0) := by
  obtain ⟨b, hs', hb⟩ := hdMint_spec h
  subst hs'
  have t := applyMsgs_eff HELPER a _ _ _ _ hb
  show aget b (HELPER, a) = aget s.bal (HELPER, a) + _
  by_cases ha : a = 0
  · subst ha; simp [insOf, outsOf, msgIn, msgOut, pair_ne_helper] at t; simp only [if_true]; omega
  · have ha' : ¬ 0 = a := fun hh => ha hh.symm
    simp [insOf, outsOf, msgIn, msgOut, pair_ne_helper, ha'] at t; rw [if_neg ha]; omega

/-! ### the reply -/

/-- `expand_position` keeps ledger and flows and checked the funds first (no invariant needed) -/
theorem expandPosition_funds {c : Cfg} {s s' : St} {e : Env} {amount dur : Nat} {recv : Option Addr} {msgs : List Msg}
    (h : expandPosition c s e amount dur recv = .ok (s', msgs)) :
    s'.bal = s.bal ∧ s'.flows = s.flows ∧ validateFunds c e amount = .ok msgs := by
  unfold expandPosition at h
  obtain ⟨m, hm, h⟩ := bind_eq_ok h
  dsimp only at h
  split at h
  · cases h
  · split at h
    · cases h
    · obtain ⟨_, _, h⟩ := bind_eq_ok h
      obtain ⟨_, _, h⟩ := bind_eq_ok h
      obtain ⟨_, _, h⟩ := bind_eq_ok h
      obtain ⟨_, _, h⟩ := bind_eq_ok h
      obtain ⟨_, _, h⟩ := bind_eq_ok h
      obtain ⟨s2, hs2, h⟩ := bind_eq_ok h
      injection h with h
      injection h with e1 e2
      subst e1 e2
      obtain ⟨_, _, _, _, a5, a6⟩ := addWeight_spec hs2
      exact ⟨a6, a5, hm⟩

/-- the two branches of the reply's position message -/
theorem replyPos_funds {c : Cfg} {s s' : St} {e : Env} {amount dur : Nat} {u : Addr} {has : Bool} {msgs : List Msg}
    (h : (if has then expandPosition c s e amount dur (some u) else openPosition c s e amount dur (some u)) = .ok (s', msgs)) :
    s'.bal = s.bal ∧ s'.flows = s.flows ∧ validateFunds c e amount = .ok msgs := by
  split at h
  · exact expandPosition_funds h
  · obtain ⟨d1, _, d3, _, d5⟩ := openPosition_delta h
    exact ⟨d3, d1, d5⟩

/-- what the reply consists of: (native LP) the helper's whole LP balance attached, the position message for
    `u` / `dur` with that amount sent by the helper, its messages applied -/
theorem hdReply_spec {c : Cfg} {s s' : St} {e : Env} {u : Addr} {dur : Nat} (h : hdReply c s e u dur = .ok s') :
    ∃ b2 s3 msgs b3,
      (if c.native 0 then attachFunds c s.bal HELPER INC [(0, aget s.bal (HELPER, 0))] else pure s.bal) = .ok b2
      ∧ (if (openOf s u).any (fun p => p.dur = dur)
          then expandPosition c { s with bal := b2 } { e with sender := HELPER, offers := [(0, aget s.bal (HELPER, 0))] }
                 (aget s.bal (HELPER, 0)) dur (some u)
          else openPosition c { s with bal := b2 } { e with sender := HELPER, offers := [(0, aget s.bal (HELPER, 0))] }
                 (aget s.bal (HELPER, 0)) dur (some u)) = .ok (s3, msgs)
      ∧ applyMsgs c s3.bal (allowOf c [(0, aget s.bal (HELPER, 0))]) msgs = .ok b3
      ∧ s' = { s3 with bal := b3 } := by
  unfold hdReply at h
  dsimp only at h
  obtain ⟨_, _, h⟩ := bind_eq_ok h
  obtain ⟨b2, hb2, h⟩ := bind_eq_ok h
  obtain ⟨⟨s3, msgs⟩, h3, h⟩ := bind_eq_ok h
  obtain ⟨b3, hb3, h⟩ := bind_eq_ok h
  injection h with h
  exact ⟨b2, s3, msgs, b3, hb2, h3, hb3, h.symm⟩

/-- after the reply the helper holds no LP at all; its other balances are untouched -/
theorem hdReply_helper {c : Cfg} {s s' : St} {e : Env} {u : Addr} {dur : Nat} (h : hdReply c s e u dur = .ok s') (a : Nat) :
    balOf s' HELPER a = (if a = 0 then 0 else balOf s HELPER a) := by
  obtain ⟨b2, s3, msgs, b3, hb2, h3, hb3, hs'⟩ := hdReply_spec h
  subst hs'
  generalize hlp : aget s.bal (HELPER, 0) = lpAmt at *
  obtain ⟨hbal3, _, hv⟩ := replyPos_funds h3
  rw [hbal3] at hb3
  simp only at hb3
  obtain ⟨_, hvs⟩ := validateFunds_spec hv
  have t6 := applyMsgs_eff HELPER a _ _ _ _ hb3
  show aget b3 (HELPER, a) = _
  rcases hvs with ⟨hn, _, hm⟩ | ⟨hn, _, hm⟩
  · subst hm
    rw [if_pos hn] at hb2
    have t5 := attachFunds_eff (x := HELPER) (y := INC) HELPER a _ _ _ hb2
    rw [if_pos ⟨rfl, inc_ne_helper⟩, if_neg (fun hh => inc_ne_helper hh.1), att_single hn] at t5
    simp only [insOf, outsOf] at t6
    by_cases ha : a = 0
    · subst ha; simp only [if_true] at t5 ⊢; omega
    · rw [if_neg (fun hh => ha hh.symm)] at t5; rw [if_neg ha]; unfold balOf; omega
  · subst hm
    have hn' : ¬ c.native 0 = true := by rw [hn]; simp
    rw [if_neg hn'] at hb2
    injection hb2 with hb2
    subst hb2
    by_cases ha : a = 0
    · subst ha
      simp [insOf, outsOf, msgIn, msgOut, inc_ne_helper] at t6
      simp only [if_true]; omega
    · have ha' : ¬ 0 = a := fun hh => ha hh.symm
      simp [insOf, outsOf, msgIn, msgOut, inc_ne_helper, ha'] at t6
      rw [if_neg ha]; unfold balOf; omega

/-- the reply moves tokens between the helper and the contract only -/
theorem hdReply_other {c : Cfg} {s s' : St} {e : Env} {u : Addr} {dur : Nat} (h : hdReply c s e u dur = .ok s') (X : Addr)
    (h1 : X ≠ HELPER) (h2 : X ≠ INC) (a : Nat) : balOf s' X a = balOf s X a := by
  obtain ⟨b2, s3, msgs, b3, hb2, h3, hb3, hs'⟩ := hdReply_spec h
  subst hs'
  generalize hlp : aget s.bal (HELPER, 0) = lpAmt at *
  obtain ⟨hbal3, _, hv⟩ := replyPos_funds h3
  rw [hbal3] at hb3
  simp only at hb3
  obtain ⟨_, hvs⟩ := validateFunds_spec hv
  have t6 := applyMsgs_eff X a _ _ _ _ hb3
  show aget b3 (X, a) = aget s.bal (X, a)
  rcases hvs with ⟨hn, _, hm⟩ | ⟨hn, _, hm⟩
  · subst hm
    rw [if_pos hn] at hb2
    have t5 := attachFunds_eff (x := HELPER) (y := INC) X a _ _ _ hb2
    rw [if_neg (fun hh => h1 hh.1.symm), if_neg (fun hh => h2 hh.1.symm)] at t5
    simp only [insOf, outsOf] at t6
    omega
  · subst hm
    have hn' : ¬ c.native 0 = true := by rw [hn]; simp
    rw [if_neg hn'] at hb2
    injection hb2 with hb2
    subst hb2
    simp [insOf, outsOf, msgIn, msgOut, Ne.symm h1, Ne.symm h2] at t6
    omega

theorem hdReply_flows {c : Cfg} {s s' : St} {e : Env} {u : Addr} {dur : Nat} (h : hdReply c s e u dur = .ok s') :
    s'.flows = s.flows := by
  obtain ⟨b2, s3, msgs, b3, _, h3, _, hs'⟩ := hdReply_spec h
  subst hs'
  exact (replyPos_funds h3).2.1

/-- the custody invariant through the reply (the helper is the sender, its whole LP balance the amount) -/
theorem hdReply_custody {c : Cfg} {s s' : St} {e : Env} {u : Addr} {dur K : Nat} (hI : CInv s e.epoch K)
    (h : hdReply c s e u dur = .ok s') : CInv s' e.epoch K := by
  have hW := hI.winv
  have hF := hI.finv
  obtain ⟨b5, s3, msgs, b6, hb5, h3, hb6, hs'⟩ := hdReply_spec h
  subst hs'
  generalize hlp : aget s.bal (HELPER, 0) = lpAmt at *
  let e2 : Env := { e with sender := HELPER, offers := [(0, lpAmt)] }
  have e5 : aget b5 (INC, 0) = aget s.bal (INC, 0) + att c 0 (fundsOf c e2.offers) := by
    by_cases hn : c.native 0 = true
    · rw [if_pos hn] at hb5
      have t5 := attachFunds_eff (x := HELPER) (y := INC) INC 0 _ _ _ hb5
      rw [if_neg (fun hh => helper_ne_inc hh.1), if_pos ⟨rfl, helper_ne_inc⟩] at t5
      have : fundsOf c e2.offers = [(0, lpAmt)] := by simp [fundsOf, e2, hn]
      rw [this]; omega
    · rw [if_neg hn] at hb5
      injection hb5 with hb5
      have : fundsOf c e2.offers = [] := by simp [fundsOf, e2, hn]
      rw [this, hb5]; simp [att]
  have hs2 : e2.sender ≠ INC := helper_ne_inc
  have hn2 : (keysOf e2.offers).Nodup := by simp [keysOf, e2]
  have hW2 : WInv ({ s with bal := b5 } : St) := hW.with_bal b5
  have hF2 : FInv ({ s with bal := b5 } : St) := hF.with_bal b5
  have hH2 : HistLe ({ s with bal := b5 } : St) e2.epoch := hI.hist
  have hC2 : CreatorsOk ({ s with bal := b5 } : St) := hI.creators
  have hok : HandlerOk c ({ s with bal := b5 } : St) s3 e2 msgs ∧ CustodyOk c ({ s with bal := b5 } : St) s3 e2 msgs 0 := by
    split at h3
    · exact ⟨pos_handlerOk hF2 (expandPosition_delta hW2 h3), pos_custodyOk (expandPosition_delta hW2 h3)⟩
    · exact ⟨pos_handlerOk hF2 (openPosition_delta h3), pos_custodyOk (openPosition_delta h3)⟩
  obtain ⟨hok1, hok2⟩ := hok
  have hW3 : WInv s3 := by
    split at h3
    · exact expandPosition_WInv hW2 h3
    · exact openPosition_WInv hW2 h3
  have hfin := run_custody (s := s) (b0 := s.bal) (b := b5) (K := K) hI.bal e5 hok1.bal
    (hok2.eq0 hs2 hn2 hH2 hC2) hb6
  exact ⟨hW3.with_bal b6, hok1.finv.with_bal b6, hok2.hist hH2, hok2.creators hs2 hC2, hfin⟩

/-! ### who the messages of a handler move tokens between -/

def Msg.src : Msg → Addr
  | .send s _ _ _ => s
  | .pull s _ _ _ => s
def Msg.dst : Msg → Addr
  | .send _ d _ _ => d
  | .pull _ d _ _ => d

/-- account `X` is neither source nor destination of any of the messages -/
def Avoids (X : Addr) (msgs : List Msg) : Prop := ∀ m ∈ msgs, m.src ≠ X ∧ m.dst ≠ X

theorem Avoids.nil (X : Addr) : Avoids X [] := fun m hm => (by cases hm)

theorem Avoids.append {X : Addr} {l1 l2 : List Msg} (h1 : Avoids X l1) (h2 : Avoids X l2) : Avoids X (l1 ++ l2) := by
  intro m hm
  rcases List.mem_append.mp hm with hm | hm
  · exact h1 m hm
  · exact h2 m hm

theorem Avoids.single_send {X src dst : Addr} (a amt : Nat) (h1 : src ≠ X) (h2 : dst ≠ X) :
    Avoids X [Msg.send src dst a amt] := by
  intro m hm
  simp only [List.mem_singleton] at hm
  subst hm
  exact ⟨h1, h2⟩

theorem Avoids.single_pull {X src dst : Addr} (a amt : Nat) (h1 : src ≠ X) (h2 : dst ≠ X) :
    Avoids X [Msg.pull src dst a amt] := by
  intro m hm
  simp only [List.mem_singleton] at hm
  subst hm
  exact ⟨h1, h2⟩

theorem Avoids.eff {X : Addr} (a : Nat) : ∀ {msgs : List Msg}, Avoids X msgs → insOf X a msgs = 0 ∧ outsOf X a msgs = 0 := by
  intro msgs
  induction msgs with
  | nil => intro _; exact ⟨rfl, rfl⟩
  | cons m t ih =>
    intro h
    obtain ⟨i1, i2⟩ := ih (fun x hx => h x (List.mem_cons_of_mem _ hx))
    obtain ⟨h1, h2⟩ := h m List.mem_cons_self
    cases m with
    | send s d a' amt =>
      have h1 : s ≠ X := h1
      have h2 : d ≠ X := h2
      simp [insOf, outsOf, msgIn, msgOut, i1, i2, h1, h2]
    | pull s d a' amt =>
      have h1 : s ≠ X := h1
      have h2 : d ≠ X := h2
      simp [insOf, outsOf, msgIn, msgOut, i1, i2, h1, h2]

/-- **message parties**: a handler's messages move tokens between the contract, the sender, the fee collector
    and flow creators only — an account that is none of these is neither paid nor charged, and is not the creator
    of a flow afterwards either -/
theorem handler_avoids {c : Cfg} {s s' : St} {e : Env} {op : Op} {msgs : List Msg} (hW : WInv s) (hF : FInv s)
    (h : handler c s e op = .ok (s', msgs)) (X : Addr) (hs : e.sender ≠ X) (hi : INC ≠ X) (hc : COLLECTOR ≠ X)
    (hcr : ∀ f ∈ s.flows, f.creator ≠ X) : Avoids X msgs ∧ (∀ f ∈ s'.flows, f.creator ≠ X) := by
  have hvf : ∀ {amount : Nat} {m : List Msg}, validateFunds c e amount = .ok m → Avoids X m := by
    intro amount m hv
    obtain ⟨_, hvs⟩ := validateFunds_spec hv
    rcases hvs with ⟨_, _, hm⟩ | ⟨_, _, hm⟩
    · subst hm; exact Avoids.nil X
    · subst hm; exact Avoids.single_pull _ _ hs hi
  cases op with
  | openPos amt dur recv =>
    obtain ⟨d1, _, _, _, d5⟩ := openPosition_delta h
    exact ⟨hvf d5, by rw [d1]; exact hcr⟩
  | expandPos amt dur recv =>
    obtain ⟨_, d1, d5⟩ := expandPosition_funds h
    exact ⟨hvf d5, by rw [d1]; exact hcr⟩
  | closePos dur =>
    obtain ⟨d1, _, _, _, d5⟩ := closePosition_delta hW h
    subst d5
    exact ⟨Avoids.nil X, by rw [d1]; exact hcr⟩
  | withdraw =>
    obtain ⟨d1, _, _, _, d5⟩ := withdrawOp_delta (s := s) (e := e) h
    refine ⟨?_, by rw [d1]; exact hcr⟩
    rw [d5]
    split
    · exact Avoids.nil X
    · exact Avoids.single_send _ _ hi hs
  | claim =>
    obtain ⟨fl, hcf, d1, _, _, _, _⟩ := claimExec_delta (s := s) (e := e) h
    obtain ⟨c1, _, _, c4⟩ := claimFlows_ledger _ _ _ hcf
    refine ⟨?_, ?_⟩
    · intro m hm
      obtain ⟨asset, amt, hx⟩ := c4 m hm
      subst hx
      exact ⟨hi, hs⟩
    · intro f hf
      rw [d1] at hf
      obtain ⟨g, hg, hcore⟩ := forall2_core_mem c1 f hf
      rw [hcore.creator]; exact hcr g hg
  | snapshot =>
    obtain ⟨d1, _, _, _, _, d6⟩ := takeSnapshot_delta h
    subst d6
    exact ⟨Avoids.nil X, by rw [d1]; exact hcr⟩
  | openFlow a0 amt st en =>
    obtain ⟨x, y, m0, m1, f, hfee, hasset, hm, hs', _, f2, _⟩ := openFlow_delta h
    subst hs' hm
    refine ⟨Avoids.append ?_ ?_, ?_⟩
    · rcases openFlowFee_spec hfee with ⟨_, paid, _, _, hm0, _⟩ | ⟨_, _, hm0⟩
      · subst hm0
        refine Avoids.append ?_ (Avoids.single_send _ _ hi hc)
        unfold feeRefund
        split
        · exact Avoids.single_send _ _ hi hs
        · exact Avoids.nil X
      · subst hm0; exact Avoids.single_pull _ _ hs hc
    · rcases openFlowAsset_spec hasset with ⟨_, _, hm1, _⟩ | ⟨_, hm1, _⟩
      · subst hm1; exact Avoids.nil X
      · subst hm1; exact Avoids.single_pull _ _ hs hi
    · intro g hg
      rcases mem_insertFlow.mp hg with hg | hg
      · subst hg; rw [f2]; exact hs
      · exact hcr g hg
  | expandFlow id a0 amt en =>
    obtain ⟨f, f2, endE, hf, _, hfunds, hadd, hs'⟩ := expandFlow_delta h
    subst hs'
    obtain ⟨hfm, _⟩ := findFlow_mem hf
    have hn := hF.hist_nodup f hfm
    obtain ⟨_, _, r3, r4, _, _⟩ := resetFlow_spec f e.epoch hn
    obtain ⟨_, _, a3, _⟩ := addHist_spec r4 hadd
    refine ⟨?_, ?_⟩
    · rcases expandFlowFunds_spec hfunds with ⟨_, _, _, hm⟩ | ⟨_, _, hm⟩
      · subst hm; exact Avoids.nil X
      · subst hm; exact Avoids.single_pull _ _ hs hi
    · intro g hg
      rcases mem_insertFlow.mp hg with hg | hg
      · subst hg; rw [a3, r3]; exact hcr f hfm
      · exact hcr g (mem_removeFlow.mp hg).1
  | closeFlow id =>
    have h : closeFlow s e id = .ok (s', msgs) := h
    obtain ⟨f, hf, _, hm, hfl, _⟩ := closeFlow_spec h
    obtain ⟨hfm, _⟩ := findFlow_mem hf
    subst hm
    refine ⟨Avoids.single_send _ _ hi (hcr f hfm), ?_⟩
    intro g hg
    rw [hfl] at hg
    exact hcr g (mem_removeFlow.mp hg).1
  | helperDeposit a0 a1 dur => cases h
  | helperDepositAs x0 x1 a0 a1 dur => cases h

/-! ### the helper's own balances through any plain transaction -/

theorem collector_ne_helper : COLLECTOR ≠ HELPER := by decide

theorem hdReply_inv {c : Cfg} {s s' : St} {e : Env} {u : Addr} {dur : Nat} (hW : WInv s) (hF : FInv s)
    (h : hdReply c s e u dur = .ok s') : WInv s' ∧ FInv s' := by
  obtain ⟨b2, s3, msgs, b3, _, h3, _, hs'⟩ := hdReply_spec h
  subst hs'
  have hW2 : WInv ({ s with bal := b2 } : St) := hW.with_bal b2
  have hF2 : FInv ({ s with bal := b2 } : St) := hF.with_bal b2
  split at h3
  · exact ⟨(expandPosition_WInv hW2 h3).with_bal b3, (pos_handlerOk hF2 (expandPosition_delta hW2 h3)).finv.with_bal b3⟩
  · exact ⟨(openPosition_WInv hW2 h3).with_bal b3, (pos_handlerOk hF2 (openPosition_delta h3)).finv.with_bal b3⟩

theorem helperDeposit_flows {c : Cfg} {s s' : St} {e : Env} {a0 a1 dur : Nat}
    (h : helperDeposit c s e a0 a1 dur = .ok s') : s'.flows = s.flows := by
  rw [helperDeposit_phases] at h
  unfold helperDepositP at h
  obtain ⟨s1, h1, h⟩ := bind_eq_ok h
  obtain ⟨⟨s2, lp⟩, h2, h⟩ := bind_eq_ok h
  dsimp only at h
  obtain ⟨s3, h3, h⟩ := bind_eq_ok h
  obtain ⟨b1, e1, _, _⟩ := hdPull_spec h1
  obtain ⟨_, b2, e2, _⟩ := hdPair_spec h2
  obtain ⟨b3, e3, _⟩ := hdMint_spec h3
  rw [hdReply_flows h, e3, e2, e1]

/-- **the helper's books through one plain transaction** sent by somebody else, in a state where the helper has
    created no flow: its balance of every asset other than the LP is what it was; its LP balance is what it was,
    or zero (after a deposit through it); it has still created no flow -/
theorem step_helper_row {c : Cfg} {s s' : St} {e : Env} {op : Op} (hW : WInv s) (hF : FInv s)
    (h : step c s e op = .ok s') (hs : e.sender ≠ HELPER) (hcr : ∀ f ∈ s.flows, f.creator ≠ HELPER) :
    (∀ a, a ≠ 0 → balOf s' HELPER a = balOf s HELPER a)
    ∧ (balOf s' HELPER 0 = balOf s HELPER 0 ∨ balOf s' HELPER 0 = 0)
    ∧ (∀ f ∈ s'.flows, f.creator ≠ HELPER) := by
  have h' := h
  unfold step at h
  split at h
  · obtain ⟨k1, k2⟩ := step_helper_keeps_nothing hs h'
    obtain ⟨b, _, h⟩ := bind_eq_ok h
    refine ⟨k2, Or.inr k1, ?_⟩
    rw [helperDeposit_flows h]; exact hcr
  · obtain ⟨b, hb, h⟩ := bind_eq_ok h
    obtain ⟨⟨s1, msgs⟩, h1, h⟩ := bind_eq_ok h
    obtain ⟨b1, hb1, h⟩ := bind_eq_ok h
    injection h with h
    subst h
    have hok := handler_ok (hW.with_bal b) (hF.with_bal b) h1
    obtain ⟨hav, hcr'⟩ := handler_avoids (hW.with_bal b) (hF.with_bal b) h1 HELPER hs inc_ne_helper collector_ne_helper hcr
    have key : ∀ a, aget b1 (HELPER, a) = aget s.bal (HELPER, a) := by
      intro a
      have t0 := attachFunds_eff (x := e.sender) (y := INC) HELPER a _ _ _ hb
      rw [if_neg (fun hh => hs hh.1), if_neg (fun hh => inc_ne_helper hh.1)] at t0
      have t1 := applyMsgs_eff HELPER a _ _ _ _ hb1
      obtain ⟨i1, i2⟩ := hav.eff a
      rw [i1, i2, hok.bal] at t1
      simp only at t1
      omega
    exact ⟨fun a _ => key a, Or.inl (key 0), hcr'⟩

/-! ### the hook -/

theorem fire_cases {c : Cfg} {s s' : St} {e : Env} {hk : Hook} {tmp tmp' : Tmp} {f : Nat}
    (h : fire c s e hk tmp = .ok (s', tmp', f)) :
    (f = 1 ∧ step c s (hk.env e) hk.inner = .ok s' ∧ tmp' = tmpAfter hk tmp)
    ∨ (f = 2 ∧ s' = s ∧ tmp' = tmp ∧ hk.catch_ = true) := by
  unfold fire at h
  split at h
  · rename_i t ht
    injection h with h; injection h with h1 h2; injection h2 with h2 h3
    subst h1 h2 h3
    exact Or.inl ⟨rfl, ht, rfl⟩
  · split at h
    · rename_i hc
      injection h with h; injection h with h1 h2; injection h2 with h2 h3
      subst h1 h2 h3
      exact Or.inr ⟨rfl, rfl, rfl, hc⟩
    · cases h
  · cases h

/-- the optional hook at one of the two trigger points -/
theorem hookAt_cases {c : Cfg} {s s' : St} {e : Env} {hk : Hook} {k f0 f : Nat} {tmp tmp' : Tmp}
    (h : (if hk.trig = k then fire c s e hk tmp else pure (s, tmp, f0)) = .ok (s', tmp', f)) :
    (hk.trig = k ∧ f = 1 ∧ step c s (hk.env e) hk.inner = .ok s' ∧ tmp' = tmpAfter hk tmp)
    ∨ (hk.trig = k ∧ f = 2 ∧ s' = s ∧ tmp' = tmp ∧ hk.catch_ = true)
    ∨ (hk.trig ≠ k ∧ f = f0 ∧ s' = s ∧ tmp' = tmp) := by
  split at h
  · rename_i hk'
    rcases fire_cases h with ⟨a, b, d⟩ | ⟨a, b, d, g⟩
    · exact Or.inl ⟨hk', a, b, d⟩
    · exact Or.inr (Or.inl ⟨hk', a, b, d, g⟩)
  · rename_i hk'
    injection h with h; injection h with h1 h2; injection h2 with h2 h3
    exact Or.inr (Or.inr ⟨hk', h3.symm, h1.symm, h2.symm⟩)

/-- what a re-entrant deposit consists of -/
theorem reenterDeposit_spec {c : Cfg} {s s' : St} {e : Env} {hk : Hook} {a0 a1 dur f : Nat}
    (h : reenterDeposit c s e hk a0 a1 dur = .ok (s', f)) :
    ∃ b s1 s1' tmp1 f1 s2 lp s2' tmp2 s3,
      attachFunds c s.bal e.sender HELPER (fundsOf c e.offers) = .ok b
      ∧ hdPull c { s with bal := b } e a1 = .ok s1
      ∧ (if hk.trig = 1 then fire c s1 e hk (e.sender, dur) else pure (s1, (e.sender, dur), 0)) = .ok (s1', tmp1, f1)
      ∧ hdPair c s1' e a0 a1 = .ok (s2, lp)
      ∧ (if hk.trig = 2 then fire c s2 e hk tmp1 else pure (s2, tmp1, f1)) = .ok (s2', tmp2, f)
      ∧ hdMint c s2' lp = .ok s3
      ∧ hdReply c s3 e tmp2.1 tmp2.2 = .ok s' := by
  unfold reenterDeposit at h
  obtain ⟨b, hb, h⟩ := bind_eq_ok h
  obtain ⟨s1, h1, h⟩ := bind_eq_ok h
  obtain ⟨⟨s1', tmp1, f1⟩, hf1, h⟩ := bind_eq_ok h
  dsimp only at h
  obtain ⟨⟨s2, lp⟩, h2, h⟩ := bind_eq_ok h
  dsimp only at h
  obtain ⟨⟨s2', tmp2, f2⟩, hf2, h⟩ := bind_eq_ok h
  dsimp only at h
  obtain ⟨s3, h3, h⟩ := bind_eq_ok h
  obtain ⟨s4, h4, h⟩ := bind_eq_ok h
  injection h with h; injection h with e1 e2
  subst e1 e2
  exact ⟨b, s1, s1', tmp1, f1, s2, lp, s2', tmp2, s3, hb, h1, hf1, h2, hf2, h3, h4⟩

/-! ### the helper holds nothing after any transaction, re-entrant ones included -/

/-- the helper's books: it holds nothing and has created no flow (with the weight and flow invariants) -/
structure HInv (s : St) : Prop where
  winv : WInv s
  finv : FInv s
  empty : ∀ a, balOf s HELPER a = 0
  creators : ∀ f ∈ s.flows, f.creator ≠ HELPER

/-- the optional hook and the helper's books -/
theorem hookAt_helper {c : Cfg} {s s' : St} {e : Env} {hk : Hook} {k f0 f : Nat} {tmp tmp' : Tmp}
    (hW : WInv s) (hF : FInv s) (hcr : ∀ f ∈ s.flows, f.creator ≠ HELPER) (hks : hk.sender ≠ HELPER)
    (h : (if hk.trig = k then fire c s e hk tmp else pure (s, tmp, f0)) = .ok (s', tmp', f)) :
    WInv s' ∧ FInv s' ∧ (∀ f ∈ s'.flows, f.creator ≠ HELPER)
    ∧ (∀ a, a ≠ 0 → balOf s' HELPER a = balOf s HELPER a)
    ∧ (balOf s' HELPER 0 = balOf s HELPER 0 ∨ balOf s' HELPER 0 = 0) := by
  rcases hookAt_cases h with ⟨_, _, hst, _⟩ | ⟨_, _, hs', _⟩ | ⟨_, _, hs', _⟩
  · obtain ⟨r1, r2, r3⟩ := step_helper_row hW hF hst (show (hk.env e).sender ≠ HELPER from hks) hcr
    exact ⟨step_WInv hW hst, step_FInv hW hF hst, r3, r1, r2⟩
  · subst hs'; exact ⟨hW, hF, hcr, fun _ _ => rfl, Or.inl rfl⟩
  · subst hs'; exact ⟨hW, hF, hcr, fun _ _ => rfl, Or.inl rfl⟩

theorem reenterDeposit_HInv {c : Cfg} {s s' : St} {e : Env} {hk : Hook} {a0 a1 dur f : Nat} (hI : HInv s)
    (hs : e.sender ≠ HELPER) (hks : hk.sender ≠ HELPER) (h : reenterDeposit c s e hk a0 a1 dur = .ok (s', f)) :
    HInv s' := by
  obtain ⟨b, s1, s1', tmp1, f1, s2, lp, s2', tmp2, s3, hb, h1, hf1, h2, hf2, h3, h4⟩ := reenterDeposit_spec h
  -- shapes
  obtain ⟨b1, e1, _, _⟩ := hdPull_spec h1
  have hW1 : WInv s1 := by rw [e1]; exact hI.winv.with_bal b1
  have hF1 : FInv s1 := by rw [e1]; exact hI.finv.with_bal b1
  have hC1 : ∀ f ∈ s1.flows, f.creator ≠ HELPER := by rw [e1]; exact hI.creators
  obtain ⟨hW1', hF1', hC1', r1, r1z⟩ := hookAt_helper hW1 hF1 hC1 hks hf1
  obtain ⟨_, b2, e2, _, _, _, _⟩ := hdPair_spec h2
  have hW2 : WInv s2 := by rw [e2]; exact hW1'.with_bal b2
  have hF2 : FInv s2 := by rw [e2]; exact hF1'.with_bal b2
  have hC2 : ∀ f ∈ s2.flows, f.creator ≠ HELPER := by rw [e2]; exact hC1'
  obtain ⟨hW2', hF2', hC2', r2, r2z⟩ := hookAt_helper hW2 hF2 hC2 hks hf2
  obtain ⟨b3, e3, _⟩ := hdMint_spec h3
  have hW3 : WInv s3 := by rw [e3]; exact hW2'.with_bal b3
  have hF3 : FInv s3 := by rw [e3]; exact hF2'.with_bal b3
  have hC3 : ∀ f ∈ s3.flows, f.creator ≠ HELPER := by rw [e3]; exact hC2'
  obtain ⟨hW4, hF4⟩ := hdReply_inv hW3 hF3 h4
  refine ⟨hW4, hF4, ?_, by rw [hdReply_flows h4]; exact hC3⟩
  intro a
  -- the helper's balance of `a` through the transaction
  have t0 := attachFunds_eff (x := e.sender) (y := HELPER) HELPER a _ _ _ hb
  rw [if_neg (fun hh => hs hh.1), if_pos ⟨rfl, hs⟩] at t0
  have z := hI.empty a
  unfold balOf at z
  have p1 := hdPull_helper h1 hs a
  have p2 := hdPair_helper h2 a
  have p3 := hdMint_helper h3 a
  have p4 := hdReply_helper h4 a
  unfold balOf at p1 p2 p3 p4 r1 r1z r2 r2z ⊢
  simp only at p1
  by_cases ha : a = 0
  · subst ha
    rw [p4]; simp
  · rw [p4, if_neg ha, p3, if_neg ha, r2 a ha]
    have := r1 a ha
    omega

theorem step_HInv {c : Cfg} {s s' : St} {e : Env} {op : Op} (hI : HInv s) (hs : e.sender ≠ HELPER)
    (h : step c s e op = .ok s') : HInv s' := by
  obtain ⟨r1, r2, r3⟩ := step_helper_row hI.winv hI.finv h hs hI.creators
  refine ⟨step_WInv hI.winv h, step_FInv hI.winv hI.finv h, ?_, r3⟩
  intro a
  by_cases ha : a = 0
  · subst ha
    rcases r2 with r2 | r2
    · rw [r2]; exact hI.empty 0
    · exact r2
  · rw [r1 a ha]; exact hI.empty a

/-- the senders of a transaction: who sent it and, if the hostile token is armed, its account -/
def txSenders (e : Env) : Tx → List Addr
  | .plain _ => [e.sender]
  | .reenter hk _ => [e.sender, hk.sender]

theorem stepTx_HInv {c : Cfg} {s s' : St} {e : Env} {tx : Tx} {f : Nat} (hI : HInv s)
    (hs : ∀ u ∈ txSenders e tx, u ≠ HELPER) (h : stepTx c s e tx = .ok (s', f)) : HInv s' := by
  cases tx with
  | plain op =>
    unfold stepTx at h
    obtain ⟨t, ht, h⟩ := bind_eq_ok h
    injection h with h; injection h with h1 _
    subst h1
    exact step_HInv hI (hs e.sender (by simp [txSenders])) ht
  | reenter hk outer =>
    have hs1 : e.sender ≠ HELPER := hs e.sender (by simp [txSenders])
    have hs2 : hk.sender ≠ HELPER := hs hk.sender (by simp [txSenders])
    cases outer with
    | helperDeposit a0 a1 dur => exact reenterDeposit_HInv hI hs1 hs2 h
    | openPos _ _ _ | expandPos _ _ _ | closePos _ | withdraw | claim | snapshot | openFlow _ _ _ _
    | expandFlow _ _ _ _ | closeFlow _ | helperDepositAs _ _ _ _ _ =>
      unfold stepTx at h
      obtain ⟨t, ht, h⟩ := bind_eq_ok h
      injection h with h; injection h with h1 _
      subst h1
      exact step_HInv hI hs1 ht

theorem stepTxOrStay_HInv {c : Cfg} {s : St} {e : Env} {tx : Tx} (hI : HInv s)
    (hs : ∀ u ∈ txSenders e tx, u ≠ HELPER) : HInv (stepTxOrStay c s e tx) := by
  unfold stepTxOrStay
  split
  · rename_i r hr
    obtain ⟨s', f⟩ := r
    exact stepTx_HInv hI hs hr
  · exact hI

/-- nobody among the senders of the history is the helper itself (the helper sends no messages but its own) -/
def TxSendersAvoid (X : Addr) (txs : List (Env × Tx)) : Prop := ∀ p ∈ txs, ∀ u ∈ txSenders p.1 p.2, u ≠ X

theorem reachTx_HInv {c : Cfg} : ∀ (txs : List (Env × Tx)) (s : St), HInv s → TxSendersAvoid HELPER txs →
    HInv (reachTx c s txs) := by
  intro txs
  induction txs with
  | nil => intro s hI _; exact hI
  | cons p t ih =>
    intro s hI hs
    obtain ⟨e, tx⟩ := p
    exact ih _ (stepTxOrStay_HInv hI (hs (e, tx) List.mem_cons_self)) (fun q hq => hs q (List.mem_cons_of_mem _ hq))

theorem init_HInv (e0 : Nat) (bal : Bal) (h0 : ∀ a, aget bal (HELPER, a) = 0) : HInv (init e0 bal) :=
  ⟨init_WInv e0 bal, init_FInv e0 bal, h0, fun f hf => (by cases hf)⟩

/-! ### the custody equation through re-entrant transactions -/

theorem CInv.frame {s : St} {ep K : Nat} (h : CInv s ep K) (b : Bal) (hb : aget b (INC, 0) = aget s.bal (INC, 0)) :
    CInv { s with bal := b } ep K := by
  refine ⟨h.winv.with_bal b, h.finv.with_bal b, h.hist, h.creators, ?_⟩
  have := h.bal
  unfold balOf at this ⊢
  show aget b (INC, 0) = owed s 0 + K
  omega

theorem inc_ne_pair : INC ≠ PAIR := by decide

theorem hookAt_custody {c : Cfg} {s s' : St} {e : Env} {hk : Hook} {k f0 f K : Nat} {tmp tmp' : Tmp}
    (hI : CInv s e.epoch K) (hks : hk.sender ≠ INC) (hkn : (keysOf hk.offers).Nodup)
    (hk0 : strayOf c (hk.env e) hk.inner = 0)
    (h : (if hk.trig = k then fire c s e hk tmp else pure (s, tmp, f0)) = .ok (s', tmp', f)) :
    CInv s' e.epoch K := by
  rcases hookAt_cases h with ⟨_, _, hst, _⟩ | ⟨_, _, hs', _⟩ | ⟨_, _, hs', _⟩
  · have := step_custody (e := hk.env e) hI (show (hk.env e).sender ≠ INC from hks) hkn hst
    rw [hk0] at this
    exact this
  · subst hs'; exact hI
  · subst hs'; exact hI

theorem reenterDeposit_custody {c : Cfg} {s s' : St} {e : Env} {hk : Hook} {a0 a1 dur f K : Nat}
    (hI : CInv s e.epoch K) (hs : e.sender ≠ INC) (hks : hk.sender ≠ INC) (hkn : (keysOf hk.offers).Nodup)
    (hk0 : strayOf c (hk.env e) hk.inner = 0) (h : reenterDeposit c s e hk a0 a1 dur = .ok (s', f)) :
    CInv s' e.epoch K := by
  obtain ⟨b, s1, s1', tmp1, f1, s2, lp, s2', tmp2, s3, hb, h1, hf1, h2, hf2, h3, h4⟩ := reenterDeposit_spec h
  have hI0 : CInv ({ s with bal := b } : St) e.epoch K := by
    apply hI.frame
    have t := attachFunds_eff (x := e.sender) (y := HELPER) INC 0 _ _ _ hb
    rw [if_neg (fun hh => hs hh.1), if_neg (fun hh => helper_ne_inc hh.1)] at t
    omega
  have hI1 : CInv s1 e.epoch K := by
    have hrow := hdPull_other h1 INC (Ne.symm hs) inc_ne_helper 0
    obtain ⟨b1, e1, _, _⟩ := hdPull_spec h1
    subst e1
    exact hI0.frame b1 hrow
  have hI1' := hookAt_custody hI1 hks hkn hk0 hf1
  have hI2 : CInv s2 e.epoch K := by
    have hrow := hdPair_other h2 INC inc_ne_helper inc_ne_pair 0
    obtain ⟨_, b2, e2, _, _, _, _⟩ := hdPair_spec h2
    subst e2
    exact hI1'.frame b2 hrow
  have hI2' := hookAt_custody hI2 hks hkn hk0 hf2
  have hI3 : CInv s3 e.epoch K := by
    have hrow := hdMint_other h3 INC inc_ne_helper inc_ne_pair 0
    obtain ⟨b3, e3, _⟩ := hdMint_spec h3
    subst e3
    exact hI2'.frame b3 hrow
  exact hdReply_custody hI3 h4

/-- LP-denom funds attached to a transaction without being asked for: the plain op's, plus the nested op's -/
def strayTx (c : Cfg) (e : Env) : Tx → Nat
  | .plain op => strayOf c e op
  | .reenter hk outer => strayOf c (hk.env e) hk.inner + strayOf c e outer

/-- what every party of a transaction offers names each asset once -/
def txOffersOk (e : Env) : Tx → Prop
  | .plain _ => (keysOf e.offers).Nodup
  | .reenter hk _ => (keysOf e.offers).Nodup ∧ (keysOf hk.offers).Nodup

theorem stepTx_custody {c : Cfg} {s s' : St} {e : Env} {tx : Tx} {f K : Nat} (hI : CInv s e.epoch K)
    (hs : ∀ u ∈ txSenders e tx, u ≠ INC) (hn : txOffersOk e tx) (h0 : strayTx c e tx = 0)
    (h : stepTx c s e tx = .ok (s', f)) : CInv s' e.epoch K := by
  cases tx with
  | plain op =>
    unfold stepTx at h
    obtain ⟨t, ht, h⟩ := bind_eq_ok h
    injection h with h; injection h with h1 _
    subst h1
    have := step_custody hI (hs e.sender (by simp [txSenders])) hn ht
    have h0 : strayOf c e op = 0 := h0
    rw [h0] at this
    exact this
  | reenter hk outer =>
    have hs1 : e.sender ≠ INC := hs e.sender (by simp [txSenders])
    have hs2 : hk.sender ≠ INC := hs hk.sender (by simp [txSenders])
    have h0' : strayOf c (hk.env e) hk.inner + strayOf c e outer = 0 := h0
    cases outer with
    | helperDeposit a0 a1 dur => exact reenterDeposit_custody hI hs1 hs2 hn.2 (by omega) h
    | openPos _ _ _ | expandPos _ _ _ | closePos _ | withdraw | claim | snapshot | openFlow _ _ _ _
    | expandFlow _ _ _ _ | closeFlow _ | helperDepositAs _ _ _ _ _ =>
      unfold stepTx at h
      obtain ⟨t, ht, h⟩ := bind_eq_ok h
      injection h with h; injection h with h1 _
      subst h1
      have := step_custody hI hs1 hn.1 ht
      rw [show strayOf c e _ = 0 by omega] at this
      exact this

/-- epochs never go back along a history of transactions -/
def EpochsFromTx : Nat → List (Env × Tx) → Prop
  | _, [] => True
  | ep, p :: t => ep ≤ p.1.epoch ∧ EpochsFromTx p.1.epoch t

theorem reachTx_custody {c : Cfg} :
    ∀ (txs : List (Env × Tx)) (s : St) (ep K : Nat), CInv s ep K → TxSendersAvoid INC txs →
      (∀ p ∈ txs, txOffersOk p.1 p.2) → (∀ p ∈ txs, strayTx c p.1 p.2 = 0) → EpochsFromTx ep txs →
      ∃ ep', CInv (reachTx c s txs) ep' K := by
  intro txs
  induction txs with
  | nil => intro s ep K hI _ _ _ _; exact ⟨ep, hI⟩
  | cons p t ih =>
    intro s ep K hI hso hof hst hep
    obtain ⟨e, tx⟩ := p
    obtain ⟨hle, hep'⟩ := hep
    simp only at hle hep'
    have hI' := hI.mono hle
    have hso' : TxSendersAvoid INC t := fun q hq => hso q (List.mem_cons_of_mem _ hq)
    have hof' : ∀ q ∈ t, txOffersOk q.1 q.2 := fun q hq => hof q (List.mem_cons_of_mem _ hq)
    have hst' : ∀ q ∈ t, strayTx c q.1 q.2 = 0 := fun q hq => hst q (List.mem_cons_of_mem _ hq)
    show ∃ ep', CInv (reachTx c (stepTxOrStay c s e tx) t) ep' K
    unfold stepTxOrStay
    split
    · rename_i r hr
      obtain ⟨s', f⟩ := r
      exact ih s' e.epoch K (stepTx_custody hI' (hso (e, tx) List.mem_cons_self) (hof (e, tx) List.mem_cons_self)
        (hst (e, tx) List.mem_cons_self) hr) hso' hof' hst' hep'
    · exact ih s e.epoch K hI' hso' hof' hst' hep'

/-! ### a nested call that was refused (and caught), or never triggered, leaves no trace -/

theorem reenterDeposit_refused {c : Cfg} {s s' : St} {e : Env} {hk : Hook} {a0 a1 dur f : Nat}
    (h : reenterDeposit c s e hk a0 a1 dur = .ok (s', f)) (hf : f ≠ 1) :
    step c s e (.helperDeposit a0 a1 dur) = .ok s' := by
  obtain ⟨b, s1, s1', tmp1, f1, s2, lp, s2', tmp2, s3, hb, h1, hf1, h2, hf2, h3, h4⟩ := reenterDeposit_spec h
  -- neither hook changed anything
  have k2 : s2' = s2 ∧ tmp2 = tmp1 ∧ (hk.trig ≠ 2 → f = f1) := by
    rcases hookAt_cases hf2 with ⟨_, hh, _⟩ | ⟨_, _, hs', ht, _⟩ | ⟨hne, hff, hs', ht⟩
    · exact absurd hh hf
    · exact ⟨hs', ht, fun hne => absurd ‹hk.trig = 2› hne⟩
    · exact ⟨hs', ht, fun _ => hff⟩
  have k1 : s1' = s1 ∧ tmp1 = (e.sender, dur) := by
    rcases hookAt_cases hf1 with ⟨ht1, hh, _⟩ | ⟨_, _, hs', ht, _⟩ | ⟨_, _, hs', ht⟩
    · exfalso
      have : hk.trig ≠ 2 := by omega
      have := k2.2.2 this
      omega
    · exact ⟨hs', ht⟩
    · exact ⟨hs', ht⟩
  obtain ⟨k1a, k1b⟩ := k1
  obtain ⟨k2a, k2b, _⟩ := k2
  subst k1a k2a
  rw [k2b, k1b] at h4
  simp only at h4
  unfold step
  simp only
  rw [hb]; rw [Res.bind_ok]
  rw [helperDeposit_phases]
  unfold helperDepositP
  rw [h1]; rw [Res.bind_ok]
  rw [h2]; rw [Res.bind_ok]
  simp only
  rw [h3]; rw [Res.bind_ok]
  exact h4

/-! ### whom the reply credits -/

/-- amount of the open position with unbonding duration `d` (the first one; durations are unique), `0` if none -/
def amtAt : List OpenPos → Nat → Nat
  | [], _ => 0
  | p :: t, d => if p.dur = d then p.amt else amtAt t d

theorem amtAt_of_find {ps : List OpenPos} {d : Nat} {p : OpenPos}
    (h : ps.find? (fun p => decide (p.dur = d)) = some p) : amtAt ps d = p.amt := by
  induction ps with
  | nil => cases h
  | cons q t ih =>
    unfold amtAt
    by_cases hq : q.dur = d
    · rw [if_pos hq]
      rw [List.find?_cons_of_pos (by simpa using hq)] at h
      injection h with h; rw [h]
    · rw [if_neg hq]
      rw [List.find?_cons_of_neg (by simpa using hq)] at h
      exact ih h

theorem amtAt_of_not_any {ps : List OpenPos} {d : Nat} (h : ps.any (fun p => decide (p.dur = d)) = false) :
    amtAt ps d = 0 := by
  induction ps with
  | nil => rfl
  | cons q t ih =>
    simp only [List.any_cons, Bool.or_eq_false_iff, decide_eq_false_iff_not] at h
    unfold amtAt
    rw [if_neg h.1]
    exact ih h.2

theorem amtAt_append_new (ps : List OpenPos) (d d' amt : Nat) :
    amtAt (ps ++ [{ dur := d, amt := amt }]) d' = if (ps.any (fun p => decide (p.dur = d'))) = true then amtAt ps d'
      else (if d = d' then amt else 0) := by
  induction ps with
  | nil => simp [amtAt]
  | cons q t ih =>
    simp only [List.cons_append, amtAt, List.any_cons]
    by_cases hq : q.dur = d'
    · simp [hq]
    · simp only [hq, if_false, decide_false, Bool.false_or]
      exact ih

theorem amtAt_map_bump (ps : List OpenPos) (d d' newAmt : Nat) :
    amtAt (ps.map (fun q => if q.dur = d then { q with amt := newAmt } else q)) d'
      = if d = d' ∧ (ps.any (fun p => decide (p.dur = d))) = true then newAmt else amtAt ps d' := by
  induction ps with
  | nil => simp [amtAt]
  | cons q t ih =>
    simp only [List.map_cons, amtAt, List.any_cons]
    by_cases hq : q.dur = d
    · by_cases hd : d = d'
      · subst hd; simp [hq]
      · have : ¬ q.dur = d' := fun hh => hd (hq ▸ hh)
        simp only [hq, if_true, this, if_false, hd, false_and]
        rw [ih]; simp [hd]
    · simp only [hq, if_false]
      by_cases hq' : q.dur = d'
      · have : ¬ d = d' := fun hh => hq (hh ▸ hq')
        simp [hq', this]
      · simp only [hq', if_false, decide_false, Bool.false_or]
        exact ih

/-- the position message of the reply: the receiver's position of that duration grows by exactly the amount,
    nothing else among the positions moves -/
theorem replyPos_position {c : Cfg} {s s' : St} {e : Env} {amount dur : Nat} {u : Addr} {msgs : List Msg}
    (h : (if (openOf s u).any (fun p => p.dur = dur) then expandPosition c s e amount dur (some u)
          else openPosition c s e amount dur (some u)) = .ok (s', msgs)) :
    amtAt (openOf s' u) dur = amtAt (openOf s u) dur + amount
    ∧ (∀ d, d ≠ dur → amtAt (openOf s' u) d = amtAt (openOf s u) d)
    ∧ (∀ v, v ≠ u → openOf s' v = openOf s v)
    ∧ s'.closedPos = s.closedPos := by
  split at h
  · rename_i hany
    unfold expandPosition at h
    obtain ⟨m, hm, h⟩ := bind_eq_ok h
    dsimp only at h
    split at h
    · cases h
    · rename_i ps hps
      split at h
      · cases h
      · rename_i p hp
        obtain ⟨newAmt, hna, h⟩ := bind_eq_ok h
        obtain ⟨_, _, h⟩ := bind_eq_ok h
        obtain ⟨_, _, h⟩ := bind_eq_ok h
        obtain ⟨_, _, h⟩ := bind_eq_ok h
        obtain ⟨_, _, h⟩ := bind_eq_ok h
        obtain ⟨s2, hs2, h⟩ := bind_eq_ok h
        injection h with h
        injection h with h1 h2
        subst h1 h2
        obtain ⟨a1, _, _, a4, _, _⟩ := addWeight_spec hs2
        simp only at a1 a4
        obtain ⟨hna1, _⟩ := padd_eq_ok hna
        have hps' : alook s.openPos u = some ps := hps
        have hops : openOf s u = ps := openOf_of_alook hps'
        have hnew : openOf s2 u = ps.map (fun q => if q.dur = dur then { q with amt := newAmt } else q) := by
          show (alook s2.openPos u).getD [] = _
          rw [a1]
          show (alook (aset s.openPos u _) u).getD [] = _
          rw [alook_aset_same]; rfl
        have hany' : (ps.any (fun p => decide (p.dur = dur))) = true := by rw [← hops]; exact hany
        refine ⟨?_, ?_, ?_, a4⟩
        · rw [hnew, hops, amtAt_map_bump, if_pos ⟨rfl, hany'⟩, amtAt_of_find hp, hna1]
        · intro d hd
          rw [hnew, hops, amtAt_map_bump, if_neg (fun hh => hd hh.1.symm)]
        · intro v hv
          show (alook s2.openPos v).getD [] = _
          rw [a1]
          show (alook (aset s.openPos u _) v).getD [] = _
          rw [alook_aset_other _ _ hv]; rfl
  · rename_i hany
    have hany' : ((openOf s u).any (fun p => decide (p.dur = dur))) = false := by simpa using hany
    obtain ⟨_, _, r3, r4⟩ := openPosition_receipt h
    simp only [Option.getD_some] at r3 r4
    have hcl : s'.closedPos = s.closedPos := by
      unfold openPosition at h
      obtain ⟨_, _, h⟩ := bind_eq_ok h
      obtain ⟨_, _, h⟩ := bind_eq_ok h
      dsimp only at h
      obtain ⟨_, _, h⟩ := bind_eq_ok h
      obtain ⟨_, _, h⟩ := bind_eq_ok h
      obtain ⟨s2, hs2, h⟩ := bind_eq_ok h
      injection h with h
      injection h with h1 _
      subst h1
      obtain ⟨_, _, _, a4, _, _⟩ := addWeight_spec hs2
      exact a4
    refine ⟨?_, ?_, r4, hcl⟩
    · rw [r3, amtAt_append_new, hany', amtAt_of_not_any hany']; simp
    · intro d hd
      rw [r3, amtAt_append_new]
      split
      · rfl
      · rename_i hn
        rw [if_neg (fun hh => hd hh.symm)]
        have : ((openOf s u).any (fun p => decide (p.dur = d))) = false := by simpa using hn
        rw [amtAt_of_not_any this]

/-- **the reply credits the receiver it finds in `TEMP_STATE`**: that address's position of that duration grows
    by exactly the helper's LP balance; no other position of anybody moves, no closed position moves -/
theorem hdReply_position {c : Cfg} {s s' : St} {e : Env} {u : Addr} {dur : Nat} (h : hdReply c s e u dur = .ok s') :
    amtAt (openOf s' u) dur = amtAt (openOf s u) dur + balOf s HELPER 0
    ∧ (∀ d, d ≠ dur → amtAt (openOf s' u) d = amtAt (openOf s u) d)
    ∧ (∀ v, v ≠ u → openOf s' v = openOf s v)
    ∧ s'.closedPos = s.closedPos := by
  obtain ⟨b2, s3, msgs, b3, _, h3, _, hs'⟩ := hdReply_spec h
  subst hs'
  have r := replyPos_position (s := { s with bal := b2 }) (s' := s3) (e := { e with sender := HELPER, offers := [(0, aget s.bal (HELPER, 0))] })
    (amount := aget s.bal (HELPER, 0)) (msgs := msgs) h3
  exact r

/-- **a plain helper deposit credits its sender**: from a state in which the helper holds no LP, the depositor's
    position of the stated duration is opened / grows by exactly the LP minted, `a0 + a1`; nothing else among the
    positions moves -/
theorem step_helperDeposit_credits {c : Cfg} {s s' : St} {e : Env} {a0 a1 dur : Nat} (hs : e.sender ≠ HELPER)
    (h0 : balOf s HELPER 0 = 0) (h : step c s e (.helperDeposit a0 a1 dur) = .ok s') :
    amtAt (openOf s' e.sender) dur = amtAt (openOf s e.sender) dur + (a0 + a1)
    ∧ (∀ d, d ≠ dur → amtAt (openOf s' e.sender) d = amtAt (openOf s e.sender) d)
    ∧ (∀ v, v ≠ e.sender → openOf s' v = openOf s v)
    ∧ s'.closedPos = s.closedPos := by
  unfold step at h
  simp only at h
  obtain ⟨b, hb, h⟩ := bind_eq_ok h
  rw [helperDeposit_phases] at h
  unfold helperDepositP at h
  obtain ⟨s1, h1, h⟩ := bind_eq_ok h
  obtain ⟨⟨s2, lp⟩, h2, h⟩ := bind_eq_ok h
  dsimp only at h
  obtain ⟨s3, h3, h4⟩ := bind_eq_ok h
  have t0 := attachFunds_eff (x := e.sender) (y := HELPER) HELPER 0 _ _ _ hb
  rw [if_neg (fun hh => hs hh.1), if_pos ⟨rfl, hs⟩] at t0
  have p1 := hdPull_helper h1 hs 0
  have p2 := hdPair_helper h2 0
  have p3 := hdMint_helper h3 0
  obtain ⟨b1, e1, _, _⟩ := hdPull_spec h1
  obtain ⟨_, b2, e2, hlp, _, _, _⟩ := hdPair_spec h2
  obtain ⟨b3, e3, _⟩ := hdMint_spec h3
  have hrow : balOf s3 HELPER 0 = a0 + a1 := by
    rw [if_neg (by decide)] at p1 p2
    rw [if_pos rfl] at p3
    unfold balOf at h0 p1 p2 p3 ⊢
    simp only at p1 p2 p3
    omega
  have r := hdReply_position h4
  rw [hrow] at r
  have hop : s3.openPos = s.openPos := by rw [e3, e2, e1]
  have hcl : s3.closedPos = s.closedPos := by rw [e3, e2, e1]
  have hopen : ∀ v, openOf s3 v = openOf s v := fun v => by unfold openOf; rw [hop]
  obtain ⟨r1, r2, r3, r4⟩ := r
  refine ⟨by rw [r1, hopen], fun d hd => by rw [r2 d hd, hopen], fun v hv => by rw [r3 v hv, hopen], by rw [r4, hcl]⟩

/-- **what the reply of a re-entrant deposit does**: it runs in a state `t` in which the helper holds exactly the
    LP minted for THIS deposit, `a0 + a1`, and stakes it for the receiver and duration `tmp` found in `TEMP_STATE`:
    the depositor's own, unless a nested deposit went through — then the nested sender's (`tmpAfter`). The positions
    in `t` are those before the transaction, or those the nested operation left. -/
theorem reenterDeposit_reply {c : Cfg} {s s' : St} {e : Env} {hk : Hook} {a0 a1 dur f : Nat} (hI : HInv s)
    (hs : e.sender ≠ HELPER) (hks : hk.sender ≠ HELPER) (h : reenterDeposit c s e hk a0 a1 dur = .ok (s', f)) :
    ∃ (t : St) (tmp : Tmp), hdReply c t e tmp.1 tmp.2 = .ok s' ∧ balOf t HELPER 0 = a0 + a1
      ∧ ((f = 1 ∧ tmp = tmpAfter hk (e.sender, dur)
            ∧ ∃ t0 t1, t0.openPos = s.openPos ∧ t0.closedPos = s.closedPos
                ∧ step c t0 (hk.env e) hk.inner = .ok t1 ∧ t.openPos = t1.openPos ∧ t.closedPos = t1.closedPos)
         ∨ (f ≠ 1 ∧ tmp = (e.sender, dur) ∧ t.openPos = s.openPos ∧ t.closedPos = s.closedPos)) := by
  obtain ⟨b, s1, s1', tmp1, f1, s2, lp, s2', tmp2, s3, hb, h1, hf1, h2, hf2, h3, h4⟩ := reenterDeposit_spec h
  obtain ⟨b1, e1, _, _⟩ := hdPull_spec h1
  have hW1 : WInv s1 := by rw [e1]; exact hI.winv.with_bal b1
  have hF1 : FInv s1 := by rw [e1]; exact hI.finv.with_bal b1
  have hC1 : ∀ f ∈ s1.flows, f.creator ≠ HELPER := by rw [e1]; exact hI.creators
  obtain ⟨hW1', hF1', hC1', _, r1z⟩ := hookAt_helper hW1 hF1 hC1 hks hf1
  obtain ⟨_, b2, e2, hlp, _, _, _⟩ := hdPair_spec h2
  have hW2 : WInv s2 := by rw [e2]; exact hW1'.with_bal b2
  have hF2 : FInv s2 := by rw [e2]; exact hF1'.with_bal b2
  have hC2 : ∀ f ∈ s2.flows, f.creator ≠ HELPER := by rw [e2]; exact hC1'
  obtain ⟨_, _, _, _, r2z⟩ := hookAt_helper hW2 hF2 hC2 hks hf2
  obtain ⟨b3, e3, _⟩ := hdMint_spec h3
  have hrow : balOf s3 HELPER 0 = a0 + a1 := by
    have t0 := attachFunds_eff (x := e.sender) (y := HELPER) HELPER 0 _ _ _ hb
    rw [if_neg (fun hh => hs hh.1), if_pos ⟨rfl, hs⟩] at t0
    have z := hI.empty 0
    have p1 := hdPull_helper h1 hs 0
    have p2 := hdPair_helper h2 0
    have p3 := hdMint_helper h3 0
    rw [if_neg (by decide)] at p1 p2
    rw [if_pos rfl] at p3
    unfold balOf at z p1 p2 p3 r1z r2z ⊢
    simp only at p1 p2 p3
    omega
  refine ⟨s3, tmp2, h4, hrow, ?_⟩
  have o3 : s3.openPos = s2'.openPos ∧ s3.closedPos = s2'.closedPos := by rw [e3]; exact ⟨rfl, rfl⟩
  have o2 : s2.openPos = s1'.openPos ∧ s2.closedPos = s1'.closedPos := by rw [e2]; exact ⟨rfl, rfl⟩
  have o1 : s1.openPos = s.openPos ∧ s1.closedPos = s.closedPos := by rw [e1]; exact ⟨rfl, rfl⟩
  rcases hookAt_cases hf1 with ⟨ht1, hh1, hst1, htm1⟩ | ⟨ht1, hh1, hs1', htm1, _⟩ | ⟨ht1, hh1, hs1', htm1⟩
  · -- fired inside the helper's pull
    rcases hookAt_cases hf2 with ⟨ht2, _, _, _⟩ | ⟨ht2, _, _, _, _⟩ | ⟨_, hh2, hs2', htm2⟩
    · omega
    · omega
    · left
      refine ⟨by omega, by rw [htm2, htm1], s1, s1', o1.1, o1.2, hst1, ?_, ?_⟩
      · rw [o3.1, hs2', o2.1]
      · rw [o3.2, hs2', o2.2]
  · -- refused and caught inside the helper's pull
    rcases hookAt_cases hf2 with ⟨ht2, _, _, _⟩ | ⟨ht2, _, _, _, _⟩ | ⟨_, hh2, hs2', htm2⟩
    · omega
    · omega
    · right
      refine ⟨by omega, by rw [htm2, htm1], ?_, ?_⟩
      · rw [o3.1, hs2', o2.1, hs1', o1.1]
      · rw [o3.2, hs2', o2.2, hs1', o1.2]
  · -- not triggered inside the helper's pull
    rcases hookAt_cases hf2 with ⟨_, hh2, hst2, htm2⟩ | ⟨_, hh2, hs2', htm2, _⟩ | ⟨_, hh2, hs2', htm2⟩
    · left
      refine ⟨hh2, by rw [htm2, htm1], s2, s2', ?_, ?_, hst2, o3.1, o3.2⟩
      · rw [o2.1, hs1', o1.1]
      · rw [o2.2, hs1', o1.2]
    · right
      refine ⟨by omega, by rw [htm2, htm1], ?_, ?_⟩
      · rw [o3.1, hs2', o2.1, hs1', o1.1]
      · rw [o3.2, hs2', o2.2, hs1', o1.2]
    · right
      refine ⟨by omega, by rw [htm2, htm1], ?_, ?_⟩
      · rw [o3.1, hs2', o2.1, hs1', o1.1]
      · rw [o3.2, hs2', o2.2, hs1', o1.2]

end WW.Inc
