/- The whale lair's `calculate_epoch` (used for `first_bonded_epoch_id` in its `Bonded` query) against
   the clock: discharges the hypothesis `bondTime < genesis + fb · duration` of
   `WW.C09.not_before_bonding_time` from the lair's own code. -/
import WW.Model.Lair
import WW.Proofs.Quotes
namespace WW.Lair
open WW

/-- `calculate_epoch(t) = fb` puts `t` strictly before the start of epoch `fb + 1`, i.e. before
    `genesis + fb · duration` (for a time before genesis it answers 0) -/
theorem calcEpoch_lt {cfg : Cfg} {t fb : Nat} (h : calcEpoch cfg t = .ok fb) :
    t < cfg.genesis + fb * cfg.epochDur := by
  unfold calcEpoch at h
  split at h
  · rename_i hlt
    injection h with h
    subst h
    simpa using hlt
  · rename_i hge
    obtain ⟨q, e1, h⟩ := Res.bind_eq_ok h
    obtain ⟨_, hfb⟩ := cadd_eq_ok h
    have hd : cfg.epochDur ≠ 0 ∧ q = (t - cfg.genesis) / cfg.epochDur := by
      unfold cdiv at e1
      split at e1
      · cases e1
      · injection e1 with e1; exact ⟨by assumption, e1.symm⟩
    obtain ⟨hd0, hq⟩ := hd
    subst hfb hq
    have hpos : 0 < cfg.epochDur := Nat.pos_of_ne_zero hd0
    have := Nat.lt_div_mul_add (a := t - cfg.genesis) hpos
    have hmul : ((t - cfg.genesis) / cfg.epochDur + 1) * cfg.epochDur
        = (t - cfg.genesis) / cfg.epochDur * cfg.epochDur + cfg.epochDur := by
      rw [Nat.add_mul, Nat.one_mul]
    omega

/-- … and not before the start of epoch `fb` itself when `fb ≥ 1` -/
theorem calcEpoch_ge {cfg : Cfg} {t fb : Nat} (h : calcEpoch cfg t = .ok fb) (h1 : 1 ≤ fb) :
    cfg.genesis + (fb - 1) * cfg.epochDur ≤ t := by
  unfold calcEpoch at h
  split at h
  · injection h with h; omega
  · rename_i hge
    obtain ⟨q, e1, h⟩ := Res.bind_eq_ok h
    obtain ⟨_, hfb⟩ := cadd_eq_ok h
    have hq : q = (t - cfg.genesis) / cfg.epochDur := by
      unfold cdiv at e1
      split at e1
      · cases e1
      · injection e1 with e1; exact e1.symm
    subst hfb hq
    have := Nat.div_mul_le_self (t - cfg.genesis) cfg.epochDur
    have e : (t - cfg.genesis) / cfg.epochDur + 1 - 1 = (t - cfg.genesis) / cfg.epochDur := by omega
    rw [e]
    omega

end WW.Lair
