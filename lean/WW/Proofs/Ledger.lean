/- Token-ledger bookkeeping for the incentive model: what a list of messages / attached funds does to
   the balance of one account in one asset (used by C11 custody and C12 backing). -/
import WW.Proofs.Snapshot
import WW.Proofs.ClaimQuery
namespace WW.Inc
open WW WW.Gen

/-- what message `m` brings into the balance of account `X` in asset `a` (a self-transfer brings nothing) -/
def msgIn (X : Addr) (a : Nat) : Msg → Nat
  | .send src dst a' amt => if dst = X ∧ src ≠ X ∧ a' = a then amt else 0
  | .pull src dst a' amt => if dst = X ∧ src ≠ X ∧ a' = a then amt else 0

/-- what message `m` takes out of the balance of account `X` in asset `a` -/
def msgOut (X : Addr) (a : Nat) : Msg → Nat
  | .send src dst a' amt => if src = X ∧ dst ≠ X ∧ a' = a then amt else 0
  | .pull src dst a' amt => if src = X ∧ dst ≠ X ∧ a' = a then amt else 0

def insOf (X : Addr) (a : Nat) : List Msg → Nat
  | [] => 0
  | m :: t => msgIn X a m + insOf X a t

def outsOf (X : Addr) (a : Nat) : List Msg → Nat
  | [] => 0
  | m :: t => msgOut X a m + outsOf X a t

theorem insOf_append (X : Addr) (a : Nat) (l1 l2 : List Msg) :
    insOf X a (l1 ++ l2) = insOf X a l1 + insOf X a l2 := by
  induction l1 with
  | nil => simp [insOf]
  | cons m t ih => simp only [List.cons_append, insOf, ih]; omega

theorem outsOf_append (X : Addr) (a : Nat) (l1 l2 : List Msg) :
    outsOf X a (l1 ++ l2) = outsOf X a l1 + outsOf X a l2 := by
  induction l1 with
  | nil => simp [outsOf]
  | cons m t ih => simp only [List.cons_append, outsOf, ih]; omega

/-- native funds of asset `a` in a funds list -/
def att (c : Cfg) (a : Nat) : List (Nat × Nat) → Nat
  | [] => 0
  | p :: t => (if c.native p.1 = true ∧ p.1 = a then p.2 else 0) + att c a t

/-- one transfer, seen from account `X` in asset `a` -/
theorem moveBal_eff {b : Bal} {src dst : Addr} {a' amt : Nat} (X : Addr) (a : Nat)
    (hle : amt ≤ aget b (src, a')) :
    aget (moveBal b src dst a' amt) (X, a) + (if src = X ∧ dst ≠ X ∧ a' = a then amt else 0)
      = aget b (X, a) + (if dst = X ∧ src ≠ X ∧ a' = a then amt else 0) := by
  by_cases hsd : src = dst
  · subst hsd
    have h1 : ¬ (src = X ∧ src ≠ X ∧ a' = a) := fun h => h.2.1 h.1
    rw [if_neg h1]
    unfold moveBal
    simp only
    by_cases hk : (X, a) = (src, a')
    · rw [hk, aget_aset_same, aget_aset_same]; omega
    · rw [aget_aset_other _ _ hk, aget_aset_other _ _ hk]
  · by_cases hs : (X, a) = (src, a')
    · injection hs with hs1 hs2
      subst hs1 hs2
      rw [moveBal_src hsd]
      have h1 : (X = X ∧ dst ≠ X ∧ a = a) := ⟨rfl, fun h => hsd h.symm, rfl⟩
      have h2 : ¬ (dst = X ∧ X ≠ X ∧ a = a) := fun h => h.2.1 rfl
      rw [if_pos h1, if_neg h2]; omega
    · by_cases hd : (X, a) = (dst, a')
      · injection hd with hd1 hd2
        subst hd1 hd2
        rw [moveBal_dst hsd]
        have h1 : ¬ (src = X ∧ X ≠ X ∧ a = a) := fun h => h.2.1 rfl
        have h2 : (X = X ∧ src ≠ X ∧ a = a) := ⟨rfl, hsd, rfl⟩
        rw [if_neg h1, if_pos h2]; omega
      · rw [moveBal_other hs hd]
        have h1 : ¬ (src = X ∧ dst ≠ X ∧ a' = a) := fun h => hs (by rw [h.1, h.2.2])
        have h2 : ¬ (dst = X ∧ src ≠ X ∧ a' = a) := fun h => hd (by rw [h.1, h.2.2])
        rw [if_neg h1, if_neg h2]

theorem applyMsg_eff {c : Cfg} {b b' : Bal} {al al' : List (Nat × Nat)} {m : Msg} (X : Addr) (a : Nat)
    (h : applyMsg c b al m = .ok (b', al')) :
    aget b' (X, a) + msgOut X a m = aget b (X, a) + msgIn X a m := by
  cases m with
  | send src dst a' amt =>
    unfold applyMsg at h
    simp only at h
    split at h
    · split at h
      · cases h
      · split at h
        · cases h
        · injection h with h; injection h with h1 h2
          subst h1
          exact moveBal_eff X a (by omega)
    · split at h
      · cases h
      · split at h
        · cases h
        · injection h with h; injection h with h1 h2
          subst h1
          exact moveBal_eff X a (by omega)
  | pull src dst a' amt =>
    unfold applyMsg at h
    simp only at h
    split at h
    · cases h
    · split at h
      · cases h
      · split at h
        · cases h
        · split at h
          · cases h
          · injection h with h; injection h with h1 h2
            subst h1
            exact moveBal_eff X a (by omega)

theorem applyMsgs_eff {c : Cfg} (X : Addr) (a : Nat) :
    ∀ (msgs : List Msg) (b b' : Bal) (al : List (Nat × Nat)), applyMsgs c b al msgs = .ok b' →
      aget b' (X, a) + outsOf X a msgs = aget b (X, a) + insOf X a msgs := by
  intro msgs
  induction msgs with
  | nil =>
    intro b b' al h
    unfold applyMsgs at h
    injection h with h; subst h; rfl
  | cons m t ih =>
    intro b b' al h
    unfold applyMsgs at h
    split at h
    · rename_i b1 al1 hm
      have h1 := applyMsg_eff X a hm
      have h2 := ih b1 b' al1 h
      simp only [outsOf, insOf]
      omega
    · cases h
    · cases h

/-- funds attached by `x` to a call of `y`, seen from account `X` in asset `a` -/
theorem attachFunds_eff {c : Cfg} {x y : Addr} (X : Addr) (a : Nat) :
    ∀ (funds : List (Nat × Nat)) (b b' : Bal), attachFunds c b x y funds = .ok b' →
      aget b' (X, a) + (if x = X ∧ y ≠ X then att c a funds else 0)
        = aget b (X, a) + (if y = X ∧ x ≠ X then att c a funds else 0) := by
  intro funds
  induction funds with
  | nil =>
    intro b b' h
    unfold attachFunds at h
    injection h with h; subst h
    simp [att]
  | cons p t ih =>
    intro b b' h
    obtain ⟨a', v⟩ := p
    unfold attachFunds at h
    split at h
    · rename_i hn
      split at h
      · cases h
      · rename_i hle
        have h1 := ih _ _ h
        have h2 := moveBal_eff (b := b) (src := x) (dst := y) (a' := a') (amt := v) X a (by omega)
        simp only [att, hn, true_and]
        by_cases hx : x = X ∧ y ≠ X
        · have hy : ¬ (y = X ∧ x ≠ X) := fun hh => hx.2 hh.1
          rw [if_pos hx, if_neg hy] at h1
          rw [if_pos hx, if_neg hy]
          by_cases ha : a' = a
          · have e1 : (x = X ∧ y ≠ X ∧ a' = a) := ⟨hx.1, hx.2, ha⟩
            have e2 : ¬ (y = X ∧ x ≠ X ∧ a' = a) := fun hh => hx.2 hh.1
            rw [if_pos e1, if_neg e2] at h2
            rw [if_pos ha]; omega
          · have e1 : ¬ (x = X ∧ y ≠ X ∧ a' = a) := fun hh => ha hh.2.2
            have e2 : ¬ (y = X ∧ x ≠ X ∧ a' = a) := fun hh => ha hh.2.2
            rw [if_neg e1, if_neg e2] at h2
            rw [if_neg ha]; omega
        · rw [if_neg hx] at h1
          rw [if_neg hx]
          have e1 : ¬ (x = X ∧ y ≠ X ∧ a' = a) := fun hh => hx ⟨hh.1, hh.2.1⟩
          rw [if_neg e1] at h2
          by_cases hy : y = X ∧ x ≠ X
          · rw [if_pos hy] at h1
            rw [if_pos hy]
            by_cases ha : a' = a
            · have e2 : (y = X ∧ x ≠ X ∧ a' = a) := ⟨hy.1, hy.2, ha⟩
              rw [if_pos e2] at h2
              rw [if_pos ha]; omega
            · have e2 : ¬ (y = X ∧ x ≠ X ∧ a' = a) := fun hh => ha hh.2.2
              rw [if_neg e2] at h2
              rw [if_neg ha]; omega
          · rw [if_neg hy] at h1
            rw [if_neg hy]
            have e2 : ¬ (y = X ∧ x ≠ X ∧ a' = a) := fun hh => hy ⟨hh.1, hh.2.1⟩
            rw [if_neg e2] at h2
            omega
    · rename_i hn
      have h1 := ih _ _ h
      have : att c a ((a', v) :: t) = att c a t := by
        simp only [att]
        have : ¬ (c.native a' = true ∧ a' = a) := fun hh => hn hh.1
        rw [if_neg this]; omega
      rw [this]; exact h1

end WW.Inc
