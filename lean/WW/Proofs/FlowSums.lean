/- Sums over the flows and over the position maps of the incentive model, and the flow-list
   bookkeeping (`insertFlow` / `removeFlow` / `findFlow`) they need (C11, C12). -/
import WW.Proofs.Ledger
namespace WW.Inc
open WW WW.Gen

/-! ### sums over an association list -/

def sumBy {κ α : Type} (f : α → Nat) : List (κ × α) → Nat
  | [] => 0
  | p :: t => f p.2 + sumBy f t

theorem sumBy_aset {κ α : Type} [DecidableEq κ] (f : α → Nat) {d : α} (hd : f d = 0)
    (l : List (κ × α)) (k : κ) (v : α) :
    sumBy f (aset l k v) + f ((alook l k).getD d) = sumBy f l + f v := by
  induction l with
  | nil => simp [aset, sumBy, alook, hd]
  | cons p t ih =>
    obtain ⟨k', v'⟩ := p
    by_cases h : k' = k
    · simp [aset, sumBy, alook, h]; omega
    · simp only [aset, h, if_false, sumBy, alook]
      omega

/-- everything staked: the open and the closed positions of all addresses -/
def staked (s : St) : Nat := sumBy openSum s.openPos + sumBy closedSum s.closedPos

theorem closedSum_append (a b : List ClosedPos) : closedSum (a ++ b) = closedSum a + closedSum b := by
  induction a with
  | nil => simp [closedSum]
  | cons p t ih => simp only [List.cons_append, closedSum, ih]; omega

/-! ### the flows' unclaimed funds per asset -/

/-- unclaimed funds of flow `f` if it is denominated in asset `a` -/
def contrib (a : Nat) (f : Flow) : Nat := if f.asset = a then f.funded - f.claimed else 0

def ffSum (a : Nat) : List Flow → Nat
  | [] => 0
  | f :: t => contrib a f + ffSum a t

theorem ffSum_eq (a : Nat) (l : List Flow) :
    ffSum a l = ((l.filter (fun f => f.asset = a)).map (fun f => f.funded - f.claimed)).sum := by
  induction l with
  | nil => rfl
  | cons f t ih =>
    by_cases h : f.asset = a
    · simp [ffSum, contrib, h, ih]
    · simp [ffSum, contrib, h, ih]

theorem ffSum_insertFlow (a : Nat) (f : Flow) (l : List Flow) :
    ffSum a (insertFlow f l) = contrib a f + ffSum a l := by
  induction l with
  | nil => rfl
  | cons g t ih =>
    unfold insertFlow
    split
    · rfl
    · simp only [ffSum, ih]; omega

theorem mem_insertFlow {f g : Flow} {l : List Flow} : g ∈ insertFlow f l ↔ g = f ∨ g ∈ l := by
  induction l with
  | nil => simp [insertFlow]
  | cons x t ih =>
    unfold insertFlow
    split
    · simp
    · simp only [List.mem_cons, ih]
      constructor
      · rintro (h | h | h)
        · exact Or.inr (Or.inl h)
        · exact Or.inl h
        · exact Or.inr (Or.inr h)
      · rintro (h | h | h)
        · exact Or.inr (Or.inl h)
        · exact Or.inl h
        · exact Or.inr (Or.inr h)

def flowIds (l : List Flow) : List Nat := l.map (·.id)

theorem mem_flowIds_insertFlow {f : Flow} {l : List Flow} {i : Nat} :
    i ∈ flowIds (insertFlow f l) ↔ i = f.id ∨ i ∈ flowIds l := by
  unfold flowIds
  simp only [List.mem_map, mem_insertFlow]
  constructor
  · rintro ⟨g, hg | hg, rfl⟩
    · exact Or.inl (by rw [hg])
    · exact Or.inr ⟨g, hg, rfl⟩
  · rintro (h | ⟨g, hg, rfl⟩)
    · exact ⟨f, Or.inl rfl, h.symm⟩
    · exact ⟨g, Or.inr hg, rfl⟩

theorem nodup_insertFlow {f : Flow} {l : List Flow} (hn : (flowIds l).Nodup) (hf : f.id ∉ flowIds l) :
    (flowIds (insertFlow f l)).Nodup := by
  induction l with
  | nil => simp [insertFlow, flowIds]
  | cons g t ih =>
    unfold insertFlow
    split
    · simp only [flowIds, List.map_cons, List.nodup_cons] at hn hf ⊢
      exact ⟨by simpa using hf, hn⟩
    · have hn' : (flowIds t).Nodup := by
        simp only [flowIds, List.map_cons, List.nodup_cons] at hn; exact hn.2
      have hg : g.id ∉ flowIds t := by
        simp only [flowIds, List.map_cons, List.nodup_cons] at hn; exact hn.1
      have hf' : f.id ∉ flowIds t := by
        intro h; apply hf; simp only [flowIds, List.map_cons, List.mem_cons]; exact Or.inr h
      have hfg : g.id ≠ f.id := by
        intro h; apply hf; simp only [flowIds, List.map_cons, List.mem_cons]; exact Or.inl h.symm
      show (flowIds (g :: insertFlow f t)).Nodup
      simp only [flowIds, List.map_cons, List.nodup_cons]
      refine ⟨?_, ih hn' hf'⟩
      intro hm
      rcases (mem_flowIds_insertFlow (f := f) (l := t) (i := g.id)).mp hm with h | h
      · exact hfg h
      · exact hg h

theorem mem_removeFlow {g : Flow} {l : List Flow} {id : Nat} : g ∈ removeFlow l id ↔ g ∈ l ∧ g.id ≠ id := by
  unfold removeFlow
  simp [List.mem_filter]

theorem not_mem_flowIds_removeFlow (l : List Flow) (id : Nat) : id ∉ flowIds (removeFlow l id) := by
  unfold flowIds
  intro h
  obtain ⟨g, hg, hid⟩ := List.mem_map.mp h
  exact (mem_removeFlow.mp hg).2 hid

theorem nodup_removeFlow {l : List Flow} (id : Nat) (hn : (flowIds l).Nodup) :
    (flowIds (removeFlow l id)).Nodup := by
  induction l with
  | nil => simp [removeFlow, flowIds]
  | cons g t ih =>
    simp only [flowIds, List.map_cons, List.nodup_cons] at hn
    unfold removeFlow
    by_cases h : g.id ≠ id
    · rw [List.filter_cons_of_pos (by simpa using h)]
      simp only [flowIds, List.map_cons, List.nodup_cons]
      refine ⟨?_, ih hn.2⟩
      intro hm
      apply hn.1
      obtain ⟨x, hx, hxe⟩ := List.mem_map.mp hm
      exact List.mem_map.mpr ⟨x, (List.mem_filter.mp hx).1, hxe⟩
    · rw [List.filter_cons_of_neg (by simpa using h)]
      exact ih hn.2

theorem findFlow_mem {l : List Flow} {id : Nat} {f : Flow} (h : findFlow l id = some f) : f ∈ l ∧ f.id = id := by
  unfold findFlow at h
  exact ⟨List.mem_of_find?_eq_some h, by simpa using List.find?_some h⟩

/-- removing flow `id` (all flows carrying that id) takes at least the found flow's funds off the sum -/
theorem ffSum_removeFlow_le (a : Nat) {l : List Flow} {id : Nat} {f : Flow} (h : findFlow l id = some f) :
    ffSum a (removeFlow l id) + contrib a f ≤ ffSum a l := by
  induction l with
  | nil => cases h
  | cons g t ih =>
    unfold findFlow at h
    unfold removeFlow
    by_cases hg : g.id = id
    · rw [List.find?_cons_of_pos (by simpa using hg)] at h
      injection h with h; subst h
      rw [List.filter_cons_of_neg (by simpa using hg)]
      have : ffSum a (t.filter (fun f => decide (f.id ≠ id))) ≤ ffSum a t := by
        clear ih
        induction t with
        | nil => exact Nat.le_refl _
        | cons x t' ih' =>
          by_cases hx : x.id ≠ id
          · rw [List.filter_cons_of_pos (by simpa using hx)]; simp only [ffSum]; omega
          · rw [List.filter_cons_of_neg (by simpa using hx)]; simp only [ffSum]; omega
      simp only [ffSum]; omega
    · rw [List.find?_cons_of_neg (by simpa using hg)] at h
      rw [List.filter_cons_of_pos (by simpa using hg)]
      have := ih h
      unfold removeFlow at this
      simp only [ffSum]; omega

/-- … exactly the found flow's funds when the ids are distinct -/
theorem ffSum_removeFlow_eq (a : Nat) {l : List Flow} {id : Nat} {f : Flow} (hn : (flowIds l).Nodup)
    (h : findFlow l id = some f) : ffSum a (removeFlow l id) + contrib a f = ffSum a l := by
  induction l with
  | nil => cases h
  | cons g t ih =>
    simp only [flowIds, List.map_cons, List.nodup_cons] at hn
    unfold findFlow at h
    unfold removeFlow
    by_cases hg : g.id = id
    · rw [List.find?_cons_of_pos (by simpa using hg)] at h
      injection h with h; subst h
      rw [List.filter_cons_of_neg (by simpa using hg)]
      have hall : t.filter (fun f => decide (f.id ≠ id)) = t := by
        apply List.filter_eq_self.mpr
        intro x hx
        have : x.id ≠ id := fun he => hn.1 (by rw [hg, ← he]; exact List.mem_map_of_mem (f := (·.id)) hx)
        exact decide_eq_true this
      rw [hall]
      simp only [ffSum]; omega
    · rw [List.find?_cons_of_neg (by simpa using hg)] at h
      rw [List.filter_cons_of_pos (by simpa using hg)]
      have := ih hn.2 h
      unfold removeFlow at this
      simp only [ffSum]; omega

end WW.Inc
