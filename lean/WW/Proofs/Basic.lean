/- Helper lemmas about the `Res` monad and floor division shared by all proof files. -/
import WW.Cw.Arith
import Mathlib.Tactic.Ring
import Mathlib.Tactic.Linarith
import Mathlib.Tactic.Positivity
namespace WW

theorem pmul_ok {max a b : Nat} (h : a * b ≤ max) : pmul max a b = .ok (a * b) := by
  simp [pmul, h]
theorem padd_ok {max a b : Nat} (h : a + b ≤ max) : padd max a b = .ok (a + b) := by
  simp [padd, h]
theorem psub_ok {a b : Nat} (h : b ≤ a) : psub a b = .ok (a - b) := by
  simp [psub, h]
theorem cadd_ok {max a b : Nat} (h : a + b ≤ max) : cadd max a b = .ok (a + b) := by
  simp [cadd, h]
theorem csub_ok {a b : Nat} (h : b ≤ a) : csub a b = .ok (a - b) := by
  simp [csub, h]
theorem cmul_ok {max a b : Nat} (h : a * b ≤ max) : cmul max a b = .ok (a * b) := by
  simp [cmul, h]
theorem cdiv_ok {a b : Nat} (h : b ≠ 0) : cdiv a b = .ok (a / b) := by
  simp [cdiv, h]
theorem to128_ok {a : Nat} (h : a ≤ U128MAX) : to128 a = .ok a := by
  simp [to128, h]
theorem to128_err {a : Nat} (h : ¬ a ≤ U128MAX) : to128 a = .err := by
  simp [to128, h]
theorem mulRatioP_ok {max a n d : Nat} (hd : d ≠ 0) (h : a * n / d ≤ max) :
    mulRatioP max a n d = .ok (a * n / d) := by
  simp [mulRatioP, hd, h]
theorem mulRatioC_ok {max a n d : Nat} (hd : d ≠ 0) (h : a * n / d ≤ max) :
    mulRatioC max a n d = .ok (a * n / d) := by
  simp [mulRatioC, hd, h]
theorem dec256FromRatio_ok {n d : Nat} (hd : d ≠ 0) (h : n * E18 / d ≤ U256MAX) :
    dec256FromRatio n d = .ok (n * E18 / d) := mulRatioP_ok hd h
theorem u256MulDec_ok {a dec : Nat} (h : a * dec / E18 ≤ U256MAX) :
    u256MulDec a dec = .ok (a * dec / E18) := by
  simp [u256MulDec, h]
theorem u128MulDec_ok {a dec : Nat} (h : a * dec / E18 ≤ U128MAX) :
    u128MulDec a dec = .ok (a * dec / E18) := by
  simp [u128MulDec, h]

/-- floor(a*s/E) ≤ a when s ≤ E -/
theorem mul_div_le_of_le {a s E : Nat} (hs : s ≤ E) : a * s / E ≤ a := by
  rcases Nat.eq_zero_or_pos E with h | h
  · subst h; simp
  · exact Nat.div_le_of_le_mul (by nlinarith)

/-- sum of three floors is at most the floor of the sum -/
theorem three_floors_le (g s p b E : Nat) :
    g * s / E + g * p / E + g * b / E ≤ g * (s + p + b) / E := by
  rcases Nat.eq_zero_or_pos E with h | h
  · subst h; simp
  · rw [Nat.le_div_iff_mul_le h]
    have h1 := Nat.div_mul_le_self (g * s) E
    have h2 := Nat.div_mul_le_self (g * p) E
    have h3 := Nat.div_mul_le_self (g * b) E
    nlinarith

/-- with a total share strictly below one the three fees leave something (or gross is 0) -/
theorem three_fees_le (g s p b E : Nat) (h : s + p + b ≤ E) :
    g * s / E + g * p / E + g * b / E ≤ g :=
  le_trans (three_floors_le g s p b E) (mul_div_le_of_le h)

theorem U128MAX_lt : U128MAX < 2 ^ 128 := by decide
theorem two128_sq : (2:Nat) ^ 128 * 2 ^ 128 = 2 ^ 256 := by decide
theorem U256MAX_eq : U256MAX = 2 ^ 256 - 1 := rfl

end WW
