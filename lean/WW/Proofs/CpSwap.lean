/- Closed form of `cpSwap` on the property's domain; everything in Props/C02 follows from it. -/
import WW.Model.CpSwap
import WW.Proofs.Basic
namespace WW

/-- inputs are `Uint128` values -/
def In128 (a : Nat) : Prop := a ≤ U128MAX

/-- `(offer * ⌊ask·10¹⁸/offer_pool⌋) / 10¹⁸`, the "ideal" return the spread is measured against -/
def cpIdeal (op ap off : Nat) : Nat := off * (ap * E18 / op) / E18

def cpSpread (op ap off : Nat) : Nat := cpIdeal op ap off - cpGross op ap off

theorem cpGross_le_ask (op ap off : Nat) : cpGross op ap off ≤ ap := by
  unfold cpGross
  rcases Nat.eq_zero_or_pos (op + off) with h | h
  · rw [h]; simp
  · exact Nat.div_le_of_le_mul (by nlinarith)

theorem cpGross_lt_ask {op ap off : Nat} (hop : 1 ≤ op) (hap : 1 ≤ ap) : cpGross op ap off < ap := by
  unfold cpGross
  rw [Nat.div_lt_iff_lt_mul (by omega)]
  nlinarith

private theorem sub_chain {g a b c : Nat} (h : a + b + c ≤ g) : b ≤ g - a ∧ c ≤ g - a - b := by
  omega

private theorem pow_facts : U128MAX * U128MAX ≤ U256MAX ∧ U128MAX + U128MAX ≤ U256MAX
    ∧ U128MAX * E18 ≤ U256MAX := by decide

/-- the value the model computes when nothing aborts -/
def cpResult (op ap off : Nat) (f : Fees) : SwapComp :=
  let g := cpGross op ap off
  { ret := g - feeOf f.swap g - feeOf f.prot g - feeOf f.burn g
    spread := cpSpread op ap off
    swapFee := feeOf f.swap g
    protFee := feeOf f.prot g
    burnFee := feeOf f.burn g }

/-- **closed form**: on `Uint128` inputs with a non-empty offer pool and valid fees, the swap
    computation never panics; it returns `Err` exactly when the spread does not fit in 128 bits. -/
theorem cpSwap_closed {op ap off : Nat} {f : Fees}
    (hop : In128 op) (hap : In128 ap) (hoff : In128 off) (hop1 : 1 ≤ op) (hf : f.valid = true) :
    cpSwap op ap off f =
      if cpSpread op ap off ≤ U128MAX then .ok (cpResult op ap off f) else .err := by
  unfold In128 at *
  obtain ⟨pf1, pf2, pf3⟩ := pow_facts
  simp only [Fees.valid, Bool.and_eq_true, decide_eq_true_eq] at hf
  obtain ⟨⟨⟨hp, hs⟩, hb⟩, hsum⟩ := hf
  have h1 : ap * off ≤ U256MAX := le_trans (Nat.mul_le_mul hap hoff) pf1
  have h2 : op + off ≤ U256MAX := le_trans (Nat.add_le_add hop hoff) pf2
  have hden : op + off ≠ 0 := by omega
  have h3 : ap * off * E18 / (op + off) ≤ U256MAX := by
    apply le_trans _ pf3
    apply le_trans _ (Nat.mul_le_mul_right E18 hap)
    apply Nat.div_le_of_le_mul
    have : ap * off ≤ (op + off) * ap := by nlinarith
    nlinarith [E18_pos]
  have hg : 1 * (ap * off * E18 / (op + off)) / E18 = cpGross op ap off := by
    unfold cpGross
    rw [Nat.one_mul, Nat.div_div_eq_div_mul, Nat.mul_div_mul_right _ _ E18_pos]
  have h4 : 1 * (ap * off * E18 / (op + off)) / E18 ≤ U256MAX := by
    rw [hg]; exact le_trans (cpGross_le_ask _ _ _) (le_trans hap (by decide))
  have hop0 : op ≠ 0 := by omega
  have h5 : ap * E18 / op ≤ U256MAX :=
    le_trans (Nat.div_le_self _ _) (le_trans (Nat.mul_le_mul_right E18 hap) pf3)
  have h6 : off * (ap * E18 / op) / E18 ≤ U256MAX := by
    apply le_trans _ pf1
    apply le_trans _ (Nat.mul_le_mul hoff hap)
    apply Nat.div_le_of_le_mul
    have : ap * E18 / op ≤ ap * E18 := Nat.div_le_self _ _
    nlinarith
  generalize hgdef : cpGross op ap off = g at *
  have hgap : g ≤ ap := hgdef ▸ cpGross_le_ask _ _ _
  have hg128 : g ≤ U128MAX := le_trans hgap hap
  have hg256 : g ≤ U256MAX := le_trans hg128 (by decide)
  have hsf : g * f.swap / E18 ≤ g := mul_div_le_of_le (le_of_lt hs)
  have hpf : g * f.prot / E18 ≤ g := mul_div_le_of_le (le_of_lt hp)
  have hbf : g * f.burn / E18 ≤ g := mul_div_le_of_le (le_of_lt hb)
  have hsumle : g * f.swap / E18 + g * f.prot / E18 + g * f.burn / E18 ≤ g :=
    three_fees_le g f.swap f.prot f.burn E18 (by omega)
  unfold cpSwap
  rw [pmul_ok h1]; rw [Res.bind_ok]
  rw [padd_ok h2]; rw [Res.bind_ok]
  rw [dec256FromRatio_ok hden h3]; rw [Res.bind_ok]
  rw [u256MulDec_ok h4]; rw [Res.bind_ok]
  rw [hg]
  rw [dec256FromRatio_ok hop0 h5]; rw [Res.bind_ok]
  rw [u256MulDec_ok h6]; rw [Res.bind_ok]
  rw [u256MulDec_ok (le_trans hsf hg256)]; rw [Res.bind_ok]
  rw [u256MulDec_ok (le_trans hpf hg256)]; rw [Res.bind_ok]
  rw [u256MulDec_ok (le_trans hbf hg256)]; rw [Res.bind_ok]
  rw [psub_ok hsf]; rw [Res.bind_ok]
  obtain ⟨hc1, hc2⟩ := sub_chain hsumle
  rw [psub_ok hc1]; rw [Res.bind_ok]
  rw [psub_ok hc2]; rw [Res.bind_ok]
  rw [to128_ok (le_trans (le_trans (Nat.sub_le _ _) (le_trans (Nat.sub_le _ _) (Nat.sub_le _ _))) hg128)]
  rw [Res.bind_ok]
  by_cases hsp : cpSpread op ap off ≤ U128MAX
  · have hsp' : off * (ap * E18 / op) / E18 - g ≤ U128MAX := by
      rw [← hgdef]; exact hsp
    rw [to128_ok hsp']; rw [Res.bind_ok]
    rw [to128_ok (le_trans hsf hg128)]; rw [Res.bind_ok]
    rw [to128_ok (le_trans hpf hg128)]; rw [Res.bind_ok]
    rw [to128_ok (le_trans hbf hg128)]; rw [Res.bind_ok]
    rw [if_pos hsp]
    subst hgdef
    rfl
  · have hsp' : ¬ off * (ap * E18 / op) / E18 - g ≤ U128MAX := by
      rw [← hgdef]; exact hsp
    rw [to128_err hsp']; rw [Res.bind_err]
    rw [if_neg hsp]

theorem cpSwap_ok_result {op ap off : Nat} {f : Fees}
    (hop : In128 op) (hap : In128 ap) (hoff : In128 off) (hop1 : 1 ≤ op) (hf : f.valid = true)
    {c : SwapComp} (hc : cpSwap op ap off f = .ok c) : c = cpResult op ap off f := by
  rw [cpSwap_closed hop hap hoff hop1 hf] at hc
  split at hc
  · injection hc with hc; exact hc.symm
  · cases hc

theorem fees_le_gross {f : Fees} (hf : f.valid = true) (g : Nat) :
    feeOf f.swap g + feeOf f.prot g + feeOf f.burn g ≤ g := by
  simp only [Fees.valid, Bool.and_eq_true, decide_eq_true_eq] at hf
  exact three_fees_le g f.swap f.prot f.burn E18 (by omega)

theorem cpResult_sum {op ap off : Nat} {f : Fees} (hf : f.valid = true) :
    (cpResult op ap off f).ret + (cpResult op ap off f).swapFee + (cpResult op ap off f).protFee
      + (cpResult op ap off f).burnFee = cpGross op ap off := by
  have := fees_le_gross hf (cpGross op ap off)
  simp only [cpResult]
  omega

/-- arithmetic core of the there-and-back bound -/
theorem round_trip_core (op ap off g sf pf bf : Nat) (hg : g * (op + off) ≤ ap * off)
    (hsum : sf + pf + bf ≤ g) (hgap : g ≤ ap) :
    (op + off) * (g - sf - pf - bf) ≤ (ap - (g - sf - pf - bf) - pf - bf + (g - sf - pf - bf)) * off := by
  obtain ⟨r, hr⟩ : ∃ r, g = sf + pf + bf + r := ⟨g - (sf + pf + bf), by omega⟩
  obtain ⟨m, hm⟩ : ∃ m, ap = g + m := ⟨ap - g, by omega⟩
  have e1 : g - sf - pf - bf = r := by omega
  have e2 : ap - r - pf - bf + r = sf + m + r := by omega
  rw [e1, e2]
  subst hm; subst hr
  nlinarith [Nat.zero_le (sf * op), Nat.zero_le (pf * op), Nat.zero_le (bf * op)]

end WW
