/-
  Helpers for `WW/Props/Kernels/Fees.lean`: the generated fee validators in closed form.  Core Lean only.
-/
import WW.Gen.Kernels
import WW.Proofs.Kernels
import WW.Model.Config
namespace WW

/-- the three fee shares of a generated `PoolFee` / `VaultFee` as the Config model's `Fees3` -/
def Config.Fees3.ofPool (p : Gen.K.PoolFee) : Config.Fees3 :=
  { a := p.protocol_fee.share, b := p.swap_fee.share, c := p.burn_fee.share }
def Config.Fees3.ofTrioPool (p : Gen.K.TrioPoolFee) : Config.Fees3 :=
  { a := p.protocol_fee.share, b := p.swap_fee.share, c := p.burn_fee.share }
def Config.Fees3.ofVault (v : Gen.K.VaultFee) : Config.Fees3 :=
  { a := v.protocol_fee.share, b := v.flash_loan_fee.share, c := v.burn_fee.share }

theorem K_Fee_is_valid_eq (f : Gen.K.Fee) :
    Gen.K.Fee_is_valid f = if f.share ≥ E18 then .err else .ok () := by
  unfold Gen.K.Fee_is_valid
  rw [percent_100]
  by_cases h : f.share ≥ E18
  · rw [if_pos h, Res.bind_err_s]
  · rw [if_neg h, Res.bind_ok_s]

/-- the common shape of `VaultFee::is_valid` and `PoolFee::is_valid` after inlining -/
theorem fees3_shape (a b c : Nat) :
    ((if a ≥ E18 then (Res.err : Res Unit) else .ok ()) >>= fun _ =>
     (if b ≥ E18 then (Res.err : Res Unit) else .ok ()) >>= fun _ =>
     (if c ≥ E18 then (Res.err : Res Unit) else .ok ()) >>= fun _ =>
     cadd U128MAX a b >>= fun s1 => cadd U128MAX s1 c >>= fun s2 =>
     (if s2 ≥ E18 then (Res.err : Res Unit) else .ok ()) >>= fun _ => Res.ok ())
    = Config.fees3IsValid ⟨a, b, c⟩ := by
  unfold Config.fees3IsValid
  by_cases ha : a ≥ E18
  · rw [if_pos ha, if_pos ha, Res.bind_err_s]
  rw [if_neg ha, if_neg ha, Res.bind_ok_s]
  by_cases hb : b ≥ E18
  · rw [if_pos hb, if_pos hb, Res.bind_err_s]
  rw [if_neg hb, if_neg hb, Res.bind_ok_s]
  by_cases hc : c ≥ E18
  · rw [if_pos hc, if_pos hc, Res.bind_err_s]
  rw [if_neg hc, if_neg hc, Res.bind_ok_s]
  by_cases h1 : a + b > U128MAX
  · rw [if_pos h1, k_cadd_err (by omega), Res.bind_err_s]
  rw [if_neg h1, k_cadd_ok (by omega), Res.bind_ok_s]
  by_cases h2 : a + b + c > U128MAX
  · rw [if_pos h2, k_cadd_err (by omega), Res.bind_err_s]
  rw [if_neg h2, k_cadd_ok (by omega), Res.bind_ok_s]
  by_cases h3 : a + b + c ≥ E18
  · rw [if_pos h3, Res.bind_err_s]
  · rw [if_neg h3, Res.bind_ok_s]

end WW
