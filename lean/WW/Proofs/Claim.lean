/- Claim-loop lemmas for the incentive model (C13 claim clauses). -/
import WW.Proofs.Incentive
namespace WW.Inc
open WW WW.Gen

/-- the emission `claim.rs` computes for flow `f` in epoch `ep` given the emitted-tokens ledger `em`:
    `(funded as of ep − emitted before ep) / (end as of ep − ep)` -/
def emissionWith (f : Flow) (em : List (Nat × Nat)) (ep : Nat) : Nat :=
  (f.amountAt ep - (if em.isEmpty then 0 else aget em (ep - 1))) / (f.endAt ep - ep)

def emissionOf (f : Flow) (ep : Nat) : Nat := emissionWith f f.emitted ep

theorem emissionStep_spec {f : Flow} {em em' : List (Nat × Nat)} {ep x : Nat}
    (h : emissionStep f em ep = .ok (x, em')) : x = emissionWith f em ep := by
  unfold emissionStep at h
  simp only [] at h
  split at h
  · rename_i diff hd
    split at h
    · rename_i emission he
      have hdiff : diff = f.endAt ep - ep := by
        unfold psub at hd; split at hd
        · injection hd with hd; exact hd.symm
        · cases hd
      have hem : emission = (f.amountAt ep - (if em.isEmpty then 0 else aget em (ep - 1))) / diff := by
        unfold cdiv at he; split at he
        · cases he
        · injection he with he; exact he.symm
      split at h
      · injection h with h; injection h with h1 h2
        rw [← h1, hem, hdiff]; rfl
      · split at h
        · injection h with h; injection h with h1 h2
          rw [← h1, hem, hdiff]; rfl
        · cases h
        · cases h
    · cases h
    · cases h
  · cases h
  · cases h

/-- what one paying step does to the loop state -/
theorem claimPay_spec {u expAmt : Nat} {st st' : ClaimLoop} {emission uw g : Nat}
    (h : claimPay u expAmt st emission uw g = .ok (.next st')) :
    st.flow.claimed ≤ st'.flow.claimed
    ∧ st'.flow.claimed - st.flow.claimed ≤ emission
    ∧ (st.flow.claimed ≤ expAmt → st'.flow.claimed ≤ expAmt)
    ∧ st'.flow.asset = st.flow.asset
    ∧ st'.msgs = st.msgs ++ (if st'.flow.claimed = st.flow.claimed then []
        else [Msg.send INC u st.flow.asset (st'.flow.claimed - st.flow.claimed)]) := by
  unfold claimPay at h
  split at h
  · injection h with h; injection h with h; subst h; simp
  · split at h
    · rename_i reward _
      split at h
      · rename_i tot ht
        obtain ⟨ht1, _⟩ := cadd_eq_ok ht
        split at h
        · cases h
        · rename_i hchk
          simp only [Bool.or_eq_true, decide_eq_true_eq, not_or, not_lt] at hchk
          split at h
          · injection h with h; injection h with h; subst h; simp
          · rename_i hr0
            split at h
            · rename_i cl hcl
              obtain ⟨hcl1, _⟩ := cadd_eq_ok hcl
              injection h with h; injection h with h; subst h
              simp only
              refine ⟨by omega, by omega, fun _ => by omega, trivial, ?_⟩
              have hne : ¬ cl = st.flow.claimed := by omega
              rw [if_neg hne]
              have : cl - st.flow.claimed = reward := by omega
              rw [this]
            · cases h
            · cases h
      · cases h
      · cases h
    · cases h
    · cases h

theorem claimEpoch_spec {s : St} {u expAmt expEnd ep : Nat} {st st' : ClaimLoop}
    (h : claimEpoch s u expAmt expEnd st ep = .ok (.next st')) :
    st.flow.claimed ≤ st'.flow.claimed
    ∧ st'.flow.claimed - st.flow.claimed ≤ emissionOf st.flow ep
    ∧ (st.flow.claimed ≤ expAmt → st'.flow.claimed ≤ expAmt)
    ∧ st'.flow.asset = st.flow.asset
    ∧ st'.msgs = st.msgs ++ (if st'.flow.claimed = st.flow.claimed then []
        else [Msg.send INC u st.flow.asset (st'.flow.claimed - st.flow.claimed)]) := by
  unfold claimEpoch at h
  simp only [] at h
  split at h
  · cases h
  · split at h
    · injection h with h; injection h with h; subst h; simp
    · split at h
      · cases h
      · split at h
        · rename_i emission em hes
          have hem := emissionStep_spec hes
          split at h
          · injection h with h; injection h with h; subst h; simp
          · have := claimPay_spec h
            simp only at this
            obtain ⟨a1, a2, a3, a4, a5⟩ := this
            refine ⟨a1, ?_, a3, a4, a5⟩
            rw [hem] at a2; exact a2
        · cases h
        · cases h

theorem claimEpoch_le_emission {s : St} {u expAmt expEnd ep : Nat} {st st' : ClaimLoop}
    (h : claimEpoch s u expAmt expEnd st ep = .ok (.next st')) :
    st'.flow.claimed - st.flow.claimed ≤ emissionOf st.flow ep
    ∧ st'.msgs = st.msgs ++ (if st'.flow.claimed = st.flow.claimed then []
        else [Msg.send INC u st.flow.asset (st'.flow.claimed - st.flow.claimed)]) :=
  ⟨(claimEpoch_spec h).2.1, (claimEpoch_spec h).2.2.2.2⟩

theorem claimEpoch_claimed_le {s : St} {u expAmt expEnd ep : Nat} {st st' : ClaimLoop}
    (hle : st.flow.claimed ≤ expAmt)
    (h : claimEpoch s u expAmt expEnd st ep = .ok (.next st')) : st'.flow.claimed ≤ expAmt :=
  (claimEpoch_spec h).2.2.1 hle

end WW.Inc

namespace WW.Inc
open WW WW.Gen

/-! ### `LAST_CLAIMED_EPOCH` is only written by the claimer's own successful claim -/

theorem addWeight_lastClaimed {s s' : St} {ep : Nat} {r : Addr} {w : Nat} (h : addWeight s ep r w = .ok s') :
    s'.lastClaimed = s.lastClaimed := by
  unfold addWeight at h
  obtain ⟨_, _, _, _, _, _, _, f8⟩ := snapIfMissing_frame s ep
  obtain ⟨g, _, h⟩ := bind_eq_ok h
  obtain ⟨uw, _, h⟩ := bind_eq_ok h
  injection h with h
  subst h
  exact f8

theorem openPosition_lastClaimed {c : Cfg} {s s' : St} {e : Env} {amount dur : Nat} {recv : Option Addr}
    {msgs : List Msg} (h : openPosition c s e amount dur recv = .ok (s', msgs)) :
    s'.lastClaimed = s.lastClaimed := by
  unfold openPosition at h
  obtain ⟨_, _, h⟩ := bind_eq_ok h
  obtain ⟨m, _, h⟩ := bind_eq_ok h
  dsimp only at h
  obtain ⟨_, _, h⟩ := bind_eq_ok h
  obtain ⟨w, _, h⟩ := bind_eq_ok h
  obtain ⟨s2, hs2, h⟩ := bind_eq_ok h
  injection h with h
  injection h with h1 h2
  subst h1
  have := addWeight_lastClaimed hs2
  exact this

theorem expandPosition_lastClaimed {c : Cfg} {s s' : St} {e : Env} {amount dur : Nat} {recv : Option Addr}
    {msgs : List Msg} (h : expandPosition c s e amount dur recv = .ok (s', msgs)) :
    s'.lastClaimed = s.lastClaimed := by
  unfold expandPosition at h
  obtain ⟨m, _, h⟩ := bind_eq_ok h
  dsimp only at h
  split at h
  · cases h
  · split at h
    · cases h
    · obtain ⟨newAmt, _, h⟩ := bind_eq_ok h
      obtain ⟨t, _, h⟩ := bind_eq_ok h
      obtain ⟨w1, _, h⟩ := bind_eq_ok h
      obtain ⟨w0, _, h⟩ := bind_eq_ok h
      obtain ⟨w, _, h⟩ := bind_eq_ok h
      obtain ⟨s2, hs2, h⟩ := bind_eq_ok h
      injection h with h
      injection h with h1 h2
      subst h1
      have := addWeight_lastClaimed hs2
      exact this

theorem closePosition_lastClaimed {s s' : St} {e : Env} {dur : Nat} {msgs : List Msg}
    (h : closePosition s e dur = .ok (s', msgs)) : s'.lastClaimed = s.lastClaimed := by
  unfold closePosition at h
  obtain ⟨_, _, h⟩ := bind_eq_ok h
  split at h
  · cases h
  · split at h
    · cases h
    · rename_i p _
      obtain ⟨_, _, h⟩ := bind_eq_ok h
      dsimp only at h
      obtain ⟨w, _, h⟩ := bind_eq_ok h
      injection h with h
      injection h with h1 h2
      subst h1
      obtain ⟨_, _, _, _, _, _, _, f8⟩ := snapIfMissing_frame ({ s with closedPos := aset s.closedPos e.sender (closedOf s e.sender ++ [{ amt := p.amt, ts := e.time + p.dur }]) }) e.epoch
      exact f8

theorem withdrawOp_lastClaimed {s s' : St} {e : Env} {m : List Msg} (h : withdrawOp s e = .ok (s', m)) :
    s'.lastClaimed = s.lastClaimed := by
  unfold withdrawOp at h
  obtain ⟨tot, _, h⟩ := bind_eq_ok h
  dsimp only at h
  split at h <;> (injection h with h; injection h with h1 h2; subst h1; rfl)

theorem takeSnapshot_lastClaimed {s s' : St} {e : Env} {m : List Msg} (h : takeSnapshot s e = .ok (s', m)) :
    s'.lastClaimed = s.lastClaimed := by
  unfold takeSnapshot at h
  split at h
  · cases h
  · injection h with h; injection h with h1 h2; subst h1; rfl

theorem closeFlow_lastClaimed {s s' : St} {e : Env} {id : Nat} {m : List Msg} (h : closeFlow s e id = .ok (s', m)) :
    s'.lastClaimed = s.lastClaimed := by
  unfold closeFlow at h
  split at h
  · cases h
  · split at h
    · cases h
    · injection h with h; injection h with h1 h2; subst h1; rfl

theorem openFlow_lastClaimed {c : Cfg} {s s' : St} {e : Env} {a amt : Nat} {st en : Option Nat} {m : List Msg}
    (h : openFlow c s e a amt st en = .ok (s', m)) : s'.lastClaimed = s.lastClaimed := by
  unfold openFlow at h
  obtain ⟨_, _, h⟩ := bind_eq_ok h
  obtain ⟨x, _, h⟩ := bind_eq_ok h
  obtain ⟨_, _, h⟩ := bind_eq_ok h
  obtain ⟨y, _, h⟩ := bind_eq_ok h
  dsimp only at h
  obtain ⟨_, _, h⟩ := bind_eq_ok h
  obtain ⟨_, _, h⟩ := bind_eq_ok h
  obtain ⟨_, _, h⟩ := bind_eq_ok h
  injection h with h; injection h with h1 h2; subst h1; rfl

theorem expandFlow_lastClaimed {c : Cfg} {s s' : St} {e : Env} {id a amt : Nat} {en : Option Nat} {m : List Msg}
    (h : expandFlow c s e id a amt en = .ok (s', m)) : s'.lastClaimed = s.lastClaimed := by
  unfold expandFlow at h
  split at h
  · cases h
  · dsimp only at h
    obtain ⟨_, _, h⟩ := bind_eq_ok h
    obtain ⟨_, _, h⟩ := bind_eq_ok h
    obtain ⟨_, _, h⟩ := bind_eq_ok h
    obtain ⟨_, _, h⟩ := bind_eq_ok h
    obtain ⟨f2, _, h⟩ := bind_eq_ok h
    obtain ⟨_, _, h⟩ := bind_eq_ok h
    obtain ⟨_, _, h⟩ := bind_eq_ok h
    injection h with h; injection h with h1 h2; subst h1; rfl

/-- a successful claim records the epoch for the claimer and leaves everybody else's record alone -/
theorem claimCore_lastClaimed {s s' : St} {u ep : Nat} {m : List Msg} (h : claimCore s u ep = .ok (s', m)) :
    alook s'.lastClaimed u = some ep ∧ ∀ v, v ≠ u → alook s'.lastClaimed v = alook s.lastClaimed v := by
  unfold claimCore at h
  split at h
  · cases h
  · split at h
    · injection h with h; injection h with h1 h2; subst h1
      exact ⟨alook_aset_same _ _ _, fun v hv => alook_aset_other _ _ hv⟩
    · cases h
    · cases h

/-- a claim in the epoch already recorded for the sender is rejected -/
theorem claimExec_err_of_claimed {s : St} {e : Env} (h : alook s.lastClaimed e.sender = some e.epoch) :
    claimExec s e = .err := by
  unfold claimExec
  split
  · rfl
  · unfold claimCore; rw [if_pos h]

theorem helperDeposit_lastClaimed {c : Cfg} {s s' : St} {e : Env} {a0 a1 dur : Nat}
    (h : helperDeposit c s e a0 a1 dur = .ok s') : s'.lastClaimed = s.lastClaimed := by
  unfold helperDeposit at h
  dsimp only at h
  obtain ⟨_, _, h⟩ := bind_eq_ok h
  obtain ⟨b1, _, h⟩ := bind_eq_ok h
  obtain ⟨b2, _, h⟩ := bind_eq_ok h
  obtain ⟨_, _, h⟩ := bind_eq_ok h
  obtain ⟨lp, _, h⟩ := bind_eq_ok h
  obtain ⟨_, _, h⟩ := bind_eq_ok h
  obtain ⟨b3, _, h⟩ := bind_eq_ok h
  obtain ⟨b4, _, h⟩ := bind_eq_ok h
  obtain ⟨_, _, h⟩ := bind_eq_ok h
  obtain ⟨b5, _, h⟩ := bind_eq_ok h
  obtain ⟨⟨s3, msgs⟩, h3, h⟩ := bind_eq_ok h
  obtain ⟨b6, _, h⟩ := bind_eq_ok h
  injection h with h
  subst h
  have : s3.lastClaimed = s.lastClaimed := by
    split at h3
    · have := expandPosition_lastClaimed h3; exact this
    · have := openPosition_lastClaimed h3; exact this
  exact this

theorem handler_lastClaimed {c : Cfg} {s s' : St} {e : Env} {op : Op} {m : List Msg} (u : Addr)
    (hne : ¬ (op = .claim ∧ e.sender = u)) (h1 : handler c s e op = .ok (s', m)) :
    alook s'.lastClaimed u = alook s.lastClaimed u := by
  cases op with
  | openPos amt dur recv => rw [openPosition_lastClaimed h1]
  | expandPos amt dur recv => rw [expandPosition_lastClaimed h1]
  | closePos dur => rw [closePosition_lastClaimed h1]
  | withdraw => rw [withdrawOp_lastClaimed h1]
  | snapshot => rw [takeSnapshot_lastClaimed h1]
  | openFlow a amt st en => rw [openFlow_lastClaimed h1]
  | expandFlow id a amt en => rw [expandFlow_lastClaimed h1]
  | closeFlow id => rw [closeFlow_lastClaimed h1]
  | helperDeposit a0 a1 dur => cases h1
  | helperDepositAs x0 x1 a0 a1 dur => cases h1
  | claim =>
    have hs : e.sender ≠ u := fun he => hne ⟨rfl, he⟩
    have h2 : claimExec s e = .ok (s', m) := h1
    unfold claimExec at h2
    split at h2
    · cases h2
    · exact (claimCore_lastClaimed h2).2 u (Ne.symm hs)

/-- any successful step other than the address's own claim keeps its last-claimed record -/
theorem step_lastClaimed {c : Cfg} {s s' : St} {e : Env} {op : Op} (u : Addr)
    (hne : ¬ (op = .claim ∧ e.sender = u)) (h : step c s e op = .ok s') :
    alook s'.lastClaimed u = alook s.lastClaimed u := by
  unfold step at h
  split at h
  · obtain ⟨b, _, h⟩ := bind_eq_ok h
    have := helperDeposit_lastClaimed h
    rw [this]
  · obtain ⟨b, _, h⟩ := bind_eq_ok h
    obtain ⟨⟨s1, msgs⟩, h1, h⟩ := bind_eq_ok h
    obtain ⟨b1, _, h⟩ := bind_eq_ok h
    injection h with h
    subst h
    have := handler_lastClaimed u hne h1
    exact this

/-- a successful claim leaves the claimer's record at the claim's epoch -/
theorem step_claim_records {c : Cfg} {s s' : St} {e : Env} (h : step c s e .claim = .ok s') :
    alook s'.lastClaimed e.sender = some e.epoch := by
  unfold step at h
  simp only at h
  obtain ⟨b, _, h⟩ := bind_eq_ok h
  obtain ⟨⟨s1, msgs⟩, h1, h⟩ := bind_eq_ok h
  obtain ⟨b1, _, h⟩ := bind_eq_ok h
  injection h with h
  subst h
  have h2 : claimExec { s with bal := b } e = .ok (s1, msgs) := h1
  unfold claimExec at h2
  split at h2
  · cases h2
  · exact (claimCore_lastClaimed h2).1

/-- a claim by an address whose record is the current epoch fails as a whole step -/
theorem step_claim_err {c : Cfg} {s : St} {e : Env} (h : alook s.lastClaimed e.sender = some e.epoch) :
    step c s e .claim = .err := by
  unfold step
  simp only
  cases hb : attachFunds c s.bal e.sender INC (fundsOf c e.offers) with
  | ok b =>
    rw [Res.bind_ok]
    have : handler c { s with bal := b } e .claim = .err := by
      show claimExec { s with bal := b } e = .err
      exact claimExec_err_of_claimed h
    rw [this]; rfl
  | err => rfl
  | panic =>
    -- attaching funds never panics
    exfalso
    revert hb
    generalize fundsOf c e.offers = l
    generalize s.bal = b0
    induction l generalizing b0 with
    | nil => intro hb; cases hb
    | cons p t ih =>
      obtain ⟨a, v⟩ := p
      intro hb
      unfold attachFunds at hb
      split at hb
      · split at hb
        · cases hb
        · exact ih _ hb
      · exact ih _ hb

theorem claim_twice_err (c : Cfg) (s : St) (e : Env) (s1 : St) (h1 : step c s e .claim = .ok s1)
    (others : List (Env × Op))
    (hep : ∀ p ∈ others, p.2 = .claim → p.1.sender = e.sender → p.1.epoch = e.epoch)
    (e2 : Env) (hs : e2.sender = e.sender) (he : e2.epoch = e.epoch) :
    step c (reach c s1 others) e2 .claim = .err := by
  have key : ∀ (l : List (Env × Op)) (t : St), alook t.lastClaimed e.sender = some e.epoch →
      (∀ p ∈ l, p.2 = .claim → p.1.sender = e.sender → p.1.epoch = e.epoch) →
      alook (reach c t l).lastClaimed e.sender = some e.epoch := by
    intro l
    induction l with
    | nil => intro t ht _; exact ht
    | cons p l ih =>
      intro t ht hl
      obtain ⟨e', op⟩ := p
      apply ih
      · unfold stepOrStay
        split
        · rename_i t' hstep
          by_cases hc : op = .claim ∧ e'.sender = e.sender
          · -- the address's own claim in the same epoch is rejected
            exfalso
            have hepo := hl (e', op) (List.mem_cons_self) hc.1 hc.2
            have herr : step c t e' .claim = .err := step_claim_err (by rw [hc.2, hepo]; exact ht)
            rw [hc.1] at hstep
            rw [herr] at hstep
            cases hstep
          · rw [step_lastClaimed e.sender hc hstep]; exact ht
        · exact ht
      · intro p hp; exact hl p (List.mem_cons_of_mem _ hp)
  apply step_claim_err
  rw [hs, he]
  exact key others s1 (step_claim_records h1) hep

end WW.Inc
