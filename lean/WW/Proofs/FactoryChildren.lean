/-
  Helper lemmas for C19, second part: what ONE transaction does to a registry and to the table of child
  contracts (model: WW/Model/Factory.lean). Used for "a create naming a registered key changes nothing,
  whatever the size of the registry", "an entry never changes the child it points to", "removal removes
  exactly the entry", "distinct entries point to distinct children". Core Lean only.
-/
import WW.Proofs.Factory
namespace WW.Factory
open WW

/-! ### lookups through insertion / removal of another key -/

theorem regLookup_cons {ε : Type} (k k' : Bytes) (v : ε) (r : List (Bytes × ε)) :
    regLookup k ((k', v) :: r) = if k' = k then some v else regLookup k r := rfl

theorem regLookup_regInsert_self {ε : Type} (k : Bytes) (v : ε) (r : List (Bytes × ε)) :
    regLookup k (regInsert k v r) = some v := by
  induction r with
  | nil => exact (regLookup_cons k k v []).trans (if_pos rfl)
  | cons hd tl ih =>
    obtain ⟨k', v'⟩ := hd
    unfold regInsert
    split
    · exact (regLookup_cons k k v _).trans (if_pos rfl)
    · split
      · rename_i hgt
        have hgt := blt_iff.mp hgt
        rw [regLookup_cons, if_neg (fun heq => by subst heq; exact bytes_lt_irrefl _ hgt)]
        exact ih
      · exact (regLookup_cons k k v _).trans (if_pos rfl)

theorem regLookup_regInsert_ne {ε : Type} {k k' : Bytes} (v : ε) (r : List (Bytes × ε)) (h : k ≠ k') :
    regLookup k' (regInsert k v r) = regLookup k' r := by
  induction r with
  | nil => exact (regLookup_cons k' k v []).trans (if_neg h)
  | cons hd tl ih =>
    obtain ⟨k1, v1⟩ := hd
    unfold regInsert
    split
    · exact (regLookup_cons k' k v _).trans (if_neg h)
    · rename_i hnlt
      split
      · rw [regLookup_cons, regLookup_cons, ih]
      · rename_i hngt
        have heq : k = k1 :=
          bytes_eq_of_not_lt (fun hh => hnlt (blt_iff.mpr hh)) (fun hh => hngt (blt_iff.mpr hh))
        subst heq
        rw [regLookup_cons, regLookup_cons, if_neg h, if_neg h]

theorem regLookup_regErase_ne {ε : Type} {k k' : Bytes} (r : List (Bytes × ε)) (h : k ≠ k') :
    regLookup k' (regErase k r) = regLookup k' r := by
  induction r with
  | nil => rfl
  | cons hd tl ih =>
    obtain ⟨k1, v1⟩ := hd
    unfold regErase
    split
    · rename_i heq
      rw [ih, regLookup_cons, if_neg (fun e => h (heq.symm.trans e))]
    · rw [regLookup_cons, regLookup_cons, ih]

theorem setFunded_length (l : List PoolChild) (n : Nat) : (setFunded l n).length = l.length := by
  induction l generalizing n with
  | nil => cases n <;> rfl
  | cons c cs ih =>
    cases n with
    | zero => rfl
    | succ m => simp [setFunded, ih]

/-! ### what one transaction does to a registry and its table of children -/

/-- `r'` / `n'` (entries / number of children after a transaction) relative to `r` / `n` (before):
    nothing changed; or ONE child was instantiated and an entry pointing to it was inserted under a key that
    had NO entry; or — only where the registry has a removal at all (`erasable`) — an entry was erased (its
    child stays in the chain). There is no fourth case: in particular an existing entry is never
    overwritten and a child is never instantiated without becoming the child of a fresh key. -/
inductive RegChange {ε : Type} (erasable : Prop) (childOf : ε → Nat) (r : List (Bytes × ε)) (n : Nat) :
    List (Bytes × ε) → Nat → Prop
  | same : RegChange erasable childOf r n r n
  | insert (k : Bytes) (v : ε) : regLookup k r = none → childOf v = n →
      RegChange erasable childOf r n (regInsert k v r) (n + 1)
  | erase (k : Bytes) : erasable → RegChange erasable childOf r n (regErase k r) n

/-- every successful transaction changes each of the four registries in one of the three ways -/
theorem step_change {cfg : Cfg} {s s' : St} {op : Op} {out : List Nat}
    (h : step cfg s op = .ok (s', out)) :
    RegChange True PoolEntry.child s.pairs.reg s.pairs.kids.length s'.pairs.reg s'.pairs.kids.length ∧
    RegChange True PoolEntry.child s.trios.reg s.trios.kids.length s'.trios.reg s'.trios.kids.length ∧
    RegChange True VaultEntry.child s.vaults.reg s.vaults.kids.length s'.vaults.reg s'.vaults.kids.length ∧
    RegChange False id s.incs.reg s.incs.kids.length s'.incs.reg s'.incs.kids.length := by
  cases op with
  | addDec a d =>
    unfold WW.Factory.step at h
    obtain ⟨x, _, h⟩ := Res.bind_eq_ok.mp h
    cases h
    exact ⟨.same, .same, .same, .same⟩
  | createPair a b pt =>
    unfold WW.Factory.step at h
    obtain ⟨p, hp, h⟩ := Res.bind_eq_ok.mp h
    cases h
    obtain ⟨ds, key, _, _, hnone, rfl⟩ := PoolReg.create_ok hp
    refine ⟨?_, .same, .same, .same⟩
    show RegChange _ _ _ _ (regInsert key _ s.pairs.reg) (s.pairs.kids ++ [_]).length
    rw [List.length_append]
    exact .insert key _ hnone rfl
  | createTrio a b c amp =>
    unfold WW.Factory.step at h
    obtain ⟨p, hp, h⟩ := Res.bind_eq_ok.mp h
    cases h
    obtain ⟨ds, key, _, _, hnone, rfl⟩ := PoolReg.create_ok hp
    refine ⟨.same, ?_, .same, .same⟩
    show RegChange _ _ _ _ (regInsert key _ s.trios.reg) (s.trios.kids ++ [_]).length
    rw [List.length_append]
    exact .insert key _ hnone rfl
  | removePair a b =>
    unfold WW.Factory.step at h
    obtain ⟨p, hp, h⟩ := Res.bind_eq_ok.mp h
    cases h
    obtain ⟨key, e, _, _, rfl⟩ := PoolReg.remove_ok hp
    exact ⟨.erase key trivial, .same, .same, .same⟩
  | removeTrio a b c =>
    unfold WW.Factory.step at h
    obtain ⟨p, hp, h⟩ := Res.bind_eq_ok.mp h
    cases h
    obtain ⟨key, e, _, _, rfl⟩ := PoolReg.remove_ok hp
    exact ⟨.same, .erase key trivial, .same, .same⟩
  | fund a b =>
    unfold WW.Factory.step at h
    obtain ⟨p, hp, h⟩ := Res.bind_eq_ok.mp h
    cases h
    obtain ⟨e0, _, rfl⟩ := PoolReg.fund_ok hp
    refine ⟨?_, .same, .same, .same⟩
    show RegChange _ _ _ _ s.pairs.reg (setFunded s.pairs.kids e0.child).length
    rw [setFunded_length]
    exact .same
  | createVault a =>
    unfold WW.Factory.step at h
    obtain ⟨p, hp, h⟩ := Res.bind_eq_ok.mp h
    cases h
    obtain ⟨x, _, hnone, _, rfl⟩ := VaultReg.create_ok hp
    refine ⟨.same, .same, ?_, .same⟩
    show RegChange _ _ _ _ (regInsert x.ref _ s.vaults.reg) (s.vaults.kids ++ [_]).length
    rw [List.length_append]
    exact .insert x.ref _ hnone rfl
  | removeVault a =>
    unfold WW.Factory.step at h
    obtain ⟨p, hp, h⟩ := Res.bind_eq_ok.mp h
    cases h
    obtain ⟨x, e, _, _, rfl⟩ := VaultReg.remove_ok hp
    exact ⟨.same, .same, .erase x.ref trivial, .same⟩
  | createInc a =>
    unfold WW.Factory.step at h
    obtain ⟨p, hp, h⟩ := Res.bind_eq_ok.mp h
    cases h
    obtain ⟨x, _, hnone, rfl⟩ := IncReg.create_ok hp
    refine ⟨.same, .same, .same, ?_⟩
    show RegChange _ _ _ _ (regInsert x.raw _ s.incs.reg) (s.incs.kids ++ [_]).length
    rw [List.length_append]
    exact .insert x.raw _ hnone rfl
  | addRoutes rs =>
    unfold WW.Factory.step at h
    obtain ⟨s1, hs1, h⟩ := Res.bind_eq_ok.mp h
    cases h
    obtain ⟨⟨_, a2, a3, a4, a5⟩, _⟩ := addRoutes_ok hs1
    rw [a2, a3, a4, a5]
    exact ⟨.same, .same, .same, .same⟩
  | removeRoutes ks =>
    unfold WW.Factory.step at h
    obtain ⟨s1, hs1, h⟩ := Res.bind_eq_ok.mp h
    cases h
    obtain ⟨⟨_, a2, a3, a4, a5⟩, _⟩ := removeRoutes_ok hs1
    rw [a2, a3, a4, a5]
    exact ⟨.same, .same, .same, .same⟩
  | swap hops =>
    unfold WW.Factory.step at h
    obtain ⟨o, _, h⟩ := Res.bind_eq_ok.mp h
    cases h
    exact ⟨.same, .same, .same, .same⟩
  | swapRoute o a =>
    unfold WW.Factory.step at h
    obtain ⟨lo, _, h⟩ := Res.bind_eq_ok.mp h
    obtain ⟨la, _, h⟩ := Res.bind_eq_ok.mp h
    split at h
    · cases h
    · obtain ⟨o, _, h⟩ := Res.bind_eq_ok.mp h
      cases h
      exact ⟨.same, .same, .same, .same⟩

/-- … and so does `apply` (a failed transaction changes nothing) -/
theorem apply_change (cfg : Cfg) (s : St) (op : Op) :
    RegChange True PoolEntry.child s.pairs.reg s.pairs.kids.length
      (apply cfg s op).pairs.reg (apply cfg s op).pairs.kids.length ∧
    RegChange True PoolEntry.child s.trios.reg s.trios.kids.length
      (apply cfg s op).trios.reg (apply cfg s op).trios.kids.length ∧
    RegChange True VaultEntry.child s.vaults.reg s.vaults.kids.length
      (apply cfg s op).vaults.reg (apply cfg s op).vaults.kids.length ∧
    RegChange False id s.incs.reg s.incs.kids.length (apply cfg s op).incs.reg (apply cfg s op).incs.kids.length := by
  unfold WW.Factory.apply
  split
  · rename_i s' out h
    exact step_change h
  · exact ⟨.same, .same, .same, .same⟩

/-- an entry present before a transaction is, afterwards, either still there with the same value (the same
    child) or gone — never re-pointed -/
theorem RegChange.lookup_stable {ε : Type} {er : Prop} {childOf : ε → Nat} {r r' : List (Bytes × ε)} {n n' : Nat}
    (hc : RegChange er childOf r n r' n') {k : Bytes} {v : ε} (hl : regLookup k r = some v) :
    regLookup k r' = some v ∨ regLookup k r' = none := by
  cases hc with
  | same => exact Or.inl hl
  | insert k0 v0 hnone _ =>
    have hne : k0 ≠ k := fun e => by rw [e, hl] at hnone; cases hnone
    exact Or.inl ((regLookup_regInsert_ne v0 r hne).trans hl)
  | erase k0 _ =>
    by_cases e : k0 = k
    · subst e; exact Or.inr (regLookup_regErase k0 r)
    · exact Or.inl ((regLookup_regErase_ne r e).trans hl)

/-- the number of children grows by one exactly when an entry for a fresh key, pointing to the new child,
    appears; otherwise it stays -/
theorem RegChange.children {ε : Type} {er : Prop} {childOf : ε → Nat} {r r' : List (Bytes × ε)} {n n' : Nat}
    (hc : RegChange er childOf r n r' n') :
    n' = n ∨ (n' = n + 1 ∧ ∃ k v, regLookup k r = none ∧ regLookup k r' = some v ∧ childOf v = n) := by
  cases hc with
  | same => exact Or.inl rfl
  | insert k v hnone hch => exact Or.inr ⟨rfl, k, v, hnone, regLookup_regInsert_self k v r, hch⟩
  | erase k _ => exact Or.inl rfl

/-- where nothing can be erased, an entry stays for good -/
theorem RegChange.lookup_kept {ε : Type} {childOf : ε → Nat} {r r' : List (Bytes × ε)} {n n' : Nat}
    (hc : RegChange False childOf r n r' n') {k : Bytes} {v : ε} (hl : regLookup k r = some v) :
    regLookup k r' = some v := by
  cases hc with
  | same => exact hl
  | insert k0 v0 hnone _ =>
    have hne : k0 ≠ k := fun e => by rw [e, hl] at hnone; cases hnone
    exact (regLookup_regInsert_ne v0 r hne).trans hl
  | erase k0 hf => exact hf.elim

/-! ### distinct entries point to distinct children -/

/-- every entry's child exists (`< n`), and two entries with the same child are under the same key -/
def ChildOk {ε : Type} (childOf : ε → Nat) (r : List (Bytes × ε)) (n : Nat) : Prop :=
  (∀ k v, (k, v) ∈ r → childOf v < n) ∧
  (∀ k₁ v₁ k₂ v₂, (k₁, v₁) ∈ r → (k₂, v₂) ∈ r → childOf v₁ = childOf v₂ → k₁ = k₂)

theorem ChildOk.nil {ε : Type} (childOf : ε → Nat) : ChildOk childOf ([] : List (Bytes × ε)) 0 :=
  ⟨(by intro k v h; cases h), (by intro k₁ v₁ k₂ v₂ h; cases h)⟩

theorem RegChange.childOk {ε : Type} {er : Prop} {childOf : ε → Nat} {r r' : List (Bytes × ε)} {n n' : Nat}
    (hc : RegChange er childOf r n r' n') (h : ChildOk childOf r n) : ChildOk childOf r' n' := by
  cases hc with
  | same => exact h
  | insert k v _ hch =>
    constructor
    · intro k1 v1 hm
      rcases mem_regInsert hm with heq | hm
      · cases heq; omega
      · have := h.1 k1 v1 hm; omega
    · intro k₁ v₁ k₂ v₂ h₁ h₂ he
      rcases mem_regInsert h₁ with e₁ | h₁ <;> rcases mem_regInsert h₂ with e₂ | h₂
      · cases e₁; cases e₂; rfl
      · cases e₁
        have := h.1 k₂ v₂ h₂
        omega
      · cases e₂
        have := h.1 k₁ v₁ h₁
        omega
      · exact h.2 k₁ v₁ k₂ v₂ h₁ h₂ he
  | erase k _ =>
    exact ⟨fun k1 v1 hm => h.1 k1 v1 (mem_regErase hm),
      fun k₁ v₁ k₂ v₂ h₁ h₂ he => h.2 k₁ v₁ k₂ v₂ (mem_regErase h₁) (mem_regErase h₂) he⟩

/-- the four registries of a state -/
def ChildrenOk (s : St) : Prop :=
  ChildOk PoolEntry.child s.pairs.reg s.pairs.kids.length ∧
  ChildOk PoolEntry.child s.trios.reg s.trios.kids.length ∧
  ChildOk VaultEntry.child s.vaults.reg s.vaults.kids.length ∧
  ChildOk id s.incs.reg s.incs.kids.length

theorem ChildrenOk.init : ChildrenOk St.init :=
  ⟨ChildOk.nil _, ChildOk.nil _, ChildOk.nil _, ChildOk.nil _⟩

theorem ChildrenOk.reach {cfg : Cfg} {s : St} (ops : List Op) (h : ChildrenOk s) :
    ChildrenOk (reach cfg s ops) := by
  induction ops generalizing s with
  | nil => exact h
  | cons op rest ih =>
    obtain ⟨c1, c2, c3, c4⟩ := apply_change cfg s op
    exact ih ⟨c1.childOk h.1, c2.childOk h.2.1, c3.childOk h.2.2.1, c4.childOk h.2.2.2⟩

/-! ### a transaction that cannot succeed changes nothing -/

theorem apply_eq_of_not_ok {cfg : Cfg} {s : St} {op : Op} (h : ∀ x, step cfg s op ≠ .ok x) :
    apply cfg s op = s := by
  unfold WW.Factory.apply
  split
  · rename_i s' out hs
    exact absurd hs (h (s', out))
  · rfl

end WW.Factory
