/- C11: the LP custody equation as an equality, with every unit of LP-denom funds the handlers did not
   ask for counted explicitly (`strayOf`). -/
import WW.Proofs.Backed
namespace WW.Inc
open WW WW.Gen

/-- every asset-history key of every flow is at most `ep + 1` (true along epoch-monotone histories) -/
def HistLe (s : St) (ep : Nat) : Prop := ∀ f ∈ s.flows, ∀ q ∈ f.hist, q.1 ≤ ep + 1

def CreatorsOk (s : St) : Prop := ∀ f ∈ s.flows, f.creator ≠ INC

theorem HistLe.mono {s : St} {ep ep' : Nat} (h : HistLe s ep) (hle : ep ≤ ep') : HistLe s ep' := by
  intro f hf q hq
  have := h f hf q hq
  omega

/-- LP-denom native funds attached to a call -/
def lpOffer (c : Cfg) (e : Env) : Nat := att c 0 (fundsOf c e.offers)

/-- LP-denom funds attached to a call that the handler neither records nor returns: LP coins attached
    to a handler that takes no LP — `close_position`, `withdraw`, `claim`, `snapshot`, `close_flow`, an
    `expand_flow` in another asset, an `open_flow` whose flow asset and fee asset are both not the LP.
    Nothing else: an `open_flow` that charges its fee in the LP denom keeps the fee's worth for the
    collector, the flow amount when the flow asset is the LP too, and refunds every unit beyond that
    (whatever the kind of the flow asset), so it contributes 0. -/
def strayOf (c : Cfg) (e : Env) : Op → Nat
  | .openPos _ _ _ => 0
  | .expandPos _ _ _ => 0
  | .helperDeposit _ _ _ => 0
  | .helperDepositAs _ _ _ _ _ => 0
  | .openFlow a _ _ _ => if a = 0 then 0 else if c.feeAsset = 0 then 0 else lpOffer c e
  | .expandFlow _ a _ _ => if a = 0 then 0 else lpOffer c e
  | _ => lpOffer c e

/-! ### funds lists with distinct denoms -/

theorem att_zero_of_not_mem {c : Cfg} {k : Nat} {l : List (Nat × Nat)} (h : k ∉ keysOf l) : att c k l = 0 := by
  induction l with
  | nil => rfl
  | cons p t ih =>
    simp only [keysOf, List.map_cons, List.mem_cons, not_or] at h
    simp only [att]
    have : ¬ (c.native p.1 = true ∧ p.1 = k) := fun hh => h.1 hh.2.symm
    rw [if_neg this, ih h.2]

theorem att_eq_of_mem {c : Cfg} {l : List (Nat × Nat)} {k v : Nat} (hn : (keysOf l).Nodup)
    (h : (k, v) ∈ l) (hk : c.native k = true) : att c k l = v := by
  induction l with
  | nil => cases h
  | cons p t ih =>
    simp only [keysOf, List.map_cons, List.nodup_cons] at hn
    simp only [att]
    rcases List.mem_cons.mp h with h | h
    · subst h
      have h0 := att_zero_of_not_mem (c := c) hn.1
      simp only at h0
      simp [hk, h0]
    · have hne : p.1 ≠ k := by
        intro he; apply hn.1; rw [he]
        exact List.mem_map_of_mem (f := (·.1)) h
      have : ¬ (c.native p.1 = true ∧ p.1 = k) := fun hh => hne hh.2
      rw [if_neg this, ih hn.2 h]; omega

theorem att_eq_of_hasFunds {c : Cfg} {l : List (Nat × Nat)} {a v : Nat} (hn : (keysOf l).Nodup)
    (h : hasFunds l a v = true) (hk : c.native a = true) : att c a l = v := by
  unfold hasFunds at h
  obtain ⟨p, hp, hpe⟩ := List.any_eq_true.mp h
  simp only [Bool.and_eq_true, decide_eq_true_eq] at hpe
  have : (a, v) ∈ l := by
    have : p = (a, v) := by rw [← hpe.1, ← hpe.2]
    rw [← this]; exact hp
  exact att_eq_of_mem hn this hk

theorem nodup_fundsOf {c : Cfg} {l : List (Nat × Nat)} (hn : (keysOf l).Nodup) : (keysOf (fundsOf c l)).Nodup := by
  unfold fundsOf
  induction l with
  | nil => simp [keysOf]
  | cons p t ih =>
    simp only [keysOf, List.map_cons, List.nodup_cons] at hn
    by_cases hp : c.native p.1 = true
    · rw [List.filter_cons_of_pos (by simpa using hp)]
      simp only [keysOf, List.map_cons, List.nodup_cons]
      refine ⟨?_, ih hn.2⟩
      intro hm
      apply hn.1
      obtain ⟨x, hx, hxe⟩ := List.mem_map.mp hm
      exact List.mem_map.mpr ⟨x, (List.mem_filter.mp hx).1, hxe⟩
    · rw [List.filter_cons_of_neg (by simpa using hp)]
      exact ih hn.2

/-- `open_flow`, LP asset, exactly: new LP-flow funds + payouts + stray = attached + pulled -/
theorem openFlow_ledger_eq0 {c : Cfg} {e : Env} {a amount x y : Nat} {st en : Option Nat} {m0 m1 : List Msg}
    (hs : e.sender ≠ INC) (hn : (keysOf (fundsOf c e.offers)).Nodup)
    (hfee : openFlowFee c e a amount = .ok (x, m0)) (hasset : openFlowAsset c e a x = .ok (y, m1)) :
    (if a = 0 then y else 0) + outsOf INC 0 (m0 ++ m1) + strayOf c e (.openFlow a amount st en)
      = att c 0 (fundsOf c e.offers) + insOf INC 0 (m0 ++ m1) := by
  rw [outsOf_append, insOf_append]
  simp only [strayOf, lpOffer]
  rcases openFlowFee_spec hfee with ⟨hnf, paid, hp, hle, hm0, hx⟩ | ⟨hnf, hx, hm0⟩
  · have hpaid : att c c.feeAsset (fundsOf c e.offers) = paid := att_eq_of_mem hn (alook_some_mem hp) hnf
    obtain ⟨r1, r2⟩ := io_feeRefund hs a paid 0 (c := c) (e := e)
    obtain ⟨c1, c2⟩ := io_send_inc collector_ne_inc 0 c.feeAsset c.feeAmt
    rw [hm0, outsOf_append, insOf_append, r1, r2, c1, c2]
    rcases openFlowAsset_spec hasset with ⟨hna, hy, hm1, hfunds⟩ | ⟨hna, hm1, hy⟩
    · subst hm1
      simp only [outsOf, insOf]
      rcases hx with ⟨_, hafa, hx1, hx2⟩ | ⟨hns, hx1⟩
      · have hno : ¬ ((c.feeAmt < paid ∧ ¬ (c.native a = true ∧ a = c.feeAsset)) ∧ c.feeAsset = 0) :=
          fun hh => hh.1.2 ⟨hna, hafa⟩
        simp only [if_neg hno]
        by_cases h1 : a = 0
        · have h2 : c.feeAsset = 0 := by rw [← hafa]; exact h1
          have hpaid0 : att c 0 (fundsOf c e.offers) = paid := by rw [h2] at hpaid; exact hpaid
          simp only [if_pos h1, if_pos h2]; omega
        · have h2 : ¬ c.feeAsset = 0 := by rw [← hafa]; exact h1
          simp only [if_neg h1, if_neg h2]; omega
      · have hne : a ≠ c.feeAsset := fun hh => hns ⟨hna, hh⟩
        have hf := att_eq_of_hasFunds hn (hfunds (fun hh => hns ⟨hna, hh.2.symm⟩)) hna
        by_cases h1 : a = 0
        · have h2 : ¬ c.feeAsset = 0 := fun hh => hne (by rw [h1, hh])
          have hf0 : att c 0 (fundsOf c e.offers) = x := by rw [h1] at hf; exact hf
          have hno : ¬ ((c.feeAmt < paid ∧ ¬ (c.native a = true ∧ a = c.feeAsset)) ∧ c.feeAsset = 0) :=
            fun hh => h2 hh.2
          simp only [if_pos h1, if_neg h2, if_neg hno]; omega
        · by_cases h2 : c.feeAsset = 0
          · have hpaid0 : att c 0 (fundsOf c e.offers) = paid := by rw [h2] at hpaid; exact hpaid
            simp only [if_neg h1, if_pos h2]
            by_cases h3 : (c.feeAmt < paid ∧ ¬ (c.native a = true ∧ a = c.feeAsset)) ∧ c.feeAsset = 0
            · simp only [if_pos h3]; omega
            · have : ¬ c.feeAmt < paid := fun hh => h3 ⟨⟨hh, hns⟩, h2⟩
              simp only [if_neg h3]; omega
          · have hno : ¬ ((c.feeAmt < paid ∧ ¬ (c.native a = true ∧ a = c.feeAsset)) ∧ c.feeAsset = 0) :=
              fun hh => h2 hh.2
            simp only [if_neg h1, if_neg h2, if_neg hno]; omega
    · have hns : ¬ (c.native a = true ∧ a = c.feeAsset) := fun hh => by rw [hna] at hh; cases hh.1
      obtain ⟨p1, p2⟩ := io_pull_inc hs 0 a y
      rw [hm1, p1, p2]
      by_cases h1 : a = 0
      · have h2 : ¬ c.feeAsset = 0 := fun hh => by rw [h1] at hna; rw [hh, hna] at hnf; cases hnf
        have h0 : c.native 0 = false := by rw [← h1]; exact hna
        have hno : ¬ ((c.feeAmt < paid ∧ ¬ (c.native a = true ∧ a = c.feeAsset)) ∧ c.feeAsset = 0) :=
          fun hh => h2 hh.2
        simp only [if_pos h1, if_neg h2, if_neg hno, att_nonnative h0]; omega
      · by_cases h2 : c.feeAsset = 0
        · -- fee in the native LP denom, cw20 flow asset: the excess goes back to the sender
          have hpaid0 : att c 0 (fundsOf c e.offers) = paid := by rw [h2] at hpaid; exact hpaid
          simp only [if_neg h1, if_pos h2]
          by_cases h3 : (c.feeAmt < paid ∧ ¬ (c.native a = true ∧ a = c.feeAsset)) ∧ c.feeAsset = 0
          · simp only [if_pos h3]; omega
          · have : ¬ c.feeAmt < paid := fun hh => h3 ⟨⟨hh, hns⟩, h2⟩
            simp only [if_neg h3]; omega
        · have hno : ¬ ((c.feeAmt < paid ∧ ¬ (c.native a = true ∧ a = c.feeAsset)) ∧ c.feeAsset = 0) :=
            fun hh => h2 hh.2
          simp only [if_neg h1, if_neg h2, if_neg hno]; omega
  · obtain ⟨q1, q2⟩ := io_pull_other hs collector_ne_inc 0 c.feeAsset c.feeAmt (src := e.sender)
    rw [hm0, q1, q2]
    rcases openFlowAsset_spec hasset with ⟨hna, hy, hm1, hfunds⟩ | ⟨hna, hm1, hy⟩
    · subst hm1
      simp only [outsOf, insOf]
      have hf := att_eq_of_hasFunds hn (hfunds (fun hh => by rw [hnf] at hh; cases hh.1)) hna
      by_cases h1 : a = 0
      · have hf0 : att c 0 (fundsOf c e.offers) = x := by rw [h1] at hf; exact hf
        simp only [if_pos h1]; omega
      · by_cases h2 : c.feeAsset = 0
        · have h0 : c.native 0 = false := by rw [← h2]; exact hnf
          simp only [if_neg h1, if_pos h2, att_nonnative h0]
        · simp only [if_neg h1, if_neg h2]; omega
    · obtain ⟨p1, p2⟩ := io_pull_inc hs 0 a y
      rw [hm1, p1, p2]
      by_cases h1 : a = 0
      · have h0 : c.native 0 = false := by rw [← h1]; exact hna
        simp only [if_pos h1, att_nonnative h0]; omega
      · by_cases h2 : c.feeAsset = 0
        · have h0 : c.native 0 = false := by rw [← h2]; exact hnf
          simp only [if_neg h1, if_pos h2, att_nonnative h0]
        · simp only [if_neg h1, if_neg h2]; omega

/-! ### every handler -/

/-- the custody side of a handler result (`stray` = LP-denom funds attached but not asked for) -/
structure CustodyOk (c : Cfg) (s s1 : St) (e : Env) (msgs : List Msg) (stray : Nat) : Prop where
  hist : HistLe s e.epoch → HistLe s1 e.epoch
  creators : e.sender ≠ INC → CreatorsOk s → CreatorsOk s1
  eq0 : e.sender ≠ INC → (keysOf e.offers).Nodup → HistLe s e.epoch → CreatorsOk s →
    owed s1 0 + outsOf INC 0 msgs + stray = owed s 0 + att c 0 (fundsOf c e.offers) + insOf INC 0 msgs

theorem pos_custodyOk {c : Cfg} {s s1 : St} {e : Env} {amount : Nat} {msgs : List Msg}
    (hd : s1.flows = s.flows ∧ s1.flowCounter = s.flowCounter ∧ s1.bal = s.bal
      ∧ staked s1 = staked s + amount ∧ validateFunds c e amount = .ok msgs) : CustodyOk c s s1 e msgs 0 := by
  obtain ⟨d1, d2, d3, d4, d5⟩ := hd
  refine ⟨?_, ?_, ?_⟩
  · intro h; unfold HistLe; rw [d1]; exact h
  · intro _ h; unfold CreatorsOk; rw [d1]; exact h
  · intro hs _ _ _
    obtain ⟨v1, v2⟩ := validateFunds_ledger hs d5
    unfold owed
    rw [d1, v1 0]
    simp only [if_true]
    rw [d4]; omega

theorem expandFlowFunds_ins_other {c : Cfg} {e : Env} {a amount a' : Nat} {msgs : List Msg} (hs : e.sender ≠ INC)
    (h : expandFlowFunds c e a amount = .ok msgs) (hne : a ≠ a') : insOf INC a' msgs = 0 := by
  rcases expandFlowFunds_spec h with ⟨_, _, _, hm⟩ | ⟨_, _, hm⟩
  · subst hm; rfl
  · subst hm
    rw [(io_pull_inc hs a' a amount).2, if_neg hne]

theorem handler_custody {c : Cfg} {s s1 : St} {e : Env} {op : Op} {msgs : List Msg} (hW : WInv s) (hF : FInv s)
    (h : handler c s e op = .ok (s1, msgs)) : CustodyOk c s s1 e msgs (strayOf c e op) := by
  cases op with
  | openPos amt dur recv => exact pos_custodyOk (openPosition_delta h)
  | expandPos amt dur recv => exact pos_custodyOk (expandPosition_delta hW h)
  | closePos dur =>
    obtain ⟨d1, d2, d3, d4, d5⟩ := closePosition_delta hW h
    subst d5
    refine ⟨?_, ?_, ?_⟩
    · intro h; unfold HistLe; rw [d1]; exact h
    · intro _ h; unfold CreatorsOk; rw [d1]; exact h
    · intro _ _ _ _
      unfold owed
      rw [d1, d4]
      simp only [outsOf, insOf, strayOf, lpOffer]; omega
  | withdraw =>
    obtain ⟨d1, d2, d3, d4, d5⟩ := withdrawOp_delta (s := s) (e := e) h
    refine ⟨?_, ?_, ?_⟩
    · intro h; unfold HistLe; rw [d1]; exact h
    · intro _ h; unfold CreatorsOk; rw [d1]; exact h
    · intro hs _ _ _
      unfold owed
      rw [d1, d5]
      simp only [strayOf, lpOffer, if_true]
      by_cases h0 : closedSum (closedOf s e.sender) = 0
      · rw [if_pos h0]
        simp only [outsOf, insOf]; omega
      · rw [if_neg h0]
        obtain ⟨o1, o2⟩ := io_send_inc hs 0 0 (closedSum (closedOf s e.sender))
        rw [o1, o2]
        simp only [if_true]; omega
  | claim =>
    obtain ⟨fl, hcf, d1, d2, d3, d4, d5⟩ := claimExec_delta (s := s) (e := e) h
    obtain ⟨c1, c2, c3, _⟩ := claimFlows_ledger _ _ _ hcf
    obtain ⟨c4, c5⟩ := c2 hF.claimed_le
    refine ⟨?_, ?_, ?_⟩
    · intro hh f hf
      rw [d1] at hf
      obtain ⟨g, hg, hc⟩ := forall2_core_mem c1 f hf
      rw [hc.hist]; exact hh g hg
    · intro _ hh f hf
      rw [d1] at hf
      obtain ⟨g, hg, hc⟩ := forall2_core_mem c1 f hf
      rw [hc.creator]; exact hh g hg
    · intro hs _ _ _
      unfold owed
      rw [d1, staked_congr d2 d3, c3 hs 0]
      have := c5 hs 0
      simp only [strayOf, lpOffer]
      omega
  | snapshot =>
    obtain ⟨d1, d2, d3, d4, d5, d6⟩ := takeSnapshot_delta h
    subst d6
    refine ⟨?_, ?_, ?_⟩
    · intro h; unfold HistLe; rw [d1]; exact h
    · intro _ h; unfold CreatorsOk; rw [d1]; exact h
    · intro _ _ _ _
      unfold owed
      rw [d1, staked_congr d4 d5]
      simp only [outsOf, insOf, strayOf, lpOffer]; omega
  | openFlow a0 amt st en =>
    obtain ⟨x, y, m0, m1, f, hfee, hasset, hm, hs', f1, f2, f3, f4, f5, f6, _⟩ := openFlow_delta h
    subst hs' hm
    have hfunded : f.funded = y := by
      rw [Flow.funded_eq, f6]; simp only [maxKey, List.foldl_nil]; exact f4
    refine ⟨?_, ?_, ?_⟩
    · intro hh g hg
      rcases mem_insertFlow.mp hg with hg | hg
      · subst hg; rw [f6]; intro q hq; cases hq
      · exact hh g hg
    · intro hs hh g hg
      rcases mem_insertFlow.mp hg with hg | hg
      · subst hg; rw [f2]; exact hs
      · exact hh g hg
    · intro hs hn _ _
      have hl := openFlow_ledger_eq0 (st := st) (en := en) hs (nodup_fundsOf hn) hfee hasset
      unfold owed
      simp only
      rw [ffSum_insertFlow]
      have hst : staked ({ s with flowCounter := s.flowCounter + 1, flows := insertFlow f s.flows } : St) = staked s := rfl
      rw [hst]
      have hc : contrib 0 f = (if a0 = 0 then y else 0) := by
        unfold contrib; rw [f3, hfunded, f5]; rfl
      rw [hc]; omega
  | expandFlow id a0 amt en =>
    obtain ⟨f, f2, endE, hf, hfa, hfunds, hadd, hs'⟩ := expandFlow_delta h
    subst hs'
    obtain ⟨hfm, hfid⟩ := findFlow_mem hf
    have hn := hF.hist_nodup f hfm
    obtain ⟨r1, r2, r3, r4, r5, r6⟩ := resetFlow_spec f e.epoch hn
    obtain ⟨r7, r8⟩ := r6 (hF.claimed_le f hfm)
    obtain ⟨a1, a2, a3, a4, a5, a6, a7⟩ := addHist_spec r4 hadd
    refine ⟨?_, ?_, ?_⟩
    · intro hh g hg
      rcases mem_insertFlow.mp hg with hg | hg
      · subst hg; exact (a7 (r5 _ (hh f hfm))).2
      · exact hh g (mem_removeFlow.mp hg).1
    · intro _ hh g hg
      rcases mem_insertFlow.mp hg with hg | hg
      · subst hg; rw [a3, r3]; exact hh f hfm
      · exact hh g (mem_removeFlow.mp hg).1
    · intro hs _ hh _
      obtain ⟨e1, e2⟩ := expandFlowFunds_ledger hs hfunds
      obtain ⟨a8, _⟩ := a7 (r5 _ (hh f hfm))
      unfold owed
      simp only
      rw [ffSum_insertFlow, e1 0]
      have hst : staked ({ s with flows := insertFlow f2 (removeFlow s.flows id) } : St) = staked s := rfl
      rw [hst]
      have hrem := ffSum_removeFlow_eq 0 hF.ids_nodup hf
      simp only [strayOf, lpOffer, if_true]
      by_cases ha : a0 = 0
      · subst ha
        have hc2 : contrib 0 f2 = contrib 0 f + amt := by
          unfold contrib
          rw [a2, r2, hfa]
          simp only [if_true]; omega
        simp only [if_true]
        omega
      · have hc2 : contrib 0 f2 = 0 := by
          unfold contrib; rw [a2, r2, hfa, if_neg ha]
        have hc1 : contrib 0 f = 0 := by
          unfold contrib; rw [hfa, if_neg ha]
        have := expandFlowFunds_ins_other hs hfunds ha
        rw [if_neg ha]
        omega
  | closeFlow id =>
    have h : closeFlow s e id = .ok (s1, msgs) := h
    obtain ⟨f, hf, _, hm, hfl, hbal⟩ := closeFlow_spec h
    obtain ⟨hfm, _⟩ := findFlow_mem hf
    refine ⟨?_, ?_, ?_⟩
    · intro hh g hg
      rw [hfl] at hg
      exact hh g (mem_removeFlow.mp hg).1
    · intro _ hh g hg
      rw [hfl] at hg
      exact hh g (mem_removeFlow.mp hg).1
    · intro _ _ _ hcr
      have hst : staked s1 = staked s := by
        unfold closeFlow at h
        rw [hf] at h
        simp only at h
        split at h
        · cases h
        · injection h with h; injection h with h1 h2; subst h1; rfl
      unfold owed
      rw [hfl, hst, hm]
      have hrem := ffSum_removeFlow_eq 0 hF.ids_nodup hf
      obtain ⟨o1, o2⟩ := io_send_inc (hcr f hfm) 0 f.asset (f.funded - f.claimed)
      rw [o1, o2]
      have hc : contrib 0 f = (if f.asset = 0 then f.funded - f.claimed else 0) := rfl
      simp only [strayOf, lpOffer, if_true]
      omega
  | helperDeposit a0 a1 dur => cases h
  | helperDepositAs x0 x1 a0 a1 dur => cases h

end WW.Inc
