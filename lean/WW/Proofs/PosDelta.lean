/- What the position handlers (open / expand / close / withdraw) do to the staked total, the flows and
   the ledger (C11, C12). -/
import WW.Proofs.ClaimLedger
namespace WW.Inc
open WW WW.Gen

theorem addWeight_flowCounter {s s' : St} {ep : Nat} {r : Addr} {w : Nat} (h : addWeight s ep r w = .ok s') :
    s'.flowCounter = s.flowCounter := by
  unfold addWeight at h
  obtain ⟨g, _, h⟩ := bind_eq_ok h
  obtain ⟨uw, _, h⟩ := bind_eq_ok h
  injection h with h
  subst h
  show (snapIfMissing s ep).flowCounter = s.flowCounter
  unfold snapIfMissing
  split <;> rfl

theorem openSum_nil : openSum [] = 0 := rfl
theorem closedSum_nil : closedSum [] = 0 := rfl

theorem openSum_map {ps : List OpenPos} {p : OpenPos} (hn : (durs ps).Nodup) (hp : p ∈ ps) (newAmt : Nat) :
    openSum (ps.map (fun q => if q.dur = p.dur then { q with amt := newAmt } else q)) + p.amt
      = openSum ps + newAmt := by
  induction ps with
  | nil => cases hp
  | cons q t ih =>
    simp only [durs, List.map_cons, List.nodup_cons] at hn
    obtain ⟨hq, hn'⟩ := hn
    rcases List.mem_cons.mp hp with h | h
    · subst h
      have hall : t.map (fun q => if q.dur = p.dur then { q with amt := newAmt } else q) = t := by
        conv_rhs => rw [← List.map_id t]
        apply List.map_congr_left
        intro x hx
        have : x.dur ≠ p.dur := fun he => hq (by rw [← he]; exact List.mem_map_of_mem (f := (·.dur)) hx)
        simp [this]
      simp only [List.map_cons, if_true, openSum, hall]
      omega
    · have hne : q.dur ≠ p.dur := fun he => hq (by rw [he]; exact List.mem_map_of_mem (f := (·.dur)) h)
      have := ih hn' h
      simp only [List.map_cons, hne, if_false, openSum]
      omega

theorem openSum_filter {ps : List OpenPos} {p : OpenPos} (hn : (durs ps).Nodup) (hp : p ∈ ps) :
    openSum (ps.filter (fun q => decide (q.dur ≠ p.dur))) + p.amt = openSum ps := by
  induction ps with
  | nil => cases hp
  | cons q t ih =>
    simp only [durs, List.map_cons, List.nodup_cons] at hn
    obtain ⟨hq, hn'⟩ := hn
    rcases List.mem_cons.mp hp with h | h
    · subst h
      have hall : t.filter (fun q => decide (q.dur ≠ p.dur)) = t := by
        apply List.filter_eq_self.mpr
        intro x hx
        have : x.dur ≠ p.dur := fun he => hq (by rw [← he]; exact List.mem_map_of_mem (f := (·.dur)) hx)
        exact decide_eq_true this
      rw [List.filter_cons_of_neg (by simp), hall]
      simp only [openSum]; omega
    · have hne : q.dur ≠ p.dur := fun he => hq (by rw [he]; exact List.mem_map_of_mem (f := (·.dur)) h)
      rw [List.filter_cons_of_pos (by simpa using hne)]
      have := ih hn' h
      simp only [openSum]; omega

/-- `open_position`: flows and ledger untouched, staked total up by exactly the stated amount, and the
    funds check passed for that amount -/
theorem openPosition_delta {c : Cfg} {s s' : St} {e : Env} {amount dur : Nat} {recv : Option Addr}
    {msgs : List Msg} (h : openPosition c s e amount dur recv = .ok (s', msgs)) :
    s'.flows = s.flows ∧ s'.flowCounter = s.flowCounter ∧ s'.bal = s.bal
    ∧ staked s' = staked s + amount ∧ validateFunds c e amount = .ok msgs := by
  unfold openPosition at h
  obtain ⟨_, _, h⟩ := bind_eq_ok h
  obtain ⟨m, hm, h⟩ := bind_eq_ok h
  dsimp only at h
  obtain ⟨_, _, h⟩ := bind_eq_ok h
  obtain ⟨w, _, h⟩ := bind_eq_ok h
  obtain ⟨s2, hs2, h⟩ := bind_eq_ok h
  injection h with h
  injection h with h1 h2
  subst h1 h2
  obtain ⟨a1, _, _, a4, a5, a6⟩ := addWeight_spec hs2
  have a7 := addWeight_flowCounter hs2
  simp only at a1 a4 a5 a6 a7
  refine ⟨a5, a7, a6, ?_, hm⟩
  unfold staked
  rw [a1, a4]
  have := sumBy_aset openSum openSum_nil s.openPos (recv.getD e.sender)
    (openOf s (recv.getD e.sender) ++ [{ dur := dur, amt := amount }])
  rw [openSum_append] at this
  simp only [openSum] at this
  unfold openOf at this ⊢
  omega

/-- `expand_position`: the same with the (unique) position of that duration raised by the amount -/
theorem expandPosition_delta {c : Cfg} {s s' : St} {e : Env} {amount dur : Nat} {recv : Option Addr}
    {msgs : List Msg} (hI : WInv s) (h : expandPosition c s e amount dur recv = .ok (s', msgs)) :
    s'.flows = s.flows ∧ s'.flowCounter = s.flowCounter ∧ s'.bal = s.bal
    ∧ staked s' = staked s + amount ∧ validateFunds c e amount = .ok msgs := by
  unfold expandPosition at h
  obtain ⟨m, hm, h⟩ := bind_eq_ok h
  generalize hr : recv.getD e.sender = r at *
  dsimp only at h
  split at h
  · cases h
  · rename_i ps hps
    split at h
    · cases h
    · rename_i p hp
      obtain ⟨hpm, hpd⟩ := find_some_mem hp
      obtain ⟨newAmt, hna, h⟩ := bind_eq_ok h
      obtain ⟨t, _, h⟩ := bind_eq_ok h
      obtain ⟨w1, _, h⟩ := bind_eq_ok h
      obtain ⟨w0, _, h⟩ := bind_eq_ok h
      obtain ⟨w, _, h⟩ := bind_eq_ok h
      obtain ⟨s2, hs2, h⟩ := bind_eq_ok h
      injection h with h
      injection h with h1 h2
      subst h1 h2
      obtain ⟨a1, _, _, a4, a5, a6⟩ := addWeight_spec hs2
      have a7 := addWeight_flowCounter hs2
      simp only at a1 a4 a5 a6 a7
      obtain ⟨hna1, _⟩ := padd_eq_ok hna
      have hops := openOf_of_alook hps
      have hnd : (durs ps).Nodup := hops ▸ hI.nodup r
      refine ⟨a5, a7, a6, ?_, hm⟩
      unfold staked
      rw [a1, a4]
      have h1 := sumBy_aset openSum openSum_nil s.openPos r
        (ps.map (fun q => if q.dur = dur then { q with amt := newAmt } else q))
      rw [hps] at h1
      simp only [Option.getD_some] at h1
      have h2 := openSum_map hnd hpm newAmt
      rw [hpd] at h2
      omega

/-- `close_position`: the position moves from open to closed with the same amount -/
theorem closePosition_delta {s s' : St} {e : Env} {dur : Nat} {msgs : List Msg} (hI : WInv s)
    (h : closePosition s e dur = .ok (s', msgs)) :
    s'.flows = s.flows ∧ s'.flowCounter = s.flowCounter ∧ s'.bal = s.bal
    ∧ staked s' = staked s ∧ msgs = [] := by
  unfold closePosition at h
  obtain ⟨_, _, h⟩ := bind_eq_ok h
  split at h
  · cases h
  · rename_i ps hps
    split at h
    · cases h
    · rename_i p hp
      obtain ⟨hpm, hpd⟩ := find_some_mem hp
      obtain ⟨_, _, h⟩ := bind_eq_ok h
      dsimp only at h
      obtain ⟨w, hw, h⟩ := bind_eq_ok h
      injection h with h
      injection h with h1 h2
      subst h1 h2
      have hops := openOf_of_alook hps
      have hnd : (durs ps).Nodup := hops ▸ hI.nodup e.sender
      obtain ⟨f1, _, _, _, f5, f6, f7, _⟩ := snapIfMissing_frame ({ s with closedPos := aset s.closedPos e.sender (closedOf s e.sender ++ [{ amt := p.amt, ts := e.time + p.dur }]) }) e.epoch
      have f9 : (snapIfMissing ({ s with closedPos := aset s.closedPos e.sender (closedOf s e.sender ++ [{ amt := p.amt, ts := e.time + p.dur }]) }) e.epoch).flowCounter = s.flowCounter := by
        unfold snapIfMissing; split <;> rfl
      simp only at f1 f5 f6 f7
      refine ⟨f6, f9, f7, ?_, rfl⟩
      unfold staked
      simp only [f1, f5]
      have h1 := sumBy_aset openSum openSum_nil s.openPos e.sender (ps.filter (fun q => decide (q.dur ≠ dur)))
      rw [hps] at h1
      simp only [Option.getD_some] at h1
      have h2 := openSum_filter hnd hpm
      rw [hpd] at h2
      have h3 := sumBy_aset closedSum closedSum_nil s.closedPos e.sender
        (closedOf s e.sender ++ [{ amt := p.amt, ts := e.time + p.dur }])
      rw [closedSum_append] at h3
      simp only [closedSum] at h3
      unfold closedOf at h3 ⊢
      omega

/-- `withdraw`: the sender's closed positions leave the staked total and are paid out -/
theorem withdrawOp_delta {s s' : St} {e : Env} {msgs : List Msg} (h : withdrawOp s e = .ok (s', msgs)) :
    s'.flows = s.flows ∧ s'.flowCounter = s.flowCounter ∧ s'.bal = s.bal
    ∧ staked s' + closedSum (closedOf s e.sender) = staked s
    ∧ msgs = (if closedSum (closedOf s e.sender) = 0 then []
              else [.send INC e.sender 0 (closedSum (closedOf s e.sender))]) := by
  obtain ⟨h1, h2⟩ := withdrawOp_spec h
  subst h1
  refine ⟨rfl, rfl, rfl, ?_, h2⟩
  unfold staked
  simp only
  have h3 := sumBy_aset closedSum closedSum_nil s.closedPos e.sender []
  simp only [closedSum] at h3
  unfold closedOf
  omega

end WW.Inc
