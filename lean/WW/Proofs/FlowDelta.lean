/- What the flow handlers (`open_flow`, `expand_flow`) check and emit, in closed form (C11, C12). -/
import WW.Proofs.HistKeys
namespace WW.Inc
open WW WW.Gen

/-- the refund of an over-paid native flow fee: always, unless the flow is opened in the fee denom itself
    (then the attached funds must be exactly flow + fee) — the flow asset's kind does not matter -/
def feeRefund (c : Cfg) (e : Env) (a paid : Nat) : List Msg :=
  if (decide (c.feeAmt < paid) && !(c.native a && decide (a = c.feeAsset))) = true
  then [Msg.send INC e.sender c.feeAsset (paid - c.feeAmt)] else []

theorem openFlowFee_spec {c : Cfg} {e : Env} {a amount x : Nat} {m0 : List Msg}
    (h : openFlowFee c e a amount = .ok (x, m0)) :
    (c.native c.feeAsset = true ∧ ∃ paid, alook (fundsOf c e.offers) c.feeAsset = some paid ∧ c.feeAmt ≤ paid
      ∧ m0 = feeRefund c e a paid ++ [Msg.send INC COLLECTOR c.feeAsset c.feeAmt]
      ∧ ((c.native a = true ∧ a = c.feeAsset ∧ x = amount - c.feeAmt ∧ paid = x + c.feeAmt)
         ∨ (¬ (c.native a = true ∧ a = c.feeAsset) ∧ x = amount)))
    ∨ (c.native c.feeAsset = false ∧ x = amount ∧ m0 = [Msg.pull e.sender COLLECTOR c.feeAsset c.feeAmt]) := by
  unfold openFlowFee at h
  dsimp only at h
  split at h
  · rename_i hnf
    left
    refine ⟨hnf, ?_⟩
    split at h
    · cases h
    · rename_i paid hp
      refine ⟨paid, hp, ?_⟩
      by_cases hsame : (c.native a && decide (a = c.feeAsset)) = true
      · simp only [hsame, Bool.true_and, if_true] at h
        have hs2 : c.native a = true ∧ a = c.feeAsset := by simpa using hsame
        split at h
        · cases h
        · split at h
          · cases h
          · rename_i hle
            split at h
            · rename_i t ht
              obtain ⟨ht1, _⟩ := cadd_eq_ok ht
              split at h
              · rename_i hpt
                injection h with h; injection h with h1 h2
                exact ⟨by omega, by simp only [feeRefund, hsame]; exact h2.symm, Or.inl ⟨hs2.1, hs2.2, h1.symm, by rw [← h1, hpt, ht1]⟩⟩
              · cases h
            · cases h
            · cases h
      · simp only [hsame, Bool.false_and, Bool.false_eq_true, if_false] at h
        have hs2 : ¬ (c.native a = true ∧ a = c.feeAsset) := by simpa using hsame
        split at h
        · cases h
        · rename_i hle
          injection h with h; injection h with h1 h2
          exact ⟨by omega, by simp only [feeRefund, hsame]; exact h2.symm, Or.inr ⟨hs2, h1.symm⟩⟩
  · rename_i hnf
    right
    have hnf' : c.native c.feeAsset = false := by simpa using hnf
    refine ⟨hnf', ?_⟩
    split at h
    · split at h
      · split at h
        · injection h with h; injection h with h1 h2; exact ⟨h1.symm, h2.symm⟩
        · cases h
      · cases h
      · cases h
    · split at h
      · injection h with h; injection h with h1 h2; exact ⟨h1.symm, h2.symm⟩
      · cases h

theorem openFlowAsset_spec {c : Cfg} {e : Env} {a x y : Nat} {m1 : List Msg}
    (h : openFlowAsset c e a x = .ok (y, m1)) :
    (c.native a = true ∧ y = x ∧ m1 = []
      ∧ (¬ (c.native c.feeAsset = true ∧ c.feeAsset = a) → hasFunds (fundsOf c e.offers) a x = true))
    ∨ (c.native a = false ∧ m1 = [Msg.pull e.sender INC a y]
      ∧ y = (if c.native c.feeAsset = false ∧ c.feeAsset = a then x - c.feeAmt else x)) := by
  unfold openFlowAsset at h
  dsimp only at h
  split at h
  · rename_i hna
    left
    split at h
    · rename_i hc
      split at h
      · rename_i hf
        injection h with h; injection h with h1 h2
        exact ⟨hna, h1.symm, h2.symm, fun _ => hf⟩
      · cases h
    · rename_i hc
      injection h with h; injection h with h1 h2
      refine ⟨hna, h1.symm, h2.symm, fun hcon => absurd ?_ hc⟩
      simp only [Bool.or_eq_true, Bool.not_eq_true', decide_eq_true_eq]
      by_cases h3 : c.native c.feeAsset = true
      · right; intro h4; exact hcon ⟨h3, h4⟩
      · left; simpa using h3
  · rename_i hna
    right
    have hna' : c.native a = false := by simpa using hna
    refine ⟨hna', ?_⟩
    split at h
    · rename_i hnf
      have hnf' : c.native c.feeAsset = false := by simpa using hnf
      split at h
      · rename_i hne
        split at h
        · injection h with h; injection h with h1 h2
          have : ¬ (c.native c.feeAsset = false ∧ c.feeAsset = a) := fun hh => hne hh.2
          rw [if_neg this]
          exact ⟨by rw [← h1]; exact h2.symm, h1.symm⟩
        · cases h
      · rename_i hne
        have hne' : c.feeAsset = a := by simpa using hne
        split at h
        · split at h
          · injection h with h; injection h with h1 h2
            have : (c.native c.feeAsset = false ∧ c.feeAsset = a) := ⟨hnf', hne'⟩
            rw [if_pos this]
            exact ⟨by rw [← h1]; exact h2.symm, h1.symm⟩
          · cases h
        · cases h
        · cases h
    · rename_i hnf
      have hnf' : c.native c.feeAsset = true := by simpa using hnf
      split at h
      · injection h with h; injection h with h1 h2
        have : ¬ (c.native c.feeAsset = false ∧ c.feeAsset = a) := fun hh => by rw [hnf'] at hh; cases hh.1
        rw [if_neg this]
        exact ⟨by rw [← h1]; exact h2.symm, h1.symm⟩
      · cases h

theorem openFlow_delta {c : Cfg} {s s' : St} {e : Env} {a amount : Nat} {start end_ : Option Nat} {msgs : List Msg}
    (h : openFlow c s e a amount start end_ = .ok (s', msgs)) :
    ∃ x y m0 m1 f, openFlowFee c e a amount = .ok (x, m0) ∧ openFlowAsset c e a x = .ok (y, m1)
      ∧ msgs = m0 ++ m1
      ∧ s' = { s with flowCounter := s.flowCounter + 1, flows := insertFlow f s.flows }
      ∧ f.id = s.flowCounter + 1 ∧ f.creator = e.sender ∧ f.asset = a ∧ f.amount = y ∧ f.claimed = 0
      ∧ f.hist = [] ∧ INCENTIVE_MIN_FLOW_AMOUNT ≤ amount := by
  unfold openFlow at h
  obtain ⟨_, hg, h⟩ := bind_eq_ok h
  obtain ⟨⟨x, m0⟩, hfee, h⟩ := bind_eq_ok h
  dsimp only at h
  obtain ⟨_, _, h⟩ := bind_eq_ok h
  obtain ⟨⟨y, m1⟩, hasset, h⟩ := bind_eq_ok h
  dsimp only at h
  obtain ⟨_, _, h⟩ := bind_eq_ok h
  obtain ⟨_, _, h⟩ := bind_eq_ok h
  obtain ⟨_, _, h⟩ := bind_eq_ok h
  injection h with h; injection h with h1 h2
  refine ⟨x, y, m0, m1, _, hfee, hasset, h2.symm, h1.symm, rfl, rfl, rfl, rfl, rfl, rfl, ?_⟩
  simpa using guardErr_eq_ok hg

theorem expandFlow_delta {c : Cfg} {s s' : St} {e : Env} {id a amount : Nat} {end_ : Option Nat} {msgs : List Msg}
    (h : expandFlow c s e id a amount end_ = .ok (s', msgs)) :
    ∃ f f2 endE, findFlow s.flows id = some f ∧ f.asset = a
      ∧ expandFlowFunds c e a amount = .ok msgs
      ∧ addHist (resetFlow f e.epoch) e.epoch amount endE = .ok f2
      ∧ s' = { s with flows := insertFlow f2 (removeFlow s.flows id) } := by
  unfold expandFlow at h
  split at h
  · cases h
  · rename_i f hf
    dsimp only at h
    obtain ⟨_, _, h⟩ := bind_eq_ok h
    obtain ⟨_, hga, h⟩ := bind_eq_ok h
    obtain ⟨m, hm, h⟩ := bind_eq_ok h
    obtain ⟨_, _, h⟩ := bind_eq_ok h
    obtain ⟨f2, hf2, h⟩ := bind_eq_ok h
    obtain ⟨_, _, h⟩ := bind_eq_ok h
    obtain ⟨_, _, h⟩ := bind_eq_ok h
    injection h with h; injection h with h1 h2
    subst h2
    refine ⟨f, f2, end_.getD (if f.expanded.2 - e.epoch < INCENTIVE_FLOW_EXPANSION_BUFFER then f.expanded.2 + INCENTIVE_DEFAULT_FLOW_DURATION else f.expanded.2), hf, by simpa using guardErr_eq_ok hga, hm, ?_, h1.symm⟩
    exact hf2
end WW.Inc
