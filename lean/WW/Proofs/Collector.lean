/- Helper lemmas about `WW.Model.Collector` (the ForwardFees pipeline). Core Lean only. -/
import WW.Model.Collector
import WW.Model.Feeflow
import WW.Proofs.Distributor
namespace WW.Collector

/-! ### collection -/

theorem collectVaults_apply (l : Vault → Bool) (i : Nat) : ∀ (vs : List Vault) (b : Nat → Nat),
    collectVaults l vs b i = b i + vaultsCollected l i vs := by
  intro vs
  induction vs with
  | nil => intro b; simp [collectVaults, vaultsCollected]
  | cons v vs ih =>
    intro b
    simp only [collectVaults, vaultsCollected]
    rw [ih]
    unfold add
    by_cases h : v.asset = i
    · subst h; simp; omega
    · have h' : ¬ i = v.asset := fun e => h e.symm
      simp [h, h']

theorem collectPools_apply (l : Pool → Bool) (i : Nat) : ∀ (ps : List Pool) (b : Nat → Nat),
    collectPools l ps b i = b i + poolsCollected l i ps := by
  intro ps
  induction ps with
  | nil => intro b; simp [collectPools, poolsCollected]
  | cons p ps ih =>
    intro b
    simp only [collectPools, poolsCollected]
    rw [ih]
    unfold add
    by_cases ha : p.a = i <;> by_cases hb : p.b = i
    · subst ha; simp [hb]; omega
    · subst ha
      have hb' : ¬ p.a = p.b := fun e => hb e.symm
      simp [hb, hb']; omega
    · subst hb
      have ha' : ¬ p.b = p.a := fun e => ha e.symm
      simp [ha, ha']; omega
    · have ha' : ¬ i = p.a := fun e => ha e.symm
      have hb' : ¬ i = p.b := fun e => hb e.symm
      simp [ha, hb, ha', hb']

/-! ### aggregation -/

theorem aggregate_spec (dist : Nat) (router : Nat → Nat → Nat → Nat) (stage : Nat) (ps : List Pool)
    (routes : Nat → List (Nat × Nat)) :
    ∀ (cands : List Nat) (b b' : Nat → Nat) (inn : Nat) (sw : List (Nat × Nat × Nat)),
      (∀ c ∈ cands, c ≠ dist) →
      aggregate dist router stage ps routes cands b = .ok (b', inn, sw) →
      b' dist = b dist + inn ∧
      ∀ i, i ≠ dist → b' i = b i ∨ (b' i = 0 ∧ AGG_T < b i ∧ simOk ps (routes i) = true ∧ i ∈ cands) := by
  intro cands
  induction cands with
  | nil =>
    intro b b' inn sw _ h
    unfold aggregate at h
    injection h with h; injection h with h1 h2; injection h2 with h2 h3
    subst h1; subst h2
    exact ⟨by omega, fun i _ => Or.inl rfl⟩
  | cons c cs ih =>
    intro b b' inn sw hc h
    have hcd : c ≠ dist := hc c List.mem_cons_self
    have hcs : ∀ x ∈ cs, x ≠ dist := fun x hx => hc x (List.mem_cons_of_mem _ hx)
    unfold aggregate at h
    split at h
    · rename_i hcond
      split at h
      · cases hr : aggregate dist router stage ps routes cs (add (upd b c 0) dist (router stage c (b c))) with
        | err => rw [hr] at h; simp at h
        | panic => rw [hr] at h; simp at h
        | ok pr =>
          obtain ⟨b1, inn1, sw1⟩ := pr
          rw [hr] at h; simp only at h
          injection h with h; injection h with h1 h2; injection h2 with h2 h3
          subst h1; subst h2
          obtain ⟨i1, i2⟩ := ih _ b1 inn1 sw1 hcs hr
          constructor
          · rw [i1]; unfold add upd
            have : ¬ dist = c := fun e => hcd e.symm
            simp [this]; omega
          · intro i hi
            by_cases hic : i = c
            · subst hic
              right
              have hb0 : add (upd b i 0) dist (router stage i (b i)) i = 0 := by
                unfold add upd; simp [hi]
              cases i2 i hi with
              | inl hl => rw [hl, hb0]; exact ⟨rfl, hcond.1, hcond.2, List.mem_cons_self⟩
              | inr hr2 => exact ⟨hr2.1, hcond.1, hcond.2, List.mem_cons_self⟩
            · have hbi : add (upd b c 0) dist (router stage c (b c)) i = b i := by
                unfold add upd; simp [hi, hic]
              cases i2 i hi with
              | inl hl => left; rw [hl, hbi]
              | inr hr2 =>
                right
                rw [hbi] at hr2
                exact ⟨hr2.1, hr2.2.1, hr2.2.2.1, List.mem_cons_of_mem _ hr2.2.2.2⟩
      · cases h
    · obtain ⟨i1, i2⟩ := ih b b' inn sw hcs h
      refine ⟨i1, fun i hi => ?_⟩
      cases i2 i hi with
      | inl hl => exact Or.inl hl
      | inr hr2 => exact Or.inr ⟨hr2.1, hr2.2.1, hr2.2.2.1, List.mem_cons_of_mem _ hr2.2.2.2⟩

theorem vaultAssets_ne (cfg : Cfg) (l : Vault → Bool) (vs : List Vault) : ∀ c ∈ vaultAssets cfg l vs, c ≠ cfg.dist := by
  intro c hc
  unfold vaultAssets at hc
  have := (List.mem_filter.mp hc).2
  simp only [Bool.and_eq_true, bne_iff_ne, ne_eq] at this
  exact this.1

theorem poolAssets_ne (cfg : Cfg) (l : Pool → Bool) (ps : List Pool) : ∀ c ∈ poolAssets cfg l ps, c ≠ cfg.dist := by
  intro c hc
  unfold poolAssets at hc
  have := (List.mem_filter.mp hc).2
  simp only [Bool.and_eq_true, bne_iff_ne, ne_eq] at this
  exact this.1

/-! ### the whole pipeline -/

theorem forwardFees_spec {cfg : Cfg} {s : St} {sender epochId : Nat} {router : Nat → Nat → Nat → Nat}
    {acc : Nat → Nat → Nat} {o : Out} (h : forwardFees cfg s sender epochId router acc = .ok o) :
    sender = cfg.distributor ∧
    ∃ b2 in0 sw0 b3 in1 sw1,
      aggregate cfg.dist router 0 (poolsAfter (fwdPools s) s.pools) s.routes (vaultAssets cfg (fwdVaults s) s.vaults)
        (collectPools (fwdPools s) s.pools (collectVaults (fwdVaults s) s.vaults s.bal)) = .ok (b2, in0, sw0) ∧
      aggregate cfg.dist router 1 (poolsAfter (fwdPools s) s.pools) s.routes
        (poolAssets cfg (fwdPools s) (poolsAfter (fwdPools s) s.pools)) b2 = .ok (b3, in1, sw1) ∧
      takeOf s (b3 cfg.dist) ≤ b3 cfg.dist ∧
      o = { st := { s with bal := upd b3 cfg.dist 0,
                           dao := s.dao + takeOf s (b3 cfg.dist),
                           trh := if takeOf s (b3 cfg.dist) = 0 then s.trh else s.trh ++ [(epochId, takeOf s (b3 cfg.dist))],
                           pools := addAcc acc 0 (poolsAfter (fwdPools s) s.pools),
                           vaults := vaultsAfter (fwdVaults s) s.vaults },
            inflow := if b3 cfg.dist - takeOf s (b3 cfg.dist) = 0 then none else some (b3 cfg.dist - takeOf s (b3 cfg.dist)),
            take := takeOf s (b3 cfg.dist), base := b3 cfg.dist, swappedIn := in0 + in1, swaps := sw0 ++ sw1 } := by
  unfold forwardFees at h
  split at h
  · cases h
  · rename_i hs
    refine ⟨Classical.not_not.mp hs, ?_⟩
    simp only at h
    cases h0 : aggregate cfg.dist router 0 (poolsAfter (fwdPools s) s.pools) s.routes (vaultAssets cfg (fwdVaults s) s.vaults)
        (collectPools (fwdPools s) s.pools (collectVaults (fwdVaults s) s.vaults s.bal)) with
    | err => rw [h0] at h; simp at h
    | panic => rw [h0] at h; simp at h
    | ok pr =>
      obtain ⟨b2, in0, sw0⟩ := pr
      rw [h0] at h; simp only at h
      cases h1 : aggregate cfg.dist router 1 (poolsAfter (fwdPools s) s.pools) s.routes
          (poolAssets cfg (fwdPools s) (poolsAfter (fwdPools s) s.pools)) b2 with
      | err => rw [h1] at h; simp at h
      | panic => rw [h1] at h; simp at h
      | ok pr1 =>
        obtain ⟨b3, in1, sw1⟩ := pr1
        rw [h1] at h; simp only at h
        split at h
        · rename_i hle
          injection h with h
          exact ⟨b2, in0, sw0, b3, in1, sw1, rfl, h1, hle, h.symm⟩
        · cases h

theorem takeOf_le_of_rate_lt (s : St) (tb : Nat) (hr : s.rate < E18) : takeOf s tb ≤ tb := by
  unfold takeOf
  split
  · split
    · have h1 : tb * s.rate ≤ tb * E18 := Nat.mul_le_mul_left tb (Nat.le_of_lt hr)
      have h2 : tb * s.rate / E18 ≤ tb * E18 / E18 := Nat.div_le_div_right h1
      rw [Nat.mul_div_cancel tb E18_pos] at h2
      exact h2
    · exact Nat.zero_le _
  · exact Nat.zero_le _

/-! ### `CollectFees` / `AggregateFees` sent directly -/

theorem collectFees_any_sender (s : St) (a b : Nat) (f : FeesFor) : collectFees s a f = collectFees s b f := by
  cases f <;> rfl

theorem aggregateFees_any_sender (cfg : Cfg) (s : St) (a b : Nat) (f : FeesFor) (router : Nat → Nat → Nat → Nat)
    (acc : Nat → Nat → Nat) : aggregateFees cfg s a f router acc = aggregateFees cfg s b f router acc := rfl

theorem add_apply (b : Nat → Nat) (x u i : Nat) : add b x u i = b i + (if x = i then u else 0) := by
  unfold add
  by_cases h : x = i
  · subst h; simp
  · have h' : ¬ i = x := fun e => h e.symm
    simp [h, h']

theorem sent_add_kept (r : Bool) (p : Nat) : sent r p + kept r p = p := by
  unfold sent kept
  split <;> omega

theorem vsent_add_vkept (l : Bool) (p : Nat) : vsent l p + vkept l p = p := by
  unfold vsent vkept
  split <;> omega

theorem poolsPending_after (l : Pool → Bool) (i : Nat) : ∀ ps : List Pool,
    poolsPending i (poolsAfter l ps) + poolsCollected l i ps = poolsPending i ps := by
  intro ps
  induction ps with
  | nil => rfl
  | cons p ps ih =>
    have ih' : poolsPending i (List.map (fun p => { p with pa := kept (l p) p.pa, pb := kept (l p) p.pb }) ps)
        + poolsCollected l i ps = poolsPending i ps := ih
    simp only [poolsAfter, List.map, poolsPending, poolsCollected]
    have h1 := sent_add_kept (l p) p.pa
    have h2 := sent_add_kept (l p) p.pb
    by_cases ha : p.a = i <;> by_cases hb : p.b = i <;> simp only [ha, hb, if_true, if_false] <;> omega

/-- what a page collection takes out of the vaults' pending ledgers is what it moves into the collector -/
theorem vaultsPending_after (l : Vault → Bool) (i : Nat) : ∀ vs : List Vault,
    vaultsPending i (vaultsAfter l vs) + vaultsCollected l i vs = vaultsPending i vs := by
  intro vs
  induction vs with
  | nil => rfl
  | cons v vs ih =>
    have ih' : vaultsPending i (List.map (fun v => { v with pend := vkept (l v) v.pend }) vs)
        + vaultsCollected l i vs = vaultsPending i vs := ih
    simp only [vaultsAfter, List.map, vaultsPending, vaultsCollected]
    have h1 := vsent_add_vkept (l v) v.pend
    by_cases ha : v.asset = i <;> simp only [ha, if_true, if_false] <;> omega

theorem vaultsPending_set (i : Nat) : ∀ (vs : List Vault) (k : Nat) (v : Vault), vs[k]? = some v →
    vaultsPending i (vs.set k { v with pend := 0 }) + (if v.asset = i then v.pend else 0) =
      vaultsPending i vs := by
  intro vs
  induction vs with
  | nil => intro k v h; simp at h
  | cons w ws ih =>
    intro k v h
    cases k with
    | zero =>
      simp only [List.getElem?_cons_zero, Option.some.injEq] at h
      subst h
      simp only [List.set, vaultsPending]
      split <;> omega
    | succ k =>
      simp only [List.getElem?_cons_succ] at h
      have := ih k v h
      simp only [List.set, vaultsPending]
      omega

theorem poolsPending_set (i : Nat) : ∀ (ps : List Pool) (k : Nat) (p : Pool), ps[k]? = some p →
    poolsPending i (ps.set k { p with pa := kept true p.pa, pb := kept true p.pb }) +
      ((if p.a = i then sent true p.pa else 0) + (if p.b = i then sent true p.pb else 0)) =
      poolsPending i ps := by
  intro ps
  induction ps with
  | nil => intro k p h; simp at h
  | cons q qs ih =>
    intro k p h
    cases k with
    | zero =>
      simp only [List.getElem?_cons_zero, Option.some.injEq] at h
      subst h
      simp only [List.set, poolsPending]
      have h1 := sent_add_kept true q.pa
      have h2 := sent_add_kept true q.pb
      by_cases ha : q.a = i <;> by_cases hb : q.b = i <;> simp only [ha, hb, if_true, if_false] <;> omega
    | succ k =>
      simp only [List.getElem?_cons_succ] at h
      have := ih k p h
      simp only [List.set, poolsPending]
      omega

/-- a direct `CollectFees`: the collector's balance of every asset grows by exactly what the named
    contracts send, and that is exactly what leaves their pending ledgers -/
theorem collectFees_spec {s s' : St} {sender : Nat} {f : FeesFor} (h : collectFees s sender f = .ok s') (i : Nat) :
    s'.bal i = s.bal i + directCollected s f i ∧
    vaultsPending i s'.vaults + poolsPending i s'.pools + directCollected s f i =
      vaultsPending i s.vaults + poolsPending i s.pools := by
  cases f with
  | vaultFactory lim =>
    simp only [collectFees] at h
    injection h with h; subst h
    simp only [directCollected]
    refine ⟨collectVaults_apply _ i _ _, ?_⟩
    have := vaultsPending_after (vaultListed s.vaults (vaultPage lim)) i s.vaults
    omega
  | poolFactory lim =>
    simp only [collectFees] at h
    injection h with h; subst h
    simp only [directCollected]
    refine ⟨collectPools_apply _ i _ _, ?_⟩
    have := poolsPending_after (poolListed s.pools (poolPage lim)) i s.pools
    omega
  | wrongFactory => simp only [collectFees] at h; cases h
  | onePool k =>
    simp only [collectFees] at h
    cases hk : s.pools[k]? with
    | none => rw [hk] at h; cases h
    | some p =>
      rw [hk] at h; simp only at h
      injection h with h; subst h
      simp only [directCollected, hk]
      refine ⟨?_, ?_⟩
      · rw [add_apply, add_apply]; omega
      · have := poolsPending_set i s.pools k p hk
        omega
  | oneVault k =>
    simp only [collectFees] at h
    cases hk : s.vaults[k]? with
    | none => rw [hk] at h; cases h
    | some v =>
      rw [hk] at h; simp only at h
      injection h with h; subst h
      simp only [directCollected, hk]
      refine ⟨add_apply _ _ _ _, ?_⟩
      have := vaultsPending_set i s.vaults k v hk
      omega

/-- a direct `CollectFees` touches nothing but the collector's balances and the pending ledgers -/
theorem collectFees_rest {s s' : St} {sender : Nat} {f : FeesFor} (h : collectFees s sender f = .ok s') :
    s'.dao = s.dao ∧ s'.trh = s.trh ∧ s'.rate = s.rate ∧ s'.active = s.active ∧ s'.daoSet = s.daoSet ∧
    s'.routes = s.routes := by
  cases f with
  | vaultFactory lim => simp only [collectFees] at h; injection h with h; subst h; exact ⟨rfl, rfl, rfl, rfl, rfl, rfl⟩
  | poolFactory lim => simp only [collectFees] at h; injection h with h; subst h; exact ⟨rfl, rfl, rfl, rfl, rfl, rfl⟩
  | wrongFactory => simp only [collectFees] at h; cases h
  | onePool k =>
    simp only [collectFees] at h
    cases hk : s.pools[k]? with
    | none => rw [hk] at h; cases h
    | some p => rw [hk] at h; simp only at h; injection h with h; subst h; exact ⟨rfl, rfl, rfl, rfl, rfl, rfl⟩
  | oneVault k =>
    simp only [collectFees] at h
    cases hk : s.vaults[k]? with
    | none => rw [hk] at h; cases h
    | some v => rw [hk] at h; simp only at h; injection h with h; subst h; exact ⟨rfl, rfl, rfl, rfl, rfl, rfl⟩

theorem aggregateFees_spec {cfg : Cfg} {s s' : St} {sender : Nat} {f : FeesFor} {router : Nat → Nat → Nat → Nat}
    {acc : Nat → Nat → Nat} {inn : Nat} {sw : List (Nat × Nat × Nat)}
    (h : aggregateFees cfg s sender f router acc = .ok (s', inn, sw)) :
    ∃ cands b, aggCands cfg s f = some cands ∧ (∀ c ∈ cands, c ≠ cfg.dist) ∧
      aggregate cfg.dist router 0 s.pools s.routes cands s.bal = .ok (b, inn, sw) ∧
      s' = { s with bal := b, pools := addAcc acc 0 s.pools } := by
  unfold aggregateFees at h
  cases hc : aggCands cfg s f with
  | none => rw [hc] at h; cases h
  | some cands =>
    rw [hc] at h; simp only at h
    have hne : ∀ c ∈ cands, c ≠ cfg.dist := by
      cases f with
      | vaultFactory lim =>
        simp only [aggCands, Option.some.injEq] at hc; subst hc; exact vaultAssets_ne cfg _ s.vaults
      | poolFactory lim =>
        simp only [aggCands, Option.some.injEq] at hc; subst hc; exact poolAssets_ne cfg _ s.pools
      | wrongFactory => simp [aggCands] at hc
      | onePool k => simp [aggCands] at hc
      | oneVault k => simp [aggCands] at hc
    cases ha : aggregate cfg.dist router 0 s.pools s.routes cands s.bal with
    | err => rw [ha] at h; cases h
    | panic => rw [ha] at h; cases h
    | ok pr =>
      obtain ⟨b, inn1, sw1⟩ := pr
      rw [ha] at h; simp only at h
      injection h with h; injection h with h1 h2; injection h2 with h2 h3
      subst h2; subst h3
      exact ⟨cands, b, rfl, hne, ha, h1.symm⟩

/-! ### factory pages: a page at least as long as the factory's map lists every entry -/

theorem keyLt_irrefl (k : Nat × Nat) : keyLt k k = false := by
  simp [keyLt]

theorem poolRank_le_regCount (k : Nat × Nat) : ∀ ps : List Pool, poolRank k ps ≤ regCount ps := by
  intro ps
  induction ps with
  | nil => exact Nat.le_refl _
  | cons q qs ih =>
    simp only [poolRank, regCount]
    cases hr : q.reg <;> cases hk : keyLt (poolKey q) k <;> simp <;> omega

/-- a registered pair of the list is not counted in its own rank -/
theorem poolRank_lt_regCount : ∀ (ps : List Pool) (p : Pool), p ∈ ps → p.reg = true →
    poolRank (poolKey p) ps < regCount ps := by
  intro ps
  induction ps with
  | nil => intro p hp; cases hp
  | cons q qs ih =>
    intro p hp hr
    simp only [poolRank, regCount]
    cases List.mem_cons.mp hp with
    | inl he =>
      subst he
      have := poolRank_le_regCount (poolKey p) qs
      rw [hr, keyLt_irrefl]
      simp
      omega
    | inr hm =>
      have := ih p hm hr
      cases hq : q.reg <;> cases hk : keyLt (poolKey q) (poolKey p) <;> simp <;> omega

theorem vaultRank_le_length (a : Nat) : ∀ vs : List Vault, vaultRank a vs ≤ vs.length := by
  intro vs
  induction vs with
  | nil => exact Nat.le_refl _
  | cons w ws ih =>
    simp only [vaultRank, List.length_cons]
    split <;> omega

theorem vaultRank_lt_length : ∀ (vs : List Vault) (v : Vault), v ∈ vs → vaultRank v.asset vs < vs.length := by
  intro vs
  induction vs with
  | nil => intro v hv; cases hv
  | cons w ws ih =>
    intro v hv
    simp only [vaultRank, List.length_cons]
    cases List.mem_cons.mp hv with
    | inl he =>
      subst he
      have := vaultRank_le_length v.asset ws
      simp only [Nat.lt_irrefl, if_false]
      omega
    | inr hm =>
      have := ih v hm
      split <;> omega

theorem poolListed_of_regCount_le {ps : List Pool} {n : Nat} (h : regCount ps ≤ n) :
    ∀ p ∈ ps, poolListed ps n p = p.reg := by
  intro p hp
  unfold poolListed
  cases hr : p.reg with
  | false => rfl
  | true =>
    have := poolRank_lt_regCount ps p hp hr
    simp only [Bool.true_and, decide_eq_true_eq]
    omega

theorem vaultListed_of_length_le {vs : List Vault} {n : Nat} (h : vs.length ≤ n) :
    ∀ v ∈ vs, vaultListed vs n v = true := by
  intro v hv
  unfold vaultListed
  have := vaultRank_lt_length vs v hv
  simp only [decide_eq_true_eq]
  omega

theorem poolsAfter_congr {l l' : Pool → Bool} : ∀ ps : List Pool, (∀ p ∈ ps, l p = l' p) →
    poolsAfter l ps = poolsAfter l' ps := by
  intro ps
  induction ps with
  | nil => intro _; rfl
  | cons p ps ih =>
    intro h
    have hp := h p List.mem_cons_self
    have ht : poolsAfter l ps = poolsAfter l' ps := ih fun q hq => h q (List.mem_cons_of_mem _ hq)
    simp only [poolsAfter, List.map] at ht ⊢
    rw [hp, ht]

theorem poolsCollected_congr {l l' : Pool → Bool} (i : Nat) : ∀ ps : List Pool, (∀ p ∈ ps, l p = l' p) →
    poolsCollected l i ps = poolsCollected l' i ps := by
  intro ps
  induction ps with
  | nil => intro _; rfl
  | cons p ps ih =>
    intro h
    have hp := h p List.mem_cons_self
    have ht := ih fun q hq => h q (List.mem_cons_of_mem _ hq)
    simp only [poolsCollected]
    rw [hp, ht]

/-- when every vault is on the page, all pending vault fees are collected and every vault is emptied -/
theorem vaultsCollected_all {l : Vault → Bool} (i : Nat) : ∀ vs : List Vault, (∀ v ∈ vs, l v = true) →
    vaultsCollected l i vs = vaultsPending i vs := by
  intro vs
  induction vs with
  | nil => intro _; rfl
  | cons v vs ih =>
    intro h
    have hv := h v List.mem_cons_self
    have ht := ih fun q hq => h q (List.mem_cons_of_mem _ hq)
    simp only [vaultsCollected, vaultsPending, vsent]
    rw [hv, ht]
    simp only [if_true]

theorem vaultsAfter_all {l : Vault → Bool} : ∀ vs : List Vault, (∀ v ∈ vs, l v = true) →
    vaultsAfter l vs = vs.map fun v => { v with pend := 0 } := by
  intro vs
  induction vs with
  | nil => intro _; rfl
  | cons v vs ih =>
    intro h
    have hv := h v List.mem_cons_self
    have ht : vaultsAfter l vs = vs.map fun v => { v with pend := 0 } :=
      ih fun q hq => h q (List.mem_cons_of_mem _ hq)
    simp only [vaultsAfter, List.map, vkept] at ht ⊢
    rw [hv, ht]
    simp only [if_true]

/-- STRAY COINS on a collection: a direct `CollectFees` from a state whose collector balance was first
    increased by `x` of asset `a` (coins attached to the message) succeeds exactly when it succeeds without
    them, leaves the same pending ledgers behind, and every collector balance is the one after the plain
    collection plus the attached coins: nothing of them reaches a pair or a vault, and they do not change
    what is collected -/
theorem collectFees_gift {s c' : St} {sender a x : Nat} {f : FeesFor}
    (h : collectFees { s with bal := add s.bal a x } sender f = .ok c') :
    ∃ c0, collectFees s sender f = .ok c0 ∧ c'.pools = c0.pools ∧ c'.vaults = c0.vaults ∧
      (∀ i, c'.bal i = c0.bal i + (if a = i then x else 0)) ∧
      c'.dao = c0.dao ∧ c'.trh = c0.trh ∧ c'.rate = c0.rate ∧ c'.active = c0.active ∧
      c'.daoSet = c0.daoSet ∧ c'.routes = c0.routes := by
  cases f with
  | vaultFactory lim =>
    simp only [collectFees] at h ⊢
    injection h with h; subst h
    refine ⟨_, rfl, rfl, rfl, fun i => ?_, rfl, rfl, rfl, rfl, rfl, rfl⟩
    simp only
    rw [collectVaults_apply, collectVaults_apply, add_apply]; omega
  | poolFactory lim =>
    simp only [collectFees] at h ⊢
    injection h with h; subst h
    refine ⟨_, rfl, rfl, rfl, fun i => ?_, rfl, rfl, rfl, rfl, rfl, rfl⟩
    simp only
    rw [collectPools_apply, collectPools_apply, add_apply]; omega
  | wrongFactory => simp only [collectFees] at h; cases h
  | onePool k =>
    simp only [collectFees] at h ⊢
    cases hk : s.pools[k]? with
    | none => rw [hk] at h; cases h
    | some p =>
      rw [hk] at h; simp only at h ⊢
      injection h with h; subst h
      refine ⟨_, rfl, rfl, rfl, fun i => ?_, rfl, rfl, rfl, rfl, rfl, rfl⟩
      simp only
      rw [add_apply, add_apply, add_apply, add_apply, add_apply]; omega
  | oneVault k =>
    simp only [collectFees] at h ⊢
    cases hk : s.vaults[k]? with
    | none => rw [hk] at h; cases h
    | some v =>
      rw [hk] at h; simp only at h ⊢
      injection h with h; subst h
      refine ⟨_, rfl, rfl, rfl, fun i => ?_, rfl, rfl, rfl, rfl, rfl, rfl⟩
      simp only
      rw [add_apply, add_apply, add_apply]; omega

end WW.Collector

/-! ### the joint machine projects onto the distributor's ledger machine -/
namespace WW.Feeflow
open WW

theorem ofCode_ok {r : Nat} {s s' : St} (h : ofCode r s = .ok s') : s' = s := by
  unfold ofCode at h
  split at h
  · injection h with h; exact h.symm
  · split at h <;> cases h

/-- every successful operation of the joint machine — including the directly sent `CollectFees` /
    `AggregateFees` and everything that happens on pairs, vaults, the router and the lair — either
    leaves the distributor's ledger state untouched or is one operation of `Distributor.step` -/
theorem step_projects_base {cfg : Cfg} {s s' : St} {op : Op} (hb : isCoins op = false)
    (h : step cfg s op = .ok s') :
    s'.d = s.d ∨ ∃ dop, Distributor.step cfg.d s.d dop = .ok s'.d ∧
      (hasNewEpoch op = false → ∀ n i, dop ≠ .newEpoch n i) := by
  cases op with
  | coins payer asset amount op => cases hb
  | xfail code op => cases hb
  | reenter trig caught hacc inner outer => cases hb
  | inloan k amount mode vbal fees inner => cases hb
  | newEpoch now router acc =>
    right
    simp only [step] at h
    cases hn : newEpoch cfg s now router acc with
    | err => rw [hn] at h; cases h
    | panic => rw [hn] at h; cases h
    | ok pr =>
      obtain ⟨s1, o⟩ := pr
      rw [hn] at h; simp only at h
      injection h with h; subst h
      unfold newEpoch at hn
      cases hne : Distributor.nextEpoch cfg.d s.d now with
      | err => rw [hne] at hn; cases hn
      | panic => rw [hne] at hn; cases hn
      | ok pr =>
        obtain ⟨id, start⟩ := pr
        rw [hne] at hn; simp only at hn
        cases hf : Collector.forwardFees (ccfg cfg s) (cview s) cfg.c.distributor id router acc with
        | err => rw [hf] at hn; cases hn
        | panic => rw [hf] at hn; cases hn
        | ok o1 =>
          rw [hf] at hn; simp only at hn
          cases hr : Distributor.receiveEpoch s.d id start o1.inflow with
          | err => rw [hr] at hn; cases hn
          | panic => rw [hr] at hn; cases hn
          | ok d' =>
            rw [hr] at hn; simp only at hn
            injection hn with hn; injection hn with h1 h2
            subst h1
            refine ⟨.newEpoch now o1.inflow, ?_, fun hh => by simp [hasNewEpoch] at hh⟩
            simp only [Distributor.step, Distributor.newEpoch, hne, hr]
  | claim u ans =>
    right
    simp only [step] at h
    cases hc : Distributor.claim s.d u (s.view u) ans with
    | err => rw [hc] at h; cases h
    | panic => rw [hc] at h; cases h
    | ok pr =>
      obtain ⟨d', paid⟩ := pr
      rw [hc] at h; simp only at h
      injection h with h; subst h
      exact ⟨.claim u (s.view u) ans, by simp only [Distributor.step, hc], fun _ n i hh => by cases hh⟩
  | bond u res view =>
    left
    simp only [step] at h
    split at h
    · cases h
    · rw [ofCode_ok h]
  | grace sender g =>
    right
    simp only [step] at h
    cases hg : Distributor.updateGrace cfg.d s.d sender g with
    | err => rw [hg] at h; cases h
    | panic => rw [hg] at h; cases h
    | ok d' =>
      rw [hg] at h; simp only at h
      injection h with h; subst h
      exact ⟨.grace sender g, by simp only [Distributor.step, hg], fun _ n i hh => by cases hh⟩
  | colcfg sender rate setDao active =>
    left
    simp only [step] at h
    cases hc : Collector.updateConfig cfg.c s.c sender rate setDao active with
    | err => rw [hc] at h; cases h
    | panic => rw [hc] at h; cases h
    | ok c' => rw [hc] at h; simp only at h; injection h with h; subst h; rfl
  | fwd sender =>
    left
    simp only [step] at h
    cases hc : Collector.forwardFees (ccfg cfg s) (cview s) sender 0 (fun _ _ _ => 0) (fun _ _ => 0) with
    | err => rw [hc] at h; cases h
    | panic => rw [hc] at h; cases h
    | ok o => rw [hc] at h; simp only at h; injection h with h; subst h; rfl
  | swap res pool side fee => left; simp only [step] at h; rw [ofCode_ok h]
  | loan res vault fee => left; simp only [step] at h; rw [ofCode_ok h]
  | gift toCol asset amount =>
    simp only [step] at h
    split at h
    · left; injection h with h; subst h; rfl
    · right; injection h with h; subst h
      exact ⟨.gift asset amount, rfl, fun _ n i hh => by cases hh⟩
  | addRoute sender offer ask hops =>
    left
    simp only [step] at h
    split at h
    · cases h
    · split at h
      · injection h with h; subst h; rfl
      · cases h
  | rmRoute sender offer ask =>
    left
    simp only [step] at h
    split at h
    · cases h
    · split at h
      · cases h
      · injection h with h; subst h; rfl
  | setDist sender asset =>
    right
    simp only [step] at h
    cases hg : Distributor.setDist cfg.d s.d sender asset with
    | err => rw [hg] at h; cases h
    | panic => rw [hg] at h; cases h
    | ok d' =>
      rw [hg] at h; simp only at h
      injection h with h; subst h
      exact ⟨.setDist sender asset, by simp only [Distributor.step, hg], fun _ n i hh => by cases hh⟩
  | unreg sender pool =>
    left
    simp only [step] at h
    split at h
    · cases h
    · split at h
      · split at h
        · injection h with h; subst h; rfl
        · cases h
      · cases h
  | toggle sender pool on =>
    left
    simp only [step] at h
    split at h
    · cases h
    · injection h with h; subst h; rfl
  | collect sender f =>
    left
    simp only [step] at h
    cases hc : Collector.collectFees s.c sender f with
    | err => rw [hc] at h; cases h
    | panic => rw [hc] at h; cases h
    | ok c' => rw [hc] at h; simp only at h; injection h with h; subst h; rfl
  | aggregate sender f router acc =>
    left
    simp only [step] at h
    cases hc : Collector.aggregateFees (ccfg cfg s) (cview s) sender f router acc with
    | err => rw [hc] at h; cases h
    | panic => rw [hc] at h; cases h
    | ok pr =>
      obtain ⟨c', inn, sw⟩ := pr
      rw [hc] at h; simp only at h; injection h with h; subst h; rfl

/-- the bank's part of a message with coins attached leaves the distributor's ledger state untouched or is
    a gift to the distributor -/
theorem pay_projects {cfg : Cfg} {s s1 : St} {payer asset amount : Nat} {t : Target}
    (h : pay cfg s payer asset amount t = .ok s1) :
    s1.d = s.d ∨ s1.d = Distributor.gift s.d asset amount := by
  cases t with
  | nobody => cases h
  | collector =>
    simp only [pay] at h
    split at h
    · cases h
    · injection h with h; subst h; exact Or.inl rfl
  | distributor =>
    simp only [pay] at h
    split at h
    · cases h
    · injection h with h; subst h; exact Or.inr rfl
  | router =>
    simp only [pay] at h
    split at h
    · cases h
    · injection h with h; subst h; exact Or.inl rfl
  | lair =>
    simp only [pay] at h
    split at h
    · cases h
    · injection h with h; subst h; exact Or.inl rfl

theorem pay_collector_ok {cfg : Cfg} {s s1 : St} {payer a x : Nat} (h : pay cfg s payer a x .collector = .ok s1) :
    s1 = { s with ub := ubAfterPay cfg s payer a x, c := { s.c with bal := Collector.add s.c.bal a x } } := by
  simp only [pay] at h
  split at h
  · cases h
  · injection h with h; exact h.symm

theorem pay_distributor_ok {cfg : Cfg} {s s1 : St} {payer a x : Nat} (h : pay cfg s payer a x .distributor = .ok s1) :
    s1 = { s with ub := ubAfterPay cfg s payer a x, d := Distributor.gift s.d a x } := by
  simp only [pay] at h
  split at h
  · cases h
  · injection h with h; exact h.symm

theorem dreach_append (cfg : Distributor.Cfg) : ∀ (xs ys : List Distributor.Op) (s : Distributor.St),
    Distributor.reach cfg s (xs ++ ys) = Distributor.reach cfg (Distributor.reach cfg s xs) ys := by
  intro xs
  induction xs with
  | nil => intro ys s; rfl
  | cons x xs ih =>
    intro ys s
    simp only [List.cons_append, Distributor.reach]
    cases Distributor.step cfg s x with
    | ok s' => exact ih ys s'
    | err => exact ih ys s
    | panic => exact ih ys s

/-! ### re-entrancy: the hooked pipeline touches the distributor only through the nested message and the final reply -/

/-- `d'` is reached from `d` by a history of the distributor's own machine -/
def DR (cfg : Cfg) (d d' : Distributor.St) : Prop := ∃ dops, d' = Distributor.reach cfg.d d dops

theorem DR.refl (cfg : Cfg) (d : Distributor.St) : DR cfg d d := ⟨[], rfl⟩
theorem DR.trans {cfg : Cfg} {a b c : Distributor.St} (h1 : DR cfg a b) (h2 : DR cfg b c) : DR cfg a c := by
  obtain ⟨x, hx⟩ := h1
  obtain ⟨y, hy⟩ := h2
  exact ⟨x ++ y, by rw [hy, hx, dreach_append]⟩
theorem DR.one {cfg : Cfg} {d d' : Distributor.St} {dop : Distributor.Op} (h : Distributor.step cfg.d d dop = .ok d') :
    DR cfg d d' := ⟨[dop], by simp only [Distributor.reach, h]⟩
theorem DR.gift (cfg : Cfg) (d : Distributor.St) (a x : Nat) : DR cfg d (Distributor.gift d a x) :=
  DR.one (dop := .gift a x) rfl

/-- the newest epoch has the same id and start time: `create_new_epoch` computes the same next epoch -/
def SameCur (d d' : Distributor.St) : Prop :=
  (Distributor.current d').id = (Distributor.current d).id ∧ (Distributor.current d').start = (Distributor.current d).start

theorem SameCur.refl (d : Distributor.St) : SameCur d d := ⟨rfl, rfl⟩
theorem SameCur.trans {a b c : Distributor.St} (h1 : SameCur a b) (h2 : SameCur b c) : SameCur a c :=
  ⟨h2.1.trans h1.1, h2.2.trans h1.2⟩
theorem SameCur.of_epochs {d d' : Distributor.St} (h : d'.epochs = d.epochs) : SameCur d d' := by
  unfold SameCur Distributor.current; rw [h]; exact ⟨rfl, rfl⟩

theorem nextEpoch_congr {cfg : Distributor.Cfg} {d d' : Distributor.St} (h : SameCur d d') (now : Nat) :
    Distributor.nextEpoch cfg d' now = Distributor.nextEpoch cfg d now := by
  unfold Distributor.nextEpoch
  simp only
  rw [h.1, h.2]

theorem claimEpoch_idstart {e e' : Distributor.Epoch} {a : Distributor.LairAns} {acc acc' : Distributor.Ledger}
    (h : Distributor.claimEpoch e a acc = .ok (e', acc')) : e'.id = e.id ∧ e'.start = e.start := by
  unfold Distributor.claimEpoch at h
  cases a with
  | err => cases h
  | panic => cases h
  | share sh =>
    simp only at h
    cases hf : Distributor.claimFees sh e.total e.avail e.claimed acc with
    | err => rw [hf] at h; cases h
    | panic => rw [hf] at h; cases h
    | ok tr =>
      obtain ⟨av1, cl1, acc1⟩ := tr
      rw [hf] at h; simp only at h
      injection h with h; injection h with h1 h2
      subst h1
      exact ⟨rfl, rfl⟩

theorem claimWalk_idstart (ans : Nat → Distributor.LairAns) (b : Nat) :
    ∀ (n : Nat) (es : List Distributor.Epoch) (acc : Distributor.Ledger) (es' : List Distributor.Epoch) (t : Distributor.Ledger),
      Distributor.claimWalk ans b n es acc = .ok (es', t) →
      es'.map (fun e => (e.id, e.start)) = es.map (fun e => (e.id, e.start)) := by
  intro n
  induction n with
  | zero =>
    intro es acc es' t h
    unfold Distributor.claimWalk at h
    injection h with h; injection h with h1 h2
    subst h1; rfl
  | succ n ih =>
    intro es acc es' t h
    cases es with
    | nil =>
      unfold Distributor.claimWalk at h
      injection h with h; injection h with h1 h2
      subst h1; rfl
    | cons e es =>
      unfold Distributor.claimWalk at h
      split at h
      · cases hc : Distributor.claimEpoch e (ans e.id) acc with
        | err => rw [hc] at h; cases h
        | panic => rw [hc] at h; cases h
        | ok pr =>
          obtain ⟨e1, acc1⟩ := pr
          rw [hc] at h; simp only at h
          cases hw : Distributor.claimWalk ans b n es acc1 with
          | err => rw [hw] at h; cases h
          | panic => rw [hw] at h; cases h
          | ok pr2 =>
            obtain ⟨es1, t1⟩ := pr2
            rw [hw] at h; simp only at h
            injection h with h; injection h with h1 h2
            subst h1
            obtain ⟨i1, i2⟩ := claimEpoch_idstart hc
            simp only [List.map_cons, i1, i2, ih es acc1 es1 t1 hw]
      · cases hw : Distributor.claimWalk ans b n es acc with
        | err => rw [hw] at h; cases h
        | panic => rw [hw] at h; cases h
        | ok pr2 =>
          obtain ⟨es1, t1⟩ := pr2
          rw [hw] at h; simp only at h
          injection h with h; injection h with h1 h2
          subst h1
          simp only [List.map_cons, ih es acc es1 t1 hw]

theorem sameCur_of_map {d d' : Distributor.St}
    (h : d'.epochs.map (fun e => (e.id, e.start)) = d.epochs.map (fun e => (e.id, e.start))) : SameCur d d' := by
  unfold SameCur Distributor.current
  cases h1 : d.epochs with
  | nil =>
    rw [h1] at h
    cases h2 : d'.epochs with
    | nil => exact ⟨rfl, rfl⟩
    | cons e es => rw [h2] at h; cases h
  | cons e es =>
    rw [h1] at h
    cases h2 : d'.epochs with
    | nil => rw [h2] at h; cases h
    | cons e' es' =>
      rw [h2] at h
      simp only [List.map_cons, List.cons.injEq, Prod.mk.injEq] at h
      exact ⟨h.1.1, h.1.2⟩

/-- every operation of the distributor's machine except `NewEpoch` keeps the newest epoch's id and start -/
theorem dstep_sameCur {cfg : Distributor.Cfg} {d d' : Distributor.St} {dop : Distributor.Op}
    (h : Distributor.step cfg d dop = .ok d') (hn : ∀ n i, dop ≠ .newEpoch n i) : SameCur d d' := by
  cases dop with
  | newEpoch n i => exact absurd rfl (hn n i)
  | claim u view ans =>
    simp only [Distributor.step] at h
    cases hc : Distributor.claim d u view ans with
    | err => rw [hc] at h; cases h
    | panic => rw [hc] at h; cases h
    | ok pr =>
      obtain ⟨d1, paid⟩ := pr
      rw [hc] at h; simp only at h
      injection h with h; subst h
      obtain ⟨b, top, rest, es', bal', _, _, hw, _, hs'⟩ := Distributor.claim_spec hc
      subst hs'
      exact sameCur_of_map (claimWalk_idstart ans b d.grace d.epochs [] es' paid hw)
  | grace sender g =>
    simp only [Distributor.step] at h
    obtain ⟨hs', _⟩ := Distributor.updateGrace_spec h
    subst hs'
    exact SameCur.of_epochs rfl
  | gift a x =>
    simp only [Distributor.step] at h
    injection h with h; subst h
    exact SameCur.of_epochs rfl
  | setDist sender a =>
    simp only [Distributor.step] at h
    obtain ⟨hs', _⟩ := Distributor.setDist_spec h
    subst hs'
    exact SameCur.of_epochs rfl

/-- a predicate on (distributor state, TMP_EPOCH, the `fired` flag) that the hostile contract's nested message preserves -/
def FirePres (hk : Hook) (Q : Distributor.St → Option (Nat × Nat) → Nat → Prop) : Prop :=
  ∀ h h', fire hk h = .ok h' → Q h.s.d h.tmp h.fired → Q h'.s.d h'.tmp h'.fired

theorem accrueS_d (l : List (Nat × Nat × Nat)) (s : St) : (accrueS l s).d = s.d := rfl

theorem collectPoolsH_pres {hk : Hook} {Q : Distributor.St → Option (Nat × Nat) → Nat → Prop} (hf : FirePres hk Q)
    {l : Collector.Pool → Bool} {h h' : HS} (e : collectPoolsH hk l h = .ok h') (hq : Q h.s.d h.tmp h.fired) :
    Q h'.s.d h'.tmp h'.fired := by
  unfold collectPoolsH at e
  split at e
  · split at e
    · split at e
      · rename_i k hp _ _
        cases hfi : fire hk { h with s := colPools (fun p => l p && Collector.keyLt (Collector.poolKey p) (Collector.poolKey hp)) h.s } with
        | err => rw [hfi] at e; cases e
        | panic => rw [hfi] at e; cases e
        | ok h1 =>
          rw [hfi] at e; simp only at e
          injection e with e; subst e
          have := hf _ _ hfi hq
          exact this
      · injection e with e; subst e; exact hq
    · injection e with e; subst e; exact hq
  · injection e with e; subst e; exact hq

theorem collectVaultsH_pres {hk : Hook} {Q : Distributor.St → Option (Nat × Nat) → Nat → Prop} (hf : FirePres hk Q)
    {l : Collector.Vault → Bool} {h h' : HS} (e : collectVaultsH hk l h = .ok h') (hq : Q h.s.d h.tmp h.fired) :
    Q h'.s.d h'.tmp h'.fired := by
  unfold collectVaultsH at e
  split at e
  · split at e
    · split at e
      · rename_i k hv _ _
        cases hfi : fire hk { h with s := colVaults (fun v => l v && decide (v.asset < hv.asset)) h.s } with
        | err => rw [hfi] at e; cases e
        | panic => rw [hfi] at e; cases e
        | ok h1 =>
          rw [hfi] at e; simp only at e
          injection e with e; subst e
          have := hf _ _ hfi hq
          exact this
      · injection e with e; subst e; exact hq
    · injection e with e; subst e; exact hq
  · injection e with e; subst e; exact hq

theorem collectH_pres {hk : Hook} {Q : Distributor.St → Option (Nat × Nat) → Nat → Prop} (hf : FirePres hk Q)
    {f : Collector.FeesFor} {h h' : HS} (e : collectH hk f h = .ok h') (hq : Q h.s.d h.tmp h.fired) :
    Q h'.s.d h'.tmp h'.fired := by
  cases f with
  | vaultFactory lim => exact collectVaultsH_pres hf e hq
  | poolFactory lim => exact collectPoolsH_pres hf e hq
  | wrongFactory => cases e
  | onePool k =>
    simp only [collectH] at e
    split at e
    · rename_i h1 hh
      have hq1 : Q h1.s.d h1.tmp h1.fired := by
        split at hh
        · exact hf _ _ hh hq
        · injection hh with hh; subst hh; exact hq
      cases hc : Collector.collectFees h1.s.c 0 (.onePool k) with
      | err => rw [hc] at e; cases e
      | panic => rw [hc] at e; cases e
      | ok c' => rw [hc] at e; simp only at e; injection e with e; subst e; exact hq1
    · cases e
    · cases e
  | oneVault k =>
    simp only [collectH] at e
    split at e
    · rename_i h1 hh
      have hq1 : Q h1.s.d h1.tmp h1.fired := by
        split at hh
        · exact hf _ _ hh hq
        · injection hh with hh; subst hh; exact hq
      cases hc : Collector.collectFees h1.s.c 0 (.oneVault k) with
      | err => rw [hc] at e; cases e
      | panic => rw [hc] at e; cases e
      | ok c' => rw [hc] at e; simp only at e; injection e with e; subst e; exact hq1
    · cases e
    · cases e

theorem aggExecH_pres {hk : Hook} {Q : Distributor.St → Option (Nat × Nat) → Nat → Prop} (hf : FirePres hk Q)
    (dist : Nat) (router : Nat → Nat → Nat → Nat) (stage : Nat) :
    ∀ (plan : List (Nat × Nat × List (Nat × Nat))) (h h' : HS), aggExecH hk dist router stage plan h = .ok h' →
      Q h.s.d h.tmp h.fired → Q h'.s.d h'.tmp h'.fired := by
  intro plan
  induction plan with
  | nil => intro h h' e hq; unfold aggExecH at e; injection e with e; subst e; exact hq
  | cons x rest ih =>
    intro h h' e hq
    obtain ⟨i, amt, hops⟩ := x
    unfold aggExecH at e
    split at e
    · cases e
    · split at e
      · cases e
      · split at e
        · rename_i h2 hh
          have hq2 : Q h2.s.d h2.tmp h2.fired := by
            by_cases hv : swapTriggers hk.trig h.s.c.pools hops = true
            · rw [if_pos hv] at hh
              have := hf _ _ hh hq
              exact this
            · rw [if_neg hv] at hh
              injection hh with hh; subst hh; exact hq
          have := ih _ _ e hq2
          exact this
        · cases e
        · cases e

theorem aggregateH_pres {cfg : Cfg} {hk : Hook} {Q : Distributor.St → Option (Nat × Nat) → Nat → Prop} (hf : FirePres hk Q)
    {f : Collector.FeesFor} {router : Nat → Nat → Nat → Nat} {h h' : HS}
    (e : aggregateH cfg hk f router h = .ok h') (hq : Q h.s.d h.tmp h.fired) : Q h'.s.d h'.tmp h'.fired := by
  unfold aggregateH at e
  split at e
  · cases e
  · rename_i cands _
    cases ha : aggExecH hk h.s.d.dist router 0 (aggPlan h.s cands) h with
    | err => rw [ha] at e; cases e
    | panic => rw [ha] at e; cases e
    | ok h1 =>
      rw [ha] at e; simp only at e
      injection e with e; subst e
      have := aggExecH_pres hf _ _ _ _ _ _ ha hq
      exact this

/-- the four self-calls of `ForwardFees` preserve what the nested message preserves -/
theorem pipelineH_pres {cfg : Cfg} {hk : Hook} {Q : Distributor.St → Option (Nat × Nat) → Nat → Prop} (hf : FirePres hk Q)
    {s : St} {now : Nat} {router : Nat → Nat → Nat → Nat} {h' : HS}
    (e : newEpochH cfg hk s now router = .ok h') :
    ∃ id start h4, Distributor.nextEpoch cfg.d s.d now = .ok (id, start) ∧
      (Q s.d (some (id, start)) 0 → Q h4.s.d h4.tmp h4.fired) ∧ replyH h4 = .ok h' := by
  unfold newEpochH at e
  cases hn : Distributor.nextEpoch cfg.d s.d now with
  | err => rw [hn] at e; cases e
  | panic => rw [hn] at e; cases e
  | ok pr =>
    obtain ⟨id, start⟩ := pr
    rw [hn] at e; simp only at e
    cases h1e : collectVaultsH hk (Collector.vaultListed s.c.vaults (Collector.vaultPage Collector.FWD_LIMIT))
        { s := s, armed := true, fired := 0, tmp := some (id, start), sws := [] } with
    | err => rw [h1e] at e; cases e
    | panic => rw [h1e] at e; cases e
    | ok h1 =>
      rw [h1e] at e; simp only at e
      cases h2e : collectPoolsH hk (Collector.poolListed h1.s.c.pools (Collector.poolPage Collector.FWD_LIMIT)) h1 with
      | err => rw [h2e] at e; cases e
      | panic => rw [h2e] at e; cases e
      | ok h2 =>
        rw [h2e] at e; simp only at e
        cases h3e : aggExecH hk h2.s.d.dist router 0
            (aggPlan h2.s (Collector.vaultAssets (ccfg cfg h2.s)
              (Collector.vaultListed h2.s.c.vaults (Collector.vaultPage Collector.FWD_LIMIT)) h2.s.c.vaults)) h2 with
        | err => rw [h3e] at e; cases e
        | panic => rw [h3e] at e; cases e
        | ok h3 =>
          rw [h3e] at e; simp only at e
          cases h4e : aggExecH hk h3.s.d.dist router 1
              (aggPlan h3.s (Collector.poolAssets (ccfg cfg h3.s)
                (Collector.poolListed h3.s.c.pools (Collector.poolPage Collector.FWD_LIMIT)) h3.s.c.pools)) h3 with
          | err => rw [h4e] at e; cases e
          | panic => rw [h4e] at e; cases e
          | ok h4 =>
            rw [h4e] at e; simp only at e
            refine ⟨id, start, h4, rfl, fun hq => ?_, e⟩
            have q1 := collectVaultsH_pres hf h1e hq
            have q2 := collectPoolsH_pres hf h2e q1
            have q3 := aggExecH_pres hf _ _ _ _ _ _ h3e q2
            exact aggExecH_pres hf _ _ _ _ _ _ h4e q3

theorem replyH_spec {h h' : HS} (e : replyH h = .ok h') :
    ∃ id start inflow, h.tmp = some (id, start) ∧ Distributor.receiveEpoch h.s.d id start inflow = .ok h'.s.d := by
  unfold replyH at e
  split at e
  · cases e
  · rename_i id start htmp
    split at e
    · split at e
      · rename_i d' hr
        injection e with e; subst e
        exact ⟨id, start, _, htmp, hr⟩
      · cases e
      · cases e
    · cases e

theorem xfail_ok {cfg : Cfg} {s s' : St} {code : Nat} {op : Op} (h : step cfg s (.xfail code op) = .ok s') :
    step cfg s op = .ok s' := by
  simp only [step] at h
  cases hs : step cfg s op with
  | err => rw [hs] at h; cases h
  | panic => rw [hs] at h; cases h
  | ok s1 =>
    rw [hs] at h; simp only at h
    split at h
    · unfold failCode at h; split at h <;> cases h
    · exact h

/-- a completed `inloan` transaction is the callback's operation on the state the loan was taken in, plus the
    loan's protocol fee on the lending vault's pending ledger; the closing steps went through -/
theorem inloan_ok {cfg : Cfg} {s s' : St} {k amount vbal : Nat} {mode : Repay} {fees : LoanFees} {inner : Op}
    (h : step cfg s (.inloan k amount mode vbal fees inner) = .ok s') :
    ∃ s1 o, step cfg s inner = .ok s1 ∧ loanClose s s1 k amount mode vbal fees = .ok o ∧
      s' = accrueLoan k (loanFee fees.prot amount) s1 ∧ o.st = s' ∧
      (s.c.vaults[k]?).isSome = true ∧ amount ≠ 0 ∧ amount ≤ vbal := by
  simp only [step] at h
  cases hr : inloanRun s k amount mode vbal fees (fun s0 => step cfg s0 inner) with
  | err => rw [hr] at h; cases h
  | panic => rw [hr] at h; cases h
  | ok o =>
    rw [hr] at h; simp only at h
    injection h with h
    unfold inloanRun at hr
    cases hv : s.c.vaults[k]? with
    | none => rw [hv] at hr; cases hr
    | some v =>
      rw [hv] at hr; simp only at hr
      by_cases hg : amount = 0 ∨ vbal < amount
      · rw [if_pos hg] at hr; cases hr
      · rw [if_neg hg] at hr
        cases hi : step cfg s inner with
        | err => rw [hi] at hr; cases hr
        | panic => rw [hi] at hr; cases hr
        | ok s1 =>
          rw [hi] at hr; simp only at hr
          have hst : o.st = accrueLoan k (loanFee fees.prot amount) s1 := by
            have hc := hr
            unfold loanClose at hc
            split at hc
            · cases hc
            · split at hc
              · cases hc
              · split at hc
                · cases hc
                · split at hc
                  · cases hc
                  · injection hc with hc; rw [← hc]
          refine ⟨s1, o, rfl, hr, ?_, h, rfl, ?_, ?_⟩
          · rw [← h, hst]
          · intro h0; exact hg (Or.inl h0)
          · exact Nat.le_of_not_lt (fun hlt => hg (Or.inr hlt))

theorem accrueLoan_d (k fee : Nat) (s : St) : (accrueLoan k fee s).d = s.d := rfl

/-! ### the lending vault's ledger in an `inloan` transaction -/

theorem modVault_getElem? (f : Collector.Vault → Collector.Vault) :
    ∀ (vs : List Collector.Vault) (k j : Nat),
      (modVault k f vs)[j]? = if j = k then (vs[j]?).map f else vs[j]? := by
  intro vs
  induction vs with
  | nil => intro k j; simp [modVault]
  | cons v vs ih =>
    intro k j
    cases k with
    | zero =>
      cases j with
      | zero => simp [modVault]
      | succ j => simp [modVault]
    | succ k =>
      cases j with
      | zero => simp [modVault]
      | succ j =>
        simp only [modVault, List.getElem?_cons_succ, Nat.add_right_cancel_iff]
        exact ih k j

theorem pendOf_accrueLoan (k fee : Nat) (s : St) (j : Nat) :
    pendOf (accrueLoan k fee s) j =
      if j = k ∧ (s.c.vaults[j]?).isSome = true then pendOf s j + fee else pendOf s j := by
  unfold pendOf accrueLoan
  simp only
  rw [modVault_getElem?]
  by_cases hj : j = k
  · subst hj
    simp only [if_true, true_and]
    cases hv : s.c.vaults[j]? with
    | none => simp
    | some v => simp
  · rw [if_neg hj, if_neg (fun h => hj h.1)]

/-- what a completed `loanClose` says, in closed form: the three guards held and the outputs are the defining terms -/
theorem loanClose_ok {s s1 : St} {k amount vbal : Nat} {mode : Repay} {fees : LoanFees} {o : LoanOut}
    (h : loanClose s s1 k amount mode vbal fees = .ok o) :
    loanPaidOut s s1 k ≤ vbal - amount ∧ loanRequired vbal amount fees ≤ U128MAX ∧
    loanRequired vbal amount fees ≤ loanMid s s1 k amount vbal + loanRepaid s s1 k amount mode vbal fees ∧
    o.st = accrueLoan k (loanFee fees.prot amount) s1 ∧
    o.endBal = loanMid s s1 k amount vbal + loanRepaid s s1 k amount mode vbal fees - loanFee fees.burn amount ∧
    o.repaid = loanRepaid s s1 k amount mode vbal fees ∧ o.paidOut = loanPaidOut s s1 k := by
  unfold loanClose at h
  split at h
  · cases h
  · rename_i h1
    split at h
    · cases h
    · rename_i h2
      split at h
      · cases h
      · rename_i h3
        split at h
        · cases h
        · injection h with h; subst h
          exact ⟨Nat.le_of_not_lt h1, Nat.le_of_not_lt h2, Nat.le_of_not_lt h3, rfl, rfl, rfl, rfl⟩

/-- a completed `inloanRun`: the vault exists, the loan could be sent, the callback's operation went through, and the
    closing steps did -/
theorem inloanRun_ok {s : St} {k amount vbal : Nat} {mode : Repay} {fees : LoanFees} {inner : St → Res St} {o : LoanOut}
    (h : inloanRun s k amount mode vbal fees inner = .ok o) :
    ∃ s1, inner s = .ok s1 ∧ loanClose s s1 k amount mode vbal fees = .ok o ∧
      (s.c.vaults[k]?).isSome = true ∧ amount ≠ 0 ∧ amount ≤ vbal := by
  unfold inloanRun at h
  cases hv : s.c.vaults[k]? with
  | none => rw [hv] at h; cases h
  | some v =>
    rw [hv] at h; simp only at h
    by_cases hg : amount = 0 ∨ vbal < amount
    · rw [if_pos hg] at h; cases h
    · rw [if_neg hg] at h
      cases hi : inner s with
      | err => rw [hi] at h; cases h
      | panic => rw [hi] at h; cases h
      | ok s1 =>
        rw [hi] at h; simp only at h
        exact ⟨s1, rfl, h, rfl, fun h0 => hg (Or.inl h0), Nat.le_of_not_lt (fun hlt => hg (Or.inr hlt))⟩

/-- the arithmetic of the repayment (plain numbers): with `paid ≤ vbal - amount`, `1 ≤ amount ≤ vbal` and the balance
    check passed, the mode is not `short`, the vault ends with `vbal + prot + flash + extra` and the borrower sent
    `amount + prot + flash + burn + paid + extra` -/
theorem repay_arith {vbal amount paid pf ff bf : Nat} {mode : Repay}
    (h1 : paid ≤ vbal - amount) (ha : amount ≠ 0) (hle : amount ≤ vbal)
    (h3 : vbal + pf + ff + bf ≤ vbal - amount - paid + repayOf mode (vbal + pf + ff + bf - (vbal - amount - paid))) :
    mode ≠ .short ∧
    ∃ extra, (mode = .exact → extra = 0) ∧ (∀ x, mode = .over x → extra = x) ∧
      vbal - amount - paid + repayOf mode (vbal + pf + ff + bf - (vbal - amount - paid)) - bf = vbal + pf + ff + extra ∧
      repayOf mode (vbal + pf + ff + bf - (vbal - amount - paid)) = amount + pf + ff + bf + paid + extra := by
  cases mode with
  | exact =>
    simp only [repayOf] at h3 ⊢
    refine ⟨(fun h => by cases h), 0, (fun _ => rfl), (fun x h => by cases h), ?_, ?_⟩ <;> omega
  | over x =>
    simp only [repayOf] at h3 ⊢
    refine ⟨(fun h => by cases h), x, (fun h => by cases h), (fun y h => by injection h with h), ?_, ?_⟩ <;> omega
  | short =>
    simp only [repayOf] at h3
    exfalso; omega

/-- the hooked run of an operation WITHOUT a `NewEpoch` keeps what the nested message and gifts keep -/
theorem stepH_pres_noEpoch {cfg : Cfg} {hk : Hook} {Q : Distributor.St → Option (Nat × Nat) → Nat → Prop} (hf : FirePres hk Q)
    (hg : ∀ d a x, Q d none 0 → Q (Distributor.gift d a x) none 0) :
    ∀ (op : Op) (s : St) (h : HS), hasNewEpoch op = false → stepH cfg hk s op = some (.ok h) → Q s.d none 0 → Q h.s.d h.tmp h.fired := by
  intro op
  induction op with
  | newEpoch now router acc => intro s h hn; simp [hasNewEpoch] at hn
  | collect sender f => intro s h _ e hq; simp only [stepH, Option.some.injEq] at e; exact collectH_pres hf e hq
  | aggregate sender f router acc =>
    intro s h _ e hq; simp only [stepH, Option.some.injEq] at e; exact aggregateH_pres hf e hq
  | coins payer a x op ih =>
    intro s h hn e hq
    simp only [hasNewEpoch] at hn
    simp only [stepH] at e
    cases hp : pay cfg s payer a x (target op) with
    | err => rw [hp] at e; simp at e
    | panic => rw [hp] at e; simp at e
    | ok s1 =>
      rw [hp] at e; simp only at e
      refine ih s1 h hn e ?_
      cases pay_projects hp with
      | inl same => rw [same]; exact hq
      | inr gift => rw [gift]; exact hg _ _ _ hq
  | xfail code op ih =>
    intro s h hn e hq
    simp only [hasNewEpoch] at hn
    simp only [stepH] at e
    split at e
    · rename_i h1 heq
      split at e
      · simp only [Option.some.injEq, Res.ok.injEq] at e; subst e; exact ih s h1 hn heq hq
      · unfold failCode at e; split at e <;> simp at e
    · rename_i hne
      exact absurd e (fun e' => hne h e')
  | reenter trig caught hacc inner outer _ _ => intro s h _ e; simp [stepH] at e
  | inloan k amount mode vbal fees inner _ => intro s h _ e; simp [stepH] at e
  | claim u ans => intro s h _ e; simp [stepH] at e
  | bond u res view => intro s h _ e; simp [stepH] at e
  | grace sender g => intro s h _ e; simp [stepH] at e
  | colcfg sender rate setDao active => intro s h _ e; simp [stepH] at e
  | fwd sender => intro s h _ e; simp [stepH] at e
  | swap res pool side fee => intro s h _ e; simp [stepH] at e
  | loan res vault fee => intro s h _ e; simp [stepH] at e
  | gift toCol asset amount => intro s h _ e; simp [stepH] at e
  | addRoute sender offer ask hops => intro s h _ e; simp [stepH] at e
  | rmRoute sender offer ask => intro s h _ e; simp [stepH] at e
  | setDist sender asset => intro s h _ e; simp [stepH] at e
  | unreg sender pool => intro s h _ e; simp [stepH] at e
  | toggle sender pool on => intro s h _ e; simp [stepH] at e

theorem fire_pres_of_run {hk : Hook} {Q : Distributor.St → Option (Nat × Nat) → Nat → Prop}
    (hrun : ∀ s1 s2 t f, hk.run s1 = .ok s2 → Q s1.d t f → Q s2.d (if hk.clears = true then none else t) 1)
    (hcaught : ∀ d t f, Q d t f → Q d t 2) :
    FirePres hk Q := by
  intro h h' e hq
  unfold fire at e
  split at e
  · cases hr : hk.run h.s with
    | ok s2 =>
      rw [hr] at e; simp only at e
      injection e with e; subst e
      exact hrun _ _ _ _ hr hq
    | err =>
      rw [hr] at e; simp only at e
      split at e
      · injection e with e; subst e; exact hcaught _ _ _ hq
      · cases e
    | panic => rw [hr] at e; cases e
  · injection e with e; subst e; exact hq

/-- an operation that contains no `NewEpoch` keeps the newest epoch's id and start time — also a `reenter`
    operation, whatever the hostile contract nests into it -/
theorem step_sameCur {cfg : Cfg} : ∀ {op : Op} {s s' : St}, step cfg s op = .ok s' → hasNewEpoch op = false →
    SameCur s.d s'.d := by
  intro op
  induction op with
  | coins payer asset amount op ih =>
    intro s s' h hn
    simp only [hasNewEpoch] at hn
    simp only [step] at h
    cases hp : pay cfg s payer asset amount (target op) with
    | err => rw [hp] at h; cases h
    | panic => rw [hp] at h; cases h
    | ok s1 =>
      rw [hp] at h; simp only at h
      have h1 := ih h hn
      cases pay_projects hp with
      | inl same => rw [same] at h1; exact h1
      | inr gift => rw [gift] at h1; exact SameCur.trans (SameCur.of_epochs rfl) h1
  | xfail code op ih =>
    intro s s' h hn
    simp only [hasNewEpoch] at hn
    exact ih (xfail_ok h) hn
  | reenter trig caught hacc inner outer ihi iho =>
    intro s s' h hn
    simp only [hasNewEpoch, Bool.or_eq_false_iff] at hn
    simp only [step] at h
    cases hH : stepH cfg { trig := trig, caught := caught, clears := hasNewEpoch inner, run := (fun s1 => step cfg s1 inner), hacc := hacc } s outer with
    | none => rw [hH] at h; exact iho h hn.2
    | some r =>
      rw [hH] at h
      cases r with
      | err => cases h
      | panic => cases h
      | ok hh =>
        simp only at h
        injection h with h; subst h
        refine stepH_pres_noEpoch (Q := fun d _ _ => SameCur s.d d) ?_ ?_ outer s hh hn.2 hH (SameCur.refl _)
        · exact fire_pres_of_run (fun s1 s2 _ _ hr hq => SameCur.trans hq (ihi hr hn.1)) (fun _ _ _ hq => hq)
        · intro d a x hq; exact SameCur.trans hq (SameCur.of_epochs rfl)
  | inloan k amount mode vbal fees inner ih =>
    intro s s' h hn
    simp only [hasNewEpoch] at hn
    obtain ⟨s1, _, hi, _, hs', _⟩ := inloan_ok h
    have h1 := ih hi hn
    rw [hs', accrueLoan_d]; exact h1
  | _ =>
    intro s s' h hn
    cases step_projects_base rfl h with
    | inl same => exact SameCur.of_epochs (by rw [same])
    | inr hstep =>
      obtain ⟨dop, hdop, hne⟩ := hstep
      exact dstep_sameCur hdop (hne hn)

/-- the hooked run of an operation acts on the distributor's ledger as a history of its own machine: whatever the
    nested message does (a history, by hypothesis), then — for a `NewEpoch` — exactly one `NewEpoch` of the
    distributor's machine FROM THE STATE THE NESTED MESSAGE LEFT: the epoch the outer `create_new_epoch` computed at
    the start is the one that state would compute (a nested message that leaves `TMP_EPOCH` in place contains no
    `NewEpoch`, so the newest epoch is the same; one that consumed it makes the reply fail) -/
theorem stepH_DR {cfg : Cfg} {hk : Hook}
    (hrunDR : ∀ s1 s2, hk.run s1 = .ok s2 → DR cfg s1.d s2.d)
    (hrunSC : hk.clears = false → ∀ s1 s2, hk.run s1 = .ok s2 → SameCur s1.d s2.d) :
    ∀ (op : Op) (s : St) (h : HS), stepH cfg hk s op = some (.ok h) → DR cfg s.d h.s.d := by
  intro op
  induction op with
  | newEpoch now router acc =>
    intro s h e
    simp only [stepH, Option.some.injEq] at e
    cases hn0 : Distributor.nextEpoch cfg.d s.d now with
    | err => unfold newEpochH at e; rw [hn0] at e; cases e
    | panic => unfold newEpochH at e; rw [hn0] at e; cases e
    | ok pr =>
      obtain ⟨id0, start0⟩ := pr
      have hfp : FirePres hk (fun d t _ => DR cfg s.d d ∧ (t = none ∨ (t = some (id0, start0) ∧ SameCur s.d d))) := by
        refine fire_pres_of_run (fun s1 s2 t _ hr hq => ⟨DR.trans hq.1 (hrunDR _ _ hr), ?_⟩) (fun _ _ _ hq => hq)
        by_cases hc : hk.clears = true
        · rw [if_pos hc]; exact Or.inl rfl
        · rw [if_neg hc]
          cases hq.2 with
          | inl hnone => exact Or.inl hnone
          | inr hsome => exact Or.inr ⟨hsome.1, SameCur.trans hsome.2 (hrunSC (by simpa using hc) _ _ hr)⟩
      obtain ⟨id, start, h4, hn, hq, hr⟩ := pipelineH_pres hfp e
      rw [hn0] at hn
      injection hn with hn; injection hn with e1 e2
      subst e1; subst e2
      obtain ⟨q1, q2⟩ := hq ⟨DR.refl _ _, Or.inr ⟨rfl, SameCur.refl _⟩⟩
      obtain ⟨id', start', inflow, htmp, hrec⟩ := replyH_spec hr
      cases q2 with
      | inl hnone => rw [hnone] at htmp; cases htmp
      | inr hsome =>
        obtain ⟨ht, hsc⟩ := hsome
        rw [ht] at htmp
        injection htmp with htmp; injection htmp with e1 e2
        subst e1; subst e2
        refine DR.trans q1 (DR.one (dop := .newEpoch now inflow) ?_)
        simp only [Distributor.step, Distributor.newEpoch, nextEpoch_congr hsc now, hn0, hrec]
  | collect sender f =>
    intro s h e
    simp only [stepH, Option.some.injEq] at e
    exact collectH_pres (Q := fun d _ _ => DR cfg s.d d)
      (fire_pres_of_run (fun s1 s2 _ _ hr hq => DR.trans hq (hrunDR _ _ hr)) (fun _ _ _ hq => hq)) e (DR.refl _ _)
  | aggregate sender f router acc =>
    intro s h e
    simp only [stepH, Option.some.injEq] at e
    exact aggregateH_pres (Q := fun d _ _ => DR cfg s.d d)
      (fire_pres_of_run (fun s1 s2 _ _ hr hq => DR.trans hq (hrunDR _ _ hr)) (fun _ _ _ hq => hq)) e (DR.refl _ _)
  | coins payer a x op ih =>
    intro s h e
    simp only [stepH] at e
    cases hp : pay cfg s payer a x (target op) with
    | err => rw [hp] at e; simp at e
    | panic => rw [hp] at e; simp at e
    | ok s1 =>
      rw [hp] at e; simp only at e
      have h1 := ih s1 h e
      cases pay_projects hp with
      | inl same => rw [same] at h1; exact h1
      | inr gift => rw [gift] at h1; exact DR.trans (DR.gift _ _ _ _) h1
  | xfail code op ih =>
    intro s h e
    simp only [stepH] at e
    split at e
    · rename_i h1 heq
      split at e
      · simp only [Option.some.injEq, Res.ok.injEq] at e; subst e; exact ih s h1 heq
      · unfold failCode at e; split at e <;> simp at e
    · rename_i hne
      exact absurd e (fun e' => hne h e')
  | reenter trig caught hacc inner outer _ _ => intro s h e; simp [stepH] at e
  | inloan k amount mode vbal fees inner _ => intro s h e; simp [stepH] at e
  | claim u ans => intro s h e; simp [stepH] at e
  | bond u res view => intro s h e; simp [stepH] at e
  | grace sender g => intro s h e; simp [stepH] at e
  | colcfg sender rate setDao active => intro s h e; simp [stepH] at e
  | fwd sender => intro s h e; simp [stepH] at e
  | swap res pool side fee => intro s h e; simp [stepH] at e
  | loan res vault fee => intro s h e; simp [stepH] at e
  | gift toCol asset amount => intro s h e; simp [stepH] at e
  | addRoute sender offer ask hops => intro s h e; simp [stepH] at e
  | rmRoute sender offer ask => intro s h e; simp [stepH] at e
  | setDist sender asset => intro s h e; simp [stepH] at e
  | unreg sender pool => intro s h e; simp [stepH] at e
  | toggle sender pool on => intro s h e; simp [stepH] at e

/-- every successful operation of the joint machine — WITH OR WITHOUT COINS ATTACHED, with a swap failure recorded, with
    a hostile registered contract nesting ANY operation into it (`reenter`) — acts on the distributor's ledger state
    as a (possibly empty) history of `Distributor.step` operations: attached coins are a gift to the distributor (or
    do not touch it at all), a nested message is itself such a history, the rest is `step_projects_base` -/
theorem step_projects {cfg : Cfg} : ∀ {op : Op} {s s' : St}, step cfg s op = .ok s' →
    ∃ dops, s'.d = Distributor.reach cfg.d s.d dops := by
  intro op
  induction op with
  | coins payer asset amount op ih =>
    intro s s' h
    simp only [step] at h
    cases hp : pay cfg s payer asset amount (target op) with
    | err => rw [hp] at h; cases h
    | panic => rw [hp] at h; cases h
    | ok s1 =>
      rw [hp] at h; simp only at h
      obtain ⟨dops, hd⟩ := ih h
      cases pay_projects hp with
      | inl same => exact ⟨dops, by rw [hd, same]⟩
      | inr gift => exact ⟨.gift asset amount :: dops, by rw [hd, gift]; rfl⟩
  | xfail code op ih => intro s s' h; exact ih (xfail_ok h)
  | reenter trig caught hacc inner outer ihi iho =>
    intro s s' h
    simp only [step] at h
    cases hH : stepH cfg { trig := trig, caught := caught, clears := hasNewEpoch inner, run := (fun s1 => step cfg s1 inner), hacc := hacc } s outer with
    | none => rw [hH] at h; exact iho h
    | some r =>
      rw [hH] at h
      cases r with
      | err => cases h
      | panic => cases h
      | ok hh =>
        simp only at h
        injection h with h; subst h
        exact stepH_DR (fun s1 s2 hr => ihi hr) (fun hc s1 s2 hr => step_sameCur hr hc) outer s hh hH
  | inloan k amount mode vbal fees inner ih =>
    intro s s' h
    obtain ⟨s1, _, hi, _, hs', _⟩ := inloan_ok h
    obtain ⟨dops, hd⟩ := ih hi
    exact ⟨dops, by rw [hs', accrueLoan_d]; exact hd⟩
  | _ =>
    intro s s' h
    cases step_projects_base rfl h with
    | inl same => exact ⟨[], by rw [same]; rfl⟩
    | inr hstep =>
      obtain ⟨dop, hdop, _⟩ := hstep
      exact ⟨[dop], by simp only [Distributor.reach, hdop]⟩

/-- the distributor's reply from a state that was first given `x` of asset `a`: the same epochs, every
    balance larger by the gift -/
theorem receiveEpoch_gift {d d' : Distributor.St} {a x id start : Nat} {inflow : Option Nat}
    (h : Distributor.receiveEpoch (Distributor.gift d a x) id start inflow = .ok d') :
    ∃ d0, Distributor.receiveEpoch d id start inflow = .ok d0 ∧ d'.epochs = d0.epochs ∧ d'.last = d0.last ∧
      d'.grace = d0.grace ∧ d'.dist = d0.dist ∧ ∀ i, d'.bal i = d0.bal i + Distributor.sel a i x := by
  obtain ⟨hg, tot, hagg, hd'⟩ := Distributor.receiveEpoch_spec h
  subst hd'
  have hagg' : Distributor.agg (Distributor.inflowLedger d.dist inflow)
      (Distributor.takeOut (d.grace - 1) d.epochs).2 = .ok tot := hagg
  have hg' : ¬ d.grace = 0 := by
    have : 1 ≤ d.grace := hg
    omega
  refine ⟨{ d with epochs := { id := id, start := start, total := tot, avail := tot, claimed := [] } ::
                              (Distributor.takeOut (d.grace - 1) d.epochs).1,
                     bal := Distributor.addAt d.bal d.dist (Distributor.amt inflow) },
    ?_, rfl, rfl, rfl, rfl, fun i => ?_⟩
  · unfold Distributor.receiveEpoch
    rw [if_neg hg']
    simp only
    rw [hagg']
  · simp only [Distributor.gift]
    rw [Distributor.addAt_apply, Distributor.addAt_apply, Distributor.addAt_apply]
    omega

/-- STRAY COINS on `NewEpoch` (they land on the distributor, the contract the message is addressed to): the
    whole pipeline run — collection, aggregation, take rate, transfer, the new epoch — is the one of the
    plain `NewEpoch`; only the distributor's balance of the attached asset is larger by the gift -/
theorem newEpoch_gift {cfg : Cfg} {s s' : St} {ub' : Nat → Nat → Nat} {a x now : Nat}
    {router : Nat → Nat → Nat → Nat} {acc : Nat → Nat → Nat} {o : Collector.Out}
    (h : newEpoch cfg { s with ub := ub', d := Distributor.gift s.d a x } now router acc = .ok (s', o)) :
    ∃ s0, newEpoch cfg s now router acc = .ok (s0, o) ∧ s'.c = s0.c ∧ s'.daoBal = s0.daoBal ∧
      s'.d.epochs = s0.d.epochs ∧ s'.d.last = s0.d.last ∧ s'.d.grace = s0.d.grace ∧ s'.d.dist = s0.d.dist ∧
      (∀ i, s'.d.bal i = s0.d.bal i + Distributor.sel a i x) ∧
      s'.ub = ub' ∧ s'.view = s0.view ∧ s'.rts = s0.rts ∧ s'.xb = s0.xb := by
  unfold newEpoch at h ⊢
  have e1 : Distributor.nextEpoch cfg.d (Distributor.gift s.d a x) now = Distributor.nextEpoch cfg.d s.d now := rfl
  simp only at h
  rw [e1] at h
  cases hn : Distributor.nextEpoch cfg.d s.d now with
  | err => rw [hn] at h; cases h
  | panic => rw [hn] at h; cases h
  | ok pr =>
    obtain ⟨id, start⟩ := pr
    rw [hn] at h; simp only at h ⊢
    have e2 : Collector.forwardFees (ccfg cfg { s with ub := ub', d := Distributor.gift s.d a x })
        (cview { s with ub := ub', d := Distributor.gift s.d a x }) cfg.c.distributor id router acc =
        Collector.forwardFees (ccfg cfg s) (cview s) cfg.c.distributor id router acc := rfl
    rw [e2] at h
    cases hf : Collector.forwardFees (ccfg cfg s) (cview s) cfg.c.distributor id router acc with
    | err => rw [hf] at h; cases h
    | panic => rw [hf] at h; cases h
    | ok o1 =>
      rw [hf] at h; simp only at h ⊢
      cases hr : Distributor.receiveEpoch (Distributor.gift s.d a x) id start o1.inflow with
      | err => rw [hr] at h; cases h
      | panic => rw [hr] at h; cases h
      | ok d' =>
        rw [hr] at h; simp only at h
        injection h with h; injection h with h1 h2
        subst h1; subst h2
        obtain ⟨d0, hd0, he, hl, hgr, hdi, hb⟩ := receiveEpoch_gift hr
        rw [hd0]
        exact ⟨_, rfl, rfl, rfl, he, hl, hgr, hdi, hb, rfl, rfl, rfl, rfl⟩

/-- the distributor component of every history of the joint machine is reached by a history of the
    distributor's own machine (the one the C09 theorems quantify over) -/
theorem reach_projects (cfg : Cfg) : ∀ (ops : List Op) (s : St),
    ∃ dops, (reach cfg s ops).d = Distributor.reach cfg.d s.d dops := by
  intro ops
  induction ops with
  | nil => intro s; exact ⟨[], rfl⟩
  | cons op ops ih =>
    intro s
    cases hs : step cfg s op with
    | err => simp only [reach, hs]; exact ih s
    | panic => simp only [reach, hs]; exact ih s
    | ok s' =>
      simp only [reach, hs]
      obtain ⟨dops, hd⟩ := ih s'
      obtain ⟨d1, h1⟩ := step_projects hs
      exact ⟨d1 ++ dops, by rw [hd, h1, dreach_append]⟩

end WW.Feeflow
