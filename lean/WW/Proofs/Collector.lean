/- Helper lemmas about `WW.Model.Collector` (the ForwardFees pipeline). Core Lean only. -/
import WW.Model.Collector
import WW.Model.Feeflow
import WW.Proofs.Distributor
namespace WW.Collector

/-! ### collection -/

theorem collectVaults_apply (l : Vault → Bool) (i : Nat) : ∀ (vs : List Vault) (b : Nat → Nat),
    collectVaults l vs b i = b i + vaultsCollected l i vs := by
  intro vs
  induction vs with
  | nil => intro b; simp [collectVaults, vaultsCollected]
  | cons v vs ih =>
    intro b
    simp only [collectVaults, vaultsCollected]
    rw [ih]
    unfold add
    by_cases h : v.asset = i
    · subst h; simp; omega
    · have h' : ¬ i = v.asset := fun e => h e.symm
      simp [h, h']

theorem collectPools_apply (l : Pool → Bool) (i : Nat) : ∀ (ps : List Pool) (b : Nat → Nat),
    collectPools l ps b i = b i + poolsCollected l i ps := by
  intro ps
  induction ps with
  | nil => intro b; simp [collectPools, poolsCollected]
  | cons p ps ih =>
    intro b
    simp only [collectPools, poolsCollected]
    rw [ih]
    unfold add
    by_cases ha : p.a = i <;> by_cases hb : p.b = i
    · subst ha; simp [hb]; omega
    · subst ha
      have hb' : ¬ p.a = p.b := fun e => hb e.symm
      simp [hb, hb']; omega
    · subst hb
      have ha' : ¬ p.b = p.a := fun e => ha e.symm
      simp [ha, ha']; omega
    · have ha' : ¬ i = p.a := fun e => ha e.symm
      have hb' : ¬ i = p.b := fun e => hb e.symm
      simp [ha, hb, ha', hb']

/-! ### aggregation -/

theorem aggregate_spec (dist : Nat) (router : Nat → Nat → Nat → Nat) (stage : Nat) (ps : List Pool)
    (routes : Nat → List (Nat × Nat)) :
    ∀ (cands : List Nat) (b b' : Nat → Nat) (inn : Nat) (sw : List (Nat × Nat × Nat)),
      (∀ c ∈ cands, c ≠ dist) →
      aggregate dist router stage ps routes cands b = .ok (b', inn, sw) →
      b' dist = b dist + inn ∧
      ∀ i, i ≠ dist → b' i = b i ∨ (b' i = 0 ∧ AGG_T < b i ∧ simOk ps (routes i) = true ∧ i ∈ cands) := by
  intro cands
  induction cands with
  | nil =>
    intro b b' inn sw _ h
    unfold aggregate at h
    injection h with h; injection h with h1 h2; injection h2 with h2 h3
    subst h1; subst h2
    exact ⟨by omega, fun i _ => Or.inl rfl⟩
  | cons c cs ih =>
    intro b b' inn sw hc h
    have hcd : c ≠ dist := hc c List.mem_cons_self
    have hcs : ∀ x ∈ cs, x ≠ dist := fun x hx => hc x (List.mem_cons_of_mem _ hx)
    unfold aggregate at h
    split at h
    · rename_i hcond
      split at h
      · cases hr : aggregate dist router stage ps routes cs (add (upd b c 0) dist (router stage c (b c))) with
        | err => rw [hr] at h; simp at h
        | panic => rw [hr] at h; simp at h
        | ok pr =>
          obtain ⟨b1, inn1, sw1⟩ := pr
          rw [hr] at h; simp only at h
          injection h with h; injection h with h1 h2; injection h2 with h2 h3
          subst h1; subst h2
          obtain ⟨i1, i2⟩ := ih _ b1 inn1 sw1 hcs hr
          constructor
          · rw [i1]; unfold add upd
            have : ¬ dist = c := fun e => hcd e.symm
            simp [this]; omega
          · intro i hi
            by_cases hic : i = c
            · subst hic
              right
              have hb0 : add (upd b i 0) dist (router stage i (b i)) i = 0 := by
                unfold add upd; simp [hi]
              cases i2 i hi with
              | inl hl => rw [hl, hb0]; exact ⟨rfl, hcond.1, hcond.2, List.mem_cons_self⟩
              | inr hr2 => exact ⟨hr2.1, hcond.1, hcond.2, List.mem_cons_self⟩
            · have hbi : add (upd b c 0) dist (router stage c (b c)) i = b i := by
                unfold add upd; simp [hi, hic]
              cases i2 i hi with
              | inl hl => left; rw [hl, hbi]
              | inr hr2 =>
                right
                rw [hbi] at hr2
                exact ⟨hr2.1, hr2.2.1, hr2.2.2.1, List.mem_cons_of_mem _ hr2.2.2.2⟩
      · cases h
    · obtain ⟨i1, i2⟩ := ih b b' inn sw hcs h
      refine ⟨i1, fun i hi => ?_⟩
      cases i2 i hi with
      | inl hl => exact Or.inl hl
      | inr hr2 => exact Or.inr ⟨hr2.1, hr2.2.1, hr2.2.2.1, List.mem_cons_of_mem _ hr2.2.2.2⟩

theorem vaultAssets_ne (cfg : Cfg) (l : Vault → Bool) (vs : List Vault) : ∀ c ∈ vaultAssets cfg l vs, c ≠ cfg.dist := by
  intro c hc
  unfold vaultAssets at hc
  have := (List.mem_filter.mp hc).2
  simp only [Bool.and_eq_true, bne_iff_ne, ne_eq] at this
  exact this.1

theorem poolAssets_ne (cfg : Cfg) (l : Pool → Bool) (ps : List Pool) : ∀ c ∈ poolAssets cfg l ps, c ≠ cfg.dist := by
  intro c hc
  unfold poolAssets at hc
  have := (List.mem_filter.mp hc).2
  simp only [Bool.and_eq_true, bne_iff_ne, ne_eq] at this
  exact this.1

/-! ### the whole pipeline -/

theorem forwardFees_spec {cfg : Cfg} {s : St} {sender epochId : Nat} {router : Nat → Nat → Nat → Nat}
    {acc : Nat → Nat → Nat} {o : Out} (h : forwardFees cfg s sender epochId router acc = .ok o) :
    sender = cfg.distributor ∧
    ∃ b2 in0 sw0 b3 in1 sw1,
      aggregate cfg.dist router 0 (poolsAfter (fwdPools s) s.pools) s.routes (vaultAssets cfg (fwdVaults s) s.vaults)
        (collectPools (fwdPools s) s.pools (collectVaults (fwdVaults s) s.vaults s.bal)) = .ok (b2, in0, sw0) ∧
      aggregate cfg.dist router 1 (poolsAfter (fwdPools s) s.pools) s.routes
        (poolAssets cfg (fwdPools s) (poolsAfter (fwdPools s) s.pools)) b2 = .ok (b3, in1, sw1) ∧
      takeOf s (b3 cfg.dist) ≤ b3 cfg.dist ∧
      o = { st := { s with bal := upd b3 cfg.dist 0,
                           dao := s.dao + takeOf s (b3 cfg.dist),
                           trh := if takeOf s (b3 cfg.dist) = 0 then s.trh else s.trh ++ [(epochId, takeOf s (b3 cfg.dist))],
                           pools := addAcc acc 0 (poolsAfter (fwdPools s) s.pools),
                           vaults := vaultsAfter (fwdVaults s) s.vaults },
            inflow := if b3 cfg.dist - takeOf s (b3 cfg.dist) = 0 then none else some (b3 cfg.dist - takeOf s (b3 cfg.dist)),
            take := takeOf s (b3 cfg.dist), base := b3 cfg.dist, swappedIn := in0 + in1, swaps := sw0 ++ sw1 } := by
  unfold forwardFees at h
  split at h
  · cases h
  · rename_i hs
    refine ⟨Classical.not_not.mp hs, ?_⟩
    simp only at h
    cases h0 : aggregate cfg.dist router 0 (poolsAfter (fwdPools s) s.pools) s.routes (vaultAssets cfg (fwdVaults s) s.vaults)
        (collectPools (fwdPools s) s.pools (collectVaults (fwdVaults s) s.vaults s.bal)) with
    | err => rw [h0] at h; simp at h
    | panic => rw [h0] at h; simp at h
    | ok pr =>
      obtain ⟨b2, in0, sw0⟩ := pr
      rw [h0] at h; simp only at h
      cases h1 : aggregate cfg.dist router 1 (poolsAfter (fwdPools s) s.pools) s.routes
          (poolAssets cfg (fwdPools s) (poolsAfter (fwdPools s) s.pools)) b2 with
      | err => rw [h1] at h; simp at h
      | panic => rw [h1] at h; simp at h
      | ok pr1 =>
        obtain ⟨b3, in1, sw1⟩ := pr1
        rw [h1] at h; simp only at h
        split at h
        · rename_i hle
          injection h with h
          exact ⟨b2, in0, sw0, b3, in1, sw1, rfl, h1, hle, h.symm⟩
        · cases h

theorem takeOf_le_of_rate_lt (s : St) (tb : Nat) (hr : s.rate < E18) : takeOf s tb ≤ tb := by
  unfold takeOf
  split
  · split
    · have h1 : tb * s.rate ≤ tb * E18 := Nat.mul_le_mul_left tb (Nat.le_of_lt hr)
      have h2 : tb * s.rate / E18 ≤ tb * E18 / E18 := Nat.div_le_div_right h1
      rw [Nat.mul_div_cancel tb E18_pos] at h2
      exact h2
    · exact Nat.zero_le _
  · exact Nat.zero_le _

/-! ### `CollectFees` / `AggregateFees` sent directly -/

theorem collectFees_any_sender (s : St) (a b : Nat) (f : FeesFor) : collectFees s a f = collectFees s b f := by
  cases f <;> rfl

theorem aggregateFees_any_sender (cfg : Cfg) (s : St) (a b : Nat) (f : FeesFor) (router : Nat → Nat → Nat → Nat)
    (acc : Nat → Nat → Nat) : aggregateFees cfg s a f router acc = aggregateFees cfg s b f router acc := rfl

theorem add_apply (b : Nat → Nat) (x u i : Nat) : add b x u i = b i + (if x = i then u else 0) := by
  unfold add
  by_cases h : x = i
  · subst h; simp
  · have h' : ¬ i = x := fun e => h e.symm
    simp [h, h']

theorem sent_add_kept (r : Bool) (p : Nat) : sent r p + kept r p = p := by
  unfold sent kept
  split <;> omega

theorem vsent_add_vkept (l : Bool) (p : Nat) : vsent l p + vkept l p = p := by
  unfold vsent vkept
  split <;> omega

theorem poolsPending_after (l : Pool → Bool) (i : Nat) : ∀ ps : List Pool,
    poolsPending i (poolsAfter l ps) + poolsCollected l i ps = poolsPending i ps := by
  intro ps
  induction ps with
  | nil => rfl
  | cons p ps ih =>
    have ih' : poolsPending i (List.map (fun p => { p with pa := kept (l p) p.pa, pb := kept (l p) p.pb }) ps)
        + poolsCollected l i ps = poolsPending i ps := ih
    simp only [poolsAfter, List.map, poolsPending, poolsCollected]
    have h1 := sent_add_kept (l p) p.pa
    have h2 := sent_add_kept (l p) p.pb
    by_cases ha : p.a = i <;> by_cases hb : p.b = i <;> simp only [ha, hb, if_true, if_false] <;> omega

/-- what a page collection takes out of the vaults' pending ledgers is what it moves into the collector -/
theorem vaultsPending_after (l : Vault → Bool) (i : Nat) : ∀ vs : List Vault,
    vaultsPending i (vaultsAfter l vs) + vaultsCollected l i vs = vaultsPending i vs := by
  intro vs
  induction vs with
  | nil => rfl
  | cons v vs ih =>
    have ih' : vaultsPending i (List.map (fun v => { v with pend := vkept (l v) v.pend }) vs)
        + vaultsCollected l i vs = vaultsPending i vs := ih
    simp only [vaultsAfter, List.map, vaultsPending, vaultsCollected]
    have h1 := vsent_add_vkept (l v) v.pend
    by_cases ha : v.asset = i <;> simp only [ha, if_true, if_false] <;> omega

theorem vaultsPending_set (i : Nat) : ∀ (vs : List Vault) (k : Nat) (v : Vault), vs[k]? = some v →
    vaultsPending i (vs.set k { v with pend := 0 }) + (if v.asset = i then v.pend else 0) =
      vaultsPending i vs := by
  intro vs
  induction vs with
  | nil => intro k v h; simp at h
  | cons w ws ih =>
    intro k v h
    cases k with
    | zero =>
      simp only [List.getElem?_cons_zero, Option.some.injEq] at h
      subst h
      simp only [List.set, vaultsPending]
      split <;> omega
    | succ k =>
      simp only [List.getElem?_cons_succ] at h
      have := ih k v h
      simp only [List.set, vaultsPending]
      omega

theorem poolsPending_set (i : Nat) : ∀ (ps : List Pool) (k : Nat) (p : Pool), ps[k]? = some p →
    poolsPending i (ps.set k { p with pa := kept true p.pa, pb := kept true p.pb }) +
      ((if p.a = i then sent true p.pa else 0) + (if p.b = i then sent true p.pb else 0)) =
      poolsPending i ps := by
  intro ps
  induction ps with
  | nil => intro k p h; simp at h
  | cons q qs ih =>
    intro k p h
    cases k with
    | zero =>
      simp only [List.getElem?_cons_zero, Option.some.injEq] at h
      subst h
      simp only [List.set, poolsPending]
      have h1 := sent_add_kept true q.pa
      have h2 := sent_add_kept true q.pb
      by_cases ha : q.a = i <;> by_cases hb : q.b = i <;> simp only [ha, hb, if_true, if_false] <;> omega
    | succ k =>
      simp only [List.getElem?_cons_succ] at h
      have := ih k p h
      simp only [List.set, poolsPending]
      omega

/-- a direct `CollectFees`: the collector's balance of every asset grows by exactly what the named
    contracts send, and that is exactly what leaves their pending ledgers -/
theorem collectFees_spec {s s' : St} {sender : Nat} {f : FeesFor} (h : collectFees s sender f = .ok s') (i : Nat) :
    s'.bal i = s.bal i + directCollected s f i ∧
    vaultsPending i s'.vaults + poolsPending i s'.pools + directCollected s f i =
      vaultsPending i s.vaults + poolsPending i s.pools := by
  cases f with
  | vaultFactory lim =>
    simp only [collectFees] at h
    injection h with h; subst h
    simp only [directCollected]
    refine ⟨collectVaults_apply _ i _ _, ?_⟩
    have := vaultsPending_after (vaultListed s.vaults (vaultPage lim)) i s.vaults
    omega
  | poolFactory lim =>
    simp only [collectFees] at h
    injection h with h; subst h
    simp only [directCollected]
    refine ⟨collectPools_apply _ i _ _, ?_⟩
    have := poolsPending_after (poolListed s.pools (poolPage lim)) i s.pools
    omega
  | wrongFactory => simp only [collectFees] at h; cases h
  | onePool k =>
    simp only [collectFees] at h
    cases hk : s.pools[k]? with
    | none => rw [hk] at h; cases h
    | some p =>
      rw [hk] at h; simp only at h
      injection h with h; subst h
      simp only [directCollected, hk]
      refine ⟨?_, ?_⟩
      · rw [add_apply, add_apply]; omega
      · have := poolsPending_set i s.pools k p hk
        omega
  | oneVault k =>
    simp only [collectFees] at h
    cases hk : s.vaults[k]? with
    | none => rw [hk] at h; cases h
    | some v =>
      rw [hk] at h; simp only at h
      injection h with h; subst h
      simp only [directCollected, hk]
      refine ⟨add_apply _ _ _ _, ?_⟩
      have := vaultsPending_set i s.vaults k v hk
      omega

/-- a direct `CollectFees` touches nothing but the collector's balances and the pending ledgers -/
theorem collectFees_rest {s s' : St} {sender : Nat} {f : FeesFor} (h : collectFees s sender f = .ok s') :
    s'.dao = s.dao ∧ s'.trh = s.trh ∧ s'.rate = s.rate ∧ s'.active = s.active ∧ s'.daoSet = s.daoSet ∧
    s'.routes = s.routes := by
  cases f with
  | vaultFactory lim => simp only [collectFees] at h; injection h with h; subst h; exact ⟨rfl, rfl, rfl, rfl, rfl, rfl⟩
  | poolFactory lim => simp only [collectFees] at h; injection h with h; subst h; exact ⟨rfl, rfl, rfl, rfl, rfl, rfl⟩
  | wrongFactory => simp only [collectFees] at h; cases h
  | onePool k =>
    simp only [collectFees] at h
    cases hk : s.pools[k]? with
    | none => rw [hk] at h; cases h
    | some p => rw [hk] at h; simp only at h; injection h with h; subst h; exact ⟨rfl, rfl, rfl, rfl, rfl, rfl⟩
  | oneVault k =>
    simp only [collectFees] at h
    cases hk : s.vaults[k]? with
    | none => rw [hk] at h; cases h
    | some v => rw [hk] at h; simp only at h; injection h with h; subst h; exact ⟨rfl, rfl, rfl, rfl, rfl, rfl⟩

theorem aggregateFees_spec {cfg : Cfg} {s s' : St} {sender : Nat} {f : FeesFor} {router : Nat → Nat → Nat → Nat}
    {acc : Nat → Nat → Nat} {inn : Nat} {sw : List (Nat × Nat × Nat)}
    (h : aggregateFees cfg s sender f router acc = .ok (s', inn, sw)) :
    ∃ cands b, aggCands cfg s f = some cands ∧ (∀ c ∈ cands, c ≠ cfg.dist) ∧
      aggregate cfg.dist router 0 s.pools s.routes cands s.bal = .ok (b, inn, sw) ∧
      s' = { s with bal := b, pools := addAcc acc 0 s.pools } := by
  unfold aggregateFees at h
  cases hc : aggCands cfg s f with
  | none => rw [hc] at h; cases h
  | some cands =>
    rw [hc] at h; simp only at h
    have hne : ∀ c ∈ cands, c ≠ cfg.dist := by
      cases f with
      | vaultFactory lim =>
        simp only [aggCands, Option.some.injEq] at hc; subst hc; exact vaultAssets_ne cfg _ s.vaults
      | poolFactory lim =>
        simp only [aggCands, Option.some.injEq] at hc; subst hc; exact poolAssets_ne cfg _ s.pools
      | wrongFactory => simp [aggCands] at hc
      | onePool k => simp [aggCands] at hc
      | oneVault k => simp [aggCands] at hc
    cases ha : aggregate cfg.dist router 0 s.pools s.routes cands s.bal with
    | err => rw [ha] at h; cases h
    | panic => rw [ha] at h; cases h
    | ok pr =>
      obtain ⟨b, inn1, sw1⟩ := pr
      rw [ha] at h; simp only at h
      injection h with h; injection h with h1 h2; injection h2 with h2 h3
      subst h2; subst h3
      exact ⟨cands, b, rfl, hne, ha, h1.symm⟩

/-! ### factory pages: a page at least as long as the factory's map lists every entry -/

theorem keyLt_irrefl (k : Nat × Nat) : keyLt k k = false := by
  simp [keyLt]

theorem poolRank_le_regCount (k : Nat × Nat) : ∀ ps : List Pool, poolRank k ps ≤ regCount ps := by
  intro ps
  induction ps with
  | nil => exact Nat.le_refl _
  | cons q qs ih =>
    simp only [poolRank, regCount]
    cases hr : q.reg <;> cases hk : keyLt (poolKey q) k <;> simp <;> omega

/-- a registered pair of the list is not counted in its own rank -/
theorem poolRank_lt_regCount : ∀ (ps : List Pool) (p : Pool), p ∈ ps → p.reg = true →
    poolRank (poolKey p) ps < regCount ps := by
  intro ps
  induction ps with
  | nil => intro p hp; cases hp
  | cons q qs ih =>
    intro p hp hr
    simp only [poolRank, regCount]
    cases List.mem_cons.mp hp with
    | inl he =>
      subst he
      have := poolRank_le_regCount (poolKey p) qs
      rw [hr, keyLt_irrefl]
      simp
      omega
    | inr hm =>
      have := ih p hm hr
      cases hq : q.reg <;> cases hk : keyLt (poolKey q) (poolKey p) <;> simp <;> omega

theorem vaultRank_le_length (a : Nat) : ∀ vs : List Vault, vaultRank a vs ≤ vs.length := by
  intro vs
  induction vs with
  | nil => exact Nat.le_refl _
  | cons w ws ih =>
    simp only [vaultRank, List.length_cons]
    split <;> omega

theorem vaultRank_lt_length : ∀ (vs : List Vault) (v : Vault), v ∈ vs → vaultRank v.asset vs < vs.length := by
  intro vs
  induction vs with
  | nil => intro v hv; cases hv
  | cons w ws ih =>
    intro v hv
    simp only [vaultRank, List.length_cons]
    cases List.mem_cons.mp hv with
    | inl he =>
      subst he
      have := vaultRank_le_length v.asset ws
      simp only [Nat.lt_irrefl, if_false]
      omega
    | inr hm =>
      have := ih v hm
      split <;> omega

theorem poolListed_of_regCount_le {ps : List Pool} {n : Nat} (h : regCount ps ≤ n) :
    ∀ p ∈ ps, poolListed ps n p = p.reg := by
  intro p hp
  unfold poolListed
  cases hr : p.reg with
  | false => rfl
  | true =>
    have := poolRank_lt_regCount ps p hp hr
    simp only [Bool.true_and, decide_eq_true_eq]
    omega

theorem vaultListed_of_length_le {vs : List Vault} {n : Nat} (h : vs.length ≤ n) :
    ∀ v ∈ vs, vaultListed vs n v = true := by
  intro v hv
  unfold vaultListed
  have := vaultRank_lt_length vs v hv
  simp only [decide_eq_true_eq]
  omega

theorem poolsAfter_congr {l l' : Pool → Bool} : ∀ ps : List Pool, (∀ p ∈ ps, l p = l' p) →
    poolsAfter l ps = poolsAfter l' ps := by
  intro ps
  induction ps with
  | nil => intro _; rfl
  | cons p ps ih =>
    intro h
    have hp := h p List.mem_cons_self
    have ht : poolsAfter l ps = poolsAfter l' ps := ih fun q hq => h q (List.mem_cons_of_mem _ hq)
    simp only [poolsAfter, List.map] at ht ⊢
    rw [hp, ht]

theorem poolsCollected_congr {l l' : Pool → Bool} (i : Nat) : ∀ ps : List Pool, (∀ p ∈ ps, l p = l' p) →
    poolsCollected l i ps = poolsCollected l' i ps := by
  intro ps
  induction ps with
  | nil => intro _; rfl
  | cons p ps ih =>
    intro h
    have hp := h p List.mem_cons_self
    have ht := ih fun q hq => h q (List.mem_cons_of_mem _ hq)
    simp only [poolsCollected]
    rw [hp, ht]

/-- when every vault is on the page, all pending vault fees are collected and every vault is emptied -/
theorem vaultsCollected_all {l : Vault → Bool} (i : Nat) : ∀ vs : List Vault, (∀ v ∈ vs, l v = true) →
    vaultsCollected l i vs = vaultsPending i vs := by
  intro vs
  induction vs with
  | nil => intro _; rfl
  | cons v vs ih =>
    intro h
    have hv := h v List.mem_cons_self
    have ht := ih fun q hq => h q (List.mem_cons_of_mem _ hq)
    simp only [vaultsCollected, vaultsPending, vsent]
    rw [hv, ht]
    simp only [if_true]

theorem vaultsAfter_all {l : Vault → Bool} : ∀ vs : List Vault, (∀ v ∈ vs, l v = true) →
    vaultsAfter l vs = vs.map fun v => { v with pend := 0 } := by
  intro vs
  induction vs with
  | nil => intro _; rfl
  | cons v vs ih =>
    intro h
    have hv := h v List.mem_cons_self
    have ht : vaultsAfter l vs = vs.map fun v => { v with pend := 0 } :=
      ih fun q hq => h q (List.mem_cons_of_mem _ hq)
    simp only [vaultsAfter, List.map, vkept] at ht ⊢
    rw [hv, ht]
    simp only [if_true]

/-- STRAY COINS on a collection: a direct `CollectFees` from a state whose collector balance was first
    increased by `x` of asset `a` (coins attached to the message) succeeds exactly when it succeeds without
    them, leaves the same pending ledgers behind, and every collector balance is the one after the plain
    collection plus the attached coins: nothing of them reaches a pair or a vault, and they do not change
    what is collected -/
theorem collectFees_gift {s c' : St} {sender a x : Nat} {f : FeesFor}
    (h : collectFees { s with bal := add s.bal a x } sender f = .ok c') :
    ∃ c0, collectFees s sender f = .ok c0 ∧ c'.pools = c0.pools ∧ c'.vaults = c0.vaults ∧
      (∀ i, c'.bal i = c0.bal i + (if a = i then x else 0)) ∧
      c'.dao = c0.dao ∧ c'.trh = c0.trh ∧ c'.rate = c0.rate ∧ c'.active = c0.active ∧
      c'.daoSet = c0.daoSet ∧ c'.routes = c0.routes := by
  cases f with
  | vaultFactory lim =>
    simp only [collectFees] at h ⊢
    injection h with h; subst h
    refine ⟨_, rfl, rfl, rfl, fun i => ?_, rfl, rfl, rfl, rfl, rfl, rfl⟩
    simp only
    rw [collectVaults_apply, collectVaults_apply, add_apply]; omega
  | poolFactory lim =>
    simp only [collectFees] at h ⊢
    injection h with h; subst h
    refine ⟨_, rfl, rfl, rfl, fun i => ?_, rfl, rfl, rfl, rfl, rfl, rfl⟩
    simp only
    rw [collectPools_apply, collectPools_apply, add_apply]; omega
  | wrongFactory => simp only [collectFees] at h; cases h
  | onePool k =>
    simp only [collectFees] at h ⊢
    cases hk : s.pools[k]? with
    | none => rw [hk] at h; cases h
    | some p =>
      rw [hk] at h; simp only at h ⊢
      injection h with h; subst h
      refine ⟨_, rfl, rfl, rfl, fun i => ?_, rfl, rfl, rfl, rfl, rfl, rfl⟩
      simp only
      rw [add_apply, add_apply, add_apply, add_apply, add_apply]; omega
  | oneVault k =>
    simp only [collectFees] at h ⊢
    cases hk : s.vaults[k]? with
    | none => rw [hk] at h; cases h
    | some v =>
      rw [hk] at h; simp only at h ⊢
      injection h with h; subst h
      refine ⟨_, rfl, rfl, rfl, fun i => ?_, rfl, rfl, rfl, rfl, rfl, rfl⟩
      simp only
      rw [add_apply, add_apply, add_apply]; omega

end WW.Collector

/-! ### the joint machine projects onto the distributor's ledger machine -/
namespace WW.Feeflow
open WW

theorem ofCode_ok {r : Nat} {s s' : St} (h : ofCode r s = .ok s') : s' = s := by
  unfold ofCode at h
  split at h
  · injection h with h; exact h.symm
  · split at h <;> cases h

/-- every successful operation of the joint machine — including the directly sent `CollectFees` /
    `AggregateFees` and everything that happens on pairs, vaults, the router and the lair — either
    leaves the distributor's ledger state untouched or is one operation of `Distributor.step` -/
theorem step_projects_base {cfg : Cfg} {s s' : St} {op : Op} (hb : isCoins op = false)
    (h : step cfg s op = .ok s') :
    s'.d = s.d ∨ ∃ dop, Distributor.step cfg.d s.d dop = .ok s'.d := by
  cases op with
  | coins payer asset amount op => cases hb
  | newEpoch now router acc =>
    right
    simp only [step] at h
    cases hn : newEpoch cfg s now router acc with
    | err => rw [hn] at h; cases h
    | panic => rw [hn] at h; cases h
    | ok pr =>
      obtain ⟨s1, o⟩ := pr
      rw [hn] at h; simp only at h
      injection h with h; subst h
      unfold newEpoch at hn
      cases hne : Distributor.nextEpoch cfg.d s.d now with
      | err => rw [hne] at hn; cases hn
      | panic => rw [hne] at hn; cases hn
      | ok pr =>
        obtain ⟨id, start⟩ := pr
        rw [hne] at hn; simp only at hn
        cases hf : Collector.forwardFees (ccfg cfg s) (cview s) cfg.c.distributor id router acc with
        | err => rw [hf] at hn; cases hn
        | panic => rw [hf] at hn; cases hn
        | ok o1 =>
          rw [hf] at hn; simp only at hn
          cases hr : Distributor.receiveEpoch s.d id start o1.inflow with
          | err => rw [hr] at hn; cases hn
          | panic => rw [hr] at hn; cases hn
          | ok d' =>
            rw [hr] at hn; simp only at hn
            injection hn with hn; injection hn with h1 h2
            subst h1
            refine ⟨.newEpoch now o1.inflow, ?_⟩
            simp only [Distributor.step, Distributor.newEpoch, hne, hr]
  | claim u ans =>
    right
    simp only [step] at h
    cases hc : Distributor.claim s.d u (s.view u) ans with
    | err => rw [hc] at h; cases h
    | panic => rw [hc] at h; cases h
    | ok pr =>
      obtain ⟨d', paid⟩ := pr
      rw [hc] at h; simp only at h
      injection h with h; subst h
      exact ⟨.claim u (s.view u) ans, by simp only [Distributor.step, hc]⟩
  | bond u res view =>
    left
    simp only [step] at h
    split at h
    · cases h
    · rw [ofCode_ok h]
  | grace sender g =>
    right
    simp only [step] at h
    cases hg : Distributor.updateGrace cfg.d s.d sender g with
    | err => rw [hg] at h; cases h
    | panic => rw [hg] at h; cases h
    | ok d' =>
      rw [hg] at h; simp only at h
      injection h with h; subst h
      exact ⟨.grace sender g, by simp only [Distributor.step, hg]⟩
  | colcfg sender rate setDao active =>
    left
    simp only [step] at h
    cases hc : Collector.updateConfig cfg.c s.c sender rate setDao active with
    | err => rw [hc] at h; cases h
    | panic => rw [hc] at h; cases h
    | ok c' => rw [hc] at h; simp only at h; injection h with h; subst h; rfl
  | fwd sender =>
    left
    simp only [step] at h
    cases hc : Collector.forwardFees (ccfg cfg s) (cview s) sender 0 (fun _ _ _ => 0) (fun _ _ => 0) with
    | err => rw [hc] at h; cases h
    | panic => rw [hc] at h; cases h
    | ok o => rw [hc] at h; simp only at h; injection h with h; subst h; rfl
  | swap res pool side fee => left; simp only [step] at h; rw [ofCode_ok h]
  | loan res vault fee => left; simp only [step] at h; rw [ofCode_ok h]
  | gift toCol asset amount =>
    simp only [step] at h
    split at h
    · left; injection h with h; subst h; rfl
    · right; injection h with h; subst h
      exact ⟨.gift asset amount, rfl⟩
  | addRoute sender offer ask hops =>
    left
    simp only [step] at h
    split at h
    · cases h
    · split at h
      · injection h with h; subst h; rfl
      · cases h
  | rmRoute sender offer ask =>
    left
    simp only [step] at h
    split at h
    · cases h
    · split at h
      · cases h
      · injection h with h; subst h; rfl
  | setDist sender asset =>
    right
    simp only [step] at h
    cases hg : Distributor.setDist cfg.d s.d sender asset with
    | err => rw [hg] at h; cases h
    | panic => rw [hg] at h; cases h
    | ok d' =>
      rw [hg] at h; simp only at h
      injection h with h; subst h
      exact ⟨.setDist sender asset, by simp only [Distributor.step, hg]⟩
  | unreg sender pool =>
    left
    simp only [step] at h
    split at h
    · cases h
    · split at h
      · split at h
        · injection h with h; subst h; rfl
        · cases h
      · cases h
  | toggle sender pool on =>
    left
    simp only [step] at h
    split at h
    · cases h
    · injection h with h; subst h; rfl
  | collect sender f =>
    left
    simp only [step] at h
    cases hc : Collector.collectFees s.c sender f with
    | err => rw [hc] at h; cases h
    | panic => rw [hc] at h; cases h
    | ok c' => rw [hc] at h; simp only at h; injection h with h; subst h; rfl
  | aggregate sender f router acc =>
    left
    simp only [step] at h
    cases hc : Collector.aggregateFees (ccfg cfg s) (cview s) sender f router acc with
    | err => rw [hc] at h; cases h
    | panic => rw [hc] at h; cases h
    | ok pr =>
      obtain ⟨c', inn, sw⟩ := pr
      rw [hc] at h; simp only at h; injection h with h; subst h; rfl

/-- the bank's part of a message with coins attached leaves the distributor's ledger state untouched or is
    a gift to the distributor -/
theorem pay_projects {cfg : Cfg} {s s1 : St} {payer asset amount : Nat} {t : Target}
    (h : pay cfg s payer asset amount t = .ok s1) :
    s1.d = s.d ∨ s1.d = Distributor.gift s.d asset amount := by
  cases t with
  | nobody => cases h
  | collector =>
    simp only [pay] at h
    split at h
    · cases h
    · injection h with h; subst h; exact Or.inl rfl
  | distributor =>
    simp only [pay] at h
    split at h
    · cases h
    · injection h with h; subst h; exact Or.inr rfl
  | router =>
    simp only [pay] at h
    split at h
    · cases h
    · injection h with h; subst h; exact Or.inl rfl
  | lair =>
    simp only [pay] at h
    split at h
    · cases h
    · injection h with h; subst h; exact Or.inl rfl

theorem pay_collector_ok {cfg : Cfg} {s s1 : St} {payer a x : Nat} (h : pay cfg s payer a x .collector = .ok s1) :
    s1 = { s with ub := ubAfterPay cfg s payer a x, c := { s.c with bal := Collector.add s.c.bal a x } } := by
  simp only [pay] at h
  split at h
  · cases h
  · injection h with h; exact h.symm

theorem pay_distributor_ok {cfg : Cfg} {s s1 : St} {payer a x : Nat} (h : pay cfg s payer a x .distributor = .ok s1) :
    s1 = { s with ub := ubAfterPay cfg s payer a x, d := Distributor.gift s.d a x } := by
  simp only [pay] at h
  split at h
  · cases h
  · injection h with h; exact h.symm

theorem dreach_append (cfg : Distributor.Cfg) : ∀ (xs ys : List Distributor.Op) (s : Distributor.St),
    Distributor.reach cfg s (xs ++ ys) = Distributor.reach cfg (Distributor.reach cfg s xs) ys := by
  intro xs
  induction xs with
  | nil => intro ys s; rfl
  | cons x xs ih =>
    intro ys s
    simp only [List.cons_append, Distributor.reach]
    cases Distributor.step cfg s x with
    | ok s' => exact ih ys s'
    | err => exact ih ys s
    | panic => exact ih ys s

/-- every successful operation of the joint machine, WITH OR WITHOUT COINS ATTACHED, acts on the distributor's
    ledger state as a (possibly empty) history of `Distributor.step` operations: attached coins are a gift to
    the distributor (or do not touch it at all), the rest is `step_projects_base` -/
theorem step_projects {cfg : Cfg} : ∀ {op : Op} {s s' : St}, step cfg s op = .ok s' →
    ∃ dops, s'.d = Distributor.reach cfg.d s.d dops := by
  intro op
  induction op with
  | coins payer asset amount op ih =>
    intro s s' h
    simp only [step] at h
    cases hp : pay cfg s payer asset amount (target op) with
    | err => rw [hp] at h; cases h
    | panic => rw [hp] at h; cases h
    | ok s1 =>
      rw [hp] at h; simp only at h
      obtain ⟨dops, hd⟩ := ih h
      cases pay_projects hp with
      | inl same => exact ⟨dops, by rw [hd, same]⟩
      | inr gift => exact ⟨.gift asset amount :: dops, by rw [hd, gift]; rfl⟩
  | _ =>
    intro s s' h
    cases step_projects_base rfl h with
    | inl same => exact ⟨[], by rw [same]; rfl⟩
    | inr hstep =>
      obtain ⟨dop, hdop⟩ := hstep
      exact ⟨[dop], by simp only [Distributor.reach, hdop]⟩

/-- the distributor's reply from a state that was first given `x` of asset `a`: the same epochs, every
    balance larger by the gift -/
theorem receiveEpoch_gift {d d' : Distributor.St} {a x id start : Nat} {inflow : Option Nat}
    (h : Distributor.receiveEpoch (Distributor.gift d a x) id start inflow = .ok d') :
    ∃ d0, Distributor.receiveEpoch d id start inflow = .ok d0 ∧ d'.epochs = d0.epochs ∧ d'.last = d0.last ∧
      d'.grace = d0.grace ∧ d'.dist = d0.dist ∧ ∀ i, d'.bal i = d0.bal i + Distributor.sel a i x := by
  obtain ⟨hg, tot, hagg, hd'⟩ := Distributor.receiveEpoch_spec h
  subst hd'
  have hagg' : Distributor.agg (Distributor.inflowLedger d.dist inflow)
      (Distributor.takeOut (d.grace - 1) d.epochs).2 = .ok tot := hagg
  have hg' : ¬ d.grace = 0 := by
    have : 1 ≤ d.grace := hg
    omega
  refine ⟨{ d with epochs := { id := id, start := start, total := tot, avail := tot, claimed := [] } ::
                              (Distributor.takeOut (d.grace - 1) d.epochs).1,
                     bal := Distributor.addAt d.bal d.dist (Distributor.amt inflow) },
    ?_, rfl, rfl, rfl, rfl, fun i => ?_⟩
  · unfold Distributor.receiveEpoch
    rw [if_neg hg']
    simp only
    rw [hagg']
  · simp only [Distributor.gift]
    rw [Distributor.addAt_apply, Distributor.addAt_apply, Distributor.addAt_apply]
    omega

/-- STRAY COINS on `NewEpoch` (they land on the distributor, the contract the message is addressed to): the
    whole pipeline run — collection, aggregation, take rate, transfer, the new epoch — is the one of the
    plain `NewEpoch`; only the distributor's balance of the attached asset is larger by the gift -/
theorem newEpoch_gift {cfg : Cfg} {s s' : St} {ub' : Nat → Nat → Nat} {a x now : Nat}
    {router : Nat → Nat → Nat → Nat} {acc : Nat → Nat → Nat} {o : Collector.Out}
    (h : newEpoch cfg { s with ub := ub', d := Distributor.gift s.d a x } now router acc = .ok (s', o)) :
    ∃ s0, newEpoch cfg s now router acc = .ok (s0, o) ∧ s'.c = s0.c ∧ s'.daoBal = s0.daoBal ∧
      s'.d.epochs = s0.d.epochs ∧ s'.d.last = s0.d.last ∧ s'.d.grace = s0.d.grace ∧ s'.d.dist = s0.d.dist ∧
      (∀ i, s'.d.bal i = s0.d.bal i + Distributor.sel a i x) ∧
      s'.ub = ub' ∧ s'.view = s0.view ∧ s'.rts = s0.rts ∧ s'.xb = s0.xb := by
  unfold newEpoch at h ⊢
  have e1 : Distributor.nextEpoch cfg.d (Distributor.gift s.d a x) now = Distributor.nextEpoch cfg.d s.d now := rfl
  simp only at h
  rw [e1] at h
  cases hn : Distributor.nextEpoch cfg.d s.d now with
  | err => rw [hn] at h; cases h
  | panic => rw [hn] at h; cases h
  | ok pr =>
    obtain ⟨id, start⟩ := pr
    rw [hn] at h; simp only at h ⊢
    have e2 : Collector.forwardFees (ccfg cfg { s with ub := ub', d := Distributor.gift s.d a x })
        (cview { s with ub := ub', d := Distributor.gift s.d a x }) cfg.c.distributor id router acc =
        Collector.forwardFees (ccfg cfg s) (cview s) cfg.c.distributor id router acc := rfl
    rw [e2] at h
    cases hf : Collector.forwardFees (ccfg cfg s) (cview s) cfg.c.distributor id router acc with
    | err => rw [hf] at h; cases h
    | panic => rw [hf] at h; cases h
    | ok o1 =>
      rw [hf] at h; simp only at h ⊢
      cases hr : Distributor.receiveEpoch (Distributor.gift s.d a x) id start o1.inflow with
      | err => rw [hr] at h; cases h
      | panic => rw [hr] at h; cases h
      | ok d' =>
        rw [hr] at h; simp only at h
        injection h with h; injection h with h1 h2
        subst h1; subst h2
        obtain ⟨d0, hd0, he, hl, hgr, hdi, hb⟩ := receiveEpoch_gift hr
        rw [hd0]
        exact ⟨_, rfl, rfl, rfl, he, hl, hgr, hdi, hb, rfl, rfl, rfl, rfl⟩

/-- the distributor component of every history of the joint machine is reached by a history of the
    distributor's own machine (the one the C09 theorems quantify over) -/
theorem reach_projects (cfg : Cfg) : ∀ (ops : List Op) (s : St),
    ∃ dops, (reach cfg s ops).d = Distributor.reach cfg.d s.d dops := by
  intro ops
  induction ops with
  | nil => intro s; exact ⟨[], rfl⟩
  | cons op ops ih =>
    intro s
    cases hs : step cfg s op with
    | err => simp only [reach, hs]; exact ih s
    | panic => simp only [reach, hs]; exact ih s
    | ok s' =>
      simp only [reach, hs]
      obtain ⟨dops, hd⟩ := ih s'
      obtain ⟨d1, h1⟩ := step_projects hs
      exact ⟨d1 ++ dops, by rw [hd, h1, dreach_append]⟩

end WW.Feeflow
