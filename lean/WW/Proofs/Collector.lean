/- Helper lemmas about `WW.Model.Collector` (the ForwardFees pipeline). Core Lean only. -/
import WW.Model.Collector
import WW.Model.Feeflow
import WW.Proofs.Distributor
namespace WW.Collector

/-! ### collection -/

theorem collectVaults_apply (i : Nat) : ∀ (vs : List Vault) (b : Nat → Nat),
    collectVaults vs b i = b i + vaultsCollected i vs := by
  intro vs
  induction vs with
  | nil => intro b; simp [collectVaults, vaultsCollected]
  | cons v vs ih =>
    intro b
    simp only [collectVaults, vaultsCollected]
    rw [ih]
    unfold add
    by_cases h : v.asset = i
    · subst h; simp; omega
    · have h' : ¬ i = v.asset := fun e => h e.symm
      simp [h, h']

theorem collectPools_apply (i : Nat) : ∀ (ps : List Pool) (b : Nat → Nat),
    collectPools ps b i = b i + poolsCollected i ps := by
  intro ps
  induction ps with
  | nil => intro b; simp [collectPools, poolsCollected]
  | cons p ps ih =>
    intro b
    simp only [collectPools, poolsCollected]
    rw [ih]
    unfold add
    by_cases ha : p.a = i <;> by_cases hb : p.b = i
    · subst ha; simp [hb]; omega
    · subst ha
      have hb' : ¬ p.a = p.b := fun e => hb e.symm
      simp [hb, hb']; omega
    · subst hb
      have ha' : ¬ p.b = p.a := fun e => ha e.symm
      simp [ha, ha']; omega
    · have ha' : ¬ i = p.a := fun e => ha e.symm
      have hb' : ¬ i = p.b := fun e => hb e.symm
      simp [ha, hb, ha', hb']

/-! ### aggregation -/

theorem aggregate_spec (dist : Nat) (router : Nat → Nat → Nat → Nat) (stage : Nat) (ps : List Pool)
    (routes : Nat → List (Nat × Nat)) :
    ∀ (cands : List Nat) (b b' : Nat → Nat) (inn : Nat) (sw : List (Nat × Nat × Nat)),
      (∀ c ∈ cands, c ≠ dist) →
      aggregate dist router stage ps routes cands b = .ok (b', inn, sw) →
      b' dist = b dist + inn ∧
      ∀ i, i ≠ dist → b' i = b i ∨ (b' i = 0 ∧ AGG_T < b i ∧ simOk ps (routes i) = true ∧ i ∈ cands) := by
  intro cands
  induction cands with
  | nil =>
    intro b b' inn sw _ h
    unfold aggregate at h
    injection h with h; injection h with h1 h2; injection h2 with h2 h3
    subst h1; subst h2
    exact ⟨by omega, fun i _ => Or.inl rfl⟩
  | cons c cs ih =>
    intro b b' inn sw hc h
    have hcd : c ≠ dist := hc c List.mem_cons_self
    have hcs : ∀ x ∈ cs, x ≠ dist := fun x hx => hc x (List.mem_cons_of_mem _ hx)
    unfold aggregate at h
    split at h
    · rename_i hcond
      split at h
      · cases hr : aggregate dist router stage ps routes cs (add (upd b c 0) dist (router stage c (b c))) with
        | err => rw [hr] at h; simp at h
        | panic => rw [hr] at h; simp at h
        | ok pr =>
          obtain ⟨b1, inn1, sw1⟩ := pr
          rw [hr] at h; simp only at h
          injection h with h; injection h with h1 h2; injection h2 with h2 h3
          subst h1; subst h2
          obtain ⟨i1, i2⟩ := ih _ b1 inn1 sw1 hcs hr
          constructor
          · rw [i1]; unfold add upd
            have : ¬ dist = c := fun e => hcd e.symm
            simp [this]; omega
          · intro i hi
            by_cases hic : i = c
            · subst hic
              right
              have hb0 : add (upd b i 0) dist (router stage i (b i)) i = 0 := by
                unfold add upd; simp [hi]
              cases i2 i hi with
              | inl hl => rw [hl, hb0]; exact ⟨rfl, hcond.1, hcond.2, List.mem_cons_self⟩
              | inr hr2 => exact ⟨hr2.1, hcond.1, hcond.2, List.mem_cons_self⟩
            · have hbi : add (upd b c 0) dist (router stage c (b c)) i = b i := by
                unfold add upd; simp [hi, hic]
              cases i2 i hi with
              | inl hl => left; rw [hl, hbi]
              | inr hr2 =>
                right
                rw [hbi] at hr2
                exact ⟨hr2.1, hr2.2.1, hr2.2.2.1, List.mem_cons_of_mem _ hr2.2.2.2⟩
      · cases h
    · obtain ⟨i1, i2⟩ := ih b b' inn sw hcs h
      refine ⟨i1, fun i hi => ?_⟩
      cases i2 i hi with
      | inl hl => exact Or.inl hl
      | inr hr2 => exact Or.inr ⟨hr2.1, hr2.2.1, hr2.2.2.1, List.mem_cons_of_mem _ hr2.2.2.2⟩

theorem vaultAssets_ne (cfg : Cfg) (vs : List Vault) : ∀ c ∈ vaultAssets cfg vs, c ≠ cfg.dist := by
  intro c hc
  unfold vaultAssets at hc
  have := (List.mem_filter.mp hc).2
  simp only [Bool.and_eq_true, bne_iff_ne, ne_eq] at this
  exact this.1

theorem poolAssets_ne (cfg : Cfg) (ps : List Pool) : ∀ c ∈ poolAssets cfg ps, c ≠ cfg.dist := by
  intro c hc
  unfold poolAssets at hc
  have := (List.mem_filter.mp hc).2
  simp only [Bool.and_eq_true, bne_iff_ne, ne_eq] at this
  exact this.1

/-! ### the whole pipeline -/

theorem forwardFees_spec {cfg : Cfg} {s : St} {sender epochId : Nat} {router : Nat → Nat → Nat → Nat}
    {acc : Nat → Nat → Nat} {o : Out} (h : forwardFees cfg s sender epochId router acc = .ok o) :
    sender = cfg.distributor ∧
    ∃ b2 in0 sw0 b3 in1 sw1,
      aggregate cfg.dist router 0 (poolsAfter s.pools) s.routes (vaultAssets cfg s.vaults)
        (collectPools s.pools (collectVaults s.vaults s.bal)) = .ok (b2, in0, sw0) ∧
      aggregate cfg.dist router 1 (poolsAfter s.pools) s.routes (poolAssets cfg (poolsAfter s.pools)) b2 =
        .ok (b3, in1, sw1) ∧
      takeOf s (b3 cfg.dist) ≤ b3 cfg.dist ∧
      o = { st := { s with bal := upd b3 cfg.dist 0,
                           dao := s.dao + takeOf s (b3 cfg.dist),
                           trh := if takeOf s (b3 cfg.dist) = 0 then s.trh else s.trh ++ [(epochId, takeOf s (b3 cfg.dist))],
                           pools := addAcc acc 0 (poolsAfter s.pools),
                           vaults := vaultsAfter s.vaults },
            inflow := if b3 cfg.dist - takeOf s (b3 cfg.dist) = 0 then none else some (b3 cfg.dist - takeOf s (b3 cfg.dist)),
            take := takeOf s (b3 cfg.dist), base := b3 cfg.dist, swappedIn := in0 + in1, swaps := sw0 ++ sw1 } := by
  unfold forwardFees at h
  split at h
  · cases h
  · rename_i hs
    refine ⟨Classical.not_not.mp hs, ?_⟩
    simp only at h
    cases h0 : aggregate cfg.dist router 0 (poolsAfter s.pools) s.routes (vaultAssets cfg s.vaults)
        (collectPools s.pools (collectVaults s.vaults s.bal)) with
    | err => rw [h0] at h; simp at h
    | panic => rw [h0] at h; simp at h
    | ok pr =>
      obtain ⟨b2, in0, sw0⟩ := pr
      rw [h0] at h; simp only at h
      cases h1 : aggregate cfg.dist router 1 (poolsAfter s.pools) s.routes (poolAssets cfg (poolsAfter s.pools)) b2 with
      | err => rw [h1] at h; simp at h
      | panic => rw [h1] at h; simp at h
      | ok pr1 =>
        obtain ⟨b3, in1, sw1⟩ := pr1
        rw [h1] at h; simp only at h
        split at h
        · rename_i hle
          injection h with h
          exact ⟨b2, in0, sw0, b3, in1, sw1, rfl, h1, hle, h.symm⟩
        · cases h

theorem takeOf_le_of_rate_lt (s : St) (tb : Nat) (hr : s.rate < E18) : takeOf s tb ≤ tb := by
  unfold takeOf
  split
  · split
    · have h1 : tb * s.rate ≤ tb * E18 := Nat.mul_le_mul_left tb (Nat.le_of_lt hr)
      have h2 : tb * s.rate / E18 ≤ tb * E18 / E18 := Nat.div_le_div_right h1
      rw [Nat.mul_div_cancel tb E18_pos] at h2
      exact h2
    · exact Nat.zero_le _
  · exact Nat.zero_le _

end WW.Collector
