/- Helper lemmas for the configuration-bounds model (C18). -/
import WW.Model.Config
namespace WW.Config
open WW

theorem E18_val : E18 = 1000000000000000000 := rfl
theorem U128MAX_val : U128MAX = 340282366920938463463374607431768211455 := by decide
theorem U64MAX_val : U64MAX = 18446744073709551615 := by decide

/-! ### fee validators -/

/-- `PoolFee::is_valid` / `VaultFee::is_valid` return `Ok` iff every share and the total are below
    100 % (stated with the documented number) -/
theorem fees3_ok_iff (f : Fees3) : fees3IsValid f = .ok () ↔ f.ok = true := by
  have hE := E18_val
  have hU := U128MAX_val
  simp only [Fees3.ok, Bool.and_eq_true, decide_eq_true_eq]
  unfold fees3IsValid
  by_cases h1 : f.a ≥ E18
  · rw [if_pos h1]; constructor
    · intro h; cases h
    · intro h; omega
  rw [if_neg h1]
  by_cases h2 : f.b ≥ E18
  · rw [if_pos h2]; constructor
    · intro h; cases h
    · intro h; omega
  rw [if_neg h2]
  by_cases h3 : f.c ≥ E18
  · rw [if_pos h3]; constructor
    · intro h; cases h
    · intro h; omega
  rw [if_neg h3]
  have h4 : ¬ f.a + f.b > U128MAX := by omega
  have h5 : ¬ f.a + f.b + f.c > U128MAX := by omega
  rw [if_neg h4, if_neg h5]
  by_cases h6 : f.a + f.b + f.c ≥ E18
  · rw [if_pos h6]; constructor
    · intro h; cases h
    · intro h; omega
  rw [if_neg h6]
  constructor
  · intro _; omega
  · intro _; rfl

/-- the fee validators never panic -/
theorem fees3_not_panic (f : Fees3) : fees3IsValid f ≠ .panic := by
  unfold fees3IsValid
  repeat' split
  all_goals simp

theorem applyFees_ok {old f : Fees3} {o : Option Fees3} (hold : old.ok = true)
    (h : applyFees old o = .ok f) : f.ok = true := by
  cases o with
  | none => simp only [applyFees] at h; cases h; exact hold
  | some g =>
    simp only [applyFees] at h
    split at h
    · next hv => cases h; exact (fees3_ok_iff _).1 hv
    · cases h
    · cases h

/-! ### pair -/

theorem pairAmpOk_iff (a : Nat) (hmin : Gen.PAIR_MIN_AMP = 1) (hmax : Gen.PAIR_MAX_AMP = 1000000) :
    pairAmpOk a = ampInBounds a := by
  simp [pairAmpOk, ampInBounds, hmin, hmax]

theorem pairInstantiate_ok (hmin : Gen.PAIR_MIN_AMP = 1) (hmax : Gen.PAIR_MAX_AMP = 1000000)
    {via : Bool} {fees : Fees3} {amp : Option Nat} {tf : Bool} {p : PairCfg}
    (h : pairInstantiate via fees amp tf = .ok p) : p.ok = true := by
  simp only [pairInstantiate] at h
  split at h
  · next hv =>
    split at h
    · cases h
    · next hamp =>
      split at h
      · cases h
      · cases h
        simp only [PairCfg.ok, Bool.and_eq_true]
        refine ⟨(fees3_ok_iff _).1 hv, ?_⟩
        cases amp with
        | none => rfl
        | some a =>
          simp only [Bool.not_eq_false, pairTypeOk] at hamp
          simpa [pairAmpOk_iff a hmin hmax] using hamp
  · cases h
  · cases h

theorem pairUpdate_ok {via : Bool} {p p' : PairCfg} {fees : Option Fees3} (hp : p.ok = true)
    (h : pairUpdate via p fees = .ok p') : p'.ok = true := by
  simp only [pairUpdate] at h
  split at h
  · cases h
  · split at h
    · next f hf =>
      cases h
      simp only [PairCfg.ok, Bool.and_eq_true] at hp ⊢
      exact ⟨applyFees_ok hp.1 hf, hp.2⟩
    · cases h
    · cases h

/-! ### 3pool -/

theorem trioInstantiate_ok (hmin : Gen.TRIO_MIN_AMP = 1) (hmax : Gen.TRIO_MAX_AMP = 1000000)
    {via : Bool} {height : Nat} {fees : Fees3} {amp : Nat} {tf : Bool} {t : TrioCfg}
    (h : trioInstantiate via height fees amp tf = .ok t) : t.ok = true := by
  simp only [trioInstantiate] at h
  split at h
  · next hv =>
    split at h
    · cases h
    · split at h
      · cases h
      · split at h
        · cases h
        · cases h
          simp only [TrioCfg.ok, ampInBounds, Bool.and_eq_true, decide_eq_true_eq]
          refine ⟨⟨(fees3_ok_iff _).1 hv, ?_⟩, ?_⟩ <;> omega
  · cases h
  · cases h

theorem mul_div_le_left (x d r : Nat) (h : d ≤ r) : x * d / r ≤ x := by
  by_cases hr : r = 0
  · subst hr; simp
  · apply Nat.div_le_of_le_mul
    calc x * d ≤ x * r := Nat.mul_le_mul_left x h
      _ = r * x := Nat.mul_comm x r

/-- the amplification in force at any block lies between the two stored end points -/
theorem currentAmp_between {t : TrioCfg} {h cur : Nat} (hc : currentAmp t h = some cur) :
    (t.initAmp ≤ cur ∧ cur ≤ t.futAmp) ∨ (t.futAmp ≤ cur ∧ cur ≤ t.initAmp) := by
  simp only [currentAmp] at hc
  split at hc
  · next hlt =>
    split at hc
    · next hb =>
      have hd : h - t.initBlock ≤ t.futBlock - t.initBlock := by omega
      split at hc
      · next hge =>
        have := mul_div_le_left (t.futAmp - t.initAmp) (h - t.initBlock) (t.futBlock - t.initBlock) hd
        generalize (t.futAmp - t.initAmp) * (h - t.initBlock) / (t.futBlock - t.initBlock) = q at *
        split at hc
        · cases hc
          left; constructor <;> omega
        · cases hc
      · next hlt2 =>
        have := mul_div_le_left (t.initAmp - t.futAmp) (h - t.initBlock) (t.futBlock - t.initBlock) hd
        generalize (t.initAmp - t.futAmp) * (h - t.initBlock) / (t.futBlock - t.initBlock) = q at *
        split at hc
        · cases hc
          right; constructor <;> omega
        · cases hc
    · cases hc
  · cases hc
    by_cases hle : t.initAmp ≤ t.futAmp
    · left; omega
    · right; omega

theorem currentAmp_bounds {t : TrioCfg} {h cur : Nat} (ht : t.ok = true) (hc : currentAmp t h = some cur) :
    ampInBounds cur = true := by
  simp only [TrioCfg.ok, ampInBounds, Bool.and_eq_true, decide_eq_true_eq] at ht ⊢
  rcases currentAmp_between hc with hh | hh <;> omega

theorem applyRamp_ok (hmin : Gen.TRIO_MIN_AMP = 1) (hmax : Gen.TRIO_MAX_AMP = 1000000)
    {height : Nat} {t t' : TrioCfg} {ramp : Option (Nat × Nat)} (ht : t.ok = true)
    (h : applyRamp height t ramp = .ok t') : t'.ok = true := by
  cases ramp with
  | none => simp only [applyRamp] at h; cases h; exact ht
  | some r =>
    obtain ⟨fa, fb⟩ := r
    simp only [applyRamp] at h
    split at h
    · cases h
    · next cur hcur =>
      have hb := currentAmp_bounds ht hcur
      split at h
      · cases h
      · split at h
        · cases h
        · split at h
          · cases h
          · split at h
            · cases h
            · split at h
              · cases h
              · cases h
                simp only [TrioCfg.ok, ampInBounds, Bool.and_eq_true, decide_eq_true_eq] at ht hb ⊢
                refine ⟨⟨ht.1.1, hb⟩, ?_⟩
                omega
          · cases h
          · cases h

theorem trioUpdate_ok (hmin : Gen.TRIO_MIN_AMP = 1) (hmax : Gen.TRIO_MAX_AMP = 1000000)
    {via : Bool} {height : Nat} {t t' : TrioCfg} {fees : Option Fees3} {ramp : Option (Nat × Nat)}
    (ht : t.ok = true) (h : trioUpdate via height t fees ramp = .ok t') : t'.ok = true := by
  simp only [trioUpdate] at h
  split at h
  · cases h
  · split at h
    · next f hf =>
      refine applyRamp_ok hmin hmax ?_ h
      simp only [TrioCfg.ok, Bool.and_eq_true] at ht ⊢
      exact ⟨⟨applyFees_ok ht.1.1 hf, ht.1.2⟩, ht.2⟩
    · cases h
    · cases h

/-! ### vault -/

/-- invariant of a stored vault: fees in bounds and no burn fee when the code classes the asset as a
    token-factory denom (`has_factory_token`: every token-factory denom and some more shapes) -/
def VaultCfg.inv (v : VaultCfg) : Prop :=
  v.fees.ok = true ∧ (v.asset.codeSaysFactory = true → v.fees.c = 0)

theorem AssetClass.tokenFactory_codeSays {a : AssetClass} (h : a.isTokenFactory = true) :
    a.codeSaysFactory = true := by
  cases a <;> simp_all [AssetClass.isTokenFactory, AssetClass.codeSaysFactory]

theorem VaultCfg.inv_ok {v : VaultCfg} (h : v.inv) : v.ok = true := by
  simp only [VaultCfg.ok, h.1, Bool.true_and, Bool.or_eq_true, Bool.not_eq_true', decide_eq_true_eq]
  cases htf : v.asset.isTokenFactory
  · exact Or.inl rfl
  · exact Or.inr (h.2 (AssetClass.tokenFactory_codeSays htf))

theorem vaultInstantiate_inv {via : Bool} {fees : Fees3} {a : AssetClass} {tf lenient : Bool} {v : VaultCfg}
    (h : vaultInstantiate via fees a tf lenient = .ok v) : v.inv := by
  simp only [vaultInstantiate] at h
  split at h
  · cases h
  · next hb =>
    split at h
    · next hv =>
      split at h
      · cases h
      · split at h
        · split at h
          · cases h
            refine ⟨(fees3_ok_iff _).1 hv, ?_⟩
            intro hc
            simp only [Bool.and_eq_true, decide_eq_true_eq, not_and] at hb
            have := hb hc
            show fees.c = 0
            omega
          · cases h
        · cases h
        · cases h
    · cases h
    · cases h

/-- with the stock LP-token code no write path creates a vault over a token-factory asset -/
theorem vaultInstantiate_factory_rejected (via : Bool) (fees : Fees3) (tf : Bool) :
    ∀ v, vaultInstantiate via fees .factory tf false ≠ .ok v := by
  intro v h
  simp only [vaultInstantiate] at h
  split at h
  · cases h
  · split at h
    · split at h
      · cases h
      · simp [AssetClass.label, AssetClass.lpSymbolOk] at h
    · cases h
    · cases h

theorem vaultCreate_inv {fees : Fees3} {a : AssetClass} {tf lenient : Bool} {v : VaultCfg}
    (h : vaultCreate fees a tf lenient = .ok v) : v.inv := by
  simp only [vaultCreate] at h
  split at h
  · cases h
  · split at h
    · cases h
    · split at h
      · exact vaultInstantiate_inv h
      · cases h
      · cases h

theorem vaultUpdate_inv {via : Bool} {v v' : VaultCfg} {fees : Option Fees3} (hv : v.inv)
    (h : vaultUpdate via v fees = .ok v') : v'.inv := by
  simp only [vaultUpdate] at h
  split at h
  · cases h
  · split at h
    · next f hf =>
      split at h
      · cases h
        have hf' : f = v.fees := by simpa [applyFees] using hf.symm
        subst hf'
        exact hv
      · next nf =>
        split at h
        · cases h
        · next hb =>
          cases h
          refine ⟨applyFees_ok hv.1 hf, ?_⟩
          intro hc
          simp only [Bool.and_eq_true, decide_eq_true_eq, not_and] at hb
          have h0 := hb hc
          have hfe : f = nf := by
            simp only [applyFees] at hf
            split at hf <;> first | (cases hf; rfl) | cases hf
          subst hfe
          show f.c = 0
          omega
    · cases h
    · cases h

/-! ### distributor, lair, collector -/

theorem graceValid_iff (g : Nat) (hmax : Gen.DISTRIBUTOR_MAX_GRACE_PERIOD = 30) :
    graceValid g = true ↔ 1 ≤ g ∧ g ≤ 30 := by
  simp [graceValid, hmax]; omega

theorem durationValid_iff (d : Nat) (hday : Gen.DISTRIBUTOR_DAY_IN_NANOSECONDS = 86400000000000) :
    durationValid d = true ↔ 86400000000000 ≤ d := by
  simp [durationValid, hday]

theorem distInstantiate_ok (hmax : Gen.DISTRIBUTOR_MAX_GRACE_PERIOD = 30)
    (hday : Gen.DISTRIBUTOR_DAY_IN_NANOSECONDS = 86400000000000) {g d : Nat} {x : DistCfg}
    (h : distInstantiate g d = .ok x) : x.ok = true := by
  simp only [distInstantiate] at h
  split at h
  · cases h
  · next hg =>
    split at h
    · cases h
    · next hd =>
      cases h
      simp only [Bool.not_eq_false] at hg hd
      have := (graceValid_iff g hmax).1 hg
      have := (durationValid_iff d hday).1 hd
      simp [DistCfg.ok]; omega

theorem distUpdate_ok (hmax : Gen.DISTRIBUTOR_MAX_GRACE_PERIOD = 30)
    (hday : Gen.DISTRIBUTOR_DAY_IN_NANOSECONDS = 86400000000000) {x y : DistCfg} {g d : Option Nat}
    (hx : x.ok = true) (h : distUpdate x g d = .ok y) : y.ok = true ∧ x.grace ≤ y.grace := by
  simp only [DistCfg.ok, Bool.and_eq_true, decide_eq_true_eq] at hx
  simp only [distUpdate] at h
  split at h
  · next d1 hd1 =>
    have h1 : 86400000000000 ≤ d1.duration ∧ d1.grace = x.grace := by
      cases d with
      | none => simp at hd1; cases hd1; exact ⟨hx.2, rfl⟩
      | some dv =>
        simp only at hd1
        split at hd1
        · cases hd1
        · next hdv =>
          cases hd1
          simp only [Bool.not_eq_false] at hdv
          exact ⟨(durationValid_iff dv hday).1 hdv, rfl⟩
    cases g with
    | none =>
      simp only at h; cases h
      simp only [DistCfg.ok, Bool.and_eq_true, decide_eq_true_eq]
      omega
    | some gv =>
      simp only at h
      split at h
      · cases h
      · next hg =>
        split at h
        · cases h
        · cases h
          simp only [Bool.not_eq_false] at hg
          have := (graceValid_iff gv hmax).1 hg
          simp only [DistCfg.ok, Bool.and_eq_true, decide_eq_true_eq]
          omega
  · cases h
  · cases h

theorem growthValid_iff (r : Nat) : growthValid r = true ↔ r ≤ 1000000000000000000 := by
  simp [growthValid, E18_val]

theorem lairInstantiate_ok (hlim : Gen.LAIR_BONDING_ASSETS_LIMIT = 2) {r n : Nat} {k strict : Bool} {x : LairCfg}
    (h : lairInstantiate r n k strict = .ok x) : x.ok = true := by
  simp only [lairInstantiate] at h
  split at h
  · cases h
  · split at h
    · cases h
    · next hr =>
      split at h
      · cases h
      · split at h
        · cases h
        · cases h
          simp only [Bool.not_eq_false] at hr
          have := (growthValid_iff r).1 hr
          simp [LairCfg.ok]; omega

theorem lairUpdate_ok {x y : LairCfg} {r : Option Nat} (hx : x.ok = true) (h : lairUpdate x r = .ok y) :
    y.ok = true ∧ y.nAssets = x.nAssets := by
  cases r with
  | none => simp only [lairUpdate] at h; cases h; exact ⟨hx, rfl⟩
  | some rv =>
    simp only [lairUpdate] at h
    split at h
    · cases h
    · next hr =>
      cases h
      simp only [Bool.not_eq_false] at hr
      have := (growthValid_iff rv).1 hr
      refine ⟨?_, rfl⟩
      simp only [LairCfg.ok, Bool.and_eq_true, decide_eq_true_eq] at hx ⊢
      exact ⟨this, hx.2⟩

theorem collUpdate_ok {x y : CollCfg} {t : Option Nat} (hx : x.ok = true) (h : collUpdate x t = .ok y) :
    y.ok = true := by
  cases t with
  | none => simp only [collUpdate] at h; cases h; exact hx
  | some tv =>
    simp only [collUpdate] at h
    split at h
    · next ht => cases h; simpa [CollCfg.ok, E18_val] using ht
    · cases h

/-! ### lists of contracts -/

theorem updAt_forall {α : Type} {P : α → Prop} {xs ys : List α} {i : Nat} {f : α → Res α}
    (hf : ∀ x y, P x → f x = .ok y → P y) (hxs : ∀ x ∈ xs, P x) (h : updAt xs i f = .ok ys) :
    ∀ y ∈ ys, P y := by
  simp only [updAt] at h
  split at h
  · cases h
  · next x hx =>
    split at h
    · next y hy =>
      cases h
      intro z hz
      rcases List.mem_or_eq_of_mem_set hz with hz | rfl
      · exact hxs z hz
      · exact hf x _ (hxs x (List.mem_of_getElem? hx)) hy
    · cases h
    · cases h

/-- the invariant carried through histories: `ConfigOk` strengthened by "no stored vault is over a
    token-factory asset" -/
structure Inv (c : Cfg) : Prop where
  pairs : ∀ p ∈ c.pairs, p.ok = true
  trios : ∀ t ∈ c.trios, t.ok = true
  vaults : ∀ v ∈ c.vaults, v.inv
  dist : ∀ d, c.dist = some d → d.ok = true
  lair : ∀ l, c.lair = some l → l.ok = true
  coll : ∀ k, c.coll = some k → k.ok = true

theorem Inv.configOk {c : Cfg} (h : Inv c) : ConfigOk c := by
  show WW.Config.configOk c = true
  unfold WW.Config.configOk
  simp only [Bool.and_eq_true, List.all_eq_true]
  refine ⟨⟨⟨⟨⟨h.pairs, h.trios⟩, fun v hv => VaultCfg.inv_ok (h.vaults v hv)⟩, ?_⟩, ?_⟩, ?_⟩
  · cases hd : c.dist with
    | none => rfl
    | some d => exact h.dist d hd
  · cases hd : c.lair with
    | none => rfl
    | some d => exact h.lair d hd
  · cases hd : c.coll with
    | none => rfl
    | some d => exact h.coll d hd

theorem Inv.empty (height : Nat) : Inv (Cfg.empty height) := by
  constructor <;> simp [Cfg.empty]

/-- the documented values of the constants the validators use -/
structure Pinned : Prop where
  pairMin : Gen.PAIR_MIN_AMP = 1
  pairMax : Gen.PAIR_MAX_AMP = 1000000
  trioMin : Gen.TRIO_MIN_AMP = 1
  trioMax : Gen.TRIO_MAX_AMP = 1000000
  grace : Gen.DISTRIBUTOR_MAX_GRACE_PERIOD = 30
  day : Gen.DISTRIBUTOR_DAY_IN_NANOSECONDS = 86400000000000
  assets : Gen.LAIR_BONDING_ASSETS_LIMIT = 2

theorem forall_mem_append_singleton {α : Type} {P : α → Prop} {xs : List α} {y : α}
    (hxs : ∀ x ∈ xs, P x) (hy : P y) : ∀ x ∈ xs ++ [y], P x := by
  intro x hx
  rcases List.mem_append.1 hx with h | h
  · exact hxs x h
  · rw [List.mem_singleton.1 h]; exact hy

theorem step_inv (K : Pinned) {c c' : Cfg} {op : Op} (hc : Inv c) (h : step c op = .ok c') : Inv c' := by
  cases op with
  | pairInst via fees amp tf =>
    simp only [step] at h
    split at h
    · next p hp =>
      cases h
      exact { hc with pairs := forall_mem_append_singleton hc.pairs (pairInstantiate_ok K.pairMin K.pairMax hp) }
    · cases h
    · cases h
  | pairUpd via i fees =>
    simp only [step] at h
    split at h
    · next ps hps =>
      cases h
      have hps' : ∀ p ∈ ps, p.ok = true :=
        updAt_forall (P := fun p : PairCfg => p.ok = true) (fun x y hx hxy => pairUpdate_ok hx hxy) hc.pairs hps
      exact { hc with pairs := hps' }
    · cases h
    · cases h
  | trioInst via fees amp tf =>
    simp only [step] at h
    split at h
    · next t ht =>
      cases h
      exact { hc with trios := forall_mem_append_singleton hc.trios (trioInstantiate_ok K.trioMin K.trioMax ht) }
    · cases h
    · cases h
  | trioUpd via i fees ramp =>
    simp only [step] at h
    split at h
    · next ts hts =>
      cases h
      have hts' : ∀ t ∈ ts, t.ok = true :=
        updAt_forall (P := fun t : TrioCfg => t.ok = true)
          (fun x y hx hxy => trioUpdate_ok K.trioMin K.trioMax hx hxy) hc.trios hts
      exact { hc with trios := hts' }
    · cases h
    · cases h
  | vaultInst via fees a tf lenient =>
    simp only [step] at h
    split at h
    · next v hv =>
      cases h
      have : v.inv := by
        cases via
        · exact vaultInstantiate_inv hv
        · exact vaultCreate_inv hv
      exact { hc with vaults := forall_mem_append_singleton hc.vaults this }
    · cases h
    · cases h
  | vaultUpd via i fees =>
    simp only [step] at h
    split at h
    · next vs hvs =>
      cases h
      have hvs' : ∀ v ∈ vs, v.inv :=
        updAt_forall (P := VaultCfg.inv) (fun x y hx hxy => vaultUpdate_inv hx hxy) hc.vaults hvs
      exact { hc with vaults := hvs' }
    · cases h
    · cases h
  | distInst g d =>
    simp only [step] at h
    split at h
    · next x hx =>
      cases h
      have hx' := distInstantiate_ok K.grace K.day hx
      exact { hc with dist := fun d hd => by cases hd; exact hx' }
    · cases h
    · cases h
  | distUpd g d =>
    simp only [step] at h
    split at h
    · cases h
    · next x hx =>
      split at h
      · next y hy =>
        cases h
        have hy' := (distUpdate_ok K.grace K.day (hc.dist x hx) hy).1
        exact { hc with dist := fun d hd => by cases hd; exact hy' }
      · cases h
      · cases h
  | lairInst r n k strict =>
    simp only [step] at h
    split at h
    · next x hx =>
      cases h
      have hx' := lairInstantiate_ok K.assets hx
      exact { hc with lair := fun d hd => by cases hd; exact hx' }
    · cases h
    · cases h
  | lairUpd r =>
    simp only [step] at h
    split at h
    · cases h
    · next x hx =>
      split at h
      · next y hy =>
        cases h
        have hy' := (lairUpdate_ok (hc.lair x hx) hy).1
        exact { hc with lair := fun d hd => by cases hd; exact hy' }
      · cases h
      · cases h
  | collInst =>
    simp only [step] at h
    cases h
    exact { hc with coll := fun d hd => by cases hd; rfl }
  | collUpd t =>
    simp only [step] at h
    split at h
    · cases h
    · next x hx =>
      split at h
      · next y hy =>
        cases h
        have hy' := collUpdate_ok (hc.coll x hx) hy
        exact { hc with coll := fun d hd => by cases hd; exact hy' }
      · cases h
      · cases h
  | advance n =>
    simp only [step] at h
    cases h
    exact { hc with }
  | migrate =>
    simp only [step] at h
    cases h
    exact hc

theorem reach_inv (K : Pinned) (ops : List Op) {c : Cfg} (hc : Inv c) : Inv (reach c ops) := by
  induction ops generalizing c with
  | nil => exact hc
  | cons op ops ih =>
    simp only [reach]
    split
    · next c' h => exact ih (step_inv K hc h)
    · exact ih hc

/-! ### the stock LP-token code: no vault over a token-factory asset -/

/-- operations that hand the vault the stock cw20 code for its LP token -/
def Op.stockLp : Op → Bool
  | .vaultInst _ _ _ _ lenient => !lenient
  | _ => true

theorem vaultUpdate_asset {via : Bool} {v v' : VaultCfg} {fees : Option Fees3}
    (h : vaultUpdate via v fees = .ok v') : v'.asset = v.asset := by
  simp only [vaultUpdate] at h
  split at h
  · cases h
  · split at h
    · split at h
      · cases h; rfl
      · split at h
        · cases h
        · cases h; rfl
    · cases h
    · cases h

theorem vaultInstantiate_asset {via : Bool} {fees : Fees3} {a : AssetClass} {tf l : Bool} {v : VaultCfg}
    (h : vaultInstantiate via fees a tf l = .ok v) : v.asset = a := by
  simp only [vaultInstantiate] at h
  split at h
  · cases h
  · split at h
    · split at h
      · cases h
      · split at h
        · split at h
          · cases h; rfl
          · cases h
        · cases h
        · cases h
    · cases h
    · cases h

theorem vaultCreate_asset {fees : Fees3} {a : AssetClass} {tf l : Bool} {v : VaultCfg}
    (h : vaultCreate fees a tf l = .ok v) : v.asset = a := by
  simp only [vaultCreate] at h
  split at h
  · cases h
  · split at h
    · cases h
    · split at h
      · exact vaultInstantiate_asset h
      · cases h
      · cases h

theorem vaultCreate_factory_rejected (fees : Fees3) (tf : Bool) :
    ∀ v, vaultCreate fees .factory tf false ≠ .ok v := by
  intro v h
  simp only [vaultCreate] at h
  split at h
  · cases h
  · split at h
    · cases h
    · split at h
      · exact vaultInstantiate_factory_rejected true fees tf _ h
      · cases h
      · cases h

theorem step_no_token_factory_vault {c c' : Cfg} {op : Op} (hs : op.stockLp = true)
    (hc : ∀ v ∈ c.vaults, v.asset.isTokenFactory = false) (h : step c op = .ok c') :
    ∀ v ∈ c'.vaults, v.asset.isTokenFactory = false := by
  cases op with
  | vaultInst via fees a tf lenient =>
    have hl : lenient = false := by simpa [Op.stockLp] using hs
    subst hl
    simp only [step] at h
    split at h
    · next x hx =>
      cases h
      intro v hv
      rcases List.mem_append.1 hv with hv | hv
      · exact hc v hv
      · have hvx : v = x := by simpa using hv
        subst hvx
        have hasset : v.asset = a := by
          cases via
          · exact vaultInstantiate_asset (by simpa using hx)
          · exact vaultCreate_asset (by simpa using hx)
        rw [hasset]
        cases a <;> try rfl
        exfalso
        cases via
        · exact vaultInstantiate_factory_rejected false fees tf _ (by simpa using hx)
        · exact vaultCreate_factory_rejected fees tf _ (by simpa using hx)
    · cases h
    · cases h
  | vaultUpd via i fees =>
    simp only [step] at h
    split at h
    · next vs hvs =>
      cases h
      exact updAt_forall (P := fun v => v.asset.isTokenFactory = false)
        (fun x y hx hxy => by rw [vaultUpdate_asset hxy]; exact hx) hc hvs
    · cases h
    · cases h
  | pairInst _ _ _ _ => simp only [step] at h; split at h <;> cases h; exact hc
  | pairUpd _ _ _ => simp only [step] at h; split at h <;> cases h; exact hc
  | trioInst _ _ _ _ => simp only [step] at h; split at h <;> cases h; exact hc
  | trioUpd _ _ _ _ => simp only [step] at h; split at h <;> cases h; exact hc
  | distInst _ _ => simp only [step] at h; split at h <;> cases h; exact hc
  | distUpd _ _ =>
    simp only [step] at h
    split at h
    · cases h
    · split at h <;> cases h; exact hc
  | lairInst _ _ _ _ => simp only [step] at h; split at h <;> cases h; exact hc
  | lairUpd _ =>
    simp only [step] at h
    split at h
    · cases h
    · split at h <;> cases h; exact hc
  | collInst => simp only [step] at h; cases h; exact hc
  | collUpd _ =>
    simp only [step] at h
    split at h
    · cases h
    · split at h <;> cases h; exact hc
  | advance _ => simp only [step] at h; cases h; exact hc
  | migrate => simp only [step] at h; cases h; exact hc


end WW.Config
