/- Closed form of `calcWeight` on the property's domain and the monotonicity facts behind C13's
   pure clauses. -/
import WW.Model.Weight
import WW.Proofs.Basic
namespace WW
open WW.Gen

/-- the `Decimal256` multiplier `a·d² + b·d + c` exactly as the Rust rounds it (atomics, 18 decimals) -/
def wMul (d : Nat) : Nat :=
  (d * E18 * (d * E18) / E18 * E18 / E18) * INCENTIVE_WEIGHT_SQ_COEFF / E18 * E18 / INCENTIVE_WEIGHT_SQ_DENOM
  + (d * E18) * INCENTIVE_WEIGHT_LIN_COEFF / E18 * E18 / INCENTIVE_WEIGHT_LIN_DENOM
  + INCENTIVE_WEIGHT_CONST_NUM * E18 / INCENTIVE_WEIGHT_CONST_DEN

/-- the weight before clamping: `⌊⌊amount·10¹⁸ · mult / 10¹⁸⌋ / 10¹⁸⌋` -/
def wRaw (d amt : Nat) : Nat := amt * E18 * wMul d / E18 / E18

theorem div_mono_num {a b c : Nat} (h : a ≤ b) : a / c ≤ b / c := Nat.div_le_div_right h

theorem wMul_mono {d1 d2 : Nat} (h : d1 ≤ d2) : wMul d1 ≤ wMul d2 := by
  unfold wMul
  have hdd : d1 * E18 ≤ d2 * E18 := Nat.mul_le_mul_right _ h
  have h1 : d1 * E18 * (d1 * E18) ≤ d2 * E18 * (d2 * E18) := Nat.mul_le_mul hdd hdd
  have h2 := div_mono_num (c := E18) h1
  have h3 := div_mono_num (c := E18) (Nat.mul_le_mul_right E18 h2)
  have h4 := div_mono_num (c := E18) (Nat.mul_le_mul_right INCENTIVE_WEIGHT_SQ_COEFF h3)
  have h5 := div_mono_num (c := INCENTIVE_WEIGHT_SQ_DENOM) (Nat.mul_le_mul_right E18 h4)
  have h6 := div_mono_num (c := E18) (Nat.mul_le_mul_right INCENTIVE_WEIGHT_LIN_COEFF hdd)
  have h7 := div_mono_num (c := INCENTIVE_WEIGHT_LIN_DENOM) (Nat.mul_le_mul_right E18 h6)
  omega

theorem wRaw_mono_amount {d a1 a2 : Nat} (h : a1 ≤ a2) : wRaw d a1 ≤ wRaw d a2 := by
  unfold wRaw
  exact div_mono_num (div_mono_num (Nat.mul_le_mul_right _ (Nat.mul_le_mul_right _ h)))

theorem wRaw_mono_duration {d1 d2 a : Nat} (h : d1 ≤ d2) : wRaw d1 a ≤ wRaw d2 a := by
  unfold wRaw
  exact div_mono_num (div_mono_num (Nat.mul_le_mul_left _ (wMul_mono h)))

/-- duration in the range accepted by `calculate_weight` -/
def DurOk (d : Nat) : Prop := INCENTIVE_WEIGHT_MIN_DURATION ≤ d ∧ d ≤ INCENTIVE_WEIGHT_MAX_DURATION

private theorem max_facts :
    INCENTIVE_WEIGHT_MAX_DURATION * E18 ≤ U256MAX
    ∧ INCENTIVE_WEIGHT_MAX_DURATION * E18 * (INCENTIVE_WEIGHT_MAX_DURATION * E18) / E18 ≤ U256MAX
    ∧ (INCENTIVE_WEIGHT_MAX_DURATION * E18 * (INCENTIVE_WEIGHT_MAX_DURATION * E18) / E18 * E18 / E18)
        * INCENTIVE_WEIGHT_SQ_COEFF / E18 ≤ U256MAX
    ∧ (INCENTIVE_WEIGHT_MAX_DURATION * E18 * (INCENTIVE_WEIGHT_MAX_DURATION * E18) / E18 * E18 / E18)
        * INCENTIVE_WEIGHT_SQ_COEFF / E18 * E18 / INCENTIVE_WEIGHT_SQ_DENOM ≤ U256MAX
    ∧ (INCENTIVE_WEIGHT_MAX_DURATION * E18) * INCENTIVE_WEIGHT_LIN_COEFF / E18 ≤ U256MAX
    ∧ (INCENTIVE_WEIGHT_MAX_DURATION * E18) * INCENTIVE_WEIGHT_LIN_COEFF / E18 * E18 / INCENTIVE_WEIGHT_LIN_DENOM ≤ U256MAX
    ∧ INCENTIVE_WEIGHT_CONST_NUM * E18 / INCENTIVE_WEIGHT_CONST_DEN ≤ U256MAX
    ∧ wMul INCENTIVE_WEIGHT_MAX_DURATION ≤ 17 * E18
    ∧ U128MAX * E18 ≤ U256MAX
    ∧ U128MAX * E18 * (17 * E18) / E18 ≤ U256MAX
    ∧ INCENTIVE_WEIGHT_SQ_DENOM ≠ 0 ∧ INCENTIVE_WEIGHT_LIN_DENOM ≠ 0 ∧ INCENTIVE_WEIGHT_CONST_DEN ≠ 0 := by
  decide

theorem guardErr_true : guardErr true = .ok () := rfl
theorem guardErr_false : guardErr false = .err := rfl

theorem dmulC_ok {a b : Nat} (h : a * b / E18 ≤ U256MAX) : dmulC a b = .ok (a * b / E18) := by
  simp [dmulC, h]
theorem dmulP_ok {a b : Nat} (h : a * b / E18 ≤ U256MAX) : dmulP a b = .ok (a * b / E18) := by
  simp [dmulP, h]
theorem ddivC_ok {a b : Nat} (hb : b ≠ 0) (h : a * E18 / b ≤ U256MAX) : ddivC a b = .ok (a * E18 / b) :=
  mulRatioC_ok hb h

/-- **closed form**: for a duration in range and a `Uint128` amount the weight computation never
    panics; it is `max(amount, ⌊amount·mult⌋)` and fails (with an error) exactly when the unclamped
    value does not fit 128 bits. -/
theorem calcWeight_closed {d amt : Nat} (hd : DurOk d) (ha : amt ≤ U128MAX) :
    calcWeight d amt = if wRaw d amt ≤ U128MAX then .ok (max (wRaw d amt) amt) else .err := by
  obtain ⟨hmin, hmax⟩ := hd
  obtain ⟨f1, f2, f3, f4, f5, f6, f7, f8, f9, f10, n1, n2, n3⟩ := max_facts
  have hdd : d * E18 ≤ INCENTIVE_WEIGHT_MAX_DURATION * E18 := Nat.mul_le_mul_right _ hmax
  have b1 : d * E18 ≤ U256MAX := le_trans hdd f1
  have b2 : amt * E18 ≤ U256MAX := le_trans (Nat.mul_le_mul_right _ ha) f9
  have m1 : d * E18 * (d * E18) / E18
      ≤ INCENTIVE_WEIGHT_MAX_DURATION * E18 * (INCENTIVE_WEIGHT_MAX_DURATION * E18) / E18 :=
    div_mono_num (Nat.mul_le_mul hdd hdd)
  have b3 : d * E18 * (d * E18) / E18 ≤ U256MAX := le_trans m1 f2
  have m2 : d * E18 * (d * E18) / E18 * E18 / E18
      ≤ INCENTIVE_WEIGHT_MAX_DURATION * E18 * (INCENTIVE_WEIGHT_MAX_DURATION * E18) / E18 * E18 / E18 :=
    div_mono_num (Nat.mul_le_mul_right _ m1)
  have b4 : d * E18 * (d * E18) / E18 * E18 / E18 ≤ U256MAX := by
    rw [Nat.mul_div_cancel _ E18_pos]; exact b3
  have m3 := div_mono_num (c := E18) (Nat.mul_le_mul_right INCENTIVE_WEIGHT_SQ_COEFF m2)
  have b5 := le_trans m3 f3
  have m4 := div_mono_num (c := INCENTIVE_WEIGHT_SQ_DENOM) (Nat.mul_le_mul_right E18 m3)
  have b6 := le_trans m4 f4
  have m5 := div_mono_num (c := E18) (Nat.mul_le_mul_right INCENTIVE_WEIGHT_LIN_COEFF hdd)
  have b7 := le_trans m5 f5
  have m6 := div_mono_num (c := INCENTIVE_WEIGHT_LIN_DENOM) (Nat.mul_le_mul_right E18 m5)
  have b8 := le_trans m6 f6
  have hK : wMul d ≤ 17 * E18 := le_trans (wMul_mono hmax) f8
  have b10 : wMul d ≤ U256MAX := le_trans hK (by decide)
  have b9 : (d * E18 * (d * E18) / E18 * E18 / E18) * INCENTIVE_WEIGHT_SQ_COEFF / E18 * E18 / INCENTIVE_WEIGHT_SQ_DENOM
      + (d * E18) * INCENTIVE_WEIGHT_LIN_COEFF / E18 * E18 / INCENTIVE_WEIGHT_LIN_DENOM ≤ U256MAX :=
    le_trans (Nat.le_add_right _ (INCENTIVE_WEIGHT_CONST_NUM * E18 / INCENTIVE_WEIGHT_CONST_DEN)) b10
  have b11 : amt * E18 * wMul d / E18 ≤ U256MAX := by
    refine le_trans ?_ f10
    exact div_mono_num (Nat.mul_le_mul (Nat.mul_le_mul_right _ ha) hK)
  have hg : guardErr (decide (INCENTIVE_WEIGHT_MIN_DURATION ≤ d) && decide (d ≤ INCENTIVE_WEIGHT_MAX_DURATION)) = .ok () := by
    simp [guardErr, hmin, hmax]
  unfold calcWeight
  rw [hg]; rw [Res.bind_ok]
  rw [pmul_ok b1]; rw [Res.bind_ok]
  rw [pmul_ok b2]; rw [Res.bind_ok]
  rw [dmulC_ok b3]; rw [Res.bind_ok]
  rw [dmulP_ok b4]; rw [Res.bind_ok]
  rw [dmulC_ok b5]; rw [Res.bind_ok]
  rw [ddivC_ok n1 b6]; rw [Res.bind_ok]
  rw [dmulC_ok b7]; rw [Res.bind_ok]
  rw [ddivC_ok n2 b8]; rw [Res.bind_ok]
  rw [dec256FromRatio_ok n3 f7]; rw [Res.bind_ok]
  rw [cadd_ok b9]; rw [Res.bind_ok]
  have b10' : (d * E18 * (d * E18) / E18 * E18 / E18) * INCENTIVE_WEIGHT_SQ_COEFF / E18 * E18 / INCENTIVE_WEIGHT_SQ_DENOM
      + (d * E18) * INCENTIVE_WEIGHT_LIN_COEFF / E18 * E18 / INCENTIVE_WEIGHT_LIN_DENOM
      + INCENTIVE_WEIGHT_CONST_NUM * E18 / INCENTIVE_WEIGHT_CONST_DEN ≤ U256MAX := b10
  rw [cadd_ok b10']; rw [Res.bind_ok]
  have b11' : amt * E18 * ((d * E18 * (d * E18) / E18 * E18 / E18) * INCENTIVE_WEIGHT_SQ_COEFF / E18 * E18 / INCENTIVE_WEIGHT_SQ_DENOM
      + (d * E18) * INCENTIVE_WEIGHT_LIN_COEFF / E18 * E18 / INCENTIVE_WEIGHT_LIN_DENOM
      + INCENTIVE_WEIGHT_CONST_NUM * E18 / INCENTIVE_WEIGHT_CONST_DEN) / E18 ≤ U256MAX := b11
  rw [dmulC_ok b11']; rw [Res.bind_ok]
  rw [cdiv_ok (Nat.pos_iff_ne_zero.mp E18_pos)]; rw [Res.bind_ok]
  show (to128 (wRaw d amt) >>= fun w128 => pure (max w128 amt)) = _
  by_cases h : wRaw d amt ≤ U128MAX
  · rw [to128_ok h]; rw [Res.bind_ok]; rw [if_pos h]; rfl
  · rw [to128_err h]; rw [Res.bind_err]; rw [if_neg h]

theorem calcWeight_ok_eq {d amt w : Nat} (hd : DurOk d) (ha : amt ≤ U128MAX)
    (h : calcWeight d amt = .ok w) : w = max (wRaw d amt) amt ∧ wRaw d amt ≤ U128MAX := by
  rw [calcWeight_closed hd ha] at h
  split at h
  · injection h with h; exact ⟨h.symm, by assumption⟩
  · cases h

/-- outside the accepted range the function returns an error (never a panic) -/
theorem calcWeight_out_of_range {d amt : Nat} (hd : ¬ DurOk d) : calcWeight d amt = .err := by
  unfold calcWeight
  have hg : guardErr (decide (INCENTIVE_WEIGHT_MIN_DURATION ≤ d) && decide (d ≤ INCENTIVE_WEIGHT_MAX_DURATION)) = .err := by
    unfold DurOk at hd
    by_cases h1 : INCENTIVE_WEIGHT_MIN_DURATION ≤ d
    · have h2 : ¬ d ≤ INCENTIVE_WEIGHT_MAX_DURATION := fun h => hd ⟨h1, h⟩
      simp [guardErr, h1, h2]
    · simp [guardErr, h1]
  rw [hg]; rfl

end WW
