/- Helper lemmas for the incentive model: association lists, `Res` binds, the weight invariant
   (global = Σ address weights, address weight = Σ weights of its open positions), handler frames. -/
import WW.Model.Incentive
import WW.Proofs.Weight
namespace WW.Inc
open WW WW.Gen

/-! ### `Res` -/

theorem bind_eq_ok {α β : Type} {x : Res α} {f : α → Res β} {b : β} (h : (x >>= f) = .ok b) :
    ∃ a, x = .ok a ∧ f a = .ok b := by
  cases x with
  | ok a => exact ⟨a, rfl, h⟩
  | err => cases h
  | panic => cases h

theorem guardErr_eq_ok {c : Bool} {u : Unit} (h : guardErr c = .ok u) : c = true := by
  cases c with
  | true => rfl
  | false => cases h

theorem cadd_eq_ok {m a b r : Nat} (h : cadd m a b = .ok r) : r = a + b ∧ a + b ≤ m := by
  unfold cadd at h
  split at h
  · injection h with h; exact ⟨h.symm, by assumption⟩
  · cases h

theorem padd_eq_ok {m a b r : Nat} (h : padd m a b = .ok r) : r = a + b ∧ a + b ≤ m := by
  unfold padd at h
  split at h
  · injection h with h; exact ⟨h.symm, by assumption⟩
  · cases h

theorem csub_eq_ok {a b r : Nat} (h : csub a b = .ok r) : r = a - b ∧ b ≤ a := by
  unfold csub at h
  split at h
  · injection h with h; exact ⟨h.symm, by assumption⟩
  · cases h

/-! ### association lists -/
section AList
variable {κ : Type} [DecidableEq κ] {α : Type}

theorem alook_aset_same (l : List (κ × α)) (k : κ) (v : α) : alook (aset l k v) k = some v := by
  induction l with
  | nil => simp [aset, alook]
  | cons p t ih =>
    obtain ⟨k', v'⟩ := p
    by_cases h : k' = k
    · simp [aset, alook, h]
    · simp [aset, alook, h, ih]

theorem alook_aset_other (l : List (κ × α)) {k k' : κ} (v : α) (h : k' ≠ k) :
    alook (aset l k v) k' = alook l k' := by
  induction l with
  | nil => simp [aset, alook, Ne.symm h]
  | cons p t ih =>
    obtain ⟨k2, v2⟩ := p
    by_cases h2 : k2 = k
    · subst h2
      simp [aset, alook, Ne.symm h]
    · by_cases h3 : k2 = k'
      · subst h3
        simp [aset, alook, h2]
      · simp [aset, alook, h2, h3, ih]
end AList

theorem aget_aset_same {κ : Type} [DecidableEq κ] (l : List (κ × Nat)) (k : κ) (v : Nat) :
    aget (aset l k v) k = v := by
  simp [aget, alook_aset_same]

theorem aget_aset_other {κ : Type} [DecidableEq κ] (l : List (κ × Nat)) {k k' : κ} (v : Nat) (h : k' ≠ k) :
    aget (aset l k v) k' = aget l k' := by
  simp [aget, alook_aset_other l v h]

/-- sum of the values of an association list -/
def sumVals {κ : Type} : List (κ × Nat) → Nat
  | [] => 0
  | p :: t => p.2 + sumVals t

theorem sumVals_aset {κ : Type} [DecidableEq κ] (l : List (κ × Nat)) (k : κ) (v : Nat) :
    sumVals (aset l k v) + aget l k = sumVals l + v := by
  induction l with
  | nil => simp [aset, sumVals, aget, alook]
  | cons p t ih =>
    obtain ⟨k', v'⟩ := p
    by_cases h : k' = k
    · simp [aset, sumVals, aget, alook, h]; omega
    · have : aget ((k', v') :: t) k = aget t k := by simp [aget, alook, h]
      rw [this]
      simp only [aset, h, if_false, sumVals]
      omega

theorem aget_le_sumVals {κ : Type} [DecidableEq κ] (l : List (κ × Nat)) (k : κ) : aget l k ≤ sumVals l := by
  induction l with
  | nil => simp [aget, alook]
  | cons p t ih =>
    obtain ⟨k', v'⟩ := p
    by_cases h : k' = k
    · simp [aget, alook, h, sumVals]
    · have : aget ((k', v') :: t) k = aget t k := by simp [aget, alook, h]
      rw [this]; simp only [sumVals]; omega

/-! ### open positions and their weights -/

/-- weight of a stored open position (`0` if `calculate_weight` would fail on it) -/
def posW (p : OpenPos) : Nat :=
  match calcWeight p.dur p.amt with
  | .ok w => w
  | _ => 0

def posSum : List OpenPos → Nat
  | [] => 0
  | p :: t => posW p + posSum t

theorem posSum_append (a b : List OpenPos) : posSum (a ++ b) = posSum a + posSum b := by
  induction a with
  | nil => simp [posSum]
  | cons p t ih => simp [posSum, ih]; omega

def durs (ps : List OpenPos) : List Nat := ps.map (·.dur)

theorem posW_le_posSum {ps : List OpenPos} {p : OpenPos} (h : p ∈ ps) : posW p ≤ posSum ps := by
  induction ps with
  | nil => cases h
  | cons q t ih =>
    simp only [posSum]
    rcases List.mem_cons.mp h with h | h
    · subst h; omega
    · have := ih h; omega

/-- removing the (unique) position with duration `d` lowers the sum by its weight -/
theorem posSum_filter {ps : List OpenPos} {p : OpenPos} (hn : (durs ps).Nodup) (hp : p ∈ ps) :
    posSum (ps.filter (fun q => decide (q.dur ≠ p.dur))) + posW p = posSum ps := by
  induction ps with
  | nil => cases hp
  | cons q t ih =>
    simp only [durs, List.map_cons, List.nodup_cons] at hn
    obtain ⟨hq, hn'⟩ := hn
    rcases List.mem_cons.mp hp with h | h
    · subst h
      have hall : t.filter (fun q => decide (q.dur ≠ p.dur)) = t := by
        apply List.filter_eq_self.mpr
        intro x hx
        have : x.dur ≠ p.dur := fun he => hq (by rw [← he]; exact List.mem_map_of_mem (f := (·.dur)) hx)
        exact decide_eq_true this
      rw [List.filter_cons_of_neg (by simp), hall]
      simp only [posSum]; omega
    · have hne : q.dur ≠ p.dur := fun he => hq (by rw [he]; exact List.mem_map_of_mem (f := (·.dur)) h)
      rw [List.filter_cons_of_pos (by simpa using hne)]
      have := ih hn' h
      simp only [posSum]; omega

/-- replacing the amount of the (unique) position with duration `p.dur` -/
theorem posSum_map {ps : List OpenPos} {p : OpenPos} (hn : (durs ps).Nodup) (hp : p ∈ ps) (newAmt : Nat) :
    posSum (ps.map (fun q => if q.dur = p.dur then { q with amt := newAmt } else q)) + posW p
      = posSum ps + posW { dur := p.dur, amt := newAmt } := by
  induction ps with
  | nil => cases hp
  | cons q t ih =>
    simp only [durs, List.map_cons, List.nodup_cons] at hn
    obtain ⟨hq, hn'⟩ := hn
    rcases List.mem_cons.mp hp with h | h
    · subst h
      have hall : t.map (fun q => if q.dur = p.dur then { q with amt := newAmt } else q) = t := by
        conv_rhs => rw [← List.map_id t]
        apply List.map_congr_left
        intro x hx
        have : x.dur ≠ p.dur := fun he => hq (by rw [← he]; exact List.mem_map_of_mem (f := (·.dur)) hx)
        simp [this]
      simp only [List.map_cons, if_true, posSum, hall]
      omega
    · have hne : q.dur ≠ p.dur := fun he => hq (by rw [he]; exact List.mem_map_of_mem (f := (·.dur)) h)
      have := ih hn' h
      simp only [List.map_cons, hne, if_false, posSum]
      omega

theorem durs_map_amt (ps : List OpenPos) (d newAmt : Nat) :
    durs (ps.map (fun q => if q.dur = d then { q with amt := newAmt } else q)) = durs ps := by
  induction ps with
  | nil => rfl
  | cons q t ih =>
    simp only [durs, List.map_cons] at *
    rw [ih]
    by_cases h : q.dur = d <;> simp [h]

theorem nodup_filter_durs {ps : List OpenPos} (d : Nat) (hn : (durs ps).Nodup) :
    (durs (ps.filter (fun q => decide (q.dur ≠ d)))).Nodup := by
  induction ps with
  | nil => simp [durs]
  | cons q t ih =>
    simp only [durs, List.map_cons, List.nodup_cons] at hn
    obtain ⟨hq, hn'⟩ := hn
    by_cases h : q.dur ≠ d
    · rw [List.filter_cons_of_pos (by simpa using h)]
      simp only [durs, List.map_cons, List.nodup_cons]
      refine ⟨?_, ih hn'⟩
      intro hm
      apply hq
      obtain ⟨x, hx, hxe⟩ := List.mem_map.mp hm
      exact List.mem_map.mpr ⟨x, (List.mem_filter.mp hx).1, hxe⟩
    · rw [List.filter_cons_of_neg (by simpa using h)]
      exact ih hn'

theorem find_some_mem {ps : List OpenPos} {d : Nat} {p : OpenPos}
    (h : ps.find? (fun p => decide (p.dur = d)) = some p) : p ∈ ps ∧ p.dur = d := by
  have h1 := List.find?_some h
  have h2 := List.mem_of_find?_eq_some h
  exact ⟨h2, by simpa using h1⟩

/-! ### the weight invariant -/

structure WInv (s : St) : Prop where
  global_sum : s.global = sumVals s.addrW
  addr : ∀ u, aget s.addrW u = posSum (openOf s u)
  nodup : ∀ u, (durs (openOf s u)).Nodup

theorem WInv.frame {s s' : St} (h : WInv s) (h1 : s'.openPos = s.openPos) (h2 : s'.global = s.global)
    (h3 : s'.addrW = s.addrW) : WInv s' := by
  constructor
  · rw [h2, h3]; exact h.global_sum
  · intro u; unfold openOf; rw [h1, h3]; exact h.addr u
  · intro u; unfold openOf; rw [h1]; exact h.nodup u

theorem openOf_aset_same (s : St) (r : Addr) (ps : List OpenPos) :
    openOf { s with openPos := aset s.openPos r ps } r = ps := by
  simp [openOf, alook_aset_same]

theorem openOf_aset_other (s : St) {r u : Addr} (ps : List OpenPos) (h : u ≠ r) :
    openOf { s with openPos := aset s.openPos r ps } u = openOf s u := by
  simp [openOf, alook_aset_other _ _ h]

theorem snapIfMissing_frame (s : St) (e : Nat) :
    (snapIfMissing s e).openPos = s.openPos ∧ (snapIfMissing s e).global = s.global
    ∧ (snapIfMissing s e).addrW = s.addrW ∧ (snapIfMissing s e).whist = s.whist
    ∧ (snapIfMissing s e).closedPos = s.closedPos ∧ (snapIfMissing s e).flows = s.flows
    ∧ (snapIfMissing s e).bal = s.bal ∧ (snapIfMissing s e).lastClaimed = s.lastClaimed := by
  unfold snapIfMissing
  split <;> simp

/-- `addWeight` adds `w` to the global weight and to `r`'s weight, leaves positions alone -/
theorem addWeight_spec {s s' : St} {ep : Nat} {r : Addr} {w : Nat} (h : addWeight s ep r w = .ok s') :
    s'.openPos = s.openPos ∧ s'.global = s.global + w ∧ s'.addrW = aset s.addrW r (aget s.addrW r + w)
    ∧ s'.closedPos = s.closedPos ∧ s'.flows = s.flows ∧ s'.bal = s.bal := by
  unfold addWeight at h
  obtain ⟨f1, f2, f3, _, f5, f6, f7, _⟩ := snapIfMissing_frame s ep
  obtain ⟨g, hg, h⟩ := bind_eq_ok h
  obtain ⟨uw, huw, h⟩ := bind_eq_ok h
  obtain ⟨hg1, _⟩ := cadd_eq_ok hg
  obtain ⟨hu1, _⟩ := cadd_eq_ok huw
  injection h with h
  subst h
  simp only
  rw [f1, f2, f3, f5, f6, f7] at *
  exact ⟨rfl, hg1, by rw [hu1], rfl, rfl, rfl⟩

end WW.Inc

namespace WW.Inc
open WW WW.Gen

theorem posW_of_ok {d a w : Nat} (h : calcWeight d a = .ok w) : posW { dur := d, amt := a } = w := by
  simp [posW, h]

theorem any_false_not_mem {ps : List OpenPos} {d : Nat}
    (h : (!ps.any (fun p => decide (p.dur = d))) = true) : d ∉ durs ps := by
  intro hm
  obtain ⟨x, hx, hxe⟩ := List.mem_map.mp hm
  have : ps.any (fun p => decide (p.dur = d)) = true := List.any_eq_true.mpr ⟨x, hx, by simpa using hxe⟩
  simp [this] at h

theorem openPosition_WInv {c : Cfg} {s s' : St} {e : Env} {amount dur : Nat} {recv : Option Addr}
    {msgs : List Msg} (hI : WInv s) (h : openPosition c s e amount dur recv = .ok (s', msgs)) : WInv s' := by
  unfold openPosition at h
  obtain ⟨_, _, h⟩ := bind_eq_ok h
  obtain ⟨m, _, h⟩ := bind_eq_ok h
  dsimp only at h
  obtain ⟨_, hg, h⟩ := bind_eq_ok h
  have hnot := any_false_not_mem (guardErr_eq_ok hg)
  obtain ⟨w, hw, h⟩ := bind_eq_ok h
  obtain ⟨s2, hs2, h⟩ := bind_eq_ok h
  injection h with h
  injection h with h1 h2
  subst h1
  generalize hr : recv.getD e.sender = r at *
  obtain ⟨a1, a2, a3, _, _, _⟩ := addWeight_spec hs2
  simp only at a1 a2 a3
  constructor
  · rw [a2, a3]
    have := sumVals_aset s.addrW r (aget s.addrW r + w)
    have hle := aget_le_sumVals s.addrW r
    rw [hI.global_sum]; omega
  · intro u
    by_cases hu : u = r
    · subst hu
      rw [a3, aget_aset_same]
      have : openOf s2 u = openOf s u ++ [{ dur := dur, amt := amount }] := by
        show (alook s2.openPos u).getD [] = _
        rw [a1, alook_aset_same]; rfl
      rw [this, posSum_append, hI.addr u]
      simp [posSum, posW_of_ok hw]
    · rw [a3, aget_aset_other _ _ hu]
      have : openOf s2 u = openOf s u := by
        show (alook s2.openPos u).getD [] = _
        rw [a1, alook_aset_other _ _ hu]; rfl
      rw [this]; exact hI.addr u
  · intro u
    by_cases hu : u = r
    · subst hu
      have : openOf s2 u = openOf s u ++ [{ dur := dur, amt := amount }] := by
        show (alook s2.openPos u).getD [] = _
        rw [a1, alook_aset_same]; rfl
      rw [this]
      simp only [durs, List.map_append, List.map_cons, List.map_nil]
      apply List.Nodup.append (hI.nodup u) (by simp)
      intro x hx hx2
      simp at hx2
      subst hx2
      exact hnot hx
    · have : openOf s2 u = openOf s u := by
        unfold openOf; rw [a1]; simp [alook_aset_other _ _ hu]
      rw [this]; exact hI.nodup u

end WW.Inc

namespace WW.Inc
open WW WW.Gen

theorem openOf_of_alook {s : St} {r : Addr} {ps : List OpenPos} (h : alook s.openPos r = some ps) :
    openOf s r = ps := by simp [openOf, h]

theorem expandPosition_WInv {c : Cfg} {s s' : St} {e : Env} {amount dur : Nat} {recv : Option Addr}
    {msgs : List Msg} (hI : WInv s) (h : expandPosition c s e amount dur recv = .ok (s', msgs)) : WInv s' := by
  unfold expandPosition at h
  obtain ⟨m, _, h⟩ := bind_eq_ok h
  generalize hr : recv.getD e.sender = r at *
  dsimp only at h
  split at h
  · cases h
  · rename_i ps hps
    split at h
    · cases h
    · rename_i p hp
      obtain ⟨hpm, hpd⟩ := find_some_mem hp
      obtain ⟨newAmt, hna, h⟩ := bind_eq_ok h
      obtain ⟨t, ht, h⟩ := bind_eq_ok h
      obtain ⟨w1, hw1, h⟩ := bind_eq_ok h
      obtain ⟨w0, hw0, h⟩ := bind_eq_ok h
      obtain ⟨w, hw, h⟩ := bind_eq_ok h
      obtain ⟨s2, hs2, h⟩ := bind_eq_ok h
      injection h with h
      injection h with h1 h2
      subst h1
      obtain ⟨a1, a2, a3, _, _, _⟩ := addWeight_spec hs2
      simp only at a1 a2 a3
      have hops := openOf_of_alook hps
      obtain ⟨hna1, _⟩ := padd_eq_ok hna
      obtain ⟨ht1, _⟩ := cadd_eq_ok ht
      obtain ⟨hw', hle⟩ := csub_eq_ok hw
      have hnd : (durs ps).Nodup := hops ▸ hI.nodup r
      -- weights of the old and the new position
      have hpw0 : posW p = w0 := by
        have : p = { dur := dur, amt := p.amt } := by cases p; simp at hpd; simp [hpd]
        rw [this]; exact posW_of_ok hw0
      have hpw1 : posW { dur := p.dur, amt := newAmt } = w1 := by
        rw [hpd, hna1, ← ht1]; exact posW_of_ok hw1
      have hsum := posSum_map hnd hpm newAmt
      rw [hpw0, hpw1, hpd] at hsum
      have hw0le : w0 ≤ posSum ps := hpw0 ▸ posW_le_posSum hpm
      have haddr : aget s.addrW r = posSum ps := hops ▸ hI.addr r
      constructor
      · rw [a2, a3]
        have := sumVals_aset s.addrW r (aget s.addrW r + w)
        rw [hI.global_sum]; omega
      · intro u
        by_cases hu : u = r
        · subst hu
          rw [a3, aget_aset_same]
          have : openOf s2 u = ps.map (fun q => if q.dur = dur then { q with amt := newAmt } else q) := by
            show (alook s2.openPos u).getD [] = _
            rw [a1, alook_aset_same]; rfl
          rw [this, haddr]; omega
        · rw [a3, aget_aset_other _ _ hu]
          have : openOf s2 u = openOf s u := by
            show (alook s2.openPos u).getD [] = _
            rw [a1, alook_aset_other _ _ hu]; rfl
          rw [this]; exact hI.addr u
      · intro u
        by_cases hu : u = r
        · subst hu
          have : openOf s2 u = ps.map (fun q => if q.dur = dur then { q with amt := newAmt } else q) := by
            show (alook s2.openPos u).getD [] = _
            rw [a1, alook_aset_same]; rfl
          rw [this, durs_map_amt]; exact hnd
        · have : openOf s2 u = openOf s u := by
            show (alook s2.openPos u).getD [] = _
            rw [a1, alook_aset_other _ _ hu]; rfl
          rw [this]; exact hI.nodup u

theorem closePosition_WInv {s s' : St} {e : Env} {dur : Nat} {msgs : List Msg} (hI : WInv s)
    (h : closePosition s e dur = .ok (s', msgs)) : WInv s' := by
  unfold closePosition at h
  obtain ⟨_, _, h⟩ := bind_eq_ok h
  split at h
  · cases h
  · rename_i ps hps
    split at h
    · cases h
    · rename_i p hp
      obtain ⟨hpm, hpd⟩ := find_some_mem hp
      obtain ⟨_, _, h⟩ := bind_eq_ok h
      dsimp only at h
      obtain ⟨w, hw, h⟩ := bind_eq_ok h
      injection h with h
      injection h with h1 h2
      subst h1
      have hops := openOf_of_alook hps
      have hnd : (durs ps).Nodup := hops ▸ hI.nodup e.sender
      have hpw : posW p = w := by
        have : p = { dur := dur, amt := p.amt } := by cases p; simp at hpd; simp [hpd]
        rw [this]; exact posW_of_ok hw
      have hsum := posSum_filter hnd hpm
      rw [hpw, hpd] at hsum
      have haddr : aget s.addrW e.sender = posSum ps := hops ▸ hI.addr e.sender
      obtain ⟨f1, f2, f3, _, _, _, _, _⟩ := snapIfMissing_frame ({ s with closedPos := aset s.closedPos e.sender (closedOf s e.sender ++ [{ amt := p.amt, ts := e.time + p.dur }]) }) e.epoch
      simp only at f1 f2 f3
      constructor
      · simp only [f2, f3]
        have := sumVals_aset s.addrW e.sender (aget s.addrW e.sender - w)
        have hle := aget_le_sumVals s.addrW e.sender
        rw [hI.global_sum]; omega
      · intro u
        simp only [f3, f1]
        by_cases hu : u = e.sender
        · subst hu
          rw [aget_aset_same]
          show _ = posSum ((alook (aset s.openPos e.sender _) e.sender).getD [])
          rw [alook_aset_same]
          simp only [Option.getD_some]
          rw [haddr]; omega
        · rw [aget_aset_other _ _ hu]
          show _ = posSum ((alook (aset s.openPos e.sender _) u).getD [])
          rw [alook_aset_other _ _ hu]
          exact hI.addr u
      · intro u
        simp only [f1]
        by_cases hu : u = e.sender
        · subst hu
          show (durs ((alook (aset s.openPos e.sender _) e.sender).getD [])).Nodup
          rw [alook_aset_same]
          simp only [Option.getD_some]
          exact nodup_filter_durs dur hnd
        · show (durs ((alook (aset s.openPos e.sender _) u).getD [])).Nodup
          rw [alook_aset_other _ _ hu]
          exact hI.nodup u

end WW.Inc

namespace WW.Inc
open WW WW.Gen

/-- the part of the state the weight invariant talks about -/
def wcore (s : St) : List (Addr × List OpenPos) × Nat × List (Addr × Nat) := (s.openPos, s.global, s.addrW)

theorem WInv.of_wcore {s s' : St} (h : WInv s) (hc : wcore s' = wcore s) : WInv s' := by
  simp only [wcore, Prod.mk.injEq] at hc
  exact h.frame hc.1 hc.2.1 hc.2.2

theorem withdrawOp_wcore {s s' : St} {e : Env} {m : List Msg} (h : withdrawOp s e = .ok (s', m)) :
    wcore s' = wcore s := by
  unfold withdrawOp at h
  obtain ⟨tot, _, h⟩ := bind_eq_ok h
  dsimp only at h
  split at h <;> (injection h with h; injection h with h1 h2; subst h1; rfl)

theorem takeSnapshot_wcore {s s' : St} {e : Env} {m : List Msg} (h : takeSnapshot s e = .ok (s', m)) :
    wcore s' = wcore s := by
  unfold takeSnapshot at h
  split at h
  · cases h
  · injection h with h; injection h with h1 h2; subst h1; rfl

theorem claimCore_wcore {s s' : St} {u ep : Nat} {m : List Msg} (h : claimCore s u ep = .ok (s', m)) :
    wcore s' = wcore s := by
  unfold claimCore at h
  split at h
  · cases h
  · split at h
    · injection h with h; injection h with h1 h2; subst h1; rfl
    · cases h
    · cases h

theorem claimExec_wcore {s s' : St} {e : Env} {m : List Msg} (h : claimExec s e = .ok (s', m)) :
    wcore s' = wcore s := by
  unfold claimExec at h
  split at h
  · cases h
  · exact claimCore_wcore h

theorem closeFlow_wcore {s s' : St} {e : Env} {id : Nat} {m : List Msg} (h : closeFlow s e id = .ok (s', m)) :
    wcore s' = wcore s := by
  unfold closeFlow at h
  split at h
  · cases h
  · split at h
    · cases h
    · injection h with h; injection h with h1 h2; subst h1; rfl

theorem openFlow_wcore {c : Cfg} {s s' : St} {e : Env} {a amt : Nat} {st en : Option Nat} {m : List Msg}
    (h : openFlow c s e a amt st en = .ok (s', m)) : wcore s' = wcore s := by
  unfold openFlow at h
  obtain ⟨_, _, h⟩ := bind_eq_ok h
  obtain ⟨x, _, h⟩ := bind_eq_ok h
  obtain ⟨_, _, h⟩ := bind_eq_ok h
  obtain ⟨y, _, h⟩ := bind_eq_ok h
  dsimp only at h
  obtain ⟨_, _, h⟩ := bind_eq_ok h
  obtain ⟨_, _, h⟩ := bind_eq_ok h
  obtain ⟨_, _, h⟩ := bind_eq_ok h
  injection h with h; injection h with h1 h2; subst h1; rfl

end WW.Inc

namespace WW.Inc
open WW WW.Gen

theorem expandFlow_wcore {c : Cfg} {s s' : St} {e : Env} {id a amt : Nat} {en : Option Nat} {m : List Msg}
    (h : expandFlow c s e id a amt en = .ok (s', m)) : wcore s' = wcore s := by
  unfold expandFlow at h
  split at h
  · cases h
  · dsimp only at h
    obtain ⟨_, _, h⟩ := bind_eq_ok h
    obtain ⟨_, _, h⟩ := bind_eq_ok h
    obtain ⟨_, _, h⟩ := bind_eq_ok h
    obtain ⟨_, _, h⟩ := bind_eq_ok h
    obtain ⟨f2, _, h⟩ := bind_eq_ok h
    obtain ⟨_, _, h⟩ := bind_eq_ok h
    obtain ⟨_, _, h⟩ := bind_eq_ok h
    injection h with h; injection h with h1 h2; subst h1; rfl

theorem handler_WInv {c : Cfg} {s s' : St} {e : Env} {op : Op} {m : List Msg} (hI : WInv s)
    (h : handler c s e op = .ok (s', m)) : WInv s' := by
  cases op with
  | openPos amt dur recv => exact openPosition_WInv hI h
  | expandPos amt dur recv => exact expandPosition_WInv hI h
  | closePos dur => exact closePosition_WInv hI h
  | withdraw => exact hI.of_wcore (withdrawOp_wcore h)
  | claim => exact hI.of_wcore (claimExec_wcore h)
  | snapshot => exact hI.of_wcore (takeSnapshot_wcore h)
  | openFlow a amt st en => exact hI.of_wcore (openFlow_wcore h)
  | expandFlow id a amt en => exact hI.of_wcore (expandFlow_wcore h)
  | closeFlow id => exact hI.of_wcore (closeFlow_wcore h)
  | helperDeposit a0 a1 dur => cases h
  | helperDepositAs x0 x1 a0 a1 dur => cases h

theorem WInv.with_bal {s : St} (h : WInv s) (b : Bal) : WInv { s with bal := b } :=
  h.frame rfl rfl rfl

theorem helperDeposit_WInv {c : Cfg} {s s' : St} {e : Env} {a0 a1 dur : Nat} (hI : WInv s)
    (h : helperDeposit c s e a0 a1 dur = .ok s') : WInv s' := by
  unfold helperDeposit at h
  dsimp only at h
  obtain ⟨_, _, h⟩ := bind_eq_ok h
  obtain ⟨b1, _, h⟩ := bind_eq_ok h
  obtain ⟨b2, _, h⟩ := bind_eq_ok h
  obtain ⟨_, _, h⟩ := bind_eq_ok h
  obtain ⟨lp, _, h⟩ := bind_eq_ok h
  obtain ⟨_, _, h⟩ := bind_eq_ok h
  obtain ⟨b3, _, h⟩ := bind_eq_ok h
  obtain ⟨b4, _, h⟩ := bind_eq_ok h
  obtain ⟨_, _, h⟩ := bind_eq_ok h
  obtain ⟨b5, _, h⟩ := bind_eq_ok h
  obtain ⟨⟨s3, msgs⟩, h3, h⟩ := bind_eq_ok h
  obtain ⟨b6, _, h⟩ := bind_eq_ok h
  injection h with h
  subst h
  have hI2 : WInv { s with bal := b5 } := hI.with_bal b5
  have hI3 : WInv s3 := by
    split at h3
    · exact expandPosition_WInv hI2 h3
    · exact openPosition_WInv hI2 h3
  exact hI3.with_bal b6

theorem step_WInv {c : Cfg} {s s' : St} {e : Env} {op : Op} (hI : WInv s)
    (h : step c s e op = .ok s') : WInv s' := by
  unfold step at h
  split at h
  · obtain ⟨b, _, h⟩ := bind_eq_ok h
    exact helperDeposit_WInv (hI.with_bal b) h
  · obtain ⟨b, _, h⟩ := bind_eq_ok h
    obtain ⟨⟨s1, msgs⟩, h1, h⟩ := bind_eq_ok h
    obtain ⟨b1, _, h⟩ := bind_eq_ok h
    injection h with h
    subst h
    exact (handler_WInv (hI.with_bal b) h1).with_bal b1

theorem stepOrStay_WInv {c : Cfg} {s : St} {e : Env} {op : Op} (hI : WInv s) : WInv (stepOrStay c s e op) := by
  unfold stepOrStay
  split
  · rename_i s' h; exact step_WInv hI h
  · exact hI

theorem reach_WInv {c : Cfg} {s : St} (hI : WInv s) (ops : List (Env × Op)) : WInv (reach c s ops) := by
  induction ops generalizing s with
  | nil => exact hI
  | cons p t ih =>
    obtain ⟨e, op⟩ := p
    exact ih (stepOrStay_WInv hI)

theorem init_WInv (e0 : Nat) (bal : Bal) : WInv (init e0 bal) := by
  constructor
  · rfl
  · intro u; rfl
  · intro u; simp [init, openOf, alook, durs]

end WW.Inc
