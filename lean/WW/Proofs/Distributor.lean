/- Helper lemmas about `WW.Model.Distributor` (invariants of the epoch ledger). Core Lean only. -/
import WW.Model.Distributor
namespace WW.Distributor

/-! ### predicates -/

/-- the ledger equation of one epoch, required as long as its `available` vector is non-empty -/
def LedgerOk (e : Epoch) : Prop := e.avail.isSome = true → amt e.claimed + amt e.avail = amt e.total

def AllLedger (es : List Epoch) : Prop := ∀ e ∈ es, LedgerOk e

/-- everything outside the grace window (positions ≥ n of the descending list) has been emptied -/
def OutsideEmpty (n : Nat) (es : List Epoch) : Prop := ∀ e ∈ es.drop n, e.avail = none

/-- ids strictly descending (newest first) -/
def IdsDesc (es : List Epoch) : Prop := es.Pairwise fun a b => b.id < a.id

/-- epoch `id` starts at `genesis + (id-1)·duration` -/
def Nominal (cfg : Cfg) (es : List Epoch) : Prop :=
  ∀ e ∈ es, 1 ≤ e.id ∧ e.start = cfg.genesis + (e.id - 1) * cfg.duration

structure Inv (s : St) : Prop where
  ledger : AllLedger s.epochs
  holds : sumAvail s.epochs ≤ s.bal
  grace : 1 ≤ s.grace
  outside : OutsideEmpty s.grace s.epochs
  desc : IdsDesc s.epochs

theorem inv_init (g : Nat) (hg : 1 ≤ g) : Inv (St.init g) :=
  { ledger := by intro e he; cases he
    holds := by simp [St.init, sumAvail]
    grace := hg
    outside := by intro e he; simp [St.init] at he
    desc := List.Pairwise.nil }

/-! ### `claimEpoch` -/

theorem claimEpoch_spec {e e' : Epoch} {a : LairAns} {r : Nat} (h : claimEpoch e a = .ok (e', r)) :
    e'.id = e.id ∧ e'.start = e.start ∧ e'.total = e.total ∧ amt e'.avail + r = amt e.avail ∧
    amt e'.claimed = amt e.claimed + r ∧ (e'.avail = none ↔ e.avail = none) ∧ (r = 0 → e' = e) := by
  unfold claimEpoch at h
  cases a with
  | err => simp at h
  | panic => simp at h
  | share sh =>
    simp only at h
    cases ht : e.total with
    | none =>
      rw [ht] at h; simp only at h
      injection h with h; injection h with h1 h2
      subst h1; subst h2; simp [ht]
    | some t =>
      rw [ht] at h; simp only at h
      split at h
      · cases h
      · split at h
        · injection h with h; injection h with h1 h2
          subst h1; subst h2; simp [ht]
        · cases hav : e.avail with
          | none => rw [hav] at h; simp at h
          | some av =>
            rw [hav] at h; simp only at h
            split at h
            · cases h
            · cases hc : e.claimed with
              | none =>
                rw [hc] at h; simp only at h
                injection h with h; injection h with h1 h2
                subst h1; subst h2
                refine ⟨rfl, rfl, ?_, ?_, ?_, ?_, ?_⟩
                · simp
                · simp only [amt]; omega
                · simp [amt]
                · simp
                · intro h0; omega
              | some c =>
                rw [hc] at h; simp only at h
                split at h
                · injection h with h; injection h with h1 h2
                  subst h1; subst h2
                  refine ⟨rfl, rfl, ?_, ?_, ?_, ?_, ?_⟩
                  · simp
                  · simp only [amt]; omega
                  · simp [amt]
                  · simp
                  · intro h0; omega
                · cases h

theorem claimEpoch_ledger {e e' : Epoch} {a : LairAns} {r : Nat} (h : claimEpoch e a = .ok (e', r))
    (hl : LedgerOk e) : LedgerOk e' := by
  obtain ⟨_, _, ht, hav, hc, hiff, _⟩ := claimEpoch_spec h
  intro hs
  have : e.avail.isSome = true := by
    cases hea : e.avail with
    | none => have := hiff.mpr hea; rw [this] at hs; simp at hs
    | some _ => rfl
  have := hl this
  rw [ht]; omega

/-! ### `claimWalk` -/

theorem claimWalk_spec (ans : Nat → LairAns) (b : Nat) :
    ∀ (n : Nat) (es : List Epoch) (acc : Nat) (es' : List Epoch) (t : Nat),
      claimWalk ans b n es acc = .ok (es', t) →
      acc ≤ t ∧ t + sumAvail es' = acc + sumAvail es ∧ sumClaimed es' + acc = sumClaimed es + t ∧
      es'.map (·.id) = es.map (·.id) ∧ es'.map (·.start) = es.map (·.start) ∧
      es'.drop n = es.drop n ∧
      (AllLedger es → AllLedger es') ∧
      (∀ e' ∈ es', e' ∈ es ∨ (b < e'.id ∧ e'.id ∈ claimableIds b n es)) := by
  intro n
  induction n with
  | zero =>
    intro es acc es' t h
    unfold claimWalk at h
    injection h with h; injection h with h1 h2
    subst h1; subst h2
    refine ⟨Nat.le_refl _, rfl, rfl, rfl, rfl, rfl, id, fun e' he' => Or.inl he'⟩
  | succ n ih =>
    intro es acc es' t h
    cases es with
    | nil =>
      unfold claimWalk at h
      injection h with h; injection h with h1 h2
      subst h1; subst h2
      refine ⟨Nat.le_refl _, rfl, rfl, rfl, rfl, rfl, id, fun e' he' => Or.inl he'⟩
    | cons e es =>
      unfold claimWalk at h
      by_cases hc : isClaimable b e = true
      · rw [if_pos hc] at h
        cases hce : claimEpoch e (ans e.id) with
        | err => rw [hce] at h; simp at h
        | panic => rw [hce] at h; simp at h
        | ok pr =>
          obtain ⟨e1, r⟩ := pr
          rw [hce] at h; simp only at h
          split at h
          · cases hw : claimWalk ans b n es (acc + r) with
            | err => rw [hw] at h; simp at h
            | panic => rw [hw] at h; simp at h
            | ok pr2 =>
              obtain ⟨es1, t1⟩ := pr2
              rw [hw] at h; simp only at h
              injection h with h; injection h with h1 h2
              subst h1; subst h2
              obtain ⟨i1, i2, i3, i4, i5, i6, i7, i8⟩ := ih es (acc + r) es1 t1 hw
              obtain ⟨c1, c2, _, c4, c5, _, _⟩ := claimEpoch_spec hce
              have hbid : b < e.id := by
                unfold isClaimable at hc
                simp only [Bool.and_eq_true, decide_eq_true_eq] at hc
                exact hc.1
              refine ⟨by omega, ?_, ?_, ?_, ?_, ?_, ?_, ?_⟩
              · simp only [sumAvail]; omega
              · simp only [sumClaimed]; omega
              · simp only [List.map_cons, c1, i4]
              · simp only [List.map_cons, c2, i5]
              · simp only [List.drop_succ_cons]; exact i6
              · intro hall e' he'
                cases he' with
                | head => exact claimEpoch_ledger hce (hall e (List.mem_cons_self))
                | tail _ hm => exact i7 (fun x hx => hall x (List.mem_cons_of_mem _ hx)) e' hm
              · intro e' he'
                cases he' with
                | head =>
                  right
                  refine ⟨by rw [c1]; exact hbid, ?_⟩
                  unfold claimableIds
                  rw [if_pos hc, c1]
                  exact List.mem_cons_self
                | tail _ hm =>
                  cases i8 e' hm with
                  | inl hin => exact Or.inl (List.mem_cons_of_mem _ hin)
                  | inr hr =>
                    right
                    refine ⟨hr.1, ?_⟩
                    unfold claimableIds
                    rw [if_pos hc]
                    exact List.mem_cons_of_mem _ hr.2
          · cases h
      · rw [if_neg hc] at h
        cases hw : claimWalk ans b n es acc with
        | err => rw [hw] at h; simp at h
        | panic => rw [hw] at h; simp at h
        | ok pr2 =>
          obtain ⟨es1, t1⟩ := pr2
          rw [hw] at h; simp only at h
          injection h with h; injection h with h1 h2
          subst h1; subst h2
          obtain ⟨i1, i2, i3, i4, i5, i6, i7, i8⟩ := ih es acc es1 t1 hw
          refine ⟨i1, ?_, ?_, ?_, ?_, ?_, ?_, ?_⟩
          · simp only [sumAvail]; omega
          · simp only [sumClaimed]; omega
          · simp only [List.map_cons, i4]
          · simp only [List.map_cons, i5]
          · simp only [List.drop_succ_cons]; exact i6
          · intro hall e' he'
            cases he' with
            | head => exact hall e (List.mem_cons_self)
            | tail _ hm => exact i7 (fun x hx => hall x (List.mem_cons_of_mem _ hx)) e' hm
          · intro e' he'
            cases he' with
            | head => exact Or.inl (List.mem_cons_self)
            | tail _ hm =>
              cases i8 e' hm with
              | inl hin => exact Or.inl (List.mem_cons_of_mem _ hin)
              | inr hr =>
                right
                refine ⟨hr.1, ?_⟩
                unfold claimableIds
                rw [if_neg hc]
                exact hr.2

/-- ids of a list that is `map id`-equal -/
theorem idsDesc_of_map_eq {es es' : List Epoch} (h : es'.map (·.id) = es.map (·.id)) (hd : IdsDesc es) :
    IdsDesc es' := by
  unfold IdsDesc at *
  have h1 : (es.map (·.id)).Pairwise (fun a b => b < a) := by
    rw [List.pairwise_map]; exact hd
  rw [← h, List.pairwise_map] at h1
  exact h1

/-- the claimable ids of a descending list are bounded by the first of them -/
theorem claimableIds_le_head (b : Nat) :
    ∀ (n : Nat) (es : List Epoch), IdsDesc es → ∀ top rest, claimableIds b n es = top :: rest →
      ∀ i ∈ claimableIds b n es, i ≤ top := by
  intro n
  induction n with
  | zero => intro es _ top rest h; unfold claimableIds at h; cases h
  | succ n ih =>
    intro es hd top rest h
    cases es with
    | nil => unfold claimableIds at h; cases h
    | cons e es =>
      have hd' : IdsDesc es := (List.pairwise_cons.mp hd).2
      have hall : ∀ x ∈ es, x.id < e.id := (List.pairwise_cons.mp hd).1
      -- every claimable id of the tail is an id of the tail
      have hsub : ∀ (m : Nat) (l : List Epoch), ∀ i ∈ claimableIds b m l, ∃ x ∈ l, x.id = i := by
        intro m
        induction m with
        | zero => intro l i hi; unfold claimableIds at hi; cases hi
        | succ m ihm =>
          intro l i hi
          cases l with
          | nil => unfold claimableIds at hi; cases hi
          | cons y l =>
            unfold claimableIds at hi
            split at hi
            · cases hi with
              | head => exact ⟨y, List.mem_cons_self, rfl⟩
              | tail _ hm =>
                obtain ⟨x, hx, hxi⟩ := ihm l i hm
                exact ⟨x, List.mem_cons_of_mem _ hx, hxi⟩
            · obtain ⟨x, hx, hxi⟩ := ihm l i hi
              exact ⟨x, List.mem_cons_of_mem _ hx, hxi⟩
      unfold claimableIds at h ⊢
      split at h
      · rename_i hc
        rw [if_pos hc]
        injection h with h1 h2
        intro i hi
        cases hi with
        | head => omega
        | tail _ hm =>
          obtain ⟨x, hx, hxi⟩ := hsub n es i hm
          have := hall x hx
          omega
      · rename_i hc
        rw [if_neg hc]
        exact ih es hd' top rest h

/-! ### `takeOut` -/

theorem takeOut_sum : ∀ (k : Nat) (es : List Epoch),
    sumAvail (takeOut k es).1 + amt (takeOut k es).2 = sumAvail es := by
  intro k
  induction k with
  | zero =>
    intro es
    cases es with
    | nil => simp [takeOut, sumAvail, amt]
    | cons e es => simp only [takeOut, sumAvail, amt]; omega
  | succ k ih =>
    intro es
    cases es with
    | nil => simp [takeOut, sumAvail, amt]
    | cons e es =>
      simp only [takeOut, sumAvail]
      have := ih es
      omega

theorem takeOut_ids : ∀ (k : Nat) (es : List Epoch), (takeOut k es).1.map (·.id) = es.map (·.id) := by
  intro k
  induction k with
  | zero => intro es; cases es <;> simp [takeOut]
  | succ k ih => intro es; cases es with
    | nil => simp [takeOut]
    | cons e es => simp only [takeOut, List.map_cons, ih es]

theorem takeOut_ledger : ∀ (k : Nat) (es : List Epoch), AllLedger es → AllLedger (takeOut k es).1 := by
  intro k
  induction k with
  | zero =>
    intro es h
    cases es with
    | nil => simpa [takeOut] using h
    | cons e es =>
      intro x hx
      simp only [takeOut] at hx
      cases hx with
      | head => intro hs; simp at hs
      | tail _ hm => exact h x (List.mem_cons_of_mem _ hm)
  | succ k ih =>
    intro es h
    cases es with
    | nil => simpa [takeOut] using h
    | cons e es =>
      intro x hx
      simp only [takeOut] at hx
      cases hx with
      | head => exact h e List.mem_cons_self
      | tail _ hm => exact ih es (fun y hy => h y (List.mem_cons_of_mem _ hy)) x hm

/-- after the step, position `k` and everything behind it is empty -/
theorem takeOut_outside : ∀ (k : Nat) (es : List Epoch), OutsideEmpty (k + 1) es →
    OutsideEmpty k (takeOut k es).1 := by
  intro k
  induction k with
  | zero =>
    intro es h
    cases es with
    | nil => intro x hx; simp [takeOut] at hx
    | cons e es =>
      intro x hx
      simp only [takeOut, List.drop_zero] at hx
      cases hx with
      | head => rfl
      | tail _ hm => exact h x hm
  | succ k ih =>
    intro es h
    cases es with
    | nil => intro x hx; simp [takeOut] at hx
    | cons e es =>
      intro x hx
      simp only [takeOut, List.drop_succ_cons] at hx
      exact ih es (by intro y hy; exact h y (by simpa using hy)) x hx

/-- what is rolled over is exactly what the epoch at position `k` held -/
theorem takeOut_rolled : ∀ (k : Nat) (es : List Epoch),
    (takeOut k es).2 = (es[k]?).bind (·.avail) := by
  intro k
  induction k with
  | zero => intro es; cases es <;> simp [takeOut]
  | succ k ih => intro es; cases es with
    | nil => simp [takeOut]
    | cons e es => simp only [takeOut, List.getElem?_cons_succ]; exact ih es

/-- every other epoch is untouched; the one at position `k` keeps everything but `available` -/
theorem takeOut_others : ∀ (k : Nat) (es : List Epoch) (j : Nat), j ≠ k →
    (takeOut k es).1[j]? = es[j]? := by
  intro k
  induction k with
  | zero =>
    intro es j hj
    cases es with
    | nil => simp [takeOut]
    | cons e es =>
      cases j with
      | zero => exact absurd rfl hj
      | succ j => simp [takeOut]
  | succ k ih =>
    intro es j hj
    cases es with
    | nil => simp [takeOut]
    | cons e es =>
      cases j with
      | zero => simp [takeOut]
      | succ j =>
        simp only [takeOut, List.getElem?_cons_succ]
        exact ih es j (by omega)

theorem aggOpt_amt {a b t : Option Nat} (h : aggOpt a b = .ok t) : amt t = amt a + amt b := by
  cases a <;> cases b <;> simp only [aggOpt] at h
  · injection h with h; subst h; rfl
  · injection h with h; subst h; simp [amt]
  · injection h with h; subst h; simp [amt]
  · split at h
    · injection h with h; subst h; simp [amt]
    · cases h

/-! ### `nextEpoch` / `receiveEpoch` -/

theorem receiveEpoch_spec {s s' : St} {id start : Nat} {inflow : Option Nat}
    (h : receiveEpoch s id start inflow = .ok s') :
    1 ≤ s.grace ∧ ∃ tot, aggOpt inflow (takeOut (s.grace - 1) s.epochs).2 = .ok tot ∧
      s' = { s with epochs := { id := id, start := start, total := tot, avail := tot, claimed := none } ::
                                (takeOut (s.grace - 1) s.epochs).1,
                    bal := s.bal + amt inflow } := by
  unfold receiveEpoch at h
  split at h
  · cases h
  · rename_i hg
    simp only at h
    cases ha : aggOpt inflow (takeOut (s.grace - 1) s.epochs).2 with
    | ok tot =>
      rw [ha] at h; simp only at h
      injection h with h
      exact ⟨by omega, tot, rfl, h.symm⟩
    | err => rw [ha] at h; simp at h
    | panic => rw [ha] at h; simp at h

theorem nextEpoch_spec {cfg : Cfg} {s : St} {now id start : Nat} (h : nextEpoch cfg s now = .ok (id, start)) :
    id = (current s).id + 1 ∧
    ((current s).id = 0 ∧ (current s).start = 0 ∧ start = cfg.genesis ∨
     ¬((current s).id = 0 ∧ (current s).start = 0) ∧ start = (current s).start + cfg.duration) := by
  unfold nextEpoch at h
  simp only at h
  split at h
  · cases h
  · split at h
    · cases h
    · split at h
      · rename_i h0
        split at h
        · cases h
        · split at h
          · injection h with h; injection h with h1 h2
            exact ⟨h1.symm, Or.inl ⟨h0.1, h0.2, h2.symm⟩⟩
          · cases h
      · rename_i h0
        split at h
        · split at h
          · injection h with h; injection h with h1 h2
            exact ⟨h1.symm, Or.inr ⟨h0, h2.symm⟩⟩
          · cases h
        · cases h

theorem current_id_max {s : St} (hd : IdsDesc s.epochs) : ∀ e ∈ s.epochs, e.id ≤ (current s).id := by
  intro e he
  unfold current
  cases hs : s.epochs with
  | nil => rw [hs] at he; cases he
  | cons x xs =>
    rw [hs] at he hd
    simp only
    cases he with
    | head => exact Nat.le_refl _
    | tail _ hm => exact Nat.le_of_lt ((List.pairwise_cons.mp hd).1 e hm)

/-! ### invariant preservation -/

theorem newEpoch_inv {cfg : Cfg} {s s' : St} {now : Nat} {inflow : Option Nat} (hI : Inv s)
    (h : newEpoch cfg s now inflow = .ok s') : Inv s' := by
  unfold newEpoch at h
  cases hn : nextEpoch cfg s now with
  | err => rw [hn] at h; simp at h
  | panic => rw [hn] at h; simp at h
  | ok pr =>
    obtain ⟨id, start⟩ := pr
    rw [hn] at h; simp only at h
    obtain ⟨hg, tot, hagg, hs'⟩ := receiveEpoch_spec h
    obtain ⟨hid, _⟩ := nextEpoch_spec hn
    subst hs'
    have hsum := takeOut_sum (s.grace - 1) s.epochs
    have hamt := aggOpt_amt hagg
    refine { ledger := ?_, holds := ?_, grace := hI.grace, outside := ?_, desc := ?_ }
    · intro e he
      simp only at he
      cases he with
      | head => intro _; simp [amt]
      | tail _ hm => exact takeOut_ledger _ _ hI.ledger e hm
    · simp only [sumAvail]
      have := hI.holds
      omega
    · intro e he
      simp only at he
      have hk : s.grace = (s.grace - 1) + 1 := by omega
      rw [hk, List.drop_succ_cons] at he
      refine takeOut_outside (s.grace - 1) s.epochs ?_ e he
      rw [← hk]; exact hI.outside
    · unfold IdsDesc
      simp only
      rw [List.pairwise_cons]
      refine ⟨?_, idsDesc_of_map_eq (takeOut_ids _ _) hI.desc⟩
      intro e he
      simp only
      have hmem : e.id ∈ (takeOut (s.grace - 1) s.epochs).1.map (·.id) := List.mem_map.mpr ⟨e, he, rfl⟩
      rw [takeOut_ids] at hmem
      obtain ⟨x, hx, hxe⟩ := List.mem_map.mp hmem
      have := current_id_max hI.desc x hx
      omega

theorem claim_spec {s s' : St} {u : Nat} {view : Option Nat} {ans : Nat → LairAns} {paid : Nat}
    (h : claim s u view ans = .ok (s', paid)) :
    ∃ b top rest es', claimBound s u view = some b ∧ claimableIds b s.grace s.epochs = top :: rest ∧
      claimWalk ans b s.grace s.epochs 0 = .ok (es', paid) ∧ paid ≤ s.bal ∧
      s' = { s with epochs := es', last := setLast u top s.last, bal := s.bal - paid } := by
  unfold claim at h
  cases hb : claimBound s u view with
  | none => rw [hb] at h; simp at h
  | some b =>
    rw [hb] at h; simp only at h
    cases hc : claimableIds b s.grace s.epochs with
    | nil => rw [hc] at h; simp at h
    | cons top rest =>
      rw [hc] at h; simp only at h
      cases hw : claimWalk ans b s.grace s.epochs 0 with
      | err => rw [hw] at h; simp at h
      | panic => rw [hw] at h; simp at h
      | ok pr =>
        obtain ⟨es', t⟩ := pr
        rw [hw] at h; simp only at h
        split at h
        · rename_i hle
          injection h with h; injection h with h1 h2
          subst h2
          exact ⟨b, top, rest, es', rfl, hc, hw, hle, h1.symm⟩
        · cases h

theorem claim_inv {s s' : St} {u : Nat} {view : Option Nat} {ans : Nat → LairAns} {paid : Nat} (hI : Inv s)
    (h : claim s u view ans = .ok (s', paid)) : Inv s' := by
  obtain ⟨b, top, rest, es', _, _, hw, hle, hs'⟩ := claim_spec h
  obtain ⟨_, i2, _, i4, _, i6, i7, _⟩ := claimWalk_spec ans b s.grace s.epochs 0 es' paid hw
  subst hs'
  refine { ledger := i7 hI.ledger, holds := ?_, grace := hI.grace, outside := ?_, desc := idsDesc_of_map_eq i4 hI.desc }
  · simp only
    have := hI.holds
    omega
  · intro e he
    simp only at he
    rw [i6] at he
    exact hI.outside e he

theorem updateGrace_spec {cfg : Cfg} {s s' : St} {sender g : Nat} (h : updateGrace cfg s sender g = .ok s') :
    s' = { s with grace := g } ∧ s.grace ≤ g ∧ 1 ≤ g := by
  unfold updateGrace at h
  split at h
  · cases h
  · split at h
    · cases h
    · split at h
      · cases h
      · injection h with h
        exact ⟨h.symm, by omega, by omega⟩

theorem drop_subset_of_le {α : Type} (l : List α) {m n : Nat} (h : m ≤ n) : ∀ x ∈ l.drop n, x ∈ l.drop m := by
  intro x hx
  have : l.drop n = (l.drop m).drop (n - m) := by
    rw [List.drop_drop]; congr 1; omega
  rw [this] at hx
  exact List.mem_of_mem_drop hx

theorem step_inv {cfg : Cfg} {s s' : St} {op : Op} (hI : Inv s) (h : step cfg s op = .ok s') : Inv s' := by
  cases op with
  | newEpoch now inflow => exact newEpoch_inv hI h
  | claim u view ans =>
    simp only [step] at h
    cases hc : claim s u view ans with
    | ok pr => obtain ⟨s1, paid⟩ := pr; rw [hc] at h; simp only at h; injection h with h; subst h; exact claim_inv hI hc
    | err => rw [hc] at h; simp at h
    | panic => rw [hc] at h; simp at h
  | grace sender g =>
    simp only [step] at h
    obtain ⟨hs', hle, hg⟩ := updateGrace_spec h
    subst hs'
    exact { ledger := hI.ledger, holds := hI.holds, grace := hg,
            outside := fun e he => hI.outside e (drop_subset_of_le _ hle e he), desc := hI.desc }
  | gift a =>
    simp only [step] at h
    injection h with h; subst h
    exact { ledger := hI.ledger, holds := by simp only [gift]; have := hI.holds; omega, grace := hI.grace,
            outside := hI.outside, desc := hI.desc }

theorem reach_inv (cfg : Cfg) : ∀ (ops : List Op) (s : St), Inv s → Inv (reach cfg s ops) := by
  intro ops
  induction ops with
  | nil => intro s h; exact h
  | cons op ops ih =>
    intro s hI
    unfold reach
    cases hs : step cfg s op with
    | ok s' => simp only; exact ih s' (step_inv hI hs)
    | err => simp only; exact ih s hI
    | panic => simp only; exact ih s hI

/-! ### last-claimed bookkeeping -/

theorem lookup_setLast_same (u v : Nat) : ∀ l, lookup u (setLast u v l) = some v := by
  intro l
  induction l with
  | nil => simp [setLast, lookup]
  | cons p l ih =>
    obtain ⟨k, w⟩ := p
    unfold setLast
    split
    · rename_i hk; simp [lookup, hk]
    · rename_i hk; simp [lookup, hk, ih]

theorem lookup_setLast_other {u u' : Nat} (v : Nat) (hne : u' ≠ u) : ∀ l, lookup u' (setLast u v l) = lookup u' l := by
  intro l
  induction l with
  | nil => simp [setLast, lookup]; intro h; exact absurd h.symm hne
  | cons p l ih =>
    obtain ⟨k, w⟩ := p
    unfold setLast
    split
    · rename_i hk; subst hk; simp [lookup, Ne.symm hne]
    · rename_i hk
      simp only [lookup]
      split
      · rfl
      · exact ih

/-- "the last claimed epoch of `u` is at least `m`" (and defined) -/
def LastGe (s : St) (u m : Nat) : Prop := ∃ lc, lookup u s.last = some lc ∧ m ≤ lc

theorem step_lastGe {cfg : Cfg} {s s' : St} {op : Op} {u m : Nat} (_hI : Inv s) (hl : LastGe s u m)
    (h : step cfg s op = .ok s') : LastGe s' u m := by
  obtain ⟨lc, hlc, hm⟩ := hl
  cases op with
  | newEpoch now inflow =>
    simp only [step, newEpoch] at h
    cases hn : nextEpoch cfg s now with
    | err => rw [hn] at h; simp at h
    | panic => rw [hn] at h; simp at h
    | ok pr =>
      obtain ⟨id, start⟩ := pr
      rw [hn] at h; simp only at h
      obtain ⟨_, tot, _, hs'⟩ := receiveEpoch_spec h
      subst hs'; exact ⟨lc, hlc, hm⟩
  | claim u2 view ans =>
    simp only [step] at h
    cases hc : claim s u2 view ans with
    | err => rw [hc] at h; simp at h
    | panic => rw [hc] at h; simp at h
    | ok pr =>
      obtain ⟨s1, paid⟩ := pr
      rw [hc] at h; simp only at h; injection h with h; subst h
      obtain ⟨b, top, rest, es', hb, hcl, hw, _, hs'⟩ := claim_spec hc
      subst hs'
      by_cases hu : u = u2
      · subst hu
        refine ⟨top, lookup_setLast_same _ _ _, ?_⟩
        -- the bound is the old last claimed epoch, and `top` is a claimable id, hence above it
        have hbl : b = lc := by
          unfold claimBound at hb; rw [hlc] at hb; injection hb with hb; exact hb.symm
        have htop : top ∈ claimableIds b s.grace s.epochs := by rw [hcl]; exact List.mem_cons_self
        have : ∀ (n : Nat) (l : List Epoch), ∀ i ∈ claimableIds b n l, b < i := by
          intro n
          induction n with
          | zero => intro l i hi; unfold claimableIds at hi; cases hi
          | succ n ihn =>
            intro l i hi
            cases l with
            | nil => unfold claimableIds at hi; cases hi
            | cons y l =>
              unfold claimableIds at hi
              split at hi
              · rename_i hcy
                cases hi with
                | head =>
                  unfold isClaimable at hcy
                  simp only [Bool.and_eq_true, decide_eq_true_eq] at hcy
                  exact hcy.1
                | tail _ hmm => exact ihn l i hmm
              · exact ihn l i hi
        have := this _ _ top htop
        omega
      · exact ⟨lc, by simp only; rw [lookup_setLast_other _ hu]; exact hlc, hm⟩
  | grace sender g =>
    simp only [step] at h
    obtain ⟨hs', _, _⟩ := updateGrace_spec h
    subst hs'; exact ⟨lc, hlc, hm⟩
  | gift a =>
    simp only [step] at h
    injection h with h; subst h; exact ⟨lc, hlc, hm⟩

theorem reach_lastGe (cfg : Cfg) {u m : Nat} : ∀ (ops : List Op) (s : St), Inv s → LastGe s u m →
    LastGe (reach cfg s ops) u m := by
  intro ops
  induction ops with
  | nil => intro s _ h; exact h
  | cons op ops ih =>
    intro s hI hl
    unfold reach
    cases hs : step cfg s op with
    | ok s' => simp only; exact ih s' (step_inv hI hs) (step_lastGe hI hl hs)
    | err => simp only; exact ih s hI hl
    | panic => simp only; exact ih s hI hl

/-! ### nominal start times -/

theorem newEpoch_nominal {cfg : Cfg} {s s' : St} {now : Nat} {inflow : Option Nat}
    (hN : Nominal cfg s.epochs) (h : newEpoch cfg s now inflow = .ok s') : Nominal cfg s'.epochs := by
  unfold newEpoch at h
  cases hn : nextEpoch cfg s now with
  | err => rw [hn] at h; simp at h
  | panic => rw [hn] at h; simp at h
  | ok pr =>
    obtain ⟨id, start⟩ := pr
    rw [hn] at h; simp only at h
    obtain ⟨hg, tot, hagg, hs'⟩ := receiveEpoch_spec h
    obtain ⟨hid, hst⟩ := nextEpoch_spec hn
    subst hs'
    intro e he
    simp only at he
    cases he with
    | head =>
      simp only
      cases hst with
      | inl h0 =>
        obtain ⟨h1, _, h3⟩ := h0
        rw [hid, h1, h3]; simp
      | inr h1 =>
        obtain ⟨hne, hstart⟩ := h1
        -- the current epoch is a real one
        cases hs : s.epochs with
        | nil => exfalso; apply hne; simp [current, hs]
        | cons x xs =>
          have hx := hN x (by rw [hs]; exact List.mem_cons_self)
          have hcur : current s = x := by simp [current, hs]
          rw [hid, hstart, hcur]
          refine ⟨by omega, ?_⟩
          rw [hx.2]
          obtain ⟨k, hk⟩ : ∃ k, x.id = k + 1 := ⟨x.id - 1, by omega⟩
          rw [hk]
          simp only [Nat.add_sub_cancel]
          rw [Nat.succ_mul]
          omega
    | tail _ hm =>
      -- epochs of `takeOut` keep id and start
      have : ∀ (k : Nat) (l : List Epoch), Nominal cfg l → Nominal cfg (takeOut k l).1 := by
        intro k
        induction k with
        | zero =>
          intro l hl
          cases l with
          | nil => simpa [takeOut] using hl
          | cons y l =>
            intro z hz
            simp only [takeOut] at hz
            cases hz with
            | head => exact hl y List.mem_cons_self
            | tail _ hzz => exact hl z (List.mem_cons_of_mem _ hzz)
        | succ k ihk =>
          intro l hl
          cases l with
          | nil => simpa [takeOut] using hl
          | cons y l =>
            intro z hz
            simp only [takeOut] at hz
            cases hz with
            | head => exact hl y List.mem_cons_self
            | tail _ hzz => exact ihk l (fun w hw => hl w (List.mem_cons_of_mem _ hw)) z hzz
      exact this _ _ hN e hm

theorem takeOut_at : ∀ (k : Nat) (es : List Epoch), ((takeOut k es).1[k]?).bind (·.avail) = none := by
  intro k
  induction k with
  | zero => intro es; cases es <;> simp [takeOut]
  | succ k ih => intro es; cases es with
    | nil => simp [takeOut]
    | cons e es => simp only [takeOut, List.getElem?_cons_succ]; exact ih es

/-- `Nominal` only looks at ids and start times -/
theorem nominal_of_maps (cfg : Cfg) : ∀ (es es' : List Epoch), es'.map (·.id) = es.map (·.id) →
    es'.map (·.start) = es.map (·.start) → Nominal cfg es → Nominal cfg es' := by
  intro es
  induction es with
  | nil =>
    intro es' h1 _ _
    cases es' with
    | nil => intro e he; cases he
    | cons x xs => simp at h1
  | cons y ys ih =>
    intro es' h1 h2 hN
    cases es' with
    | nil => intro e he; cases he
    | cons x xs =>
      simp only [List.map_cons, List.cons.injEq] at h1 h2
      intro e he
      cases he with
      | head =>
        have := hN y List.mem_cons_self
        rw [h1.1, h2.1]; exact this
      | tail _ hm => exact ih xs h1.2 h2.2 (fun w hw => hN w (List.mem_cons_of_mem _ hw)) e hm

theorem step_nominal {cfg : Cfg} {s s' : St} {op : Op} (hN : Nominal cfg s.epochs)
    (h : step cfg s op = .ok s') : Nominal cfg s'.epochs := by
  cases op with
  | newEpoch now inflow => exact newEpoch_nominal hN h
  | claim u view ans =>
    simp only [step] at h
    cases hc : claim s u view ans with
    | err => rw [hc] at h; simp at h
    | panic => rw [hc] at h; simp at h
    | ok pr =>
      obtain ⟨s1, paid⟩ := pr
      rw [hc] at h; simp only at h; injection h with h; subst h
      obtain ⟨b, top, rest, es', _, _, hw, _, hs'⟩ := claim_spec hc
      obtain ⟨_, _, _, i4, i5, _, _, _⟩ := claimWalk_spec ans b s.grace s.epochs 0 es' paid hw
      subst hs'
      exact nominal_of_maps cfg _ _ i4 i5 hN
  | grace sender g =>
    simp only [step] at h
    obtain ⟨hs', _, _⟩ := updateGrace_spec h
    subst hs'; exact hN
  | gift a =>
    simp only [step] at h
    injection h with h; subst h; exact hN

theorem reach_nominal (cfg : Cfg) : ∀ (ops : List Op) (s : St), Nominal cfg s.epochs →
    Nominal cfg (reach cfg s ops).epochs := by
  intro ops
  induction ops with
  | nil => intro s h; exact h
  | cons op ops ih =>
    intro s hN
    unfold reach
    cases hs : step cfg s op with
    | ok s' => simp only; exact ih s' (step_nominal hN hs)
    | err => simp only; exact ih s hN
    | panic => simp only; exact ih s hN

end WW.Distributor
