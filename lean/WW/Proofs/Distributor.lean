/- Helper lemmas about `WW.Model.Distributor` (invariants of the multi-asset epoch ledger). Core Lean only. -/
import WW.Model.Distributor
namespace WW.Distributor

/-! ### ledgers (`Vec<Asset>` as association lists) -/

theorem sel_same (a x : Nat) : sel a a x = x := by simp [sel]
theorem sel_ne {k a : Nat} (x : Nat) (h : k ≠ a) : sel k a x = 0 := by simp [sel, h]

theorem amtOf_cons (a k x : Nat) (r : Ledger) : amtOf a ((k, x) :: r) = sel k a x + amtOf a r := rfl

theorem amtOf_append (a : Nat) : ∀ (l m : Ledger), amtOf a (l ++ m) = amtOf a l + amtOf a m := by
  intro l
  induction l with
  | nil => intro m; simp [amtOf]
  | cons p l ih =>
    intro m
    obtain ⟨k, x⟩ := p
    simp only [List.cons_append, amtOf_cons, ih m]
    omega

theorem hasKey_iff (k : Nat) : ∀ l : Ledger, hasKey k l = true ↔ k ∈ keys l := by
  intro l
  induction l with
  | nil => simp [hasKey, keys]
  | cons p l ih =>
    obtain ⟨j, y⟩ := p
    unfold hasKey
    by_cases hj : j = k
    · subst hj; simp [keys]
    · rw [if_neg hj, ih]
      simp only [keys, List.map_cons, List.mem_cons]
      constructor
      · intro h; exact Or.inr h
      · intro h
        cases h with
        | inl h => exact absurd h.symm hj
        | inr h => exact h

theorem amtOf_of_not_mem (a : Nat) : ∀ l : Ledger, a ∉ keys l → amtOf a l = 0 := by
  intro l
  induction l with
  | nil => intro _; rfl
  | cons p l ih =>
    obtain ⟨j, y⟩ := p
    intro h
    simp only [keys, List.map_cons, List.mem_cons, not_or] at h
    rw [amtOf_cons, sel_ne y (fun e => h.1 e.symm), ih h.2]

theorem keys_nil_iff (l : Ledger) : keys l = [] ↔ l = [] := by
  cases l <;> simp [keys]

theorem amtOf_inflowLedger (d a : Nat) (inflow : Option Nat) : amtOf a (inflowLedger d inflow) = sel d a (amt inflow) := by
  cases inflow with
  | none => simp [inflowLedger, amtOf, amt, sel]
  | some x => simp [inflowLedger, amtOf, amt, sel]

theorem nodup_inflowLedger (d : Nat) (inflow : Option Nat) : (keys (inflowLedger d inflow)).Nodup := by
  cases inflow <;> simp [inflowLedger, keys]

/-! ### `aggregate_assets` -/

theorem bumpFirst_spec (k x : Nat) : ∀ (l l' : Ledger), bumpFirst k x l = .ok l' → hasKey k l = true →
    keys l' = keys l ∧ ∀ a, amtOf a l' = amtOf a l + sel k a x := by
  intro l
  induction l with
  | nil => intro l' _ hk; simp [hasKey] at hk
  | cons p l ih =>
    obtain ⟨j, y⟩ := p
    intro l' h hk
    unfold bumpFirst at h
    by_cases hj : j = k
    · rw [if_pos hj] at h
      split at h
      · injection h with h; subst h
        refine ⟨rfl, fun a => ?_⟩
        simp only [amtOf_cons]
        subst hj
        unfold sel
        split <;> omega
      · cases h
    · rw [if_neg hj] at h
      unfold hasKey at hk
      rw [if_neg hj] at hk
      cases hb : bumpFirst k x l with
      | ok r' =>
        rw [hb] at h; simp only at h
        injection h with h; subst h
        obtain ⟨i1, i2⟩ := ih r' hb hk
        refine ⟨by simp only [keys, List.map_cons] at i1 ⊢; rw [i1], fun a => ?_⟩
        simp only [amtOf_cons, i2 a]
        omega
      | err => rw [hb] at h; simp at h
      | panic => rw [hb] at h; simp at h

theorem aggOne_spec {l l' : Ledger} {k x : Nat} (h : aggOne l k x = .ok l') :
    (∀ a, amtOf a l' = amtOf a l + sel k a x) ∧ ((keys l).Nodup → (keys l').Nodup) ∧
    (∀ j, j ∈ keys l' ↔ j ∈ keys l ∨ j = k) := by
  unfold aggOne at h
  by_cases hk : hasKey k l = true
  · rw [if_pos hk] at h
    obtain ⟨i1, i2⟩ := bumpFirst_spec k x l l' h hk
    refine ⟨i2, fun hn => by rw [i1]; exact hn, fun j => ?_⟩
    rw [i1]
    constructor
    · intro hj; exact Or.inl hj
    · intro hj
      cases hj with
      | inl hj => exact hj
      | inr hj => subst hj; exact (hasKey_iff _ l).mp hk
  · rw [if_neg hk] at h
    injection h with h; subst h
    have hnot : k ∉ keys l := fun hm => hk ((hasKey_iff k l).mpr hm)
    refine ⟨fun a => ?_, fun hn => ?_, fun j => ?_⟩
    · rw [amtOf_append]; simp only [amtOf]; omega
    · simp only [keys, List.map_append, List.map_cons, List.map_nil]
      rw [List.nodup_append]
      refine ⟨hn, by simp, ?_⟩
      intro a ha b hb
      simp only [List.mem_cons, List.not_mem_nil, or_false] at hb
      subst hb
      intro hab; subst hab
      exact hnot ha
    · simp only [keys, List.map_append, List.map_cons, List.map_nil, List.mem_append, List.mem_cons,
        List.not_mem_nil, or_false]

theorem agg_spec : ∀ (m l l' : Ledger), agg l m = .ok l' →
    (∀ a, amtOf a l' = amtOf a l + amtOf a m) ∧ ((keys l).Nodup → (keys l').Nodup) := by
  intro m
  induction m with
  | nil =>
    intro l l' h
    unfold agg at h
    injection h with h; subst h
    exact ⟨fun a => by simp [amtOf], id⟩
  | cons p m ih =>
    obtain ⟨k, x⟩ := p
    intro l l' h
    unfold agg at h
    cases ha : aggOne l k x with
    | ok l1 =>
      rw [ha] at h; simp only at h
      obtain ⟨a1, a2, _⟩ := aggOne_spec ha
      obtain ⟨i1, i2⟩ := ih l1 l' h
      refine ⟨fun a => ?_, fun hn => i2 (a2 hn)⟩
      rw [i1 a, a1 a, amtOf_cons]
      omega
    | err => rw [ha] at h; simp at h
    | panic => rw [ha] at h; simp at h

/-! ### `claim`: the loops over `available` / `claimed` -/

theorem subAll_of_not_mem (k r : Nat) : ∀ l : Ledger, k ∉ keys l → subAll k r l = .ok l := by
  intro l
  induction l with
  | nil => intro _; rfl
  | cons p l ih =>
    obtain ⟨j, y⟩ := p
    intro h
    simp only [keys, List.map_cons, List.mem_cons, not_or] at h
    unfold subAll
    rw [if_neg (fun e => h.1 e.symm), ih h.2]

theorem subAll_spec (k r : Nat) : ∀ (l l' : Ledger), (keys l).Nodup → hasKey k l = true → subAll k r l = .ok l' →
    keys l' = keys l ∧ ∀ a, amtOf a l' + sel k a r = amtOf a l := by
  intro l
  induction l with
  | nil => intro l' _ hk _; simp [hasKey] at hk
  | cons p l ih =>
    obtain ⟨j, y⟩ := p
    intro l' hn hk h
    have hn' : (keys l).Nodup := by
      simp only [keys, List.map_cons, List.nodup_cons] at hn; exact hn.2
    have hjn : j ∉ keys l := by
      simp only [keys, List.map_cons, List.nodup_cons] at hn; exact hn.1
    unfold subAll at h
    by_cases hj : j = k
    · rw [if_pos hj] at h
      split at h
      · rename_i hle
        rw [subAll_of_not_mem k r l (by rw [← hj]; exact hjn)] at h
        simp only at h
        injection h with h; subst h
        refine ⟨rfl, fun a => ?_⟩
        simp only [amtOf_cons]
        subst hj
        unfold sel
        split <;> omega
      · cases h
    · rw [if_neg hj] at h
      unfold hasKey at hk
      rw [if_neg hj] at hk
      cases hb : subAll k r l with
      | ok t =>
        rw [hb] at h; simp only at h
        injection h with h; subst h
        obtain ⟨i1, i2⟩ := ih t hn' hk hb
        refine ⟨by simp only [keys, List.map_cons] at i1 ⊢; rw [i1], fun a => ?_⟩
        simp only [amtOf_cons]
        have := i2 a
        omega
      | err => rw [hb] at h; simp at h
      | panic => rw [hb] at h; simp at h

/-- what `claim` keeps true of one epoch's three ledgers: every asset is listed at most once in `claimed`,
    only assets of `total` are listed, and for EVERY asset `claimed + available = total`. -/
def ClaimedOk (tot av cl : Ledger) : Prop :=
  (keys cl).Nodup ∧ (∀ j ∈ keys cl, j ∈ keys tot) ∧ ∀ a, amtOf a cl + amtOf a av = amtOf a tot

/-- a fresh epoch: nothing claimed, `available = total` -/
theorem claimedOk_fresh (tot : Ledger) : ClaimedOk tot tot [] :=
  ⟨by simp [keys], fun j hj => by simp [keys] at hj, fun a => by simp [amtOf]⟩

/-- `recordClaimed` = one round of `aggregate_assets` on `claimed` -/
theorem recordClaimed_spec {k r : Nat} {cl cl' : Ledger} (h : recordClaimed k r cl = .ok cl') :
    (∀ a, amtOf a cl' = amtOf a cl + sel k a r) ∧ ((keys cl).Nodup → (keys cl').Nodup) ∧
    (∀ j, j ∈ keys cl' ↔ j ∈ keys cl ∨ j = k) := by
  unfold recordClaimed at h
  exact aggOne_spec h

theorem claimFee_spec {sh k t : Nat} {av cl acc av' cl' acc' : Ledger} {tot : Ledger}
    (hn : (keys av).Nodup) (hk : k ∈ keys tot) (hc : ClaimedOk tot av cl)
    (h : claimFee sh k t av cl acc = .ok (av', cl', acc')) :
    keys av' = keys av ∧ ClaimedOk tot av' cl' ∧
    (∀ a, amtOf a av' + amtOf a acc' = amtOf a av + amtOf a acc) ∧
    (∀ a, amtOf a av' ≤ amtOf a av) ∧
    (∀ a, amtOf a cl ≤ amtOf a cl') ∧
    (∀ a, amtOf a cl' + amtOf a acc = amtOf a cl + amtOf a acc') ∧
    ((keys acc).Nodup → (keys acc').Nodup) := by
  unfold claimFee at h
  split at h
  · cases h
  · split at h
    · injection h with h; injection h with h1 h; injection h with h2 h3
      subst h1; subst h2; subst h3
      exact ⟨rfl, hc, fun _ => rfl, fun _ => Nat.le_refl _, fun _ => Nat.le_refl _, fun _ => rfl, id⟩
    · rename_i _ hr0
      generalize hr : t * sh / E18 = r at h hr0
      split at h
      · cases h
      · rename_i hhk
        have hhas : hasKey k av = true := by
          cases hh : hasKey k av with
          | true => rfl
          | false => exact absurd hh hhk
        cases ha : aggOne acc k r with
        | err => rw [ha] at h; simp at h
        | panic => rw [ha] at h; simp at h
        | ok acc1 =>
          rw [ha] at h; simp only at h
          cases hs : subAll k r av with
          | err => rw [hs] at h; simp at h
          | panic => rw [hs] at h; simp at h
          | ok av1 =>
            rw [hs] at h; simp only at h
            cases hrc : recordClaimed k r cl with
            | err => rw [hrc] at h; simp at h
            | panic => rw [hrc] at h; simp at h
            | ok cl1 =>
              rw [hrc] at h; simp only at h
              injection h with h; injection h with h1 h; injection h with h2 h3
              subst h1; subst h2; subst h3
              obtain ⟨a1, a2, _⟩ := aggOne_spec ha
              obtain ⟨s1, s2⟩ := subAll_spec k r av av1 hn hhas hs
              obtain ⟨r1, r2, r3⟩ := recordClaimed_spec hrc
              obtain ⟨hcn, hcs, hceq⟩ := hc
              refine ⟨s1, ⟨r2 hcn, fun j hj => ?_, fun a => ?_⟩, fun a => ?_, fun a => ?_, fun a => ?_, fun a => ?_, a2⟩
              · cases (r3 j).mp hj with
                | inl hm => exact hcs j hm
                | inr he => rw [he]; exact hk
              · have := hceq a; have := s2 a; have := r1 a; omega
              · have := s2 a; have := a1 a; omega
              · have := s2 a; omega
              · have := r1 a; omega
              · have := r1 a; have := a1 a; omega

/-- the loop over `epoch.total`; `rest` is the part of `tot` still to be walked -/
theorem claimFees_spec (sh : Nat) (tot : Ledger) : ∀ (rest av cl acc av' cl' acc' : Ledger),
    (∀ p ∈ rest, p.1 ∈ keys tot) → (keys av).Nodup → ClaimedOk tot av cl →
    claimFees sh rest av cl acc = .ok (av', cl', acc') →
    keys av' = keys av ∧ ClaimedOk tot av' cl' ∧
    (∀ a, amtOf a av' + amtOf a acc' = amtOf a av + amtOf a acc) ∧
    (∀ a, amtOf a av' ≤ amtOf a av) ∧
    (∀ a, amtOf a cl ≤ amtOf a cl') ∧
    (∀ a, amtOf a cl' + amtOf a acc = amtOf a cl + amtOf a acc') ∧
    ((keys acc).Nodup → (keys acc').Nodup) := by
  intro rest
  induction rest with
  | nil =>
    intro av cl acc av' cl' acc' _ _ hc h
    unfold claimFees at h
    injection h with h; injection h with h1 h; injection h with h2 h3
    subst h1; subst h2; subst h3
    exact ⟨rfl, hc, fun _ => rfl, fun _ => Nat.le_refl _, fun _ => Nat.le_refl _, fun _ => rfl, id⟩
  | cons p rest ih =>
    obtain ⟨k, t⟩ := p
    intro av cl acc av' cl' acc' hsub hn hc h
    unfold claimFees at h
    cases hf : claimFee sh k t av cl acc with
    | err => rw [hf] at h; simp at h
    | panic => rw [hf] at h; simp at h
    | ok tr =>
      obtain ⟨av1, cl1, acc1⟩ := tr
      rw [hf] at h; simp only at h
      obtain ⟨f1, f2, f3, f4, f5, f6, f7⟩ :=
        claimFee_spec (tot := tot) hn (hsub (k, t) List.mem_cons_self) hc hf
      obtain ⟨i1, i2, i3, i4, i5, i6, i7⟩ :=
        ih av1 cl1 acc1 av' cl' acc' (fun p hp => hsub p (List.mem_cons_of_mem _ hp)) (by rw [f1]; exact hn) f2 h
      refine ⟨by rw [i1, f1], i2, fun a => ?_, fun a => ?_, fun a => ?_, fun a => ?_, fun hh => i7 (f7 hh)⟩
      · have := f3 a; have := i3 a; omega
      · have := f4 a; have := i4 a; omega
      · have := f5 a; have := i5 a; omega
      · have := f6 a; have := i6 a; omega

/-! ### predicates -/

/-- the ledger invariant of one epoch.  ALWAYS (also after expiry emptied `available`): per asset
    `claimed + available ≤ total`.  As long as its `available` vector is non-empty (= until it expires):
    every asset is listed once in `available`, and `ClaimedOk` — per asset `claimed + available = total`. -/
def LedgerOk (e : Epoch) : Prop :=
  (∀ a, amtOf a e.claimed + amtOf a e.avail ≤ amtOf a e.total) ∧
  (e.avail ≠ [] → (keys e.avail).Nodup ∧ ClaimedOk e.total e.avail e.claimed)

def AllLedger (es : List Epoch) : Prop := ∀ e ∈ es, LedgerOk e

/-- everything outside the grace window (positions ≥ n of the descending list) has been emptied -/
def OutsideEmpty (n : Nat) (es : List Epoch) : Prop := ∀ e ∈ es.drop n, e.avail = []

/-- ids strictly descending (newest first) -/
def IdsDesc (es : List Epoch) : Prop := es.Pairwise fun a b => b.id < a.id

/-- epoch `id` starts at `genesis + (id-1)·duration` -/
def Nominal (cfg : Cfg) (es : List Epoch) : Prop :=
  ∀ e ∈ es, 1 ≤ e.id ∧ e.start = cfg.genesis + (e.id - 1) * cfg.duration

structure Inv (s : St) : Prop where
  ledger : AllLedger s.epochs
  holds : ∀ a, sumAvail a s.epochs ≤ s.bal a
  grace : 1 ≤ s.grace
  outside : OutsideEmpty s.grace s.epochs
  desc : IdsDesc s.epochs

theorem inv_init (g d : Nat) (hg : 1 ≤ g) : Inv (St.init g d) :=
  { ledger := by intro e he; cases he
    holds := by intro a; simp [St.init, sumAvail]
    grace := hg
    outside := by intro e he; simp [St.init] at he
    desc := List.Pairwise.nil }

/-! ### `claimEpoch` -/

theorem claimEpoch_spec {e e' : Epoch} {an : LairAns} {acc acc' : Ledger} (hl : LedgerOk e) (hne : e.avail ≠ [])
    (h : claimEpoch e an acc = .ok (e', acc')) :
    e'.id = e.id ∧ e'.start = e.start ∧ e'.total = e.total ∧ LedgerOk e' ∧
    (∀ a, amtOf a e'.avail + amtOf a acc' = amtOf a e.avail + amtOf a acc) ∧
    (∀ a, amtOf a e.claimed ≤ amtOf a e'.claimed) ∧
    (∀ a, amtOf a e'.claimed + amtOf a acc = amtOf a e.claimed + amtOf a acc') ∧
    ((keys acc).Nodup → (keys acc').Nodup) ∧
    (e'.avail = [] ↔ e.avail = []) := by
  unfold claimEpoch at h
  cases an with
  | err => simp at h
  | panic => simp at h
  | share sh =>
    simp only at h
    cases hf : claimFees sh e.total e.avail e.claimed acc with
    | err => rw [hf] at h; simp at h
    | panic => rw [hf] at h; simp at h
    | ok tr =>
      obtain ⟨av1, cl1, acc1⟩ := tr
      rw [hf] at h; simp only at h
      injection h with h; injection h with h1 h2
      subst h1; subst h2
      obtain ⟨hn, hc⟩ := hl.2 hne
      obtain ⟨i1, i2, i3, i4, i5, i6, i7⟩ :=
        claimFees_spec sh e.total e.total e.avail e.claimed acc av1 cl1 acc1
          (fun p hp => List.mem_map.mpr ⟨p, hp, rfl⟩) hn hc hf
      refine ⟨rfl, rfl, rfl, ⟨fun a => Nat.le_of_eq (i2.2.2 a), fun _ => ⟨by simp only; rw [i1]; exact hn, i2⟩⟩,
        i3, i5, i6, i7, ?_⟩
      simp only
      rw [← keys_nil_iff, i1, keys_nil_iff]

/-! ### `claimWalk` -/

theorem isClaimable_spec {b : Nat} {e : Epoch} (h : isClaimable b e = true) : b < e.id ∧ e.avail ≠ [] := by
  unfold isClaimable at h
  simp only [Bool.and_eq_true, decide_eq_true_eq, Bool.not_eq_true'] at h
  refine ⟨h.1, fun h0 => ?_⟩
  rw [h0] at h; simp at h

theorem claimWalk_spec (ans : Nat → LairAns) (b : Nat) :
    ∀ (n : Nat) (es : List Epoch) (acc : Ledger) (es' : List Epoch) (t : Ledger),
      AllLedger es → claimWalk ans b n es acc = .ok (es', t) →
      (∀ a, amtOf a t + sumAvail a es' = amtOf a acc + sumAvail a es) ∧
      (∀ a, sumClaimed a es ≤ sumClaimed a es') ∧
      (∀ a, sumClaimed a es' + amtOf a acc = sumClaimed a es + amtOf a t) ∧
      es'.map (·.id) = es.map (·.id) ∧ es'.map (·.start) = es.map (·.start) ∧
      es'.map (·.total) = es.map (·.total) ∧
      es'.drop n = es.drop n ∧
      AllLedger es' ∧
      (∀ e' ∈ es', e' ∈ es ∨ (b < e'.id ∧ e'.id ∈ claimableIds b n es)) ∧
      ((keys acc).Nodup → (keys t).Nodup) := by
  intro n
  induction n with
  | zero =>
    intro es acc es' t hall h
    unfold claimWalk at h
    injection h with h; injection h with h1 h2
    subst h1; subst h2
    exact ⟨fun _ => rfl, fun _ => Nat.le_refl _, fun _ => rfl, rfl, rfl, rfl, rfl, hall,
      fun e' he' => Or.inl he', id⟩
  | succ n ih =>
    intro es acc es' t hall h
    cases es with
    | nil =>
      unfold claimWalk at h
      injection h with h; injection h with h1 h2
      subst h1; subst h2
      exact ⟨fun _ => rfl, fun _ => Nat.le_refl _, fun _ => rfl, rfl, rfl, rfl, rfl, hall,
        fun e' he' => Or.inl he', id⟩
    | cons e es =>
      have hall' : AllLedger es := fun x hx => hall x (List.mem_cons_of_mem _ hx)
      unfold claimWalk at h
      by_cases hc : isClaimable b e = true
      · rw [if_pos hc] at h
        obtain ⟨hbid, hne⟩ := isClaimable_spec hc
        cases hce : claimEpoch e (ans e.id) acc with
        | err => rw [hce] at h; simp at h
        | panic => rw [hce] at h; simp at h
        | ok pr =>
          obtain ⟨e1, acc1⟩ := pr
          rw [hce] at h; simp only at h
          cases hw : claimWalk ans b n es acc1 with
          | err => rw [hw] at h; simp at h
          | panic => rw [hw] at h; simp at h
          | ok pr2 =>
            obtain ⟨es1, t1⟩ := pr2
            rw [hw] at h; simp only at h
            injection h with h; injection h with h1 h2
            subst h1; subst h2
            obtain ⟨i1, i2, i3, i4, i5, i5', i6, i7, i8, i9⟩ := ih es acc1 es1 t1 hall' hw
            obtain ⟨c1, c2, c3, c4, c5, c6, c7, c9, _⟩ :=
              claimEpoch_spec (hall e List.mem_cons_self) hne hce
            refine ⟨fun a => ?_, fun a => ?_, fun a => ?_, ?_, ?_, ?_, ?_, ?_, ?_, fun hh => i9 (c9 hh)⟩
            · simp only [sumAvail]; have := i1 a; have := c5 a; omega
            · simp only [sumClaimed]; have := i2 a; have := c6 a; omega
            · simp only [sumClaimed]; have := i3 a; have := c7 a; omega
            · simp only [List.map_cons, c1, i4]
            · simp only [List.map_cons, c2, i5]
            · simp only [List.map_cons, c3, i5']
            · simp only [List.drop_succ_cons]; exact i6
            · intro e' he'
              cases he' with
              | head => exact c4
              | tail _ hm => exact i7 e' hm
            · intro e' he'
              cases he' with
              | head =>
                right
                refine ⟨by rw [c1]; exact hbid, ?_⟩
                unfold claimableIds
                rw [if_pos hc, c1]
                exact List.mem_cons_self
              | tail _ hm =>
                cases i8 e' hm with
                | inl hin => exact Or.inl (List.mem_cons_of_mem _ hin)
                | inr hr =>
                  right
                  refine ⟨hr.1, ?_⟩
                  unfold claimableIds
                  rw [if_pos hc]
                  exact List.mem_cons_of_mem _ hr.2
      · rw [if_neg hc] at h
        cases hw : claimWalk ans b n es acc with
        | err => rw [hw] at h; simp at h
        | panic => rw [hw] at h; simp at h
        | ok pr2 =>
          obtain ⟨es1, t1⟩ := pr2
          rw [hw] at h; simp only at h
          injection h with h; injection h with h1 h2
          subst h1; subst h2
          obtain ⟨i1, i2, i3, i4, i5, i5', i6, i7, i8, i9⟩ := ih es acc es1 t1 hall' hw
          refine ⟨fun a => ?_, fun a => ?_, fun a => ?_, ?_, ?_, ?_, ?_, ?_, ?_, i9⟩
          · simp only [sumAvail]; have := i1 a; omega
          · simp only [sumClaimed]; have := i2 a; omega
          · simp only [sumClaimed]; have := i3 a; omega
          · simp only [List.map_cons, i4]
          · simp only [List.map_cons, i5]
          · simp only [List.map_cons, i5']
          · simp only [List.drop_succ_cons]; exact i6
          · intro e' he'
            cases he' with
            | head => exact hall e List.mem_cons_self
            | tail _ hm => exact i7 e' hm
          · intro e' he'
            cases he' with
            | head => exact Or.inl List.mem_cons_self
            | tail _ hm =>
              cases i8 e' hm with
              | inl hin => exact Or.inl (List.mem_cons_of_mem _ hin)
              | inr hr =>
                right
                refine ⟨hr.1, ?_⟩
                unfold claimableIds
                rw [if_neg hc]
                exact hr.2

/-- ids of a list that is `map id`-equal -/
theorem idsDesc_of_map_eq {es es' : List Epoch} (h : es'.map (·.id) = es.map (·.id)) (hd : IdsDesc es) :
    IdsDesc es' := by
  unfold IdsDesc at *
  have h1 : (es.map (·.id)).Pairwise (fun a b => b < a) := by
    rw [List.pairwise_map]; exact hd
  rw [← h, List.pairwise_map] at h1
  exact h1

/-- the claimable ids of a descending list are bounded by the first of them -/
theorem claimableIds_le_head (b : Nat) :
    ∀ (n : Nat) (es : List Epoch), IdsDesc es → ∀ top rest, claimableIds b n es = top :: rest →
      ∀ i ∈ claimableIds b n es, i ≤ top := by
  intro n
  induction n with
  | zero => intro es _ top rest h; unfold claimableIds at h; cases h
  | succ n ih =>
    intro es hd top rest h
    cases es with
    | nil => unfold claimableIds at h; cases h
    | cons e es =>
      have hd' : IdsDesc es := (List.pairwise_cons.mp hd).2
      have hall : ∀ x ∈ es, x.id < e.id := (List.pairwise_cons.mp hd).1
      -- every claimable id of the tail is an id of the tail
      have hsub : ∀ (m : Nat) (l : List Epoch), ∀ i ∈ claimableIds b m l, ∃ x ∈ l, x.id = i := by
        intro m
        induction m with
        | zero => intro l i hi; unfold claimableIds at hi; cases hi
        | succ m ihm =>
          intro l i hi
          cases l with
          | nil => unfold claimableIds at hi; cases hi
          | cons y l =>
            unfold claimableIds at hi
            split at hi
            · cases hi with
              | head => exact ⟨y, List.mem_cons_self, rfl⟩
              | tail _ hm =>
                obtain ⟨x, hx, hxi⟩ := ihm l i hm
                exact ⟨x, List.mem_cons_of_mem _ hx, hxi⟩
            · obtain ⟨x, hx, hxi⟩ := ihm l i hi
              exact ⟨x, List.mem_cons_of_mem _ hx, hxi⟩
      unfold claimableIds at h ⊢
      split at h
      · rename_i hc
        rw [if_pos hc]
        injection h with h1 h2
        intro i hi
        cases hi with
        | head => omega
        | tail _ hm =>
          obtain ⟨x, hx, hxi⟩ := hsub n es i hm
          have := hall x hx
          omega
      · rename_i hc
        rw [if_neg hc]
        exact ih es hd' top rest h

/-! ### `takeOut` -/

theorem takeOut_sum (a : Nat) : ∀ (k : Nat) (es : List Epoch),
    sumAvail a (takeOut k es).1 + amtOf a (takeOut k es).2 = sumAvail a es := by
  intro k
  induction k with
  | zero =>
    intro es
    cases es with
    | nil => simp [takeOut, sumAvail, amtOf]
    | cons e es => simp only [takeOut, sumAvail, amtOf]; omega
  | succ k ih =>
    intro es
    cases es with
    | nil => simp [takeOut, sumAvail, amtOf]
    | cons e es =>
      simp only [takeOut, sumAvail]
      have := ih es
      omega

theorem takeOut_ids : ∀ (k : Nat) (es : List Epoch), (takeOut k es).1.map (·.id) = es.map (·.id) := by
  intro k
  induction k with
  | zero => intro es; cases es <;> simp [takeOut]
  | succ k ih => intro es; cases es with
    | nil => simp [takeOut]
    | cons e es => simp only [takeOut, List.map_cons, ih es]

theorem takeOut_ledger : ∀ (k : Nat) (es : List Epoch), AllLedger es → AllLedger (takeOut k es).1 := by
  intro k
  induction k with
  | zero =>
    intro es h
    cases es with
    | nil => simpa [takeOut] using h
    | cons e es =>
      intro x hx
      simp only [takeOut] at hx
      cases hx with
      | head =>
        refine ⟨fun a => ?_, fun hs => by simp at hs⟩
        have := (h e List.mem_cons_self).1 a
        simp only [amtOf]
        omega
      | tail _ hm => exact h x (List.mem_cons_of_mem _ hm)
  | succ k ih =>
    intro es h
    cases es with
    | nil => simpa [takeOut] using h
    | cons e es =>
      intro x hx
      simp only [takeOut] at hx
      cases hx with
      | head => exact h e List.mem_cons_self
      | tail _ hm => exact ih es (fun y hy => h y (List.mem_cons_of_mem _ hy)) x hm

/-- after the step, position `k` and everything behind it is empty -/
theorem takeOut_outside : ∀ (k : Nat) (es : List Epoch), OutsideEmpty (k + 1) es →
    OutsideEmpty k (takeOut k es).1 := by
  intro k
  induction k with
  | zero =>
    intro es h
    cases es with
    | nil => intro x hx; simp [takeOut] at hx
    | cons e es =>
      intro x hx
      simp only [takeOut, List.drop_zero] at hx
      cases hx with
      | head => rfl
      | tail _ hm => exact h x hm
  | succ k ih =>
    intro es h
    cases es with
    | nil => intro x hx; simp [takeOut] at hx
    | cons e es =>
      intro x hx
      simp only [takeOut, List.drop_succ_cons] at hx
      exact ih es (by intro y hy; exact h y (by simpa using hy)) x hx

/-- what the epoch at position `k` still has available (all assets of it); `[]` if there is none -/
def availAt (es : List Epoch) (k : Nat) : Ledger :=
  match es[k]? with
  | some e => e.avail
  | none => []

/-- what is rolled over is exactly what the epoch at position `k` held -/
theorem takeOut_rolled : ∀ (k : Nat) (es : List Epoch), (takeOut k es).2 = availAt es k := by
  intro k
  induction k with
  | zero => intro es; cases es <;> simp [takeOut, availAt]
  | succ k ih => intro es; cases es with
    | nil => simp [takeOut, availAt]
    | cons e es =>
      simp only [takeOut]
      rw [ih es]
      simp [availAt]

/-- every other epoch is untouched; the one at position `k` keeps everything but `available` -/
theorem takeOut_others : ∀ (k : Nat) (es : List Epoch) (j : Nat), j ≠ k →
    (takeOut k es).1[j]? = es[j]? := by
  intro k
  induction k with
  | zero =>
    intro es j hj
    cases es with
    | nil => simp [takeOut]
    | cons e es =>
      cases j with
      | zero => exact absurd rfl hj
      | succ j => simp [takeOut]
  | succ k ih =>
    intro es j hj
    cases es with
    | nil => simp [takeOut]
    | cons e es =>
      cases j with
      | zero => simp [takeOut]
      | succ j =>
        simp only [takeOut, List.getElem?_cons_succ]
        exact ih es j (by omega)

theorem takeOut_at : ∀ (k : Nat) (es : List Epoch), availAt (takeOut k es).1 k = [] := by
  intro k
  induction k with
  | zero => intro es; cases es <;> simp [takeOut, availAt]
  | succ k ih => intro es; cases es with
    | nil => simp [takeOut, availAt]
    | cons e es =>
      have := ih es
      simp only [takeOut, availAt, List.getElem?_cons_succ] at this ⊢
      exact this

/-- the epoch at position `k` keeps id, start, total and claimed -/
theorem takeOut_keeps : ∀ (k : Nat) (es : List Epoch),
    (takeOut k es).1.map (fun e => (e.id, e.start, e.total, e.claimed)) =
      es.map (fun e => (e.id, e.start, e.total, e.claimed)) := by
  intro k
  induction k with
  | zero => intro es; cases es <;> simp [takeOut]
  | succ k ih => intro es; cases es with
    | nil => simp [takeOut]
    | cons e es => simp only [takeOut, List.map_cons, ih es]

/-! ### `nextEpoch` / `receiveEpoch` -/

theorem receiveEpoch_spec {s s' : St} {id start : Nat} {inflow : Option Nat}
    (h : receiveEpoch s id start inflow = .ok s') :
    1 ≤ s.grace ∧ ∃ tot, agg (inflowLedger s.dist inflow) (takeOut (s.grace - 1) s.epochs).2 = .ok tot ∧
      s' = { s with epochs := { id := id, start := start, total := tot, avail := tot, claimed := [] } ::
                                (takeOut (s.grace - 1) s.epochs).1,
                    bal := addAt s.bal s.dist (amt inflow) } := by
  unfold receiveEpoch at h
  split at h
  · cases h
  · rename_i hg
    simp only at h
    cases ha : agg (inflowLedger s.dist inflow) (takeOut (s.grace - 1) s.epochs).2 with
    | ok tot =>
      rw [ha] at h; simp only at h
      injection h with h
      exact ⟨by omega, tot, rfl, h.symm⟩
    | err => rw [ha] at h; simp at h
    | panic => rw [ha] at h; simp at h

theorem nextEpoch_spec {cfg : Cfg} {s : St} {now id start : Nat} (h : nextEpoch cfg s now = .ok (id, start)) :
    id = (current s).id + 1 ∧
    ((current s).id = 0 ∧ (current s).start = 0 ∧ start = cfg.genesis ∨
     ¬((current s).id = 0 ∧ (current s).start = 0) ∧ start = (current s).start + cfg.duration) := by
  unfold nextEpoch at h
  simp only at h
  split at h
  · cases h
  · split at h
    · cases h
    · split at h
      · rename_i h0
        split at h
        · cases h
        · split at h
          · injection h with h; injection h with h1 h2
            exact ⟨h1.symm, Or.inl ⟨h0.1, h0.2, h2.symm⟩⟩
          · cases h
      · rename_i h0
        split at h
        · split at h
          · injection h with h; injection h with h1 h2
            exact ⟨h1.symm, Or.inr ⟨h0, h2.symm⟩⟩
          · cases h
        · cases h

theorem current_id_max {s : St} (hd : IdsDesc s.epochs) : ∀ e ∈ s.epochs, e.id ≤ (current s).id := by
  intro e he
  unfold current
  cases hs : s.epochs with
  | nil => rw [hs] at he; cases he
  | cons x xs =>
    rw [hs] at he hd
    simp only
    cases he with
    | head => exact Nat.le_refl _
    | tail _ hm => exact Nat.le_of_lt ((List.pairwise_cons.mp hd).1 e hm)

theorem addAt_apply (f : Nat → Nat) (i v a : Nat) : addAt f i v a = f a + sel i a v := by
  unfold addAt sel
  by_cases h : a = i
  · subst h; simp
  · rw [if_neg h, if_neg (fun e => h e.symm)]; omega

/-! ### invariant preservation -/

theorem newEpoch_inv {cfg : Cfg} {s s' : St} {now : Nat} {inflow : Option Nat} (hI : Inv s)
    (h : newEpoch cfg s now inflow = .ok s') : Inv s' := by
  unfold newEpoch at h
  cases hn : nextEpoch cfg s now with
  | err => rw [hn] at h; simp at h
  | panic => rw [hn] at h; simp at h
  | ok pr =>
    obtain ⟨id, start⟩ := pr
    rw [hn] at h; simp only at h
    obtain ⟨hg, tot, hagg, hs'⟩ := receiveEpoch_spec h
    obtain ⟨hid, _⟩ := nextEpoch_spec hn
    subst hs'
    obtain ⟨hamt, hnd⟩ := agg_spec _ _ _ hagg
    refine { ledger := ?_, holds := ?_, grace := hI.grace, outside := ?_, desc := ?_ }
    · intro e he
      simp only at he
      cases he with
      | head =>
        exact ⟨fun a => by simp [amtOf], fun _ => ⟨hnd (nodup_inflowLedger _ _), claimedOk_fresh tot⟩⟩
      | tail _ hm => exact takeOut_ledger _ _ hI.ledger e hm
    · intro a
      simp only [sumAvail]
      have h1 := takeOut_sum a (s.grace - 1) s.epochs
      have h2 := hamt a
      rw [amtOf_inflowLedger] at h2
      have h3 := hI.holds a
      rw [addAt_apply]
      omega
    · intro e he
      simp only at he
      have hk : s.grace = (s.grace - 1) + 1 := by omega
      rw [hk, List.drop_succ_cons] at he
      refine takeOut_outside (s.grace - 1) s.epochs ?_ e he
      rw [← hk]; exact hI.outside
    · unfold IdsDesc
      simp only
      rw [List.pairwise_cons]
      refine ⟨?_, idsDesc_of_map_eq (takeOut_ids _ _) hI.desc⟩
      intro e he
      simp only
      have hmem : e.id ∈ (takeOut (s.grace - 1) s.epochs).1.map (·.id) := List.mem_map.mpr ⟨e, he, rfl⟩
      rw [takeOut_ids] at hmem
      obtain ⟨x, hx, hxe⟩ := List.mem_map.mp hmem
      have := current_id_max hI.desc x hx
      omega

theorem payAll_spec : ∀ (l : Ledger) (b b' : Nat → Nat), payAll l b = .ok b' → ∀ a, b' a + amtOf a l = b a := by
  intro l
  induction l with
  | nil => intro b b' h a; unfold payAll at h; injection h with h; subst h; simp [amtOf]
  | cons p l ih =>
    obtain ⟨k, x⟩ := p
    intro b b' h a
    unfold payAll at h
    split at h
    · rename_i hle
      have := ih _ _ h a
      simp only [amtOf_cons]
      unfold subAt at this
      unfold sel
      by_cases hk : a = k
      · subst hk; simp only [if_true] at this ⊢; omega
      · rw [if_neg hk] at this
        rw [if_neg (fun e => hk e.symm)]
        omega
    · cases h

theorem claim_spec {s s' : St} {u : Nat} {view : Option Nat} {ans : Nat → LairAns} {paid : Ledger}
    (h : claim s u view ans = .ok (s', paid)) :
    ∃ b top rest es' bal', claimBound s u view = some b ∧ claimableIds b s.grace s.epochs = top :: rest ∧
      claimWalk ans b s.grace s.epochs [] = .ok (es', paid) ∧ payAll paid s.bal = .ok bal' ∧
      s' = { s with epochs := es', last := setLast u top s.last, bal := bal' } := by
  unfold claim at h
  cases hb : claimBound s u view with
  | none => rw [hb] at h; simp at h
  | some b =>
    rw [hb] at h; simp only at h
    cases hc : claimableIds b s.grace s.epochs with
    | nil => rw [hc] at h; simp at h
    | cons top rest =>
      rw [hc] at h; simp only at h
      cases hw : claimWalk ans b s.grace s.epochs [] with
      | err => rw [hw] at h; simp at h
      | panic => rw [hw] at h; simp at h
      | ok pr =>
        obtain ⟨es', t⟩ := pr
        rw [hw] at h; simp only at h
        cases hp : payAll t s.bal with
        | err => rw [hp] at h; simp at h
        | panic => rw [hp] at h; simp at h
        | ok bal' =>
          rw [hp] at h; simp only at h
          injection h with h; injection h with h1 h2
          subst h2
          exact ⟨b, top, rest, es', bal', rfl, hc, hw, hp, h1.symm⟩

theorem claim_inv {s s' : St} {u : Nat} {view : Option Nat} {ans : Nat → LairAns} {paid : Ledger} (hI : Inv s)
    (h : claim s u view ans = .ok (s', paid)) : Inv s' := by
  obtain ⟨b, top, rest, es', bal', _, _, hw, hp, hs'⟩ := claim_spec h
  obtain ⟨i1, _, _, i4, _, _, i6, i7, _, _⟩ := claimWalk_spec ans b s.grace s.epochs [] es' paid hI.ledger hw
  subst hs'
  refine { ledger := i7, holds := ?_, grace := hI.grace, outside := ?_, desc := idsDesc_of_map_eq i4 hI.desc }
  · intro a
    simp only
    have := hI.holds a
    have := payAll_spec _ _ _ hp a
    have := i1 a
    simp only [amtOf] at this
    omega
  · intro e he
    simp only at he
    rw [i6] at he
    exact hI.outside e he

theorem updateGrace_spec {cfg : Cfg} {s s' : St} {sender g : Nat} (h : updateGrace cfg s sender g = .ok s') :
    s' = { s with grace := g } ∧ s.grace ≤ g ∧ 1 ≤ g := by
  unfold updateGrace at h
  split at h
  · cases h
  · split at h
    · cases h
    · split at h
      · cases h
      · injection h with h
        exact ⟨h.symm, by omega, by omega⟩

theorem setDist_spec {cfg : Cfg} {s s' : St} {sender a : Nat} (h : setDist cfg s sender a = .ok s') :
    s' = { s with dist := a } ∧ sender = cfg.owner := by
  unfold setDist at h
  split at h
  · cases h
  · rename_i hs
    injection h with h
    exact ⟨h.symm, Classical.not_not.mp hs⟩

theorem drop_subset_of_le {α : Type} (l : List α) {m n : Nat} (h : m ≤ n) : ∀ x ∈ l.drop n, x ∈ l.drop m := by
  intro x hx
  have : l.drop n = (l.drop m).drop (n - m) := by
    rw [List.drop_drop]; congr 1; omega
  rw [this] at hx
  exact List.mem_of_mem_drop hx

theorem step_inv {cfg : Cfg} {s s' : St} {op : Op} (hI : Inv s) (h : step cfg s op = .ok s') : Inv s' := by
  cases op with
  | newEpoch now inflow => exact newEpoch_inv hI h
  | claim u view ans =>
    simp only [step] at h
    cases hc : claim s u view ans with
    | ok pr => obtain ⟨s1, paid⟩ := pr; rw [hc] at h; simp only at h; injection h with h; subst h; exact claim_inv hI hc
    | err => rw [hc] at h; simp at h
    | panic => rw [hc] at h; simp at h
  | grace sender g =>
    simp only [step] at h
    obtain ⟨hs', hle, hg⟩ := updateGrace_spec h
    subst hs'
    exact { ledger := hI.ledger, holds := hI.holds, grace := hg,
            outside := fun e he => hI.outside e (drop_subset_of_le _ hle e he), desc := hI.desc }
  | gift a x =>
    simp only [step] at h
    injection h with h; subst h
    exact { ledger := hI.ledger,
            holds := by intro b; simp only [gift]; rw [addAt_apply]; have := hI.holds b; omega,
            grace := hI.grace, outside := hI.outside, desc := hI.desc }
  | setDist sender a =>
    simp only [step] at h
    obtain ⟨hs', _⟩ := setDist_spec h
    subst hs'
    exact { ledger := hI.ledger, holds := hI.holds, grace := hI.grace, outside := hI.outside, desc := hI.desc }

theorem reach_inv (cfg : Cfg) : ∀ (ops : List Op) (s : St), Inv s → Inv (reach cfg s ops) := by
  intro ops
  induction ops with
  | nil => intro s h; exact h
  | cons op ops ih =>
    intro s hI
    unfold reach
    cases hs : step cfg s op with
    | ok s' => simp only; exact ih s' (step_inv hI hs)
    | err => simp only; exact ih s hI
    | panic => simp only; exact ih s hI

/-! ### last-claimed bookkeeping -/

theorem lookup_setLast_same (u v : Nat) : ∀ l, lookup u (setLast u v l) = some v := by
  intro l
  induction l with
  | nil => simp [setLast, lookup]
  | cons p l ih =>
    obtain ⟨k, w⟩ := p
    unfold setLast
    split
    · rename_i hk; simp [lookup, hk]
    · rename_i hk; simp [lookup, hk, ih]

theorem lookup_setLast_other {u u' : Nat} (v : Nat) (hne : u' ≠ u) : ∀ l, lookup u' (setLast u v l) = lookup u' l := by
  intro l
  induction l with
  | nil => simp [setLast, lookup]; intro h; exact absurd h.symm hne
  | cons p l ih =>
    obtain ⟨k, w⟩ := p
    unfold setLast
    split
    · rename_i hk; subst hk; simp [lookup, Ne.symm hne]
    · rename_i hk
      simp only [lookup]
      split
      · rfl
      · exact ih

/-- "the last claimed epoch of `u` is at least `m`" (and defined) -/
def LastGe (s : St) (u m : Nat) : Prop := ∃ lc, lookup u s.last = some lc ∧ m ≤ lc

theorem step_lastGe {cfg : Cfg} {s s' : St} {op : Op} {u m : Nat} (_hI : Inv s) (hl : LastGe s u m)
    (h : step cfg s op = .ok s') : LastGe s' u m := by
  obtain ⟨lc, hlc, hm⟩ := hl
  cases op with
  | newEpoch now inflow =>
    simp only [step, newEpoch] at h
    cases hn : nextEpoch cfg s now with
    | err => rw [hn] at h; simp at h
    | panic => rw [hn] at h; simp at h
    | ok pr =>
      obtain ⟨id, start⟩ := pr
      rw [hn] at h; simp only at h
      obtain ⟨_, tot, _, hs'⟩ := receiveEpoch_spec h
      subst hs'; exact ⟨lc, hlc, hm⟩
  | claim u2 view ans =>
    simp only [step] at h
    cases hc : claim s u2 view ans with
    | err => rw [hc] at h; simp at h
    | panic => rw [hc] at h; simp at h
    | ok pr =>
      obtain ⟨s1, paid⟩ := pr
      rw [hc] at h; simp only at h; injection h with h; subst h
      obtain ⟨b, top, rest, es', bal', hb, hcl, hw, _, hs'⟩ := claim_spec hc
      subst hs'
      by_cases hu : u = u2
      · subst hu
        refine ⟨top, lookup_setLast_same _ _ _, ?_⟩
        -- the bound is the old last claimed epoch, and `top` is a claimable id, hence above it
        have hbl : b = lc := by
          unfold claimBound at hb; rw [hlc] at hb; injection hb with hb; exact hb.symm
        have htop : top ∈ claimableIds b s.grace s.epochs := by rw [hcl]; exact List.mem_cons_self
        have : ∀ (n : Nat) (l : List Epoch), ∀ i ∈ claimableIds b n l, b < i := by
          intro n
          induction n with
          | zero => intro l i hi; unfold claimableIds at hi; cases hi
          | succ n ihn =>
            intro l i hi
            cases l with
            | nil => unfold claimableIds at hi; cases hi
            | cons y l =>
              unfold claimableIds at hi
              split at hi
              · rename_i hcy
                cases hi with
                | head => exact (isClaimable_spec hcy).1
                | tail _ hmm => exact ihn l i hmm
              · exact ihn l i hi
        have := this _ _ top htop
        omega
      · exact ⟨lc, by simp only; rw [lookup_setLast_other _ hu]; exact hlc, hm⟩
  | grace sender g =>
    simp only [step] at h
    obtain ⟨hs', _, _⟩ := updateGrace_spec h
    subst hs'; exact ⟨lc, hlc, hm⟩
  | gift a x =>
    simp only [step] at h
    injection h with h; subst h; exact ⟨lc, hlc, hm⟩
  | setDist sender a =>
    simp only [step] at h
    obtain ⟨hs', _⟩ := setDist_spec h
    subst hs'; exact ⟨lc, hlc, hm⟩

theorem reach_lastGe (cfg : Cfg) {u m : Nat} : ∀ (ops : List Op) (s : St), Inv s → LastGe s u m →
    LastGe (reach cfg s ops) u m := by
  intro ops
  induction ops with
  | nil => intro s _ h; exact h
  | cons op ops ih =>
    intro s hI hl
    unfold reach
    cases hs : step cfg s op with
    | ok s' => simp only; exact ih s' (step_inv hI hs) (step_lastGe hI hl hs)
    | err => simp only; exact ih s hI hl
    | panic => simp only; exact ih s hI hl

/-! ### nominal start times -/

theorem newEpoch_nominal {cfg : Cfg} {s s' : St} {now : Nat} {inflow : Option Nat}
    (hN : Nominal cfg s.epochs) (h : newEpoch cfg s now inflow = .ok s') : Nominal cfg s'.epochs := by
  unfold newEpoch at h
  cases hn : nextEpoch cfg s now with
  | err => rw [hn] at h; simp at h
  | panic => rw [hn] at h; simp at h
  | ok pr =>
    obtain ⟨id, start⟩ := pr
    rw [hn] at h; simp only at h
    obtain ⟨hg, tot, hagg, hs'⟩ := receiveEpoch_spec h
    obtain ⟨hid, hst⟩ := nextEpoch_spec hn
    subst hs'
    intro e he
    simp only at he
    cases he with
    | head =>
      simp only
      cases hst with
      | inl h0 =>
        obtain ⟨h1, _, h3⟩ := h0
        rw [hid, h1, h3]; simp
      | inr h1 =>
        obtain ⟨hne, hstart⟩ := h1
        -- the current epoch is a real one
        cases hs : s.epochs with
        | nil => exfalso; apply hne; simp [current, hs]
        | cons x xs =>
          have hx := hN x (by rw [hs]; exact List.mem_cons_self)
          have hcur : current s = x := by simp [current, hs]
          rw [hid, hstart, hcur]
          refine ⟨by omega, ?_⟩
          rw [hx.2]
          obtain ⟨k, hk⟩ : ∃ k, x.id = k + 1 := ⟨x.id - 1, by omega⟩
          rw [hk]
          simp only [Nat.add_sub_cancel]
          rw [Nat.succ_mul]
          omega
    | tail _ hm =>
      -- epochs of `takeOut` keep id and start
      have : ∀ (k : Nat) (l : List Epoch), Nominal cfg l → Nominal cfg (takeOut k l).1 := by
        intro k
        induction k with
        | zero =>
          intro l hl
          cases l with
          | nil => simpa [takeOut] using hl
          | cons y l =>
            intro z hz
            simp only [takeOut] at hz
            cases hz with
            | head => exact hl y List.mem_cons_self
            | tail _ hzz => exact hl z (List.mem_cons_of_mem _ hzz)
        | succ k ihk =>
          intro l hl
          cases l with
          | nil => simpa [takeOut] using hl
          | cons y l =>
            intro z hz
            simp only [takeOut] at hz
            cases hz with
            | head => exact hl y List.mem_cons_self
            | tail _ hzz => exact ihk l (fun w hw => hl w (List.mem_cons_of_mem _ hw)) z hzz
      exact this _ _ hN e hm

/-- `Nominal` only looks at ids and start times -/
theorem nominal_of_maps (cfg : Cfg) : ∀ (es es' : List Epoch), es'.map (·.id) = es.map (·.id) →
    es'.map (·.start) = es.map (·.start) → Nominal cfg es → Nominal cfg es' := by
  intro es
  induction es with
  | nil =>
    intro es' h1 _ _
    cases es' with
    | nil => intro e he; cases he
    | cons x xs => simp at h1
  | cons y ys ih =>
    intro es' h1 h2 hN
    cases es' with
    | nil => intro e he; cases he
    | cons x xs =>
      simp only [List.map_cons, List.cons.injEq] at h1 h2
      intro e he
      cases he with
      | head =>
        have := hN y List.mem_cons_self
        rw [h1.1, h2.1]; exact this
      | tail _ hm => exact ih xs h1.2 h2.2 (fun w hw => hN w (List.mem_cons_of_mem _ hw)) e hm

theorem step_nominal {cfg : Cfg} {s s' : St} {op : Op} (hI : Inv s) (hN : Nominal cfg s.epochs)
    (h : step cfg s op = .ok s') : Nominal cfg s'.epochs := by
  cases op with
  | newEpoch now inflow => exact newEpoch_nominal hN h
  | claim u view ans =>
    simp only [step] at h
    cases hc : claim s u view ans with
    | err => rw [hc] at h; simp at h
    | panic => rw [hc] at h; simp at h
    | ok pr =>
      obtain ⟨s1, paid⟩ := pr
      rw [hc] at h; simp only at h; injection h with h; subst h
      obtain ⟨b, top, rest, es', bal', _, _, hw, _, hs'⟩ := claim_spec hc
      obtain ⟨_, _, _, i4, i5, _, _, _, _, _⟩ := claimWalk_spec ans b s.grace s.epochs [] es' paid hI.ledger hw
      subst hs'
      exact nominal_of_maps cfg _ _ i4 i5 hN
  | grace sender g =>
    simp only [step] at h
    obtain ⟨hs', _, _⟩ := updateGrace_spec h
    subst hs'; exact hN
  | gift a x =>
    simp only [step] at h
    injection h with h; subst h; exact hN
  | setDist sender a =>
    simp only [step] at h
    obtain ⟨hs', _⟩ := setDist_spec h
    subst hs'; exact hN

theorem reach_nominal (cfg : Cfg) : ∀ (ops : List Op) (s : St), Inv s → Nominal cfg s.epochs →
    Nominal cfg (reach cfg s ops).epochs := by
  intro ops
  induction ops with
  | nil => intro s _ h; exact h
  | cons op ops ih =>
    intro s hI hN
    unfold reach
    cases hs : step cfg s op with
    | ok s' => simp only; exact ih s' (step_inv hI hs) (step_nominal hI hN hs)
    | err => simp only; exact ih s hI hN
    | panic => simp only; exact ih s hI hN

end WW.Distributor
