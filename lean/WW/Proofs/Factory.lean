/-
  Helper lemmas for C19 (model: WW/Model/Factory.lean). Core Lean only (the lexicographic order on
  `List Nat`, `List.Perm`, `List.Pairwise` all live in `Init`).
-/
import WW.Model.Factory
namespace WW.Factory
open WW

/-! ### `Res` inversion -/

theorem Res.bind_eq_ok {α β : Type} {x : Res α} {f : α → Res β} {b : β} :
    (x >>= f) = .ok b ↔ ∃ a, x = .ok a ∧ f a = .ok b := by
  cases x with
  | ok a => exact ⟨fun h => ⟨a, rfl, h⟩, fun ⟨a', ha, h⟩ => by cases ha; exact h⟩
  | err => exact ⟨fun h => (by cases h), fun ⟨_, ha, _⟩ => (by cases ha)⟩
  | panic => exact ⟨fun h => (by cases h), fun ⟨_, ha, _⟩ => (by cases ha)⟩

theorem guardErr_eq_ok {c : Bool} {u : Unit} : guardErr c = .ok u ↔ c = true := by
  cases c <;> simp [guardErr]

/-! ### the byte-string order -/

theorem blt_iff {a b : Bytes} : blt a b = true ↔ a < b := by simp [blt]
theorem blt_eq_false_iff {a b : Bytes} : blt a b = false ↔ ¬ a < b := by simp [blt]

theorem bytes_eq_of_not_lt {a b : Bytes} (h1 : ¬ a < b) (h2 : ¬ b < a) : a = b :=
  Std.le_antisymm (List.not_lt.mp h2) (List.not_lt.mp h1)

theorem bytes_lt_irrefl (a : Bytes) : ¬ a < a := List.lt_irrefl a
theorem bytes_lt_trans {a b c : Bytes} (h1 : a < b) (h2 : b < c) : a < c := List.lt_trans h1 h2

/-! ### sorting the raw asset bytes: keys do not depend on the order of the arguments -/

theorem insSorted_perm (x : Bytes) (l : List Bytes) : (insSorted x l).Perm (x :: l) := by
  induction l with
  | nil => exact List.Perm.refl _
  | cons y ys ih =>
    unfold insSorted
    split
    · exact (List.Perm.cons y ih).trans (List.Perm.swap x y ys)
    · exact List.Perm.refl _

theorem sortBytes_perm (l : List Bytes) : (sortBytes l).Perm l := by
  induction l with
  | nil => exact List.Perm.refl _
  | cons x xs ih => exact (insSorted_perm x (sortBytes xs)).trans (List.Perm.cons x ih)

theorem insSorted_sorted (x : Bytes) {l : List Bytes} (h : l.Pairwise (· ≤ ·)) :
    (insSorted x l).Pairwise (· ≤ ·) := by
  induction l with
  | nil => simp [insSorted]
  | cons y ys ih =>
    unfold insSorted
    rw [List.pairwise_cons] at h
    split
    · rename_i hyx
      rw [List.pairwise_cons]
      refine ⟨?_, ih h.2⟩
      intro z hz
      have hz' := (insSorted_perm x ys).subset hz
      rcases List.mem_cons.mp hz' with rfl | hz'
      · exact List.le_of_lt (blt_iff.mp hyx)
      · exact h.1 z hz'
    · rename_i hyx
      have hxy : x ≤ y := List.not_lt.mp (fun hlt => hyx (blt_iff.mpr hlt))
      rw [List.pairwise_cons]
      refine ⟨?_, List.pairwise_cons.mpr h⟩
      intro z hz
      rcases List.mem_cons.mp hz with rfl | hz
      · exact hxy
      · exact List.le_trans hxy (h.1 z hz)

theorem sortBytes_sorted (l : List Bytes) : (sortBytes l).Pairwise (· ≤ ·) := by
  induction l with
  | nil => simp [sortBytes]
  | cons x xs ih => exact insSorted_sorted x ih

theorem sortBytes_eq_of_perm {l₁ l₂ : List Bytes} (h : l₁.Perm l₂) : sortBytes l₁ = sortBytes l₂ :=
  List.Perm.eq_of_pairwise (le := (· ≤ ·)) (fun _ _ _ _ h1 h2 => Std.le_antisymm h1 h2)
    (sortBytes_sorted l₁) (sortBytes_sorted l₂)
    ((sortBytes_perm l₁).trans (h.trans (sortBytes_perm l₂).symm))

theorem concatKey_perm {l₁ l₂ : List Bytes} (h : l₁.Perm l₂) : concatKey l₁ = concatKey l₂ := by
  unfold concatKey
  rw [sortBytes_eq_of_perm h]

/-! ### `mapRes` -/

theorem mapRes_ok_length {α β : Type} {f : α → Res β} {l : List α} {bs : List β}
    (h : mapRes f l = .ok bs) : bs.length = l.length := by
  induction l generalizing bs with
  | nil => simp [mapRes] at h; subst h; rfl
  | cons a as ih =>
    unfold mapRes at h
    split at h
    · split at h
      · rename_i bs' hbs
        cases h
        simp [ih hbs]
      · cases h
      · cases h
    · cases h
    · cases h

/-- mapping a total-on-`l` function over a permutation gives a permutation of the results -/
theorem mapRes_perm {α β : Type} {f : α → Res β} {l₁ l₂ : List α} (hp : l₁.Perm l₂) {bs : List β}
    (h : mapRes f l₁ = .ok bs) : ∃ bs', mapRes f l₂ = .ok bs' ∧ bs.Perm bs' := by
  induction hp generalizing bs with
  | nil => exact ⟨bs, h, List.Perm.refl _⟩
  | cons x _ ih =>
    unfold mapRes at h
    split at h
    · rename_i b hb
      split at h
      · rename_i bs0 hbs0
        cases h
        obtain ⟨bs1, h1, p1⟩ := ih hbs0
        refine ⟨b :: bs1, ?_, List.Perm.cons b p1⟩
        unfold mapRes
        rw [hb, h1]
      · cases h
      · cases h
    · cases h
    · cases h
  | swap x y l =>
    unfold mapRes at h
    split at h
    · rename_i b hb
      split at h
      · rename_i bs0 hbs0
        cases h
        unfold mapRes at hbs0
        split at hbs0
        · rename_i c hc
          split at hbs0
          · rename_i bs1 hbs1
            cases hbs0
            refine ⟨c :: b :: bs1, ?_, List.Perm.swap c b bs1⟩
            unfold mapRes
            rw [hc]
            unfold mapRes
            rw [hb, hbs1]
          · cases hbs0
          · cases hbs0
        · cases hbs0
        · cases hbs0
      · cases h
      · cases h
    · cases h
    · cases h
  | trans _ _ ih1 ih2 =>
    obtain ⟨bs1, h1, p1⟩ := ih1 h
    obtain ⟨bs2, h2, p2⟩ := ih2 h1
    exact ⟨bs2, h2, p1.trans p2⟩

/-- the key of a list of assets does not depend on the order in which the assets are given -/
theorem keyOf_perm (cfg : Cfg) {l₁ l₂ : List Nat} (hp : l₁.Perm l₂) {k : Bytes}
    (h : keyOf cfg l₁ = .ok k) : keyOf cfg l₂ = .ok k := by
  unfold keyOf at h ⊢
  obtain ⟨raws, hr, hk⟩ := Res.bind_eq_ok.mp h
  obtain ⟨raws', hr', p⟩ := mapRes_perm hp hr
  rw [hr']
  cases hk
  show Res.ok (concatKey raws') = Res.ok (concatKey raws)
  rw [concatKey_perm p.symm]

/-! ### association lists sorted by key -/

/-- strictly increasing keys -/
def SSorted {ε : Type} (r : List (Bytes × ε)) : Prop := (r.map Prod.fst).Pairwise (· < ·)

theorem SSorted.nodup {ε : Type} {r : List (Bytes × ε)} (h : SSorted r) : (r.map Prod.fst).Nodup := by
  unfold SSorted at h
  exact h.imp (fun hab heq => by subst heq; exact bytes_lt_irrefl _ hab)

theorem mem_regInsert {ε : Type} {k : Bytes} {v : ε} {r : List (Bytes × ε)} {e : Bytes × ε}
    (h : e ∈ regInsert k v r) : e = (k, v) ∨ e ∈ r := by
  induction r with
  | nil => simp [regInsert] at h; exact Or.inl h
  | cons hd tl ih =>
    obtain ⟨k', v'⟩ := hd
    unfold regInsert at h
    split at h
    · rcases List.mem_cons.mp h with h | h
      · exact Or.inl h
      · exact Or.inr h
    · split at h
      · rcases List.mem_cons.mp h with h | h
        · exact Or.inr (h ▸ List.mem_cons_self)
        · rcases ih h with h | h
          · exact Or.inl h
          · exact Or.inr (List.mem_cons_of_mem _ h)
      · rcases List.mem_cons.mp h with h | h
        · exact Or.inl h
        · exact Or.inr (List.mem_cons_of_mem _ h)

theorem regInsert_sorted {ε : Type} (k : Bytes) (v : ε) {r : List (Bytes × ε)} (h : SSorted r) :
    SSorted (regInsert k v r) := by
  induction r with
  | nil => simp [regInsert, SSorted]
  | cons hd tl ih =>
    obtain ⟨k', v'⟩ := hd
    unfold SSorted at h ih ⊢
    simp only [List.map_cons, List.pairwise_cons] at h
    unfold regInsert
    split
    · rename_i hlt
      have hlt := blt_iff.mp hlt
      simp only [List.map_cons, List.pairwise_cons]
      refine ⟨?_, h⟩
      intro z hz
      rcases List.mem_cons.mp hz with rfl | hz
      · exact hlt
      · exact bytes_lt_trans hlt (h.1 z hz)
    · rename_i hnlt
      split
      · rename_i hgt
        have hgt := blt_iff.mp hgt
        simp only [List.map_cons, List.pairwise_cons]
        refine ⟨?_, ih h.2⟩
        intro z hz
        obtain ⟨e, he, rfl⟩ := List.mem_map.mp hz
        rcases mem_regInsert he with rfl | he
        · exact hgt
        · exact h.1 _ (List.mem_map.mpr ⟨e, he, rfl⟩)
      · rename_i hngt
        have heq : k = k' :=
          bytes_eq_of_not_lt (fun hh => hnlt (blt_iff.mpr hh)) (fun hh => hngt (blt_iff.mpr hh))
        subst heq
        simp only [List.map_cons, List.pairwise_cons]
        exact h

theorem regErase_sublist {ε : Type} (k : Bytes) (r : List (Bytes × ε)) : (regErase k r).Sublist r := by
  induction r with
  | nil => exact List.Sublist.refl _
  | cons hd tl ih =>
    obtain ⟨k', v'⟩ := hd
    unfold regErase
    split
    · exact List.Sublist.cons _ ih
    · exact List.Sublist.cons_cons _ ih

theorem mem_regErase {ε : Type} {k : Bytes} {r : List (Bytes × ε)} {e : Bytes × ε}
    (h : e ∈ regErase k r) : e ∈ r := (regErase_sublist k r).subset h

theorem regErase_sorted {ε : Type} (k : Bytes) {r : List (Bytes × ε)} (h : SSorted r) :
    SSorted (regErase k r) := by
  unfold SSorted at h ⊢
  exact h.sublist ((regErase_sublist k r).map Prod.fst)

theorem regLookup_regErase {ε : Type} (k : Bytes) (r : List (Bytes × ε)) :
    regLookup k (regErase k r) = none := by
  induction r with
  | nil => rfl
  | cons hd tl ih =>
    obtain ⟨k', v'⟩ := hd
    unfold regErase
    split
    · exact ih
    · rename_i hne
      unfold regLookup
      rw [if_neg hne]
      exact ih

theorem regLookup_some_mem {ε : Type} {k : Bytes} {r : List (Bytes × ε)} {v : ε}
    (h : regLookup k r = some v) : (k, v) ∈ r := by
  induction r with
  | nil => cases h
  | cons hd tl ih =>
    obtain ⟨k', v'⟩ := hd
    unfold regLookup at h
    split at h
    · rename_i heq
      cases h
      subst heq
      exact List.mem_cons_self
    · exact List.mem_cons_of_mem _ (ih h)

theorem regLookup_none_not_mem {ε : Type} {k : Bytes} {r : List (Bytes × ε)}
    (h : regLookup k r = none) : k ∉ r.map Prod.fst := by
  induction r with
  | nil => simp
  | cons hd tl ih =>
    obtain ⟨k', v'⟩ := hd
    unfold regLookup at h
    split at h
    · cases h
    · rename_i hne
      simp only [List.map_cons, List.mem_cons, not_or]
      exact ⟨fun heq => hne heq.symm, ih h⟩

theorem regLookup_of_not_mem {ε : Type} {k : Bytes} {r : List (Bytes × ε)}
    (h : k ∉ r.map Prod.fst) : regLookup k r = none := by
  induction r with
  | nil => rfl
  | cons hd tl ih =>
    obtain ⟨k', v'⟩ := hd
    simp only [List.map_cons, List.mem_cons, not_or] at h
    unfold regLookup
    rw [if_neg (fun heq => h.1 heq.symm)]
    exact ih h.2

/-- in a registry with distinct keys, a listed entry is the one a lookup returns -/
theorem regLookup_of_mem {ε : Type} {k : Bytes} {v : ε} {r : List (Bytes × ε)}
    (hs : SSorted r) (h : (k, v) ∈ r) : regLookup k r = some v := by
  induction r with
  | nil => cases h
  | cons hd tl ih =>
    obtain ⟨k', v'⟩ := hd
    unfold SSorted at hs
    simp only [List.map_cons, List.pairwise_cons] at hs
    unfold regLookup
    rcases List.mem_cons.mp h with h | h
    · cases h
      rw [if_pos rfl]
    · have hlt : k' < k := hs.1 k (List.mem_map.mpr ⟨(k, v), h, rfl⟩)
      rw [if_neg (fun heq => by subst heq; exact bytes_lt_irrefl _ hlt)]
      exact ih hs.2 h


/-! ### child tables -/

theorem getElem?_append_of_some {α : Type} {l l' : List α} {i : Nat} {c : α} (h : l[i]? = some c) :
    (l ++ l')[i]? = some c := by
  have hi : i < l.length := by
    rcases Nat.lt_or_ge i l.length with hlt | hge
    · exact hlt
    · rw [List.getElem?_eq_none hge] at h; cases h
  rw [List.getElem?_append_left hi]
  exact h

theorem setFunded_getElem? (l : List PoolChild) (n i : Nat) {c : PoolChild} (h : l[i]? = some c) :
    ∃ c', (setFunded l n)[i]? = some c' ∧ c'.assets = c.assets ∧ c'.decs = c.decs ∧
      c'.ptype = c.ptype ∧ c'.lp = c.lp := by
  induction l generalizing n i with
  | nil => simp at h
  | cons x xs ih =>
    cases n with
    | zero =>
      cases i with
      | zero =>
        simp only [List.getElem?_cons_zero, Option.some.injEq] at h
        subst h
        exact ⟨{ x with funded := true }, (by simp [setFunded]), rfl, rfl, rfl, rfl⟩
      | succ j =>
        simp only [List.getElem?_cons_succ] at h
        exact ⟨c, (by simp [setFunded, h]), rfl, rfl, rfl, rfl⟩
    | succ m =>
      cases i with
      | zero =>
        simp only [List.getElem?_cons_zero, Option.some.injEq] at h
        subst h
        exact ⟨x, (by simp [setFunded]), rfl, rfl, rfl, rfl⟩
      | succ j =>
        simp only [List.getElem?_cons_succ] at h
        obtain ⟨c', h1, h2⟩ := ih m j h
        exact ⟨c', (by simp [setFunded, h1]), h2⟩

/-! ### pool factory: create / remove / fund, and the registry invariant -/

/-- what a successful `create_pair` / `create_trio` (+ child instantiate + reply) did -/
theorem PoolReg.create_ok {cfg : Cfg} {d : Nat → Res Nat} {r r' : PoolReg} {idx : List Nat}
    {pt : Option Nat} {inst : Bool} (h : PoolReg.create cfg d r idx pt inst = .ok r') :
    ∃ ds key, mapRes d idx = .ok ds ∧ keyOf cfg idx = .ok key ∧ regLookup key r.reg = none ∧
      r' = { reg := regInsert key { assets := idx, child := r.kids.length, decs := ds, ptype := pt,
                                    lp := r.kids.length } r.reg,
             kids := r.kids ++ [{ assets := idx, decs := ds, ptype := pt, lp := r.kids.length,
                                  funded := pt.isSome }],
             tmp := some { key := key, assets := idx, decs := ds, ptype := pt } } := by
  unfold PoolReg.create at h
  obtain ⟨_, _, h⟩ := Res.bind_eq_ok.mp h
  obtain ⟨ds, hds, h⟩ := Res.bind_eq_ok.mp h
  obtain ⟨key, hkey, h⟩ := Res.bind_eq_ok.mp h
  obtain ⟨_, hnone, h⟩ := Res.bind_eq_ok.mp h
  obtain ⟨labels, _, h⟩ := Res.bind_eq_ok.mp h
  obtain ⟨_, _, h⟩ := Res.bind_eq_ok.mp h
  obtain ⟨_, _, h⟩ := Res.bind_eq_ok.mp h
  have hnone' : regLookup key r.reg = none := by
    have := guardErr_eq_ok.mp hnone
    simpa using this
  refine ⟨ds, key, hds, hkey, hnone', ?_⟩
  simp only [List.getElem?_concat_length] at h
  cases h
  rfl

theorem PoolReg.remove_ok {cfg : Cfg} {r r' : PoolReg} {idx : List Nat}
    (h : PoolReg.remove cfg r idx = .ok r') :
    ∃ key e, keyOf cfg idx = .ok key ∧ regLookup key r.reg = some e ∧
      r' = { r with reg := regErase key r.reg } := by
  unfold PoolReg.remove at h
  obtain ⟨key, hkey, h⟩ := Res.bind_eq_ok.mp h
  split at h
  · cases h
  · rename_i e he
    cases h
    exact ⟨key, e, hkey, he, rfl⟩

theorem PoolReg.lookup_ok {cfg : Cfg} {r : PoolReg} {idx : List Nat} {e : PoolEntry}
    (h : PoolReg.lookup cfg r idx = .ok e) :
    ∃ key, keyOf cfg idx = .ok key ∧ regLookup key r.reg = some e := by
  unfold PoolReg.lookup at h
  obtain ⟨key, hkey, h⟩ := Res.bind_eq_ok.mp h
  split at h
  · cases h
  · rename_i e' he
    cases h
    exact ⟨key, hkey, he⟩

theorem PoolReg.fund_ok {cfg : Cfg} {r r' : PoolReg} {idx : List Nat}
    (h : PoolReg.fund cfg r idx = .ok r') :
    ∃ e, PoolReg.lookup cfg r idx = .ok e ∧ r' = { r with kids := setFunded r.kids e.child } := by
  unfold PoolReg.fund at h
  obtain ⟨e, he, h⟩ := Res.bind_eq_ok.mp h
  cases h
  exact ⟨e, he, rfl⟩

/-- the invariant of a pool registry: keys strictly increasing; every key is the key of the entry's
    asset list; every entry agrees with what its child reports -/
structure PoolInv (cfg : Cfg) (r : PoolReg) : Prop where
  sorted : SSorted r.reg
  keyOk : ∀ k e, (k, e) ∈ r.reg → keyOf cfg e.assets = .ok k
  child : ∀ k e, (k, e) ∈ r.reg → ∃ c, r.kids[e.child]? = some c ∧ c.assets = e.assets ∧
            c.decs = e.decs ∧ c.ptype = e.ptype ∧ c.lp = e.lp

theorem PoolInv.init (cfg : Cfg) : PoolInv cfg ⟨[], [], none⟩ :=
  ⟨(by simp [SSorted]), (by intro k e h; cases h), (by intro k e h; cases h)⟩

theorem PoolInv.create {cfg : Cfg} {d : Nat → Res Nat} {r r' : PoolReg} {idx : List Nat}
    {pt : Option Nat} {inst : Bool} (hi : PoolInv cfg r)
    (h : PoolReg.create cfg d r idx pt inst = .ok r') : PoolInv cfg r' := by
  obtain ⟨ds, key, _, hkey, _, rfl⟩ := PoolReg.create_ok h
  refine ⟨regInsert_sorted _ _ hi.sorted, ?_, ?_⟩
  · intro k e he
    rcases mem_regInsert he with heq | he
    · cases heq; exact hkey
    · exact hi.keyOk k e he
  · intro k e he
    rcases mem_regInsert he with heq | he
    · cases heq
      exact ⟨_, List.getElem?_concat_length, rfl, rfl, rfl, rfl⟩
    · obtain ⟨c, hc, h2⟩ := hi.child k e he
      exact ⟨c, getElem?_append_of_some hc, h2⟩

theorem PoolInv.remove {cfg : Cfg} {r r' : PoolReg} {idx : List Nat} (hi : PoolInv cfg r)
    (h : PoolReg.remove cfg r idx = .ok r') : PoolInv cfg r' := by
  obtain ⟨key, e, _, _, rfl⟩ := PoolReg.remove_ok h
  exact ⟨regErase_sorted _ hi.sorted, fun k e he => hi.keyOk k e (mem_regErase he),
    fun k e he => hi.child k e (mem_regErase he)⟩

theorem PoolInv.fund {cfg : Cfg} {r r' : PoolReg} {idx : List Nat} (hi : PoolInv cfg r)
    (h : PoolReg.fund cfg r idx = .ok r') : PoolInv cfg r' := by
  obtain ⟨e0, _, rfl⟩ := PoolReg.fund_ok h
  refine ⟨hi.sorted, hi.keyOk, ?_⟩
  intro k e he
  obtain ⟨c, hc, h1, h2, h3, h4⟩ := hi.child k e he
  obtain ⟨c', hc', g1, g2, g3, g4⟩ := setFunded_getElem? r.kids e0.child e.child hc
  exact ⟨c', hc', g1.trans h1, g2.trans h2, g3.trans h3, g4.trans h4⟩


/-! ### vault factory -/

theorem VaultReg.create_ok {cfg : Cfg} {r r' : VaultReg} {i : Nat} (h : VaultReg.create cfg r i = .ok r') :
    ∃ a, assetOf cfg i = .ok a ∧ regLookup a.ref r.reg = none ∧
      symbolOk (vaultLpSymbol a.label) = true ∧
      r' = { reg := regInsert a.ref { child := r.kids.length, asset := i } r.reg,
             kids := r.kids ++ [i], tmp := some (a.ref, i) } := by
  unfold VaultReg.create at h
  obtain ⟨a, ha, h⟩ := Res.bind_eq_ok.mp h
  obtain ⟨_, hnone, h⟩ := Res.bind_eq_ok.mp h
  obtain ⟨_, _, h⟩ := Res.bind_eq_ok.mp h
  obtain ⟨_, hsym, h⟩ := Res.bind_eq_ok.mp h
  have hnone' : regLookup a.ref r.reg = none := by
    have := guardErr_eq_ok.mp hnone
    simpa using this
  refine ⟨a, ha, hnone', guardErr_eq_ok.mp hsym, ?_⟩
  cases h
  rfl

theorem VaultReg.remove_ok {cfg : Cfg} {r r' : VaultReg} {i : Nat} (h : VaultReg.remove cfg r i = .ok r') :
    ∃ a e, assetOf cfg i = .ok a ∧ regLookup a.ref r.reg = some e ∧
      r' = { r with reg := regErase a.ref r.reg } := by
  unfold VaultReg.remove at h
  obtain ⟨a, ha, h⟩ := Res.bind_eq_ok.mp h
  split at h
  · cases h
  · rename_i e he
    cases h
    exact ⟨a, e, ha, he, rfl⟩

structure VaultInv (cfg : Cfg) (r : VaultReg) : Prop where
  sorted : SSorted r.reg
  keyOk : ∀ k e, (k, e) ∈ r.reg → ∃ a, assetOf cfg e.asset = .ok a ∧ a.ref = k
  child : ∀ k e, (k, e) ∈ r.reg → r.kids[e.child]? = some e.asset

theorem VaultInv.init (cfg : Cfg) : VaultInv cfg ⟨[], [], none⟩ :=
  ⟨(by simp [SSorted]), (by intro k e h; cases h), (by intro k e h; cases h)⟩

theorem VaultInv.create {cfg : Cfg} {r r' : VaultReg} {i : Nat} (hi : VaultInv cfg r)
    (h : VaultReg.create cfg r i = .ok r') : VaultInv cfg r' := by
  obtain ⟨a, ha, _, _, rfl⟩ := VaultReg.create_ok h
  refine ⟨regInsert_sorted _ _ hi.sorted, ?_, ?_⟩
  · intro k e he
    rcases mem_regInsert he with heq | he
    · cases heq; exact ⟨a, ha, rfl⟩
    · exact hi.keyOk k e he
  · intro k e he
    rcases mem_regInsert he with heq | he
    · cases heq; exact List.getElem?_concat_length
    · exact getElem?_append_of_some (hi.child k e he)

theorem VaultInv.remove {cfg : Cfg} {r r' : VaultReg} {i : Nat} (hi : VaultInv cfg r)
    (h : VaultReg.remove cfg r i = .ok r') : VaultInv cfg r' := by
  obtain ⟨a, e, _, _, rfl⟩ := VaultReg.remove_ok h
  exact ⟨regErase_sorted _ hi.sorted, fun k e he => hi.keyOk k e (mem_regErase he),
    fun k e he => hi.child k e (mem_regErase he)⟩

/-! ### incentive factory -/

theorem IncReg.create_ok {cfg : Cfg} {r r' : IncReg} {i : Nat} (h : IncReg.create cfg r i = .ok r') :
    ∃ a, assetOf cfg i = .ok a ∧ regLookup a.raw r.reg = none ∧
      r' = { reg := regInsert a.raw r.kids.length r.reg, kids := r.kids ++ [i] } := by
  unfold IncReg.create at h
  obtain ⟨a, ha, h⟩ := Res.bind_eq_ok.mp h
  obtain ⟨_, hnone, h⟩ := Res.bind_eq_ok.mp h
  have hnone' : regLookup a.raw r.reg = none := by
    have := guardErr_eq_ok.mp hnone
    simpa using this
  obtain ⟨_, _, h⟩ := Res.bind_eq_ok.mp h
  refine ⟨a, ha, hnone', ?_⟩
  simp only [List.getElem?_concat_length] at h
  obtain ⟨la, hla, h⟩ := Res.bind_eq_ok.mp h
  rw [ha] at hla
  cases hla
  cases h
  rfl

structure IncInv (cfg : Cfg) (r : IncReg) : Prop where
  sorted : SSorted r.reg
  child : ∀ k c, (k, c) ∈ r.reg → ∃ i a, r.kids[c]? = some i ∧ assetOf cfg i = .ok a ∧ a.raw = k

theorem IncInv.init (cfg : Cfg) : IncInv cfg ⟨[], []⟩ :=
  ⟨(by simp [SSorted]), (by intro k e h; cases h)⟩

theorem IncInv.create {cfg : Cfg} {r r' : IncReg} {i : Nat} (hi : IncInv cfg r)
    (h : IncReg.create cfg r i = .ok r') : IncInv cfg r' := by
  obtain ⟨a, ha, _, rfl⟩ := IncReg.create_ok h
  refine ⟨regInsert_sorted _ _ hi.sorted, ?_⟩
  intro k c he
  rcases mem_regInsert he with heq | he
  · cases heq
    exact ⟨i, a, List.getElem?_concat_length, ha, rfl⟩
  · obtain ⟨j, b, hj, hb, hk⟩ := hi.child k c he
    exact ⟨j, b, getElem?_append_of_some hj, hb, hk⟩

/-! ### router -/

/-- the factory answers the `Pair` query for this hop: the hop's pair is registered -/
def HopReg (cfg : Cfg) (p : PoolReg) (h : Nat × Nat) : Prop := ∃ e, p.lookup cfg [h.1, h.2] = .ok e

theorem simHop_ok {cfg : Cfg} {s : St} {h : Nat × Nat} {u : Unit} (hh : simHop cfg s h = .ok u) :
    HopReg cfg s.pairs h := by
  unfold simHop at hh
  obtain ⟨e, he, _⟩ := Res.bind_eq_ok.mp hh
  exact ⟨e, he⟩

theorem simHops_ok {cfg : Cfg} {s : St} {hs : List (Nat × Nat)} {u : Unit}
    (hh : simHops cfg s hs = .ok u) : ∀ h ∈ hs, HopReg cfg s.pairs h := by
  induction hs with
  | nil => intro h hm; cases hm
  | cons x xs ih =>
    unfold simHops at hh
    split at hh
    · rename_i u' hx
      intro h hm
      rcases List.mem_cons.mp hm with rfl | hm
      · exact simHop_ok hx
      · exact ih hh h hm
    · cases hh
    · cases hh

/-- everything but the route table -/
def SameButRoutes (s s' : St) : Prop :=
  s'.decs = s.decs ∧ s'.pairs = s.pairs ∧ s'.trios = s.trios ∧ s'.vaults = s.vaults ∧ s'.incs = s.incs

theorem addRoute_ok {cfg : Cfg} {s s' : St} {rt : Route} (h : addRoute cfg s rt = .ok s') :
    (∀ hp ∈ rt.hops, HopReg cfg s.pairs hp) ∧
    ∃ lo la, s' = { s with routes := regInsert (routeKey lo la) { lo := lo, la := la, hops := rt.hops } s.routes } := by
  unfold addRoute at h
  obtain ⟨_, _, h⟩ := Res.bind_eq_ok.mp h
  obtain ⟨u, hsim, h⟩ := Res.bind_eq_ok.mp h
  obtain ⟨lo, _, h⟩ := Res.bind_eq_ok.mp h
  obtain ⟨la, _, h⟩ := Res.bind_eq_ok.mp h
  cases h
  exact ⟨simHops_ok hsim, lo, la, rfl⟩

theorem removeRoute_ok {cfg : Cfg} {s s' : St} {k : Nat × Nat} (h : removeRoute cfg s k = .ok s') :
    ∃ key, s' = { s with routes := regErase key s.routes } := by
  unfold removeRoute at h
  obtain ⟨lo, _, h⟩ := Res.bind_eq_ok.mp h
  obtain ⟨la, _, h⟩ := Res.bind_eq_ok.mp h
  split at h
  · cases h
  · cases h
    exact ⟨_, rfl⟩

/-- `add_swap_routes`: the rest of the state is untouched; every route of the message has registered
    hops only; every entry of the new table is an old one or has registered hops only -/
theorem addRoutes_ok {cfg : Cfg} {rs : List Route} {s s' : St} (h : foldRes (addRoute cfg) s rs = .ok s') :
    SameButRoutes s s' ∧ (SSorted s.routes → SSorted s'.routes) ∧
    (∀ rt ∈ rs, ∀ hp ∈ rt.hops, HopReg cfg s.pairs hp) ∧
    (∀ e ∈ s'.routes, e ∈ s.routes ∨ ∀ hp ∈ e.2.hops, HopReg cfg s.pairs hp) := by
  induction rs generalizing s with
  | nil =>
    unfold foldRes at h
    cases h
    exact ⟨⟨rfl, rfl, rfl, rfl, rfl⟩, id, (by intro rt hm; cases hm), fun e he => Or.inl he⟩
  | cons rt rest ih =>
    unfold foldRes at h
    split at h
    · rename_i s1 h1
      obtain ⟨hhops, lo, la, rfl⟩ := addRoute_ok h1
      obtain ⟨⟨a1, a2, a3, a4, a5⟩, hsort, hall, hent⟩ := ih h
      refine ⟨⟨a1, a2, a3, a4, a5⟩, fun hs => hsort (regInsert_sorted _ _ hs), ?_, ?_⟩
      · intro rt' hm hp hhp
        rcases List.mem_cons.mp hm with rfl | hm
        · exact hhops hp hhp
        · exact hall rt' hm hp hhp
      · intro e he
        rcases hent e he with he | he
        · rcases mem_regInsert he with heq | he
          · right
            intro hp hhp
            rw [heq] at hhp
            exact hhops hp hhp
          · exact Or.inl he
        · exact Or.inr he
    · cases h
    · cases h

theorem removeRoutes_ok {cfg : Cfg} {ks : List (Nat × Nat)} {s s' : St}
    (h : foldRes (removeRoute cfg) s ks = .ok s') :
    SameButRoutes s s' ∧ (SSorted s.routes → SSorted s'.routes) ∧ (∀ e ∈ s'.routes, e ∈ s.routes) := by
  induction ks generalizing s with
  | nil =>
    unfold foldRes at h
    cases h
    exact ⟨⟨rfl, rfl, rfl, rfl, rfl⟩, id, fun e he => he⟩
  | cons k rest ih =>
    unfold foldRes at h
    split at h
    · rename_i s1 h1
      obtain ⟨key, rfl⟩ := removeRoute_ok h1
      obtain ⟨⟨a1, a2, a3, a4, a5⟩, hsort, hent⟩ := ih h
      exact ⟨⟨a1, a2, a3, a4, a5⟩, fun hs => hsort (regErase_sorted _ hs), fun e he => mem_regErase (hent e he)⟩
    · cases h
    · cases h

/-- pointwise relation between two lists of equal length -/
inductive Forall2 {α β : Type} (R : α → β → Prop) : List α → List β → Prop
  | nil : Forall2 R [] []
  | cons {a : α} {b : β} {as : List α} {bs : List β} : R a b → Forall2 R as bs → Forall2 R (a :: as) (b :: bs)

theorem Forall2.imp {α β : Type} {R S : α → β → Prop} (hRS : ∀ a b, R a b → S a b)
    {l₁ : List α} {l₂ : List β} (h : Forall2 R l₁ l₂) : Forall2 S l₁ l₂ := by
  induction h with
  | nil => exact Forall2.nil
  | cons hab _ ih => exact Forall2.cons (hRS _ _ hab) ih

theorem Forall2.left_mem {α β : Type} {R : α → β → Prop} {l₁ : List α} {l₂ : List β}
    (h : Forall2 R l₁ l₂) : ∀ a ∈ l₁, ∃ b, R a b := by
  induction h with
  | nil => intro a ha; cases ha
  | cons hab _ ih =>
    intro a ha
    rcases List.mem_cons.mp ha with rfl | ha
    · exact ⟨_, hab⟩
    · exact ih a ha

theorem swapHop_ok {cfg : Cfg} {s : St} {prev : Nat} {h : Nat × Nat} {c : Nat}
    (hh : swapHop cfg s prev h = .ok c) : ∃ e, s.pairs.lookup cfg [h.1, h.2] = .ok e ∧ e.child = c := by
  unfold swapHop at hh
  obtain ⟨e, he, hh⟩ := Res.bind_eq_ok.mp hh
  obtain ⟨x, _, hh⟩ := Res.bind_eq_ok.mp hh
  refine ⟨e, he, ?_⟩
  split at hh
  · cases hh
  · repeat' split at hh
    all_goals first
      | (cases hh; rfl)
      | cases hh

theorem swapHops_ok {cfg : Cfg} {s : St} {hops : List (Nat × Nat)} {prev : Nat} {out : List Nat}
    (hh : swapHops cfg s prev hops = .ok out) :
    Forall2 (fun h c => ∃ e, s.pairs.lookup cfg [h.1, h.2] = .ok e ∧ e.child = c) hops out := by
  induction hops generalizing prev out with
  | nil =>
    unfold swapHops at hh
    cases hh
    exact Forall2.nil
  | cons x xs ih =>
    unfold swapHops at hh
    split at hh
    · rename_i c hc
      split at hh
      · rename_i cs hcs
        cases hh
        exact Forall2.cons (swapHop_ok hc) (ih hcs)
      · cases hh
      · cases hh
    · cases hh
    · cases hh

theorem swapExec_ok {cfg : Cfg} {s : St} {hops : List (Nat × Nat)} {out : List Nat}
    (hh : swapExec cfg s hops = .ok out) :
    Forall2 (fun h c => ∃ e, s.pairs.lookup cfg [h.1, h.2] = .ok e ∧ e.child = c) hops out := by
  unfold swapExec at hh
  split at hh
  · cases hh
  · obtain ⟨_, _, hh⟩ := Res.bind_eq_ok.mp hh
    obtain ⟨_, _, hh⟩ := Res.bind_eq_ok.mp hh
    exact swapHops_ok hh


/-! ### the global invariant, over all histories -/

structure Inv (cfg : Cfg) (s : St) : Prop where
  pairs : PoolInv cfg s.pairs
  trios : PoolInv cfg s.trios
  vaults : VaultInv cfg s.vaults
  incs : IncInv cfg s.incs
  routes : SSorted s.routes

theorem Inv.init (cfg : Cfg) : Inv cfg St.init :=
  ⟨PoolInv.init cfg, PoolInv.init cfg, VaultInv.init cfg, IncInv.init cfg, (by simp [St.init, SSorted])⟩

theorem Inv.step {cfg : Cfg} {s s' : St} {op : Op} {out : List Nat} (hi : Inv cfg s)
    (h : step cfg s op = .ok (s', out)) : Inv cfg s' := by
  cases op with
  | addDec a d =>
    unfold WW.Factory.step at h
    obtain ⟨x, _, h⟩ := Res.bind_eq_ok.mp h
    cases h
    exact ⟨hi.pairs, hi.trios, hi.vaults, hi.incs, hi.routes⟩
  | createPair a b pt =>
    unfold WW.Factory.step at h
    obtain ⟨p, hp, h⟩ := Res.bind_eq_ok.mp h
    cases h
    exact ⟨hi.pairs.create hp, hi.trios, hi.vaults, hi.incs, hi.routes⟩
  | createTrio a b c amp =>
    unfold WW.Factory.step at h
    obtain ⟨p, hp, h⟩ := Res.bind_eq_ok.mp h
    cases h
    exact ⟨hi.pairs, hi.trios.create hp, hi.vaults, hi.incs, hi.routes⟩
  | removePair a b =>
    unfold WW.Factory.step at h
    obtain ⟨p, hp, h⟩ := Res.bind_eq_ok.mp h
    cases h
    exact ⟨hi.pairs.remove hp, hi.trios, hi.vaults, hi.incs, hi.routes⟩
  | removeTrio a b c =>
    unfold WW.Factory.step at h
    obtain ⟨p, hp, h⟩ := Res.bind_eq_ok.mp h
    cases h
    exact ⟨hi.pairs, hi.trios.remove hp, hi.vaults, hi.incs, hi.routes⟩
  | fund a b =>
    unfold WW.Factory.step at h
    obtain ⟨p, hp, h⟩ := Res.bind_eq_ok.mp h
    cases h
    exact ⟨hi.pairs.fund hp, hi.trios, hi.vaults, hi.incs, hi.routes⟩
  | createVault a =>
    unfold WW.Factory.step at h
    obtain ⟨p, hp, h⟩ := Res.bind_eq_ok.mp h
    cases h
    exact ⟨hi.pairs, hi.trios, hi.vaults.create hp, hi.incs, hi.routes⟩
  | removeVault a =>
    unfold WW.Factory.step at h
    obtain ⟨p, hp, h⟩ := Res.bind_eq_ok.mp h
    cases h
    exact ⟨hi.pairs, hi.trios, hi.vaults.remove hp, hi.incs, hi.routes⟩
  | createInc a =>
    unfold WW.Factory.step at h
    obtain ⟨p, hp, h⟩ := Res.bind_eq_ok.mp h
    cases h
    exact ⟨hi.pairs, hi.trios, hi.vaults, hi.incs.create hp, hi.routes⟩
  | addRoutes rs =>
    unfold WW.Factory.step at h
    obtain ⟨s1, hs1, h⟩ := Res.bind_eq_ok.mp h
    cases h
    obtain ⟨⟨_, a2, a3, a4, a5⟩, hsort, _, _⟩ := addRoutes_ok hs1
    exact ⟨a2 ▸ hi.pairs, a3 ▸ hi.trios, a4 ▸ hi.vaults, a5 ▸ hi.incs, hsort hi.routes⟩
  | removeRoutes ks =>
    unfold WW.Factory.step at h
    obtain ⟨s1, hs1, h⟩ := Res.bind_eq_ok.mp h
    cases h
    obtain ⟨⟨_, a2, a3, a4, a5⟩, hsort, _⟩ := removeRoutes_ok hs1
    exact ⟨a2 ▸ hi.pairs, a3 ▸ hi.trios, a4 ▸ hi.vaults, a5 ▸ hi.incs, hsort hi.routes⟩
  | swap hops =>
    unfold WW.Factory.step at h
    obtain ⟨o, _, h⟩ := Res.bind_eq_ok.mp h
    cases h
    exact hi
  | swapRoute o a =>
    unfold WW.Factory.step at h
    obtain ⟨lo, _, h⟩ := Res.bind_eq_ok.mp h
    obtain ⟨la, _, h⟩ := Res.bind_eq_ok.mp h
    split at h
    · cases h
    · obtain ⟨o, _, h⟩ := Res.bind_eq_ok.mp h
      cases h
      exact hi

theorem Inv.apply {cfg : Cfg} {s : St} (op : Op) (hi : Inv cfg s) : Inv cfg (apply cfg s op) := by
  unfold WW.Factory.apply
  split
  · rename_i s' out h
    exact hi.step h
  · exact hi

theorem Inv.reach {cfg : Cfg} {s : St} (ops : List Op) (hi : Inv cfg s) : Inv cfg (reach cfg s ops) := by
  induction ops generalizing s with
  | nil => exact hi
  | cons op rest ih => exact ih (hi.apply op)

/-! ### create succeeds exactly when its preconditions hold -/

/-- everything `create_pair` / `create_trio` requires apart from "no entry under this key yet" -/
def CreatePre (cfg : Cfg) (d : Nat → Res Nat) (idx : List Nat) (inst : Bool) : Prop :=
  distinctIdx idx = true ∧ (∃ ds, mapRes d idx = .ok ds) ∧
  (∃ labels, mapRes (labelOf cfg) idx = .ok labels ∧ lpNameOk labels = true) ∧ inst = true

theorem PoolReg.create_isOk_iff {cfg : Cfg} {d : Nat → Res Nat} {r : PoolReg} {idx : List Nat}
    {pt : Option Nat} {inst : Bool} :
    (∃ r', PoolReg.create cfg d r idx pt inst = .ok r') ↔
      CreatePre cfg d idx inst ∧ ∃ key, keyOf cfg idx = .ok key ∧ regLookup key r.reg = none := by
  constructor
  · rintro ⟨r', h⟩
    have h0 := h
    unfold PoolReg.create at h
    obtain ⟨_, hd, h⟩ := Res.bind_eq_ok.mp h
    obtain ⟨ds, hds, h⟩ := Res.bind_eq_ok.mp h
    obtain ⟨key, hkey, h⟩ := Res.bind_eq_ok.mp h
    obtain ⟨_, hnone, h⟩ := Res.bind_eq_ok.mp h
    obtain ⟨labels, hl, h⟩ := Res.bind_eq_ok.mp h
    obtain ⟨_, hinst, h⟩ := Res.bind_eq_ok.mp h
    obtain ⟨_, hname, h⟩ := Res.bind_eq_ok.mp h
    have hnone' : regLookup key r.reg = none := by
      have := guardErr_eq_ok.mp hnone
      simpa using this
    exact ⟨⟨guardErr_eq_ok.mp hd, ⟨ds, hds⟩, ⟨labels, hl, guardErr_eq_ok.mp hname⟩, guardErr_eq_ok.mp hinst⟩,
      key, hkey, hnone'⟩
  · rintro ⟨⟨hd, ⟨ds, hds⟩, ⟨labels, hl, hname⟩, hinst⟩, key, hkey, hnone⟩
    unfold PoolReg.create
    simp [hd, hds, hkey, hnone, hl, hname, hinst, guardErr]


/-! ### pagination -/

/-- The hypothesis the cursor construction needs: no key lies in the gap `(k, k ++ [1]]` above another
    key `k` (such a key — `k` extended by a suffix starting with byte 0, or by exactly `[1]` — would be
    skipped when `k` is the cursor). Decidable. -/
def NoGap (ks : List Bytes) : Prop := ∀ k ∈ ks, ∀ k' ∈ ks, k < k' → cursorBound k < k'

instance (ks : List Bytes) : Decidable (NoGap ks) := by unfold NoGap; infer_instance

theorem lt_append_singleton (k : Bytes) (b : Nat) : k < k ++ [b] := by
  induction k with
  | nil => exact List.nil_lt_cons b []
  | cons a as ih =>
    show a :: as < a :: (as ++ [b])
    exact List.cons_lt_cons_iff.mpr (Or.inr ⟨rfl, ih⟩)

theorem lt_append_of_lt_same_length {k k' : Bytes} (s : Bytes) (hl : k.length = k'.length) (h : k < k') :
    k ++ s < k' := by
  induction k generalizing k' with
  | nil =>
    cases k' with
    | nil => exact absurd h (bytes_lt_irrefl _)
    | cons b bs => cases hl
  | cons a as ih =>
    cases k' with
    | nil => cases hl
    | cons b bs =>
      show a :: (as ++ s) < b :: bs
      rcases List.cons_lt_cons_iff.mp h with hab | ⟨rfl, hlt⟩
      · exact List.cons_lt_cons_iff.mpr (Or.inl hab)
      · exact List.cons_lt_cons_iff.mpr (Or.inr ⟨rfl, ih (by simpa using hl) hlt⟩)

/-- keys of one fixed length (canonical addresses, or any fixed-width encoding) have no gaps -/
theorem noGap_of_same_length {ks : List Bytes} {n : Nat} (h : ∀ k ∈ ks, k.length = n) : NoGap ks := by
  intro k hk k' hk' hlt
  exact lt_append_of_lt_same_length [1] ((h k hk).trans (h k' hk').symm) hlt

/-- with sorted, gap-free keys, the range after the cursor `e` is exactly what follows `e` -/
theorem regAfter_split {ε : Type} {pre post : List (Bytes × ε)} {e : Bytes × ε}
    (hs : SSorted (pre ++ e :: post)) (hg : NoGap ((pre ++ e :: post).map Prod.fst)) :
    regAfter (some (cursorBound e.1)) (pre ++ e :: post) = post := by
  unfold SSorted at hs
  rw [List.map_append, List.map_cons, List.pairwise_append, List.pairwise_cons] at hs
  obtain ⟨_, ⟨hpost, _⟩, hcross⟩ := hs
  have hbound : e.1 < cursorBound e.1 := lt_append_singleton e.1 1
  unfold regAfter
  simp only
  rw [List.filter_append, List.filter_cons]
  have h1 : List.filter (fun x : Bytes × ε => blt (cursorBound e.1) x.1) pre = [] := by
    rw [List.filter_eq_nil_iff]
    intro x hx hb
    have hxe : x.1 < e.1 := hcross x.1 (List.mem_map.mpr ⟨x, hx, rfl⟩) e.1 List.mem_cons_self
    exact List.lt_asymm (bytes_lt_trans hxe hbound) (blt_iff.mp hb)
  have h2 : blt (cursorBound e.1) e.1 = false :=
    blt_eq_false_iff.mpr (List.lt_asymm hbound)
  have h3 : List.filter (fun x : Bytes × ε => blt (cursorBound e.1) x.1) post = post := by
    rw [List.filter_eq_self]
    intro x hx
    have hex : e.1 < x.1 := hpost x.1 (List.mem_map.mpr ⟨x, hx, rfl⟩)
    apply blt_iff.mpr
    apply hg e.1 _ x.1 _ hex
    · simp
    · exact List.mem_map.mpr ⟨x, List.mem_append_right _ (List.mem_cons_of_mem _ hx), rfl⟩
  rw [h1, h2, h3]
  simp

/-- iterating pages from any cursor position returns exactly the remaining entries -/
theorem pagesFrom_flatten_aux {ε : Type} (r : List (Bytes × ε)) (hs : SSorted r)
    (hg : NoGap (r.map Prod.fst)) {lim : Nat} (hl : 0 < lim) :
    ∀ (fuel : Nat) (pre t : List (Bytes × ε)) (cur : Option Bytes), r = pre ++ t →
      regAfter (cur.map cursorBound) r = t → t.length < fuel →
      (pagesFrom fuel r cur lim).flatten = t := by
  intro fuel
  induction fuel with
  | zero => intro pre t cur _ _ hlen; exact absurd hlen (Nat.not_lt_zero _)
  | succ n ih =>
    intro pre t cur hr ha hlen
    unfold pagesFrom
    have hpage : regPage r cur lim = t.take lim := by unfold regPage; rw [ha]
    rw [hpage]
    cases hlast : (t.take lim).getLast? with
    | none =>
      have hnil : t.take lim = [] := List.getLast?_eq_none_iff.mp hlast
      cases t with
      | nil => rfl
      | cons x xs =>
        cases lim with
        | zero => exact absurd hl (Nat.lt_irrefl 0)
        | succ m => simp at hnil
    | some e =>
      obtain ⟨ini, hini⟩ := List.getLast?_eq_some_iff.mp hlast
      have hsplit : t = ini ++ e :: t.drop lim :=
        calc t = t.take lim ++ t.drop lim := (List.take_append_drop lim t).symm
          _ = (ini ++ [e]) ++ t.drop lim := by rw [hini]
          _ = ini ++ e :: t.drop lim := by simp
      have hr' : r = (pre ++ ini) ++ e :: t.drop lim := by
        rw [hr, List.append_assoc]
        exact congrArg (pre ++ ·) hsplit
      have hafter : regAfter ((some e.1).map cursorBound) r = t.drop lim := by
        show regAfter (some (cursorBound e.1)) r = t.drop lim
        have hs' := hs
        have hg' := hg
        rw [hr'] at hs' hg'
        have := regAfter_split hs' hg'
        rw [← hr'] at this
        exact this
      have hlen' : (t.drop lim).length < n := by
        have h1 : (t.take lim).length = ini.length + 1 := by rw [hini]; simp
        have h2 : (t.take lim).length + (t.drop lim).length = t.length := by
          rw [← List.length_append, List.take_append_drop]
        omega
      show (t.take lim :: pagesFrom n r (some e.1) lim).flatten = t
      rw [List.flatten_cons, ih (pre ++ ini ++ [e]) (t.drop lim) (some e.1) (by rw [hr']; simp) hafter hlen']
      exact List.take_append_drop lim t

theorem pagesFrom_flatten {ε : Type} (r : List (Bytes × ε)) (hs : SSorted r)
    (hg : NoGap (r.map Prod.fst)) {lim : Nat} (hl : 0 < lim) :
    (pagesFrom (r.length + 1) r none lim).flatten = r :=
  pagesFrom_flatten_aux r hs hg hl (r.length + 1) [] r none rfl rfl (Nat.lt_succ_self _)

/-- every page is at most `lim` long -/
theorem pagesFrom_page_length {ε : Type} (r : List (Bytes × ε)) (lim : Nat) :
    ∀ (fuel : Nat) (cur : Option Bytes), ∀ pg ∈ pagesFrom fuel r cur lim, pg.length ≤ lim := by
  intro fuel
  induction fuel with
  | zero => intro cur pg h; unfold pagesFrom at h; cases h
  | succ n ih =>
    intro cur pg h
    unfold pagesFrom at h
    split at h
    · cases h
    · rcases List.mem_cons.mp h with rfl | h
      · unfold regPage
        exact List.length_take_le _ _
      · exact ih _ pg h

theorem pageLimit_pos {dflt max : Nat} (hd : 0 < dflt) (hm : 0 < max) {limit : Option Nat}
    (h : limit ≠ some 0) : 0 < pageLimit dflt max limit := by
  unfold pageLimit
  cases limit with
  | none => simp only [Option.getD_none]; exact Nat.lt_min.mpr ⟨hd, hm⟩
  | some l =>
    simp only [Option.getD_some]
    have : l ≠ 0 := fun h0 => h (by rw [h0])
    exact Nat.lt_min.mpr ⟨Nat.pos_of_ne_zero this, hm⟩


/-! ### transaction-level forms of remove / create -/

theorem step_removePair_ok {cfg : Cfg} {s s₁ : St} {a b : Nat} {o : List Nat}
    (h : step cfg s (.removePair a b) = .ok (s₁, o)) :
    ∃ p, s.pairs.remove cfg [a, b] = .ok p ∧ s₁ = { s with pairs := p } := by
  have h' : (s.pairs.remove cfg [a, b] >>= fun p => (pure ({ s with pairs := p }, []) : Res (St × List Nat)))
      = .ok (s₁, o) := h
  obtain ⟨p, hp, h2⟩ := Res.bind_eq_ok.mp h'
  cases h2
  exact ⟨p, hp, rfl⟩

theorem step_createPair_isOk_iff {cfg : Cfg} {s : St} {a b : Nat} {pt : Option Nat} :
    (∃ s₂ o₂, step cfg s (.createPair a b pt) = .ok (s₂, o₂)) ↔
      ∃ p, s.pairs.create cfg (decsOf cfg s) [a, b] pt (pairInstOk pt) = .ok p := by
  have e : step cfg s (.createPair a b pt) =
      (s.pairs.create cfg (decsOf cfg s) [a, b] pt (pairInstOk pt) >>= fun p =>
        (pure ({ s with pairs := p }, []) : Res (St × List Nat))) := rfl
  rw [e]
  constructor
  · rintro ⟨s₂, o₂, h⟩
    obtain ⟨p, hp, _⟩ := Res.bind_eq_ok.mp h
    exact ⟨p, hp⟩
  · rintro ⟨p, hp⟩
    exact ⟨_, _, Res.bind_eq_ok.mpr ⟨p, hp, rfl⟩⟩

end WW.Factory
