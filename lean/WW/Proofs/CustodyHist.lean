/- C11: the custody equation through one transaction and through every history. -/
import WW.Proofs.Custody
namespace WW.Inc
open WW WW.Gen

/-- custody invariant: LP balance = staked + LP-asset flows' unclaimed funds + `K` (everything counted as
    stray so far, plus whatever the contract held at instantiation) -/
structure CInv (s : St) (ep : Nat) (K : Nat) : Prop where
  winv : WInv s
  finv : FInv s
  hist : HistLe s ep
  creators : CreatorsOk s
  bal : balOf s INC 0 = owed s 0 + K

theorem CInv.mono {s : St} {ep ep' K : Nat} (h : CInv s ep K) (hle : ep ≤ ep') : CInv s ep' K :=
  ⟨h.winv, h.finv, h.hist.mono hle, h.creators, h.bal⟩

theorem run_custody {c : Cfg} {s s1 : St} {e : Env} {msgs : List Msg} {b0 b b1 : Bal} {al : List (Nat × Nat)}
    {K stray : Nat}
    (hB : aget b0 (INC, 0) = owed s 0 + K)
    (hatt : aget b (INC, 0) = aget b0 (INC, 0) + att c 0 (fundsOf c e.offers))
    (hbal : s1.bal = b)
    (heq : owed s1 0 + outsOf INC 0 msgs + stray = owed s 0 + att c 0 (fundsOf c e.offers) + insOf INC 0 msgs)
    (hmsg : applyMsgs c s1.bal al msgs = .ok b1) : aget b1 (INC, 0) = owed s1 0 + (K + stray) := by
  have h1 := applyMsgs_eff INC 0 msgs _ _ _ hmsg
  rw [hbal] at h1
  omega

theorem helperDeposit_custody {c : Cfg} {s s' : St} {e : Env} {a0 a1 dur : Nat} {K : Nat}
    (hI : CInv s e.epoch K) (hs : e.sender ≠ INC) (h : helperDeposit c s e a0 a1 dur = .ok s') :
    CInv s' e.epoch K := by
  have hW := hI.winv
  have hF := hI.finv
  unfold helperDeposit at h
  dsimp only at h
  obtain ⟨_, _, h⟩ := bind_eq_ok h
  obtain ⟨b1, hb1, h⟩ := bind_eq_ok h
  obtain ⟨b2, hb2, h⟩ := bind_eq_ok h
  obtain ⟨_, _, h⟩ := bind_eq_ok h
  obtain ⟨lp, _, h⟩ := bind_eq_ok h
  obtain ⟨_, _, h⟩ := bind_eq_ok h
  obtain ⟨b3, hb3, h⟩ := bind_eq_ok h
  obtain ⟨b4, hb4, h⟩ := bind_eq_ok h
  obtain ⟨_, _, h⟩ := bind_eq_ok h
  obtain ⟨b5, hb5, h⟩ := bind_eq_ok h
  obtain ⟨⟨s3, msgs⟩, h3, h⟩ := bind_eq_ok h
  obtain ⟨b6, hb6, h⟩ := bind_eq_ok h
  injection h with h
  subst h
  generalize hlp : aget b4 (HELPER, 0) = lpAmt at *
  have e4 : aget b4 (INC, 0) = aget s.bal (INC, 0) := by
    have t1 := applyMsgs_eff INC 0 _ _ _ _ hb1
    rw [(io_pull_other hs helper_ne_inc 0 3 a1).1, (io_pull_other hs helper_ne_inc 0 3 a1).2] at t1
    have t2 := attachFunds_eff (x := HELPER) (y := PAIR) INC 0 _ _ _ hb2
    rw [if_neg (fun hh => helper_ne_inc hh.1), if_neg (fun hh => pair_ne_inc hh.1)] at t2
    have t3 := applyMsgs_eff INC 0 _ _ _ _ hb3
    rw [(io_pull_other helper_ne_inc pair_ne_inc 0 3 a1).1, (io_pull_other helper_ne_inc pair_ne_inc 0 3 a1).2] at t3
    have t4 := applyMsgs_eff INC 0 _ _ _ _ hb4
    rw [(io_send_other pair_ne_inc helper_ne_inc 0 0 lp).1, (io_send_other pair_ne_inc helper_ne_inc 0 0 lp).2] at t4
    omega
  let e2 : Env := { e with sender := HELPER, offers := [(0, lpAmt)] }
  have e5 : aget b5 (INC, 0) = aget s.bal (INC, 0) + att c 0 (fundsOf c e2.offers) := by
    rw [← e4]
    by_cases hn : c.native 0 = true
    · rw [if_pos hn] at hb5
      have t5 := attachFunds_eff (x := HELPER) (y := INC) INC 0 _ _ _ hb5
      rw [if_neg (fun hh => helper_ne_inc hh.1), if_pos ⟨rfl, helper_ne_inc⟩] at t5
      have : fundsOf c e2.offers = [(0, lpAmt)] := by simp [fundsOf, e2, hn]
      rw [this]; omega
    · rw [if_neg hn] at hb5
      injection hb5 with hb5
      have : fundsOf c e2.offers = [] := by simp [fundsOf, e2, hn]
      rw [this, hb5]; simp [att]
  have hs2 : e2.sender ≠ INC := helper_ne_inc
  have hn2 : (keysOf e2.offers).Nodup := by simp [keysOf, e2]
  have hW2 : WInv ({ s with bal := b5 } : St) := hW.with_bal b5
  have hF2 : FInv ({ s with bal := b5 } : St) := hF.with_bal b5
  have hH2 : HistLe ({ s with bal := b5 } : St) e2.epoch := hI.hist
  have hC2 : CreatorsOk ({ s with bal := b5 } : St) := hI.creators
  have hok : HandlerOk c ({ s with bal := b5 } : St) s3 e2 msgs ∧ CustodyOk c ({ s with bal := b5 } : St) s3 e2 msgs 0 := by
    split at h3
    · exact ⟨pos_handlerOk hF2 (expandPosition_delta hW2 h3), pos_custodyOk (expandPosition_delta hW2 h3)⟩
    · exact ⟨pos_handlerOk hF2 (openPosition_delta h3), pos_custodyOk (openPosition_delta h3)⟩
  obtain ⟨hok1, hok2⟩ := hok
  have hW3 : WInv s3 := by
    split at h3
    · exact expandPosition_WInv hW2 h3
    · exact openPosition_WInv hW2 h3
  have hfin := run_custody (s := s) (b0 := s.bal) (b := b5) (K := K) hI.bal e5 hok1.bal
    (hok2.eq0 hs2 hn2 hH2 hC2) hb6
  exact ⟨hW3.with_bal b6, hok1.finv.with_bal b6, hok2.hist hH2, hok2.creators hs2 hC2, hfin⟩

theorem step_custody {c : Cfg} {s s' : St} {e : Env} {op : Op} {K : Nat} (hI : CInv s e.epoch K)
    (hs : e.sender ≠ INC) (hn : (keysOf e.offers).Nodup) (h : step c s e op = .ok s') :
    CInv s' e.epoch (K + strayOf c e op) := by
  have hW3 := step_WInv hI.winv h
  unfold step at h
  split at h
  · obtain ⟨b, hb, h⟩ := bind_eq_ok h
    have hI2 : CInv ({ s with bal := b } : St) e.epoch K := by
      refine ⟨hI.winv.with_bal b, hI.finv.with_bal b, hI.hist, hI.creators, ?_⟩
      have t := attachFunds_eff (x := e.sender) (y := HELPER) INC 0 _ _ _ hb
      rw [if_neg (fun hh => hs hh.1), if_neg (fun hh => helper_ne_inc hh.1)] at t
      have := hI.bal
      unfold balOf at this ⊢
      show aget b (INC, 0) = owed s 0 + K
      omega
    exact helperDeposit_custody hI2 hs h
  · obtain ⟨b, hb, h⟩ := bind_eq_ok h
    obtain ⟨⟨s1, msgs⟩, h1, h⟩ := bind_eq_ok h
    obtain ⟨b1, hb1, h⟩ := bind_eq_ok h
    injection h with h
    subst h
    have hok1 := handler_ok (hI.winv.with_bal b) (hI.finv.with_bal b) h1
    have hok2 := handler_custody (hI.winv.with_bal b) (hI.finv.with_bal b) h1
    have hatt : aget b (INC, 0) = aget s.bal (INC, 0) + att c 0 (fundsOf c e.offers) := by
      have t := attachFunds_eff (x := e.sender) (y := INC) INC 0 _ _ _ hb
      rw [if_neg (fun hh => hs hh.1), if_pos ⟨rfl, hs⟩] at t
      omega
    have hH2 : HistLe ({ s with bal := b } : St) e.epoch := hI.hist
    have hC2 : CreatorsOk ({ s with bal := b } : St) := hI.creators
    have hfin := run_custody (s := s) (b0 := s.bal) (b := b) (K := K) hI.bal hatt hok1.bal
      (hok2.eq0 hs hn hH2 hC2) hb1
    exact ⟨hW3, hok1.finv.with_bal b1, hok2.hist hH2, hok2.creators hs hC2, hfin⟩

/-- epochs never go back along a history (the first one is at least `ep`) -/
def EpochsFrom : Nat → List (Env × Op) → Prop
  | _, [] => True
  | ep, p :: t => ep ≤ p.1.epoch ∧ EpochsFrom p.1.epoch t

/-- coins attached to a call have distinct denoms (and allowances distinct tokens) -/
def OffersOk (ops : List (Env × Op)) : Prop := ∀ p ∈ ops, (keysOf p.1.offers).Nodup

/-- LP-denom funds kept without being asked for, summed over the successful operations of a history -/
def keptLp (c : Cfg) : St → List (Env × Op) → Nat
  | _, [] => 0
  | s, p :: t =>
    (match step c s p.1 p.2 with
      | .ok _ => strayOf c p.1 p.2
      | _ => 0) + keptLp c (stepOrStay c s p.1 p.2) t

theorem reach_custody {c : Cfg} :
    ∀ (ops : List (Env × Op)) (s : St) (ep K : Nat), CInv s ep K → SendersOk ops → OffersOk ops →
      EpochsFrom ep ops → ∃ ep', CInv (reach c s ops) ep' (K + keptLp c s ops) := by
  intro ops
  induction ops with
  | nil => intro s ep K hI _ _ _; exact ⟨ep, hI⟩
  | cons p t ih =>
    intro s ep K hI hso hof hep
    obtain ⟨e, op⟩ := p
    have hs : e.sender ≠ INC := hso (e, op) List.mem_cons_self
    have hn : (keysOf e.offers).Nodup := hof (e, op) List.mem_cons_self
    have hso' : SendersOk t := fun q hq => hso q (List.mem_cons_of_mem _ hq)
    have hof' : OffersOk t := fun q hq => hof q (List.mem_cons_of_mem _ hq)
    obtain ⟨hle, hep'⟩ := hep
    simp only at hle hep'
    have hI' := hI.mono hle
    show ∃ ep', CInv (reach c (stepOrStay c s e op) t) ep' (K + keptLp c s ((e, op) :: t))
    unfold keptLp stepOrStay
    simp only
    cases hstep : step c s e op with
    | ok s' =>
      simp only
      have := ih s' e.epoch _ (step_custody hI' hs hn hstep) hso' hof' hep'
      rw [Nat.add_assoc] at this
      exact this
    | err =>
      simp only
      have := ih s e.epoch K hI' hso' hof' hep'
      rw [Nat.zero_add]; exact this
    | panic =>
      simp only
      have := ih s e.epoch K hI' hso' hof' hep'
      rw [Nat.zero_add]; exact this

theorem init_CInv (e0 : Nat) (bal : Bal) : CInv (init e0 bal) e0 (balOf (init e0 bal) INC 0) := by
  refine ⟨init_WInv e0 bal, init_FInv e0 bal, ?_, ?_, ?_⟩
  · intro f hf; cases hf
  · intro f hf; cases hf
  · have : owed (init e0 bal) 0 = 0 := by
      unfold owed init staked
      simp [ffSum, sumBy]
    rw [this]; omega

end WW.Inc
