/- Helper lemmas for C08 (whale_lair model): storage-map sums, inversion of the successful
   operations, and the invariants preserved by every step. -/
import WW.Model.Lair
import WW.Proofs.Basic
set_option linter.unusedSimpArgs false
set_option linter.unnecessarySeqFocus false
set_option linter.unusedVariables false
namespace WW.Lair
open WW

/-! ### `Res` inversion -/

theorem bind_eq_ok {α β : Type} {x : Res α} {f : α → Res β} {b : β}
    (h : (x >>= f) = .ok b) : ∃ a, x = .ok a ∧ f a = .ok b := by
  cases x with
  | ok a => exact ⟨a, rfl, h⟩
  | err => cases h
  | panic => cases h

theorem cadd_inv {max a b c : Nat} (h : cadd max a b = .ok c) : c = a + b ∧ a + b ≤ max := by
  unfold cadd at h
  split at h
  · cases h; exact ⟨rfl, by assumption⟩
  · cases h

theorem csub_inv {a b c : Nat} (h : csub a b = .ok c) : c = a - b ∧ b ≤ a := by
  unfold csub at h
  split at h
  · cases h; exact ⟨rfl, by assumption⟩
  · cases h

theorem padd_inv {max a b c : Nat} (h : padd max a b = .ok c) : c = a + b ∧ a + b ≤ max := by
  unfold padd at h
  split at h
  · cases h; exact ⟨rfl, by assumption⟩
  · cases h

/-! ### BOND map -/

theorem getBond_some {a d : Nat} {l : List BondRec} {b : BondRec} (h : getBond a d l = some b) :
    b.addr = a ∧ b.denom = d := by
  induction l with
  | nil => cases h
  | cons r t ih =>
    unfold getBond at h
    split at h
    · cases h; assumption
    · exact ih h

theorem sumBond_upd (n : BondRec) (d : Nat) (l : List BondRec) :
    sumBond d (updBond n l) + (if n.denom = d then bondedOf n.addr n.denom l else 0)
      = sumBond d l + (if n.denom = d then n.amount else 0) := by
  induction l with
  | nil => simp [updBond, sumBond, bondedOf, getBond]
  | cons r t ih =>
    by_cases hk : r.addr = n.addr ∧ r.denom = n.denom
    · simp only [updBond, hk, and_self, if_true, sumBond, bondedOf, getBond]
      obtain ⟨_, h2⟩ := hk
      by_cases hd : n.denom = d <;> simp [hd, h2] <;> omega
    · have hb : bondedOf n.addr n.denom (r :: t) = bondedOf n.addr n.denom t := by
        simp only [bondedOf, getBond, hk, if_false]
      simp only [updBond, hk, if_false, sumBond, hb]
      omega

theorem sumBondAll_upd (n : BondRec) (l : List BondRec) :
    sumBondAll (updBond n l) + bondedOf n.addr n.denom l = sumBondAll l + n.amount := by
  induction l with
  | nil => simp [updBond, sumBondAll, bondedOf, getBond]
  | cons r t ih =>
    by_cases hk : r.addr = n.addr ∧ r.denom = n.denom
    · simp only [updBond, hk, and_self, if_true, sumBondAll, bondedOf, getBond]
      omega
    · have hb : bondedOf n.addr n.denom (r :: t) = bondedOf n.addr n.denom t := by
        simp only [bondedOf, getBond, hk, if_false]
      simp only [updBond, hk, if_false, sumBondAll, hb]
      omega

theorem sumBondOf_upd (n : BondRec) (a d : Nat) (l : List BondRec) :
    sumBondOf a d (updBond n l) + (if n.addr = a ∧ n.denom = d then bondedOf n.addr n.denom l else 0)
      = sumBondOf a d l + (if n.addr = a ∧ n.denom = d then n.amount else 0) := by
  induction l with
  | nil => simp [updBond, sumBondOf, bondedOf, getBond]
  | cons r t ih =>
    by_cases hk : r.addr = n.addr ∧ r.denom = n.denom
    · simp only [updBond, hk, and_self, if_true, sumBondOf, bondedOf, getBond]
      obtain ⟨h1, h2⟩ := hk
      by_cases hd : n.addr = a ∧ n.denom = d <;> simp [hd, h1, h2] <;> omega
    · have hb : bondedOf n.addr n.denom (r :: t) = bondedOf n.addr n.denom t := by
        simp only [bondedOf, getBond, hk, if_false]
      simp only [updBond, hk, if_false, sumBondOf, hb]
      omega

theorem sumBond_del (a e d : Nat) (l : List BondRec) :
    sumBond d (delBond a e l) + (if e = d then bondedOf a e l else 0) = sumBond d l := by
  induction l with
  | nil => simp [delBond, sumBond, bondedOf, getBond]
  | cons r t ih =>
    by_cases hk : r.addr = a ∧ r.denom = e
    · simp only [delBond, hk, and_self, if_true, sumBond, bondedOf, getBond]
      obtain ⟨_, h2⟩ := hk
      by_cases hd : e = d <;> simp [hd, h2] <;> omega
    · have hb : bondedOf a e (r :: t) = bondedOf a e t := by
        simp only [bondedOf, getBond, hk, if_false]
      simp only [delBond, hk, if_false, sumBond, hb]
      omega

theorem sumBondAll_del (a e : Nat) (l : List BondRec) :
    sumBondAll (delBond a e l) + bondedOf a e l = sumBondAll l := by
  induction l with
  | nil => simp [delBond, sumBondAll, bondedOf, getBond]
  | cons r t ih =>
    by_cases hk : r.addr = a ∧ r.denom = e
    · simp only [delBond, hk, and_self, if_true, sumBondAll, bondedOf, getBond]
      omega
    · have hb : bondedOf a e (r :: t) = bondedOf a e t := by
        simp only [bondedOf, getBond, hk, if_false]
      simp only [delBond, hk, if_false, sumBondAll, hb]
      omega

theorem sumBondOf_del (a e a' d : Nat) (l : List BondRec) :
    sumBondOf a' d (delBond a e l) + (if a = a' ∧ e = d then bondedOf a e l else 0) = sumBondOf a' d l := by
  induction l with
  | nil => simp [delBond, sumBondOf, bondedOf, getBond]
  | cons r t ih =>
    by_cases hk : r.addr = a ∧ r.denom = e
    · simp only [delBond, hk, and_self, if_true, sumBondOf, bondedOf, getBond]
      obtain ⟨h1, h2⟩ := hk
      by_cases hd : a = a' ∧ e = d <;> simp [hd, h1, h2] <;> omega
    · have hb : bondedOf a e (r :: t) = bondedOf a e t := by
        simp only [bondedOf, getBond, hk, if_false]
      simp only [delBond, hk, if_false, sumBondOf, hb]
      omega

/-! ### bonded_assets vector -/

theorem aggAsset_amt {d x : Nat} {l l' : List (Nat × Nat)} (h : aggAsset d x l = .ok l') (d' : Nat) :
    assetAmt d' l' = assetAmt d' l + (if d' = d then x else 0) := by
  induction l generalizing l' with
  | nil =>
    simp only [aggAsset] at h
    cases h
    by_cases hd : d = d' <;> simp [assetAmt, hd, eq_comm]
  | cons p t ih =>
    obtain ⟨e, y⟩ := p
    unfold aggAsset at h
    split at h
    · rename_i he
      split at h
      · rename_i z hz
        cases h
        obtain ⟨hz1, _⟩ := cadd_inv hz
        subst he
        by_cases hd : e = d' <;> simp [assetAmt, hd, hz1, eq_comm]
        · intro h; exact absurd h.symm hd
      · cases h
      · cases h
    · rename_i he
      split at h
      · rename_i t' ht
        cases h
        have := ih ht
        by_cases hd : e = d' <;> simp [assetAmt, hd, this]
        · intro h; subst hd; exact absurd h he
      · cases h
      · cases h

theorem dedAsset_amt {d x : Nat} {l l' : List (Nat × Nat)} (h : dedAsset d x l = .ok l') (d' : Nat) :
    assetAmt d' l' + (if d' = d then x else 0) = assetAmt d' l := by
  induction l generalizing l' with
  | nil => simp only [dedAsset] at h; cases h
  | cons p t ih =>
    obtain ⟨e, y⟩ := p
    unfold dedAsset at h
    split at h
    · rename_i he
      split at h
      · rename_i z hz
        cases h
        obtain ⟨hz1, hz2⟩ := csub_inv hz
        subst he
        by_cases hd : e = d' <;> simp [assetAmt, hd, hz1, eq_comm]
        · omega
        · intro h; exact absurd h.symm hd
      · cases h
      · cases h
    · rename_i he
      split at h
      · rename_i t' ht
        cases h
        have := ih ht
        by_cases hd : e = d' <;> simp [assetAmt, hd, this]
        · intro h; subst hd; exact absurd h he
      · cases h
      · cases h

/-! ### inversion of the successful operations -/

theorem bond_inv {cfg : Cfg} {s : St} {e : Env} {asset : AssetRef} {x : Nat} {funds : List (Nat × Nat)} {s' : St}
    (h : bond cfg s e asset x funds = .ok s') :
    ∃ d nb ng, asset = .native d ∧ funds = [(d, x)] ∧ x ≠ 0 ∧ x ≤ s.ubal e.sender d ∧
      cfg.whitelist.contains d = true ∧ e.guardsOk = true ∧
      bondLocal s e d x = .ok nb ∧ bondGlobal s e d x = .ok ng ∧ s.bal d + x ≤ U128MAX ∧
      s' = { s with
        bonds := updBond nb s.bonds
        global := ng
        gset := true
        bal := fun d' => if d' = d then s.bal d + x else s.bal d'
        ubal := fun a' d' => if a' = e.sender ∧ d' = d then s.ubal e.sender d - x else s.ubal a' d' } := by
  unfold bond at h
  split at h
  next fd fa =>
    split at h
    · cases h
    split at h
    · cases h
    split at h
    · cases h
    next d =>
      split at h
      · cases h
      split at h
      · cases h
      split at h
      · cases h
      split at h
      · cases h
      · cases h
      next nb hnb =>
        split at h
        · cases h
        · cases h
        next ng hng =>
          split at h
          · cases h
          · cases h
          next nbal hbal =>
            rename_i h3 h2 _ h1 hfd h0 _ _ _
            obtain ⟨hb1, hb2⟩ := padd_inv hbal
            simp only [not_or, ne_eq, not_not, Bool.not_eq_true] at h1 h0
            obtain ⟨rfl, rfl, hw⟩ := h1
            subst hb1
            cases h
            exact ⟨fd, nb, ng, rfl, rfl, h3, by omega, by simpa using hw, by simpa using h0, hnb, hng, hb2, rfl⟩
  · cases h

theorem unbond_inv {s : St} {e : Env} {asset : AssetRef} {x : Nat} {s' : St}
    (h : unbond s e asset x = .ok s') :
    ∃ d b nb slash nu ng, asset = .native d ∧ x ≠ 0 ∧ e.guardsOk = true ∧
      getBond e.sender d s.bonds = some b ∧ x ≤ b.amount ∧
      unbondLocal s e b x = .ok (nb, slash) ∧ addUnb e.sender d e.now x s.unbonds = .ok nu ∧
      unbondGlobal s e d x slash = .ok ng ∧
      s' = { s with
        bonds := if nb.amount = 0 then delBond e.sender d s.bonds else updBond nb s.bonds
        unbonds := nu
        global := ng
        gset := true } := by
  unfold unbond at h
  split at h
  · cases h
  split at h
  · cases h
  next d =>
    split at h
    · cases h
    split at h
    · cases h
    split at h
    · cases h
    next b hb =>
      split at h
      · cases h
      split at h
      · cases h
      · cases h
      next nb slash hl =>
        split at h
        · cases h
        · cases h
        next nu hu =>
          split at h
          · cases h
          · cases h
          next ng hg =>
            rename_i h3 _ hfd h2 _ h1 _ _ _
            cases h
            exact ⟨d, b, nb, slash, nu, ng, rfl, h3, by simpa using h2, hb, by omega, hl, hu, hg, rfl⟩

theorem withdraw_inv {s : St} {e : Env} {d : Nat} {s' : St}
    (h : withdraw s e d = .ok s') :
    (s.unbonds.filter (mine e.sender d)).isEmpty = false ∧ s.period ≤ e.now ∧
    0 < sumAmt (s.unbonds.filter (matured e.sender d e.now s.period s.unbonds)) ∧
    sumAmt (s.unbonds.filter (matured e.sender d e.now s.period s.unbonds)) ≤ s.bal d ∧
    s.ubal e.sender d + sumAmt (s.unbonds.filter (matured e.sender d e.now s.period s.unbonds)) ≤ U128MAX ∧
    s' = { s with
      unbonds := s.unbonds.filter fun r => !matured e.sender d e.now s.period s.unbonds r
      bal := fun d' => if d' = d then
        s.bal d - sumAmt (s.unbonds.filter (matured e.sender d e.now s.period s.unbonds)) else s.bal d'
      ubal := fun a' d' => if a' = e.sender ∧ d' = d then
        s.ubal e.sender d + sumAmt (s.unbonds.filter (matured e.sender d e.now s.period s.unbonds))
        else s.ubal a' d' } := by
  unfold withdraw at h
  simp only at h
  split at h
  · cases h
  split at h
  · cases h
  split at h
  · cases h
  split at h
  · cases h
  split at h
  · cases h
  split at h
  · cases h
  · cases h
  next nub hn =>
    rename_i h5 h4 h3 h2 h1 _
    obtain ⟨hn1, hn2⟩ := padd_inv hn
    subst hn1
    cases h
    exact ⟨by simpa using h5, by omega, by omega, by omega, hn2, rfl⟩

theorem config_inv {cfg : Cfg} {s : St} {e : Env} {p r : Option Nat} {s' : St}
    (h : config cfg s e p r = .ok s') :
    e.sender = cfg.owner ∧ ∃ p' r', s' = { s with period := p', rate := r' } := by
  unfold config at h
  split at h
  · cases h
  rename_i h1
  simp only at h
  split at h
  · split at h
    · cases h
    · cases h; exact ⟨by simpa using h1, _, _, rfl⟩
  · cases h; exact ⟨by simpa using h1, _, _, rfl⟩


theorem bondLocal_inv {s : St} {e : Env} {d x : Nat} {nb : BondRec} (h : bondLocal s e d x = .ok nb) :
    nb.addr = e.sender ∧ nb.denom = d ∧ nb.amount = bondedOf e.sender d s.bonds + x := by
  unfold bondLocal at h
  simp only at h
  obtain ⟨amt, h1, h⟩ := bind_eq_ok h
  obtain ⟨w, h2, h⟩ := bind_eq_ok h
  obtain ⟨w', h3, h⟩ := bind_eq_ok h
  cases h
  obtain ⟨ha, _⟩ := cadd_inv h1
  refine ⟨rfl, rfl, ?_⟩
  simp only [ha, bondedOf]
  split <;> simp_all

theorem bondGlobal_inv {s : St} {e : Env} {d x : Nat} {ng : Global} (h : bondGlobal s e d x = .ok ng) :
    ng.bonded = s.global.bonded + x ∧ aggAsset d x s.global.assets = .ok ng.assets := by
  unfold bondGlobal at h
  simp only at h
  obtain ⟨w, h1, h⟩ := bind_eq_ok h
  obtain ⟨b, h2, h⟩ := bind_eq_ok h
  obtain ⟨as, h3, h⟩ := bind_eq_ok h
  obtain ⟨w', h4, h⟩ := bind_eq_ok h
  cases h
  obtain ⟨hb, _⟩ := cadd_inv h2
  exact ⟨hb, h3⟩

theorem unbondLocal_inv {s : St} {e : Env} {b nb : BondRec} {x slash : Nat}
    (h : unbondLocal s e b x = .ok (nb, slash)) :
    nb.addr = b.addr ∧ nb.denom = b.denom ∧ nb.amount = b.amount - x := by
  unfold unbondLocal at h
  obtain ⟨w, h1, h⟩ := bind_eq_ok h
  obtain ⟨ratio, h2, h⟩ := bind_eq_ok h
  obtain ⟨sl, h3, h⟩ := bind_eq_ok h
  obtain ⟨w', h4, h⟩ := bind_eq_ok h
  obtain ⟨amt, h5, h⟩ := bind_eq_ok h
  cases h
  obtain ⟨ha, _⟩ := csub_inv h5
  exact ⟨rfl, rfl, ha⟩

theorem unbondGlobal_inv {s : St} {e : Env} {d x slash : Nat} {ng : Global}
    (h : unbondGlobal s e d x slash = .ok ng) :
    ng.bonded = s.global.bonded - x ∧ x ≤ s.global.bonded ∧ dedAsset d x s.global.assets = .ok ng.assets := by
  unfold unbondGlobal at h
  simp only at h
  obtain ⟨w, h1, h⟩ := bind_eq_ok h
  obtain ⟨b, h2, h⟩ := bind_eq_ok h
  obtain ⟨as, h3, h⟩ := bind_eq_ok h
  obtain ⟨w', h4, h⟩ := bind_eq_ok h
  cases h
  obtain ⟨hb, hb2⟩ := csub_inv h2
  exact ⟨hb, hb2, h3⟩

/-! ### UNBOND map -/

/-- Σ of the amounts of the records selected by `p` -/
def sumIf (p : UnbRec → Bool) : List UnbRec → Nat
  | [] => 0
  | r :: t => (if p r then r.amount else 0) + sumIf p t

/-- `p` looks at the key of a record only -/
def KeyOnly (p : UnbRec → Bool) : Prop :=
  ∀ r r' : UnbRec, r.addr = r'.addr → r.denom = r'.denom → r.ts = r'.ts → p r = p r'

theorem sumUnb_eq (d : Nat) (l : List UnbRec) : sumUnb d l = sumIf (fun r => decide (r.denom = d)) l := by
  induction l with
  | nil => rfl
  | cons r t ih => simp [sumUnb, sumIf, ih]

theorem sumUnbOf_eq (a d : Nat) (l : List UnbRec) :
    sumUnbOf a d l = sumIf (fun r => decide (r.addr = a ∧ r.denom = d)) l := by
  induction l with
  | nil => rfl
  | cons r t ih => simp [sumUnbOf, sumIf, ih]

theorem recAmt_eq (a d ts : Nat) (l : List UnbRec) :
    recAmt a d ts l = sumIf (fun r => decide (r.addr = a ∧ r.denom = d ∧ r.ts = ts)) l := by
  induction l with
  | nil => rfl
  | cons r t ih => simp [recAmt, sumIf, ih]

theorem sumAmt_eq (l : List UnbRec) : sumAmt l = sumIf (fun _ => true) l := by
  induction l with
  | nil => rfl
  | cons r t ih => simp [sumAmt, sumIf, ih]

theorem addUnb_sumIf {a d ts x : Nat} {l l' : List UnbRec} (p : UnbRec → Bool) (hp : KeyOnly p)
    (h : addUnb a d ts x l = .ok l') :
    sumIf p l' = sumIf p l + (if p ⟨a, d, ts, x⟩ then x else 0) := by
  induction l generalizing l' with
  | nil => simp only [addUnb] at h; cases h; simp [sumIf]
  | cons r t ih =>
    unfold addUnb at h
    split at h
    · rename_i hk
      obtain ⟨k1, k2, k3⟩ := hk
      split at h
      · rename_i y hy
        cases h
        obtain ⟨hy1, _⟩ := cadd_inv hy
        have e1 : p { r with amount := y } = p r := hp _ _ rfl rfl rfl
        have e2 : p ⟨a, d, ts, x⟩ = p r := hp _ _ k1.symm k2.symm k3.symm
        simp only [sumIf, e1, e2]
        split <;> omega
      · cases h
      · cases h
    · split at h
      · rename_i t' ht
        cases h
        simp only [sumIf, ih ht]
        omega
      · cases h
      · cases h

theorem sumIf_filter (p q : UnbRec → Bool) (l : List UnbRec) :
    sumIf p (l.filter q) + sumIf p (l.filter fun r => !q r) = sumIf p l := by
  induction l with
  | nil => rfl
  | cons r t ih =>
    by_cases hq : q r = true
    · simp only [List.filter_cons, hq, if_true, Bool.not_true, sumIf]
      simp only [Bool.false_eq_true, if_false]
      omega
    · simp only [Bool.not_eq_true] at hq
      simp only [List.filter_cons, hq, Bool.false_eq_true, if_false, Bool.not_false, if_true, sumIf]
      omega

theorem sumIf_filter_all (p q : UnbRec → Bool) (l : List UnbRec) (hpq : ∀ r, q r = true → p r = true) :
    sumIf p (l.filter q) = sumAmt (l.filter q) := by
  induction l with
  | nil => rfl
  | cons r t ih =>
    by_cases hq : q r = true
    · simp only [List.filter_cons, hq, if_true, sumIf, sumAmt, hpq r hq, ih]
    · simp only [List.filter_cons, hq, if_false]
      exact ih

theorem sumIf_filter_none (p q : UnbRec → Bool) (l : List UnbRec) (hpq : ∀ r, q r = true → p r = false) :
    sumIf p (l.filter q) = 0 := by
  induction l with
  | nil => rfl
  | cons r t ih =>
    by_cases hq : q r = true
    · simp only [List.filter_cons, hq, if_true, sumIf, hpq r hq, ih]
      simp
    · simp only [List.filter_cons, hq, if_false]
      exact ih



theorem setFd_inv {cfg : Cfg} {s : St} {e : Env} {s' : St} (h : setFd cfg s e = .ok s') :
    e.sender = cfg.owner ∧ s' = { s with fdSet := true } := by
  unfold setFd at h
  split at h
  · cases h
  · rename_i h1; cases h; exact ⟨by simpa using h1, rfl⟩

theorem migrate_inv {cfg : Cfg} {s : St} {e : Env} {stored crate : Ver} {l : Bool} {s' : St}
    (h : migrate cfg s e stored crate l = .ok s') :
    e.sender = cfg.admin ∧ stored.lt crate = true ∧
    ((stored.lt V090 = true ∧ l = true ∧ s' = { s with fdSet := false }) ∨ (stored.lt V090 = false ∧ s' = s)) := by
  unfold migrate at h
  split at h
  · cases h
  rename_i h1
  split at h
  · cases h
  rename_i h2
  split at h
  · rename_i h3
    split at h
    · rename_i h4; cases h
      exact ⟨by simpa using h1, by simpa using h2, Or.inl ⟨h3, h4, rfl⟩⟩
    · cases h
  · rename_i h3; cases h
    exact ⟨by simpa using h1, by simpa using h2, Or.inr ⟨by simpa using h3, rfl⟩⟩

/-! ### coins received without a bond -/

theorem sumStray_append (d : Nat) (l l' : List StrayRec) :
    sumStray d (l ++ l') = sumStray d l + sumStray d l' := by
  induction l with
  | nil => simp [sumStray]
  | cons r t ih => simp only [List.cons_append, sumStray, ih]; omega

theorem sumStrayOf_append (a d : Nat) (l l' : List StrayRec) :
    sumStrayOf a d (l ++ l') = sumStrayOf a d l + sumStrayOf a d l' := by
  induction l with
  | nil => simp [sumStrayOf]
  | cons r t ih => simp only [List.cons_append, sumStrayOf, ih]; omega

theorem coinsAmt_filter_nz (d : Nat) (l : List (Nat × Nat)) :
    coinsAmt d (l.filter fun c => c.2 != 0) = coinsAmt d l := by
  induction l with
  | nil => rfl
  | cons c t ih =>
    obtain ⟨e, x⟩ := c
    by_cases hx : x = 0
    · subst hx; simp [List.filter_cons, coinsAmt, ih]
    · have hnz : ((e, x).2 != 0) = true := by simp [hx]
      simp only [List.filter_cons, hnz, if_true, coinsAmt, ih]

/-- `s1` is `s` after the bank has moved `amt d` of every denom `d` from `a` to the contract and entered
    it into the stray ledger; nothing else differs -/
structure Recv (s : St) (a : Nat) (amt : Nat → Nat) (s1 : St) : Prop where
  period : s1.period = s.period
  rate : s1.rate = s.rate
  bonds : s1.bonds = s.bonds
  unbonds : s1.unbonds = s.unbonds
  global : s1.global = s.global
  gset : s1.gset = s.gset
  fdSet : s1.fdSet = s.fdSet
  bal : ∀ d, s1.bal d = s.bal d + amt d
  ubal : ∀ a' d, s1.ubal a' d + (if a' = a then amt d else 0) = s.ubal a' d
  strays : ∃ l, s1.strays = l ++ s.strays ∧ (∀ d, sumStray d l = amt d) ∧
    (∀ a' d, sumStrayOf a' d l = if a' = a then amt d else 0)

theorem recv_refl (s : St) (a : Nat) : Recv s a (fun _ => 0) s :=
  ⟨rfl, rfl, rfl, rfl, rfl, rfl, rfl, fun _ => rfl, fun a' d => by simp,
    ⟨[], rfl, fun _ => rfl, fun a' d => by simp [sumStrayOf]⟩⟩

theorem receive1_inv {s s1 : St} {a d x : Nat} (h : receive1 s a d x = .ok s1) :
    x ≤ s.ubal a d ∧ s.bal d + x ≤ U128MAX ∧
    s1 = { s with
      bal := fun d' => if d' = d then s.bal d + x else s.bal d'
      ubal := fun a' d' => if a' = a ∧ d' = d then s.ubal a d - x else s.ubal a' d'
      strays := ⟨a, d, x⟩ :: s.strays } := by
  unfold receive1 at h
  split at h
  · cases h
  rename_i h1
  split at h
  · cases h
  · cases h
  next nbal hb =>
    obtain ⟨hb1, hb2⟩ := padd_inv hb
    subst hb1; cases h
    exact ⟨by omega, hb2, rfl⟩

theorem receiveAll_recv {a : Nat} : ∀ (coins : List (Nat × Nat)) {s s1 : St},
    receiveAll s a coins = .ok s1 → Recv s a (fun d => coinsAmt d coins) s1
  | [], s, s1, h => by
    simp only [receiveAll] at h; cases h
    exact recv_refl s a
  | (d, x) :: t, s, s1, h => by
    simp only [receiveAll] at h
    split at h
    · rename_i s0 h0
      obtain ⟨hx, hmax, rfl⟩ := receive1_inv h0
      have r := receiveAll_recv t h
      obtain ⟨l, hl, hl1, hl2⟩ := r.strays
      refine ⟨r.period, r.rate, r.bonds, r.unbonds, r.global, r.gset, r.fdSet, fun d' => ?_, fun a' d' => ?_,
        ⟨l ++ [⟨a, d, x⟩], by rw [hl]; simp, fun d' => ?_, fun a' d' => ?_⟩⟩
      · have := r.bal d'
        simp only [coinsAmt] at this ⊢
        by_cases hd : d' = d
        · subst hd; simp only [if_true] at this ⊢; omega
        · have hd' : ¬ d = d' := fun h => hd h.symm
          simp only [hd, hd', if_false] at this ⊢; omega
      · have := r.ubal a' d'
        simp only [coinsAmt] at this ⊢
        by_cases ha : a' = a
        · subst ha
          by_cases hd : d' = d
          · subst hd; simp only [and_self, if_true] at this ⊢; omega
          · have hd' : ¬ d = d' := fun h => hd h.symm
            simp only [hd, hd', and_false, if_false, if_true] at this ⊢; omega
        · simp only [ha, false_and, if_false] at this ⊢; omega
      · rw [sumStray_append, hl1]
        simp only [sumStray, coinsAmt]
        by_cases hd : d = d' <;> simp [hd] <;> omega
      · rw [sumStrayOf_append, hl2]
        simp only [sumStrayOf, coinsAmt]
        by_cases ha : a' = a
        · subst ha
          by_cases hd : d = d' <;> simp [hd] <;> omega
        · have ha' : ¬ a = a' := fun h => ha h.symm
          simp [ha, ha']
    · cases h
    · cases h

theorem receive_recv {s s1 : St} {a : Nat} {coins : List (Nat × Nat)} (h : receive s a coins = .ok s1) :
    Recv s a (fun d => coinsAmt d coins) s1 := by
  unfold receive at h
  split at h
  · rename_i he
    cases h
    have : coins = [] := by simpa using he
    subst this
    exact recv_refl s a
  · simp only at h
    split at h
    · cases h
    · have r := receiveAll_recv _ h
      have e : (fun d => coinsAmt d (coins.filter fun c => c.2 != 0)) = (fun d => coinsAmt d coins) :=
        funext fun d => coinsAmt_filter_nz d coins
      rw [e] at r
      exact r

theorem withCoins_ok {s s' : St} {a : Nat} {coins : List (Nat × Nat)} {k : St → Res St}
    (h : withCoins s a coins k = .ok s') : ∃ s1, receive s a coins = .ok s1 ∧ k s1 = .ok s' := by
  unfold withCoins at h
  split at h
  · rename_i s1 h1; exact ⟨s1, h1, h⟩
  · cases h
  · cases h

/-- the coins an operation carries to the contract without bonding them -/
def attached : Op → List (Nat × Nat)
  | .bond _ _ _ => []
  | .unbond _ _ c => c
  | .withdraw _ c => c
  | .config _ _ c => c
  | .setFd => []
  | .send c => c
  | .migrate _ _ _ => []

/-! ### the ledger invariant -/

/-- contract balance = reported bonded + pending unbondings + stray coins (per denom); reported bonded
    per denom = Σ users' bonds; global bonded amount = Σ all bonds -/
structure Inv (s : St) : Prop where
  bal_eq : ∀ d, s.bal d = assetAmt d s.global.assets + sumUnb d s.unbonds + sumStray d s.strays
  asset_eq : ∀ d, assetAmt d s.global.assets = sumBond d s.bonds
  bonded_eq : s.global.bonded = sumBondAll s.bonds

theorem bondedOf_of_get {a d : Nat} {l : List BondRec} {b : BondRec} (h : getBond a d l = some b) :
    bondedOf a d l = b.amount := by
  simp [bondedOf, h]

theorem keyOnly_denom (d : Nat) : KeyOnly (fun r => decide (r.denom = d)) := by
  intro r r' _ h2 _; simp [h2]
theorem keyOnly_of (a d : Nat) : KeyOnly (fun r => decide (r.addr = a ∧ r.denom = d)) := by
  intro r r' h1 h2 _; simp [h1, h2]
theorem keyOnly_rec (a d ts : Nat) : KeyOnly (fun r => decide (r.addr = a ∧ r.denom = d ∧ r.ts = ts)) := by
  intro r r' h1 h2 h3; simp [h1, h2, h3]

theorem matured_mine {a d now period : Nat} {l : List UnbRec} {r : UnbRec}
    (h : matured a d now period l r = true) : r.addr = a ∧ r.denom = d ∧ r.ts ≤ now - period := by
  simp only [matured, mine, Bool.and_eq_true, decide_eq_true_eq] at h
  exact ⟨h.1.1.1, h.1.1.2, h.2⟩

/-- the pending sum of denom `d'` splits into what a withdrawal of `(a, d)` pays and what it keeps -/
theorem sumUnb_withdraw (a d now period d' : Nat) (l : List UnbRec) :
    sumUnb d' (l.filter fun r => !matured a d now period l r)
      + (if d' = d then sumAmt (l.filter (matured a d now period l)) else 0) = sumUnb d' l := by
  have h := sumIf_filter (fun r => decide (r.denom = d')) (matured a d now period l) l
  rw [sumUnb_eq, sumUnb_eq]
  by_cases hd : d' = d
  · subst hd
    rw [sumIf_filter_all _ _ _ (fun r hr => by simp [(matured_mine hr).2.1])] at h
    simp only [if_true]; omega
  · rw [sumIf_filter_none _ _ _ (fun r hr => by
      have := (matured_mine hr).2.1
      simp only [decide_eq_false_iff_not]; intro h'; exact hd (h'.symm.trans this))] at h
    simp only [hd, if_false]; omega

theorem sumUnbOf_withdraw (a d now period a' d' : Nat) (l : List UnbRec) :
    sumUnbOf a' d' (l.filter fun r => !matured a d now period l r)
      + (if a' = a ∧ d' = d then sumAmt (l.filter (matured a d now period l)) else 0) = sumUnbOf a' d' l := by
  have h := sumIf_filter (fun r => decide (r.addr = a' ∧ r.denom = d')) (matured a d now period l) l
  rw [sumUnbOf_eq, sumUnbOf_eq]
  by_cases hd : a' = a ∧ d' = d
  · obtain ⟨rfl, rfl⟩ := hd
    rw [sumIf_filter_all _ _ _ (fun r hr => by simp [(matured_mine hr).2.1, (matured_mine hr).1])] at h
    simp only [and_self, if_true]; omega
  · rw [sumIf_filter_none _ _ _ (fun r hr => by
      have h1 := (matured_mine hr).1
      have h2 := (matured_mine hr).2.1
      simp only [decide_eq_false_iff_not]; intro h'; exact hd ⟨h'.1.symm.trans h1, h'.2.symm.trans h2⟩)] at h
    simp only [hd, if_false]; omega

theorem inv_bond {cfg : Cfg} {s s' : St} {e : Env} {asset : AssetRef} {x : Nat} {funds : List (Nat × Nat)}
    (hI : Inv s) (h : bond cfg s e asset x funds = .ok s') : Inv s' := by
  obtain ⟨d, nb, ng, -, -, -, -, -, -, hl, hg, -, rfl⟩ := bond_inv h
  obtain ⟨na, nd, nam⟩ := bondLocal_inv hl
  obtain ⟨gb, ga⟩ := bondGlobal_inv hg
  refine ⟨fun d' => ?_, fun d' => ?_, ?_⟩
  · have h1 := aggAsset_amt ga d'
    have h2 := hI.bal_eq d'
    simp only
    by_cases hd : d' = d
    · subst hd; simp only [if_true] at h1 ⊢; omega
    · simp only [hd, if_false] at h1 ⊢; omega
  · have h1 := aggAsset_amt ga d'
    have h2 := hI.asset_eq d'
    have h3 := sumBond_upd nb d' s.bonds
    simp only
    rw [na, nd, nam] at h3
    by_cases hd : d' = d
    · subst hd; simp only [if_true] at h1 h3; omega
    · have hd' : ¬ d = d' := fun h => hd h.symm
      simp only [hd, hd', if_false] at h1 h3; omega
  · have h3 := sumBondAll_upd nb s.bonds
    have h2 := hI.bonded_eq
    simp only
    rw [na, nd, nam] at h3
    omega

theorem inv_unbond {s s' : St} {e : Env} {asset : AssetRef} {x : Nat}
    (hI : Inv s) (h : unbond s e asset x = .ok s') : Inv s' := by
  obtain ⟨d, b, nb, slash, nu, ng, -, -, -, hb, hxb, hl, hu, hg, rfl⟩ := unbond_inv h
  obtain ⟨ba, bd⟩ := getBond_some hb
  have hbo := bondedOf_of_get hb
  obtain ⟨na, nd, nam⟩ := unbondLocal_inv hl
  obtain ⟨gb, gle, ga⟩ := unbondGlobal_inv hg
  rw [ba] at na; rw [bd] at nd
  refine ⟨fun d' => ?_, fun d' => ?_, ?_⟩
  · have h1 := dedAsset_amt ga d'
    have h2 := hI.bal_eq d'
    have h3 := addUnb_sumIf _ (keyOnly_denom d') hu
    rw [← sumUnb_eq, ← sumUnb_eq] at h3
    simp only
    by_cases hd : d' = d
    · subst hd; simp only [if_true, decide_true] at h1 h3; omega
    · have hd' : ¬ d = d' := fun h => hd h.symm
      simp only [hd, hd', if_false, decide_false, Bool.false_eq_true] at h1 h3; omega
  · have h1 := dedAsset_amt ga d'
    have h2 := hI.asset_eq d'
    simp only
    by_cases hz : nb.amount = 0
    · have h3 := sumBond_del e.sender d d' s.bonds
      simp only [hz, if_true]
      rw [hbo] at h3
      by_cases hd : d' = d
      · subst hd; simp only [if_true] at h1 h3; omega
      · have hd' : ¬ d = d' := fun h => hd h.symm
        simp only [hd, hd', if_false] at h1 h3; omega
    · have h3 := sumBond_upd nb d' s.bonds
      simp only [hz, if_false]
      rw [na, nd, nam, hbo] at h3
      by_cases hd : d' = d
      · subst hd; simp only [if_true] at h1 h3; omega
      · have hd' : ¬ d = d' := fun h => hd h.symm
        simp only [hd, hd', if_false] at h1 h3; omega
  · have h2 := hI.bonded_eq
    simp only
    by_cases hz : nb.amount = 0
    · have h3 := sumBondAll_del e.sender d s.bonds
      simp only [hz, if_true]
      rw [hbo] at h3
      omega
    · have h3 := sumBondAll_upd nb s.bonds
      simp only [hz, if_false]
      rw [na, nd, nam, hbo] at h3
      omega

theorem inv_withdraw {s s' : St} {e : Env} {d : Nat}
    (hI : Inv s) (h : withdraw s e d = .ok s') : Inv s' := by
  obtain ⟨-, -, -, hle, -, rfl⟩ := withdraw_inv h
  refine ⟨fun d' => ?_, fun d' => hI.asset_eq d', hI.bonded_eq⟩
  have h1 := sumUnb_withdraw e.sender d e.now s.period d' s.unbonds
  have h2 := hI.bal_eq d'
  simp only
  by_cases hd : d' = d
  · subst hd; simp only [if_true] at h1 ⊢; omega
  · simp only [hd, if_false] at h1 ⊢; omega

theorem inv_config {cfg : Cfg} {s s' : St} {e : Env} {p r : Option Nat}
    (hI : Inv s) (h : config cfg s e p r = .ok s') : Inv s' := by
  obtain ⟨-, p', r', rfl⟩ := config_inv h
  exact ⟨hI.bal_eq, hI.asset_eq, hI.bonded_eq⟩

theorem inv_recv {s s1 : St} {a : Nat} {amt : Nat → Nat} (hI : Inv s) (r : Recv s a amt s1) : Inv s1 := by
  obtain ⟨l, hl, hl1, -⟩ := r.strays
  refine ⟨fun d => ?_, fun d => ?_, ?_⟩
  · rw [r.bal d, r.global, r.unbonds, hl, sumStray_append, hl1, hI.bal_eq d]; omega
  · rw [r.global, r.bonds]; exact hI.asset_eq d
  · rw [r.global, r.bonds]; exact hI.bonded_eq

theorem inv_setFd {cfg : Cfg} {s s' : St} {e : Env} (hI : Inv s) (h : setFd cfg s e = .ok s') : Inv s' := by
  obtain ⟨-, rfl⟩ := setFd_inv h
  exact ⟨hI.bal_eq, hI.asset_eq, hI.bonded_eq⟩

theorem inv_migrate {cfg : Cfg} {s s' : St} {e : Env} {st cr : Ver} {l : Bool}
    (hI : Inv s) (h : migrate cfg s e st cr l = .ok s') : Inv s' := by
  obtain ⟨-, -, ⟨-, -, rfl⟩ | ⟨-, rfl⟩⟩ := migrate_inv h
  · exact ⟨hI.bal_eq, hI.asset_eq, hI.bonded_eq⟩
  · exact hI

/-- `send` is the bank's transfer alone -/
theorem send_recv {cfg : Cfg} {s s' : St} {e : Env} {c : List (Nat × Nat)} (h : step cfg s e (.send c) = .ok s') :
    Recv s e.sender (fun d => coinsAmt d c) s' := by
  have h' : (if c.isEmpty then Res.err else receive s e.sender c) = .ok s' := h
  split at h'
  · cases h'
  · exact receive_recv h'

theorem inv_step {cfg : Cfg} {s s' : St} {e : Env} {op : Op}
    (hI : Inv s) (h : step cfg s e op = .ok s') : Inv s' := by
  cases op with
  | bond a x f => exact inv_bond hI h
  | unbond a x c =>
    obtain ⟨s1, hr, hk⟩ := withCoins_ok h
    exact inv_unbond (inv_recv hI (receive_recv hr)) hk
  | withdraw d c =>
    obtain ⟨s1, hr, hk⟩ := withCoins_ok h
    exact inv_withdraw (inv_recv hI (receive_recv hr)) hk
  | config p r c =>
    obtain ⟨s1, hr, hk⟩ := withCoins_ok h
    exact inv_config (inv_recv hI (receive_recv hr)) hk
  | setFd => exact inv_setFd hI h
  | send c => exact inv_recv hI (send_recv h)
  | migrate st cr l => exact inv_migrate hI h

theorem inv_stepOrStay {cfg : Cfg} {s : St} (eo : Env × Op) (hI : Inv s) : Inv (stepOrStay cfg s eo) := by
  unfold stepOrStay
  split
  · rename_i s' h; exact inv_step hI h
  · exact hI

theorem inv_reach {cfg : Cfg} (ops : List (Env × Op)) {s : St} (hI : Inv s) : Inv (reach cfg s ops) := by
  induction ops generalizing s with
  | nil => exact hI
  | cons eo t ih => exact ih (inv_stepOrStay eo hI)

theorem inv_init (period rate : Nat) (ubal : Nat → Nat → Nat) : Inv (init period rate ubal) :=
  ⟨fun _ => rfl, fun _ => rfl, rfl⟩

/-! ### the stray ledger only grows, by exactly what was attached -/

/-- what a successful operation does to the stray ledger: new entries in front, summing per denom (and per
    sender) to the coins it carried; nothing is removed or altered -/
def StrayGrow (s s' : St) (a : Nat) (c : List (Nat × Nat)) : Prop :=
  ∃ l, s'.strays = l ++ s.strays ∧ (∀ d, sumStray d l = coinsAmt d c) ∧
    (∀ a' d, sumStrayOf a' d l = if a' = a then coinsAmt d c else 0)

theorem strayGrow_nil {s s' : St} {a : Nat} (h : s'.strays = s.strays) : StrayGrow s s' a [] :=
  ⟨[], by simpa using h, fun _ => rfl, fun a' d => by simp [sumStrayOf, coinsAmt]⟩

theorem strays_step {cfg : Cfg} {s s' : St} {e : Env} {op : Op} (h : step cfg s e op = .ok s') :
    StrayGrow s s' e.sender (attached op) := by
  cases op with
  | bond asset x funds =>
    obtain ⟨d, nb, ng, -, -, -, -, -, -, -, -, -, rfl⟩ := bond_inv h
    exact strayGrow_nil rfl
  | unbond asset x c =>
    obtain ⟨s1, hr, hk⟩ := withCoins_ok h
    obtain ⟨d, b, nb, slash, nu, ng, -, -, -, -, -, -, -, -, rfl⟩ := unbond_inv hk
    exact (receive_recv hr).strays
  | withdraw d c =>
    obtain ⟨s1, hr, hk⟩ := withCoins_ok h
    obtain ⟨-, -, -, -, -, rfl⟩ := withdraw_inv hk
    exact (receive_recv hr).strays
  | config p r c =>
    obtain ⟨s1, hr, hk⟩ := withCoins_ok h
    obtain ⟨-, p', r', rfl⟩ := config_inv hk
    exact (receive_recv hr).strays
  | setFd =>
    obtain ⟨-, rfl⟩ := setFd_inv h
    exact strayGrow_nil rfl
  | send c => exact (send_recv h).strays
  | migrate st cr l =>
    obtain ⟨-, -, ⟨-, -, rfl⟩ | ⟨-, rfl⟩⟩ := migrate_inv h
    · exact strayGrow_nil rfl
    · exact strayGrow_nil rfl

theorem strays_suffix_stepOrStay {cfg : Cfg} (s : St) (eo : Env × Op) :
    ∃ l, (stepOrStay cfg s eo).strays = l ++ s.strays := by
  unfold stepOrStay
  split
  · rename_i s' h
    obtain ⟨l', hl', -, -⟩ := strays_step h
    exact ⟨l', hl'⟩
  · exact ⟨[], rfl⟩

theorem strays_suffix_reach {cfg : Cfg} (ops : List (Env × Op)) (s : St) :
    ∃ l, (reach cfg s ops).strays = l ++ s.strays := by
  induction ops generalizing s with
  | nil => exact ⟨[], rfl⟩
  | cons eo t ih =>
    obtain ⟨l, hl⟩ := ih (stepOrStay cfg s eo)
    obtain ⟨l', hl'⟩ := strays_suffix_stepOrStay (cfg := cfg) s eo
    show ∃ l, (reach cfg (stepOrStay cfg s eo) t).strays = l ++ s.strays
    exact ⟨l ++ l', by rw [hl, hl', List.append_assoc]⟩


/-! ### per-user conservation -/

/-- what belongs to user `a` in denom `d`, or did before `a` sent it to the contract unasked:
    wallet + bonded + unbonding + stray coins sent by `a` -/
def userTotal (a d : Nat) (s : St) : Nat :=
  s.ubal a d + sumBondOf a d s.bonds + sumUnbOf a d s.unbonds + sumStrayOf a d s.strays

theorem userTotal_recv {s s1 : St} {a : Nat} {amt : Nat → Nat} (r : Recv s a amt s1) (a' d' : Nat) :
    userTotal a' d' s1 = userTotal a' d' s := by
  obtain ⟨l, hl, -, hl2⟩ := r.strays
  have h1 := r.ubal a' d'
  have h2 := hl2 a' d'
  simp only [userTotal, r.bonds, r.unbonds, hl, sumStrayOf_append]
  split at h1 <;> simp_all <;> omega

theorem userTotal_raw {cfg : Cfg} {s s' : St} {e : Env} (a' d' : Nat) :
    (∀ {asset x funds}, bond cfg s e asset x funds = .ok s' → userTotal a' d' s' = userTotal a' d' s) ∧
    (∀ {asset x}, unbond s e asset x = .ok s' → userTotal a' d' s' = userTotal a' d' s) ∧
    (∀ {d}, withdraw s e d = .ok s' → userTotal a' d' s' = userTotal a' d' s) ∧
    (∀ {p r}, config cfg s e p r = .ok s' → userTotal a' d' s' = userTotal a' d' s) := by
  refine ⟨?bond, ?unbond, ?withdraw, ?config⟩
  case bond =>
    intro asset x funds h
    obtain ⟨d, nb, ng, -, -, -, hx, -, -, hl, hg, -, rfl⟩ := bond_inv h
    obtain ⟨na, nd, nam⟩ := bondLocal_inv hl
    have h3 := sumBondOf_upd nb a' d' s.bonds
    rw [na, nd, nam] at h3
    simp only [userTotal]
    by_cases hk : a' = e.sender ∧ d' = d
    · obtain ⟨rfl, rfl⟩ := hk
      simp only [and_self, if_true] at h3 ⊢; omega
    · have hk' : ¬ (e.sender = a' ∧ d = d') := fun h => hk ⟨h.1.symm, h.2.symm⟩
      simp only [hk, hk', if_false] at h3 ⊢; omega
  case unbond =>
    intro asset x h
    obtain ⟨d, b, nb, slash, nu, ng, -, -, -, hb, hxb, hl, hu, hg, rfl⟩ := unbond_inv h
    obtain ⟨ba, bd⟩ := getBond_some hb
    have hbo := bondedOf_of_get hb
    obtain ⟨na, nd, nam⟩ := unbondLocal_inv hl
    rw [ba] at na; rw [bd] at nd
    have h4 := addUnb_sumIf _ (keyOnly_of a' d') hu
    rw [← sumUnbOf_eq, ← sumUnbOf_eq] at h4
    simp only [userTotal]
    by_cases hz : nb.amount = 0
    · have h3 := sumBondOf_del e.sender d a' d' s.bonds
      simp only [hz, if_true]
      rw [hbo] at h3
      by_cases hk : e.sender = a' ∧ d = d'
      · obtain ⟨rfl, rfl⟩ := hk
        simp only [and_self, if_true, decide_true] at h3 h4; omega
      · simp only [hk, if_false, decide_false, Bool.false_eq_true] at h3 h4; omega
    · have h3 := sumBondOf_upd nb a' d' s.bonds
      simp only [hz, if_false]
      rw [na, nd, nam, hbo] at h3
      by_cases hk : e.sender = a' ∧ d = d'
      · obtain ⟨rfl, rfl⟩ := hk
        simp only [and_self, if_true, decide_true] at h3 h4; omega
      · simp only [hk, if_false, decide_false, Bool.false_eq_true] at h3 h4; omega
  case withdraw =>
    intro d h
    obtain ⟨-, -, -, hle, -, rfl⟩ := withdraw_inv h
    have h1 := sumUnbOf_withdraw e.sender d e.now s.period a' d' s.unbonds
    simp only [userTotal]
    by_cases hk : a' = e.sender ∧ d' = d
    · obtain ⟨rfl, rfl⟩ := hk
      simp only [and_self, if_true] at h1 ⊢; omega
    · simp only [hk, if_false] at h1 ⊢; omega
  case config =>
    intro p r h
    obtain ⟨-, p', r', rfl⟩ := config_inv h
    rfl

theorem userTotal_step {cfg : Cfg} {s s' : St} {e : Env} {op : Op}
    (h : step cfg s e op = .ok s') (a' d' : Nat) : userTotal a' d' s' = userTotal a' d' s := by
  cases op with
  | bond asset x funds => exact (userTotal_raw a' d').1 h
  | unbond asset x c =>
    obtain ⟨s1, hr, hk⟩ := withCoins_ok h
    rw [(userTotal_raw (cfg := cfg) a' d').2.1 hk, userTotal_recv (receive_recv hr)]
  | withdraw d c =>
    obtain ⟨s1, hr, hk⟩ := withCoins_ok h
    rw [(userTotal_raw (cfg := cfg) a' d').2.2.1 hk, userTotal_recv (receive_recv hr)]
  | config p r c =>
    obtain ⟨s1, hr, hk⟩ := withCoins_ok h
    rw [(userTotal_raw a' d').2.2.2 hk, userTotal_recv (receive_recv hr)]
  | setFd =>
    obtain ⟨-, rfl⟩ := setFd_inv h
    rfl
  | send c => exact userTotal_recv (send_recv h) a' d'
  | migrate st cr l =>
    obtain ⟨-, -, ⟨-, -, rfl⟩ | ⟨-, rfl⟩⟩ := migrate_inv h
    · rfl
    · rfl

theorem userTotal_reach {cfg : Cfg} (ops : List (Env × Op)) (s : St) (a d : Nat) :
    userTotal a d (reach cfg s ops) = userTotal a d s := by
  induction ops generalizing s with
  | nil => rfl
  | cons eo t ih =>
    show userTotal a d (reach cfg (stepOrStay cfg s eo) t) = _
    rw [ih]
    unfold stepOrStay
    split
    · rename_i s' h; exact userTotal_step h a d
    · rfl

/-! ### well-formedness: whitelisted denoms only, no empty unbonding record -/

structure Wf (cfg : Cfg) (s : St) : Prop where
  bonds_wl : ∀ r ∈ s.bonds, cfg.whitelist.contains r.denom = true
  unbonds_wl : ∀ r ∈ s.unbonds, cfg.whitelist.contains r.denom = true
  assets_wl : ∀ p ∈ s.global.assets, cfg.whitelist.contains p.1 = true
  unbonds_pos : ∀ r ∈ s.unbonds, 0 < r.amount

theorem getBond_mem {a d : Nat} {l : List BondRec} {b : BondRec} (h : getBond a d l = some b) : b ∈ l := by
  induction l with
  | nil => cases h
  | cons r t ih =>
    unfold getBond at h
    split at h
    · cases h; exact List.mem_cons_self
    · exact List.mem_cons_of_mem _ (ih h)

theorem mem_updBond {n r : BondRec} {l : List BondRec} (h : r ∈ updBond n l) : r = n ∨ r ∈ l := by
  induction l with
  | nil => simp only [updBond, List.mem_singleton] at h; exact Or.inl h
  | cons y t ih =>
    unfold updBond at h
    split at h
    · rcases List.mem_cons.mp h with h | h
      · exact Or.inl h
      · exact Or.inr (List.mem_cons_of_mem _ h)
    · rcases List.mem_cons.mp h with h | h
      · exact Or.inr (h ▸ List.mem_cons_self)
      · rcases ih h with h | h
        · exact Or.inl h
        · exact Or.inr (List.mem_cons_of_mem _ h)

theorem mem_delBond {a d : Nat} {r : BondRec} {l : List BondRec} (h : r ∈ delBond a d l) : r ∈ l := by
  induction l with
  | nil => exact h
  | cons y t ih =>
    unfold delBond at h
    split at h
    · exact List.mem_cons_of_mem _ h
    · rcases List.mem_cons.mp h with h | h
      · exact h ▸ List.mem_cons_self
      · exact List.mem_cons_of_mem _ (ih h)

theorem mem_addUnb {a d ts x : Nat} {l l' : List UnbRec} (h : addUnb a d ts x l = .ok l') (hx : 0 < x)
    {r : UnbRec} (hr : r ∈ l') : (r.denom = d ∧ 0 < r.amount) ∨ r ∈ l := by
  induction l generalizing l' with
  | nil =>
    simp only [addUnb] at h; cases h
    simp only [List.mem_singleton] at hr
    subst hr; exact Or.inl ⟨rfl, hx⟩
  | cons y t ih =>
    unfold addUnb at h
    split at h
    · rename_i hk
      split at h
      · rename_i z hz
        cases h
        obtain ⟨hz1, _⟩ := cadd_inv hz
        rcases List.mem_cons.mp hr with h | h
        · subst h; exact Or.inl ⟨hk.2.1, by simp only; omega⟩
        · exact Or.inr (List.mem_cons_of_mem _ h)
      · cases h
      · cases h
    · split at h
      · rename_i t' ht
        cases h
        rcases List.mem_cons.mp hr with h | h
        · exact Or.inr (h ▸ List.mem_cons_self)
        · rcases ih ht h with h | h
          · exact Or.inl h
          · exact Or.inr (List.mem_cons_of_mem _ h)
      · cases h
      · cases h

theorem mem_aggAsset {d x : Nat} {l l' : List (Nat × Nat)} (h : aggAsset d x l = .ok l')
    {p : Nat × Nat} (hp : p ∈ l') : p.1 = d ∨ ∃ q ∈ l, q.1 = p.1 := by
  induction l generalizing l' with
  | nil =>
    simp only [aggAsset] at h; cases h
    simp only [List.mem_singleton] at hp
    subst hp; exact Or.inl rfl
  | cons y t ih =>
    obtain ⟨e, v⟩ := y
    unfold aggAsset at h
    split at h
    · rename_i he
      split at h
      · cases h
        rcases List.mem_cons.mp hp with h | h
        · subst h; exact Or.inl he
        · exact Or.inr ⟨p, List.mem_cons_of_mem _ h, rfl⟩
      · cases h
      · cases h
    · split at h
      · rename_i t' ht
        cases h
        rcases List.mem_cons.mp hp with h | h
        · subst h; exact Or.inr ⟨(e, v), List.mem_cons_self, rfl⟩
        · rcases ih ht h with h | ⟨q, hq, hq1⟩
          · exact Or.inl h
          · exact Or.inr ⟨q, List.mem_cons_of_mem _ hq, hq1⟩
      · cases h
      · cases h

theorem mem_dedAsset {d x : Nat} {l l' : List (Nat × Nat)} (h : dedAsset d x l = .ok l')
    {p : Nat × Nat} (hp : p ∈ l') : ∃ q ∈ l, q.1 = p.1 := by
  induction l generalizing l' with
  | nil => simp only [dedAsset] at h; cases h
  | cons y t ih =>
    obtain ⟨e, v⟩ := y
    unfold dedAsset at h
    split at h
    · split at h
      · cases h
        rcases List.mem_cons.mp hp with h | h
        · subst h; exact ⟨(e, v), List.mem_cons_self, rfl⟩
        · exact ⟨p, List.mem_cons_of_mem _ h, rfl⟩
      · cases h
      · cases h
    · split at h
      · rename_i t' ht
        cases h
        rcases List.mem_cons.mp hp with h | h
        · subst h; exact ⟨(e, v), List.mem_cons_self, rfl⟩
        · obtain ⟨q, hq, hq1⟩ := ih ht h
          exact ⟨q, List.mem_cons_of_mem _ hq, hq1⟩
      · cases h
      · cases h

theorem wf_recv {cfg : Cfg} {s s1 : St} {a : Nat} {amt : Nat → Nat} (hW : Wf cfg s) (r : Recv s a amt s1) :
    Wf cfg s1 := by
  refine ⟨?_, ?_, ?_, ?_⟩
  · rw [r.bonds]; exact hW.bonds_wl
  · rw [r.unbonds]; exact hW.unbonds_wl
  · rw [r.global]; exact hW.assets_wl
  · rw [r.unbonds]; exact hW.unbonds_pos

theorem wf_raw {cfg : Cfg} {s s' : St} {e : Env} (hW : Wf cfg s) :
    (∀ {asset x funds}, bond cfg s e asset x funds = .ok s' → Wf cfg s') ∧
    (∀ {asset x}, unbond s e asset x = .ok s' → Wf cfg s') ∧
    (∀ {d}, withdraw s e d = .ok s' → Wf cfg s') ∧
    (∀ {p r}, config cfg s e p r = .ok s' → Wf cfg s') := by
  refine ⟨?bond, ?unbond, ?withdraw, ?config⟩
  case bond =>
    intro asset x funds h
    obtain ⟨d, nb, ng, -, -, -, hx, hwl, -, hl, hg, -, rfl⟩ := bond_inv h
    obtain ⟨na, nd, nam⟩ := bondLocal_inv hl
    obtain ⟨gb, ga⟩ := bondGlobal_inv hg
    refine ⟨fun r hr => ?_, hW.unbonds_wl, fun p hp => ?_, hW.unbonds_pos⟩
    · rcases mem_updBond hr with h | h
      · rw [h, nd]; exact hwl
      · exact hW.bonds_wl r h
    · rcases mem_aggAsset ga hp with h | ⟨q, hq, hq1⟩
      · rw [h]; exact hwl
      · rw [← hq1]; exact hW.assets_wl q hq
  case unbond =>
    intro asset x h
    obtain ⟨d, b, nb, slash, nu, ng, -, hx0, -, hb, hxb, hl, hu, hg, rfl⟩ := unbond_inv h
    obtain ⟨ba, bd⟩ := getBond_some hb
    obtain ⟨na, nd, nam⟩ := unbondLocal_inv hl
    obtain ⟨gb, gle, ga⟩ := unbondGlobal_inv hg
    have hwl : cfg.whitelist.contains d = true := bd ▸ hW.bonds_wl b (getBond_mem hb)
    refine ⟨fun r hr => ?_, fun r hr => ?_, fun p hp => ?_, fun r hr => ?_⟩
    · simp only at hr
      split at hr
      · exact hW.bonds_wl r (mem_delBond hr)
      · rcases mem_updBond hr with h | h
        · rw [h, nd, bd]; exact hwl
        · exact hW.bonds_wl r h
    · rcases mem_addUnb hu (by omega) hr with h | h
      · rw [h.1]; exact hwl
      · exact hW.unbonds_wl r h
    · obtain ⟨q, hq, hq1⟩ := mem_dedAsset ga hp
      rw [← hq1]; exact hW.assets_wl q hq
    · rcases mem_addUnb hu (by omega) hr with h | h
      · exact h.2
      · exact hW.unbonds_pos r h
  case withdraw =>
    intro d h
    obtain ⟨-, -, -, hle, -, rfl⟩ := withdraw_inv h
    exact ⟨hW.bonds_wl, fun r hr => hW.unbonds_wl r (List.mem_filter.mp hr).1, hW.assets_wl,
      fun r hr => hW.unbonds_pos r (List.mem_filter.mp hr).1⟩
  case config =>
    intro p r h
    obtain ⟨-, p', r', rfl⟩ := config_inv h
    exact ⟨hW.bonds_wl, hW.unbonds_wl, hW.assets_wl, hW.unbonds_pos⟩

theorem wf_step {cfg : Cfg} {s s' : St} {e : Env} {op : Op}
    (hW : Wf cfg s) (h : step cfg s e op = .ok s') : Wf cfg s' := by
  cases op with
  | bond asset x funds => exact (wf_raw hW).1 h
  | unbond asset x c =>
    obtain ⟨s1, hr, hk⟩ := withCoins_ok h
    exact (wf_raw (cfg := cfg) (wf_recv hW (receive_recv hr))).2.1 hk
  | withdraw d c =>
    obtain ⟨s1, hr, hk⟩ := withCoins_ok h
    exact (wf_raw (cfg := cfg) (wf_recv hW (receive_recv hr))).2.2.1 hk
  | config p r c =>
    obtain ⟨s1, hr, hk⟩ := withCoins_ok h
    exact (wf_raw (wf_recv hW (receive_recv hr))).2.2.2 hk
  | setFd =>
    obtain ⟨-, rfl⟩ := setFd_inv h
    exact ⟨hW.bonds_wl, hW.unbonds_wl, hW.assets_wl, hW.unbonds_pos⟩
  | send c => exact wf_recv hW (send_recv h)
  | migrate st cr l =>
    obtain ⟨-, -, ⟨-, -, rfl⟩ | ⟨-, rfl⟩⟩ := migrate_inv h
    · exact ⟨hW.bonds_wl, hW.unbonds_wl, hW.assets_wl, hW.unbonds_pos⟩
    · exact hW

theorem wf_reach {cfg : Cfg} (ops : List (Env × Op)) {s : St} (hW : Wf cfg s) : Wf cfg (reach cfg s ops) := by
  induction ops generalizing s with
  | nil => exact hW
  | cons eo t ih =>
    apply ih
    unfold stepOrStay
    split
    · rename_i s' h; exact wf_step hW h
    · exact hW

theorem wf_init (cfg : Cfg) (period rate : Nat) (ubal : Nat → Nat → Nat) : Wf cfg (init period rate ubal) :=
  ⟨fun _ h => absurd h List.not_mem_nil, fun _ h => absurd h List.not_mem_nil,
    fun _ h => absurd h List.not_mem_nil, fun _ h => absurd h List.not_mem_nil⟩

theorem sumUnb_zero_of_no_denom {d : Nat} {l : List UnbRec} (h : ∀ r ∈ l, r.denom ≠ d) : sumUnb d l = 0 := by
  induction l with
  | nil => rfl
  | cons r t ih =>
    have h1 := h r List.mem_cons_self
    simp only [sumUnb, h1, if_false, ih (fun r hr => h r (List.mem_cons_of_mem _ hr))]

theorem sumBond_zero_of_no_denom {d : Nat} {l : List BondRec} (h : ∀ r ∈ l, r.denom ≠ d) : sumBond d l = 0 := by
  induction l with
  | nil => rfl
  | cons r t ih =>
    have h1 := h r List.mem_cons_self
    simp only [sumBond, h1, if_false, ih (fun r hr => h r (List.mem_cons_of_mem _ hr))]

theorem assetAmt_zero_of_no_denom {d : Nat} {l : List (Nat × Nat)} (h : ∀ p ∈ l, p.1 ≠ d) : assetAmt d l = 0 := by
  induction l with
  | nil => rfl
  | cons p t ih =>
    obtain ⟨e, y⟩ := p
    have h1 : e ≠ d := h (e, y) List.mem_cons_self
    simp only [assetAmt, h1, if_false, ih (fun r hr => h r (List.mem_cons_of_mem _ hr))]


/-! ### unbond / withdraw in detail -/

theorem unbond_recAmt {s s' : St} {e : Env} {d x : Nat} (h : unbond s e (.native d) x = .ok s')
    (a' d' t' : Nat) :
    recAmt a' d' t' s'.unbonds
      = recAmt a' d' t' s.unbonds + (if a' = e.sender ∧ d' = d ∧ t' = e.now then x else 0) := by
  obtain ⟨d0, b, nb, slash, nu, ng, hd0, -, -, hb, hxb, hl, hu, hg, rfl⟩ := unbond_inv h
  cases hd0
  have h4 := addUnb_sumIf _ (keyOnly_rec a' d' t') hu
  rw [← recAmt_eq, ← recAmt_eq] at h4
  simp only [h4]
  by_cases hk : e.sender = a' ∧ d = d' ∧ e.now = t'
  · obtain ⟨rfl, rfl, rfl⟩ := hk; simp
  · have hk' : ¬ (a' = e.sender ∧ d' = d ∧ t' = e.now) := fun h => hk ⟨h.1.symm, h.2.1.symm, h.2.2.symm⟩
    simp [hk, hk']

theorem unbond_bonded {s s' : St} {e : Env} {d x : Nat} (h : unbond s e (.native d) x = .ok s')
    (a' d' : Nat) :
    sumBondOf a' d' s'.bonds + (if a' = e.sender ∧ d' = d then x else 0) = sumBondOf a' d' s.bonds
    ∧ s'.bal = s.bal ∧ s'.ubal = s.ubal := by
  obtain ⟨d0, b, nb, slash, nu, ng, hd0, -, -, hb, hxb, hl, hu, hg, rfl⟩ := unbond_inv h
  cases hd0
  obtain ⟨ba, bd⟩ := getBond_some hb
  have hbo := bondedOf_of_get hb
  obtain ⟨na, nd, nam⟩ := unbondLocal_inv hl
  rw [ba] at na; rw [bd] at nd
  refine ⟨?_, rfl, rfl⟩
  simp only
  by_cases hz : nb.amount = 0
  · have h3 := sumBondOf_del e.sender d a' d' s.bonds
    simp only [hz, if_true]
    rw [hbo] at h3
    by_cases hk : e.sender = a' ∧ d = d'
    · obtain ⟨rfl, rfl⟩ := hk
      simp only [and_self, if_true] at h3 ⊢; omega
    · have hk' : ¬ (a' = e.sender ∧ d' = d) := fun h => hk ⟨h.1.symm, h.2.symm⟩
      simp only [hk, hk', if_false] at h3 ⊢; omega
  · have h3 := sumBondOf_upd nb a' d' s.bonds
    simp only [hz, if_false]
    rw [na, nd, nam, hbo] at h3
    by_cases hk : e.sender = a' ∧ d = d'
    · obtain ⟨rfl, rfl⟩ := hk
      simp only [and_self, if_true] at h3 ⊢; omega
    · have hk' : ¬ (a' = e.sender ∧ d' = d) := fun h => hk ⟨h.1.symm, h.2.symm⟩
      simp only [hk, hk', if_false] at h3 ⊢; omega

/-- `matured` looks at the key of a record only -/
theorem keyOnly_matured (a d now period : Nat) (l : List UnbRec) : KeyOnly (matured a d now period l) := by
  intro r r' h1 h2 h3
  have hr : rank a d l r = rank a d l r' := by unfold rank; rw [h3]
  have hm : mine a d r = mine a d r' := by unfold mine; rw [h1, h2]
  unfold matured
  rw [hr, hm, h3]

/-- the amount paid by a successful withdrawal -/
def refundOf (s : St) (e : Env) (d : Nat) : Nat :=
  sumAmt (s.unbonds.filter (matured e.sender d e.now s.period s.unbonds))

theorem withdraw_effect {s s' : St} {e : Env} {d : Nat} (h : withdraw s e d = .ok s') :
    0 < refundOf s e d ∧
    s'.ubal e.sender d = s.ubal e.sender d + refundOf s e d ∧
    s'.bal d + refundOf s e d = s.bal d ∧
    (∀ a' d', ¬ (a' = e.sender ∧ d' = d) → s'.ubal a' d' = s.ubal a' d') ∧
    (∀ d', d' ≠ d → s'.bal d' = s.bal d') ∧
    s'.bonds = s.bonds ∧ s'.global = s.global ∧
    sumUnbOf e.sender d s'.unbonds + refundOf s e d = sumUnbOf e.sender d s.unbonds := by
  obtain ⟨-, -, hpos, hle, -, rfl⟩ := withdraw_inv h
  have h1 := sumUnbOf_withdraw e.sender d e.now s.period e.sender d s.unbonds
  simp only [and_self, if_true] at h1
  refine ⟨hpos, by simp [refundOf], by simp only [refundOf, if_true]; omega, fun a' d' hk => by simp [hk],
    fun d' hd => by simp [hd], rfl, rfl, h1⟩

theorem withdraw_removed {s s' : St} {e : Env} {d : Nat} (h : withdraw s e d = .ok s')
    {r : UnbRec} (hr : r ∈ s.unbonds) (hr' : r ∉ s'.unbonds) :
    r.addr = e.sender ∧ r.denom = d ∧ r.ts + s.period ≤ e.now := by
  obtain ⟨-, hp, -, -, -, rfl⟩ := withdraw_inv h
  have hm : matured e.sender d e.now s.period s.unbonds r = true := by
    by_contra hm
    apply hr'
    simp only [List.mem_filter]
    exact ⟨hr, by simpa using hm⟩
  obtain ⟨h1, h2, h3⟩ := matured_mine hm
  exact ⟨h1, h2, by omega⟩

theorem withdraw_kept {s s' : St} {e : Env} {d : Nat} (h : withdraw s e d = .ok s')
    {r : UnbRec} (hr : r ∈ s'.unbonds) :
    r ∈ s.unbonds ∧ matured e.sender d e.now s.period s.unbonds r = false := by
  obtain ⟨-, hp, -, -, -, rfl⟩ := withdraw_inv h
  simp only [List.mem_filter] at hr
  exact ⟨hr.1, by simpa using hr.2⟩

/-- after a withdrawal nothing is recorded any more at the key of a paid record -/
theorem withdraw_key_cleared {s s' : St} {e : Env} {d : Nat} (h : withdraw s e d = .ok s')
    {r : UnbRec} (hm : matured e.sender d e.now s.period s.unbonds r = true) :
    recAmt r.addr r.denom r.ts s'.unbonds = 0 := by
  obtain ⟨-, hp, -, -, -, rfl⟩ := withdraw_inv h
  rw [recAmt_eq]
  apply sumIf_filter_none
  intro r' hr'
  simp only [decide_eq_false_iff_not]
  intro hk
  have := keyOnly_matured e.sender d e.now s.period s.unbonds r' r hk.1 hk.2.1 hk.2.2
  rw [hm] at this
  simp [this] at hr'

/-- records of other keys are untouched by a withdrawal -/
theorem withdraw_other_keys {s s' : St} {e : Env} {d : Nat} (h : withdraw s e d = .ok s')
    (a' d' t' : Nat) (hk : ¬ (a' = e.sender ∧ d' = d)) :
    recAmt a' d' t' s'.unbonds = recAmt a' d' t' s.unbonds := by
  obtain ⟨-, hp, -, -, -, rfl⟩ := withdraw_inv h
  have h1 := sumIf_filter (fun r => decide (r.addr = a' ∧ r.denom = d' ∧ r.ts = t'))
    (matured e.sender d e.now s.period s.unbonds) s.unbonds
  rw [sumIf_filter_none _ _ _ (fun r hr => by
    obtain ⟨m1, m2, _⟩ := matured_mine hr
    simp only [decide_eq_false_iff_not]
    intro h'; exact hk ⟨h'.1.symm.trans m1, h'.2.1.symm.trans m2⟩)] at h1
  rw [recAmt_eq, recAmt_eq]
  simp only at h1 ⊢
  omega


/-! ### operations that carry coins: the bank's transfer, then the handler -/

theorem unbond_split {cfg : Cfg} {s s' : St} {e : Env} {asset : AssetRef} {x : Nat} {c : List (Nat × Nat)}
    (h : step cfg s e (.unbond asset x c) = .ok s') :
    ∃ s1, Recv s e.sender (fun d => coinsAmt d c) s1 ∧ unbond s1 e asset x = .ok s' := by
  obtain ⟨s1, hr, hk⟩ := withCoins_ok h
  exact ⟨s1, receive_recv hr, hk⟩

theorem withdraw_split {cfg : Cfg} {s s' : St} {e : Env} {d : Nat} {c : List (Nat × Nat)}
    (h : step cfg s e (.withdraw d c) = .ok s') :
    ∃ s1, Recv s e.sender (fun d' => coinsAmt d' c) s1 ∧ withdraw s1 e d = .ok s' := by
  obtain ⟨s1, hr, hk⟩ := withCoins_ok h
  exact ⟨s1, receive_recv hr, hk⟩

theorem config_split {cfg : Cfg} {s s' : St} {e : Env} {p r : Option Nat} {c : List (Nat × Nat)}
    (h : step cfg s e (.config p r c) = .ok s') :
    ∃ s1, Recv s e.sender (fun d' => coinsAmt d' c) s1 ∧ config cfg s1 e p r = .ok s' := by
  obtain ⟨s1, hr, hk⟩ := withCoins_ok h
  exact ⟨s1, receive_recv hr, hk⟩

theorem recv_ubal_le {s s1 : St} {a : Nat} {amt : Nat → Nat} (r : Recv s a amt s1) (a' d : Nat) :
    s1.ubal a' d ≤ s.ubal a' d := by
  have := r.ubal a' d; omega

/-- the refund is computed from the records and the period alone: coins that arrived with the message do
    not change it -/
theorem refundOf_recv {s s1 : St} {a : Nat} {amt : Nat → Nat} (r : Recv s a amt s1) (e : Env) (d : Nat) :
    refundOf s1 e d = refundOf s e d := by
  unfold refundOf; rw [r.unbonds, r.period]

theorem withdraw_step_effect {cfg : Cfg} {s s' : St} {e : Env} {d : Nat} {c : List (Nat × Nat)}
    (h : step cfg s e (.withdraw d c) = .ok s') :
    0 < refundOf s e d ∧
    s'.ubal e.sender d + coinsAmt d c = s.ubal e.sender d + refundOf s e d ∧
    s'.bal d + refundOf s e d = s.bal d + coinsAmt d c ∧
    (∀ a' d', ¬ (a' = e.sender ∧ d' = d) →
      s'.ubal a' d' + (if a' = e.sender then coinsAmt d' c else 0) = s.ubal a' d') ∧
    (∀ d', d' ≠ d → s'.bal d' = s.bal d' + coinsAmt d' c) ∧
    s'.bonds = s.bonds ∧ s'.global = s.global ∧
    sumUnbOf e.sender d s'.unbonds + refundOf s e d = sumUnbOf e.sender d s.unbonds := by
  obtain ⟨s1, r, hk⟩ := withdraw_split h
  obtain ⟨h0, h1, h2, h3, h4, h5, h6, h7⟩ := withdraw_effect hk
  rw [refundOf_recv r] at h0 h1 h2 h7
  have ru := r.ubal e.sender d
  simp only [if_true] at ru
  have rb := r.bal d
  refine ⟨h0, by omega, by omega, fun a' d' hk' => ?_, fun d' hd => ?_, h5.trans r.bonds, h6.trans r.global, ?_⟩
  · rw [h3 a' d' hk']; exact r.ubal a' d'
  · rw [h4 d' hd]; exact r.bal d'
  · rw [← r.unbonds]; exact h7

theorem unbond_step_effect {cfg : Cfg} {s s' : St} {e : Env} {d x : Nat} {c : List (Nat × Nat)}
    (h : step cfg s e (.unbond (.native d) x c) = .ok s') :
    (∀ a' d' t', recAmt a' d' t' s'.unbonds
        = recAmt a' d' t' s.unbonds + (if a' = e.sender ∧ d' = d ∧ t' = e.now then x else 0)) ∧
    (∀ a' d', sumBondOf a' d' s'.bonds + (if a' = e.sender ∧ d' = d then x else 0) = sumBondOf a' d' s.bonds) ∧
    (∀ d', s'.bal d' = s.bal d' + coinsAmt d' c) ∧
    (∀ a' d', s'.ubal a' d' + (if a' = e.sender then coinsAmt d' c else 0) = s.ubal a' d') := by
  obtain ⟨s1, r, hk⟩ := unbond_split h
  refine ⟨fun a' d' t' => ?_, fun a' d' => ?_, fun d' => ?_, fun a' d' => ?_⟩
  · rw [unbond_recAmt hk a' d' t', r.unbonds]
  · have := (unbond_bonded hk a' d').1; rw [r.bonds] at this; exact this
  · rw [(unbond_bonded hk 0 0).2.1]; exact r.bal d'
  · rw [(unbond_bonded hk 0 0).2.2]; exact r.ubal a' d'

theorem withdraw_step_unbonds {cfg : Cfg} {s s' : St} {e : Env} {d : Nat} {c : List (Nat × Nat)}
    (h : step cfg s e (.withdraw d c) = .ok s') :
    s'.unbonds = s.unbonds.filter fun r => !matured e.sender d e.now s.period s.unbonds r := by
  obtain ⟨s1, r, hk⟩ := withdraw_split h
  obtain ⟨-, -, -, -, -, rfl⟩ := withdraw_inv hk
  simp only [r.unbonds, r.period]

/-! ### a matured record can be withdrawn -/

theorem sumAmt_ge_of_mem {r : UnbRec} {l : List UnbRec} (h : r ∈ l) : r.amount ≤ sumAmt l := by
  induction l with
  | nil => cases h
  | cons y t ih =>
    rcases List.mem_cons.mp h with h | h
    · subst h; simp only [sumAmt]; omega
    · have := ih h; simp only [sumAmt]; omega

theorem withdraw_succeeds {s : St} {a d now : Nat} {g : Bool} {r : UnbRec}
    (hI : Inv s) (hr : r ∈ s.unbonds) (ha : r.addr = a) (hd : r.denom = d) (hpos : 0 < r.amount)
    (hrank : rank a d s.unbonds r < Gen.LAIR_MAX_PAGE_LIMIT)
    (hmat : r.ts + s.period ≤ now)
    (hsupply : s.ubal a d + s.bal d ≤ U128MAX) :
    ∃ s', withdraw s ⟨now, a, g⟩ d = .ok s' ∧ r ∉ s'.unbonds ∧
      s.ubal a d + r.amount ≤ s'.ubal a d := by
  have hm : matured a d now s.period s.unbonds r = true := by
    simp only [matured, mine, Bool.and_eq_true, decide_eq_true_eq]
    exact ⟨⟨⟨ha, hd⟩, hrank⟩, by omega⟩
  have hmem : r ∈ s.unbonds.filter (matured a d now s.period s.unbonds) := List.mem_filter.mpr ⟨hr, hm⟩
  have hge := sumAmt_ge_of_mem hmem
  have hsplit := sumUnb_withdraw a d now s.period d s.unbonds
  simp only [if_true] at hsplit
  have hbal := hI.bal_eq d
  have hne : (s.unbonds.filter (mine a d)).isEmpty = false := by
    have : r ∈ s.unbonds.filter (mine a d) :=
      List.mem_filter.mpr ⟨hr, by simp [mine, ha, hd]⟩
    cases hl : s.unbonds.filter (mine a d) with
    | nil => rw [hl] at this; cases this
    | cons _ _ => rfl
  have hw : withdraw s ⟨now, a, g⟩ d = .ok { s with
      unbonds := s.unbonds.filter fun r => !matured a d now s.period s.unbonds r
      bal := fun d' => if d' = d then
        s.bal d - sumAmt (s.unbonds.filter (matured a d now s.period s.unbonds)) else s.bal d'
      ubal := fun a' d' => if a' = a ∧ d' = d then
        s.ubal a d + sumAmt (s.unbonds.filter (matured a d now s.period s.unbonds))
        else s.ubal a' d' } := by
    unfold withdraw
    simp only [hne, Bool.false_eq_true, if_false]
    rw [if_neg (by omega), if_neg (by omega), if_neg (by omega), if_neg (by omega)]
    rw [padd_ok (by omega)]
  refine ⟨_, hw, ?_, ?_⟩
  · simp only [List.mem_filter, hm, Bool.not_true, Bool.false_eq_true, and_false, not_false_eq_true]
  · simp only [and_self, if_true]; omega


/-! ### one entry per storage key -/

/-- no two `BOND` entries share `(addr, denom)` -/
def UniqB : List BondRec → Prop
  | [] => True
  | r :: t => getBond r.addr r.denom t = none ∧ UniqB t

/-- two `UNBOND` entries with different keys -/
def DiffKey (r r' : UnbRec) : Prop := ¬ (r.addr = r'.addr ∧ r.denom = r'.denom ∧ r.ts = r'.ts)

theorem getBond_upd_ne {n : BondRec} {a d : Nat} (l : List BondRec) (h : ¬ (n.addr = a ∧ n.denom = d)) :
    getBond a d (updBond n l) = getBond a d l := by
  induction l with
  | nil => simp [updBond, getBond, h]
  | cons r t ih =>
    unfold updBond
    split
    · rename_i hk
      have : ¬ (r.addr = a ∧ r.denom = d) := fun h' => h ⟨hk.1 ▸ h'.1, hk.2 ▸ h'.2⟩
      simp [getBond, h, this]
    · simp only [getBond, ih]

theorem uniqB_upd {n : BondRec} {l : List BondRec} (h : UniqB l) : UniqB (updBond n l) := by
  induction l with
  | nil => exact ⟨rfl, trivial⟩
  | cons r t ih =>
    unfold updBond
    split
    · rename_i hk
      exact ⟨by rw [← hk.1, ← hk.2]; exact h.1, h.2⟩
    · rename_i hk
      refine ⟨?_, ih h.2⟩
      rw [getBond_upd_ne t (fun h' => hk ⟨h'.1.symm, h'.2.symm⟩)]
      exact h.1

theorem getBond_del_none {a d a' d' : Nat} {l : List BondRec} (h : getBond a d l = none) :
    getBond a d (delBond a' d' l) = none := by
  induction l with
  | nil => rfl
  | cons r t ih =>
    unfold getBond at h
    split at h
    · cases h
    · rename_i hk
      unfold delBond
      split
      · exact h
      · simp only [getBond, hk, if_false]; exact ih h

theorem uniqB_del {a d : Nat} {l : List BondRec} (h : UniqB l) : UniqB (delBond a d l) := by
  induction l with
  | nil => trivial
  | cons r t ih =>
    unfold delBond
    split
    · exact h.2
    · exact ⟨getBond_del_none h.1, ih h.2⟩

theorem sumBondOf_none {a d : Nat} {l : List BondRec} (h : getBond a d l = none) : sumBondOf a d l = 0 := by
  induction l with
  | nil => rfl
  | cons r t ih =>
    unfold getBond at h
    split at h
    · cases h
    · rename_i hk
      simp only [sumBondOf, hk, if_false, ih h]

/-- with one entry per key, "Σ over the entries at `(a, d)`" is the entry's amount -/
theorem sumBondOf_eq_bondedOf {a d : Nat} {l : List BondRec} (h : UniqB l) :
    sumBondOf a d l = bondedOf a d l := by
  induction l with
  | nil => rfl
  | cons r t ih =>
    by_cases hk : r.addr = a ∧ r.denom = d
    · have : sumBondOf a d t = 0 := sumBondOf_none (by rw [← hk.1, ← hk.2]; exact h.1)
      simp [sumBondOf, bondedOf, getBond, hk, this]
    · have := ih h.2
      simp only [sumBondOf, bondedOf, getBond, hk, if_false] at this ⊢
      omega

theorem mem_addUnb_key {a d ts x : Nat} {l l' : List UnbRec} (h : addUnb a d ts x l = .ok l')
    {r : UnbRec} (hr : r ∈ l') :
    (r.addr = a ∧ r.denom = d ∧ r.ts = ts) ∨ ∃ r0 ∈ l, r0.addr = r.addr ∧ r0.denom = r.denom ∧ r0.ts = r.ts := by
  induction l generalizing l' with
  | nil =>
    simp only [addUnb] at h; cases h
    simp only [List.mem_singleton] at hr
    subst hr; exact Or.inl ⟨rfl, rfl, rfl⟩
  | cons y t ih =>
    unfold addUnb at h
    split at h
    · rename_i hk
      split at h
      · cases h
        rcases List.mem_cons.mp hr with h | h
        · subst h; exact Or.inl hk
        · exact Or.inr ⟨r, List.mem_cons_of_mem _ h, rfl, rfl, rfl⟩
      · cases h
      · cases h
    · split at h
      · rename_i t' ht
        cases h
        rcases List.mem_cons.mp hr with h | h
        · subst h; exact Or.inr ⟨r, List.mem_cons_self, rfl, rfl, rfl⟩
        · rcases ih ht h with h | ⟨r0, hr0, hk0⟩
          · exact Or.inl h
          · exact Or.inr ⟨r0, List.mem_cons_of_mem _ hr0, hk0⟩
      · cases h
      · cases h

theorem addUnb_pairwise {a d ts x : Nat} {l l' : List UnbRec} (hp : l.Pairwise DiffKey)
    (h : addUnb a d ts x l = .ok l') : l'.Pairwise DiffKey := by
  induction l generalizing l' with
  | nil => simp only [addUnb] at h; cases h; exact List.pairwise_singleton _ _
  | cons y t ih =>
    rw [List.pairwise_cons] at hp
    unfold addUnb at h
    split at h
    · split at h
      · cases h
        rw [List.pairwise_cons]
        exact ⟨fun r' hr' => hp.1 r' hr', hp.2⟩
      · cases h
      · cases h
    · rename_i hk
      split at h
      · rename_i t' ht
        cases h
        rw [List.pairwise_cons]
        refine ⟨fun r' hr' => ?_, ih hp.2 ht⟩
        rcases mem_addUnb_key ht hr' with h | ⟨r0, hr0, hk0⟩
        · intro hc; exact hk ⟨hc.1.trans h.1, hc.2.1.trans h.2.1, hc.2.2.trans h.2.2⟩
        · intro hc
          exact hp.1 r0 hr0 ⟨hc.1.trans hk0.1.symm, hc.2.1.trans hk0.2.1.symm, hc.2.2.trans hk0.2.2.symm⟩
      · cases h
      · cases h

structure Uniq (s : St) : Prop where
  bonds : UniqB s.bonds
  unbonds : s.unbonds.Pairwise DiffKey

theorem uniq_recv {s s1 : St} {a : Nat} {amt : Nat → Nat} (hU : Uniq s) (r : Recv s a amt s1) : Uniq s1 := by
  refine ⟨?_, ?_⟩
  · rw [r.bonds]; exact hU.bonds
  · rw [r.unbonds]; exact hU.unbonds

theorem uniq_unbond {s s' : St} {e : Env} {asset : AssetRef} {x : Nat}
    (hU : Uniq s) (h : unbond s e asset x = .ok s') : Uniq s' := by
  obtain ⟨d, b, nb, slash, nu, ng, -, -, -, -, -, -, hu, -, rfl⟩ := unbond_inv h
  refine ⟨?_, addUnb_pairwise hU.unbonds hu⟩
  simp only
  split
  · exact uniqB_del hU.bonds
  · exact uniqB_upd hU.bonds

theorem uniq_withdraw {s s' : St} {e : Env} {d : Nat}
    (hU : Uniq s) (h : withdraw s e d = .ok s') : Uniq s' := by
  obtain ⟨-, -, -, -, -, rfl⟩ := withdraw_inv h
  exact ⟨hU.bonds, hU.unbonds.filter _⟩

theorem uniq_step {cfg : Cfg} {s s' : St} {e : Env} {op : Op}
    (hU : Uniq s) (h : step cfg s e op = .ok s') : Uniq s' := by
  cases op with
  | bond asset x funds =>
    obtain ⟨d, nb, ng, -, -, -, -, -, -, -, -, -, rfl⟩ := bond_inv h
    exact ⟨uniqB_upd hU.bonds, hU.unbonds⟩
  | unbond asset x c =>
    obtain ⟨s1, hr, hk⟩ := withCoins_ok h
    exact uniq_unbond (uniq_recv hU (receive_recv hr)) hk
  | withdraw d c =>
    obtain ⟨s1, hr, hk⟩ := withCoins_ok h
    exact uniq_withdraw (uniq_recv hU (receive_recv hr)) hk
  | config p r c =>
    obtain ⟨s1, hr, hk⟩ := withCoins_ok h
    obtain ⟨-, p', r', rfl⟩ := config_inv hk
    have := uniq_recv hU (receive_recv hr)
    exact ⟨this.bonds, this.unbonds⟩
  | setFd =>
    obtain ⟨-, rfl⟩ := setFd_inv h
    exact ⟨hU.bonds, hU.unbonds⟩
  | send c => exact uniq_recv hU (send_recv h)
  | migrate st cr l =>
    obtain ⟨-, -, ⟨-, -, rfl⟩ | ⟨-, rfl⟩⟩ := migrate_inv h
    · exact ⟨hU.bonds, hU.unbonds⟩
    · exact hU

theorem uniq_reach {cfg : Cfg} (ops : List (Env × Op)) {s : St} (hU : Uniq s) : Uniq (reach cfg s ops) := by
  induction ops generalizing s with
  | nil => exact hU
  | cons eo t ih =>
    apply ih
    unfold stepOrStay
    split
    · rename_i s' h; exact uniq_step hU h
    · exact hU

theorem uniq_init (period rate : Nat) (ubal : Nat → Nat → Nat) : Uniq (init period rate ubal) :=
  ⟨trivial, List.Pairwise.nil⟩

end WW.Lair
