/- C13 `shares_le_one`: what every handler does to (snapshots, weight history, address weights), and
   the shares invariant through every transaction and every epoch-monotone history. -/
import WW.Proofs.Shares
import WW.Proofs.CustodyHist
namespace WW.Inc
open WW WW.Gen

/-- the four ways a transaction at `e.epoch` touches the weight bookkeeping -/
def WEff (s s' : St) (e : Env) : Prop :=
  (s'.snap = s.snap ∧ s'.whist = s.whist ∧ s'.addrW = s.addrW ∧ s'.global = s.global)
  ∨ (alook s.snap e.epoch = none ∧ s'.snap = aset s.snap e.epoch s.global ∧ s'.whist = s.whist
      ∧ s'.addrW = s.addrW ∧ s'.global = s.global)
  ∨ (s'.snap = snapOf s.snap s.global e.epoch
      ∧ ∃ r x, s'.addrW = aset s.addrW r x ∧ s'.whist = aset s.whist (r, e.epoch + 1) x)
  ∨ (s'.snap = s.snap ∧ alook s.snap e.epoch ≠ none ∧ s'.addrW = s.addrW ∧ s'.global = s.global
      ∧ ∃ u, s'.whist = aset (s.whist.filter (fun p => p.1.1 ≠ u)) (u, e.epoch + 1) (aget s.addrW u))

theorem addWeight_weff {s s' : St} {ep : Nat} {r : Addr} {w : Nat} (h : addWeight s ep r w = .ok s') :
    s'.snap = snapOf s.snap s.global ep
    ∧ ∃ x, s'.addrW = aset s.addrW r x ∧ s'.whist = aset s.whist (r, ep + 1) x := by
  unfold addWeight at h
  obtain ⟨_, _, f3, f4, _, _, _, _⟩ := snapIfMissing_frame s ep
  obtain ⟨g, _, h⟩ := bind_eq_ok h
  obtain ⟨uw, _, h⟩ := bind_eq_ok h
  injection h with h
  subst h
  simp only
  rw [f3, f4]
  exact ⟨snapIfMissing_snapOf s ep, uw, rfl, rfl⟩

theorem openPosition_weff {c : Cfg} {s s' : St} {e : Env} {amount dur : Nat} {recv : Option Addr}
    {msgs : List Msg} (h : openPosition c s e amount dur recv = .ok (s', msgs)) : WEff s s' e := by
  unfold openPosition at h
  obtain ⟨_, _, h⟩ := bind_eq_ok h
  obtain ⟨m, _, h⟩ := bind_eq_ok h
  dsimp only at h
  obtain ⟨_, _, h⟩ := bind_eq_ok h
  obtain ⟨w, _, h⟩ := bind_eq_ok h
  obtain ⟨s2, hs2, h⟩ := bind_eq_ok h
  injection h with h
  injection h with h1 h2
  subst h1
  obtain ⟨a1, x, a2, a3⟩ := addWeight_weff hs2
  exact Or.inr (Or.inr (Or.inl ⟨a1, _, x, a2, a3⟩))

theorem expandPosition_weff {c : Cfg} {s s' : St} {e : Env} {amount dur : Nat} {recv : Option Addr}
    {msgs : List Msg} (h : expandPosition c s e amount dur recv = .ok (s', msgs)) : WEff s s' e := by
  unfold expandPosition at h
  obtain ⟨m, _, h⟩ := bind_eq_ok h
  dsimp only at h
  split at h
  · cases h
  · split at h
    · cases h
    · obtain ⟨newAmt, _, h⟩ := bind_eq_ok h
      obtain ⟨t, _, h⟩ := bind_eq_ok h
      obtain ⟨w1, _, h⟩ := bind_eq_ok h
      obtain ⟨w0, _, h⟩ := bind_eq_ok h
      obtain ⟨w, _, h⟩ := bind_eq_ok h
      obtain ⟨s2, hs2, h⟩ := bind_eq_ok h
      injection h with h
      injection h with h1 h2
      subst h1
      obtain ⟨a1, x, a2, a3⟩ := addWeight_weff hs2
      exact Or.inr (Or.inr (Or.inl ⟨a1, _, x, a2, a3⟩))

theorem closePosition_weff {s s' : St} {e : Env} {dur : Nat} {msgs : List Msg}
    (h : closePosition s e dur = .ok (s', msgs)) : WEff s s' e := by
  unfold closePosition at h
  obtain ⟨_, _, h⟩ := bind_eq_ok h
  split at h
  · cases h
  · split at h
    · cases h
    · rename_i p _
      obtain ⟨_, _, h⟩ := bind_eq_ok h
      dsimp only at h
      obtain ⟨w, _, h⟩ := bind_eq_ok h
      injection h with h
      injection h with h1 h2
      subst h1
      obtain ⟨_, _, f3, f4, _, _, _, _⟩ := snapIfMissing_frame ({ s with closedPos := aset s.closedPos e.sender (closedOf s e.sender ++ [{ amt := p.amt, ts := e.time + p.dur }]) }) e.epoch
      have f0 := snapIfMissing_snapOf ({ s with closedPos := aset s.closedPos e.sender (closedOf s e.sender ++ [{ amt := p.amt, ts := e.time + p.dur }]) }) e.epoch
      simp only at f3 f4 f0
      refine Or.inr (Or.inr (Or.inl ⟨f0, e.sender, aget s.addrW e.sender - w, ?_, ?_⟩))
      · simp only; rw [f3]
      · simp only; rw [f3, f4]

theorem claimExec_weff {s s' : St} {e : Env} {m : List Msg} (h : claimExec s e = .ok (s', m)) : WEff s s' e := by
  unfold claimExec at h
  split at h
  · cases h
  · rename_i g hg
    unfold claimCore at h
    split at h
    · cases h
    · split at h
      · injection h with h; injection h with h1 h2; subst h1
        exact Or.inr (Or.inr (Or.inr ⟨rfl, by rw [hg]; simp, rfl, rfl, e.sender, rfl⟩))
      · cases h
      · cases h

theorem takeSnapshot_weff {s s' : St} {e : Env} {m : List Msg} (h : takeSnapshot s e = .ok (s', m)) :
    WEff s s' e := by
  unfold takeSnapshot at h
  split at h
  · cases h
  · rename_i hn
    injection h with h; injection h with h1 h2; subst h1
    exact Or.inr (Or.inl ⟨hn, rfl, rfl, rfl, rfl⟩)

theorem handler_weff {c : Cfg} {s s' : St} {e : Env} {op : Op} {m : List Msg}
    (h : handler c s e op = .ok (s', m)) : WEff s s' e := by
  cases op with
  | openPos amt dur recv => exact openPosition_weff h
  | expandPos amt dur recv => exact expandPosition_weff h
  | closePos dur => exact closePosition_weff h
  | claim => exact claimExec_weff h
  | snapshot => exact takeSnapshot_weff h
  | withdraw =>
    obtain ⟨h1, _⟩ := withdrawOp_spec (s := s) (e := e) h
    subst h1
    exact Or.inl ⟨rfl, rfl, rfl, rfl⟩
  | openFlow a amt st en =>
    obtain ⟨_, _, _, _, _, _, _, _, hs', _⟩ := openFlow_delta h
    subst hs'
    exact Or.inl ⟨rfl, rfl, rfl, rfl⟩
  | expandFlow id a amt en =>
    obtain ⟨_, _, _, _, _, _, _, hs'⟩ := expandFlow_delta h
    subst hs'
    exact Or.inl ⟨rfl, rfl, rfl, rfl⟩
  | closeFlow id =>
    have h : closeFlow s e id = .ok (s', m) := h
    unfold closeFlow at h
    split at h
    · cases h
    · split at h
      · cases h
      · injection h with h; injection h with h1 h2; subst h1
        exact Or.inl ⟨rfl, rfl, rfl, rfl⟩
  | helperDeposit a0 a1 dur => cases h
  | helperDepositAs x0 x1 a0 a1 dur => cases h

theorem WEff.bal_l {s s' : St} {e : Env} (b : Bal) (h : WEff { s with bal := b } s' e) : WEff s s' e := h
theorem WEff.bal_r {s s' : St} {e : Env} (b : Bal) (h : WEff s s' e) : WEff s { s' with bal := b } e := h

theorem step_weff {c : Cfg} {s s' : St} {e : Env} {op : Op} (h : step c s e op = .ok s') : WEff s s' e := by
  unfold step at h
  split at h
  · obtain ⟨b, _, h⟩ := bind_eq_ok h
    unfold helperDeposit at h
    dsimp only at h
    obtain ⟨_, _, h⟩ := bind_eq_ok h
    obtain ⟨b1, _, h⟩ := bind_eq_ok h
    obtain ⟨b2, _, h⟩ := bind_eq_ok h
    obtain ⟨_, _, h⟩ := bind_eq_ok h
    obtain ⟨lp, _, h⟩ := bind_eq_ok h
    obtain ⟨_, _, h⟩ := bind_eq_ok h
    obtain ⟨b3, _, h⟩ := bind_eq_ok h
    obtain ⟨b4, _, h⟩ := bind_eq_ok h
    obtain ⟨_, _, h⟩ := bind_eq_ok h
    obtain ⟨b5, _, h⟩ := bind_eq_ok h
    obtain ⟨⟨s3, msgs⟩, h3, h⟩ := bind_eq_ok h
    obtain ⟨b6, _, h⟩ := bind_eq_ok h
    injection h with h
    subst h
    have : WEff ({ s with bal := b5 } : St) s3 e := by
      split at h3
      · have := expandPosition_weff h3; exact this
      · have := openPosition_weff h3; exact this
    exact this
  · obtain ⟨b, _, h⟩ := bind_eq_ok h
    obtain ⟨⟨s1, msgs⟩, h1, h⟩ := bind_eq_ok h
    obtain ⟨b1, _, h⟩ := bind_eq_ok h
    injection h with h
    subst h
    have := handler_weff h1
    exact this

/-- the shares invariant of a state at epoch `cur` -/
def SInv (s : St) (cur : Nat) : Prop := SI s.snap s.whist s.addrW s.global cur

theorem SInv_of_weff {s s' : St} {e : Env} (hI : SInv s e.epoch) (hG : s'.global = sumVals s'.addrW)
    (h : WEff s s' e) : SInv s' e.epoch := by
  unfold SInv at *
  rcases h with ⟨h1, h2, h3, h4⟩ | ⟨hn, h1, h2, h3, h4⟩ | ⟨h1, r, x, h2, h3⟩ | ⟨h1, hs, h2, h3, u, h4⟩
  · rw [h1, h2, h3, h4]; exact hI
  · rw [h1, h2, h3, h4]; exact hI.snap_new hn
  · rw [h1, h2, h3]
    exact (hI.snapOf).change (snapOf_ne_none _ _ _) r x _ (by rw [hG, h2])
  · rw [h1, h2, h3, h4]; exact hI.claim hs u

theorem step_SInv {c : Cfg} {s s' : St} {e : Env} {op : Op} (hW : WInv s) (hI : SInv s e.epoch)
    (h : step c s e op = .ok s') : SInv s' e.epoch :=
  SInv_of_weff hI (step_WInv hW h).global_sum (step_weff h)

theorem init_SInv (e0 : Nat) (bal : Bal) : SInv (init e0 bal) e0 := by
  unfold SInv init
  simp only
  refine ⟨fun u k _ => rfl, ?_, ?_, ?_, rfl, ?_⟩
  · intro E hE
    simp only [alook]
    rw [if_neg (by omega)]
  · intro hc
    simp [alook] at hc
  · intro u
    rw [effW_none (e0 + 1) (fun k _ => rfl)]
    exact Nat.zero_le _
  · intro E gE _ us _
    have : us.map (fun u => effW ([] : List ((Addr × Nat) × Nat)) u E) = us.map (fun _ => 0) := by
      apply List.map_congr_left
      intro u _
      exact effW_none E (fun k _ => rfl)
    rw [this]
    have : ∀ (l : List Addr), (l.map (fun _ => 0)).sum = 0 := by
      intro l; induction l with
      | nil => rfl
      | cons _ _ ih => simp only [List.map_cons, List.sum_cons, ih]
    rw [this]; exact Nat.zero_le _

theorem reach_SInv {c : Cfg} :
    ∀ (ops : List (Env × Op)) (s : St) (ep : Nat), WInv s → SInv s ep → EpochsFrom ep ops →
      ∃ ep', SInv (reach c s ops) ep' := by
  intro ops
  induction ops with
  | nil => intro s ep _ hI _; exact ⟨ep, hI⟩
  | cons p t ih =>
    intro s ep hW hI hep
    obtain ⟨e, op⟩ := p
    obtain ⟨hle, hep'⟩ := hep
    simp only at hle hep'
    have hI' : SInv s e.epoch := SI.adv hI hle
    show ∃ ep', SInv (reach c (stepOrStay c s e op) t) ep'
    unfold stepOrStay
    split
    · rename_i s' hstep
      exact ih s' e.epoch (step_WInv hW hstep) (step_SInv hW hI' hstep) hep'
    · exact ih s e.epoch hW hI' hep'

/-! ### `effW` is what the claim and rewards loops read -/

/-- what the claim / rewards loops know about address `u` when they reach epoch `ep`, carrying
    `(last_epoch_user_weight_update, last_user_weight_seen) = (lu, ls)`: either an entry was seen at
    `lu < ep` and nothing is recorded strictly between `lu` and `ep`; or nothing is recorded before `ep`
    and `lu`, if non-zero, is the earliest entry (at or after `ep`) -/
def Carry (wh : List ((Addr × Nat) × Nat)) (u : Addr) (ep lu ls : Nat) : Prop :=
  (lu ≠ 0 ∧ lu < ep ∧ alook wh (u, lu) = some ls ∧ ∀ k, lu < k → k < ep → alook wh (u, k) = none)
  ∨ ((∀ k, k < ep → alook wh (u, k) = none)
      ∧ (lu ≠ 0 → ep ≤ lu ∧ alook wh (u, lu) = some ls ∧ ∀ k, k < lu → alook wh (u, k) = none))

theorem effW_carry {wh : List ((Addr × Nat) × Nat)} {u lu ls ep : Nat} (hlt : lu ≤ ep)
    (h1 : alook wh (u, lu) = some ls) (h2 : ∀ k, lu < k → k ≤ ep → alook wh (u, k) = none) :
    effW wh u ep = ls := by
  have : ep = lu + (ep - lu) := by omega
  rw [this, effW_extend (ep - lu) (fun k a b => h2 k a (by omega)), effW_top h1]

/-- one iteration of the epoch loop of `claim.rs` / `get_rewards.rs`: the weight it uses for epoch `ep`
    (`none` = epoch skipped = weight 0) is `effW … u ep`, and the carried pair stays correct -/
theorem weightAt_effW {s : St} {u ep lu ls : Nat} (hep : 1 ≤ ep) (hC : Carry s.whist u ep lu ls) :
    (weightAt s u ep lu ls).2.2.getD 0 = effW s.whist u ep
    ∧ Carry s.whist u (ep + 1) (weightAt s u ep lu ls).1 (weightAt s u ep lu ls).2.1 := by
  unfold weightAt
  cases hl : alook s.whist (u, ep) with
  | some w =>
    simp only [Option.getD_some]
    refine ⟨(effW_top hl).symm, Or.inl ⟨by omega, by omega, hl, fun k a b => by omega⟩⟩
  | none =>
    simp only
    rcases hC with ⟨c1, c2, c3, c4⟩ | ⟨c1, c2⟩
    · have hc : (lu ≠ 0 && decide (lu ≤ ep)) = true := by
        simp only [Bool.and_eq_true, decide_eq_true_eq, ne_eq]
        exact ⟨by simpa using c1, by omega⟩
      rw [if_pos hc]
      simp only [Option.getD_some]
      refine ⟨?_, Or.inl ⟨c1, by omega, c3, ?_⟩⟩
      · rw [effW_carry (by omega) c3]
        intro k a b
        by_cases hk : k = ep
        · rw [hk]; exact hl
        · exact c4 k a (by omega)
      · intro k a b
        by_cases hk : k = ep
        · rw [hk]; exact hl
        · exact c4 k a (by omega)
    · have hall : ∀ k, k ≤ ep → alook s.whist (u, k) = none := by
        intro k hk
        by_cases hke : k = ep
        · rw [hke]; exact hl
        · exact c1 k (by omega)
      have hc : ¬ (lu ≠ 0 && decide (lu ≤ ep)) = true := by
        simp only [Bool.and_eq_true, decide_eq_true_eq, ne_eq, not_and]
        intro h0 hle
        have h0' : lu ≠ 0 := by simpa using h0
        obtain ⟨d1, d2, _⟩ := c2 h0'
        have : lu = ep := by omega
        rw [this, hl] at d2; cases d2
      rw [if_neg hc]
      simp only [Option.getD_none]
      refine ⟨(effW_none ep hall).symm, Or.inr ⟨fun k hk => hall k (by omega), ?_⟩⟩
      intro h0
      obtain ⟨d1, d2, d3⟩ := c2 h0
      refine ⟨?_, d2, d3⟩
      by_contra hcon
      have : lu = ep := by omega
      rw [this, hl] at d2; cases d2
/-! ### from weights to shares and payouts (floor arithmetic) -/

theorem div_add_div_le (x y g : Nat) (hg : 0 < g) : x / g + y / g ≤ (x + y) / g := by
  apply (Nat.le_div_iff_mul_le hg).mpr
  have h1 := Nat.div_mul_le_self x g
  have h2 := Nat.div_mul_le_self y g
  rw [Nat.add_mul]; omega

theorem sum_div_le (us : List Addr) (f : Addr → Nat) (D g : Nat) (hg : 0 < g) :
    (us.map (fun u => f u * D / g)).sum ≤ (us.map f).sum * D / g := by
  induction us with
  | nil => simp
  | cons u t ih =>
    simp only [List.map_cons, List.sum_cons]
    have := div_add_div_le (f u * D) ((t.map f).sum * D) g hg
    rw [Nat.add_mul]
    omega

/-- weights adding up to at most `g > 0` give shares (`Decimal256::from_ratio(w, g)`, 18 decimals, floor)
    adding up to at most 1, and payouts (`emission * share`, floor) adding up to at most the emission -/
theorem shares_of_weights (us : List Addr) (f : Addr → Nat) (g : Nat) (hg : 0 < g) (h : (us.map f).sum ≤ g) :
    (us.map (fun u => f u * E18 / g)).sum ≤ E18
    ∧ ∀ emission, (us.map (fun u => emission * (f u * E18 / g) / E18)).sum ≤ emission := by
  have h1 : (us.map (fun u => f u * E18 / g)).sum ≤ E18 := by
    have a := sum_div_le us f E18 g hg
    have b : (us.map f).sum * E18 / g ≤ g * E18 / g := Nat.div_le_div_right (Nat.mul_le_mul_right _ h)
    rw [Nat.mul_div_cancel_left _ hg] at b
    omega
  refine ⟨h1, ?_⟩
  intro emission
  have a := sum_div_le us (fun u => f u * E18 / g) emission E18 E18_pos
  have hcomm : us.map (fun u => emission * (f u * E18 / g) / E18) = us.map (fun u => f u * E18 / g * emission / E18) := by
    apply List.map_congr_left; intro u _; rw [Nat.mul_comm]
  rw [hcomm]
  have b : (us.map (fun u => f u * E18 / g)).sum * emission / E18 ≤ E18 * emission / E18 :=
    Nat.div_le_div_right (Nat.mul_le_mul_right _ h1)
  rw [Nat.mul_div_cancel_left _ E18_pos] at b
  omega

end WW.Inc
