/- C13: the share query (`QueryMsg::CurrentEpochRewardsShare`, model `qShare`) reads the same weight as the
   claim loop and the rewards query: its lookup "entry with the largest epoch `≤ E` in the address's filtered
   history map" is `effW`. Needs that the weight history holds at most one entry per (address, epoch) — an
   invariant of every history (`reach_wkeys`, no assumption on epochs). -/
import WW.Proofs.SharesHist
import WW.Proofs.ClaimWeights
namespace WW.Inc
open WW WW.Gen

/-- at most one `ADDRESS_WEIGHT_HISTORY` entry per (address, epoch) -/
def WKeys (wh : List ((Addr × Nat) × Nat)) : Prop := (wh.map (·.1)).Nodup

section Generic
variable {κ α : Type} [DecidableEq κ]

theorem mem_keys_aset {l : List (κ × α)} {k : κ} {v : α} {x : κ} (h : x ∈ (aset l k v).map (·.1)) :
    x = k ∨ x ∈ l.map (·.1) := by
  induction l with
  | nil =>
    simp only [aset, List.map_cons, List.map_nil, List.mem_singleton] at h
    exact Or.inl h
  | cons y t ih =>
    obtain ⟨k', v'⟩ := y
    unfold aset at h
    split at h
    · simp only [List.map_cons, List.mem_cons] at h ⊢
      rcases h with h | h
      · exact Or.inl h
      · exact Or.inr (Or.inr h)
    · simp only [List.map_cons, List.mem_cons] at h ⊢
      rcases h with h | h
      · exact Or.inr (Or.inl h)
      · rcases ih h with h | h
        · exact Or.inl h
        · exact Or.inr (Or.inr h)

theorem nodup_keys_aset' {l : List (κ × α)} (k : κ) (v : α) (hn : (l.map (·.1)).Nodup) :
    ((aset l k v).map (·.1)).Nodup := by
  induction l with
  | nil => simp [aset]
  | cons y t ih =>
    obtain ⟨k', v'⟩ := y
    simp only [List.map_cons, List.nodup_cons] at hn
    unfold aset
    split
    · rename_i hk
      subst hk
      simp only [List.map_cons, List.nodup_cons]
      exact hn
    · rename_i hk
      simp only [List.map_cons, List.nodup_cons]
      refine ⟨?_, ih hn.2⟩
      intro hm
      rcases mem_keys_aset hm with h | h
      · exact hk h
      · exact hn.1 h

theorem nodup_keys_filter {l : List (κ × α)} (p : κ × α → Bool) (hn : (l.map (·.1)).Nodup) :
    ((l.filter p).map (·.1)).Nodup := by
  induction l with
  | nil => simp
  | cons y t ih =>
    simp only [List.map_cons, List.nodup_cons] at hn
    by_cases hp : p y = true
    · rw [List.filter_cons_of_pos hp]
      simp only [List.map_cons, List.nodup_cons]
      refine ⟨?_, ih hn.2⟩
      intro hm
      apply hn.1
      obtain ⟨q, hq, hqk⟩ := List.mem_map.mp hm
      exact List.mem_map.mpr ⟨q, (List.mem_filter.mp hq).1, hqk⟩
    · rw [List.filter_cons_of_neg hp]
      exact ih hn.2

/-- with distinct keys, `alook` finds an entry iff it is a member -/
theorem alook_eq_some_iff {l : List (κ × α)} (hn : (l.map (·.1)).Nodup) (k : κ) (v : α) :
    alook l k = some v ↔ (k, v) ∈ l := by
  induction l with
  | nil => simp [alook]
  | cons y t ih =>
    obtain ⟨k', v'⟩ := y
    simp only [List.map_cons, List.nodup_cons] at hn
    unfold alook
    split
    · rename_i hk
      subst hk
      constructor
      · intro h; injection h with h; subst h; exact List.mem_cons_self
      · intro h
        rcases List.mem_cons.mp h with h | h
        · injection h with _ h2; rw [h2]
        · exact absurd (List.mem_map.mpr ⟨(k', v), h, rfl⟩) hn.1
    · rename_i hk
      rw [ih hn.2]
      constructor
      · intro h; exact List.mem_cons_of_mem _ h
      · intro h
        rcases List.mem_cons.mp h with h | h
        · injection h with h1 _; exact absurd h1.symm hk
        · exact h

theorem alook_eq_none_iff {l : List (κ × α)} (k : κ) :
    alook l k = none ↔ ∀ p ∈ l, p.1 ≠ k := by
  induction l with
  | nil => simp [alook]
  | cons y t ih =>
    obtain ⟨k', v'⟩ := y
    unfold alook
    split
    · rename_i hk
      constructor
      · intro h; cases h
      · intro h; exact absurd hk (h (k', v') List.mem_cons_self)
    · rename_i hk
      rw [ih]
      constructor
      · intro h p hp
        rcases List.mem_cons.mp hp with hp | hp
        · subst hp; exact hk
        · exact h p hp
      · intro h p hp; exact h p (List.mem_cons_of_mem _ hp)

end Generic

/-! ### the invariant over all histories -/

theorem weff_wkeys {s s' : St} {e : Env} (hk : WKeys s.whist) (h : WEff s s' e) : WKeys s'.whist := by
  unfold WKeys at *
  rcases h with ⟨_, h, _⟩ | ⟨_, _, h, _⟩ | ⟨_, _, _, _, h⟩ | ⟨_, _, _, _, _, h⟩
  · rw [h]; exact hk
  · rw [h]; exact hk
  · rw [h]; exact nodup_keys_aset' _ _ hk
  · rw [h]; exact nodup_keys_aset' _ _ (nodup_keys_filter _ hk)

theorem step_wkeys {c : Cfg} {s s' : St} {e : Env} {op : Op} (hk : WKeys s.whist)
    (h : step c s e op = .ok s') : WKeys s'.whist :=
  weff_wkeys hk (step_weff h)

theorem reach_wkeys {c : Cfg} : ∀ (ops : List (Env × Op)) (s : St), WKeys s.whist → WKeys (reach c s ops).whist := by
  intro ops
  induction ops with
  | nil => intro s h; exact h
  | cons p t ih =>
    intro s h
    obtain ⟨e, op⟩ := p
    show WKeys (reach c (stepOrStay c s e op) t).whist
    apply ih
    unfold stepOrStay
    split
    · rename_i s' hs; exact step_wkeys h hs
    · exact h

theorem init_wkeys (e0 : Nat) (bal : Bal) : WKeys (init e0 bal).whist := by
  unfold WKeys init; simp

/-! ### the query's filtered map -/

theorem mem_mineOf {wh : List ((Addr × Nat) × Nat)} {u : Addr} {k w : Nat} :
    (k, w) ∈ mineOf wh u ↔ ((u, k), w) ∈ wh := by
  unfold mineOf
  constructor
  · intro h
    obtain ⟨p, hp, hpe⟩ := List.mem_map.mp h
    obtain ⟨hp1, hp2⟩ := List.mem_filter.mp hp
    obtain ⟨⟨a, b⟩, c⟩ := p
    simp only [decide_eq_true_eq] at hp2
    injection hpe with h1 h2
    simp only at h1 h2 hp2
    subst h1; subst h2; subst hp2
    exact hp1
  · intro h
    exact List.mem_map.mpr ⟨((u, k), w), List.mem_filter.mpr ⟨h, by simp⟩, rfl⟩

theorem mineOf_keys_nodup {wh : List ((Addr × Nat) × Nat)} (hk : WKeys wh) (u : Addr) :
    (keysOf (mineOf wh u)).Nodup := by
  unfold WKeys at hk
  unfold keysOf mineOf
  induction wh with
  | nil => simp
  | cons y t ih =>
    simp only [List.map_cons, List.nodup_cons] at hk
    by_cases hy : y.1.1 = u
    · rw [List.filter_cons_of_pos (by simpa using hy)]
      simp only [List.map_cons, List.nodup_cons]
      refine ⟨?_, ih hk.2⟩
      intro hm
      apply hk.1
      simp only [List.map_map] at hm
      obtain ⟨q, hq, hqk⟩ := List.mem_map.mp hm
      obtain ⟨hq1, hq2⟩ := List.mem_filter.mp hq
      simp only [decide_eq_true_eq] at hq2
      simp only [Function.comp] at hqk
      refine List.mem_map.mpr ⟨q, hq1, ?_⟩
      obtain ⟨⟨a, b⟩, c⟩ := q
      obtain ⟨⟨a', b'⟩, c'⟩ := y
      simp only at hq2 hy hqk ⊢
      rw [hq2, hy, hqk]
    · rw [List.filter_cons_of_neg (by simpa using hy)]
      exact ih hk.2

/-- no entry for the address: every weight in effect is 0 -/
theorem effW_no_entries {wh : List ((Addr × Nat) × Nat)} {u : Addr} (hn : ∀ k, alook wh (u, k) = none) :
    ∀ E, effW wh u E = 0 := by
  intro E
  induction E with
  | zero => unfold effW; rw [hn 0]; rfl
  | succ E ih => unfold effW; rw [hn (E + 1)]; exact ih

/-- **the share query's lookup is `effW`** -/
theorem seenAt_eq_effW {wh : List ((Addr × Nat) × Nat)} (hk : WKeys wh) (u : Addr) :
    ∀ E, seenAt wh u E = effW wh u E := by
  have hmn := mineOf_keys_nodup hk u
  have hfn : ∀ E, (keysOf ((mineOf wh u).filter (fun p => decide (p.1 ≤ E)))).Nodup := by
    intro E
    unfold keysOf at hmn ⊢
    exact nodup_keys_filter _ hmn
  -- the case "there is an entry at exactly E"
  have top : ∀ E w, alook wh (u, E) = some w → seenAt wh u E = w := by
    intro E w hw
    have hm : (E, w) ∈ mineOf wh u := mem_mineOf.mpr ((alook_eq_some_iff hk _ _).mp hw)
    unfold seenAt
    rw [maxKeyLE_eq_filter]
    have : maxKey ((mineOf wh u).filter (fun p => decide (p.1 ≤ E))) = some (E, w) := by
      rw [maxKey_some_iff (hfn E)]
      refine ⟨List.mem_filter.mpr ⟨hm, by simp⟩, ?_⟩
      intro q hq
      have := (List.mem_filter.mp hq).2
      simpa using this
    rw [this]
  intro E
  induction E with
  | zero =>
    unfold effW
    cases hw : alook wh (u, 0) with
    | some w => rw [top 0 w hw]; rfl
    | none =>
      unfold seenAt
      rw [maxKeyLE_eq_filter]
      have : (mineOf wh u).filter (fun p => decide (p.1 ≤ 0)) = [] := by
        apply List.filter_eq_nil_iff.mpr
        intro p hp hle
        simp only [decide_eq_true_eq] at hle
        obtain ⟨k, w⟩ := p
        simp only at hle
        have hk0 : k = 0 := by omega
        subst hk0
        have := (alook_eq_none_iff (u, 0)).mp hw ((u, 0), w) (mem_mineOf.mp hp)
        exact this rfl
      rw [this]
      rfl
  | succ E ih =>
    unfold effW
    cases hw : alook wh (u, E + 1) with
    | some w => rw [top (E + 1) w hw]
    | none =>
      simp only
      rw [← ih]
      unfold seenAt
      rw [maxKeyLE_eq_filter, maxKeyLE_eq_filter]
      have : (mineOf wh u).filter (fun p => decide (p.1 ≤ E + 1))
          = (mineOf wh u).filter (fun p => decide (p.1 ≤ E)) := by
        apply List.filter_congr
        intro p hp
        obtain ⟨k, w⟩ := p
        have hne : k ≠ E + 1 := by
          intro hke
          subst hke
          exact (alook_eq_none_iff (u, E + 1)).mp hw ((u, E + 1), w) (mem_mineOf.mp hp) rfl
        simp only
        by_cases h1 : k ≤ E
        · rw [decide_eq_true h1, decide_eq_true (Nat.le_succ_of_le h1)]
        · have h2 : ¬ k ≤ E + 1 := by omega
          rw [decide_eq_false h1, decide_eq_false h2]
      rw [this]

/-- what a successful share query answers, in any state with distinct history keys: the weight in effect
    (`effW`), the epoch's snapshot (0 if the address has no history and no snapshot exists) and the floor
    share `weight · 10^18 / snapshot` (0 for a zero snapshot) -/
theorem qShare_spec {s : St} (hk : WKeys s.whist) {u : Addr} {E w g sh : Nat}
    (h : qShare s u E = .ok (w, g, sh)) :
    w = effW s.whist u E ∧ g = aget s.snap E ∧ sh = w * E18 / g := by
  unfold qShare at h
  split at h
  · rename_i hearl
    injection h with h
    injection h with h1 h2
    injection h2 with h2 h3
    have hno := (earliest_spec s.whist u).1 hearl
    refine ⟨?_, h2.symm, ?_⟩
    · rw [← h1, effW_no_entries hno E]
    · rw [← h3, ← h1]; simp
  · simp only at h
    rw [seenAt_eq_effW hk u E] at h
    split at h
    · cases h
    · rename_i g' hg'
      have hag : aget s.snap E = g' := by unfold aget; rw [hg']; rfl
      split at h
      · rename_i hz
        injection h with h
        injection h with h1 h2
        injection h2 with h2 h3
        refine ⟨h1.symm, by rw [hag, h2], ?_⟩
        rw [← h3, ← h2, hz]; simp
      · rename_i hnz
        cases hd : dec256FromRatio (effW s.whist u E) g' with
        | ok sh' =>
          rw [hd] at h
          injection h with h
          injection h with h1 h2
          injection h2 with h2 h3
          unfold dec256FromRatio mulRatioP at hd
          rw [if_neg hnz] at hd
          split at hd
          · injection hd with hd
            refine ⟨h1.symm, by rw [hag, h2], ?_⟩
            rw [← h3, ← hd, ← h1, ← h2]
          · cases hd
        | err => rw [hd] at h; cases h
        | panic => rw [hd] at h; cases h

end WW.Inc
