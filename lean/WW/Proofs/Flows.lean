/- Ledger / flow / custody lemmas for the incentive model (C11, C12). -/
import WW.Proofs.Claim
namespace WW.Inc
open WW WW.Gen

/-! ### token ledger -/

theorem moveBal_dst {b : Bal} {src dst : Addr} {a amt : Nat} (h : src ≠ dst) :
    aget (moveBal b src dst a amt) (dst, a) = aget b (dst, a) + amt := by
  unfold moveBal
  simp only
  rw [aget_aset_same]
  have : (dst, a) ≠ (src, a) := fun he => h (by injection he with h1 _; exact h1.symm)
  rw [aget_aset_other _ _ this]

theorem moveBal_src {b : Bal} {src dst : Addr} {a amt : Nat} (h : src ≠ dst) :
    aget (moveBal b src dst a amt) (src, a) = aget b (src, a) - amt := by
  unfold moveBal
  simp only
  have : (src, a) ≠ (dst, a) := fun he => h (by injection he with h1 _)
  rw [aget_aset_other _ _ this, aget_aset_same]

theorem moveBal_other {b : Bal} {src dst : Addr} {a amt : Nat} {k : Addr × Nat}
    (h1 : k ≠ (src, a)) (h2 : k ≠ (dst, a)) : aget (moveBal b src dst a amt) k = aget b k := by
  unfold moveBal
  simp only
  rw [aget_aset_other _ _ h2, aget_aset_other _ _ h1]

/-- one outgoing transfer applied to the ledger -/
theorem applyMsgs_send {c : Cfg} {b b' : Bal} {allow : List (Nat × Nat)} {src dst : Addr} {a amt : Nat}
    (h : applyMsgs c b allow [.send src dst a amt] = .ok b') : b' = moveBal b src dst a amt ∧ amt ≤ aget b (src, a) := by
  unfold applyMsgs at h
  unfold applyMsg at h
  simp only at h
  split at h
  · rename_i b1 al heq
    split at heq
    · split at heq
      · cases heq
      · split at heq
        · cases heq
        · injection heq with heq; injection heq with h1 h2
          subst h1
          unfold applyMsgs at h
          injection h with h
          exact ⟨h.symm, by omega⟩
    · split at heq
      · cases heq
      · split at heq
        · cases heq
        · injection heq with heq; injection heq with h1 h2
          subst h1
          unfold applyMsgs at h
          injection h with h
          exact ⟨h.symm, by omega⟩
  · cases h
  · cases h

/-! ### flows -/

theorem findFlow_removeFlow (fl : List Flow) (id : Nat) : findFlow (removeFlow fl id) id = none := by
  unfold findFlow removeFlow
  apply List.find?_eq_none.mpr
  intro x hx
  have := (List.mem_filter.mp hx).2
  simpa using this

/-- `close_flow`: who may close, what is paid to whom, and that the flow is gone -/
theorem closeFlow_spec {s s' : St} {e : Env} {id : Nat} {m : List Msg} (h : closeFlow s e id = .ok (s', m)) :
    ∃ f, findFlow s.flows id = some f ∧ (f.creator = e.sender ∨ e.sender = OWNER)
      ∧ m = [.send INC f.creator f.asset (f.funded - f.claimed)]
      ∧ s'.flows = removeFlow s.flows id ∧ s'.bal = s.bal := by
  unfold closeFlow at h
  split at h
  · cases h
  · rename_i f hf
    split at h
    · cases h
    · rename_i hauth
      simp only [Bool.not_eq_true', Bool.or_eq_false_iff, decide_eq_false_iff_not, not_and_or, not_not] at hauth
      injection h with h; injection h with h1 h2; subst h1
      refine ⟨f, hf, ?_, h2.symm, rfl, rfl⟩
      by_cases hc : f.creator = e.sender
      · exact Or.inl hc
      · rcases hauth with h | h
        · exact absurd h (by simpa using hc)
        · right; simpa using h

theorem attachFunds_nil {c : Cfg} {b : Bal} {x y : Addr} : attachFunds c b x y [] = .ok b := rfl

/-- `close_flow` as a whole transaction (no funds attached) -/
theorem step_closeFlow {c : Cfg} {s s' : St} {e : Env} {id : Nat} (hoff : e.offers = [])
    (h : step c s e (.closeFlow id) = .ok s') :
    ∃ f, findFlow s.flows id = some f ∧ (f.creator = e.sender ∨ e.sender = OWNER)
      ∧ findFlow s'.flows id = none
      ∧ (f.creator ≠ INC →
          balOf s' f.creator f.asset = balOf s f.creator f.asset + (f.funded - f.claimed)
          ∧ balOf s' INC f.asset + (f.funded - f.claimed) = balOf s INC f.asset) := by
  unfold step at h
  simp only at h
  rw [hoff] at h
  have hf0 : fundsOf c ([] : List (Nat × Nat)) = [] := rfl
  rw [hf0, attachFunds_nil] at h
  rw [Res.bind_ok] at h
  obtain ⟨⟨s1, msgs⟩, h1, h⟩ := bind_eq_ok h
  obtain ⟨b1, hb1, h⟩ := bind_eq_ok h
  injection h with h
  subst h
  have h1' : closeFlow { s with bal := s.bal } e id = .ok (s1, msgs) := h1
  obtain ⟨f, hf, hauth, hm, hfl, hbal⟩ := closeFlow_spec h1'
  refine ⟨f, hf, hauth, ?_, ?_⟩
  · simp only [hfl]; exact findFlow_removeFlow _ _
  · intro hne
    rw [hm] at hb1
    obtain ⟨hb, hle⟩ := applyMsgs_send hb1
    simp only [balOf]
    rw [hb, hbal]
    have hne' : INC ≠ f.creator := Ne.symm hne
    rw [moveBal_dst hne', moveBal_src hne']
    constructor
    · rfl
    · rw [hbal] at hle; omega

end WW.Inc

namespace WW.Inc
open WW WW.Gen

/-! ### withdraw -/

def closedSum : List ClosedPos → Nat
  | [] => 0
  | p :: t => closedSum t + p.amt

theorem sumClosed_eq {l : List ClosedPos} {tot : Nat} (h : sumClosed l = .ok tot) : tot = closedSum l := by
  induction l generalizing tot with
  | nil => unfold sumClosed at h; injection h with h; exact h.symm
  | cons p t ih =>
    unfold sumClosed at h
    obtain ⟨r, hr, h⟩ := bind_eq_ok h
    obtain ⟨h1, _⟩ := cadd_eq_ok h
    rw [h1, ih hr]; rfl

theorem withdrawOp_spec {s s' : St} {e : Env} {m : List Msg} (h : withdrawOp s e = .ok (s', m)) :
    s' = { s with closedPos := aset s.closedPos e.sender [] }
    ∧ m = (if closedSum (closedOf s e.sender) = 0 then [] else [.send INC e.sender 0 (closedSum (closedOf s e.sender))]) := by
  unfold withdrawOp at h
  obtain ⟨tot, ht, h⟩ := bind_eq_ok h
  have := sumClosed_eq ht
  subst this
  dsimp only at h
  split at h
  · rename_i h0
    injection h with h; injection h with h1 h2
    exact ⟨h1.symm, by rw [if_pos h0]; exact h2.symm⟩
  · rename_i h0
    injection h with h; injection h with h1 h2
    exact ⟨h1.symm, by rw [if_neg h0]; exact h2.symm⟩

theorem closedOf_aset_same (s : St) (r : Addr) (ps : List ClosedPos) :
    closedOf { s with closedPos := aset s.closedPos r ps } r = ps := by
  simp [closedOf, alook_aset_same]

theorem closedOf_aset_other (s : St) {r u : Addr} (ps : List ClosedPos) (h : u ≠ r) :
    closedOf { s with closedPos := aset s.closedPos r ps } u = closedOf s u := by
  simp [closedOf, alook_aset_other _ _ h]

/-- `withdraw` as a whole transaction (no funds attached): the sender gets exactly the sum of the
    sender's closed positions out of the contract's LP balance, the sender's closed positions are gone,
    nobody else's positions or LP balance move -/
theorem step_withdraw {c : Cfg} {s s' : St} {e : Env} (hoff : e.offers = []) (hne : e.sender ≠ INC)
    (h : step c s e .withdraw = .ok s') :
    balOf s' e.sender 0 = balOf s e.sender 0 + closedSum (closedOf s e.sender)
    ∧ balOf s' INC 0 + closedSum (closedOf s e.sender) = balOf s INC 0
    ∧ closedOf s' e.sender = []
    ∧ (∀ v, v ≠ e.sender → closedOf s' v = closedOf s v)
    ∧ (∀ v, openOf s' v = openOf s v)
    ∧ (∀ v, v ≠ e.sender → v ≠ INC → balOf s' v 0 = balOf s v 0) := by
  unfold step at h
  simp only at h
  rw [hoff] at h
  have hf0 : fundsOf c ([] : List (Nat × Nat)) = [] := rfl
  rw [hf0, attachFunds_nil] at h
  rw [Res.bind_ok] at h
  obtain ⟨⟨s1, msgs⟩, h1, h⟩ := bind_eq_ok h
  obtain ⟨b1, hb1, h⟩ := bind_eq_ok h
  injection h with h
  subst h
  have h1' : withdrawOp { s with bal := s.bal } e = .ok (s1, msgs) := h1
  obtain ⟨hs1, hm⟩ := withdrawOp_spec h1'
  have hcl : closedOf { s with bal := s.bal } e.sender = closedOf s e.sender := rfl
  rw [hcl] at hm
  subst hs1
  have hpos : (∀ v, v ≠ e.sender → closedOf ({ s with closedPos := aset s.closedPos e.sender [], bal := b1 } : St) v = closedOf s v) := by
    intro v hv; simp [closedOf, alook_aset_other _ _ hv]
  have hsame : closedOf ({ s with closedPos := aset s.closedPos e.sender [], bal := b1 } : St) e.sender = [] := by
    simp [closedOf, alook_aset_same]
  by_cases h0 : closedSum (closedOf s e.sender) = 0
  · rw [if_pos h0] at hm
    subst hm
    unfold applyMsgs at hb1
    injection hb1 with hb1
    subst hb1
    rw [h0]
    exact ⟨rfl, rfl, hsame, hpos, fun v => rfl, fun v _ _ => rfl⟩
  · rw [if_neg h0] at hm
    subst hm
    obtain ⟨hb, hle⟩ := applyMsgs_send hb1
    simp only [balOf]
    rw [hb]
    have hne' : INC ≠ e.sender := Ne.symm hne
    refine ⟨moveBal_dst hne', ?_, hsame, hpos, fun v => rfl, ?_⟩
    · rw [moveBal_src hne']; simp only at hle ⊢; omega
    · intro v hv1 hv2
      apply moveBal_other
      · intro he; injection he with he1 _; exact hv2 he1
      · intro he; injection he with he1 _; exact hv1 he1

/-! ### a position is only created or expanded against the stated LP amount -/

theorem validateFunds_spec {c : Cfg} {e : Env} {amount : Nat} {m : List Msg} (h : validateFunds c e amount = .ok m) :
    amount ≠ 0 ∧ ((c.native 0 = true ∧ fundsOf c e.offers = [(0, amount)] ∧ m = [])
      ∨ (c.native 0 = false ∧ amount ≤ aget (allowOf c e.offers) 0 ∧ m = [.pull e.sender INC 0 amount])) := by
  unfold validateFunds at h
  split at h
  · cases h
  · rename_i h0
    refine ⟨h0, ?_⟩
    split at h
    · rename_i hn
      left
      obtain ⟨paid, hp, h⟩ := bind_eq_ok h
      split at h
      · cases h
      · rename_i hpa
        simp only [ne_eq, not_not] at hpa
        injection h with h
        refine ⟨hn, ?_, h.symm⟩
        unfold mustPay at hp
        split at hp
        · rename_i d v hfun
          split at hp
          · cases hp
          · split at hp
            · rename_i hd
              injection hp with hp
              rw [hfun, hd, hp, hpa]
            · cases hp
        · cases hp
    · rename_i hn
      right
      split at h
      · cases h
      · rename_i hal
        injection h with h
        exact ⟨by simpa using hn, by omega, h.symm⟩

/-- the funds part of `expand_flow` (after the repair): a cw20 expansion pulls exactly `amount` from the
    sender, a native one requires exactly `amount` of the denom (and nothing else) attached -/
theorem expandFlowFunds_spec {c : Cfg} {e : Env} {a amount : Nat} {m : List Msg}
    (h : expandFlowFunds c e a amount = .ok m) :
    (c.native a = true ∧ fundsOf c e.offers = [(a, amount)] ∧ amount ≠ 0 ∧ m = [])
    ∨ (c.native a = false ∧ amount ≤ aget (allowOf c e.offers) a ∧ m = [.pull e.sender INC a amount]) := by
  unfold expandFlowFunds at h
  split at h
  · rename_i hn
    left
    split at h
    · rename_i paid hp
      split at h
      · rename_i hpa
        injection h with h
        unfold mustPay at hp
        split at hp
        · rename_i d v hfun
          split at hp
          · cases hp
          · rename_i hv
            split at hp
            · rename_i hd
              injection hp with hp
              refine ⟨hn, by rw [hfun, hd, hp, hpa], by omega, h.symm⟩
            · cases hp
        · cases hp
      · cases h
    · cases h
    · cases h
  · rename_i hn
    right
    split at h
    · rename_i hal
      injection h with h
      exact ⟨by simpa using hn, hal, h.symm⟩
    · cases h

end WW.Inc

namespace WW.Inc
open WW WW.Gen

/-! ### positions: what open / expand / close do to the recorded amounts -/

def openSum : List OpenPos → Nat
  | [] => 0
  | p :: t => p.amt + openSum t

theorem openSum_append (a b : List OpenPos) : openSum (a ++ b) = openSum a + openSum b := by
  induction a with
  | nil => simp [openSum]
  | cons p t ih => simp [openSum, ih]; omega

/-- `open_position` records exactly the stated amount for the receiver, against exactly that amount of
    LP: attached as the only coin (native LP) or pulled from the sender by the emitted `TransferFrom`
    (cw20 LP; if the pull fails the whole transaction fails) -/
theorem openPosition_receipt {c : Cfg} {s s' : St} {e : Env} {amount dur : Nat} {recv : Option Addr}
    {msgs : List Msg} (h : openPosition c s e amount dur recv = .ok (s', msgs)) :
    amount ≠ 0
    ∧ ((c.native 0 = true ∧ fundsOf c e.offers = [(0, amount)] ∧ msgs = [])
        ∨ (c.native 0 = false ∧ msgs = [.pull e.sender INC 0 amount]))
    ∧ openOf s' (recv.getD e.sender) = openOf s (recv.getD e.sender) ++ [{ dur := dur, amt := amount }]
    ∧ (∀ v, v ≠ recv.getD e.sender → openOf s' v = openOf s v) := by
  unfold openPosition at h
  obtain ⟨_, _, h⟩ := bind_eq_ok h
  obtain ⟨m, hm, h⟩ := bind_eq_ok h
  dsimp only at h
  obtain ⟨_, _, h⟩ := bind_eq_ok h
  obtain ⟨w, _, h⟩ := bind_eq_ok h
  obtain ⟨s2, hs2, h⟩ := bind_eq_ok h
  injection h with h
  injection h with h1 h2
  subst h1 h2
  obtain ⟨a1, _, _, _, _, _⟩ := addWeight_spec hs2
  simp only at a1
  obtain ⟨hne, hv⟩ := validateFunds_spec hm
  refine ⟨hne, ?_, ?_, ?_⟩
  · rcases hv with ⟨x, y, z⟩ | ⟨x, _, z⟩
    · exact Or.inl ⟨x, y, z⟩
    · exact Or.inr ⟨x, z⟩
  · show (alook s2.openPos _).getD [] = _
    rw [a1, alook_aset_same]; rfl
  · intro v hv
    show (alook s2.openPos v).getD [] = _
    rw [a1, alook_aset_other _ _ hv]; rfl

end WW.Inc
