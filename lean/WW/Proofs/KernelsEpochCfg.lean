/-
  Helpers for `WW/Props/Kernels/{EpochCfg,EpochClock,DistGrace}.lean`: the common shape of the generated
  one-test validators.  Core Lean only.
-/
import WW.Gen.Kernels
import WW.Proofs.Kernels
namespace WW

/-- `if p { return Err(..) } Ok(())` as generated = `guardErr (!p)` -/
theorem validator_shape (p : Prop) [Decidable p] :
    ((if p then (Res.err : Res Unit) else Res.ok ()) >>= fun _ => Res.ok ()) = guardErr (!(decide p)) := by
  by_cases h : p
  · rw [if_pos h, Res.bind_err_s, decide_eq_true h]; rfl
  · rw [if_neg h, Res.bind_ok_s, decide_eq_false h]; rfl

/-- `guardErr b = ok ⇔ b` -/
theorem guardErr_ok_iff (b : Bool) : guardErr b = Res.ok () ↔ b = true := by
  cases b
  · exact ⟨fun h => (by cases h), fun h => (by cases h)⟩
  · exact ⟨fun _ => rfl, fun _ => rfl⟩

end WW
