/- C12: the flow invariant (distinct ids, claimed ≤ funded) and the backing inequality
   `Σ_flows(funded − claimed) [+ staked LP] ≤ contract balance`, per handler, per step, per history. -/
import WW.Proofs.FlowDelta
namespace WW.Inc
open WW WW.Gen

/-! ### the flow invariant -/

structure FInv (s : St) : Prop where
  ids_nodup : (flowIds s.flows).Nodup
  ids_le : ∀ f ∈ s.flows, f.id ≤ s.flowCounter
  claimed_le : ∀ f ∈ s.flows, f.claimed ≤ f.funded
  hist_nodup : ∀ f ∈ s.flows, (keysOf f.hist).Nodup

theorem FInv.frame {s s' : St} (h : FInv s) (h1 : s'.flows = s.flows) (h2 : s'.flowCounter = s.flowCounter) :
    FInv s' := by
  constructor
  · rw [h1]; exact h.ids_nodup
  · rw [h1, h2]; exact h.ids_le
  · rw [h1]; exact h.claimed_le
  · rw [h1]; exact h.hist_nodup

theorem init_FInv (e0 : Nat) (bal : Bal) : FInv (init e0 bal) := by
  constructor
  · simp [init, flowIds]
  · intro f hf; cases hf
  · intro f hf; cases hf
  · intro f hf; cases hf

/-- what the contract owes in asset `a`: the flows' unclaimed funds, plus everything staked when `a` is
    the LP asset -/
def owed (s : St) (a : Nat) : Nat := ffSum a s.flows + (if a = 0 then staked s else 0)

/-! ### small ledger facts -/

theorem att_nonnative {c : Cfg} {a : Nat} (h : c.native a = false) (l : List (Nat × Nat)) : att c a l = 0 := by
  induction l with
  | nil => rfl
  | cons p t ih =>
    simp only [att, ih]
    have : ¬ (c.native p.1 = true ∧ p.1 = a) := fun hh => by rw [hh.2, h] at hh; cases hh.1
    rw [if_neg this]

theorem att_single {c : Cfg} {a v : Nat} (h : c.native a = true) (a' : Nat) :
    att c a' [(a, v)] = if a = a' then v else 0 := by
  simp only [att, h, true_and]; omega

theorem mem_le_att {c : Cfg} {l : List (Nat × Nat)} {p : Nat × Nat} (hp : p ∈ l) (hn : c.native p.1 = true) :
    p.2 ≤ att c p.1 l := by
  induction l with
  | nil => cases hp
  | cons q t ih =>
    simp only [att]
    rcases List.mem_cons.mp hp with hp | hp
    · subst hp
      have : (c.native p.1 = true ∧ p.1 = p.1) := ⟨hn, rfl⟩
      rw [if_pos this]; omega
    · have := ih hp; omega

theorem alook_le_att {c : Cfg} {l : List (Nat × Nat)} {k v : Nat} (h : alook l k = some v)
    (hn : c.native k = true) : v ≤ att c k l :=
  mem_le_att (p := (k, v)) (alook_some_mem h) hn

theorem hasFunds_le_att {c : Cfg} {l : List (Nat × Nat)} {a v : Nat} (h : hasFunds l a v = true)
    (hn : c.native a = true) : v ≤ att c a l := by
  unfold hasFunds at h
  obtain ⟨p, hp, hpe⟩ := List.any_eq_true.mp h
  simp only [Bool.and_eq_true, decide_eq_true_eq] at hpe
  have := mem_le_att (c := c) hp (by rw [hpe.1]; exact hn)
  rw [hpe.1, hpe.2] at this
  exact this

theorem io_send_inc {dst : Addr} (hd : dst ≠ INC) (a a' amt : Nat) :
    outsOf INC a [Msg.send INC dst a' amt] = (if a' = a then amt else 0)
    ∧ insOf INC a [Msg.send INC dst a' amt] = 0 := by
  by_cases ha : a' = a <;> simp [outsOf, insOf, msgOut, msgIn, ha, hd]

theorem io_pull_inc {src : Addr} (hs : src ≠ INC) (a a' amt : Nat) :
    outsOf INC a [Msg.pull src INC a' amt] = 0
    ∧ insOf INC a [Msg.pull src INC a' amt] = (if a' = a then amt else 0) := by
  by_cases ha : a' = a <;> simp [outsOf, insOf, msgOut, msgIn, ha, hs]

theorem io_pull_other {src dst : Addr} (hs : src ≠ INC) (hd : dst ≠ INC) (a a' amt : Nat) :
    outsOf INC a [Msg.pull src dst a' amt] = 0 ∧ insOf INC a [Msg.pull src dst a' amt] = 0 := by
  simp [outsOf, insOf, msgOut, msgIn, hs, hd]

theorem collector_ne_inc : COLLECTOR ≠ INC := by decide
theorem helper_ne_inc : HELPER ≠ INC := by decide
theorem pair_ne_inc : PAIR ≠ INC := by decide

/-- the LP-funds check: nothing leaves the contract, and exactly the stated amount of LP arrives
    (attached for a native LP, pulled from the sender for a cw20 LP) -/
theorem validateFunds_ledger {c : Cfg} {e : Env} {amount : Nat} {msgs : List Msg} (hs : e.sender ≠ INC)
    (h : validateFunds c e amount = .ok msgs) :
    (∀ a, outsOf INC a msgs = 0)
    ∧ att c 0 (fundsOf c e.offers) + insOf INC 0 msgs = amount := by
  obtain ⟨_, hv⟩ := validateFunds_spec h
  rcases hv with ⟨hn, hf, hm⟩ | ⟨hn, _, hm⟩
  · subst hm
    rw [hf, att_single hn]
    exact ⟨fun a => rfl, by simp [insOf]⟩
  · subst hm
    rw [att_nonnative hn]
    refine ⟨fun a => (io_pull_inc hs a 0 amount).1, ?_⟩
    rw [(io_pull_inc hs 0 0 amount).2]; simp

/-- the funds check of `expand_flow`: exactly the stated amount of the flow asset arrives -/
theorem expandFlowFunds_ledger {c : Cfg} {e : Env} {a amount : Nat} {msgs : List Msg} (hs : e.sender ≠ INC)
    (h : expandFlowFunds c e a amount = .ok msgs) :
    (∀ a', outsOf INC a' msgs = 0)
    ∧ att c a (fundsOf c e.offers) + insOf INC a msgs = amount := by
  rcases expandFlowFunds_spec h with ⟨hn, hf, _, hm⟩ | ⟨hn, _, hm⟩
  · subst hm
    rw [hf, att_single hn]
    exact ⟨fun a => rfl, by simp [insOf]⟩
  · subst hm
    rw [att_nonnative hn]
    refine ⟨fun a' => (io_pull_inc hs a' a amount).1, ?_⟩
    rw [(io_pull_inc hs a a amount).2]; simp

theorem io_feeRefund {c : Cfg} {e : Env} (hs : e.sender ≠ INC) (a paid a' : Nat) :
    outsOf INC a' (feeRefund c e a paid)
      = (if (c.feeAmt < paid ∧ ¬ (c.native a = true ∧ a = c.feeAsset)) ∧ c.feeAsset = a' then paid - c.feeAmt else 0)
    ∧ insOf INC a' (feeRefund c e a paid) = 0 := by
  unfold feeRefund
  by_cases hc : c.feeAmt < paid ∧ ¬ (c.native a = true ∧ a = c.feeAsset)
  · have hb : (decide (c.feeAmt < paid) && !(c.native a && decide (a = c.feeAsset))) = true := by
      simp only [Bool.and_eq_true, Bool.not_eq_true', Bool.and_eq_false_iff, decide_eq_true_eq, decide_eq_false_iff_not]
      refine ⟨hc.1, ?_⟩
      by_cases hn : c.native a = true
      · exact Or.inr (fun hh => hc.2 ⟨hn, hh⟩)
      · exact Or.inl (by simpa using hn)
    rw [if_pos hb]
    obtain ⟨h1, h2⟩ := io_send_inc hs a' c.feeAsset (paid - c.feeAmt)
    rw [h1, h2]
    refine ⟨?_, rfl⟩
    by_cases ha : c.feeAsset = a'
    · rw [if_pos ha, if_pos ⟨hc, ha⟩]
    · rw [if_neg ha, if_neg (fun hh => ha hh.2)]
  · have hb : ¬ (decide (c.feeAmt < paid) && !(c.native a && decide (a = c.feeAsset))) = true := by
      simp only [Bool.and_eq_true, Bool.not_eq_true', Bool.and_eq_false_iff, decide_eq_true_eq, decide_eq_false_iff_not]
      intro hh
      apply hc
      refine ⟨hh.1, fun h2 => ?_⟩
      rcases hh.2 with h3 | h3
      · rw [h2.1] at h3; cases h3
      · exact h3 h2.2
    rw [if_neg hb, if_neg (fun hh => hc hh.1)]
    exact ⟨rfl, rfl⟩

/-- `open_flow`: what the new flow is funded with never exceeds what arrived for it net of the fee -/
theorem openFlow_ledger_le {c : Cfg} {e : Env} {a amount x y : Nat} {m0 m1 : List Msg} (hs : e.sender ≠ INC)
    (hfee : openFlowFee c e a amount = .ok (x, m0)) (hasset : openFlowAsset c e a x = .ok (y, m1)) (a' : Nat) :
    (if a = a' then y else 0) + outsOf INC a' (m0 ++ m1)
      ≤ att c a' (fundsOf c e.offers) + insOf INC a' (m0 ++ m1) := by
  rw [outsOf_append, insOf_append]
  rcases openFlowFee_spec hfee with ⟨hnf, paid, hp, hle, hm0, hx⟩ | ⟨hnf, hx, hm0⟩
  · -- native fee
    have hpaid := alook_le_att hp hnf
    obtain ⟨r1, r2⟩ := io_feeRefund hs a paid a' (c := c) (e := e)
    obtain ⟨c1, c2⟩ := io_send_inc collector_ne_inc a' c.feeAsset c.feeAmt
    rw [hm0, outsOf_append, insOf_append, r1, r2, c1, c2]
    rcases openFlowAsset_spec hasset with ⟨hna, hy, hm1, hfunds⟩ | ⟨hna, hm1, hy⟩
    · -- native flow asset
      subst hm1
      simp only [outsOf, insOf]
      rcases hx with ⟨_, hafa, hx1, hx2⟩ | ⟨hns, hx1⟩
      · -- same denom: paid = flow amount + fee
        have hno : ¬ ((c.feeAmt < paid ∧ ¬ (c.native a = true ∧ a = c.feeAsset)) ∧ c.feeAsset = a') :=
          fun hh => hh.1.2 ⟨hna, hafa⟩
        rw [if_neg hno]
        by_cases h1 : a = a'
        · rw [if_pos h1, if_pos (by rw [← hafa]; exact h1)]
          rw [← h1, hafa]; omega
        · rw [if_neg h1, if_neg (by rw [← hafa]; exact h1)]; omega
      · have hf := hasFunds_le_att (hfunds (fun hh => hns ⟨hna, hh.2.symm⟩)) hna
        have hne : a ≠ c.feeAsset := fun hh => hns ⟨hna, hh⟩
        by_cases h1 : a = a'
        · have h2 : ¬ c.feeAsset = a' := fun hh => hne (by rw [h1, hh])
          rw [if_pos h1, if_neg h2, if_neg (fun hh => h2 hh.2)]
          rw [← h1]; omega
        · rw [if_neg h1]
          by_cases h2 : c.feeAsset = a'
          · rw [if_pos h2]
            rw [← h2]
            split <;> omega
          · rw [if_neg h2, if_neg (fun hh => h2 hh.2)]; omega
    · -- cw20 flow asset: pulled; the fee denom carries the fee and the refund of any excess
      have hns : ¬ (c.native a = true ∧ a = c.feeAsset) := fun hh => by rw [hna] at hh; cases hh.1
      obtain ⟨p1, p2⟩ := io_pull_inc hs a' a y
      rw [hm1, p1, p2]
      by_cases h1 : a = a'
      · have h2 : ¬ c.feeAsset = a' := fun hh => by rw [← h1] at hh; rw [← hh, hnf] at hna; cases hna
        rw [if_pos h1, if_neg h2, if_neg (fun hh => h2 hh.2)]; omega
      · simp only [if_neg h1]
        by_cases h2 : c.feeAsset = a'
        · rw [if_pos h2, ← h2]
          split <;> omega
        · rw [if_neg h2, if_neg (fun hh => h2 hh.2)]; omega
  · -- cw20 fee: pulled from the sender straight to the collector
    obtain ⟨q1, q2⟩ := io_pull_other hs collector_ne_inc a' c.feeAsset c.feeAmt (src := e.sender)
    rw [hm0, q1, q2]
    rcases openFlowAsset_spec hasset with ⟨hna, hy, hm1, hfunds⟩ | ⟨hna, hm1, hy⟩
    · subst hm1
      simp only [outsOf, insOf]
      have hf := hasFunds_le_att (hfunds (fun hh => by rw [hnf] at hh; cases hh.1)) hna
      by_cases h1 : a = a'
      · rw [if_pos h1, ← h1]; omega
      · rw [if_neg h1]; omega
    · obtain ⟨p1, p2⟩ := io_pull_inc hs a' a y
      rw [hm1, p1, p2]
      by_cases h1 : a = a'
      · simp only [if_pos h1]; omega
      · simp only [if_neg h1]; omega

end WW.Inc
