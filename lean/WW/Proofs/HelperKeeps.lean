/- C11 `helper_keeps_nothing`: a deposit through the frontend helper leaves the helper with no LP and
   with its other balances unchanged. -/
import WW.Proofs.FlowExact
namespace WW.Inc
open WW WW.Gen

theorem inc_ne_helper : INC ≠ HELPER := by decide
theorem pair_ne_helper : PAIR ≠ HELPER := by decide

theorem step_helper_keeps_nothing {c : Cfg} {s s' : St} {e : Env} {a0 a1 dur : Nat} (hs : e.sender ≠ HELPER)
    (h : step c s e (.helperDeposit a0 a1 dur) = .ok s') :
    balOf s' HELPER 0 = 0 ∧ ∀ a, a ≠ 0 → balOf s' HELPER a = balOf s HELPER a := by
  unfold step at h
  simp only at h
  obtain ⟨b0, hb0, h⟩ := bind_eq_ok h
  unfold helperDeposit at h
  dsimp only at h
  obtain ⟨_, _, h⟩ := bind_eq_ok h
  obtain ⟨b1, hb1, h⟩ := bind_eq_ok h
  obtain ⟨b2, hb2, h⟩ := bind_eq_ok h
  obtain ⟨_, _, h⟩ := bind_eq_ok h
  obtain ⟨lp, _, h⟩ := bind_eq_ok h
  obtain ⟨_, _, h⟩ := bind_eq_ok h
  obtain ⟨b3, hb3, h⟩ := bind_eq_ok h
  obtain ⟨b4, hb4, h⟩ := bind_eq_ok h
  obtain ⟨_, _, h⟩ := bind_eq_ok h
  obtain ⟨b5, hb5, h⟩ := bind_eq_ok h
  obtain ⟨⟨s3, msgs⟩, h3, h⟩ := bind_eq_ok h
  obtain ⟨b6, hb6, h⟩ := bind_eq_ok h
  injection h with h
  subst h
  generalize hlp : aget b4 (HELPER, 0) = lpAmt at *
  -- the handler leaves the ledger alone and emits the LP pull (cw20) or nothing (native)
  have hmsgs : s3.bal = b5 ∧ validateFunds c { e with sender := HELPER, offers := [(0, lpAmt)] } lpAmt = .ok msgs := by
    split at h3
    · -- expand: the funds check is the first thing the handler does
      have h3' := h3
      unfold expandPosition at h3'
      obtain ⟨m, hm, h3'⟩ := bind_eq_ok h3'
      dsimp only at h3'
      split at h3'
      · cases h3'
      · split at h3'
        · cases h3'
        · obtain ⟨_, _, h3'⟩ := bind_eq_ok h3'
          obtain ⟨_, _, h3'⟩ := bind_eq_ok h3'
          obtain ⟨_, _, h3'⟩ := bind_eq_ok h3'
          obtain ⟨_, _, h3'⟩ := bind_eq_ok h3'
          obtain ⟨_, _, h3'⟩ := bind_eq_ok h3'
          obtain ⟨s2, hs2, h3'⟩ := bind_eq_ok h3'
          injection h3' with h3'
          injection h3' with e1 e2
          subst e1 e2
          exact ⟨(addWeight_spec hs2).2.2.2.2.2, hm⟩
    · obtain ⟨_, _, d3, _, d5⟩ := openPosition_delta h3
      exact ⟨d3, d5⟩
  obtain ⟨hbal3, hv⟩ := hmsgs
  rw [hbal3] at hb6
  obtain ⟨_, hvs⟩ := validateFunds_spec hv
  -- helper balance through the six ledger stages, in asset `a`
  have key : ∀ a, aget b6 (HELPER, a) + (if a = 0 then lpAmt else 0) = aget b4 (HELPER, a)
      ∧ aget b4 (HELPER, a) = aget s.bal (HELPER, a) + (if a = 0 then lp else 0) := by
    intro a
    have t0 := attachFunds_eff (x := e.sender) (y := HELPER) HELPER a _ _ _ hb0
    rw [if_neg (fun hh => hs hh.1), if_pos ⟨rfl, hs⟩] at t0
    have t1 := applyMsgs_eff HELPER a _ _ _ _ hb1
    have t2 := attachFunds_eff (x := HELPER) (y := PAIR) HELPER a _ _ _ hb2
    rw [if_pos ⟨rfl, pair_ne_helper⟩, if_neg (fun hh => pair_ne_helper hh.1)] at t2
    have t3 := applyMsgs_eff HELPER a _ _ _ _ hb3
    have t4 := applyMsgs_eff HELPER a _ _ _ _ hb4
    have t6 := applyMsgs_eff HELPER a _ _ _ _ hb6
    have hph : PAIR ≠ HELPER := pair_ne_helper
    have hih : INC ≠ HELPER := inc_ne_helper
    -- stage 5/6: native → attached; cw20 → pulled
    have t56 : aget b6 (HELPER, a) + (if a = 0 then lpAmt else 0) = aget b4 (HELPER, a) := by
      rcases hvs with ⟨hn, _, hm⟩ | ⟨hn, _, hm⟩
      · subst hm
        rw [if_pos hn] at hb5
        have t5 := attachFunds_eff (x := HELPER) (y := INC) HELPER a _ _ _ hb5
        rw [if_pos ⟨rfl, inc_ne_helper⟩, if_neg (fun hh => inc_ne_helper hh.1), att_single hn] at t5
        simp only [insOf, outsOf] at t6
        by_cases ha : a = 0
        · subst ha; simp only [if_true] at t5 ⊢; omega
        · rw [if_neg (fun hh => ha hh.symm)] at t5; rw [if_neg ha]; omega
      · subst hm
        have hn' : ¬ c.native 0 = true := by rw [hn]; simp
        rw [if_neg hn'] at hb5
        injection hb5 with hb5
        subst hb5
        by_cases ha : a = 0
        · subst ha
          simp [insOf, outsOf, msgIn, msgOut, hih] at t6
          simp only [if_true]; omega
        · have ha' : ¬ 0 = a := fun hh => ha hh.symm
          simp [insOf, outsOf, msgIn, msgOut, hih, ha'] at t6
          rw [if_neg ha]; omega
    refine ⟨t56, ?_⟩
    by_cases ha : a = 0
    · subst ha
      simp [insOf, outsOf, msgIn, msgOut, hs, hph] at t1 t3 t4
      simp only [if_true]; omega
    · have ha' : ¬ 0 = a := fun hh => ha hh.symm
      rw [if_neg ha]
      by_cases h3a : a = 3
      · subst h3a
        simp [insOf, outsOf, msgIn, msgOut, hs, hph] at t1 t3 t4
        omega
      · have h3a' : ¬ 3 = a := fun hh => h3a hh.symm
        simp [insOf, outsOf, msgIn, msgOut, hs, hph, ha', h3a'] at t1 t3 t4
        omega
  constructor
  · obtain ⟨k1, _⟩ := key 0
    simp only [if_true] at k1
    unfold balOf
    simp only
    omega
  · intro a ha
    obtain ⟨k1, k2⟩ := key a
    rw [if_neg ha] at k1 k2
    unfold balOf
    simp only
    omega

end WW.Inc
