/-
  Helper lemmas for `WW/Props/Kernels/Stable2Swap.lean` (the pair's Decimal256 stableswap swap path):
  constants of the generated definitions in the model's spelling and the termination test of the y loop.
  Core Lean only; does not mention `WW.Gen.K`.
-/
import WW.Proofs.Kernels
namespace WW

/-- `Decimal256::from_ratio(N_COINS, 1)` never panics: it is the model's constant `SS_N_DEC` -/
theorem dec256FromRatio_2_1 : dec256FromRatio 2 1 = Res.ok SS_N_DEC := by
  unfold dec256FromRatio mulRatioP
  rw [if_neg (by decide : ¬ (1 = 0)), if_pos (by decide : 2 * E18 / 1 ≤ U256MAX)]
  rfl

theorem pow10_le_u128 (p : Nat) : 10 ^ (18 - p) ≤ U128MAX :=
  Nat.le_trans (Nat.pow_le_pow_right (by decide : 0 < 10) (Nat.sub_le 18 p)) (by decide : 10 ^ 18 ≤ U128MAX)

theorem pow10_ne_zero (k : Nat) : ¬ (10 ^ k = 0) :=
  Nat.ne_of_gt (Nat.pow_pos (by decide : 0 < 10))

/-- the body of `to_uint256_with_precision`: `18 - precision` (u32, overflow checks), `10u128.pow(..)`,
    `checked_div` — against the model's closed form -/
theorem toUintPrecision_steps (v p : Nat) :
    (psub 18 p >>= fun t1 => ppow U128MAX 10 t1 >>= fun t2 => cdiv v t2 >>= fun t3 => Res.ok t3)
      = dec256ToUintPrecision v p := by
  unfold dec256ToUintPrecision psub
  by_cases h : 18 < p
  · rw [if_neg (by omega : ¬ p ≤ 18), if_pos h]; rfl
  · rw [if_pos (by omega : p ≤ 18), if_neg h, Res.bind_ok_s]
    unfold ppow
    rw [if_pos (pow10_le_u128 p), Res.bind_ok_s]
    unfold cdiv
    rw [if_neg (pow10_ne_zero _), Res.bind_ok_s]

/-- the termination test of the y loop of `calculate_stableswap_y`
    (`if y >= prev { if y - prev <= 1 { return } } else if y < prev && prev - y <= 1 { return }`)
    against the spelling of `WW.ssYLoop` -/
theorem ssY_tail {α : Type} (y p : Nat) (done next : Res α) :
    (if y ≥ p then (csub y p >>= fun t => if t ≤ 1 then done else next)
     else ((if y < p then (csub p y >>= fun t => pure (decide (t ≤ 1))) else pure false)
            >>= fun b => if b = true then done else next))
      = (if p ≤ y then (csub y p >>= fun t => if t ≤ 1 then done else next)
         else (csub p y >>= fun t => if t ≤ 1 then done else next)) := by
  by_cases h : y ≥ p
  · rw [if_pos h, if_pos h]
  · rw [if_neg h, if_neg h, if_pos (by omega : y < p)]
    unfold csub
    rw [if_pos (by omega : y ≤ p), Res.bind_ok_s, Res.bind_ok_s, Res.pure_eq, Res.bind_ok_s]
    by_cases h1 : p - y ≤ 1
    · rw [if_pos h1, if_pos (decide_eq_true h1)]
    · rw [if_neg h1, if_neg (by rw [decide_eq_false h1]; exact Bool.false_ne_true)]

end WW
