/- C12 (and the `≥` half of C11): every handler, every transaction and every history keeps the flow
   invariant and the backing inequality `owed ≤ balance` in every asset. -/
import WW.Proofs.FlowBacked
namespace WW.Inc
open WW WW.Gen

theorem staked_congr {s s' : St} (h1 : s'.openPos = s.openPos) (h2 : s'.closedPos = s.closedPos) :
    staked s' = staked s := by
  unfold staked; rw [h1, h2]

theorem claimExec_delta {s s' : St} {e : Env} {msgs : List Msg} (h : claimExec s e = .ok (s', msgs)) :
    ∃ fl, claimFlows s e.sender e.epoch s.flows = .ok (fl, msgs) ∧ s'.flows = fl
      ∧ s'.openPos = s.openPos ∧ s'.closedPos = s.closedPos ∧ s'.bal = s.bal
      ∧ s'.flowCounter = s.flowCounter := by
  unfold claimExec at h
  split at h
  · cases h
  · unfold claimCore at h
    split at h
    · cases h
    · split at h
      · rename_i fl m hcf
        injection h with h; injection h with h1 h2; subst h1 h2
        exact ⟨fl, hcf, rfl, rfl, rfl, rfl, rfl⟩
      · cases h
      · cases h

theorem takeSnapshot_delta {s s' : St} {e : Env} {msgs : List Msg} (h : takeSnapshot s e = .ok (s', msgs)) :
    s'.flows = s.flows ∧ s'.flowCounter = s.flowCounter ∧ s'.bal = s.bal
    ∧ s'.openPos = s.openPos ∧ s'.closedPos = s.closedPos ∧ msgs = [] := by
  unfold takeSnapshot at h
  split at h
  · cases h
  · injection h with h; injection h with h1 h2; subst h1 h2
    exact ⟨rfl, rfl, rfl, rfl, rfl, rfl⟩

/-- the result of a handler, for the ledger: balance untouched by the handler itself, flow invariant
    kept, and what is owed afterwards plus what the messages pay out is covered by what was owed before
    plus what was attached plus what the messages pull in -/
structure HandlerOk (c : Cfg) (s s1 : St) (e : Env) (msgs : List Msg) : Prop where
  bal : s1.bal = s.bal
  finv : FInv s1
  le : e.sender ≠ INC →
    ∀ a, owed s1 a + outsOf INC a msgs ≤ owed s a + att c a (fundsOf c e.offers) + insOf INC a msgs

theorem pos_handlerOk {c : Cfg} {s s1 : St} {e : Env} {amount : Nat} {msgs : List Msg} (hF : FInv s)
    (hd : s1.flows = s.flows ∧ s1.flowCounter = s.flowCounter ∧ s1.bal = s.bal
      ∧ staked s1 = staked s + amount ∧ validateFunds c e amount = .ok msgs) : HandlerOk c s s1 e msgs := by
  obtain ⟨d1, d2, d3, d4, d5⟩ := hd
  refine ⟨d3, hF.frame d1 d2, ?_⟩
  intro hs a
  obtain ⟨v1, v2⟩ := validateFunds_ledger hs d5
  unfold owed
  rw [d1, v1 a]
  by_cases ha : a = 0
  · subst ha
    simp only [if_true]
    rw [d4]; omega
  · rw [if_neg ha, if_neg ha]; omega

theorem handler_ok {c : Cfg} {s s1 : St} {e : Env} {op : Op} {msgs : List Msg} (hW : WInv s) (hF : FInv s)
    (h : handler c s e op = .ok (s1, msgs)) : HandlerOk c s s1 e msgs := by
  cases op with
  | openPos amt dur recv => exact pos_handlerOk hF (openPosition_delta h)
  | expandPos amt dur recv => exact pos_handlerOk hF (expandPosition_delta hW h)
  | closePos dur =>
    obtain ⟨d1, d2, d3, d4, d5⟩ := closePosition_delta hW h
    subst d5
    refine ⟨d3, hF.frame d1 d2, ?_⟩
    intro hs a
    unfold owed
    rw [d1, d4]
    simp only [outsOf, insOf]; omega
  | withdraw =>
    obtain ⟨d1, d2, d3, d4, d5⟩ := withdrawOp_delta (s := s) (e := e) h
    refine ⟨d3, hF.frame d1 d2, ?_⟩
    intro hs a
    unfold owed
    rw [d1, d5]
    by_cases h0 : closedSum (closedOf s e.sender) = 0
    · rw [if_pos h0]
      simp only [outsOf, insOf]
      split <;> omega
    · rw [if_neg h0]
      obtain ⟨o1, o2⟩ := io_send_inc hs a 0 (closedSum (closedOf s e.sender))
      rw [o1, o2]
      by_cases ha : a = 0
      · subst ha; simp only [if_true]; omega
      · rw [if_neg ha, if_neg ha, if_neg (fun hh => ha hh.symm)]; omega
  | claim =>
    obtain ⟨fl, hcf, d1, d2, d3, d4, d5⟩ := claimExec_delta (s := s) (e := e) h
    obtain ⟨c1, c2, c3, _⟩ := claimFlows_ledger _ _ _ hcf
    obtain ⟨c4, c5⟩ := c2 hF.claimed_le
    refine ⟨d4, ?_, ?_⟩
    · constructor
      · rw [d1, forall2_core_ids c1]; exact hF.ids_nodup
      · intro f hf
        rw [d1] at hf
        obtain ⟨g, hg, hc⟩ := forall2_core_mem c1 f hf
        rw [d5, hc.id]; exact hF.ids_le g hg
      · rw [d1]; exact c4
      · intro f hf
        rw [d1] at hf
        obtain ⟨g, hg, hc⟩ := forall2_core_mem c1 f hf
        rw [hc.hist]; exact hF.hist_nodup g hg
    · intro hs a
      unfold owed
      rw [d1, staked_congr d2 d3, c3 hs a]
      have := c5 hs a
      omega
  | snapshot =>
    obtain ⟨d1, d2, d3, d4, d5, d6⟩ := takeSnapshot_delta h
    subst d6
    refine ⟨d3, hF.frame d1 d2, ?_⟩
    intro hs a
    unfold owed
    rw [d1, staked_congr d4 d5]
    simp only [outsOf, insOf]; omega
  | openFlow a0 amt st en =>
    obtain ⟨x, y, m0, m1, f, hfee, hasset, hm, hs', f1, f2, f3, f4, f5, f6, _⟩ := openFlow_delta h
    subst hs' hm
    have hfunded : f.funded = y := by
      rw [Flow.funded_eq, f6]; simp only [maxKey, List.foldl_nil]; exact f4
    refine ⟨rfl, ?_, ?_⟩
    · constructor
      · apply nodup_insertFlow hF.ids_nodup
        intro hm
        obtain ⟨g, hg, hge⟩ := List.mem_map.mp hm
        have := hF.ids_le g hg
        omega
      · intro g hg
        rcases mem_insertFlow.mp hg with hg | hg
        · subst hg; simp only; omega
        · have := hF.ids_le g hg; simp only; omega
      · intro g hg
        rcases mem_insertFlow.mp hg with hg | hg
        · subst hg; rw [f5]; exact Nat.zero_le _
        · exact hF.claimed_le g hg
      · intro g hg
        rcases mem_insertFlow.mp hg with hg | hg
        · subst hg; rw [f6]; simp [keysOf]
        · exact hF.hist_nodup g hg
    · intro hs a
      have hl := openFlow_ledger_le hs hfee hasset a
      unfold owed
      simp only
      rw [ffSum_insertFlow]
      have hst : staked ({ s with flowCounter := s.flowCounter + 1, flows := insertFlow f s.flows } : St) = staked s := rfl
      rw [hst]
      have hc : contrib a f = (if a0 = a then y else 0) := by
        unfold contrib; rw [f3, hfunded, f5]; rfl
      rw [hc]; omega
  | expandFlow id a0 amt en =>
    obtain ⟨f, f2, endE, hf, hfa, hfunds, hadd, hs'⟩ := expandFlow_delta h
    subst hs'
    obtain ⟨hfm, hfid⟩ := findFlow_mem hf
    have hn := hF.hist_nodup f hfm
    obtain ⟨r1, r2, r3, r4, _, r6⟩ := resetFlow_spec f e.epoch hn
    obtain ⟨r7, r8⟩ := r6 (hF.claimed_le f hfm)
    obtain ⟨a1, a2, a3, a4, a5, a6, _⟩ := addHist_spec r4 hadd
    have hle2 : f2.claimed ≤ f2.funded := by rcases a6 with h | h <;> omega
    have hgrow : f2.funded - f2.claimed ≤ f.funded - f.claimed + amt := by rcases a6 with h | h <;> omega
    refine ⟨rfl, ?_, ?_⟩
    · constructor
      · apply nodup_insertFlow (nodup_removeFlow id hF.ids_nodup)
        rw [a1, r1, hfid]; exact not_mem_flowIds_removeFlow _ _
      · intro g hg
        rcases mem_insertFlow.mp hg with hg | hg
        · subst hg; rw [a1, r1]; exact hF.ids_le f hfm
        · exact hF.ids_le g (mem_removeFlow.mp hg).1
      · intro g hg
        rcases mem_insertFlow.mp hg with hg | hg
        · subst hg; exact hle2
        · exact hF.claimed_le g (mem_removeFlow.mp hg).1
      · intro g hg
        rcases mem_insertFlow.mp hg with hg | hg
        · subst hg; exact a5
        · exact hF.hist_nodup g (mem_removeFlow.mp hg).1
    · intro hs a
      obtain ⟨e1, e2⟩ := expandFlowFunds_ledger hs hfunds
      unfold owed
      simp only
      rw [ffSum_insertFlow, e1 a]
      have hst : staked ({ s with flows := insertFlow f2 (removeFlow s.flows id) } : St) = staked s := rfl
      rw [hst]
      have hrem := ffSum_removeFlow_eq a hF.ids_nodup hf
      have hc2 : contrib a f2 ≤ contrib a f + (if a0 = a then amt else 0) := by
        unfold contrib
        rw [a2, r2, hfa]
        split <;> omega
      by_cases ha : a0 = a
      · subst ha
        rw [if_pos rfl] at hc2
        omega
      · rw [if_neg ha] at hc2
        omega
  | closeFlow id =>
    have h : closeFlow s e id = .ok (s1, msgs) := h
    obtain ⟨f, hf, _, hm, hfl, hbal⟩ := closeFlow_spec h
    obtain ⟨hfm, _⟩ := findFlow_mem hf
    refine ⟨hbal, ?_, ?_⟩
    · constructor
      · rw [hfl]; exact nodup_removeFlow id hF.ids_nodup
      · intro g hg
        rw [hfl] at hg
        have : s1.flowCounter = s.flowCounter := by
          unfold closeFlow at h
          rw [hf] at h
          simp only at h
          split at h
          · cases h
          · injection h with h; injection h with h1 h2; subst h1; rfl
        rw [this]
        exact hF.ids_le g (mem_removeFlow.mp hg).1
      · intro g hg
        rw [hfl] at hg
        exact hF.claimed_le g (mem_removeFlow.mp hg).1
      · intro g hg
        rw [hfl] at hg
        exact hF.hist_nodup g (mem_removeFlow.mp hg).1
    · intro hs a
      have hst : staked s1 = staked s := by
        unfold closeFlow at h
        rw [hf] at h
        simp only at h
        split at h
        · cases h
        · injection h with h; injection h with h1 h2; subst h1; rfl
      unfold owed
      rw [hfl, hst, hm]
      have hrem := ffSum_removeFlow_eq a hF.ids_nodup hf
      have hout : outsOf INC a [Msg.send INC f.creator f.asset (f.funded - f.claimed)] ≤ contrib a f := by
        unfold contrib
        simp only [outsOf, msgOut]
        split <;> split <;> omega
      simp only [insOf, msgIn]
      split <;> omega
  | helperDeposit a0 a1 dur => cases h
  | helperDepositAs x0 x1 a0 a1 dur => cases h

/-! ### one transaction, all histories -/

/-- in every asset the contract holds at least what it owes -/
def Backed (s : St) : Prop := ∀ a, owed s a ≤ balOf s INC a

theorem FInv.with_bal {s : St} (h : FInv s) (b : Bal) : FInv { s with bal := b } := h.frame rfl rfl

theorem io_send_other {src dst : Addr} (hs : src ≠ INC) (hd : dst ≠ INC) (a a' amt : Nat) :
    outsOf INC a [Msg.send src dst a' amt] = 0 ∧ insOf INC a [Msg.send src dst a' amt] = 0 := by
  simp [outsOf, insOf, msgOut, msgIn, hs, hd]

/-- the ledger side of any handler run inside a transaction: funds attached by `sender ≠ contract`,
    handler, messages -/
theorem run_backed {c : Cfg} {s s1 : St} {e : Env} {msgs : List Msg} {b0 b b1 : Bal}
    {al : List (Nat × Nat)}
    (hB : ∀ a, owed s a ≤ aget b0 (INC, a))
    (hatt : ∀ a, aget b (INC, a) = aget b0 (INC, a) + att c a (fundsOf c e.offers))
    (hok : HandlerOk c { s with bal := b } s1 e msgs) (hs : e.sender ≠ INC)
    (hmsg : applyMsgs c s1.bal al msgs = .ok b1) : ∀ a, owed s1 a ≤ aget b1 (INC, a) := by
  intro a
  have h1 := applyMsgs_eff INC a msgs _ _ _ hmsg
  have h2 := hok.le hs a
  have h3 := hok.bal
  simp only at h3
  rw [h3] at h1
  have h4 : owed ({ s with bal := b } : St) a = owed s a := rfl
  rw [h4] at h2
  have := hB a
  have := hatt a
  omega

theorem helperDeposit_backed {c : Cfg} {s s' : St} {e : Env} {a0 a1 dur : Nat} (hW : WInv s) (hF : FInv s)
    (hB : Backed s) (hs : e.sender ≠ INC) (h : helperDeposit c s e a0 a1 dur = .ok s') :
    FInv s' ∧ Backed s' := by
  unfold helperDeposit at h
  dsimp only at h
  obtain ⟨_, _, h⟩ := bind_eq_ok h
  obtain ⟨b1, hb1, h⟩ := bind_eq_ok h
  obtain ⟨b2, hb2, h⟩ := bind_eq_ok h
  obtain ⟨_, _, h⟩ := bind_eq_ok h
  obtain ⟨lp, _, h⟩ := bind_eq_ok h
  obtain ⟨_, _, h⟩ := bind_eq_ok h
  obtain ⟨b3, hb3, h⟩ := bind_eq_ok h
  obtain ⟨b4, hb4, h⟩ := bind_eq_ok h
  obtain ⟨_, _, h⟩ := bind_eq_ok h
  obtain ⟨b5, hb5, h⟩ := bind_eq_ok h
  obtain ⟨⟨s3, msgs⟩, h3, h⟩ := bind_eq_ok h
  obtain ⟨b6, hb6, h⟩ := bind_eq_ok h
  injection h with h
  subst h
  generalize hlp : aget b4 (HELPER, 0) = lpAmt at *
  -- the contract's balances are not touched before the helper hands over the LP
  have e4 : ∀ a, aget b4 (INC, a) = aget s.bal (INC, a) := by
    intro a
    have t1 := applyMsgs_eff INC a _ _ _ _ hb1
    rw [(io_pull_other hs helper_ne_inc a 3 a1).1, (io_pull_other hs helper_ne_inc a 3 a1).2] at t1
    have t2 := attachFunds_eff (x := HELPER) (y := PAIR) INC a _ _ _ hb2
    rw [if_neg (fun hh => helper_ne_inc hh.1), if_neg (fun hh => pair_ne_inc hh.1)] at t2
    have t3 := applyMsgs_eff INC a _ _ _ _ hb3
    rw [(io_pull_other helper_ne_inc pair_ne_inc a 3 a1).1, (io_pull_other helper_ne_inc pair_ne_inc a 3 a1).2] at t3
    have t4 := applyMsgs_eff INC a _ _ _ _ hb4
    rw [(io_send_other pair_ne_inc helper_ne_inc a 0 lp).1, (io_send_other pair_ne_inc helper_ne_inc a 0 lp).2] at t4
    omega
  let e2 : Env := { e with sender := HELPER, offers := [(0, lpAmt)] }
  have e5 : ∀ a, aget b5 (INC, a) = aget s.bal (INC, a) + att c a (fundsOf c e2.offers) := by
    intro a
    rw [← e4 a]
    by_cases hn : c.native 0 = true
    · rw [if_pos hn] at hb5
      have t5 := attachFunds_eff (x := HELPER) (y := INC) INC a _ _ _ hb5
      rw [if_neg (fun hh => helper_ne_inc hh.1), if_pos ⟨rfl, helper_ne_inc⟩] at t5
      have : fundsOf c e2.offers = [(0, lpAmt)] := by simp [fundsOf, e2, hn]
      rw [this]; omega
    · rw [if_neg hn] at hb5
      injection hb5 with hb5
      have : fundsOf c e2.offers = [] := by simp [fundsOf, e2, hn]
      rw [this, hb5]; simp [att]
  have hs2 : e2.sender ≠ INC := helper_ne_inc
  have hW2 : WInv ({ s with bal := b5 } : St) := hW.with_bal b5
  have hF2 : FInv ({ s with bal := b5 } : St) := hF.with_bal b5
  have hok : HandlerOk c ({ s with bal := b5 } : St) s3 e2 msgs := by
    split at h3
    · exact pos_handlerOk hF2 (expandPosition_delta hW2 h3)
    · exact pos_handlerOk hF2 (openPosition_delta h3)
  refine ⟨hok.finv.with_bal b6, ?_⟩
  have := run_backed (s := s) (b0 := s.bal) (b := b5) (fun a => hB a) e5 hok hs2 hb6
  intro a
  exact this a

theorem step_backed {c : Cfg} {s s' : St} {e : Env} {op : Op} (hW : WInv s) (hF : FInv s) (hB : Backed s)
    (hs : e.sender ≠ INC) (h : step c s e op = .ok s') : FInv s' ∧ Backed s' := by
  unfold step at h
  split at h
  · obtain ⟨b, hb, h⟩ := bind_eq_ok h
    have hB2 : Backed ({ s with bal := b } : St) := by
      intro a
      have t := attachFunds_eff (x := e.sender) (y := HELPER) INC a _ _ _ hb
      rw [if_neg (fun hh => hs hh.1), if_neg (fun hh => helper_ne_inc hh.1)] at t
      have := hB a
      unfold balOf at this ⊢
      show owed s a ≤ aget b (INC, a)
      omega
    exact helperDeposit_backed (hW.with_bal b) (hF.with_bal b) hB2 hs h
  · obtain ⟨b, hb, h⟩ := bind_eq_ok h
    obtain ⟨⟨s1, msgs⟩, h1, h⟩ := bind_eq_ok h
    obtain ⟨b1, hb1, h⟩ := bind_eq_ok h
    injection h with h
    subst h
    have hok := handler_ok (hW.with_bal b) (hF.with_bal b) h1
    have hatt : ∀ a, aget b (INC, a) = aget s.bal (INC, a) + att c a (fundsOf c e.offers) := by
      intro a
      have t := attachFunds_eff (x := e.sender) (y := INC) INC a _ _ _ hb
      rw [if_neg (fun hh => hs hh.1), if_pos ⟨rfl, hs⟩] at t
      omega
    refine ⟨hok.finv.with_bal b1, ?_⟩
    have := run_backed (s := s) (b0 := s.bal) (b := b) (fun a => hB a) hatt hok hs hb1
    intro a
    exact this a

/-- the flow invariant alone needs no assumption on the senders -/
theorem step_FInv {c : Cfg} {s s' : St} {e : Env} {op : Op} (hW : WInv s) (hF : FInv s)
    (h : step c s e op = .ok s') : FInv s' := by
  unfold step at h
  split at h
  · obtain ⟨b, _, h⟩ := bind_eq_ok h
    unfold helperDeposit at h
    dsimp only at h
    obtain ⟨_, _, h⟩ := bind_eq_ok h
    obtain ⟨b1, _, h⟩ := bind_eq_ok h
    obtain ⟨b2, _, h⟩ := bind_eq_ok h
    obtain ⟨_, _, h⟩ := bind_eq_ok h
    obtain ⟨lp, _, h⟩ := bind_eq_ok h
    obtain ⟨_, _, h⟩ := bind_eq_ok h
    obtain ⟨b3, _, h⟩ := bind_eq_ok h
    obtain ⟨b4, _, h⟩ := bind_eq_ok h
    obtain ⟨_, _, h⟩ := bind_eq_ok h
    obtain ⟨b5, _, h⟩ := bind_eq_ok h
    obtain ⟨⟨s3, msgs⟩, h3, h⟩ := bind_eq_ok h
    obtain ⟨b6, _, h⟩ := bind_eq_ok h
    injection h with h
    subst h
    have hW2 : WInv ({ s with bal := b5 } : St) := hW.with_bal b5
    have hF2 : FInv ({ s with bal := b5 } : St) := hF.with_bal b5
    have : FInv s3 := by
      split at h3
      · exact (pos_handlerOk hF2 (expandPosition_delta hW2 h3)).finv
      · exact (pos_handlerOk hF2 (openPosition_delta h3)).finv
    exact this.with_bal b6
  · obtain ⟨b, _, h⟩ := bind_eq_ok h
    obtain ⟨⟨s1, msgs⟩, h1, h⟩ := bind_eq_ok h
    obtain ⟨b1, _, h⟩ := bind_eq_ok h
    injection h with h
    subst h
    exact (handler_ok (hW.with_bal b) (hF.with_bal b) h1).finv.with_bal b1

theorem reach_FInv {c : Cfg} {s : St} (hW : WInv s) (hF : FInv s) (ops : List (Env × Op)) :
    FInv (reach c s ops) := by
  induction ops generalizing s with
  | nil => exact hF
  | cons p t ih =>
    obtain ⟨e, op⟩ := p
    show FInv (reach c (stepOrStay c s e op) t)
    unfold stepOrStay
    split
    · rename_i s' hstep
      exact ih (step_WInv hW hstep) (step_FInv hW hF hstep)
    · exact ih hW hF

/-- the senders of a history are never the contract itself -/
def SendersOk (ops : List (Env × Op)) : Prop := ∀ p ∈ ops, p.1.sender ≠ INC

theorem reach_backed {c : Cfg} {s : St} (hW : WInv s) (hF : FInv s) (hB : Backed s) :
    ∀ (ops : List (Env × Op)), SendersOk ops → FInv (reach c s ops) ∧ Backed (reach c s ops) := by
  intro ops
  induction ops generalizing s with
  | nil => intro _; exact ⟨hF, hB⟩
  | cons p t ih =>
    intro hso
    obtain ⟨e, op⟩ := p
    have hs : e.sender ≠ INC := hso (e, op) List.mem_cons_self
    have hso' : SendersOk t := fun q hq => hso q (List.mem_cons_of_mem _ hq)
    show FInv (reach c (stepOrStay c s e op) t) ∧ Backed (reach c (stepOrStay c s e op) t)
    unfold stepOrStay
    split
    · rename_i s' hstep
      obtain ⟨hF', hB'⟩ := step_backed hW hF hB hs hstep
      exact ih (step_WInv hW hstep) hF' hB' hso'
    · exact ih hW hF hB hso'

theorem init_backed (e0 : Nat) (bal : Bal) : Backed (init e0 bal) := by
  intro a
  have : owed (init e0 bal) a = 0 := by
    unfold owed init staked
    simp [ffSum, sumBy]
  rw [this]; exact Nat.zero_le _

end WW.Inc
