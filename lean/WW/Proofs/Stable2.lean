/- Helper lemmas for C03: inversion of the `Res` do-blocks of `WW/Model/Stable2.lean`,
   the y-solver residual, the LP-mint bound, solver termination facts. -/
import WW.Model.Stable2
import WW.Proofs.Basic
namespace WW

/-! ### inversion of `>>=` and of the primitive operations -/

theorem Res.bind_ok_inv {α β : Type} {x : Res α} {f : α → Res β} {b : β}
    (h : (x >>= f) = .ok b) : ∃ a, x = .ok a ∧ f a = .ok b := by
  cases x with
  | ok a => exact ⟨a, rfl, h⟩
  | err => exact absurd h (by simp)
  | panic => exact absurd h (by simp)

theorem Res.bind_ne_err {α β : Type} {x : Res α} {f : α → Res β}
    (hx : x ≠ .err) (hf : ∀ a, f a ≠ .err) : (x >>= f) ≠ .err := by
  cases x with
  | ok a => exact hf a
  | err => exact absurd rfl hx
  | panic => simp

theorem cadd_inv {max a b r : Nat} (h : cadd max a b = .ok r) : r = a + b ∧ a + b ≤ max := by
  unfold cadd at h; split at h
  · cases h; exact ⟨rfl, by assumption⟩
  · cases h
theorem csub_inv {a b r : Nat} (h : csub a b = .ok r) : r = a - b ∧ b ≤ a := by
  unfold csub at h; split at h
  · cases h; exact ⟨rfl, by assumption⟩
  · cases h
theorem cmul_inv {max a b r : Nat} (h : cmul max a b = .ok r) : r = a * b ∧ a * b ≤ max := by
  unfold cmul at h; split at h
  · cases h; exact ⟨rfl, by assumption⟩
  · cases h
theorem cdiv_inv {a b r : Nat} (h : cdiv a b = .ok r) : r = a / b ∧ b ≠ 0 := by
  unfold cdiv at h; split at h
  · cases h
  · cases h; exact ⟨rfl, by assumption⟩
theorem padd_inv {max a b r : Nat} (h : padd max a b = .ok r) : r = a + b ∧ a + b ≤ max := by
  unfold padd at h; split at h
  · cases h; exact ⟨rfl, by assumption⟩
  · cases h
theorem psub_inv {a b r : Nat} (h : psub a b = .ok r) : r = a - b ∧ b ≤ a := by
  unfold psub at h; split at h
  · cases h; exact ⟨rfl, by assumption⟩
  · cases h
theorem pmul_inv {max a b r : Nat} (h : pmul max a b = .ok r) : r = a * b ∧ a * b ≤ max := by
  unfold pmul at h; split at h
  · cases h; exact ⟨rfl, by assumption⟩
  · cases h
theorem pdiv_inv {a b r : Nat} (h : pdiv a b = .ok r) : r = a / b ∧ b ≠ 0 := by
  unfold pdiv at h; split at h
  · cases h
  · cases h; exact ⟨rfl, by assumption⟩
theorem to128_inv {a r : Nat} (h : to128 a = .ok r) : r = a ∧ a ≤ U128MAX := by
  unfold to128 at h; split at h
  · cases h; exact ⟨rfl, by assumption⟩
  · cases h
theorem u256MulDec_inv {a d r : Nat} (h : u256MulDec a d = .ok r) : r = a * d / E18 := by
  unfold u256MulDec at h; split at h
  · cases h; rfl
  · cases h
theorem u128MulDec_inv {a d r : Nat} (h : u128MulDec a d = .ok r) : r = a * d / E18 := by
  unfold u128MulDec at h; split at h
  · cases h; rfl
  · cases h
theorem guardErr_inv {c : Bool} {u : Unit} (h : guardErr c = .ok u) : c = true := by
  unfold guardErr at h; split at h
  · assumption
  · cases h
theorem guardPanic_inv {c : Bool} {u : Unit} (h : guardPanic c = .ok u) : c = true := by
  unfold guardPanic at h; split at h
  · assumption
  · cases h

theorem pow10_pos (k : Nat) : 0 < 10 ^ k := Nat.pow_pos (by decide)

/-- normalising to 18 decimals and coming back to the asset's own precision is the identity
    (precision ≤ 18): the "ask reserve in ask units" of `compute_swap` is the ask reserve -/
theorem toUint_withPrecision {v p d u : Nat} (hp : p ≤ 18)
    (h1 : dec256WithPrecision v p = .ok d) (h2 : dec256ToUintPrecision d p = .ok u) : u = v := by
  unfold dec256ToUintPrecision at h2
  rw [if_neg (by omega)] at h2
  cases h2
  unfold dec256WithPrecision at h1
  split at h1
  · obtain ⟨rfl, _⟩ := cmul_inv h1
    exact Nat.mul_div_cancel _ (pow10_pos _)
  · cases h1
    have : p = 18 := by omega
    subst this
    simp

/-! ### the StableSwap arm of `compute_swap` -/

/-- everything `ssSwap` did when it returned `ok c` -/
structure SsSwapFacts (opool apool off : Nat) (f : Fees) (amp po pa : Nat) (c : SwapComp) : Prop where
  ex : ∃ opD apD offD y apU,
    dec256WithPrecision opool po = .ok opD ∧ dec256WithPrecision apool pa = .ok apD ∧
    dec256WithPrecision off po = .ok offD ∧ ssY opD apD offD amp pa 0 = .ok y ∧
    dec256ToUintPrecision apD pa = .ok apU ∧ y ≤ apU ∧
    c.swapFee = (apU - y) * f.swap / E18 ∧ c.protFee = (apU - y) * f.prot / E18 ∧
    c.burnFee = (apU - y) * f.burn / E18 ∧
    c.swapFee + c.protFee + c.burnFee ≤ apU - y ∧
    c.ret = (apU - y) - c.swapFee - c.protFee - c.burnFee

theorem ssSwap_facts {opool apool off : Nat} {f : Fees} {amp po pa : Nat} {c : SwapComp}
    (h : ssSwap opool apool off f amp po pa = .ok c) : SsSwapFacts opool apool off f amp po pa c := by
  unfold ssSwap at h
  obtain ⟨opD, h1, h⟩ := Res.bind_ok_inv h
  obtain ⟨apD, h2, h⟩ := Res.bind_ok_inv h
  obtain ⟨offD, h3, h⟩ := Res.bind_ok_inv h
  obtain ⟨y, h4, h⟩ := Res.bind_ok_inv h
  obtain ⟨apU, h5, h⟩ := Res.bind_ok_inv h
  obtain ⟨gross, h6, h⟩ := Res.bind_ok_inv h
  obtain ⟨offU, h7, h⟩ := Res.bind_ok_inv h
  obtain ⟨sf, h8, h⟩ := Res.bind_ok_inv h
  obtain ⟨pf, h9, h⟩ := Res.bind_ok_inv h
  obtain ⟨bf, h10, h⟩ := Res.bind_ok_inv h
  obtain ⟨r1, h11, h⟩ := Res.bind_ok_inv h
  obtain ⟨r2, h12, h⟩ := Res.bind_ok_inv h
  obtain ⟨r3, h13, h⟩ := Res.bind_ok_inv h
  obtain ⟨ret, h14, h⟩ := Res.bind_ok_inv h
  obtain ⟨spread, h15, h⟩ := Res.bind_ok_inv h
  obtain ⟨sf', h16, h⟩ := Res.bind_ok_inv h
  obtain ⟨pf', h17, h⟩ := Res.bind_ok_inv h
  obtain ⟨bf', h18, h⟩ := Res.bind_ok_inv h
  obtain ⟨hg, hy⟩ := csub_inv h6
  have e8 := u256MulDec_inv h8
  have e9 := u256MulDec_inv h9
  have e10 := u256MulDec_inv h10
  obtain ⟨e11, l11⟩ := csub_inv h11
  obtain ⟨e12, l12⟩ := csub_inv h12
  obtain ⟨e13, l13⟩ := csub_inv h13
  obtain ⟨e14, _⟩ := to128_inv h14
  obtain ⟨e16, _⟩ := to128_inv h16
  obtain ⟨e17, _⟩ := to128_inv h17
  obtain ⟨e18, _⟩ := to128_inv h18
  have hc : c = { ret := ret, spread := spread, swapFee := sf', protFee := pf', burnFee := bf' } := by
    cases h; rfl
  subst hc
  refine ⟨⟨opD, apD, offD, y, apU, h1, h2, h3, h4, h5, hy, ?_, ?_, ?_, ?_, ?_⟩⟩ <;> dsimp only
  · rw [e16, e8, hg]
  · rw [e17, e9, hg]
  · rw [e18, e10, hg]
  · omega
  · omega

/-! ### y-solver: the residual of the returned point, from the termination test alone -/

/-- One Newton step `y' = ⌊(y² + c) / g⌋`, `g = 2y + b − d > 0`, stop when `|y' − y| ≤ 1`:
    the returned `y'` is the integer root of `F(t) = t² + (b−d)t − c` up to one unit. -/
theorem y_residual_int (y y' b c d g : ℤ) (hgdef : g = 2 * y + b - d)
    (hlo : y' * g ≤ y * y + c) (hhi : y * y + c < (y' + 1) * g)
    (h1 : -1 ≤ y' - y) (h2 : y' - y ≤ 1) :
    y' * y' + (b - d) * y' - c ≤ 1 ∧ -g < y' * y' + (b - d) * y' - c := by
  obtain ⟨k, hk⟩ : ∃ k, y' - y = k := ⟨_, rfl⟩
  have hy : y = y' - k := by linarith
  have hk2 : k * k ≤ 1 := by
    have : -1 ≤ k ∧ k ≤ 1 := by constructor <;> linarith
    nlinarith [this.1, this.2]
  subst hgdef
  subst hy
  constructor
  · nlinarith [hlo, hk2]
  · nlinarith [hhi, hk2, sq_nonneg k]

theorem ssYStep_inv {b c d y y' : Nat} (h : ssYStep b c d y = .ok y') :
    d < 2 * y + b ∧ y' = (y * y + c) / (2 * y + b - d) := by
  unfold ssYStep at h
  obtain ⟨yy, h1, h⟩ := Res.bind_ok_inv h
  obtain ⟨num, h2, h⟩ := Res.bind_ok_inv h
  obtain ⟨y2, h3, h⟩ := Res.bind_ok_inv h
  obtain ⟨y2b, h4, h⟩ := Res.bind_ok_inv h
  obtain ⟨den, h5, h⟩ := Res.bind_ok_inv h
  obtain ⟨e1, _⟩ := cmul_inv h1
  obtain ⟨e2, _⟩ := cadd_inv h2
  obtain ⟨e3, _⟩ := cadd_inv h3
  obtain ⟨e4, _⟩ := cadd_inv h4
  obtain ⟨e5, l5⟩ := csub_inv h5
  obtain ⟨e6, l6⟩ := cdiv_inv h
  subst e1 e2 e3 e4
  have : y + y + b - d = 2 * y + b - d := by omega
  constructor
  · omega
  · rw [e6, e5, this]

/-- the residual bound for one accepted step -/
theorem ssYStep_residual {b c d yp y : Nat} (h : ssYStep b c d yp = .ok y)
    (hc1 : y ≤ yp + 1) (hc2 : yp ≤ y + 1) :
    d < 2 * yp + b ∧
    -(2 * (yp : ℤ) + b - d) < (y : ℤ) * y + ((b : ℤ) - d) * y - c ∧
    (y : ℤ) * y + ((b : ℤ) - d) * y - c ≤ 1 := by
  obtain ⟨hd, hy⟩ := ssYStep_inv h
  refine ⟨hd, ?_⟩
  generalize hg : 2 * yp + b - d = g at hy
  have hgpos : 0 < g := by omega
  have hlo : y * g ≤ yp * yp + c := by rw [hy]; exact Nat.div_mul_le_self _ _
  have hhi : yp * yp + c < (y + 1) * g := by
    apply (Nat.div_lt_iff_lt_mul hgpos).mp
    omega
  have hgz : (g : ℤ) = 2 * (yp : ℤ) + b - d := by
    have : g + d = 2 * yp + b := by omega
    have hz : ((g + d : Nat) : ℤ) = ((2 * yp + b : Nat) : ℤ) := by rw [this]
    push_cast at hz
    linarith
  have hloz : (y : ℤ) * g ≤ (yp : ℤ) * yp + c := by exact_mod_cast hlo
  have hhiz : (yp : ℤ) * yp + c < ((y : ℤ) + 1) * g := by exact_mod_cast hhi
  have h1 : -1 ≤ (y : ℤ) - yp := by
    have : (yp : ℤ) ≤ y + 1 := by exact_mod_cast hc2
    linarith
  have h2 : (y : ℤ) - yp ≤ 1 := by
    have : (y : ℤ) ≤ yp + 1 := by exact_mod_cast hc1
    linarith
  obtain ⟨r1, r2⟩ := y_residual_int yp y b c d g hgz hloz hhiz h1 h2
  rw [← hgz]
  exact ⟨r2, r1⟩

/-- **y_residual**, connected to the replica's loop: whatever the y-solver returns was produced by
    one Newton step from some `y_prev` within one unit of it, hence
    `−(2·y_prev + b − D) < y² + (b−D)·y − c ≤ 1` (over ℤ), and it fits in 128 bits. -/
theorem ssYLoop_residual : ∀ (k b c d y0 y : Nat), ssYLoop k b c d y0 = .ok y →
    ∃ yp : Nat, ssYStep b c d yp = .ok y ∧ y ≤ yp + 1 ∧ yp ≤ y + 1 ∧ y ≤ U128MAX := by
  intro k
  induction k with
  | zero => intro b c d y0 y h; unfold ssYLoop at h; cases h
  | succ k ih =>
    intro b c d y0 y h
    unfold ssYLoop at h
    obtain ⟨y', hs, h⟩ := Res.bind_ok_inv h
    split at h
    · obtain ⟨diff, hd, h⟩ := Res.bind_ok_inv h
      obtain ⟨ed, ld⟩ := csub_inv hd
      split at h
      · obtain ⟨e, l⟩ := to128_inv h
        subst e
        exact ⟨y0, hs, by omega, by omega, l⟩
      · exact ih b c d y' y h
    · obtain ⟨diff, hd, h⟩ := Res.bind_ok_inv h
      obtain ⟨ed, ld⟩ := csub_inv hd
      split at h
      · obtain ⟨e, l⟩ := to128_inv h
        subst e
        exact ⟨y0, hs, by omega, by omega, l⟩
      · exact ih b c d y' y h

/-- the y-solver never returns after the iteration cap: zero iterations left is `ConvergeError` -/
theorem ssYLoop_zero (b c d y : Nat) : ssYLoop 0 b c d y = .err := rfl

/-! ### LP mint -/

theorem lpMintQuot_inv {S d0 d1 q : Nat} (h : lpMintQuot S d0 d1 = .ok q) :
    d0 ≤ d1 ∧ d0 ≠ 0 ∧ q = S * (d1 - d0) / d0 ∧ q ≤ U128MAX := by
  unfold lpMintQuot at h
  obtain ⟨diff, h1, h⟩ := Res.bind_ok_inv h
  obtain ⟨m, h2, h⟩ := Res.bind_ok_inv h
  obtain ⟨q', h3, h⟩ := Res.bind_ok_inv h
  obtain ⟨e1, l1⟩ := psub_inv h1
  obtain ⟨e2, _⟩ := pmul_inv h2
  obtain ⟨e3, l3⟩ := pdiv_inv h3
  split at h
  · cases h
    subst e1 e2
    exact ⟨l1, l3, e3, by assumption⟩
  · cases h

theorem ssLpMint_inv {amp da db sa sb S m : Nat} (h : ssLpMint amp da db sa sb S = .ok (some m)) :
    ∃ d0 d1, computeD amp sa sb = .ok d0 ∧ computeD amp (sa + da) (sb + db) = .ok d1 ∧
      d0 < d1 ∧ d0 ≠ 0 ∧ m = S * (d1 - d0) / d0 ∧ m ≤ U128MAX := by
  unfold ssLpMint at h
  obtain ⟨d0, h1, ha⟩ := Res.bind_ok_inv h
  obtain ⟨na, h2, hb⟩ := Res.bind_ok_inv ha
  obtain ⟨nb, h3, hc⟩ := Res.bind_ok_inv hb
  obtain ⟨d1, h4, hd⟩ := Res.bind_ok_inv hc
  obtain ⟨e2, _⟩ := padd_inv h2
  obtain ⟨e3, _⟩ := padd_inv h3
  rw [e2, e3] at h4
  clear h ha hb hc
  split at hd
  · cases hd
  · obtain ⟨q, h5, he⟩ := Res.bind_ok_inv hd
    obtain ⟨_, l2, e, l4⟩ := lpMintQuot_inv h5
    cases he
    exact ⟨d0, d1, h1, h4, by omega, l2, e, l4⟩

/-- arithmetic core of `lp_mint_le` -/
theorem mint_le_core {S d0 d1 m : Nat} (hlt : d0 < d1) (hm : m = S * (d1 - d0) / d0) :
    m * d0 ≤ S * (d1 - d0) ∧ d0 * (S + m) ≤ d1 * S := by
  have h1 : m * d0 ≤ S * (d1 - d0) := by rw [hm]; exact Nat.div_mul_le_self _ _
  refine ⟨h1, ?_⟩
  obtain ⟨e, rfl⟩ : ∃ e, d1 = d0 + e := ⟨d1 - d0, by omega⟩
  have : d0 + e - d0 = e := by omega
  rw [this] at h1
  nlinarith


/-! ### d-solvers: termination facts -/

theorem padd_ne_err {max a b : Nat} : padd max a b ≠ .err := by unfold padd; split <;> simp
theorem psub_ne_err {a b : Nat} : psub a b ≠ .err := by unfold psub; split <;> simp
theorem pmul_ne_err {max a b : Nat} : pmul max a b ≠ .err := by unfold pmul; split <;> simp
theorem pdiv_ne_err {a b : Nat} : pdiv a b ≠ .err := by unfold pdiv; split <;> simp

theorem computeNextD_ne_err (amp dI dP s : Nat) : computeNextD amp dI dP s ≠ .err := by
  unfold computeNextD pmul64
  refine Res.bind_ne_err pmul_ne_err fun _ => ?_
  refine Res.bind_ne_err pmul_ne_err fun _ => ?_
  refine Res.bind_ne_err pmul_ne_err fun _ => ?_
  refine Res.bind_ne_err padd_ne_err fun _ => ?_
  refine Res.bind_ne_err pmul_ne_err fun _ => ?_
  refine Res.bind_ne_err psub_ne_err fun _ => ?_
  refine Res.bind_ne_err pmul_ne_err fun _ => ?_
  refine Res.bind_ne_err pmul_ne_err fun _ => ?_
  refine Res.bind_ne_err padd_ne_err fun _ => ?_
  exact pdiv_ne_err

theorem computeDStep_ne_err (amp a2 b2 s d : Nat) : computeDStep amp a2 b2 s d ≠ .err := by
  unfold computeDStep
  refine Res.bind_ne_err pmul_ne_err fun _ => ?_
  refine Res.bind_ne_err pdiv_ne_err fun _ => ?_
  refine Res.bind_ne_err pmul_ne_err fun _ => ?_
  refine Res.bind_ne_err pdiv_ne_err fun _ => ?_
  exact computeNextD_ne_err _ _ _ _

theorem computeDLoop_ne_err : ∀ (k amp a2 b2 s d : Nat), computeDLoop k amp a2 b2 s d ≠ .err := by
  intro k
  induction k with
  | zero => intro amp a2 b2 s d; unfold computeDLoop; simp
  | succ k ih =>
    intro amp a2 b2 s d
    unfold computeDLoop
    refine Res.bind_ne_err (computeDStep_ne_err _ _ _ _ _) fun d' => ?_
    split
    · split
      · simp
      · exact ih _ _ _ _ _
    · split
      · simp
      · exact ih _ _ _ _ _

/-- `compute_d` has no error exit: it returns a value or panics (its `Option` is always `Some`) -/
theorem computeD_ne_err (amp a b : Nat) : computeD amp a b ≠ .err := by
  unfold computeD
  refine Res.bind_ne_err padd_ne_err fun s => ?_
  split
  · simp
  · refine Res.bind_ne_err pmul_ne_err fun _ => ?_
    refine Res.bind_ne_err pmul_ne_err fun _ => ?_
    exact computeDLoop_ne_err _ _ _ _ _ _

/-- what `compute_d`'s loop returns is either the start value with the cap exhausted at once
    (`k = 0`) or the result of a Newton step from some `prev` — but, unlike the Decimal256 solver,
    not necessarily one that met the `|Δ| ≤ 1` test (the loop falls through after 256 rounds) -/
theorem computeDLoop_result : ∀ (k amp a2 b2 s d r : Nat), computeDLoop k amp a2 b2 s d = .ok r →
    (k = 0 ∧ r = d) ∨ ∃ prev, computeDStep amp a2 b2 s prev = .ok r := by
  intro k
  induction k with
  | zero => intro amp a2 b2 s d r h; unfold computeDLoop at h; cases h; exact Or.inl ⟨rfl, rfl⟩
  | succ k ih =>
    intro amp a2 b2 s d r h
    unfold computeDLoop at h
    obtain ⟨d', hs, h⟩ := Res.bind_ok_inv h
    have fin : computeDLoop k amp a2 b2 s d' = .ok r →
        ∃ prev, computeDStep amp a2 b2 s prev = .ok r := by
      intro hk
      rcases ih amp a2 b2 s d' r hk with ⟨_, rfl⟩ | hp
      · exact ⟨d, hs⟩
      · exact hp
    right
    split at h
    · split at h
      · cases h; exact ⟨d, hs⟩
      · exact fin h
    · split at h
      · cases h; exact ⟨d, hs⟩
      · exact fin h

/-- the Decimal256 d-solver returns only values that met its termination test: the result of a
    Newton step from some `prev` with `|d − prev| ≤ 10^(18−precision)`; exhausting the 32 rounds is
    `ConvergeError` -/
theorem ssDLoop_ok_close : ∀ (k op ap ann sum prec cur d : Nat),
    ssDLoop k op ap ann sum prec cur = .ok d →
    ∃ prev thr, ssDStep op ap ann sum prev = .ok d ∧ dec256WithPrecision 1 prec = .ok thr ∧
      d ≤ prev + thr ∧ prev ≤ d + thr := by
  intro k
  induction k with
  | zero => intro op ap ann sum prec cur d h; unfold ssDLoop at h; cases h
  | succ k ih =>
    intro op ap ann sum prec cur d h
    unfold ssDLoop at h
    obtain ⟨d', hs, h⟩ := Res.bind_ok_inv h
    split at h
    · obtain ⟨diff, h1, h⟩ := Res.bind_ok_inv h
      obtain ⟨thr, h2, h⟩ := Res.bind_ok_inv h
      obtain ⟨e1, l1⟩ := csub_inv h1
      split at h
      · cases h; exact ⟨cur, thr, hs, h2, by omega, by omega⟩
      · exact ih _ _ _ _ _ _ _ h
    · obtain ⟨diff, h1, h⟩ := Res.bind_ok_inv h
      obtain ⟨thr, h2, h⟩ := Res.bind_ok_inv h
      obtain ⟨e1, l1⟩ := csub_inv h1
      split at h
      · cases h; exact ⟨cur, thr, hs, h2, by omega, by omega⟩
      · exact ih _ _ _ _ _ _ _ h

theorem ssDLoop_zero (op ap ann sum prec cur : Nat) : ssDLoop 0 op ap ann sum prec cur = .err := rfl

/-! ### fee flooring and monotonicity of the proceeds in the gross output -/

private theorem floor_step {g g' s E A A' : Nat} (hA : A = g * s / E) (hA' : A' = g' * s / E)
    (hE : 0 < E) : A' * E ≤ g' * s ∧ g * s < (A + 1) * E := by
  constructor
  · rw [hA']; exact Nat.div_mul_le_self _ _
  · rw [hA]; exact (Nat.div_lt_iff_lt_mul hE).mp (by omega)

/-- proceeds = gross − Σ⌊share·gross⌋ with three separately floored fees can step DOWN when the
    gross output grows, but by at most 2 base units -/
theorem proceeds_mono_upto_two {g g' s p b : Nat} (hle : g ≤ g') (hsum : s + p + b ≤ E18) :
    g - g * s / E18 - g * p / E18 - g * b / E18
      ≤ (g' - g' * s / E18 - g' * p / E18 - g' * b / E18) + 2 := by
  obtain ⟨a1, a2⟩ := floor_step (g := g) (g' := g') (s := s) rfl rfl E18_pos
  obtain ⟨b1, b2⟩ := floor_step (g := g) (g' := g') (s := p) rfl rfl E18_pos
  obtain ⟨c1, c2⟩ := floor_step (g := g) (g' := g') (s := b) rfl rfl E18_pos
  have t := three_fees_le g s p b E18 hsum
  have t' := three_fees_le g' s p b E18 hsum
  generalize g * s / E18 = A at *
  generalize g' * s / E18 = A' at *
  generalize g * p / E18 = B at *
  generalize g' * p / E18 = B' at *
  generalize g * b / E18 = C at *
  generalize g' * b / E18 = C' at *
  obtain ⟨δ, rfl⟩ : ∃ δ, g' = g + δ := ⟨g' - g, by omega⟩
  have key : A' + B' + C' < A + B + C + 3 + δ := by
    have h1 : (A' + B' + C') * E18 ≤ (g + δ) * (s + p + b) := by nlinarith
    have h2 : g * (s + p + b) < (A + B + C + 3) * E18 := by nlinarith
    have h3 : δ * (s + p + b) ≤ δ * E18 := Nat.mul_le_mul_left _ hsum
    have h4 : (A' + B' + C') * E18 < (A + B + C + 3 + δ) * E18 := by nlinarith
    exact Nat.lt_of_mul_lt_mul_right h4
  omega

/-! ### the y-solver as called by `calculate_stableswap_y` -/

/-- the quadratic the code's y-solver iterates on, in terms of the code's own `D` (at ask precision)
    and the new offer-side pool sum -/
theorem ssY_inv {op ap off amp pa dir y : Nat} (h : ssY op ap off amp pa dir = .ok y) :
    ∃ dDec d psDec ps c b,
      ssD op ap amp pa = .ok dDec ∧ dec256ToUintPrecision dDec pa = .ok d ∧
      (if dir = 0 then cadd U256MAX op off else csub ap off) = .ok psDec ∧
      dec256ToUintPrecision psDec pa = .ok ps ∧
      c = d * d / (ps * SS_N) * d / (amp * SS_N * SS_N) ∧ b = ps + d / (amp * SS_N) ∧
      ssYLoop Gen.PAIR_NEWTON_ITERATIONS b c d d = .ok y := by
  unfold ssY at h
  obtain ⟨ann, h1, h⟩ := Res.bind_ok_inv h
  obtain ⟨dDec, h2, h⟩ := Res.bind_ok_inv h
  obtain ⟨d, h3, h⟩ := Res.bind_ok_inv h
  obtain ⟨psDec, h4, h⟩ := Res.bind_ok_inv h
  obtain ⟨ps, h5, h⟩ := Res.bind_ok_inv h
  obtain ⟨ps2, h6, h⟩ := Res.bind_ok_inv h
  obtain ⟨c1, h7, h⟩ := Res.bind_ok_inv h
  obtain ⟨ann2, h8, h⟩ := Res.bind_ok_inv h
  obtain ⟨c, h9, h⟩ := Res.bind_ok_inv h
  obtain ⟨q, h10, h⟩ := Res.bind_ok_inv h
  obtain ⟨b, h11, h⟩ := Res.bind_ok_inv h
  obtain ⟨e1, _⟩ := cmul_inv h1
  obtain ⟨e6, _⟩ := cmul_inv h6
  obtain ⟨e8, _⟩ := cmul_inv h8
  obtain ⟨e10, _⟩ := cdiv_inv h10
  obtain ⟨e11, _⟩ := cadd_inv h11
  have e7 : c1 = d * d / ps2 := by
    unfold mulRatioC at h7; split at h7
    · cases h7
    · split at h7
      · cases h7; rfl
      · cases h7
  have e9 : c = c1 * d / ann2 := by
    unfold mulRatioC at h9; split at h9
    · cases h9
    · split at h9
      · cases h9; rfl
      · cases h9
  refine ⟨dDec, d, psDec, ps, c, b, h2, h3, h4, h5, ?_, ?_, h⟩
  · rw [e9, e7, e6, e8, e1]
  · rw [e11, e10, e1]

/-! ### provide on a live pool (LP supply > 0) -/

theorem ssProvide_live {cfg : SsCfg} {s s' : SsSt} {u d0 d1 : Nat}
    (h : ssProvide cfg s u d0 d1 = .ok s') (hs : s.sup ≠ 0) :
    ∃ m, ssLpMint cfg.amp d0 d1 s.r0 s.r1 s.sup = .ok (some m) ∧
      s.pend0 ≤ s.bal0 ∧ s.pend1 ≤ s.bal1 ∧
      s'.sup = s.sup + m ∧ s'.bal0 = s.bal0 + d0 ∧ s'.bal1 = s.bal1 + d1 ∧
      s'.pend0 = s.pend0 ∧ s'.pend1 = s.pend1 ∧ s'.lpPair = s.lpPair := by
  unfold ssProvide at h
  obtain ⟨_, g1, h⟩ := Res.bind_ok_inv h
  obtain ⟨_, g2, h⟩ := Res.bind_ok_inv h
  obtain ⟨_, g3, h⟩ := Res.bind_ok_inv h
  obtain ⟨p0, c0, h⟩ := Res.bind_ok_inv h
  obtain ⟨p1, c1, h⟩ := Res.bind_ok_inv h
  obtain ⟨e0, l0⟩ := csub_inv c0
  obtain ⟨e1, l1⟩ := csub_inv c1
  rw [if_neg hs] at h
  obtain ⟨m, hm, h⟩ := Res.bind_ok_inv h
  cases m with
  | none => cases h
  | some share =>
    obtain ⟨_, g4, h⟩ := Res.bind_ok_inv h
    cases h
    refine ⟨share, ?_, l0, l1, rfl, rfl, rfl, rfl, rfl, rfl⟩
    rw [e0, e1] at hm
    exact hm

/-! ### an invariant of the pool state machine over all histories -/

def lpSum (l : List SsUser) : Nat := (l.map (·.lp)).sum

theorem lpSum_set (l : List SsUser) (u : Nat) (x d : SsUser) (h : u < l.length) :
    lpSum (l.set u x) + (l.getD u d).lp = lpSum l + x.lp := by
  induction l generalizing u with
  | nil => simp at h
  | cons a t ih =>
    cases u with
    | zero => simp [lpSum]; omega
    | succ n =>
      have := ih n (by simpa using h)
      simp [lpSum] at this ⊢
      omega

theorem lp_le_lpSum (l : List SsUser) (u : Nat) (d : SsUser) (h : u < l.length) :
    (l.getD u d).lp ≤ lpSum l := by
  induction l generalizing u with
  | nil => simp at h
  | cons a t ih =>
    cases u with
    | zero => simp [lpSum]
    | succ n =>
      have := ih n (by simpa using h)
      simp [lpSum] at this ⊢
      omega

theorem lpSum_set_add (l : List SsUser) (u : Nat) (x : SsUser) (k : Nat) (h : u < l.length)
    (hx : x.lp = (l.getD u { a := 0, b := 0, lp := 0 }).lp + k) : lpSum (l.set u x) = lpSum l + k := by
  have := lpSum_set l u x { a := 0, b := 0, lp := 0 } h
  omega

/-- pending protocol fees are covered by the balances and the LP supply is exactly the pair's own
    holding plus the users' holdings -/
structure SsInv (s : SsSt) : Prop where
  p0 : s.pend0 ≤ s.bal0
  p1 : s.pend1 ≤ s.bal1
  lp : s.sup = s.lpPair + lpSum s.users

theorem ssSwap_sum_le {opool apool off : Nat} {f : Fees} {amp po pa : Nat} {c : SwapComp}
    (hpa : pa ≤ 18) (h : ssSwap opool apool off f amp po pa = .ok c) :
    c.ret + c.swapFee + c.protFee + c.burnFee ≤ apool := by
  obtain ⟨_, apD, _, y, apU, _, h2, _, _, h5, hy, _, _, _, hs, hr⟩ := (ssSwap_facts h).ex
  have hU : apU = apool := toUint_withPrecision hpa h2 h5
  subst hU
  omega

theorem ssInit_inv (a b : Nat) : SsInv (ssInit a b) := by
  constructor <;> simp [ssInit, lpSum]

theorem ssWithdraw_inv {cfg : SsCfg} {s s' : SsSt} {u amt : Nat} (hI : SsInv s) (h : ssWithdraw cfg s u amt = .ok s') :
    SsInv s' := by
  unfold ssWithdraw at h
  obtain ⟨_, g1, h⟩ := Res.bind_ok_inv h
  obtain ⟨_, g2, h⟩ := Res.bind_ok_inv h
  obtain ⟨p0, c0, h⟩ := Res.bind_ok_inv h
  obtain ⟨p1, c1, h⟩ := Res.bind_ok_inv h
  obtain ⟨ratio, hr, h⟩ := Res.bind_ok_inv h
  obtain ⟨x0, hx0, h⟩ := Res.bind_ok_inv h
  obtain ⟨x1, hx1, h⟩ := Res.bind_ok_inv h
  obtain ⟨_, g3, h⟩ := Res.bind_ok_inv h
  have hu : u < s.users.length := by simpa using guardErr_inv g1
  have hamt : amt ≤ (s.user u).lp := by simpa using guardErr_inv g2
  obtain ⟨e0, _⟩ := csub_inv c0
  obtain ⟨e1, _⟩ := csub_inv c1
  have ex0 := u128MulDec_inv hx0
  have ex1 := u128MulDec_inv hx1
  -- the user's LP is part of the supply, so the share ratio is at most one
  have hset : lpSum (s.users.set u
        { a := (s.user u).a + x0, b := (s.user u).b + x1, lp := (s.user u).lp - amt })
      + (s.user u).lp = lpSum s.users + ((s.user u).lp - amt) :=
    lpSum_set s.users u _ { a := 0, b := 0, lp := 0 } hu
  have hlp := hI.lp
  have hule : (s.user u).lp ≤ lpSum s.users := lp_le_lpSum s.users u _ hu
  have hsup : amt ≤ s.sup := by omega
  have hratio : ratio ≤ E18 := by
    unfold dec128FromRatio mulRatioP at hr
    split at hr
    · cases hr
    · split at hr
      · cases hr
        apply Nat.div_le_of_le_mul
        exact Nat.mul_le_mul_right _ hsup |>.trans (by rw [Nat.mul_comm])
      · cases hr
  have hx0le : x0 ≤ p0 := by rw [ex0]; exact mul_div_le_of_le hratio
  have hx1le : x1 ≤ p1 := by rw [ex1]; exact mul_div_le_of_le hratio
  have hp0 := hI.p0
  have hp1 := hI.p1
  cases h
  refine ⟨?_, ?_, ?_⟩
  · show s.pend0 ≤ s.bal0 - x0; omega
  · show s.pend1 ≤ s.bal1 - x1; omega
  · show s.sup - amt = s.lpPair + lpSum (s.users.set u _)
    omega

theorem ssSwapOp_inv {cfg : SsCfg} {s s' : SsSt} {u dir off : Nat} (hd0 : cfg.dec0 ≤ 18)
    (hd1 : cfg.dec1 ≤ 18) (hI : SsInv s) (h : ssSwapOp cfg s u dir off = .ok s') : SsInv s' := by
  unfold ssSwapOp at h
  obtain ⟨_, g1, h⟩ := Res.bind_ok_inv h
  obtain ⟨_, g2, h⟩ := Res.bind_ok_inv h
  obtain ⟨_, g3, h⟩ := Res.bind_ok_inv h
  obtain ⟨_, g4, h⟩ := Res.bind_ok_inv h
  obtain ⟨p0, c0, h⟩ := Res.bind_ok_inv h
  obtain ⟨p1, c1, h⟩ := Res.bind_ok_inv h
  obtain ⟨c, hc, h⟩ := Res.bind_ok_inv h
  obtain ⟨f1, _, h⟩ := Res.bind_ok_inv h
  obtain ⟨fees, _, h⟩ := Res.bind_ok_inv h
  obtain ⟨rf, _, h⟩ := Res.bind_ok_inv h
  obtain ⟨_, _, h⟩ := Res.bind_ok_inv h
  have hu : u < s.users.length := by simpa using guardErr_inv g1
  obtain ⟨e0, _⟩ := csub_inv c0
  obtain ⟨e1, _⟩ := csub_inv c1
  have hp0 := hI.p0
  have hp1 := hI.p1
  have hlp := hI.lp
  by_cases hdir : dir = 0
  · rw [if_pos hdir] at hc h
    have hle := ssSwap_sum_le hd1 hc
    cases h
    refine ⟨?_, ?_, ?_⟩
    · show s.pend0 ≤ s.bal0 + off; omega
    · show s.pend1 + c.protFee ≤ s.bal1 - c.ret - c.burnFee; omega
    · have e := lpSum_set_add s.users u
        { a := (s.user u).a - off, b := (s.user u).b + c.ret, lp := (s.user u).lp } 0 hu rfl
      show s.sup = s.lpPair + lpSum (s.users.set u _)
      rw [e]; omega
  · rw [if_neg hdir] at hc h
    have hle := ssSwap_sum_le hd0 hc
    cases h
    refine ⟨?_, ?_, ?_⟩
    · show s.pend0 + c.protFee ≤ s.bal0 - c.ret - c.burnFee; omega
    · show s.pend1 ≤ s.bal1 + off; omega
    · have e := lpSum_set_add s.users u
        { a := (s.user u).a + c.ret, b := (s.user u).b - off, lp := (s.user u).lp } 0 hu rfl
      show s.sup = s.lpPair + lpSum (s.users.set u _)
      rw [e]; omega

theorem ssProvide_inv {cfg : SsCfg} {s s' : SsSt} {u d0 d1 : Nat} (hI : SsInv s)
    (h : ssProvide cfg s u d0 d1 = .ok s') : SsInv s' := by
  unfold ssProvide at h
  obtain ⟨_, g1, h⟩ := Res.bind_ok_inv h
  obtain ⟨_, g2, h⟩ := Res.bind_ok_inv h
  obtain ⟨_, g3, h⟩ := Res.bind_ok_inv h
  obtain ⟨p0, c0, h⟩ := Res.bind_ok_inv h
  obtain ⟨p1, c1, h⟩ := Res.bind_ok_inv h
  have hu : u < s.users.length := by simpa using guardErr_inv g1
  have hp0 := hI.p0
  have hp1 := hI.p1
  have hlp := hI.lp
  by_cases hs : s.sup = 0
  · rw [if_pos hs] at h
    obtain ⟨d, _, h⟩ := Res.bind_ok_inv h
    obtain ⟨d', _, h⟩ := Res.bind_ok_inv h
    obtain ⟨_, _, h⟩ := Res.bind_ok_inv h
    obtain ⟨_, _, h⟩ := Res.bind_ok_inv h
    cases h
    refine ⟨?_, ?_, ?_⟩
    · show s.pend0 ≤ s.bal0 + d0; omega
    · show s.pend1 ≤ s.bal1 + d1; omega
    · generalize hk : d' - Gen.MINIMUM_LIQUIDITY_AMOUNT * 2 = k
      generalize Gen.MINIMUM_LIQUIDITY_AMOUNT * 2 = ml
      have e := lpSum_set_add s.users u
        { a := (s.user u).a - d0, b := (s.user u).b - d1, lp := (s.user u).lp + k } k hu rfl
      show ml + k = s.lpPair + ml + lpSum (s.users.set u _)
      rw [e]; omega
  · rw [if_neg hs] at h
    obtain ⟨m, hm, h⟩ := Res.bind_ok_inv h
    cases m with
    | none => cases h
    | some share =>
      obtain ⟨_, g4, h⟩ := Res.bind_ok_inv h
      cases h
      refine ⟨?_, ?_, ?_⟩
      · show s.pend0 ≤ s.bal0 + d0; omega
      · show s.pend1 ≤ s.bal1 + d1; omega
      · have e := lpSum_set_add s.users u
          { a := (s.user u).a - d0, b := (s.user u).b - d1, lp := (s.user u).lp + share } share hu rfl
        show s.sup + share = s.lpPair + lpSum (s.users.set u _)
        rw [e]; omega

theorem ssCollectSide_inv {bal pend b' p' : Nat} (hle : pend ≤ bal)
    (h : ssCollectSide bal pend = .ok (b', p')) : p' ≤ b' := by
  unfold ssCollectSide at h
  split at h
  · obtain ⟨b, hb, h⟩ := Res.bind_ok_inv h
    cases h
    exact Nat.zero_le _
  · cases h; exact hle

theorem ssCollect_inv {s s' : SsSt} (hI : SsInv s) (h : ssCollect s = .ok s') : SsInv s' := by
  unfold ssCollect at h
  obtain ⟨x0, h0, h⟩ := Res.bind_ok_inv h
  obtain ⟨x1, h1, h⟩ := Res.bind_ok_inv h
  cases h
  exact ⟨ssCollectSide_inv hI.p0 (by simpa using h0), ssCollectSide_inv hI.p1 (by simpa using h1), hI.lp⟩

theorem ssStep_inv {cfg : SsCfg} {s s' : SsSt} {op : SsOp} (hd0 : cfg.dec0 ≤ 18) (hd1 : cfg.dec1 ≤ 18)
    (hI : SsInv s) (h : ssStep cfg s op = .ok s') : SsInv s' := by
  cases op with
  | provide u a b => exact ssProvide_inv hI h
  | swap u dir off => exact ssSwapOp_inv hd0 hd1 hI h
  | withdraw u amt => exact ssWithdraw_inv hI h
  | collect => exact ssCollect_inv hI h

theorem ssReach_inv {cfg : SsCfg} (hd0 : cfg.dec0 ≤ 18) (hd1 : cfg.dec1 ≤ 18) :
    ∀ (ops : List SsOp) (s : SsSt), SsInv s → SsInv (ssReach cfg s ops) := by
  intro ops
  induction ops with
  | nil => intro s h; exact h
  | cons op ops ih =>
    intro s h
    unfold ssReach
    split
    · rename_i s' hs; exact ih s' (ssStep_inv hd0 hd1 h hs)
    · exact ih s h

end WW
