/-
  Helper lemmas for the three-asset stableswap model (`WW/Model/Trio.lean`).
  Property theorems are in `WW/Props/C04.lean`; the C07 / C14 lemmas of the 3pool
  (`trio_ledger_eq`, `trio_collect_exact`, `trio_all_time_eq`, `trio_burned_eq`, `trio_sim_eq_exec`)
  are proved here under those names so that shared `Props/C07.lean` / `Props/C14.lean` can re-export them.
-/
import WW.Model.Trio
import WW.Proofs.Basic
namespace WW.Trio
open WW

/-! ## `Res` plumbing -/

theorem bind_eq_ok {α β : Type} {x : Res α} {f : α → Res β} {b : β} :
    (x >>= f) = .ok b ↔ ∃ a, x = .ok a ∧ f a = .ok b := by
  cases x <;> simp [Bind.bind, Res.bind]

theorem guardErr_eq_ok {c : Bool} {u : Unit} : guardErr c = .ok u ↔ c = true := by
  cases c <;> simp [guardErr]

theorem guard_bind_eq_ok {β : Type} {c : Bool} {f : Unit → Res β} {b : β} :
    (guardErr c >>= f) = .ok b ↔ c = true ∧ f () = .ok b := by
  cases c <;> simp [guardErr, Bind.bind, Res.bind]

theorem csub_eq_ok {a b r : Nat} : csub a b = .ok r ↔ b ≤ a ∧ r = a - b := by
  unfold csub; split <;> simp_all [eq_comm]
theorem cadd_eq_ok {m a b r : Nat} : cadd m a b = .ok r ↔ a + b ≤ m ∧ r = a + b := by
  unfold cadd; split <;> simp_all [eq_comm]
theorem cmul_eq_ok {m a b r : Nat} : cmul m a b = .ok r ↔ a * b ≤ m ∧ r = a * b := by
  unfold cmul; split <;> simp_all [eq_comm]
theorem cdiv_eq_ok {a b r : Nat} : cdiv a b = .ok r ↔ b ≠ 0 ∧ r = a / b := by
  unfold cdiv; split <;> simp_all [eq_comm]
theorem psub_eq_ok {a b r : Nat} : psub a b = .ok r ↔ b ≤ a ∧ r = a - b := by
  unfold psub; split <;> simp_all [eq_comm]
theorem padd_eq_ok {m a b r : Nat} : padd m a b = .ok r ↔ a + b ≤ m ∧ r = a + b := by
  unfold padd; split <;> simp_all [eq_comm]
theorem pmul_eq_ok {m a b r : Nat} : pmul m a b = .ok r ↔ a * b ≤ m ∧ r = a * b := by
  unfold pmul; split <;> simp_all [eq_comm]
theorem pdiv_eq_ok {a b r : Nat} : pdiv a b = .ok r ↔ b ≠ 0 ∧ r = a / b := by
  unfold pdiv; split <;> simp_all [eq_comm]
theorem to64_eq_ok {a r : Nat} : to64 a = .ok r ↔ a ≤ U64MAX ∧ r = a := by
  unfold to64; split <;> simp_all [eq_comm]
theorem to128_eq_ok {a r : Nat} : to128 a = .ok r ↔ a ≤ U128MAX ∧ r = a := by
  unfold to128; split <;> simp_all [eq_comm]
theorem to128P_eq_ok {a r : Nat} : to128P a = .ok r ↔ a ≤ U128MAX ∧ r = a := by
  unfold to128P; split <;> simp_all [eq_comm]
theorem u256MulDec_eq_ok {a d r : Nat} : u256MulDec a d = .ok r ↔ a * d / E18 ≤ U256MAX ∧ r = a * d / E18 := by
  unfold u256MulDec; split <;> simp_all [eq_comm]
theorem unwrapP_eq_ok {α : Type} {x : Res α} {a : α} : unwrapP x = .ok a ↔ x = .ok a := by
  cases x <;> simp [unwrapP]

/-! ## amplification ramp -/

/-- closed form of the effective amplification of a well-formed configuration -/
def ampClosed (init target cur start stop : Nat) : Nat :=
  if cur < stop then
    if target ≥ init then init + (target - init) * (cur - start) / (stop - start)
    else init - (init - target) * (cur - start) / (stop - start)
  else target

theorem u64sq : U64MAX * U64MAX ≤ U128MAX := by decide

/-- whenever `compute_amp_factor` returns a value it is the closed form -/
theorem ampFactor_ok_eq {i t c s e a : Nat} (h : ampFactor i t c s e = .ok a) :
    a = ampClosed i t c s e ∧ (c < e → s ≤ c ∧ s < e) := by
  unfold ampFactor at h
  unfold ampClosed
  split at h
  · rename_i hce
    obtain ⟨range, hr, h⟩ := bind_eq_ok.mp h
    obtain ⟨delta, hd, h⟩ := bind_eq_ok.mp h
    obtain ⟨hse, hr⟩ := csub_eq_ok.mp hr
    obtain ⟨hsc, hd⟩ := csub_eq_ok.mp hd
    subst hr hd
    have hlt : s < e := by omega
    split at h
    · rename_i hti
      obtain ⟨ar, har, h⟩ := bind_eq_ok.mp h
      obtain ⟨m, hm, h⟩ := bind_eq_ok.mp h
      obtain ⟨q, hq, h⟩ := bind_eq_ok.mp h
      obtain ⟨q', hq', h⟩ := bind_eq_ok.mp h
      obtain ⟨_, har⟩ := csub_eq_ok.mp har
      obtain ⟨_, hm⟩ := cmul_eq_ok.mp hm
      obtain ⟨_, hq⟩ := cdiv_eq_ok.mp hq
      obtain ⟨_, hq'⟩ := to64_eq_ok.mp hq'
      obtain ⟨_, h⟩ := cadd_eq_ok.mp h
      subst har hm hq hq'
      rw [if_pos hce, if_pos hti]
      exact ⟨h, fun _ => ⟨hsc, hlt⟩⟩
    · rename_i hti
      obtain ⟨ar, har, h⟩ := bind_eq_ok.mp h
      obtain ⟨m, hm, h⟩ := bind_eq_ok.mp h
      obtain ⟨q, hq, h⟩ := bind_eq_ok.mp h
      obtain ⟨q', hq', h⟩ := bind_eq_ok.mp h
      obtain ⟨_, har⟩ := csub_eq_ok.mp har
      obtain ⟨_, hm⟩ := cmul_eq_ok.mp hm
      obtain ⟨_, hq⟩ := cdiv_eq_ok.mp hq
      obtain ⟨_, hq'⟩ := to64_eq_ok.mp hq'
      obtain ⟨_, h⟩ := csub_eq_ok.mp h
      subst har hm hq hq'
      rw [if_pos hce, if_neg hti]
      exact ⟨h, fun _ => ⟨hsc, hlt⟩⟩
  · rename_i hce
    rw [if_neg hce]
    exact ⟨by injection h with h; exact h.symm, fun hh => absurd hh hce⟩

/-- the interpolated part never exceeds the amp range -/
theorem interp_le (r d n : Nat) (hdn : d ≤ n) : r * d / n ≤ r := by
  rcases Nat.eq_zero_or_pos n with h | h
  · subst h; simp
  · exact Nat.div_le_of_le_mul (by rw [Nat.mul_comm n r]; exact Nat.mul_le_mul_left r hdn)

/-- the closed form lies between the ramp's start and target values -/
theorem ampClosed_between {i t c s e : Nat} (hw : c < e → s ≤ c ∧ s < e) :
    min i t ≤ ampClosed i t c s e ∧ ampClosed i t c s e ≤ max i t := by
  unfold ampClosed
  split
  · rename_i hce
    obtain ⟨hsc, hse⟩ := hw hce
    have hd : c - s ≤ e - s := by omega
    split
    · rename_i hti
      have hq := interp_le (t - i) (c - s) (e - s) hd
      generalize (t - i) * (c - s) / (e - s) = q at hq ⊢
      omega
    · rename_i hti
      have hq := interp_le (i - t) (c - s) (e - s) hd
      generalize (i - t) * (c - s) / (e - s) = q at hq ⊢
      omega
  · omega

/-- on a well-formed configuration (`u64` fields, clock not before the ramp's start)
    `compute_amp_factor` always returns the closed form -/
theorem ampFactor_closed {i t c s e : Nat} (hi : i ≤ U64MAX) (ht : t ≤ U64MAX) (hc : c ≤ U64MAX)
    (hw : c < e → s ≤ c) : ampFactor i t c s e = .ok (ampClosed i t c s e) := by
  unfold ampFactor ampClosed
  split
  · rename_i hce
    have hsc := hw hce
    have hse : s ≤ e := by omega
    have hd : c - s ≤ e - s := by omega
    rw [csub_ok hse, Res.bind_ok, csub_ok hsc, Res.bind_ok]
    split
    · rename_i hti
      have hle := interp_le (t - i) (c - s) (e - s) hd
      have hm : (t - i) * (c - s) ≤ U128MAX :=
        le_trans (Nat.mul_le_mul (by omega) (by omega)) u64sq
      have hne : e - s ≠ 0 := by omega
      rw [csub_ok hti, Res.bind_ok, cmul_ok hm, Res.bind_ok, cdiv_ok hne, Res.bind_ok]
      generalize (t - i) * (c - s) / (e - s) = q at hle ⊢
      have h64 : q ≤ U64MAX := by omega
      have : to64 q = .ok q := by simp [to64, h64]
      rw [this, Res.bind_ok, cadd_ok (by omega)]
    · rename_i hti
      have hle := interp_le (i - t) (c - s) (e - s) hd
      have hm : (i - t) * (c - s) ≤ U128MAX :=
        le_trans (Nat.mul_le_mul (by omega) (by omega)) u64sq
      have hne : e - s ≠ 0 := by omega
      rw [csub_ok (by omega), Res.bind_ok, cmul_ok hm, Res.bind_ok, cdiv_ok hne, Res.bind_ok]
      generalize (i - t) * (c - s) / (e - s) = q at hle ⊢
      have h64 : q ≤ U64MAX := by omega
      have : to64 q = .ok q := by simp [to64, h64]
      rw [this, Res.bind_ok, csub_ok (by omega)]
  · rfl

/-- the closed form moves monotonically from the start value towards the target as the clock runs -/
theorem ampClosed_mono {i t s e c1 c2 : Nat} (hs : s ≤ c1) (h12 : c1 ≤ c2) (hse : s < e) :
    (i ≤ t → ampClosed i t c1 s e ≤ ampClosed i t c2 s e) ∧
    (t ≤ i → ampClosed i t c2 s e ≤ ampClosed i t c1 s e) := by
  have hn : 0 < e - s := by omega
  constructor
  · intro hit
    unfold ampClosed
    rw [if_pos (show t ≥ i from hit), if_pos (show t ≥ i from hit)]
    by_cases h2 : c2 < e
    · have h1 : c1 < e := by omega
      rw [if_pos h1, if_pos h2]
      have hq : (t - i) * (c1 - s) / (e - s) ≤ (t - i) * (c2 - s) / (e - s) :=
        Nat.div_le_div_right (Nat.mul_le_mul_left _ (by omega))
      generalize (t - i) * (c1 - s) / (e - s) = q1 at hq ⊢
      generalize (t - i) * (c2 - s) / (e - s) = q2 at hq ⊢
      omega
    · rw [if_neg h2]
      by_cases h1 : c1 < e
      · rw [if_pos h1]
        have hq := interp_le (t - i) (c1 - s) (e - s) (by omega)
        generalize (t - i) * (c1 - s) / (e - s) = q1 at hq ⊢
        omega
      · rw [if_neg h1]
  · intro hti
    unfold ampClosed
    by_cases hEq : t ≥ i
    · have : t = i := by omega
      subst this
      simp
    · rw [if_neg hEq, if_neg hEq]
      by_cases h2 : c2 < e
      · have h1 : c1 < e := by omega
        rw [if_pos h1, if_pos h2]
        have hq : (i - t) * (c1 - s) / (e - s) ≤ (i - t) * (c2 - s) / (e - s) :=
          Nat.div_le_div_right (Nat.mul_le_mul_left _ (by omega))
        have hq2 := interp_le (i - t) (c2 - s) (e - s) (by omega)
        generalize (i - t) * (c1 - s) / (e - s) = q1 at hq ⊢
        generalize (i - t) * (c2 - s) / (e - s) = q2 at hq hq2 ⊢
        omega
      · rw [if_neg h2]
        by_cases h1 : c1 < e
        · rw [if_pos h1]
          have hq := interp_le (i - t) (c1 - s) (e - s) (by omega)
          generalize (i - t) * (c1 - s) / (e - s) = q1 at hq ⊢
          omega
        · rw [if_neg h1]

/-! ## ramp acceptance -/

-- the constants the property pins (a change of the Rust constant breaks these `rfl`s)
theorem MIN_AMP_eq : WW.Gen.TRIO_MIN_AMP = 1 := rfl
theorem MAX_AMP_eq : WW.Gen.TRIO_MAX_AMP = 1000000 := rfl
theorem MAX_AMP_CHANGE_eq : WW.Gen.TRIO_MAX_AMP_CHANGE = 10 := rfl
theorem MIN_RAMP_BLOCKS_eq : WW.Gen.TRIO_MIN_RAMP_BLOCKS = 10000 := rfl
theorem MIN_COLLECTABLE_eq : WW.Gen.TRIO_MINIMUM_COLLECTABLE_BALANCE = 1000 := rfl
theorem MIN_LIQUIDITY_eq : WW.Gen.MINIMUM_LIQUIDITY_AMOUNT = 1000 := rfl

theorem u64_big : 10000000 ≤ U64MAX := by decide

/-- the decision `update_config` takes on a ramp request, given the amp in effect -/
def rampRule (cur h fa fb : Nat) : Prop :=
  1 ≤ fa ∧ fa ≤ 1000000 ∧ fa ≤ 10 * cur ∧ cur ≤ 10 * fa ∧ h + 10000 ≤ fb

instance (cur h fa fb : Nat) : Decidable (rampRule cur h fa fb) := by
  unfold rampRule; infer_instance

/-- closed form of `rampAmp` once the amp in effect is known -/
theorem rampAmp_closed {A : AmpCfg} {h fa fb cur : Nat} (hat : A.at h = .ok cur)
    (hcur : cur ≤ 1000000) (hh : h + 10000 ≤ U64MAX) :
    rampAmp A h fa fb =
      if rampRule cur h fa fb then .ok { init := cur, target := fa, start := h, stop := fb }
      else .err := by
  have hb := u64_big
  unfold rampAmp rampRule
  rw [hat]
  simp only [unwrapP, Res.bind_ok, MIN_AMP_eq, MAX_AMP_eq, MAX_AMP_CHANGE_eq, MIN_RAMP_BLOCKS_eq]
  by_cases h1 : 1 ≤ fa
  · by_cases h2 : fa ≤ 1000000
    · have hup : cur * 10 ≤ U64MAX := by omega
      have hdn : fa * 10 ≤ U64MAX := by omega
      simp only [guardErr, h1, h2, decide_true, if_true, Res.bind_ok, pmul_ok hup, pmul_ok hdn,
        padd_ok hh]
      by_cases h3 : fa > cur
      · by_cases h4 : fa > cur * 10
        · simp [h3, h4, Bind.bind, Res.bind]; omega
        · have h5 : ¬ fa < cur := by omega
          by_cases h6 : h + 10000 ≤ fb
          · simp [h3, h4, h5, h6, Bind.bind, Res.bind]; omega
          · simp [h3, h4, h5, h6, Bind.bind, Res.bind]
      · by_cases h5 : fa < cur
        · by_cases h4 : fa * 10 < cur
          · simp [h3, h4, h5, Bind.bind, Res.bind]; omega
          · by_cases h6 : h + 10000 ≤ fb
            · simp [h3, h4, h5, h6, Bind.bind, Res.bind]; omega
            · simp [h3, h4, h5, h6, Bind.bind, Res.bind]
        · by_cases h6 : h + 10000 ≤ fb
          · simp [h3, h5, h6, Bind.bind, Res.bind]; omega
          · simp [h3, h5, h6, Bind.bind, Res.bind]
    · simp [guardErr, h1, h2, Bind.bind, Res.bind]
  · simp [guardErr, h1, Bind.bind, Res.bind]

/-- without an amp in effect (`compute_amp_factor` = `None`) the ramp request panics -/
theorem rampAmp_not_ok_of_at {A : AmpCfg} {h fa fb : Nat} (hat : ∀ cur, A.at h ≠ .ok cur)
    (A' : AmpCfg) : rampAmp A h fa fb ≠ .ok A' := by
  unfold rampAmp
  cases hx : A.at h with
  | ok c => exact absurd hx (hat c)
  | err => simp [unwrapP, Bind.bind, Res.bind]
  | panic => simp [unwrapP, Bind.bind, Res.bind]

/-! ## pool selection -/

theorem select_eq (o a : Nat) :
    select o a = if o < 3 ∧ a < 3 ∧ o ≠ a then .ok (o, a, 3 - o - a) else .err := by
  unfold select
  by_cases ha0 : a = 0
  · subst ha0
    by_cases h1 : o = 1
    · subst h1; simp
    · by_cases h2 : o = 2
      · subst h2; simp
      · simp [h1, h2]; omega
  · by_cases ha1 : a = 1
    · subst ha1
      by_cases h0 : o = 0
      · subst h0; simp
      · by_cases h2 : o = 2
        · subst h2; simp
        · simp [h0, h2]; omega
    · by_cases ha2 : a = 2
      · subst ha2
        by_cases h0 : o = 0
        · subst h0; simp
        · by_cases h1 : o = 1
          · subst h1; simp
          · simp [h0, h1]; omega
      · simp [ha0, ha1, ha2]; omega

/-! ## curve outputs: structure of `swap_to`, `compute_swap`, `compute_mint_amount_for_deposit` -/

theorem swapTo_ok {A : AmpCfg} {cur src ss sd un : Nat} {r : SwapRes}
    (h : swapTo A cur src ss sd un = .ok r) :
    ∃ d y, computeD A cur ss sd un = .ok d ∧ computeY A cur (ss + src) un d = .ok y ∧
      y + 1 ≤ sd ∧ r.swapped = sd - y - 1 ∧ r.newDest = y + 1 ∧ r.newSource = ss + src := by
  unfold swapTo at h
  obtain ⟨x, hx, h⟩ := bind_eq_ok.mp h
  obtain ⟨d, hd, h⟩ := bind_eq_ok.mp h
  obtain ⟨y, hy, h⟩ := bind_eq_ok.mp h
  obtain ⟨t, ht, h⟩ := bind_eq_ok.mp h
  obtain ⟨dy, hdy, h⟩ := bind_eq_ok.mp h
  obtain ⟨nd, hnd, h⟩ := bind_eq_ok.mp h
  obtain ⟨ns, hns, h⟩ := bind_eq_ok.mp h
  obtain ⟨_, hx⟩ := padd_eq_ok.mp hx
  obtain ⟨hyd, ht⟩ := psub_eq_ok.mp ht
  obtain ⟨h1, hdy⟩ := psub_eq_ok.mp hdy
  obtain ⟨_, hnd⟩ := psub_eq_ok.mp hnd
  obtain ⟨_, hns⟩ := padd_eq_ok.mp hns
  subst hx ht hdy hnd hns
  injection h with h
  subst h
  refine ⟨d, y, unwrapP_eq_ok.mp hd, hy, by omega, rfl, by simp only; omega, rfl⟩

/-- the fee split of `compute_swap`, read off an `Ok` result -/
theorem computeSwap_ok {A : AmpCfg} {cur op ap un off : Nat} {f : Fees} {c : SwapComp}
    (h : computeSwap A cur op ap un off f = .ok c) :
    ∃ r, swapTo A cur off op ap un = .ok r ∧
      c.swapFee = r.swapped * f.swap / E18 ∧ c.protFee = r.swapped * f.prot / E18 ∧
      c.burnFee = r.swapped * f.burn / E18 ∧
      c.ret + c.swapFee + c.protFee + c.burnFee = r.swapped ∧
      c.spread = (if off > r.swapped then off - r.swapped else r.swapped - off) := by
  unfold computeSwap at h
  obtain ⟨r, hr, h⟩ := bind_eq_ok.mp h
  dsimp only at h
  obtain ⟨sf, hsf, h⟩ := bind_eq_ok.mp h
  obtain ⟨pf, hpf, h⟩ := bind_eq_ok.mp h
  obtain ⟨bf, hbf, h⟩ := bind_eq_ok.mp h
  obtain ⟨r1, hr1, h⟩ := bind_eq_ok.mp h
  obtain ⟨r2, hr2, h⟩ := bind_eq_ok.mp h
  obtain ⟨r3, hr3, h⟩ := bind_eq_ok.mp h
  obtain ⟨r3', hr3', h⟩ := bind_eq_ok.mp h
  obtain ⟨sp', hsp', h⟩ := bind_eq_ok.mp h
  obtain ⟨sf', hsf', h⟩ := bind_eq_ok.mp h
  obtain ⟨pf', hpf', h⟩ := bind_eq_ok.mp h
  obtain ⟨bf', hbf', h⟩ := bind_eq_ok.mp h
  obtain ⟨_, hsf⟩ := u256MulDec_eq_ok.mp hsf
  obtain ⟨_, hpf⟩ := u256MulDec_eq_ok.mp hpf
  obtain ⟨_, hbf⟩ := u256MulDec_eq_ok.mp hbf
  obtain ⟨g1, hr1⟩ := psub_eq_ok.mp hr1
  obtain ⟨g2, hr2⟩ := psub_eq_ok.mp hr2
  obtain ⟨g3, hr3⟩ := psub_eq_ok.mp hr3
  obtain ⟨_, hr3'⟩ := to128_eq_ok.mp hr3'
  obtain ⟨_, hsp'⟩ := to128_eq_ok.mp hsp'
  obtain ⟨_, hsf'⟩ := to128_eq_ok.mp hsf'
  obtain ⟨_, hpf'⟩ := to128_eq_ok.mp hpf'
  obtain ⟨_, hbf'⟩ := to128_eq_ok.mp hbf'
  injection h with h
  subst h
  subst hr3' hsp' hsf' hpf' hbf'
  refine ⟨r, unwrapP_eq_ok.mp hr, hsf, hpf, hbf, ?_, rfl⟩
  simp only
  omega

/-- the proceeds of a computed swap stay strictly below the ask pool -/
theorem computeSwap_lt_pool {A : AmpCfg} {cur op ap un off : Nat} {f : Fees} {c : SwapComp}
    (h : computeSwap A cur op ap un off f = .ok c) :
    c.ret + c.swapFee + c.protFee + c.burnFee < ap := by
  obtain ⟨r, hr, _, _, _, hsum, _⟩ := computeSwap_ok h
  obtain ⟨d, y, _, _, hy, hsw, _, _⟩ := swapTo_ok hr
  omega

theorem mintAmount_ok {A : AmpCfg} {cur da db dc sa sb sc S m : Nat}
    (h : mintAmount A cur da db dc sa sb sc S = .ok m) :
    ∃ d0 d1, computeD A cur sa sb sc = .ok d0 ∧
      computeD A cur (sa + da) (sb + db) (sc + dc) = .ok d1 ∧
      d0 < d1 ∧ d0 ≠ 0 ∧ m = S * (d1 - d0) / d0 := by
  unfold mintAmount at h
  obtain ⟨d0, hd0, h1⟩ := bind_eq_ok.mp h
  obtain ⟨na, hna, h2⟩ := bind_eq_ok.mp h1
  obtain ⟨nb, hnb, h3⟩ := bind_eq_ok.mp h2
  obtain ⟨nc, hnc, h4⟩ := bind_eq_ok.mp h3
  obtain ⟨d1, hd1, h5⟩ := bind_eq_ok.mp h4
  clear h h1 h2 h3 h4
  obtain ⟨_, hna⟩ := padd_eq_ok.mp hna
  obtain ⟨_, hnb⟩ := padd_eq_ok.mp hnb
  obtain ⟨_, hnc⟩ := padd_eq_ok.mp hnc
  subst hna hnb hnc
  split at h5
  · cases h5
  · rename_i hlt
    obtain ⟨diff, hdiff, h6⟩ := bind_eq_ok.mp h5
    obtain ⟨mm, hmm, h7⟩ := bind_eq_ok.mp h6
    obtain ⟨q, hq, h8⟩ := bind_eq_ok.mp h7
    obtain ⟨_, hdiff⟩ := psub_eq_ok.mp hdiff
    obtain ⟨_, hmm⟩ := pmul_eq_ok.mp hmm
    obtain ⟨hne, hq⟩ := pdiv_eq_ok.mp hq
    obtain ⟨_, h9⟩ := to128P_eq_ok.mp h8
    subst hdiff hmm hq h9
    exact ⟨d0, d1, hd0, hd1, by omega, hne, rfl⟩

/-! ## token movements -/

theorem moveIn_ok {s s' : St} {u i amt : Nat} (h : moveIn s u i amt = .ok s') :
    amt ≤ s.ub u i ∧
    s' = { s with ub := upd2 s.ub u i (s.ub u i - amt), bal := upd s.bal i (s.bal i + amt) } := by
  unfold moveIn at h
  split at h
  · cases h
  · injection h with h; exact ⟨by omega, h.symm⟩

theorem payOut_ok {s s' : St} {i rc amt : Nat} (h : payOut s i rc amt = .ok s') :
    amt ≤ s.bal i ∧
    s' = { s with bal := upd s.bal i (s.bal i - amt), ub := upd2 s.ub rc i (s.ub rc i + amt) } := by
  unfold payOut at h
  split at h
  · cases h
  · split at h
    · cases h
    · injection h with h; exact ⟨by omega, h.symm⟩

theorem burnOut_ok {s s' : St} {i amt : Nat} (h : burnOut s i amt = .ok s') :
    amt ≤ s.bal i ∧
    s' = { s with bal := upd s.bal i (s.bal i - amt), sup := upd s.sup i (s.sup i - amt) } := by
  unfold burnOut at h
  split at h
  · cases h
  · split at h
    · cases h
    · injection h with h; exact ⟨by omega, h.symm⟩

theorem mintLp_ok {s s' : St} {rc amt : Nat} (h : mintLp s rc amt = .ok s') :
    s' = { s with lpSup := s.lpSup + amt, lp := upd s.lp rc (s.lp rc + amt) } := by
  unfold mintLp at h
  obtain ⟨sup, hs, h⟩ := bind_eq_ok.mp h
  obtain ⟨_, hs⟩ := padd_eq_ok.mp hs
  subst hs
  injection h with h; exact h.symm

theorem mintLpPool_ok {s s' : St} {amt : Nat} (h : mintLpPool s amt = .ok s') :
    s' = { s with lpSup := s.lpSup + amt, lpPool := s.lpPool + amt } := by
  unfold mintLpPool at h
  obtain ⟨sup, hs, h⟩ := bind_eq_ok.mp h
  obtain ⟨_, hs⟩ := padd_eq_ok.mp hs
  subst hs
  injection h with h; exact h.symm

/-- what the C04 / C07 invariants read, apart from the pool balances: unchanged by token movements -/
structure SameBook (s s' : St) : Prop where
  kind : s'.kind = s.kind
  pend : s'.pend = s.pend
  allTime : s'.allTime = s.allTime
  burned : s'.burned = s.burned
  charged : s'.charged = s.charged
  sent : s'.sent = s.sent
  burnedSum : s'.burnedSum = s.burnedSum
  fees : s'.fees = s.fees
  amp : s'.amp = s.amp
  owner : s'.owner = s.owner
  collector : s'.collector = s.collector
  depOn : s'.depOn = s.depOn
  wdOn : s'.wdOn = s.wdOn
  swOn : s'.swOn = s.swOn

theorem SameBook.rfl' (s : St) : SameBook s s := ⟨rfl, rfl, rfl, rfl, rfl, rfl, rfl, rfl, rfl, rfl, rfl, rfl, rfl, rfl⟩

theorem SameBook.trans {a b c : St} (h1 : SameBook a b) (h2 : SameBook b c) : SameBook a c :=
  ⟨h2.kind.trans h1.kind, h2.pend.trans h1.pend, h2.allTime.trans h1.allTime, h2.burned.trans h1.burned,
   h2.charged.trans h1.charged, h2.sent.trans h1.sent, h2.burnedSum.trans h1.burnedSum,
   h2.fees.trans h1.fees, h2.amp.trans h1.amp, h2.owner.trans h1.owner,
   h2.collector.trans h1.collector, h2.depOn.trans h1.depOn, h2.wdOn.trans h1.wdOn,
   h2.swOn.trans h1.swOn⟩

/-- a step that only adds to pool balances (deposits, donations, LP mints) -/
structure Grow (s s' : St) : Prop where
  book : SameBook s s'
  bal : ∀ j, s.bal j ≤ s'.bal j
  sup : s'.sup = s.sup

theorem Grow.rfl' (s : St) : Grow s s := ⟨SameBook.rfl' s, fun _ => Nat.le_refl _, rfl⟩
theorem Grow.trans {a b c : St} (h1 : Grow a b) (h2 : Grow b c) : Grow a c :=
  ⟨h1.book.trans h2.book, fun j => Nat.le_trans (h1.bal j) (h2.bal j), h2.sup.trans h1.sup⟩

theorem moveIn_grow {s s' : St} {u i amt : Nat} (h : moveIn s u i amt = .ok s') : Grow s s' := by
  obtain ⟨_, rfl⟩ := moveIn_ok h
  refine ⟨by constructor <;> rfl, fun j => ?_, rfl⟩
  simp only [upd]; split <;> [(subst_vars; omega); exact Nat.le_refl _]

theorem fundsIn_grow {s s' : St} {u i amt : Nat} (h : fundsIn s u i amt = .ok s') : Grow s s' := by
  unfold fundsIn at h
  split at h
  · exact moveIn_grow h
  · injection h with h; subst h; exact Grow.rfl' _

theorem pullCw20_grow {s s' : St} {u i amt : Nat} (h : pullCw20 s u i amt = .ok s') : Grow s s' := by
  unfold pullCw20 at h
  split at h
  · injection h with h; subst h; exact Grow.rfl' _
  · exact moveIn_grow h

theorem mintLp_grow {s s' : St} {rc amt : Nat} (h : mintLp s rc amt = .ok s') : Grow s s' := by
  rw [mintLp_ok h]; exact ⟨by constructor <;> rfl, fun _ => Nat.le_refl _, rfl⟩

theorem mintLpPool_grow {s s' : St} {amt : Nat} (h : mintLpPool s amt = .ok s') : Grow s s' := by
  rw [mintLpPool_ok h]; exact ⟨by constructor <;> rfl, fun _ => Nat.le_refl _, rfl⟩

/-! ## handlers -/

theorem provide_grow {s s' : St} {hh u d0 d1 d2 : Nat} {slip recv : Option Nat}
    (h : provide s hh u d0 d1 d2 slip recv = .ok s') : Grow s s' := by
  unfold provide at h
  obtain ⟨s1, e1, h1⟩ := bind_eq_ok.mp h
  obtain ⟨s2, e2, h2⟩ := bind_eq_ok.mp h1
  obtain ⟨s3, e3, h3⟩ := bind_eq_ok.mp h2
  obtain ⟨_, h4⟩ := guard_bind_eq_ok.mp h3
  obtain ⟨_, h5⟩ := guard_bind_eq_ok.mp h4
  obtain ⟨p0, _, h6⟩ := bind_eq_ok.mp h5
  obtain ⟨p1, _, h7⟩ := bind_eq_ok.mp h6
  obtain ⟨p2, _, h8⟩ := bind_eq_ok.mp h7
  clear h h1 h2 h3 h4 h5 h6 h7
  have g3 : Grow s s3 := (fundsIn_grow e1).trans ((fundsIn_grow e2).trans (fundsIn_grow e3))
  split at h8
  · dsimp only at h8
    obtain ⟨d, _, h9⟩ := bind_eq_ok.mp h8
    obtain ⟨d', _, h10⟩ := bind_eq_ok.mp h9
    obtain ⟨share, _, h11⟩ := bind_eq_ok.mp h10
    obtain ⟨_, h12⟩ := guard_bind_eq_ok.mp h11
    obtain ⟨s4, e4, h13⟩ := bind_eq_ok.mp h12
    obtain ⟨s5, e5, h14⟩ := bind_eq_ok.mp h13
    obtain ⟨s6, e6, h15⟩ := bind_eq_ok.mp h14
    obtain ⟨s7, e7, h16⟩ := bind_eq_ok.mp h15
    exact g3.trans ((pullCw20_grow e4).trans ((pullCw20_grow e5).trans ((pullCw20_grow e6).trans
      ((mintLpPool_grow e7).trans (mintLp_grow h16)))))
  · obtain ⟨amount, _, h9⟩ := bind_eq_ok.mp h8
    obtain ⟨_, _, h10⟩ := bind_eq_ok.mp h9
    obtain ⟨s4, e4, h13⟩ := bind_eq_ok.mp h10
    obtain ⟨s5, e5, h14⟩ := bind_eq_ok.mp h13
    obtain ⟨s6, e6, h15⟩ := bind_eq_ok.mp h14
    exact g3.trans ((pullCw20_grow e4).trans ((pullCw20_grow e5).trans ((pullCw20_grow e6).trans
      (mintLp_grow h15))))

theorem donate_grow {s s' : St} {u i amt : Nat} (h : donate s u i amt = .ok s') : Grow s s' := by
  unfold donate at h
  split at h
  · cases h
  · split at h
    · cases h
    · exact moveIn_grow h

theorem refundOf_ok {s : St} {i ratio r : Nat} (h : refundOf s i ratio = .ok r) :
    s.pend i ≤ s.bal i ∧ r = (s.bal i - s.pend i) * ratio / E18 := by
  unfold refundOf at h
  obtain ⟨x, hx, h⟩ := bind_eq_ok.mp h
  obtain ⟨hle, hx⟩ := csub_eq_ok.mp hx
  subst hx
  unfold u128MulDec at h
  split at h
  · injection h with h; exact ⟨hle, h.symm⟩
  · cases h

theorem dec128FromRatio_ok' {n d r : Nat} (h : dec128FromRatio n d = .ok r) :
    d ≠ 0 ∧ r = n * E18 / d := by
  unfold dec128FromRatio mulRatioP at h
  split at h
  · cases h
  · split at h
    · injection h with h; exact ⟨by assumption, h.symm⟩
    · cases h


/-- arithmetic core of the withdrawal bound: `r = ⌊R·⌊amt·10¹⁸/S⌋/10¹⁸⌋` satisfies `r·S ≤ R·amt` -/
theorem refund_le {R ratio amt S r : Nat} (hr : r = R * ratio / E18) (hratio : ratio = amt * E18 / S) :
    r * S ≤ R * amt := by
  have h1 : r * E18 ≤ R * ratio := by rw [hr]; exact Nat.div_mul_le_self _ _
  have h2 : ratio * S ≤ amt * E18 := by rw [hratio]; exact Nat.div_mul_le_self _ _
  have h3 : r * S * E18 ≤ R * amt * E18 := by
    calc r * S * E18 = r * E18 * S := by ring
      _ ≤ R * ratio * S := Nat.mul_le_mul_right S h1
      _ = R * (ratio * S) := by ring
      _ ≤ R * (amt * E18) := Nat.mul_le_mul_left R h2
      _ = R * amt * E18 := by ring
  exact Nat.le_of_mul_le_mul_right h3 E18_pos
/-- field-wise effect of a payment out of the pool -/
structure PayEffect (s s' : St) (i rc amt : Nat) : Prop where
  le : amt ≤ s.bal i
  book : SameBook s s'
  sup : s'.sup = s.sup
  bal : s'.bal = upd s.bal i (s.bal i - amt)
  ub : s'.ub = upd2 s.ub rc i (s.ub rc i + amt)
  lpSup : s'.lpSup = s.lpSup
  lpPool : s'.lpPool = s.lpPool
  lp : s'.lp = s.lp

theorem payOut_eff {s s' : St} {i rc amt : Nat} (h : payOut s i rc amt = .ok s') :
    PayEffect s s' i rc amt := by
  obtain ⟨h1, rfl⟩ := payOut_ok h
  exact ⟨h1, by constructor <;> rfl, rfl, rfl, rfl, rfl, rfl, rfl⟩

theorem upd_same (f : Nat → Nat) (i x : Nat) : upd f i x i = x := by simp [upd]
theorem upd_other (f : Nat → Nat) {i j : Nat} (x : Nat) (h : j ≠ i) : upd f i x j = f j := by
  simp [upd, h]

theorem withdraw_spec {s s' : St} {u amt : Nat} (h : withdraw s u amt = .ok s') :
    SameBook s s' ∧ s'.sup = s.sup ∧ (∀ j, s'.bal j ≤ s.bal j) ∧
    (∀ j, s.pend j ≤ s.bal j → s.pend j ≤ s'.bal j) ∧ s'.lpSup = s.lpSup - amt ∧ amt ≤ s.lpSup ∧
    (∀ j, j < 3 → (s.bal j - s'.bal j) * s.lpSup ≤ (s.bal j - s.pend j) * amt) := by
  unfold withdraw at h
  obtain ⟨_, h1⟩ := guard_bind_eq_ok.mp h
  dsimp only at h1
  obtain ⟨_, h2⟩ := guard_bind_eq_ok.mp h1
  obtain ⟨ratio, hr, h3⟩ := bind_eq_ok.mp h2
  obtain ⟨r0, hr0, h4⟩ := bind_eq_ok.mp h3
  obtain ⟨r1, hr1, h5⟩ := bind_eq_ok.mp h4
  obtain ⟨r2, hr2, h6⟩ := bind_eq_ok.mp h5
  obtain ⟨s1, e1, h7⟩ := bind_eq_ok.mp h6
  obtain ⟨s2, e2, h8⟩ := bind_eq_ok.mp h7
  obtain ⟨s3, e3, h9⟩ := bind_eq_ok.mp h8
  obtain ⟨hg, h10⟩ := guard_bind_eq_ok.mp h9
  clear h h1 h2 h3 h4 h5 h6 h7 h8 h9
  injection h10 with h10
  simp only [decide_eq_true_eq] at hg
  obtain ⟨hd, hratio⟩ := dec128FromRatio_ok' hr
  obtain ⟨hp0, hr0⟩ := refundOf_ok hr0
  obtain ⟨hp1, hr1⟩ := refundOf_ok hr1
  obtain ⟨hp2, hr2⟩ := refundOf_ok hr2
  dsimp only at hd hratio hp0 hr0 hp1 hr1 hp2 hr2
  have f1 := payOut_eff e1
  have f2 := payOut_eff e2
  have f3 := payOut_eff e3
  have hsup3 : s3.lpSup = s.lpSup := by rw [f3.lpSup, f2.lpSup, f1.lpSup]
  have hle : ratio ≤ E18 := by
    rw [hratio]
    refine Nat.div_le_of_le_mul ?_
    exact Nat.mul_le_mul_right E18 (hsup3 ▸ hg.2)
  have b0 : r0 ≤ s.bal 0 - s.pend 0 := by rw [hr0]; exact mul_div_le_of_le hle
  have b1 : r1 ≤ s.bal 1 - s.pend 1 := by rw [hr1]; exact mul_div_le_of_le hle
  have b2 : r2 ≤ s.bal 2 - s.pend 2 := by rw [hr2]; exact mul_div_le_of_le hle
  have hbal : s'.bal = upd (upd (upd s.bal 0 (s.bal 0 - r0)) 1 (s.bal 1 - r1)) 2 (s.bal 2 - r2) := by
    rw [← h10]
    show s3.bal = _
    rw [f3.bal, f2.bal, f1.bal]
    simp [upd]
  have hbook : SameBook s s' := by
    have hb0 : SameBook s _ := f1.book.trans (f2.book.trans f3.book) |> SameBook.trans (by constructor <;> rfl)
    have : SameBook s3 s' := by rw [← h10]; constructor <;> rfl
    exact hb0.trans this
  have c0 := refund_le hr0 hratio
  have c1 := refund_le hr1 hratio
  have c2 := refund_le hr2 hratio
  clear hr0 hr1 hr2 hratio hr e1 e2 e3
  refine ⟨hbook, ?_, fun j => ?_, fun j hj => ?_, ?_, hsup3 ▸ hg.2, fun j hj3 => ?_⟩
  · rw [← h10]; show s3.sup = _; rw [f3.sup, f2.sup, f1.sup]
  · rw [hbal]; simp only [upd]
    split
    · subst_vars; omega
    · split
      · subst_vars; omega
      · split
        · subst_vars; omega
        · exact Nat.le_refl _
  · rw [hbal]; simp only [upd]
    split
    · subst_vars; omega
    · split
      · subst_vars; omega
      · split
        · subst_vars; omega
        · exact hj
  · rw [← h10]; show s3.lpSup - amt = _; rw [hsup3]
  · rw [hbal]
    rcases (by omega : j = 0 ∨ j = 1 ∨ j = 2) with r | r | r <;> subst r <;> simp only [upd]
    · have : s.bal 0 - (s.bal 0 - r0) = r0 := by omega
      simpa [this] using c0
    · have : s.bal 1 - (s.bal 1 - r1) = r1 := by omega
      simpa [this] using c1
    · have : s.bal 2 - (s.bal 2 - r2) = r2 := by omega
      simpa [this] using c2
/-- the fields no token movement, swap or collection touches -/
structure SameRest (s s' : St) : Prop where
  kind : s'.kind = s.kind
  fees : s'.fees = s.fees
  amp : s'.amp = s.amp
  owner : s'.owner = s.owner
  collector : s'.collector = s.collector
  depOn : s'.depOn = s.depOn
  wdOn : s'.wdOn = s.wdOn
  swOn : s'.swOn = s.swOn
  lpSup : s'.lpSup = s.lpSup
  lpPool : s'.lpPool = s.lpPool
  lp : s'.lp = s.lp

theorem SameRest.trans {a b c : St} (h1 : SameRest a b) (h2 : SameRest b c) : SameRest a c :=
  ⟨h2.kind.trans h1.kind, h2.fees.trans h1.fees, h2.amp.trans h1.amp, h2.owner.trans h1.owner,
   h2.collector.trans h1.collector, h2.depOn.trans h1.depOn, h2.wdOn.trans h1.wdOn,
   h2.swOn.trans h1.swOn, h2.lpSup.trans h1.lpSup, h2.lpPool.trans h1.lpPool, h2.lp.trans h1.lp⟩

theorem payOut_rest {s s' : St} {i rc amt : Nat} (h : payOut s i rc amt = .ok s') : SameRest s s' := by
  obtain ⟨_, rfl⟩ := payOut_ok h; constructor <;> rfl

/-- the offer landing in the pool (attached native funds or the cw20 `Send`) -/
theorem land_eff {s s1 : St} {u offer amt : Nat}
    (h : (if s.kind offer then fundsIn s u offer amt else moveIn s u offer amt) = .ok s1) :
    SameBook s s1 ∧ SameRest s s1 ∧ s1.sup = s.sup ∧
    (∀ j, s1.bal j = if j = offer then s.bal j + amt else s.bal j) ∧
    (∀ a j, j ≠ offer → s1.ub a j = s.ub a j) := by
  have key : ∀ {s1 : St}, moveIn s u offer amt = .ok s1 →
      SameBook s s1 ∧ SameRest s s1 ∧ s1.sup = s.sup ∧
      (∀ j, s1.bal j = if j = offer then s.bal j + amt else s.bal j) ∧
      (∀ a j, j ≠ offer → s1.ub a j = s.ub a j) := by
    intro s1 hm
    obtain ⟨_, rfl⟩ := moveIn_ok hm
    refine ⟨by constructor <;> rfl, by constructor <;> rfl, rfl, fun j => ?_, fun a j hj => ?_⟩
    · simp only [upd]; split <;> simp_all
    · simp only [upd2]; rw [if_neg]; intro hc; exact hj hc.2
  split at h
  · unfold fundsIn at h
    split at h
    · exact key h
    · rename_i hk
      injection h with h; subst h
      refine ⟨SameBook.rfl' _, by constructor <;> rfl, rfl, fun j => ?_, fun _ _ _ => rfl⟩
      have : amt = 0 := by
        rename_i hkind
        simp only [Bool.and_eq_true, bne_iff_ne, ne_eq, not_and, Decidable.not_not] at hk
        exact hk hkind
      subst this; split <;> simp
  · exact key h

theorem poolForSwap_ok {s1 s : St} {offer amt i p : Nat}
    (hbal : s1.bal i = if i = offer then s.bal i + amt else s.bal i) (hpend : s1.pend = s.pend)
    (h : poolForSwap s1 offer amt i = .ok p) : s.pend i ≤ s.bal i ∧ p = s.bal i - s.pend i := by
  unfold poolForSwap at h
  obtain ⟨x, hx, h⟩ := bind_eq_ok.mp h
  obtain ⟨hle, hx⟩ := csub_eq_ok.mp hx
  rw [hpend] at hle hx
  split at h
  · rename_i hio
    rw [if_pos hio] at hbal
    obtain ⟨h2, h3⟩ := csub_eq_ok.mp h
    subst hx; rw [hbal] at *; omega
  · rename_i hio
    rw [if_neg hio] at hbal
    injection h with h
    subst hx; rw [hbal] at *; omega

theorem swapOn_congr {s s1 : St} (ha : s1.amp = s.amp) (hf : s1.fees = s.fees) (h : Nat) (p : Nat → Nat)
    (o a amt : Nat) : swapOn s1 h p o a amt = swapOn s h p o a amt := by
  unfold swapOn; rw [ha, hf]

theorem swapOn_ok {s : St} {h : Nat} {p : Nat → Nat} {o ask amt a : Nat} {c : SwapComp}
    (hs : swapOn s h p o ask amt = .ok (a, c)) :
    a = ask ∧ o < 3 ∧ ask < 3 ∧ o ≠ ask ∧
    computeSwap s.amp h (p o) (p ask) (p (3 - o - ask)) amt s.fees = .ok c := by
  unfold swapOn at hs
  obtain ⟨⟨o', a', n'⟩, hsel, h1⟩ := bind_eq_ok.mp hs
  dsimp only at h1
  obtain ⟨c', hc, h2⟩ := bind_eq_ok.mp h1
  injection h2 with h2
  rw [select_eq] at hsel
  split at hsel
  · rename_i hcond
    injection hsel with hsel
    injection hsel with e1 e2
    injection e2 with e2 e3
    injection h2 with e4 e5
    subst e1 e2 e3 e4 e5
    exact ⟨rfl, hcond.1, hcond.2.1, hcond.2.2, hc⟩
  · cases hsel

/-- field-wise effect of a successful swap that computed `c` and asked for asset `a` -/
structure SwapEff (s s' : St) (offer a amt rc : Nat) (c : SwapComp) : Prop where
  rest : SameRest s s'
  offer3 : offer < 3
  ask3 : a < 3
  ne : offer ≠ a
  askSolvent : s.pend a ≤ s.bal a
  lt : c.ret + c.swapFee + c.protFee + c.burnFee < s.bal a - s.pend a
  pend : ∀ j, s'.pend j = if j = a then s.pend j + c.protFee else s.pend j
  allTime : ∀ j, s'.allTime j = if j = a then s.allTime j + c.protFee else s.allTime j
  charged : ∀ j, s'.charged j = if j = a then s.charged j + c.protFee else s.charged j
  burned : ∀ j, s'.burned j = if j = a then s.burned j + c.burnFee else s.burned j
  burnedSum : ∀ j, s'.burnedSum j = if j = a then s.burnedSum j + c.burnFee else s.burnedSum j
  sent : s'.sent = s.sent
  bal : ∀ j, s'.bal j = if j = offer then s.bal j + amt
                        else if j = a then s.bal j - c.ret - c.burnFee else s.bal j
  sup : ∀ j, s'.sup j = if j = a then s.sup j - c.burnFee else s.sup j
  recv : s'.ub rc a = s.ub rc a + c.ret

theorem swap_spec {s s' : St} {h u offer ask amt : Nat} {bp ms rc : Option Nat}
    (hs : swap s h u offer ask amt bp ms rc = .ok s') :
    ∃ c, SwapEff s s' offer ask amt (rc.getD u) c ∧ simulate s h offer ask amt = .ok c := by
  unfold swap at hs
  obtain ⟨ho3, h1⟩ := guard_bind_eq_ok.mp hs
  obtain ⟨s1, e1, h2⟩ := bind_eq_ok.mp h1
  obtain ⟨_, h3⟩ := guard_bind_eq_ok.mp h2
  obtain ⟨p0, hp0, h4⟩ := bind_eq_ok.mp h3
  obtain ⟨p1, hp1, h5⟩ := bind_eq_ok.mp h4
  obtain ⟨p2, hp2, h6⟩ := bind_eq_ok.mp h5
  obtain ⟨⟨a, c⟩, hso, h7⟩ := bind_eq_ok.mp h6
  dsimp only at h7
  obtain ⟨f1, _, h8⟩ := bind_eq_ok.mp h7
  obtain ⟨f2, _, h9⟩ := bind_eq_ok.mp h8
  obtain ⟨gross, _, h10⟩ := bind_eq_ok.mp h9
  obtain ⟨_, _, h11⟩ := bind_eq_ok.mp h10
  obtain ⟨burned, hb, h12⟩ := bind_eq_ok.mp h11
  obtain ⟨pend, hpd, h13⟩ := bind_eq_ok.mp h12
  obtain ⟨allTime, hat, h14⟩ := bind_eq_ok.mp h13
  obtain ⟨s3, e3, h15⟩ := bind_eq_ok.mp h14
  clear hs h1 h2 h3 h4 h5 h6 h7 h8 h9 h10 h11 h12 h13 h14
  obtain ⟨book1, rest1, sup1, bal1, ub1⟩ := land_eff e1
  obtain ⟨q0, hq0⟩ := poolForSwap_ok (bal1 0) book1.pend hp0
  obtain ⟨q1, hq1⟩ := poolForSwap_ok (bal1 1) book1.pend hp1
  obtain ⟨q2, hq2⟩ := poolForSwap_ok (bal1 2) book1.pend hp2
  rw [swapOn_congr rest1.amp rest1.fees] at hso
  obtain ⟨rfl, _, ha3, hne, hcs⟩ := swapOn_ok hso
  -- the quote on the pre-state is the same computation
  have hsim : simulate s h offer a amt = .ok c := by
    unfold simulate
    rw [csub_ok q0, Res.bind_ok, csub_ok q1, Res.bind_ok, csub_ok q2, Res.bind_ok, ← hq0, ← hq1, ← hq2,
      hso]
    rfl
  have hpa : (if a = 0 then p0 else if a = 1 then p1 else p2) = s.bal a - s.pend a ∧
      s.pend a ≤ s.bal a := by
    rcases (by omega : a = 0 ∨ a = 1 ∨ a = 2) with r | r | r <;> subst r <;> simp <;> omega
  have hlt := computeSwap_lt_pool hcs
  rw [hpa.1] at hlt
  -- ledger values
  have hburned : burned = s.burned a + c.burnFee := by
    rw [book1.burned] at hb
    split at hb
    · exact (padd_eq_ok.mp hb).2
    · rename_i hz
      simp only [bne_iff_ne, ne_eq, Decidable.not_not] at hz
      injection hb with hb; omega
  have hpend : pend = s.pend a + c.protFee := by rw [book1.pend] at hpd; exact (padd_eq_ok.mp hpd).2
  have hall : allTime = s.allTime a + c.protFee := by rw [book1.allTime] at hat; exact (padd_eq_ok.mp hat).2
  subst hburned hpend hall
  -- the proceeds
  generalize hs2 : ({ s1 with burned := upd s1.burned a (s.burned a + c.burnFee), pend := upd s1.pend a (s.pend a + c.protFee), allTime := upd s1.allTime a (s.allTime a + c.protFee), charged := upd s1.charged a (s1.charged a + c.protFee) } : St) = s2 at e3
  have r2 : SameRest s1 s2 := by rw [← hs2]; constructor <;> rfl
  have bal2 : s2.bal = s1.bal := by rw [← hs2]
  have ub2 : s2.ub = s1.ub := by rw [← hs2]
  have sup2 : s2.sup = s1.sup := by rw [← hs2]
  have pend2 : s2.pend = upd s.pend a (s.pend a + c.protFee) := by rw [← hs2, ← book1.pend]
  have all2 : s2.allTime = upd s.allTime a (s.allTime a + c.protFee) := by rw [← hs2, ← book1.allTime]
  have ch2 : s2.charged = upd s.charged a (s.charged a + c.protFee) := by rw [← hs2, ← book1.charged]
  have bu2 : s2.burned = upd s.burned a (s.burned a + c.burnFee) := by rw [← hs2, ← book1.burned]
  have bs2 : s2.burnedSum = s.burnedSum := by rw [← hs2, ← book1.burnedSum]
  have se2 : s2.sent = s.sent := by rw [← hs2, ← book1.sent]
  have hpay : SameRest s2 s3 ∧ s3.pend = s2.pend ∧ s3.allTime = s2.allTime ∧ s3.charged = s2.charged ∧
      s3.burned = s2.burned ∧ s3.burnedSum = s2.burnedSum ∧ s3.sent = s2.sent ∧ s3.sup = s2.sup ∧
      (∀ j, s3.bal j = if j = a then s2.bal j - c.ret else s2.bal j) ∧
      s3.ub (rc.getD u) a = s2.ub (rc.getD u) a + c.ret := by
    split at e3
    · have f := payOut_eff e3
      refine ⟨payOut_rest e3, f.book.pend, f.book.allTime, f.book.charged, f.book.burned,
        f.book.burnedSum, f.book.sent, f.sup, fun j => ?_, ?_⟩
      · rw [f.bal]; simp only [upd]; split <;> simp_all
      · rw [f.ub]; simp [upd2]
    · rename_i hz
      simp only [bne_iff_ne, ne_eq, Decidable.not_not] at hz
      injection e3 with e3; subst e3
      refine ⟨by constructor <;> rfl, rfl, rfl, rfl, rfl, rfl, rfl, rfl, fun j => ?_, by omega⟩
      split <;> simp [hz]
  obtain ⟨r3, pend3, all3, ch3, bu3, bs3, se3, sup3, bal3, ub3⟩ := hpay
  have hfin : SameRest s3 s' ∧ s'.pend = s3.pend ∧ s'.allTime = s3.allTime ∧ s'.charged = s3.charged ∧
      s'.burned = s3.burned ∧ s'.sent = s3.sent ∧ s'.ub = s3.ub ∧
      (∀ j, s'.burnedSum j = if j = a then s3.burnedSum j + c.burnFee else s3.burnedSum j) ∧
      (∀ j, s'.bal j = if j = a then s3.bal j - c.burnFee else s3.bal j) ∧
      (∀ j, s'.sup j = if j = a then s3.sup j - c.burnFee else s3.sup j) := by
    split at h15
    · obtain ⟨s4, e4, h16⟩ := bind_eq_ok.mp h15
      injection h16 with h16
      obtain ⟨_, rfl⟩ := burnOut_ok e4
      subst h16
      refine ⟨by constructor <;> rfl, rfl, rfl, rfl, rfl, rfl, rfl, fun j => ?_, fun j => ?_, fun j => ?_⟩
      all_goals simp only [upd]; split <;> simp_all
    · rename_i hz
      simp only [bne_iff_ne, ne_eq, Decidable.not_not] at hz
      injection h15 with h15; subst h15
      refine ⟨by constructor <;> rfl, rfl, rfl, rfl, rfl, rfl, rfl, fun j => ?_, fun j => ?_, fun j => ?_⟩
      all_goals split <;> simp [hz]
  obtain ⟨r4, pend4, all4, ch4, bu4, se4, ub4, bs4, bal4, sup4⟩ := hfin
  refine ⟨c, ?_, hsim⟩
  refine ⟨rest1.trans (r2.trans (r3.trans r4)), ho3 |> of_decide_eq_true, ha3, hne, hpa.2, hlt, ?_, ?_, ?_, ?_, ?_, ?_, ?_, ?_, ?_⟩
  · intro j; rw [pend4, pend3, pend2]; simp only [upd]; split <;> simp_all
  · intro j; rw [all4, all3, all2]; simp only [upd]; split <;> simp_all
  · intro j; rw [ch4, ch3, ch2]; simp only [upd]; split <;> simp_all
  · intro j; rw [bu4, bu3, bu2]; simp only [upd]; split <;> simp_all
  · intro j; rw [bs4, bs3, bs2]
  · rw [se4, se3, se2]
  · intro j
    rw [bal4, bal3, bal2, bal1]
    by_cases hjo : j = offer
    · subst hjo; simp [hne]
    · by_cases hja : j = a
      · subst hja; simp [hjo]
      · simp [hjo, hja]
  · intro j; rw [sup4, sup3, sup2, sup1]
  · rw [ub4, ub3, ub2, ub1 _ _ (Ne.symm hne)]
/-- field-wise effect of one entry of `collect_protocol_fees` -/
structure CollectOneEff (s s' : St) (i : Nat) : Prop where
  rest : SameRest s s'
  allTime : s'.allTime = s.allTime
  charged : s'.charged = s.charged
  burned : s'.burned = s.burned
  burnedSum : s'.burnedSum = s.burnedSum
  sup : s'.sup = s.sup
  pend : ∀ j, s'.pend j = if j = i ∧ s.pend i > 1000 then 0 else s.pend j
  bal : ∀ j, s'.bal j = if j = i ∧ s.pend i > 1000 then s.bal j - s.pend j else s.bal j
  sent : ∀ j, s'.sent j = if j = i ∧ s.pend i > 1000 then s.sent j + s.pend j else s.sent j
  ub : ∀ a j, s'.ub a j =
    if a = s.collector ∧ j = i ∧ s.pend i > 1000 then s.ub a j + s.pend j else s.ub a j
  le : s.pend i > 1000 → s.pend i ≤ s.bal i

theorem collectOne_eff {s s' : St} {i : Nat} (h : collectOne s i = .ok s') : CollectOneEff s s' i := by
  unfold collectOne at h
  rw [MIN_COLLECTABLE_eq] at h
  split at h
  · rename_i hgt
    dsimp only at h
    obtain ⟨s1, e1, h1⟩ := bind_eq_ok.mp h
    injection h1 with h1
    have f := payOut_eff e1
    have r := payOut_rest e1
    subst h1
    refine ⟨?_, f.book.allTime, f.book.charged, f.book.burned, f.book.burnedSum, f.sup,
      fun j => ?_, fun j => ?_, fun j => ?_, fun a j => ?_, fun _ => f.le⟩
    · exact ⟨r.kind, r.fees, r.amp, r.owner, r.collector, r.depOn, r.wdOn, r.swOn, r.lpSup, r.lpPool, r.lp⟩
    · show upd s1.pend i 0 j = _
      rw [f.book.pend]; simp only [upd]; split <;> simp_all
    · show s1.bal j = _
      rw [f.bal]; simp only [upd]; split <;> simp_all
    · show upd s1.sent i (s1.sent i + s.pend i) j = _
      rw [f.book.sent]; simp only [upd]; split <;> simp_all
    · show s1.ub a j = _
      rw [f.ub]; simp only [upd2]; split <;> simp_all
  · rename_i hle
    injection h with h; subst h
    refine ⟨by constructor <;> rfl, rfl, rfl, rfl, rfl, rfl, fun j => ?_, fun j => ?_, fun j => ?_,
      fun a j => ?_, fun hc => absurd hc hle⟩
    all_goals rw [if_neg]; intro hc; first | exact hle hc.2 | exact hle hc.2.2

/-- whether entry `j` of the pending ledger is collected -/
def collectable (s : St) (j : Nat) : Prop := j < 3 ∧ s.pend j > 1000

instance (s : St) (j : Nat) : Decidable (collectable s j) := by unfold collectable; infer_instance

/-- field-wise effect of `collect_protocol_fees` -/
structure CollectEff (s s' : St) : Prop where
  rest : SameRest s s'
  allTime : s'.allTime = s.allTime
  charged : s'.charged = s.charged
  burned : s'.burned = s.burned
  burnedSum : s'.burnedSum = s.burnedSum
  sup : s'.sup = s.sup
  pend : ∀ j, s'.pend j = if collectable s j then 0 else s.pend j
  bal : ∀ j, s'.bal j = if collectable s j then s.bal j - s.pend j else s.bal j
  sent : ∀ j, s'.sent j = if collectable s j then s.sent j + s.pend j else s.sent j
  ub : ∀ a j, s'.ub a j = if a = s.collector ∧ collectable s j then s.ub a j + s.pend j else s.ub a j
  le : ∀ j, collectable s j → s.pend j ≤ s.bal j

theorem collect_eff {s s' : St} (h : collect s = .ok s') : CollectEff s s' := by
  unfold collect at h
  obtain ⟨s1, e1, h1⟩ := bind_eq_ok.mp h
  obtain ⟨s2, e2, e3⟩ := bind_eq_ok.mp h1
  have f1 := collectOne_eff e1
  have f2 := collectOne_eff e2
  have f3 := collectOne_eff e3
  have p1 : s1.pend 1 = s.pend 1 := by simp [f1.pend]
  have p2 : s2.pend 2 = s.pend 2 := by simp [f2.pend, f1.pend]
  have b1 : s1.bal 1 = s.bal 1 := by simp [f1.bal]
  have b2 : s2.bal 2 = s.bal 2 := by simp [f2.bal, f1.bal]
  have c1 : s1.collector = s.collector := f1.rest.collector
  have c2 : s2.collector = s.collector := f2.rest.collector.trans c1
  refine ⟨f1.rest.trans (f2.rest.trans f3.rest), ?_, ?_, ?_, ?_, ?_, fun j => ?_, fun j => ?_,
    fun j => ?_, fun a j => ?_, fun j hc => ?_⟩
  · rw [f3.allTime, f2.allTime, f1.allTime]
  · rw [f3.charged, f2.charged, f1.charged]
  · rw [f3.burned, f2.burned, f1.burned]
  · rw [f3.burnedSum, f2.burnedSum, f1.burnedSum]
  · rw [f3.sup, f2.sup, f1.sup]
  · simp only [f3.pend, f2.pend, f1.pend]; unfold collectable
    by_cases j0 : j = 0
    · subst j0; simp
    · by_cases j1 : j = 1
      · subst j1; simp
      · by_cases j2 : j = 2
        · subst j2; simp
        · have : ¬ j < 3 := by omega
          simp [j0, j1, j2, this]
  · simp only [f3.bal, f2.bal, f1.bal, f2.pend, f1.pend]; unfold collectable
    by_cases j0 : j = 0
    · subst j0; simp
    · by_cases j1 : j = 1
      · subst j1; simp
      · by_cases j2 : j = 2
        · subst j2; simp
        · have : ¬ j < 3 := by omega
          simp [j0, j1, j2, this]
  · simp only [f3.sent, f2.sent, f1.sent, f2.pend, f1.pend]; unfold collectable
    by_cases j0 : j = 0
    · subst j0; simp
    · by_cases j1 : j = 1
      · subst j1; simp
      · by_cases j2 : j = 2
        · subst j2; simp
        · have : ¬ j < 3 := by omega
          simp [j0, j1, j2, this]
  · simp only [f3.ub, f2.ub, f1.ub, f2.pend, f1.pend, c2, c1]; unfold collectable
    by_cases j0 : j = 0
    · subst j0; simp
    · by_cases j1 : j = 1
      · subst j1; simp
      · by_cases j2 : j = 2
        · subst j2; simp
        · have : ¬ j < 3 := by omega
          simp [j0, j1, j2, this]
  · unfold collectable at hc
    rcases (by omega : j = 0 ∨ j = 1 ∨ j = 2) with r | r | r <;> subst r
    · exact f1.le hc.2
    · have := f2.le (by rw [p1]; exact hc.2); rwa [p1, b1] at this
    · have := f3.le (by rw [p2]; exact hc.2); rwa [p2, b2] at this
/-- every balance, supply and ledger entry is unchanged (configuration updates) -/
structure SameMoney (s s' : St) : Prop where
  kind : s'.kind = s.kind
  bal : s'.bal = s.bal
  ub : s'.ub = s.ub
  sup : s'.sup = s.sup
  pend : s'.pend = s.pend
  allTime : s'.allTime = s.allTime
  burned : s'.burned = s.burned
  charged : s'.charged = s.charged
  sent : s'.sent = s.sent
  burnedSum : s'.burnedSum = s.burnedSum
  lpSup : s'.lpSup = s.lpSup
  lpPool : s'.lpPool = s.lpPool
  lp : s'.lp = s.lp

theorem SameMoney.trans {a b c : St} (h1 : SameMoney a b) (h2 : SameMoney b c) : SameMoney a c :=
  ⟨h2.kind.trans h1.kind, h2.bal.trans h1.bal, h2.ub.trans h1.ub, h2.sup.trans h1.sup,
   h2.pend.trans h1.pend, h2.allTime.trans h1.allTime, h2.burned.trans h1.burned,
   h2.charged.trans h1.charged, h2.sent.trans h1.sent, h2.burnedSum.trans h1.burnedSum,
   h2.lpSup.trans h1.lpSup, h2.lpPool.trans h1.lpPool, h2.lp.trans h1.lp⟩

/-- effect of `update_config`: only the owner may call it; money and ledgers are untouched; the amp
    configuration changes only through an accepted ramp -/
theorem updateConfig_spec {s s' : St} {h u : Nat} {o c : Option Nat} {f : Option Fees}
    {t : Option (Bool × Bool × Bool)} {r : Option (Nat × Nat)}
    (hs : updateConfig s h u o c f t r = .ok s') :
    u = s.owner ∧ SameMoney s s' ∧
    (∀ fa fb, r = some (fa, fb) → rampAmp s.amp h fa fb = .ok s'.amp) ∧ (r = none → s'.amp = s.amp) ∧
    (∀ f', f = some f' → f'.valid = true ∧ s'.fees = f') ∧ (f = none → s'.fees = s.fees) ∧
    s'.owner = o.getD s.owner ∧ s'.collector = c.getD s.collector := by
  unfold updateConfig at hs
  obtain ⟨hown, h1⟩ := guard_bind_eq_ok.mp hs
  simp only [decide_eq_true_eq] at hown
  obtain ⟨s2, e2, h2⟩ := bind_eq_ok.mp h1
  obtain ⟨s4, e4, h3⟩ := bind_eq_ok.mp h2
  injection h3 with h3
  clear hs h1 h2
  -- stage 1+2: owner, fees
  have st2 : SameMoney s s2 ∧ s2.amp = s.amp ∧ s2.owner = o.getD s.owner ∧ s2.collector = s.collector ∧
      (∀ f', f = some f' → f'.valid = true ∧ s2.fees = f') ∧ (f = none → s2.fees = s.fees) := by
    cases o <;> cases f
    all_goals dsimp only at e2
    · injection e2 with e2; subst e2
      exact ⟨by constructor <;> rfl, rfl, rfl, rfl, fun _ hc => (by cases hc), fun _ => rfl⟩
    · split at e2
      · injection e2 with e2; subst e2
        refine ⟨by constructor <;> rfl, rfl, rfl, rfl, fun f' hf => ?_, fun hc => by cases hc⟩
        injection hf with hf; subst hf; exact ⟨by assumption, rfl⟩
      · cases e2
    · injection e2 with e2; subst e2
      exact ⟨by constructor <;> rfl, rfl, rfl, rfl, fun _ hc => (by cases hc), fun _ => rfl⟩
    · split at e2
      · injection e2 with e2; subst e2
        refine ⟨by constructor <;> rfl, rfl, rfl, rfl, fun f' hf => ?_, fun hc => by cases hc⟩
        injection hf with hf; subst hf; exact ⟨by assumption, rfl⟩
      · cases e2
  obtain ⟨m2, a2, o2, c2, f2, f2n⟩ := st2
  -- stage 3+4: toggles, ramp
  have st4 : SameMoney s2 s4 ∧ s4.owner = s2.owner ∧ s4.collector = s2.collector ∧ s4.fees = s2.fees ∧
      (∀ fa fb, r = some (fa, fb) → rampAmp s2.amp h fa fb = .ok s4.amp) ∧ (r = none → s4.amp = s2.amp) := by
    rcases t with _ | ⟨d, w, sw⟩ <;> rcases r with _ | ⟨fa, fb⟩
    all_goals dsimp only at e4
    · injection e4 with e4; subst e4
      exact ⟨by constructor <;> rfl, rfl, rfl, rfl, fun _ _ hc => (by cases hc), fun _ => rfl⟩
    · obtain ⟨A, hA, e5⟩ := bind_eq_ok.mp e4
      injection e5 with e5; subst e5
      refine ⟨by constructor <;> rfl, rfl, rfl, rfl, fun fa' fb' hc => ?_, fun hc => by cases hc⟩
      injection hc with hc; injection hc with h1 h2; subst h1 h2; exact hA
    · injection e4 with e4; subst e4
      exact ⟨by constructor <;> rfl, rfl, rfl, rfl, fun _ _ hc => (by cases hc), fun _ => rfl⟩
    · obtain ⟨A, hA, e5⟩ := bind_eq_ok.mp e4
      injection e5 with e5; subst e5
      refine ⟨by constructor <;> rfl, rfl, rfl, rfl, fun fa' fb' hc => ?_, fun hc => by cases hc⟩
      injection hc with hc; injection hc with h1 h2; subst h1 h2; exact hA
  obtain ⟨m4, o4, c4, f4, r4, r4n⟩ := st4
  have st5 : SameMoney s4 s' ∧ s'.owner = s4.owner ∧ s'.fees = s4.fees ∧ s'.amp = s4.amp ∧
      s'.collector = c.getD s4.collector := by
    cases c
    all_goals dsimp only at h3
    all_goals subst h3
    all_goals exact ⟨by constructor <;> rfl, rfl, rfl, rfl, rfl⟩
  obtain ⟨m5, o5, f5, a5, c5⟩ := st5
  refine ⟨hown, m2.trans (m4.trans m5), fun fa fb hr => ?_, fun hr => ?_, fun f' hf => ?_, fun hf => ?_,
    by rw [o5, o4, o2], by rw [c5, c4, c2]⟩
  · rw [a5, ← a2]; exact r4 fa fb hr
  · rw [a5, r4n hr, a2]
  · exact ⟨(f2 f' hf).1, by rw [f5, f4, (f2 f' hf).2]⟩
  · rw [f5, f4, f2n hf]
/-! ## invariants over all histories -/

theorem rampAmp_ok_bounds {A A' : AmpCfg} {h fa fb : Nat} (hr : rampAmp A h fa fb = .ok A') :
    ∃ cur, A.at h = .ok cur ∧ A' = { init := cur, target := fa, start := h, stop := fb } ∧
      1 ≤ fa ∧ fa ≤ 1000000 := by
  unfold rampAmp at hr
  obtain ⟨cur, hc, h1⟩ := bind_eq_ok.mp hr
  obtain ⟨g1, h2⟩ := guard_bind_eq_ok.mp h1
  obtain ⟨g2, h3⟩ := guard_bind_eq_ok.mp h2
  obtain ⟨ru, _, h4⟩ := bind_eq_ok.mp h3
  obtain ⟨rj, _, h5⟩ := bind_eq_ok.mp h4
  obtain ⟨_, h6⟩ := guard_bind_eq_ok.mp h5
  obtain ⟨mb, _, h7⟩ := bind_eq_ok.mp h6
  obtain ⟨_, h8⟩ := guard_bind_eq_ok.mp h7
  injection h8 with h8
  rw [MIN_AMP_eq] at g1
  rw [MAX_AMP_eq] at g2
  exact ⟨cur, unwrapP_eq_ok.mp hc, h8.symm, of_decide_eq_true g1, of_decide_eq_true g2⟩

/-- what holds in every reachable state of the 3pool -/
structure Inv (s : St) : Prop where
  solvent : ∀ i, s.pend i ≤ s.bal i
  ledger : ∀ i, s.pend i + s.sent i = s.charged i
  allTime : ∀ i, s.allTime i = s.charged i
  burned : ∀ i, s.burned i = s.burnedSum i
  ampLo : 1 ≤ s.amp.init ∧ 1 ≤ s.amp.target
  ampHi : s.amp.init ≤ 1000000 ∧ s.amp.target ≤ 1000000

/-- the effective amp of a configuration whose stored amps are in range is in range -/
theorem amp_at_range {A : AmpCfg} {h a : Nat} (hlo : 1 ≤ A.init ∧ 1 ≤ A.target)
    (hhi : A.init ≤ 1000000 ∧ A.target ≤ 1000000) (ha : A.at h = .ok a) : 1 ≤ a ∧ a ≤ 1000000 := by
  obtain ⟨he, hw⟩ := ampFactor_ok_eq ha
  have hb := ampClosed_between (i := A.init) (t := A.target) (c := h) (s := A.start) (e := A.stop) hw
  rw [← he] at hb
  omega

theorem inv_of_grow {s s' : St} (hi : Inv s) (g : Grow s s') : Inv s' := by
  have b := g.book
  refine ⟨fun i => ?_, fun i => ?_, fun i => ?_, fun i => ?_, ?_, ?_⟩
  · rw [b.pend]; exact Nat.le_trans (hi.solvent i) (g.bal i)
  · rw [b.pend, b.sent, b.charged]; exact hi.ledger i
  · rw [b.allTime, b.charged]; exact hi.allTime i
  · rw [b.burned, b.burnedSum]; exact hi.burned i
  · rw [b.amp]; exact hi.ampLo
  · rw [b.amp]; exact hi.ampHi

theorem step_inv {s s' : St} {h u : Nat} {op : Op} (hi : Inv s) (hs : step h u s op = .ok s') :
    Inv s' := by
  cases op with
  | provide d0 d1 d2 slip recv => exact inv_of_grow hi (provide_grow hs)
  | donate i amt => exact inv_of_grow hi (donate_grow hs)
  | withdraw amt =>
    obtain ⟨b, _, _, hsolv, _, _⟩ := withdraw_spec hs
    refine ⟨fun i => ?_, fun i => ?_, fun i => ?_, fun i => ?_, ?_, ?_⟩
    · rw [b.pend]; exact hsolv i (hi.solvent i)
    · rw [b.pend, b.sent, b.charged]; exact hi.ledger i
    · rw [b.allTime, b.charged]; exact hi.allTime i
    · rw [b.burned, b.burnedSum]; exact hi.burned i
    · rw [b.amp]; exact hi.ampLo
    · rw [b.amp]; exact hi.ampHi
  | swap offer ask amt bp ms rc =>
    obtain ⟨c, e, _⟩ := swap_spec hs
    refine ⟨fun i => ?_, fun i => ?_, fun i => ?_, fun i => ?_, ?_, ?_⟩
    · rw [e.pend, e.bal]
      have := hi.solvent i
      have hlt := e.lt
      have hne := e.ne
      by_cases hio : i = offer
      · subst hio; rw [if_neg hne, if_pos rfl]; omega
      · by_cases hia : i = ask
        · subst hia; rw [if_pos rfl, if_neg hio, if_pos rfl]; omega
        · rw [if_neg hia, if_neg hio, if_neg hia]; exact this
    · rw [e.pend, e.sent, e.charged]
      have := hi.ledger i
      split <;> omega
    · rw [e.allTime, e.charged]
      have := hi.allTime i
      split <;> omega
    · rw [e.burned, e.burnedSum]
      have := hi.burned i
      split <;> omega
    · rw [e.rest.amp]; exact hi.ampLo
    · rw [e.rest.amp]; exact hi.ampHi
  | collect =>
    have e := collect_eff hs
    refine ⟨fun i => ?_, fun i => ?_, fun i => ?_, fun i => ?_, ?_, ?_⟩
    · rw [e.pend, e.bal]
      have := hi.solvent i
      split <;> omega
    · rw [e.pend, e.sent, e.charged]
      have := hi.ledger i
      split <;> omega
    · rw [e.allTime, e.charged]; exact hi.allTime i
    · rw [e.burned, e.burnedSum]; exact hi.burned i
    · rw [e.rest.amp]; exact hi.ampLo
    · rw [e.rest.amp]; exact hi.ampHi
  | updateConfig o c f t r =>
    obtain ⟨_, m, hr, hrn, _, _, _, _⟩ := updateConfig_spec hs
    have hamp : (1 ≤ s'.amp.init ∧ 1 ≤ s'.amp.target) ∧ (s'.amp.init ≤ 1000000 ∧ s'.amp.target ≤ 1000000) := by
      rcases r with _ | ⟨fa, fb⟩
      · rw [hrn rfl]; exact ⟨hi.ampLo, hi.ampHi⟩
      · obtain ⟨cur, hc, hA, h1, h2⟩ := rampAmp_ok_bounds (hr fa fb rfl)
        have := amp_at_range hi.ampLo hi.ampHi hc
        rw [hA]; simp only; omega
    refine ⟨fun i => ?_, fun i => ?_, fun i => ?_, fun i => ?_, hamp.1, hamp.2⟩
    · rw [m.pend, m.bal]; exact hi.solvent i
    · rw [m.pend, m.sent, m.charged]; exact hi.ledger i
    · rw [m.allTime, m.charged]; exact hi.allTime i
    · rw [m.burned, m.burnedSum]; exact hi.burned i
  | foreign k a amt => cases hs

theorem run_inv {s : St} (hi : Inv s) (ops : List (Nat × Nat × Op)) : Inv (run s ops) := by
  induction ops generalizing s with
  | nil => exact hi
  | cons x rest ih =>
    obtain ⟨h, u, op⟩ := x
    unfold run
    cases hs : step h u s op with
    | ok s' => exact ih (step_inv hi hs)
    | err => exact ih hi
    | panic => exact ih hi

theorem init_inv {kind : Nat → Bool} {fees : Fees} {amp h0 : Nat} {fund : Nat → Nat → Nat}
    {sup : Nat → Nat} {s : St} (h : mkInit kind fees amp h0 fund sup = .ok s) : Inv s := by
  unfold mkInit at h
  obtain ⟨_, h1⟩ := guard_bind_eq_ok.mp h
  obtain ⟨g1, h2⟩ := guard_bind_eq_ok.mp h1
  obtain ⟨g2, h3⟩ := guard_bind_eq_ok.mp h2
  injection h3 with h3
  rw [MIN_AMP_eq] at g1
  rw [MAX_AMP_eq] at g2
  have g1 := of_decide_eq_true g1
  have g2 := of_decide_eq_true g2
  subst h3
  exact ⟨fun _ => Nat.le_refl _, fun _ => rfl, fun _ => rfl, fun _ => rfl, ⟨g1, g1⟩, ⟨g2, g2⟩⟩

/-! ## C07 (3pool share) -/

/-- C07 `ledger_eq` for the 3pool: pending = Σ charged − Σ sent to the collector, in every reachable state -/
theorem trio_ledger_eq {s : St} (hi : Inv s) (ops : List (Nat × Nat × Op)) (i : Nat) :
    (run s ops).pend i = (run s ops).charged i - (run s ops).sent i ∧
    (run s ops).sent i ≤ (run s ops).charged i := by
  have := (run_inv hi ops).ledger i
  omega

/-- C07 `all_time_eq`: the all-time counter equals Σ charged, in every reachable state -/
theorem trio_all_time_eq {s : St} (hi : Inv s) (ops : List (Nat × Nat × Op)) (i : Nat) :
    (run s ops).allTime i = (run s ops).charged i := (run_inv hi ops).allTime i

/-- C07 `burned_eq`: the burned counter equals Σ burned, in every reachable state -/
theorem trio_burned_eq {s : St} (hi : Inv s) (ops : List (Nat × Nat × Op)) (i : Nat) :
    (run s ops).burned i = (run s ops).burnedSum i := (run_inv hi ops).burned i

/-- per step: the all-time and burned counters never decrease, and the asset's total supply drops by
    exactly what was added to the burned sum (truncated subtraction; exact whenever the pool's
    balance is part of the supply) -/
theorem trio_counters_step {s s' : St} {h u : Nat} {op : Op} (hs : step h u s op = .ok s') (i : Nat) :
    s.allTime i ≤ s'.allTime i ∧ s.burned i ≤ s'.burned i ∧ s.charged i ≤ s'.charged i ∧
    s.burnedSum i ≤ s'.burnedSum i ∧ s'.sup i = s.sup i - (s'.burnedSum i - s.burnedSum i) := by
  cases op with
  | provide d0 d1 d2 slip recv =>
    have g := provide_grow hs
    rw [g.book.allTime, g.book.burned, g.book.charged, g.book.burnedSum, g.sup]; simp
  | donate j amt =>
    have g := donate_grow hs
    rw [g.book.allTime, g.book.burned, g.book.charged, g.book.burnedSum, g.sup]; simp
  | withdraw amt =>
    obtain ⟨b, hsup, _⟩ := withdraw_spec hs
    rw [b.allTime, b.burned, b.charged, b.burnedSum, hsup]; simp
  | swap offer ask amt bp ms rc =>
    obtain ⟨c, e, _⟩ := swap_spec hs
    rw [e.allTime, e.burned, e.charged, e.burnedSum, e.sup]
    split <;> simp
  | collect =>
    have e := collect_eff hs
    rw [e.allTime, e.burned, e.charged, e.burnedSum, e.sup]; simp
  | updateConfig o c f t r =>
    obtain ⟨_, m, _⟩ := updateConfig_spec hs
    rw [m.allTime, m.burned, m.charged, m.burnedSum, m.sup]; simp
  | foreign k a amt => cases hs

/-- C07 `collect_exact`: a collection sends exactly the pending entries above the threshold, to the
    configured collector only, zeroes exactly those entries, and leaves every reserve
    (`balance − pending`), every counter and the LP supply unchanged -/
theorem trio_collect_exact {s s' : St} (hc : collect s = .ok s') (hi : Inv s) (j : Nat) :
    (s'.ub s.collector j = s.ub s.collector j + (if collectable s j then s.pend j else 0)) ∧
    (∀ a, a ≠ s.collector → s'.ub a j = s.ub a j) ∧
    (s'.pend j = if collectable s j then 0 else s.pend j) ∧
    (s'.bal j - s'.pend j = s.bal j - s.pend j) ∧
    (s.bal j - s'.bal j = if collectable s j then s.pend j else 0) ∧
    s'.allTime j = s.allTime j ∧ s'.burned j = s.burned j ∧ s'.lpSup = s.lpSup ∧
    s'.collector = s.collector := by
  have e := collect_eff hc
  have hsolv := hi.solvent j
  refine ⟨?_, fun a ha => ?_, e.pend j, ?_, ?_, by rw [e.allTime], by rw [e.burned], e.rest.lpSup,
    e.rest.collector⟩
  · rw [e.ub]; split <;> simp_all
  · rw [e.ub]; rw [if_neg]; intro hc'; exact ha hc'.1
  · rw [e.pend, e.bal]; split <;> omega
  · rw [e.bal]; split <;> omega

/-! ## C14 (3pool share) -/

/-- C14 `sim_eq_exec_trio`: whenever a swap executes, the `Simulation` query on the state just before
    it (same block) returns a computation `c`, and the swap transfers and records exactly `c`:
    the receiver gets `c.ret` of the ask asset, the pending and all-time protocol-fee ledgers grow by
    `c.protFee`, the burned ledger and the burn by `c.burnFee`; for native and cw20 offers alike. -/
theorem trio_sim_eq_exec {s s' : St} {h u offer ask amt : Nat} {bp ms rc : Option Nat}
    (hs : swap s h u offer ask amt bp ms rc = .ok s') :
    ∃ c, simulate s h offer ask amt = .ok c ∧
      s'.ub (rc.getD u) ask = s.ub (rc.getD u) ask + c.ret ∧
      s'.pend ask = s.pend ask + c.protFee ∧ s'.allTime ask = s.allTime ask + c.protFee ∧
      s'.burned ask = s.burned ask + c.burnFee ∧ s'.sup ask = s.sup ask - c.burnFee ∧
      s'.bal offer = s.bal offer + amt ∧ s'.bal ask = s.bal ask - c.ret - c.burnFee := by
  obtain ⟨c, e, hsim⟩ := swap_spec hs
  refine ⟨c, hsim, e.recv, ?_, ?_, ?_, ?_, ?_, ?_⟩
  · rw [e.pend]; simp
  · rw [e.allTime]; simp
  · rw [e.burned]; simp
  · rw [e.sup]; simp
  · rw [e.bal]; simp
  · rw [e.bal]; rw [if_neg (Ne.symm e.ne)]; simp
/-! ## solver residual (what the termination test of `compute_y_raw` alone guarantees) -/

/-- the `compute_y_raw` loop left through its `|Δ| ≤ 1` exit, at the Newton step from `yp` to `y'` -/
def YConverged (b c d yp y' : Nat) : Prop :=
  d < 2 * yp + b ∧ y' = (yp * yp + c) / (2 * yp + b - d) ∧ close1 y' yp = true

/-- mirror of `yLoop` that only says whether the loop fell off the end of its iteration budget -/
def yExhausted (b c d : Nat) : Nat → Nat → Bool
  | 0, _ => true
  | fuel + 1, y =>
    let y' := (y * y + c) / (2 * y + b - d)
    if close1 y' y then false else yExhausted b c d fuel y'

theorem yLoop_ok_cases {b c d : Nat} : ∀ (fuel y y' : Nat), yLoop b c d fuel y = .ok y' →
    (∃ yp, YConverged b c d yp y') ∨ yExhausted b c d fuel y = true := by
  intro fuel
  induction fuel with
  | zero => intro y y' _; right; rfl
  | succ n ih =>
    intro y y' h
    unfold yLoop at h
    obtain ⟨yy, hyy, h1⟩ := bind_eq_ok.mp h
    obtain ⟨num, hnum, h2⟩ := bind_eq_ok.mp h1
    obtain ⟨y2, hy2, h3⟩ := bind_eq_ok.mp h2
    obtain ⟨t, ht, h4⟩ := bind_eq_ok.mp h3
    obtain ⟨den, hden, h5⟩ := bind_eq_ok.mp h4
    obtain ⟨yn, hyn, h6⟩ := bind_eq_ok.mp h5
    obtain ⟨_, hyy⟩ := pmul_eq_ok.mp hyy
    obtain ⟨_, hnum⟩ := padd_eq_ok.mp hnum
    obtain ⟨_, hy2⟩ := pmul_eq_ok.mp hy2
    obtain ⟨_, ht⟩ := padd_eq_ok.mp ht
    obtain ⟨hdt, hden⟩ := psub_eq_ok.mp hden
    obtain ⟨hne, hyn⟩ := pdiv_eq_ok.mp hyn
    subst hyy hnum hy2 ht hden
    have e2 : y * 2 = 2 * y := Nat.mul_comm _ _
    rw [e2] at hyn hne hdt
    split at h6
    · rename_i hc
      injection h6 with h6
      subst h6
      left
      exact ⟨y, by omega, hyn, hc⟩
    · rename_i hc
      rcases ih yn y' h6 with hconv | hex
      · left; exact hconv
      · right
        unfold yExhausted
        dsimp only
        rw [← hyn, if_neg hc]
        exact hex

theorem close1_cases {a b : Nat} (h : close1 a b = true) : a = b + 1 ∨ a = b ∨ b = a + 1 := by
  unfold close1 at h
  split at h <;> simp only [decide_eq_true_eq] at h <;> omega

/-- **residual**: a `y` returned through the convergence exit is the integer root of
    `F(t) = t² + (b − d)·t − c` up to one unit: `F(y') ≤ 1` and `F(y') > −(2·y_prev + b − d)`
    (written without subtraction). Ported from the design-phase lemma `y_residual`. -/
theorem y_residual_nat {b c d yp y' : Nat} (h : YConverged b c d yp y') :
    y' * y' + b * y' ≤ c + d * y' + 1 ∧
    c + d * y' < y' * y' + b * y' + (2 * yp + b - d) := by
  obtain ⟨hd, hy, hc⟩ := h
  have hg : 0 < 2 * yp + b - d := by omega
  obtain ⟨g, hgdef⟩ : ∃ g, g = 2 * yp + b - d := ⟨_, rfl⟩
  have hgd : g + d = 2 * yp + b := by omega
  rw [← hgdef] at hy hg ⊢
  have hlo : y' * g ≤ yp * yp + c := by rw [hy]; exact Nat.div_mul_le_self _ _
  have hhi : yp * yp + c < (y' + 1) * g := by
    rw [hy]
    have := Nat.lt_mul_div_succ (yp * yp + c) hg
    rw [Nat.mul_comm g] at this; exact this
  clear hy hgdef hd
  rcases close1_cases hc with r | r | r
  · subst r
    constructor
    · nlinarith [hlo, hgd]
    · nlinarith [hhi, hgd]
  · subst r
    constructor
    · nlinarith [hlo, hgd]
    · nlinarith [hhi, hgd]
  · subst r
    constructor
    · nlinarith [hlo, hgd]
    · nlinarith [hhi, hgd]


end WW.Trio
