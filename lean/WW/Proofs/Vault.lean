/- Helper lemmas for the vault model: list bookkeeping, per-operation characterisations,
   the callback-tree induction. Property theorems are in WW/Props/C05.lean, C06.lean. -/
import WW.Model.Vault
import WW.Proofs.Basic
import Mathlib.Tactic.SplitIfs
namespace WW.Vault
open WW

/-! ### lists of balances -/

theorem setN_length (l : List Nat) (i v : Nat) : (setN l i v).length = l.length := by
  induction l generalizing i with
  | nil => simp [setN]
  | cons x xs ih =>
    cases i with
    | zero => simp [setN]
    | succ i => simp [setN, ih]

theorem setN_sum (l : List Nat) (i v : Nat) (h : i < l.length) :
    (setN l i v).sum + getN l i = l.sum + v := by
  induction l generalizing i with
  | nil => simp at h
  | cons x xs ih =>
    cases i with
    | zero => simp [setN, getN]; omega
    | succ i =>
      have := ih i (by simpa using h)
      simp only [setN, List.sum_cons, getN, List.getD_cons_succ] at *
      omega

theorem getN_le_sum (l : List Nat) (i : Nat) : getN l i ≤ l.sum := by
  induction l generalizing i with
  | nil => simp [getN]
  | cons x xs ih =>
    cases i with
    | zero => simp [getN]
    | succ i =>
      have := ih i
      simp only [getN, List.getD_cons_succ, List.sum_cons] at *
      omega

theorem getN_setN_same (l : List Nat) (i v : Nat) (h : i < l.length) : getN (setN l i v) i = v := by
  induction l generalizing i with
  | nil => simp at h
  | cons x xs ih =>
    cases i with
    | zero => simp [setN, getN]
    | succ i =>
      have := ih i (by simpa using h)
      simpa [setN, getN] using this

theorem getN_setN_ne (l : List Nat) (i j v : Nat) (h : i ≠ j) : getN (setN l i v) j = getN l j := by
  induction l generalizing i j with
  | nil => simp [setN]
  | cons x xs ih =>
    cases i with
    | zero =>
      cases j with
      | zero => exact absurd rfl h
      | succ j => simp [setN, getN]
    | succ i =>
      cases j with
      | zero => simp [setN, getN]
      | succ j =>
        have := ih i j (by omega)
        simpa [setN, getN] using this

/-! ### the invariant -/

/-- what every reachable top-level state satisfies -/
structure Inv (s : St) : Prop where
  abLen : s.ab.length = 5
  lbLen : s.lb.length = 4
  pendLe : s.pend ≤ s.bal
  assetSum : s.bal + s.ab.sum = s.assetSupply
  lpSum : s.lpVault + s.lb.sum = s.sup
  locked : (s.sup = 0 ∧ s.lpVault = 0) ∨ (s.lpVault = Gen.MINIMUM_LIQUIDITY_AMOUNT)
  ctr0 : s.ctr = 0

/-- the weaker invariant that holds inside a borrower's callback (the counter is not zero) -/
structure CbInv (s : St) : Prop where
  abLen : s.ab.length = 5
  lbLen : s.lb.length = 4
  assetSum : s.bal + s.ab.sum = s.assetSupply
  lpSum : s.lpVault + s.lb.sum = s.sup
  ctrPos : s.ctr ≠ 0

/-- assets backing the LP supply -/
def backing (s : St) : Nat := s.bal - s.pend

/-! ### arithmetic cores -/

theorem deposit_price (T S a : Nat) : T * (S + a * S / T) ≤ (T + a) * S := by
  have h := Nat.div_mul_le_self (a * S) T
  nlinarith [h]

theorem withdraw_out_le (T S lp : Nat) (hS : 0 < S) : (T * (lp * E18 / S) / E18) * S ≤ T * lp := by
  have h1 : lp * E18 / S * S ≤ lp * E18 := Nat.div_mul_le_self _ _
  have h2 : T * (lp * E18 / S) / E18 * E18 ≤ T * (lp * E18 / S) := Nat.div_mul_le_self _ _
  have : (T * (lp * E18 / S) / E18) * S * E18 ≤ T * lp * E18 := by nlinarith [h1, h2]
  exact Nat.le_of_mul_le_mul_right this E18_pos

theorem withdraw_price (T S lp out : Nat) (hS : 0 < S) (hlp : lp ≤ S) (h : out * S ≤ T * lp) :
    out ≤ T ∧ T * (S - lp) ≤ (T - out) * S := by
  have hout : out ≤ T := by
    have : out * S ≤ T * S := le_trans h (Nat.mul_le_mul_left T hlp)
    exact Nat.le_of_mul_le_mul_right this hS
  refine ⟨hout, ?_⟩
  obtain ⟨k, hk⟩ : ∃ k, S = lp + k := ⟨S - lp, by omega⟩
  obtain ⟨m, hm⟩ : ∃ m, T = out + m := ⟨T - out, by omega⟩
  have e1 : S - lp = k := by omega
  have e2 : T - out = m := by omega
  rw [e1, e2]; subst hk; subst hm
  nlinarith

theorem min_liq_pos : 0 < Gen.MINIMUM_LIQUIDITY_AMOUNT := by decide

theorem Inv.sup_pos_locked {s : St} (hI : Inv s) (h : s.sup ≠ 0) :
    s.lpVault = Gen.MINIMUM_LIQUIDITY_AMOUNT := by
  rcases hI.locked with ⟨h0, _⟩ | h1
  · exact absurd h0 h
  · exact h1

theorem Inv.sup_zero_lpVault {s : St} (hI : Inv s) (h : s.sup = 0) : s.lpVault = 0 := by
  have := hI.lpSum; omega

/-! ### per-operation specifications -/

theorem deposit_ok_of_some {s s' : St} {who amount sent : Nat}
    (h : deposit s who amount sent = some s') :
    depositOk s who amount sent = true ∧ s' = depositRes s who amount := by
  unfold deposit at h
  split at h
  · rename_i hok; injection h with h; exact ⟨hok, h.symm⟩
  · cases h

theorem deposit_spec {s s' : St} {who amount sent : Nat} (hI : Inv s) (hw : who < 4)
    (h : deposit s who amount sent = some s') :
    Inv s' ∧ s'.bal = s.bal + amount ∧ s'.pend = s.pend ∧
    (0 < s.sup → backing s * s'.sup ≤ backing s' * s.sup) := by
  obtain ⟨hok, rfl⟩ := deposit_ok_of_some h
  simp only [depositOk, Bool.and_eq_true, decide_eq_true_eq] at hok
  obtain ⟨⟨⟨⟨hfund, hdep⟩, hctr⟩, hsent⟩, hbr⟩ := hok
  have hwa : who < s.ab.length := by rw [hI.abLen]; omega
  have hwl : who < s.lb.length := by rw [hI.lbLen]; omega
  have hab := setN_sum s.ab who (getN s.ab who - amount) hwa
  have hlb := setN_sum s.lb who (getN s.lb who + depositMint s amount) hwl
  have hI1 := hI.assetSum
  have hI2 := hI.lpSum
  have hI3 := hI.pendLe
  refine ⟨⟨?_, ?_, ?_, ?_, ?_, ?_, ?_⟩, rfl, rfl, ?_⟩
  · simp [depositRes, setN_length, hI.abLen]
  · simp [depositRes, setN_length, hI.lbLen]
  · simp only [depositRes]; omega
  · simp only [depositRes]; omega
  · simp only [depositRes]; omega
  · simp only [depositRes]
    by_cases h0 : s.sup = 0
    · right; simp [h0, hI.sup_zero_lpVault h0]
    · right; simp [h0, hI.sup_pos_locked h0]
  · exact hI.ctr0
  · intro hpos
    have hne : s.sup ≠ 0 := by omega
    simp only [backing, depositRes, depositMint, if_neg hne, Nat.add_zero]
    have e : s.bal + amount - s.pend = (s.bal - s.pend) + amount := by omega
    rw [e]
    exact deposit_price _ _ _

theorem withdraw_ok_of_some {s s' : St} {who lp : Nat} (h : withdraw s who lp = some s') :
    withdrawOk s who lp = true ∧ s' = withdrawRes s who lp := by
  unfold withdraw at h
  split at h
  · rename_i hok; injection h with h; exact ⟨hok, h.symm⟩
  · cases h

/-- the payout of a withdrawal is at most pro rata: `out · supply ≤ backing · lp` -/
theorem shareOf_le (s : St) (lp : Nat) (hS : s.sup ≠ 0) : shareOf s lp * s.sup ≤ backing s * lp :=
  withdraw_out_le _ _ _ (by omega)

theorem withdraw_spec_gen {s s' : St} {who lp : Nat} (hab : s.ab.length = 5) (hlb : s.lb.length = 4)
    (hw : who < 4) (h : withdraw s who lp = some s') :
    s'.ab.length = 5 ∧ s'.lb.length = 4 ∧
    s'.bal + s'.ab.sum = s.bal + s.ab.sum ∧
    s'.lpVault + s'.lb.sum + lp = s.lpVault + s.lb.sum ∧ s'.sup = s.sup - lp ∧
    s'.bal + shareOf s lp = s.bal ∧ s'.pend = s.pend ∧ s'.lpVault = s.lpVault ∧ s'.ctr = s.ctr ∧
    s'.allTime = s.allTime ∧ s'.burned = s.burned ∧ s'.assetSupply = s.assetSupply ∧ s'.fees = s.fees ∧
    s'.kind = s.kind ∧ lp ≤ getN s.lb who ∧ s.sup ≠ 0 ∧ s.pend ≤ s.bal := by
  obtain ⟨hok, rfl⟩ := withdraw_ok_of_some h
  simp only [withdrawOk, Bool.and_eq_true, decide_eq_true_eq, Bool.not_eq_true', Bool.and_eq_false_iff,
    decide_eq_false_iff_not] at hok
  obtain ⟨⟨⟨⟨⟨hlp, _⟩, hpend⟩, hsup⟩, _⟩, hout⟩ := hok
  have hwa : who < s.ab.length := by rw [hab]; omega
  have hwl : who < s.lb.length := by rw [hlb]; omega
  have h3 := getN_le_sum s.lb who
  unfold withdrawRes
  generalize shareOf s lp = sh at *
  have h1 := setN_sum s.ab who (getN s.ab who + sh) hwa
  have h2 := setN_sum s.lb who (getN s.lb who - lp) hwl
  refine ⟨by simp [setN_length, hab], by simp [setN_length, hlb], ?_, ?_, ?_, ?_,
    ?_, ?_, ?_, ?_, ?_, ?_, ?_, ?_, hlp, hsup, hpend⟩
  all_goals try (simp only; done)
  all_goals (simp only; omega)

theorem withdraw_spec {s s' : St} {who lp : Nat} (hI : Inv s) (hw : who < 4)
    (h : withdraw s who lp = some s') :
    Inv s' ∧ backing s * s'.sup ≤ backing s' * s.sup ∧ shareOf s lp * s.sup ≤ backing s * lp := by
  obtain ⟨a1, a2, a3, a4, a5, a6, a7, a8, a9, _, _, a12, _, _, hlp, hsup, hpend⟩ :=
    withdraw_spec_gen hI.abLen hI.lbLen hw h
  have hshare := shareOf_le s lp hsup
  have hI2 := hI.lpSum
  have h3 := getN_le_sum s.lb who
  have hlps : lp ≤ s.sup := by omega
  obtain ⟨hoT, hprice⟩ := withdraw_price (backing s) s.sup lp (shareOf s lp) (by omega) hlps hshare
  have hb : backing s' = backing s - shareOf s lp := by unfold backing at *; omega
  refine ⟨⟨a1, a2, ?_, ?_, ?_, ?_, ?_⟩, ?_, hshare⟩
  · unfold backing at hoT; omega
  · have := hI.assetSum; omega
  · omega
  · right; rw [a8]; exact hI.sup_pos_locked hsup
  · rw [a9]; exact hI.ctr0
  · rw [hb, a5]; exact hprice

theorem collect_spec {s s' : St} (hI : Inv s) (h : collect s = some s') :
    Inv s' ∧ backing s' = backing s ∧ s'.sup = s.sup ∧
    getN s'.ab 4 = getN s.ab 4 + s.pend ∧ s'.pend = 0 ∧ s'.bal + s.pend = s.bal := by
  unfold collect at h
  split at h
  · rename_i h0; injection h with h; subst h
    exact ⟨hI, rfl, rfl, by omega, h0, by omega⟩
  · split at h
    · cases h
    · injection h with h; subst h
      have h4 : 4 < s.ab.length := by rw [hI.abLen]; omega
      have hs := setN_sum s.ab 4 (getN s.ab 4 + s.pend) h4
      have := hI.assetSum
      have := hI.pendLe
      refine ⟨⟨?_, hI.lbLen, ?_, ?_, hI.lpSum, hI.locked, hI.ctr0⟩, ?_, rfl, ?_, rfl, ?_⟩
      · simp [collectRes, setN_length, hI.abLen]
      · simp only [collectRes]; omega
      · simp only [collectRes]; omega
      · simp only [backing, collectRes]; omega
      · simp only [collectRes]; exact getN_setN_same _ _ _ h4
      · simp only [collectRes]; omega

theorem payIn_spec {s s' : St} {a n : Nat} (hab : s.ab.length = 5) (ha : a < 5)
    (h : payIn s a n = some s') :
    s' = { s with ab := setN s.ab a (getN s.ab a - n), bal := s.bal + n } ∧ n ≤ getN s.ab a ∧
    s'.bal + s'.ab.sum = s.bal + s.ab.sum ∧ s'.ab.length = 5 := by
  unfold payIn at h
  split at h
  · cases h
  · rename_i hc
    injection h with h; subst h
    have hwa : a < s.ab.length := by rw [hab]; omega
    have hs := setN_sum s.ab a (getN s.ab a - n) hwa
    have hle : n ≤ getN s.ab a := by omega
    refine ⟨rfl, hle, ?_, by simp [setN_length, hab]⟩
    simp only; omega

theorem payOut_spec {s s' : St} {a n : Nat} (hab : s.ab.length = 5) (ha : a < 5)
    (h : payOut s a n = some s') :
    s' = { s with ab := setN s.ab a (getN s.ab a + n), bal := s.bal - n } ∧ n ≤ s.bal ∧
    s'.bal + s'.ab.sum = s.bal + s.ab.sum ∧ s'.ab.length = 5 := by
  unfold payOut at h
  split at h
  · cases h
  · rename_i hc
    injection h with h; subst h
    have hwa : a < s.ab.length := by rw [hab]; omega
    have hs := setN_sum s.ab a (getN s.ab a + n) hwa
    have hle : n ≤ s.bal := by omega
    refine ⟨rfl, hle, ?_, by simp [setN_length, hab]⟩
    simp only; omega

end WW.Vault
