/- Helper lemmas for the vault model: list bookkeeping, per-operation characterisations,
   the callback-tree induction. Property theorems are in WW/Props/C05.lean, C06.lean. -/
import WW.Model.Vault
import WW.Proofs.Basic
import Mathlib.Tactic.SplitIfs
namespace WW.Vault
open WW

/-! ### lists of balances -/

theorem setN_length (l : List Nat) (i v : Nat) : (setN l i v).length = l.length := by
  induction l generalizing i with
  | nil => simp [setN]
  | cons x xs ih =>
    cases i with
    | zero => simp [setN]
    | succ i => simp [setN, ih]

theorem setN_sum (l : List Nat) (i v : Nat) (h : i < l.length) :
    (setN l i v).sum + getN l i = l.sum + v := by
  induction l generalizing i with
  | nil => simp at h
  | cons x xs ih =>
    cases i with
    | zero => simp [setN, getN]; omega
    | succ i =>
      have := ih i (by simpa using h)
      simp only [setN, List.sum_cons, getN, List.getD_cons_succ] at *
      omega

theorem getN_le_sum (l : List Nat) (i : Nat) : getN l i ≤ l.sum := by
  induction l generalizing i with
  | nil => simp [getN]
  | cons x xs ih =>
    cases i with
    | zero => simp [getN]
    | succ i =>
      have := ih i
      simp only [getN, List.getD_cons_succ, List.sum_cons] at *
      omega

theorem getN_setN_same (l : List Nat) (i v : Nat) (h : i < l.length) : getN (setN l i v) i = v := by
  induction l generalizing i with
  | nil => simp at h
  | cons x xs ih =>
    cases i with
    | zero => simp [setN, getN]
    | succ i =>
      have := ih i (by simpa using h)
      simpa [setN, getN] using this

theorem getN_setN_ne (l : List Nat) (i j v : Nat) (h : i ≠ j) : getN (setN l i v) j = getN l j := by
  induction l generalizing i j with
  | nil => simp [setN]
  | cons x xs ih =>
    cases i with
    | zero =>
      cases j with
      | zero => exact absurd rfl h
      | succ j => simp [setN, getN]
    | succ i =>
      cases j with
      | zero => simp [setN, getN]
      | succ j =>
        have := ih i j (by omega)
        simpa [setN, getN] using this

/-! ### the invariant -/

/-- what every reachable top-level state satisfies -/
structure Inv (s : St) : Prop where
  abLen : s.ab.length = 5
  lbLen : s.lb.length = 4
  pendLe : s.pend ≤ s.bal
  assetSum : s.bal + s.ab.sum = s.assetSupply
  lpSum : s.lpVault + s.lb.sum = s.sup
  locked : (s.sup = 0 ∧ s.lpVault = 0) ∨ (s.lpVault = Gen.MINIMUM_LIQUIDITY_AMOUNT)
  ctr0 : s.ctr = 0

/-- the weaker invariant that holds inside a borrower's callback (the counter is not zero) -/
structure CbInv (s : St) : Prop where
  abLen : s.ab.length = 5
  lbLen : s.lb.length = 4
  assetSum : s.bal + s.ab.sum = s.assetSupply
  lpSum : s.lpVault + s.lb.sum = s.sup
  ctrPos : s.ctr ≠ 0

/-- assets backing the LP supply -/
def backing (s : St) : Nat := s.bal - s.pend

/-! ### arithmetic cores -/

theorem deposit_price (T S a : Nat) : T * (S + a * S / T) ≤ (T + a) * S := by
  have h := Nat.div_mul_le_self (a * S) T
  nlinarith [h]

theorem withdraw_out_le (T S lp : Nat) (hS : 0 < S) : (T * (lp * E18 / S) / E18) * S ≤ T * lp := by
  have h1 : lp * E18 / S * S ≤ lp * E18 := Nat.div_mul_le_self _ _
  have h2 : T * (lp * E18 / S) / E18 * E18 ≤ T * (lp * E18 / S) := Nat.div_mul_le_self _ _
  have : (T * (lp * E18 / S) / E18) * S * E18 ≤ T * lp * E18 := by nlinarith [h1, h2]
  exact Nat.le_of_mul_le_mul_right this E18_pos

theorem withdraw_price (T S lp out : Nat) (hS : 0 < S) (hlp : lp ≤ S) (h : out * S ≤ T * lp) :
    out ≤ T ∧ T * (S - lp) ≤ (T - out) * S := by
  have hout : out ≤ T := by
    have : out * S ≤ T * S := le_trans h (Nat.mul_le_mul_left T hlp)
    exact Nat.le_of_mul_le_mul_right this hS
  refine ⟨hout, ?_⟩
  obtain ⟨k, hk⟩ : ∃ k, S = lp + k := ⟨S - lp, by omega⟩
  obtain ⟨m, hm⟩ : ∃ m, T = out + m := ⟨T - out, by omega⟩
  have e1 : S - lp = k := by omega
  have e2 : T - out = m := by omega
  rw [e1, e2]; subst hk; subst hm
  nlinarith

theorem min_liq_pos : 0 < Gen.MINIMUM_LIQUIDITY_AMOUNT := by decide

theorem Inv.sup_pos_locked {s : St} (hI : Inv s) (h : s.sup ≠ 0) :
    s.lpVault = Gen.MINIMUM_LIQUIDITY_AMOUNT := by
  rcases hI.locked with ⟨h0, _⟩ | h1
  · exact absurd h0 h
  · exact h1

theorem Inv.sup_zero_lpVault {s : St} (hI : Inv s) (h : s.sup = 0) : s.lpVault = 0 := by
  have := hI.lpSum; omega

/-! ### per-operation specifications -/

theorem deposit_ok_of_some {s s' : St} {who amount sent : Nat}
    (h : deposit s who amount sent = some s') :
    depositOk s who amount sent = true ∧ s' = depositRes s who amount := by
  unfold deposit at h
  split at h
  · rename_i hok; injection h with h; exact ⟨hok, h.symm⟩
  · cases h

theorem deposit_spec {s s' : St} {who amount sent : Nat} (hI : Inv s) (hw : who < 4)
    (h : deposit s who amount sent = some s') :
    Inv s' ∧ s'.bal = s.bal + amount ∧ s'.pend = s.pend ∧
    (0 < s.sup → backing s * s'.sup ≤ backing s' * s.sup) := by
  obtain ⟨hok, rfl⟩ := deposit_ok_of_some h
  simp only [depositOk, Bool.and_eq_true, decide_eq_true_eq] at hok
  obtain ⟨⟨⟨⟨hfund, hdep⟩, hctr⟩, hsent⟩, hbr⟩ := hok
  have hwa : who < s.ab.length := by rw [hI.abLen]; omega
  have hwl : who < s.lb.length := by rw [hI.lbLen]; omega
  have hab := setN_sum s.ab who (getN s.ab who - amount) hwa
  have hlb := setN_sum s.lb who (getN s.lb who + depositMint s amount) hwl
  have hI1 := hI.assetSum
  have hI2 := hI.lpSum
  have hI3 := hI.pendLe
  refine ⟨⟨?_, ?_, ?_, ?_, ?_, ?_, ?_⟩, rfl, rfl, ?_⟩
  · simp [depositRes, setN_length, hI.abLen]
  · simp [depositRes, setN_length, hI.lbLen]
  · simp only [depositRes]; omega
  · simp only [depositRes]; omega
  · simp only [depositRes]; omega
  · simp only [depositRes]
    by_cases h0 : s.sup = 0
    · right; simp [h0, hI.sup_zero_lpVault h0]
    · right; simp [h0, hI.sup_pos_locked h0]
  · exact hI.ctr0
  · intro hpos
    have hne : s.sup ≠ 0 := by omega
    simp only [backing, depositRes, depositMint, if_neg hne, Nat.add_zero]
    have e : s.bal + amount - s.pend = (s.bal - s.pend) + amount := by omega
    rw [e]
    exact deposit_price _ _ _

theorem withdraw_ok_of_some {s s' : St} {who lp : Nat} (h : withdraw s who lp = some s') :
    withdrawOk s who lp = true ∧ s' = withdrawRes s who lp := by
  unfold withdraw at h
  split at h
  · rename_i hok; injection h with h; exact ⟨hok, h.symm⟩
  · cases h

/-- the payout of a withdrawal is at most pro rata: `out · supply ≤ backing · lp` -/
theorem shareOf_le (s : St) (lp : Nat) (hS : s.sup ≠ 0) : shareOf s lp * s.sup ≤ backing s * lp :=
  withdraw_out_le _ _ _ (by omega)

theorem withdraw_spec_gen {s s' : St} {who lp : Nat} (hab : s.ab.length = 5) (hlb : s.lb.length = 4)
    (hw : who < 4) (h : withdraw s who lp = some s') :
    s'.ab.length = 5 ∧ s'.lb.length = 4 ∧
    s'.bal + s'.ab.sum = s.bal + s.ab.sum ∧
    s'.lpVault + s'.lb.sum + lp = s.lpVault + s.lb.sum ∧ s'.sup = s.sup - lp ∧
    s'.bal + shareOf s lp = s.bal ∧ s'.pend = s.pend ∧ s'.lpVault = s.lpVault ∧ s'.ctr = s.ctr ∧
    s'.allTime = s.allTime ∧ s'.burned = s.burned ∧ s'.assetSupply = s.assetSupply ∧ s'.fees = s.fees ∧
    s'.kind = s.kind ∧ lp ≤ getN s.lb who ∧ s.sup ≠ 0 ∧ s.pend ≤ s.bal := by
  obtain ⟨hok, rfl⟩ := withdraw_ok_of_some h
  simp only [withdrawOk, Bool.and_eq_true, decide_eq_true_eq, Bool.not_eq_true', Bool.and_eq_false_iff,
    decide_eq_false_iff_not] at hok
  obtain ⟨⟨⟨⟨⟨hlp, _⟩, hpend⟩, hsup⟩, _⟩, hout⟩ := hok
  have hwa : who < s.ab.length := by rw [hab]; omega
  have hwl : who < s.lb.length := by rw [hlb]; omega
  have h3 := getN_le_sum s.lb who
  unfold withdrawRes
  generalize shareOf s lp = sh at *
  have h1 := setN_sum s.ab who (getN s.ab who + sh) hwa
  have h2 := setN_sum s.lb who (getN s.lb who - lp) hwl
  refine ⟨by simp [setN_length, hab], by simp [setN_length, hlb], ?_, ?_, ?_, ?_,
    ?_, ?_, ?_, ?_, ?_, ?_, ?_, ?_, hlp, hsup, hpend⟩
  all_goals try (simp only; done)
  all_goals (simp only; omega)

theorem withdraw_spec {s s' : St} {who lp : Nat} (hI : Inv s) (hw : who < 4)
    (h : withdraw s who lp = some s') :
    Inv s' ∧ backing s * s'.sup ≤ backing s' * s.sup ∧ shareOf s lp * s.sup ≤ backing s * lp := by
  obtain ⟨a1, a2, a3, a4, a5, a6, a7, a8, a9, _, _, a12, _, _, hlp, hsup, hpend⟩ :=
    withdraw_spec_gen hI.abLen hI.lbLen hw h
  have hshare := shareOf_le s lp hsup
  have hI2 := hI.lpSum
  have h3 := getN_le_sum s.lb who
  have hlps : lp ≤ s.sup := by omega
  obtain ⟨hoT, hprice⟩ := withdraw_price (backing s) s.sup lp (shareOf s lp) (by omega) hlps hshare
  have hb : backing s' = backing s - shareOf s lp := by unfold backing at *; omega
  refine ⟨⟨a1, a2, ?_, ?_, ?_, ?_, ?_⟩, ?_, hshare⟩
  · unfold backing at hoT; omega
  · have := hI.assetSum; omega
  · omega
  · right; rw [a8]; exact hI.sup_pos_locked hsup
  · rw [a9]; exact hI.ctr0
  · rw [hb, a5]; exact hprice

theorem collect_spec {s s' : St} (hI : Inv s) (h : collect s = some s') :
    Inv s' ∧ backing s' = backing s ∧ s'.sup = s.sup ∧
    getN s'.ab 4 = getN s.ab 4 + s.pend ∧ s'.pend = 0 ∧ s'.bal + s.pend = s.bal := by
  unfold collect at h
  split at h
  · rename_i h0; injection h with h; subst h
    exact ⟨hI, rfl, rfl, by omega, h0, by omega⟩
  · split at h
    · cases h
    · injection h with h; subst h
      have h4 : 4 < s.ab.length := by rw [hI.abLen]; omega
      have hs := setN_sum s.ab 4 (getN s.ab 4 + s.pend) h4
      have := hI.assetSum
      have := hI.pendLe
      refine ⟨⟨?_, hI.lbLen, ?_, ?_, hI.lpSum, hI.locked, hI.ctr0⟩, ?_, rfl, ?_, rfl, ?_⟩
      · simp [collectRes, setN_length, hI.abLen]
      · simp only [collectRes]; omega
      · simp only [collectRes]; omega
      · simp only [backing, collectRes]; omega
      · simp only [collectRes]; exact getN_setN_same _ _ _ h4
      · simp only [collectRes]; omega

theorem payIn_spec {s s' : St} {a n : Nat} (hab : s.ab.length = 5) (ha : a < 5)
    (h : payIn s a n = some s') :
    s' = { s with ab := setN s.ab a (getN s.ab a - n), bal := s.bal + n } ∧ n ≤ getN s.ab a ∧
    s'.bal + s'.ab.sum = s.bal + s.ab.sum ∧ s'.ab.length = 5 := by
  unfold payIn at h
  split at h
  · cases h
  · rename_i hc
    injection h with h; subst h
    have hwa : a < s.ab.length := by rw [hab]; omega
    have hs := setN_sum s.ab a (getN s.ab a - n) hwa
    have hle : n ≤ getN s.ab a := by omega
    refine ⟨rfl, hle, ?_, by simp [setN_length, hab]⟩
    simp only; omega

theorem payOut_spec {s s' : St} {a n : Nat} (hab : s.ab.length = 5) (ha : a < 5)
    (h : payOut s a n = some s') :
    s' = { s with ab := setN s.ab a (getN s.ab a + n), bal := s.bal - n } ∧ n ≤ s.bal ∧
    s'.bal + s'.ab.sum = s.bal + s.ab.sum ∧ s'.ab.length = 5 := by
  unfold payOut at h
  split at h
  · cases h
  · rename_i hc
    injection h with h; subst h
    have hwa : a < s.ab.length := by rw [hab]; omega
    have hs := setN_sum s.ab a (getN s.ab a + n) hwa
    have hle : n ≤ s.bal := by omega
    refine ⟨rfl, hle, ?_, by simp [setN_length, hab]⟩
    simp only; omega

/-! ### the borrower's callback: what every successful message preserves -/

theorem run_pay (s : St) (n : Nat) : run s (.pay n) = payIn s 3 n := by simp only [run]
theorem run_deposit (s : St) (n : Nat) : run s (.deposit n) = deposit s 3 n n := by simp only [run]
theorem run_withdraw (s : St) (lp : Nat) : run s (.withdraw lp) = withdraw s 3 lp := by simp only [run]
theorem run_collect (s : St) : run s .collect = collect s := by simp only [run]
theorem run_transferOut (s : St) (dst n : Nat) : run s (.transferOut dst n) = transferOut s dst n := by
  simp only [run]
theorem run_fail (s : St) : run s .fail = none := by simp only [run]
theorem run_loan (s : St) (n : Nat) (cb : List Act) : run s (.loan n cb) = loanFrom s n cb := rfl
theorem runs_nil (s : St) : runs s [] = some s := by simp only [runs]
theorem runs_cons_none {s : St} {a : Act} (as : List Act) (h : run s a = none) :
    runs s (a :: as) = none := by
  rw [runs, h]
theorem runs_cons_some {s s1 : St} {a : Act} (as : List Act) (h : run s a = some s1) :
    runs s (a :: as) = runs s1 as := by
  rw [runs, h]

/-- a flash loan requested while a loan is in flight is refused (the repaired guard) -/
theorem loanFrom_ctr (s : St) (n : Nat) (cb : List Act) (h : s.ctr ≠ 0) : loanFrom s n cb = none := by
  unfold loanFrom
  rw [run]
  simp [h]

/-- no deposit while a loan is in flight (`DepositDuringLoan`) -/
theorem deposit_ctr (s : St) (who amount sent : Nat) (h : s.ctr ≠ 0) : deposit s who amount sent = none := by
  unfold deposit
  have : depositOk s who amount sent = false := by simp [depositOk, h]
  simp [this]

/-- relation between the state when a callback message starts and the state it leaves -/
structure CbRel (s s' : St) : Prop where
  sup : s'.sup ≤ s.sup
  pend : s'.pend ≤ s.pend
  ctr : s'.ctr = s.ctr
  allTime : s'.allTime = s.allTime
  burned : s'.burned = s.burned
  assetSupply : s'.assetSupply = s.assetSupply
  fees : s'.fees = s.fees
  kind : s'.kind = s.kind
  lpVault : s'.lpVault = s.lpVault

theorem CbRel.refl (s : St) : CbRel s s := ⟨le_refl _, le_refl _, rfl, rfl, rfl, rfl, rfl, rfl, rfl⟩

theorem CbRel.trans {a b c : St} (h1 : CbRel a b) (h2 : CbRel b c) : CbRel a c :=
  ⟨le_trans h2.sup h1.sup, le_trans h2.pend h1.pend, h2.ctr.trans h1.ctr, h2.allTime.trans h1.allTime,
   h2.burned.trans h1.burned, h2.assetSupply.trans h1.assetSupply, h2.fees.trans h1.fees,
   h2.kind.trans h1.kind, h2.lpVault.trans h1.lpVault⟩

theorem transferOut_spec {s s' : St} {dst n : Nat} (hab : s.ab.length = 5)
    (h : transferOut s dst n = some s') :
    s'.ab.length = 5 ∧ s'.ab.sum = s.ab.sum ∧ s' = { s with ab := s'.ab } := by
  unfold transferOut at h
  split at h
  · cases h
  · rename_i hc
    injection h with h; subst h
    have hto : dst < 3 := by omega
    have h3 : 3 < s.ab.length := by rw [hab]; omega
    have hlen : (setN s.ab 3 (getN s.ab 3 - n)).length = 5 := by rw [setN_length]; exact hab
    have s1 := setN_sum s.ab 3 (getN s.ab 3 - n) h3
    have s2 := setN_sum (setN s.ab 3 (getN s.ab 3 - n)) dst
      (getN (setN s.ab 3 (getN s.ab 3 - n)) dst + n) (by rw [hlen]; omega)
    have hn : n ≤ getN s.ab 3 := by omega
    refine ⟨by simp [setN_length, hab], ?_, rfl⟩
    simp only; omega

theorem run_cb {s s' : St} {a : Act} (hI : CbInv s) (h : run s a = some s') : CbInv s' ∧ CbRel s s' := by
  cases a with
  | pay n =>
    rw [run_pay] at h
    obtain ⟨rfl, _, hsum, hlen⟩ := payIn_spec hI.abLen (by omega) h
    exact ⟨⟨hlen, hI.lbLen, by rw [hsum]; exact hI.assetSum, hI.lpSum, hI.ctrPos⟩,
      ⟨le_refl _, le_refl _, rfl, rfl, rfl, rfl, rfl, rfl, rfl⟩⟩
  | deposit n => rw [run_deposit, deposit_ctr _ _ _ _ hI.ctrPos] at h; cases h
  | withdraw lp =>
    rw [run_withdraw] at h
    obtain ⟨a1, a2, a3, a4, a5, a6, a7, a8, a9, a10, a11, a12, a13, a14, hlp, hsup, hpend⟩ :=
      withdraw_spec_gen hI.abLen hI.lbLen (by omega) h
    have h3 := getN_le_sum s.lb 3
    have hl := hI.lpSum
    refine ⟨⟨a1, a2, ?_, ?_, by rw [a9]; exact hI.ctrPos⟩,
      ⟨by omega, by omega, a9, a10, a11, a12, a13, a14, a8⟩⟩
    · rw [a3, a12]; exact hI.assetSum
    · omega
  | collect =>
    rw [run_collect] at h
    unfold collect at h
    split at h
    · injection h with h; subst h; exact ⟨hI, CbRel.refl _⟩
    · split at h
      · cases h
      · injection h with h; subst h
        have h4 : 4 < s.ab.length := by rw [hI.abLen]; omega
        have hs := setN_sum s.ab 4 (getN s.ab 4 + s.pend) h4
        have := hI.assetSum
        refine ⟨⟨by simp [collectRes, setN_length, hI.abLen], hI.lbLen, ?_, hI.lpSum, hI.ctrPos⟩,
          ⟨le_refl _, Nat.zero_le _, rfl, rfl, rfl, rfl, rfl, rfl, rfl⟩⟩
        simp only [collectRes]; omega
  | transferOut dst n =>
    rw [run_transferOut] at h
    obtain ⟨hlen, hsum, heq⟩ := transferOut_spec hI.abLen h
    rw [heq]
    exact ⟨⟨hlen, hI.lbLen, by simp only; rw [hsum]; exact hI.assetSum, hI.lpSum, hI.ctrPos⟩,
      ⟨le_refl _, le_refl _, rfl, rfl, rfl, rfl, rfl, rfl, rfl⟩⟩
  | fail => rw [run_fail] at h; cases h
  | loan n cb => rw [run_loan, loanFrom_ctr _ _ _ hI.ctrPos] at h; cases h

theorem runs_cb {s s' : St} {as : List Act} (hI : CbInv s) (h : runs s as = some s') :
    CbInv s' ∧ CbRel s s' := by
  induction as generalizing s with
  | nil => rw [runs_nil] at h; injection h with h; subst h; exact ⟨hI, CbRel.refl _⟩
  | cons a as ih =>
    cases h1 : run s a with
    | none => rw [runs_cons_none as h1] at h; cases h
    | some s1 =>
      rw [runs_cons_some as h1] at h
      obtain ⟨hI1, r1⟩ := run_cb hI h1
      obtain ⟨hI2, r2⟩ := ih hI1 h
      exact ⟨hI2, r1.trans r2⟩

/-- a deposit anywhere in a callback makes the whole callback fail -/
theorem runs_deposit_fails {s : St} {as : List Act} (hI : CbInv s) (n : Nat) (hmem : Act.deposit n ∈ as) :
    runs s as = none := by
  induction as generalizing s with
  | nil => cases hmem
  | cons a as ih =>
    cases h1 : run s a with
    | none => exact runs_cons_none as h1
    | some s1 =>
      rw [runs_cons_some as h1]
      rcases List.mem_cons.mp hmem with rfl | hm
      · rw [run_deposit, deposit_ctr _ _ _ _ hI.ctrPos] at h1; cases h1
      · exact ih (run_cb hI h1).1 hm

/-- the same for a nested loan -/
theorem runs_loan_fails {s : St} {as : List Act} (hI : CbInv s) (n : Nat) (cb : List Act)
    (hmem : Act.loan n cb ∈ as) : runs s as = none := by
  induction as generalizing s with
  | nil => cases hmem
  | cons a as ih =>
    cases h1 : run s a with
    | none => exact runs_cons_none as h1
    | some s1 =>
      rw [runs_cons_some as h1]
      rcases List.mem_cons.mp hmem with rfl | hm
      · rw [run_loan, loanFrom_ctr _ _ _ hI.ctrPos] at h1; cases h1
      · exact ih (run_cb hI h1).1 hm

theorem afterTrade_ok_of_some {s s' : St} {old amount : Nat} (h : afterTrade s old amount = some s') :
    afterTradeOk s old amount = true ∧ s' = afterTradeRes s amount := by
  unfold afterTrade at h
  split at h
  · rename_i hok; injection h with h; exact ⟨hok, h.symm⟩
  · cases h

/-- everything a successful flash loan guarantees (top level: the counter is zero before) -/
structure LoanSpec (s s' : St) (amount : Nat) : Prop where
  inv : Inv s'
  balGe : s.bal + fee s.fees.prot amount + fee s.fees.flash amount ≤ s'.bal
  pendLe : s'.pend ≤ s.pend + fee s.fees.prot amount
  allTime : s'.allTime = s.allTime + fee s.fees.prot amount
  burned : s'.burned = s.burned + fee s.fees.burn amount
  assetSupply : s'.assetSupply + fee s.fees.burn amount = s.assetSupply
  supLe : s'.sup ≤ s.sup
  ctr : s'.ctr = 0
  fees : s'.fees = s.fees
  lpVault : s'.lpVault = s.lpVault

theorem loan_spec {s s' : St} {amount : Nat} {cb : List Act} (hI : Inv s)
    (h : loanFrom s amount cb = some s') : LoanSpec s s' amount := by
  unfold loanFrom at h
  rw [run] at h
  split at h
  · cases h
  split at h
  · cases h
  split at h
  · cases h
  split at h
  · cases h
  rename_i s1 hp
  split at h
  · cases h
  rename_i s2 hr
  -- the loan leaves
  have hctr0 := hI.ctr0
  obtain ⟨hs1, hle, hsum1, hlen1⟩ := payOut_spec (s := { s with ctr := s.ctr + 1 }) (a := 3) (n := amount)
    hI.abLen (by omega) hp
  have hI1 : CbInv s1 := by
    refine ⟨hlen1, ?_, ?_, ?_, ?_⟩
    · rw [hs1]; exact hI.lbLen
    · rw [hsum1, hs1]; exact hI.assetSum
    · rw [hs1]; exact hI.lpSum
    · rw [hs1]; simp
  -- the callback runs
  obtain ⟨hI2, r⟩ := runs_cb hI1 hr
  have e_sup : s1.sup = s.sup := by rw [hs1]
  have e_pend : s1.pend = s.pend := by rw [hs1]
  have e_ctr : s1.ctr = s.ctr + 1 := by rw [hs1]
  have e_all : s1.allTime = s.allTime := by rw [hs1]
  have e_bur : s1.burned = s.burned := by rw [hs1]
  have e_as : s1.assetSupply = s.assetSupply := by rw [hs1]
  have e_fees : s1.fees = s.fees := by rw [hs1]
  have e_lpv : s1.lpVault = s.lpVault := by rw [hs1]
  -- after_trade
  obtain ⟨hok, rfl⟩ := afterTrade_ok_of_some h
  simp only [afterTradeOk, Bool.and_eq_true, decide_eq_true_eq] at hok
  obtain ⟨⟨⟨⟨_, hneed⟩, _⟩, _⟩, _⟩ := hok
  have hf : s2.fees = s.fees := r.fees.trans e_fees
  rw [hf] at hneed
  have hpend2 : s2.pend ≤ s.pend := by have := r.pend; omega
  have hIp := hI.pendLe
  have hsum2 := hI2.assetSum
  have hlp2 := hI2.lpSum
  have hsup2 : s2.sup ≤ s.sup := by have := r.sup; omega
  have hbf : fee s.fees.burn amount ≤ s2.bal := by omega
  have hlv : s2.lpVault = s.lpVault := r.lpVault.trans e_lpv
  refine ⟨⟨?_, ?_, ?_, ?_, ?_, ?_, ?_⟩, ?_, ?_, ?_, ?_, ?_, ?_, ?_, ?_, ?_⟩
  all_goals simp only [afterTradeRes, hf]
  · exact hI2.abLen
  · exact hI2.lbLen
  · omega
  · have := r.assetSupply; omega
  · exact hlp2
  · -- the locked minimum: supply can only have shrunk by user withdrawals, the vault's LP is untouched
    rw [hlv]
    rcases hI.locked with ⟨h0, h1⟩ | h1
    · left; exact ⟨by omega, h1⟩
    · right; exact h1
  · have := r.ctr; omega
  · omega
  · omega
  · have := r.allTime; omega
  · have := r.burned; omega
  · have := r.assetSupply; omega
  · exact hsup2
  · have := r.ctr; omega
  · exact hlv

end WW.Vault
