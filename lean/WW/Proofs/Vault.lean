/- Helper lemmas for the vault model: list bookkeeping, per-operation characterisations,
   the callback-tree induction. Property theorems are in WW/Props/C05.lean, C06.lean. -/
import WW.Model.Vault
import WW.Proofs.Basic
import Mathlib.Tactic.SplitIfs
namespace WW.Vault
open WW

/-! ### lists of balances -/

theorem setN_length (l : List Nat) (i v : Nat) : (setN l i v).length = l.length := by
  induction l generalizing i with
  | nil => simp [setN]
  | cons x xs ih =>
    cases i with
    | zero => simp [setN]
    | succ i => simp [setN, ih]

theorem setN_sum (l : List Nat) (i v : Nat) (h : i < l.length) :
    (setN l i v).sum + getN l i = l.sum + v := by
  induction l generalizing i with
  | nil => simp at h
  | cons x xs ih =>
    cases i with
    | zero => simp [setN, getN]; omega
    | succ i =>
      have := ih i (by simpa using h)
      simp only [setN, List.sum_cons, getN, List.getD_cons_succ] at *
      omega

theorem getN_le_sum (l : List Nat) (i : Nat) : getN l i ≤ l.sum := by
  induction l generalizing i with
  | nil => simp [getN]
  | cons x xs ih =>
    cases i with
    | zero => simp [getN]
    | succ i =>
      have := ih i
      simp only [getN, List.getD_cons_succ, List.sum_cons] at *
      omega

theorem getN_setN_same (l : List Nat) (i v : Nat) (h : i < l.length) : getN (setN l i v) i = v := by
  induction l generalizing i with
  | nil => simp at h
  | cons x xs ih =>
    cases i with
    | zero => simp [setN, getN]
    | succ i =>
      have := ih i (by simpa using h)
      simpa [setN, getN] using this

theorem getN_setN_ne (l : List Nat) (i j v : Nat) (h : i ≠ j) : getN (setN l i v) j = getN l j := by
  induction l generalizing i j with
  | nil => simp [setN]
  | cons x xs ih =>
    cases i with
    | zero =>
      cases j with
      | zero => exact absurd rfl h
      | succ j => simp [setN, getN]
    | succ i =>
      cases j with
      | zero => simp [setN, getN]
      | succ j =>
        have := ih i j (by omega)
        simpa [setN, getN] using this

/-! ### the invariant -/

/-- what every reachable top-level state satisfies -/
structure Inv (s : St) : Prop where
  abLen : s.ab.length = 6
  lbLen : s.lb.length = 4
  pendLe : s.pend ≤ s.bal
  assetSum : s.bal + s.ab.sum = s.assetSupply
  lpSum : s.lpVault + s.lb.sum = s.sup
  locked : (s.sup = 0 ∧ s.lpVault = 0) ∨ (s.lpVault = Gen.MINIMUM_LIQUIDITY_AMOUNT)
  ctr0 : s.ctr = 0

/-- the weaker invariant that holds inside a borrower's callback (the counter is not zero) -/
structure CbInv (s : St) : Prop where
  abLen : s.ab.length = 6
  lbLen : s.lb.length = 4
  assetSum : s.bal + s.ab.sum = s.assetSupply
  lpSum : s.lpVault + s.lb.sum = s.sup
  ctrPos : s.ctr ≠ 0

/-- assets backing the LP supply -/
def backing (s : St) : Nat := s.bal - s.pend

/-! ### arithmetic cores -/

theorem deposit_price (T S a : Nat) : T * (S + a * S / T) ≤ (T + a) * S := by
  have h := Nat.div_mul_le_self (a * S) T
  nlinarith [h]

theorem withdraw_out_le (T S lp : Nat) (hS : 0 < S) : (T * (lp * E18 / S) / E18) * S ≤ T * lp := by
  have h1 : lp * E18 / S * S ≤ lp * E18 := Nat.div_mul_le_self _ _
  have h2 : T * (lp * E18 / S) / E18 * E18 ≤ T * (lp * E18 / S) := Nat.div_mul_le_self _ _
  have : (T * (lp * E18 / S) / E18) * S * E18 ≤ T * lp * E18 := by nlinarith [h1, h2]
  exact Nat.le_of_mul_le_mul_right this E18_pos

theorem withdraw_price (T S lp out : Nat) (hS : 0 < S) (hlp : lp ≤ S) (h : out * S ≤ T * lp) :
    out ≤ T ∧ T * (S - lp) ≤ (T - out) * S := by
  have hout : out ≤ T := by
    have : out * S ≤ T * S := le_trans h (Nat.mul_le_mul_left T hlp)
    exact Nat.le_of_mul_le_mul_right this hS
  refine ⟨hout, ?_⟩
  obtain ⟨k, hk⟩ : ∃ k, S = lp + k := ⟨S - lp, by omega⟩
  obtain ⟨m, hm⟩ : ∃ m, T = out + m := ⟨T - out, by omega⟩
  have e1 : S - lp = k := by omega
  have e2 : T - out = m := by omega
  rw [e1, e2]; subst hk; subst hm
  nlinarith

theorem min_liq_pos : 0 < Gen.MINIMUM_LIQUIDITY_AMOUNT := by decide

theorem Inv.sup_pos_locked {s : St} (hI : Inv s) (h : s.sup ≠ 0) :
    s.lpVault = Gen.MINIMUM_LIQUIDITY_AMOUNT := by
  rcases hI.locked with ⟨h0, _⟩ | h1
  · exact absurd h0 h
  · exact h1

theorem Inv.sup_zero_lpVault {s : St} (hI : Inv s) (h : s.sup = 0) : s.lpVault = 0 := by
  have := hI.lpSum; omega

/-! ### per-operation specifications -/

theorem deposit_ok_of_some {s s' : St} {who amount sent : Nat}
    (h : deposit s who amount sent = some s') :
    depositOk s who amount sent = true ∧ s' = depositRes s who amount := by
  unfold deposit at h
  split at h
  · rename_i hok; injection h with h; exact ⟨hok, h.symm⟩
  · cases h

theorem deposit_spec {s s' : St} {who amount sent : Nat} (hI : Inv s) (hw : who < 4)
    (h : deposit s who amount sent = some s') :
    Inv s' ∧ s'.bal = s.bal + amount ∧ s'.pend = s.pend ∧
    (0 < s.sup → backing s * s'.sup ≤ backing s' * s.sup) := by
  obtain ⟨hok, rfl⟩ := deposit_ok_of_some h
  simp only [depositOk, Bool.and_eq_true, decide_eq_true_eq] at hok
  obtain ⟨⟨⟨⟨hfund, hdep⟩, hctr⟩, hsent⟩, hbr⟩ := hok
  have hwa : who < s.ab.length := by rw [hI.abLen]; omega
  have hwl : who < s.lb.length := by rw [hI.lbLen]; omega
  have hab := setN_sum s.ab who (getN s.ab who - amount) hwa
  have hlb := setN_sum s.lb who (getN s.lb who + depositMint s amount) hwl
  have hI1 := hI.assetSum
  have hI2 := hI.lpSum
  have hI3 := hI.pendLe
  refine ⟨⟨?_, ?_, ?_, ?_, ?_, ?_, ?_⟩, rfl, rfl, ?_⟩
  · simp [depositRes, setN_length, hI.abLen]
  · simp [depositRes, setN_length, hI.lbLen]
  · simp only [depositRes]; omega
  · simp only [depositRes]; omega
  · simp only [depositRes]; omega
  · simp only [depositRes]
    by_cases h0 : s.sup = 0
    · right; simp [h0, hI.sup_zero_lpVault h0]
    · right; simp [h0, hI.sup_pos_locked h0]
  · exact hI.ctr0
  · intro hpos
    have hne : s.sup ≠ 0 := by omega
    simp only [backing, depositRes, depositMint, if_neg hne, Nat.add_zero]
    have e : s.bal + amount - s.pend = (s.bal - s.pend) + amount := by omega
    rw [e]
    exact deposit_price _ _ _

theorem withdraw_ok_of_some {s s' : St} {who lp : Nat} (h : withdraw s who lp = some s') :
    withdrawOk s who lp = true ∧ s' = withdrawRes s who lp := by
  unfold withdraw at h
  split at h
  · rename_i hok; injection h with h; exact ⟨hok, h.symm⟩
  · cases h

theorem withdraw_jb {s s' : St} {who lp : Nat} (h : withdraw s who lp = some s') : s'.jb = s.jb := by
  have e := (withdraw_ok_of_some h).2
  subst e
  unfold withdrawRes
  generalize shareOf s lp = sh
  cases s
  rfl

/-- the payout of a withdrawal is at most pro rata: `out · supply ≤ backing · lp` -/
theorem shareOf_le (s : St) (lp : Nat) (hS : s.sup ≠ 0) : shareOf s lp * s.sup ≤ backing s * lp :=
  withdraw_out_le _ _ _ (by omega)

theorem withdraw_spec_gen {s s' : St} {who lp : Nat} (hab : s.ab.length = 6) (hlb : s.lb.length = 4)
    (hw : who < 4) (h : withdraw s who lp = some s') :
    s'.ab.length = 6 ∧ s'.lb.length = 4 ∧
    s'.bal + s'.ab.sum = s.bal + s.ab.sum ∧
    s'.lpVault + s'.lb.sum + lp = s.lpVault + s.lb.sum ∧ s'.sup = s.sup - lp ∧
    s'.bal + shareOf s lp = s.bal ∧ s'.pend = s.pend ∧ s'.lpVault = s.lpVault ∧ s'.ctr = s.ctr ∧
    s'.allTime = s.allTime ∧ s'.burned = s.burned ∧ s'.assetSupply = s.assetSupply ∧ s'.fees = s.fees ∧
    s'.kind = s.kind ∧ lp ≤ getN s.lb who ∧ s.sup ≠ 0 ∧ s.pend ≤ s.bal ∧ s'.sent = s.sent := by
  obtain ⟨hok, rfl⟩ := withdraw_ok_of_some h
  simp only [withdrawOk, Bool.and_eq_true, decide_eq_true_eq, Bool.not_eq_true', Bool.and_eq_false_iff,
    decide_eq_false_iff_not] at hok
  obtain ⟨⟨⟨⟨⟨hlp, _⟩, hpend⟩, hsup⟩, _⟩, hout⟩ := hok
  have hwa : who < s.ab.length := by rw [hab]; omega
  have hwl : who < s.lb.length := by rw [hlb]; omega
  have h3 := getN_le_sum s.lb who
  unfold withdrawRes
  generalize shareOf s lp = sh at *
  have h1 := setN_sum s.ab who (getN s.ab who + sh) hwa
  have h2 := setN_sum s.lb who (getN s.lb who - lp) hwl
  refine ⟨by simp [setN_length, hab], by simp [setN_length, hlb], ?_, ?_, ?_, ?_,
    ?_, ?_, ?_, ?_, ?_, ?_, ?_, ?_, hlp, hsup, hpend, ?_⟩
  all_goals try (simp only; done)
  all_goals (simp only; omega)

theorem withdraw_spec {s s' : St} {who lp : Nat} (hI : Inv s) (hw : who < 4)
    (h : withdraw s who lp = some s') :
    Inv s' ∧ backing s * s'.sup ≤ backing s' * s.sup ∧ shareOf s lp * s.sup ≤ backing s * lp := by
  obtain ⟨a1, a2, a3, a4, a5, a6, a7, a8, a9, _, _, a12, _, _, hlp, hsup, hpend⟩ :=
    withdraw_spec_gen hI.abLen hI.lbLen hw h
  have hshare := shareOf_le s lp hsup
  have hI2 := hI.lpSum
  have h3 := getN_le_sum s.lb who
  have hlps : lp ≤ s.sup := by omega
  obtain ⟨hoT, hprice⟩ := withdraw_price (backing s) s.sup lp (shareOf s lp) (by omega) hlps hshare
  have hb : backing s' = backing s - shareOf s lp := by unfold backing at *; omega
  refine ⟨⟨a1, a2, ?_, ?_, ?_, ?_, ?_⟩, ?_, hshare⟩
  · unfold backing at hoT; omega
  · have := hI.assetSum; omega
  · omega
  · right; rw [a8]; exact hI.sup_pos_locked hsup
  · rw [a9]; exact hI.ctr0
  · rw [hb, a5]; exact hprice

theorem collect_spec {s s' : St} (hI : Inv s) (h : collect s = some s') :
    Inv s' ∧ backing s' = backing s ∧ s'.sup = s.sup ∧
    getN s'.ab 4 = getN s.ab 4 + s.pend ∧ s'.pend = 0 ∧ s'.bal + s.pend = s.bal := by
  unfold collect at h
  split at h
  · rename_i h0; injection h with h; subst h
    exact ⟨hI, rfl, rfl, by omega, h0, by omega⟩
  · split at h
    · cases h
    · injection h with h; subst h
      have h4 : 4 < s.ab.length := by rw [hI.abLen]; omega
      have hs := setN_sum s.ab 4 (getN s.ab 4 + s.pend) h4
      have := hI.assetSum
      have := hI.pendLe
      refine ⟨⟨?_, hI.lbLen, ?_, ?_, hI.lpSum, hI.locked, hI.ctr0⟩, ?_, rfl, ?_, rfl, ?_⟩
      · simp [collectRes, setN_length, hI.abLen]
      · simp only [collectRes]; omega
      · simp only [collectRes]; omega
      · simp only [backing, collectRes]; omega
      · simp only [collectRes]; exact getN_setN_same _ _ _ h4
      · simp only [collectRes]; omega

theorem payIn_spec {s s' : St} {a n : Nat} (hab : s.ab.length = 6) (ha : a < 6)
    (h : payIn s a n = some s') :
    s' = { s with ab := setN s.ab a (getN s.ab a - n), bal := s.bal + n } ∧ n ≤ getN s.ab a ∧
    s'.bal + s'.ab.sum = s.bal + s.ab.sum ∧ s'.ab.length = 6 := by
  unfold payIn at h
  split at h
  · cases h
  · rename_i hc
    injection h with h; subst h
    have hwa : a < s.ab.length := by rw [hab]; omega
    have hs := setN_sum s.ab a (getN s.ab a - n) hwa
    have hle : n ≤ getN s.ab a := by omega
    refine ⟨rfl, hle, ?_, by simp [setN_length, hab]⟩
    simp only; omega

theorem payOut_spec {s s' : St} {a n : Nat} (hab : s.ab.length = 6) (ha : a < 6)
    (h : payOut s a n = some s') :
    s' = { s with ab := setN s.ab a (getN s.ab a + n), bal := s.bal - n } ∧ n ≤ s.bal ∧
    s'.bal + s'.ab.sum = s.bal + s.ab.sum ∧ s'.ab.length = 6 := by
  unfold payOut at h
  split at h
  · cases h
  · rename_i hc
    injection h with h; subst h
    have hwa : a < s.ab.length := by rw [hab]; omega
    have hs := setN_sum s.ab a (getN s.ab a + n) hwa
    have hle : n ≤ s.bal := by omega
    refine ⟨rfl, hle, ?_, by simp [setN_length, hab]⟩
    simp only; omega

/-! ### the borrower's callback: what every successful message preserves -/

theorem run_pay (s : St) (n : Nat) : run s (.pay n) = payIn s 3 n := by simp only [run]
theorem run_deposit (s : St) (n : Nat) : run s (.deposit n) = deposit s 3 n n := by simp only [run]
theorem run_withdraw (s : St) (lp : Nat) : run s (.withdraw lp) = withdraw s 3 lp := by simp only [run]
theorem run_collect (s : St) : run s .collect = collect s := by simp only [run]
theorem run_transferOut (s : St) (dst n : Nat) : run s (.transferOut dst n) = transferOut s dst n := by
  simp only [run]
theorem run_fail (s : St) : run s .fail = none := by simp only [run]
theorem run_loan (s : St) (n : Nat) (cb : List Act) : run s (.loan n cb) = loanFrom s n cb := rfl
theorem runs_nil (s : St) : runs s [] = some s := by simp only [runs]
theorem runs_cons_none {s : St} {a : Act} (as : List Act) (h : run s a = none) :
    runs s (a :: as) = none := by
  rw [runs, h]
theorem runs_cons_some {s s1 : St} {a : Act} (as : List Act) (h : run s a = some s1) :
    runs s (a :: as) = runs s1 as := by
  rw [runs, h]

/-- a flash loan requested while a loan is in flight is refused (the repaired guard) -/
theorem loanFrom_ctr (s : St) (n : Nat) (cb : List Act) (h : s.ctr ≠ 0) : loanFrom s n cb = none := by
  unfold loanFrom
  rw [run]
  simp [h]

/-- no deposit while a loan is in flight (`DepositDuringLoan`) -/
theorem deposit_ctr (s : St) (who amount sent : Nat) (h : s.ctr ≠ 0) : deposit s who amount sent = none := by
  unfold deposit
  have : depositOk s who amount sent = false := by simp [depositOk, h]
  simp [this]

/-- relation between the state when a callback message starts and the state it leaves -/
structure CbRel (s s' : St) : Prop where
  sup : s'.sup ≤ s.sup
  pend : s'.pend ≤ s.pend
  ctr : s'.ctr = s.ctr
  allTime : s'.allTime = s.allTime
  burned : s'.burned = s.burned
  assetSupply : s'.assetSupply = s.assetSupply
  fees : s'.fees = s.fees
  kind : s'.kind = s.kind
  lpVault : s'.lpVault = s.lpVault
  ledgerSum : s'.pend + s'.sent = s.pend + s.sent
  jb : s'.jb = s.jb

theorem CbRel.refl (s : St) : CbRel s s := ⟨le_refl _, le_refl _, rfl, rfl, rfl, rfl, rfl, rfl, rfl, rfl, rfl⟩

theorem CbRel.trans {a b c : St} (h1 : CbRel a b) (h2 : CbRel b c) : CbRel a c :=
  ⟨le_trans h2.sup h1.sup, le_trans h2.pend h1.pend, h2.ctr.trans h1.ctr, h2.allTime.trans h1.allTime,
   h2.burned.trans h1.burned, h2.assetSupply.trans h1.assetSupply, h2.fees.trans h1.fees,
   h2.kind.trans h1.kind, h2.lpVault.trans h1.lpVault, h2.ledgerSum.trans h1.ledgerSum, h2.jb.trans h1.jb⟩

theorem transferOut_spec {s s' : St} {dst n : Nat} (hab : s.ab.length = 6)
    (h : transferOut s dst n = some s') :
    s'.ab.length = 6 ∧ s'.ab.sum = s.ab.sum ∧ s' = { s with ab := s'.ab } := by
  unfold transferOut at h
  split at h
  · cases h
  · rename_i hc
    injection h with h; subst h
    have hto : dst < 3 := by omega
    have h3 : 3 < s.ab.length := by rw [hab]; omega
    have hlen : (setN s.ab 3 (getN s.ab 3 - n)).length = 6 := by rw [setN_length]; exact hab
    have s1 := setN_sum s.ab 3 (getN s.ab 3 - n) h3
    have s2 := setN_sum (setN s.ab 3 (getN s.ab 3 - n)) dst
      (getN (setN s.ab 3 (getN s.ab 3 - n)) dst + n) (by rw [hlen]; omega)
    have hn : n ≤ getN s.ab 3 := by omega
    refine ⟨by simp [setN_length, hab], ?_, rfl⟩
    simp only; omega

theorem run_cb {s s' : St} {a : Act} (hI : CbInv s) (h : run s a = some s') : CbInv s' ∧ CbRel s s' := by
  cases a with
  | pay n =>
    rw [run_pay] at h
    obtain ⟨rfl, _, hsum, hlen⟩ := payIn_spec hI.abLen (by omega) h
    exact ⟨⟨hlen, hI.lbLen, by rw [hsum]; exact hI.assetSum, hI.lpSum, hI.ctrPos⟩,
      ⟨le_refl _, le_refl _, rfl, rfl, rfl, rfl, rfl, rfl, rfl, rfl, rfl⟩⟩
  | deposit n => rw [run_deposit, deposit_ctr _ _ _ _ hI.ctrPos] at h; cases h
  | withdraw lp =>
    rw [run_withdraw] at h
    obtain ⟨a1, a2, a3, a4, a5, a6, a7, a8, a9, a10, a11, a12, a13, a14, hlp, hsup, hpend, hsent⟩ :=
      withdraw_spec_gen hI.abLen hI.lbLen (by omega) h
    have h3 := getN_le_sum s.lb 3
    have hl := hI.lpSum
    refine ⟨⟨a1, a2, ?_, ?_, by rw [a9]; exact hI.ctrPos⟩,
      ⟨by omega, by omega, a9, a10, a11, a12, a13, a14, a8, by rw [a7, hsent],
        withdraw_jb h⟩⟩
    · rw [a3, a12]; exact hI.assetSum
    · omega
  | collect =>
    rw [run_collect] at h
    unfold collect at h
    split at h
    · injection h with h; subst h; exact ⟨hI, CbRel.refl _⟩
    · split at h
      · cases h
      · injection h with h; subst h
        have h4 : 4 < s.ab.length := by rw [hI.abLen]; omega
        have hs := setN_sum s.ab 4 (getN s.ab 4 + s.pend) h4
        have := hI.assetSum
        refine ⟨⟨by simp [collectRes, setN_length, hI.abLen], hI.lbLen, ?_, hI.lpSum, hI.ctrPos⟩,
          ⟨le_refl _, Nat.zero_le _, rfl, rfl, rfl, rfl, rfl, rfl, rfl, by simp only [collectRes]; omega, rfl⟩⟩
        simp only [collectRes]; omega
  | transferOut dst n =>
    rw [run_transferOut] at h
    obtain ⟨hlen, hsum, heq⟩ := transferOut_spec hI.abLen h
    rw [heq]
    exact ⟨⟨hlen, hI.lbLen, by simp only; rw [hsum]; exact hI.assetSum, hI.lpSum, hI.ctrPos⟩,
      ⟨le_refl _, le_refl _, rfl, rfl, rfl, rfl, rfl, rfl, rfl, rfl, rfl⟩⟩
  | fail => rw [run_fail] at h; cases h
  | loan n cb => rw [run_loan, loanFrom_ctr _ _ _ hI.ctrPos] at h; cases h

theorem runs_cb {s s' : St} {as : List Act} (hI : CbInv s) (h : runs s as = some s') :
    CbInv s' ∧ CbRel s s' := by
  induction as generalizing s with
  | nil => rw [runs_nil] at h; injection h with h; subst h; exact ⟨hI, CbRel.refl _⟩
  | cons a as ih =>
    cases h1 : run s a with
    | none => rw [runs_cons_none as h1] at h; cases h
    | some s1 =>
      rw [runs_cons_some as h1] at h
      obtain ⟨hI1, r1⟩ := run_cb hI h1
      obtain ⟨hI2, r2⟩ := ih hI1 h
      exact ⟨hI2, r1.trans r2⟩

/-- a deposit anywhere in a callback makes the whole callback fail -/
theorem runs_deposit_fails {s : St} {as : List Act} (hI : CbInv s) (n : Nat) (hmem : Act.deposit n ∈ as) :
    runs s as = none := by
  induction as generalizing s with
  | nil => cases hmem
  | cons a as ih =>
    cases h1 : run s a with
    | none => exact runs_cons_none as h1
    | some s1 =>
      rw [runs_cons_some as h1]
      rcases List.mem_cons.mp hmem with rfl | hm
      · rw [run_deposit, deposit_ctr _ _ _ _ hI.ctrPos] at h1; cases h1
      · exact ih (run_cb hI h1).1 hm

/-- the same for a nested loan -/
theorem runs_loan_fails {s : St} {as : List Act} (hI : CbInv s) (n : Nat) (cb : List Act)
    (hmem : Act.loan n cb ∈ as) : runs s as = none := by
  induction as generalizing s with
  | nil => cases hmem
  | cons a as ih =>
    cases h1 : run s a with
    | none => exact runs_cons_none as h1
    | some s1 =>
      rw [runs_cons_some as h1]
      rcases List.mem_cons.mp hmem with rfl | hm
      · rw [run_loan, loanFrom_ctr _ _ _ hI.ctrPos] at h1; cases h1
      · exact ih (run_cb hI h1).1 hm

theorem afterTrade_ok_of_some {s s' : St} {old amount : Nat} (h : afterTrade s old amount = some s') :
    afterTradeOk s old amount = true ∧ s' = afterTradeRes s amount := by
  unfold afterTrade at h
  split at h
  · rename_i hok; injection h with h; exact ⟨hok, h.symm⟩
  · cases h

/-- everything a successful flash loan guarantees (top level: the counter is zero before) -/
structure LoanSpec (s s' : St) (amount : Nat) : Prop where
  inv : Inv s'
  balGe : s.bal + fee s.fees.prot amount + fee s.fees.flash amount ≤ s'.bal
  pendLe : s'.pend ≤ s.pend + fee s.fees.prot amount
  allTime : s'.allTime = s.allTime + fee s.fees.prot amount
  burned : s'.burned = s.burned + fee s.fees.burn amount
  assetSupply : s'.assetSupply + fee s.fees.burn amount = s.assetSupply
  supLe : s'.sup ≤ s.sup
  ctr : s'.ctr = 0
  fees : s'.fees = s.fees
  lpVault : s'.lpVault = s.lpVault
  ledger : s'.pend + s'.sent = s.pend + s.sent + fee s.fees.prot amount
  jb : s'.jb = s.jb

/-- the state in which a borrower's callback starts (loan paid out to account `a`, counter raised)
    satisfies the callback invariant -/
theorem cb_start {s s1 : St} {amount a : Nat} (hI : Inv s) (ha : a < 6)
    (hp : payOut { s with ctr := s.ctr + 1 } a amount = some s1) : CbInv s1 := by
  obtain ⟨hs1, _, hsum1, hlen1⟩ := payOut_spec (s := { s with ctr := s.ctr + 1 }) (a := a) (n := amount)
    hI.abLen ha hp
  refine ⟨hlen1, ?_, ?_, ?_, ?_⟩
  · rw [hs1]; exact hI.lbLen
  · rw [hsum1, hs1]; exact hI.assetSum
  · rw [hs1]; exact hI.lpSum
  · rw [hs1]; simp

/-- the common tail of every flash loan: the loan left for account `a`, the borrower's messages took
    the callback-start state `s1` to `s2` preserving `CbInv`/`CbRel`, and `after_trade` accepted -/
theorem loan_tail {s s1 s2 s' : St} {amount a : Nat} (hI : Inv s) (ha : a < 6)
    (hp : payOut { s with ctr := s.ctr + 1 } a amount = some s1)
    (hI2 : CbInv s2) (r : CbRel s1 s2) (h : afterTrade s2 s.bal amount = some s') :
    LoanSpec s s' amount := by
  have hctr0 := hI.ctr0
  obtain ⟨hs1, hle, hsum1, hlen1⟩ := payOut_spec (s := { s with ctr := s.ctr + 1 }) (a := a) (n := amount)
    hI.abLen ha hp
  have e_sup : s1.sup = s.sup := by rw [hs1]
  have e_pend : s1.pend = s.pend := by rw [hs1]
  have e_ctr : s1.ctr = s.ctr + 1 := by rw [hs1]
  have e_all : s1.allTime = s.allTime := by rw [hs1]
  have e_bur : s1.burned = s.burned := by rw [hs1]
  have e_as : s1.assetSupply = s.assetSupply := by rw [hs1]
  have e_fees : s1.fees = s.fees := by rw [hs1]
  have e_lpv : s1.lpVault = s.lpVault := by rw [hs1]
  have e_sent : s1.sent = s.sent := by rw [hs1]
  have e_jb : s1.jb = s.jb := by rw [hs1]
  -- after_trade
  obtain ⟨hok, rfl⟩ := afterTrade_ok_of_some h
  simp only [afterTradeOk, Bool.and_eq_true, decide_eq_true_eq] at hok
  obtain ⟨⟨⟨⟨_, hneed⟩, _⟩, _⟩, _⟩ := hok
  have hf : s2.fees = s.fees := r.fees.trans e_fees
  rw [hf] at hneed
  have hpend2 : s2.pend ≤ s.pend := by have := r.pend; omega
  have hIp := hI.pendLe
  have hsum2 := hI2.assetSum
  have hlp2 := hI2.lpSum
  have hsup2 : s2.sup ≤ s.sup := by have := r.sup; omega
  have hbf : fee s.fees.burn amount ≤ s2.bal := by omega
  have hlv : s2.lpVault = s.lpVault := r.lpVault.trans e_lpv
  refine ⟨⟨?_, ?_, ?_, ?_, ?_, ?_, ?_⟩, ?_, ?_, ?_, ?_, ?_, ?_, ?_, ?_, ?_, ?_, ?_⟩
  all_goals simp only [afterTradeRes, hf]
  · exact hI2.abLen
  · exact hI2.lbLen
  · omega
  · have := r.assetSupply; omega
  · exact hlp2
  · -- the locked minimum: supply can only have shrunk by user withdrawals, the vault's LP is untouched
    rw [hlv]
    rcases hI.locked with ⟨h0, h1⟩ | h1
    · left; exact ⟨by omega, h1⟩
    · right; exact h1
  · have := r.ctr; omega
  · omega
  · omega
  · have := r.allTime; omega
  · have := r.burned; omega
  · have := r.assetSupply; omega
  · exact hsup2
  · have := r.ctr; omega
  · exact hlv
  · have := r.ledgerSum; omega
  · exact r.jb.trans e_jb

theorem loan_spec {s s' : St} {amount : Nat} {cb : List Act} (hI : Inv s)
    (h : loanFrom s amount cb = some s') : LoanSpec s s' amount := by
  unfold loanFrom at h
  rw [run] at h
  split at h
  · cases h
  split at h
  · cases h
  split at h
  · cases h
  split at h
  · cases h
  rename_i s1 hp
  split at h
  · cases h
  rename_i s2 hr
  obtain ⟨hI2, r⟩ := runs_cb (cb_start hI (by omega) hp) hr
  exact loan_tail hI (by omega) hp hI2 r h

/-! ### the vault router -/

theorem move_spec {s s' : St} {src dst n : Nat} (hab : s.ab.length = 6) (hs : src < 6) (hd : dst < 6)
    (h : move s src dst n = some s') :
    s'.ab.length = 6 ∧ s'.ab.sum = s.ab.sum ∧ s' = { s with ab := s'.ab } ∧ n ≤ getN s.ab src ∧
    s'.ab = setN (setN s.ab src (getN s.ab src - n)) dst
      (getN (setN s.ab src (getN s.ab src - n)) dst + n) := by
  unfold move at h
  split at h
  · cases h
  · rename_i hc
    injection h with h; subst h
    have h3 : src < s.ab.length := by rw [hab]; omega
    have hlen : (setN s.ab src (getN s.ab src - n)).length = 6 := by rw [setN_length]; exact hab
    have s1 := setN_sum s.ab src (getN s.ab src - n) h3
    have s2 := setN_sum (setN s.ab src (getN s.ab src - n)) dst
      (getN (setN s.ab src (getN s.ab src - n)) dst + n) (by rw [hlen]; omega)
    have hn : n ≤ getN s.ab src := by omega
    refine ⟨by simp [setN_length, hab], ?_, rfl, hn, rfl⟩
    simp only; omega

theorem move_cb {s s' : St} {src dst n : Nat} (hI : CbInv s) (hs : src < 6) (hd : dst < 6)
    (h : move s src dst n = some s') : CbInv s' ∧ CbRel s s' := by
  obtain ⟨hlen, hsum, heq, _, _⟩ := move_spec hI.abLen hs hd h
  rw [heq]
  exact ⟨⟨hlen, hI.lbLen, by simp only; rw [hsum]; exact hI.assetSum, hI.lpSum, hI.ctrPos⟩,
    ⟨le_refl _, le_refl _, rfl, rfl, rfl, rfl, rfl, rfl, rfl, rfl, rfl⟩⟩

theorem payIn_cb {s s' : St} {a n : Nat} (hI : CbInv s) (ha : a < 6) (h : payIn s a n = some s') :
    CbInv s' ∧ CbRel s s' := by
  obtain ⟨rfl, _, hsum, hlen⟩ := payIn_spec hI.abLen ha h
  exact ⟨⟨hlen, hI.lbLen, by rw [hsum]; exact hI.assetSum, hI.lpSum, hI.ctrPos⟩,
    ⟨le_refl _, le_refl _, rfl, rfl, rfl, rfl, rfl, rfl, rfl, rfl, rfl⟩⟩

theorem collect_cb {s s' : St} (hI : CbInv s) (h : collect s = some s') : CbInv s' ∧ CbRel s s' := by
  have := run_cb (a := .collect) hI (by rw [run_collect]; exact h)
  exact this

/-- everything the router's `CompleteLoan` does (`i` = the initiator, not the router itself) -/
theorem completeLoan_spec {s s' : St} {i n : Nat} (hab : s.ab.length = 6) (hi : i < 5)
    (h : completeLoan s i n = some s') :
    payback s n ≤ getN s.ab 5 ∧ s' = { s with ab := s'.ab, bal := s.bal + payback s n } ∧
    s'.ab.length = 6 ∧ s'.ab.sum + payback s n = s.ab.sum ∧
    getN s'.ab 5 = 0 ∧ getN s'.ab i = getN s.ab i + (getN s.ab 5 - payback s n) ∧
    (∀ j, j ≠ 5 → j ≠ i → getN s'.ab j = getN s.ab j) := by
  unfold completeLoan at h
  generalize payback s n = pb at *
  split at h
  · cases h
  split at h
  · cases h
  rename_i _ hge
  have hge : pb ≤ getN s.ab 5 := by omega
  have h5 : 5 < s.ab.length := by rw [hab]; omega
  have hsum0 := setN_sum s.ab 5 (getN s.ab 5 - pb) h5
  have hg5 : getN (setN s.ab 5 (getN s.ab 5 - pb)) 5 = getN s.ab 5 - pb := getN_setN_same _ _ _ h5
  have hlen1 : (setN s.ab 5 (getN s.ab 5 - pb)).length = 6 := by rw [setN_length]; exact hab
  split at h
  · cases h
  rename_i s1 hp
  obtain ⟨hs1, _, _, _⟩ := payIn_spec hab (by omega) hp
  have e_ab : s1.ab = setN s.ab 5 (getN s.ab 5 - pb) := by rw [hs1]
  split at h
  · rename_i h0
    injection h with h; subst h
    refine ⟨hge, ?_, ?_, ?_, ?_, ?_, ?_⟩
    · rw [hs1]
    · rw [e_ab]; exact hlen1
    · rw [e_ab]; omega
    · rw [e_ab, hg5]; exact h0
    · rw [e_ab, getN_setN_ne _ _ _ _ (by omega), h0]; rfl
    · intro j hj _; rw [e_ab]; exact getN_setN_ne _ _ _ _ (by omega)
  · rename_i hpos
    have hab1 : s1.ab.length = 6 := by rw [e_ab]; exact hlen1
    obtain ⟨hlen, hsum, heq, _, hab'⟩ := move_spec hab1 (by omega) (by omega) h
    rw [e_ab, hg5, Nat.sub_self] at hab'
    have h5' : 5 < (setN s.ab 5 (getN s.ab 5 - pb)).length := by rw [hlen1]; omega
    have hi' : i < (setN (setN s.ab 5 (getN s.ab 5 - pb)) 5 0).length := by
      rw [setN_length, hlen1]; omega
    refine ⟨hge, ?_, hlen, ?_, ?_, ?_, ?_⟩
    · rw [heq, hs1]
    · rw [hsum, e_ab]; omega
    · rw [hab', getN_setN_ne _ _ _ _ (by omega)]; exact getN_setN_same _ _ _ h5'
    · rw [hab', getN_setN_same _ _ _ hi', getN_setN_ne _ _ _ _ (by omega),
        getN_setN_ne _ _ _ _ (by omega)]
    · intro j hj hji
      rw [hab', getN_setN_ne _ _ _ _ (by omega), getN_setN_ne _ _ _ _ (by omega),
        getN_setN_ne _ _ _ _ (by omega)]

theorem completeLoan_cb {s s' : St} {i n : Nat} (hI : CbInv s) (hi : i < 5)
    (h : completeLoan s i n = some s') : CbInv s' ∧ CbRel s s' := by
  obtain ⟨_, heq, hlen, hsum, _⟩ := completeLoan_spec hI.abLen hi h
  have hs := hI.assetSum
  have e_bal : s'.bal = s.bal + payback s n := by rw [heq]
  refine ⟨⟨hlen, ?_, ?_, ?_, ?_⟩, ⟨?_, ?_, ?_, ?_, ?_, ?_, ?_, ?_, ?_, ?_, ?_⟩⟩
  · rw [heq]; exact hI.lbLen
  · have e : s'.assetSupply = s.assetSupply := by rw [heq]
    rw [e, e_bal]; omega
  · rw [heq]; exact hI.lpSum
  · rw [heq]; exact hI.ctrPos
  all_goals rw [heq]

/-- a plain transfer between accounts keeps the top-level invariant and moves nothing of the vault's -/
theorem move_inv {s s' : St} {src dst n : Nat} (hI : Inv s) (hs : src < 6) (hd : dst < 6)
    (h : move s src dst n = some s') :
    Inv s' ∧ backing s' = backing s ∧ s'.sup = s.sup ∧ s'.lpVault = s.lpVault ∧ s'.bal = s.bal := by
  obtain ⟨hlen, hsum, heq, _, _⟩ := move_spec hI.abLen hs hd h
  rw [heq]
  exact ⟨⟨hlen, hI.lbLen, hI.pendLe, by simp only; rw [hsum]; exact hI.assetSum, hI.lpSum, hI.locked,
    hI.ctr0⟩, rfl, rfl, rfl, rfl⟩

/-- `CompleteLoan` succeeds whenever the router holds the (non-zero, 128-bit) payback amount -/
theorem completeLoan_some {s : St} {i n : Nat} (hab : s.ab.length = 6)
    (hmax : payback s n ≤ U128MAX) (hge : payback s n ≤ getN s.ab 5) (hpos : 0 < payback s n) :
    ∃ s', completeLoan s i n = some s' := by
  unfold completeLoan
  generalize payback s n = pb at *
  have h5 : 5 < s.ab.length := by rw [hab]; omega
  have hg5 : getN (setN s.ab 5 (getN s.ab 5 - pb)) 5 = getN s.ab 5 - pb := getN_setN_same _ _ _ h5
  rw [if_neg (by omega), if_neg (by omega)]
  unfold payIn
  rw [if_neg (by omega)]
  simp only []
  split
  · exact ⟨_, rfl⟩
  · rename_i hne
    unfold move
    rw [if_neg (by simp only [hg5]; omega)]
    exact ⟨_, rfl⟩

/-- a router flash loan, put together from its parts -/
theorem router_loan_of_parts {s s1 s2 s3 : St} {i amount : Nat} {payload : List RAct}
    (hfl : s.flOn = true) (hc : s.ctr = 0)
    (hp : payOut { s with ctr := s.ctr + 1 } 5 amount = some s1) (hr : rruns s1 payload = some s2)
    (hcl : completeLoan s2 i amount = some s3) :
    routerLoanFrom s i amount payload = afterTrade s3 s.bal amount := by
  have e1 : (!s.flOn) = false := by rw [hfl]; rfl
  unfold routerLoanFrom
  rw [rrun]
  rw [if_neg (by rw [e1]; simp), if_neg (by omega), if_neg (by omega), hp]
  simp only []
  rw [hr]
  simp only []
  rw [hcl]

theorem rrun_fund (s : St) (n : Nat) : rrun s (.fund n) = move s 3 5 n := by simp only [rrun]
theorem rrun_out (s : St) (dst n : Nat) :
    rrun s (.out dst n) = if dst ≥ 3 then none else move s 5 dst n := by simp only [rrun]
theorem rrun_pay (s : St) (n : Nat) : rrun s (.pay n) = payIn s 5 n := by simp only [rrun]
theorem rrun_collect (s : St) : rrun s .collect = collect s := by simp only [rrun]
theorem rrun_deposit (s : St) (n : Nat) : rrun s (.deposit n) = deposit s 5 n n := by simp only [rrun]
theorem rrun_fail (s : St) : rrun s .fail = none := by simp only [rrun]
theorem rrun_adv (s : St) (acts : List Act) : rrun s (.adv acts) = runs s acts := by simp only [rrun]
theorem rrun_complete (s : St) (i n : Nat) :
    rrun s (.complete i n) = if i ≥ 4 then none else completeLoan s i n := by simp only [rrun]
theorem rrun_routerLoan (s : St) (i n : Nat) (p : List RAct) :
    rrun s (.routerLoan i n p) = routerLoanFrom s i n p := rfl
theorem rruns_nil (s : St) : rruns s [] = some s := by simp only [rruns]
theorem rruns_cons_none {s : St} {a : RAct} (as : List RAct) (h : rrun s a = none) :
    rruns s (a :: as) = none := by
  rw [rruns, h]
theorem rruns_cons_some {s s1 : St} {a : RAct} (as : List RAct) (h : rrun s a = some s1) :
    rruns s (a :: as) = rruns s1 as := by
  rw [rruns, h]

/-- a router flash loan requested while a loan is in flight is refused by the vault -/
theorem routerLoanFrom_ctr (s : St) (i n : Nat) (p : List RAct) (h : s.ctr ≠ 0) :
    routerLoanFrom s i n p = none := by
  unfold routerLoanFrom
  rw [rrun]
  simp [h]

/-- every successful payload message preserves the callback invariant -/
theorem rrun_cb {s s' : St} {a : RAct} (hI : CbInv s) (h : rrun s a = some s') :
    CbInv s' ∧ CbRel s s' := by
  cases a with
  | fund n => rw [rrun_fund] at h; exact move_cb hI (by omega) (by omega) h
  | out dst n =>
    rw [rrun_out] at h
    split at h
    · cases h
    · exact move_cb hI (by omega) (by omega) h
  | pay n => rw [rrun_pay] at h; exact payIn_cb hI (by omega) h
  | collect => rw [rrun_collect] at h; exact collect_cb hI h
  | deposit n => rw [rrun_deposit, deposit_ctr _ _ _ _ hI.ctrPos] at h; cases h
  | fail => rw [rrun_fail] at h; cases h
  | adv acts => rw [rrun_adv] at h; exact runs_cb hI h
  | complete i n =>
    rw [rrun_complete] at h
    split at h
    · cases h
    · exact completeLoan_cb hI (by omega) h
  | routerLoan i n p => rw [rrun_routerLoan, routerLoanFrom_ctr _ _ _ _ hI.ctrPos] at h; cases h

theorem rruns_cb {s s' : St} {as : List RAct} (hI : CbInv s) (h : rruns s as = some s') :
    CbInv s' ∧ CbRel s s' := by
  induction as generalizing s with
  | nil => rw [rruns_nil] at h; injection h with h; subst h; exact ⟨hI, CbRel.refl _⟩
  | cons a as ih =>
    cases h1 : rrun s a with
    | none => rw [rruns_cons_none as h1] at h; cases h
    | some s1 =>
      rw [rruns_cons_some as h1] at h
      obtain ⟨hI1, r1⟩ := rrun_cb hI h1
      obtain ⟨hI2, r2⟩ := ih hI1 h
      exact ⟨hI2, r1.trans r2⟩

/-- a deposit anywhere in a payload makes the whole payload fail -/
theorem rruns_deposit_fails {s : St} {as : List RAct} (hI : CbInv s) (n : Nat)
    (hmem : RAct.deposit n ∈ as) : rruns s as = none := by
  induction as generalizing s with
  | nil => cases hmem
  | cons a as ih =>
    cases h1 : rrun s a with
    | none => exact rruns_cons_none as h1
    | some s1 =>
      rw [rruns_cons_some as h1]
      rcases List.mem_cons.mp hmem with rfl | hm
      · rw [rrun_deposit, deposit_ctr _ _ _ _ hI.ctrPos] at h1; cases h1
      · exact ih (rrun_cb hI h1).1 hm

/-- the same for a further router flash loan -/
theorem rruns_routerLoan_fails {s : St} {as : List RAct} (hI : CbInv s) (i n : Nat) (p : List RAct)
    (hmem : RAct.routerLoan i n p ∈ as) : rruns s as = none := by
  induction as generalizing s with
  | nil => cases hmem
  | cons a as ih =>
    cases h1 : rrun s a with
    | none => exact rruns_cons_none as h1
    | some s1 =>
      rw [rruns_cons_some as h1]
      rcases List.mem_cons.mp hmem with rfl | hm
      · rw [rrun_routerLoan, routerLoanFrom_ctr _ _ _ _ hI.ctrPos] at h1; cases h1
      · exact ih (rrun_cb hI h1).1 hm

/-- a successful router flash loan, taken apart: the vault's guards passed, the loan went to the router
    (`s1`), the payload ran (`s2`), `CompleteLoan` ran (`s3`), and `after_trade` accepted -/
theorem router_loan_parts {s s' : St} {i amount : Nat} {payload : List RAct}
    (h : routerLoanFrom s i amount payload = some s') :
    s.flOn = true ∧ s.ctr = 0 ∧ ∃ s1 s2 s3,
      payOut { s with ctr := s.ctr + 1 } 5 amount = some s1 ∧ rruns s1 payload = some s2 ∧
      completeLoan s2 i amount = some s3 ∧ afterTrade s3 s.bal amount = some s' := by
  unfold routerLoanFrom at h
  rw [rrun] at h
  split at h
  · cases h
  rename_i hfl
  split at h
  · cases h
  rename_i hc
  split at h
  · cases h
  split at h
  · cases h
  rename_i s1 hp
  split at h
  · cases h
  rename_i s2 hr
  split at h
  · cases h
  rename_i s3 hcl
  refine ⟨by simpa using hfl, by omega, s1, s2, s3, hp, hr, hcl, h⟩

/-- a router flash loan satisfies the same specification as a direct one -/
theorem router_loan_spec {s s' : St} {i amount : Nat} {payload : List RAct} (hI : Inv s) (hi : i < 5)
    (h : routerLoanFrom s i amount payload = some s') : LoanSpec s s' amount := by
  obtain ⟨_, _, s1, s2, s3, hp, hr, hcl, hat⟩ := router_loan_parts h
  obtain ⟨hI2, r2⟩ := rruns_cb (cb_start hI (by omega) hp) hr
  obtain ⟨hI3, r3⟩ := completeLoan_cb hI2 hi hcl
  exact loan_tail hI (by omega) hp hI3 (r2.trans r3) hat


/-! ### stray coins attached to a message (`Op.attach`) -/

theorem lmove_length (l : List Nat) (src dst n : Nat) : (lmove l src dst n).length = l.length := by
  unfold lmove; rw [setN_length, setN_length]

theorem lmove_sum (l : List Nat) (src dst n : Nat) (hs : src < l.length) (hd : dst < l.length)
    (hn : n ≤ getN l src) : (lmove l src dst n).sum = l.sum := by
  unfold lmove
  have s1 := setN_sum l src (getN l src - n) hs
  have s2 := setN_sum (setN l src (getN l src - n)) dst
    (getN (setN l src (getN l src - n)) dst + n) (by rw [setN_length]; exact hd)
  omega

theorem lmove_dst (l : List Nat) (src dst n : Nat) (hd : dst < l.length) (hne : src ≠ dst) :
    getN (lmove l src dst n) dst = getN l dst + n := by
  unfold lmove
  rw [getN_setN_same _ _ _ (by rw [setN_length]; exact hd), getN_setN_ne _ _ _ _ hne]

theorem lmove_src (l : List Nat) (src dst n : Nat) (hs : src < l.length) (hne : src ≠ dst) :
    getN (lmove l src dst n) src = getN l src - n := by
  unfold lmove
  rw [getN_setN_ne _ _ _ _ (by omega), getN_setN_same _ _ _ hs]

theorem lmove_other (l : List Nat) (src dst n j : Nat) (h1 : j ≠ src) (h2 : j ≠ dst) :
    getN (lmove l src dst n) j = getN l j := by
  unfold lmove
  rw [getN_setN_ne _ _ _ _ (by omega), getN_setN_ne _ _ _ _ (by omega)]

theorem step_attach (s : St) (who sel n : Nat) (op : Op) :
    step s (.attach who sel n op) =
      match op.recv with
      | none => none
      | some dst =>
        if sel = 0 ∧ op.isDeposit = true then none else
        match arrive s who sel n dst with
        | none => none
        | some s1 => step s1 op := by
  rw [step]
  rfl

/-- a successful message with coins attached, taken apart: the coins arrived at the receiving
    contract (`s1`), then the message itself ran from `s1` -/
theorem attach_parts {s s' : St} {who sel n : Nat} {op : Op}
    (h : step s (.attach who sel n op) = some s') :
    ∃ dst s1, op.recv = some dst ∧ ¬ (sel = 0 ∧ op.isDeposit = true) ∧
      arrive s who sel n dst = some s1 ∧ step s1 op = some s' := by
  rw [step_attach] at h
  split at h
  · cases h
  · rename_i dst hr
    split at h
    · cases h
    · rename_i hnd
      split at h
      · cases h
      · rename_i s1 ha
        exact ⟨dst, s1, hr, hnd, ha, h⟩

/-- … and put together again -/
theorem attach_of_parts {s s1 : St} {who sel n dst : Nat} {op : Op} (hr : op.recv = some dst)
    (hnd : ¬ (sel = 0 ∧ op.isDeposit = true)) (ha : arrive s who sel n dst = some s1) :
    step s (.attach who sel n op) = step s1 op := by
  rw [step_attach, hr]
  simp only
  rw [if_neg hnd, ha]

/-- coins of the vault asset's own denom attached to a vault message: a plain transfer to the vault
    by one of the accounts 0..3 (native asset, non-empty coin) -/
theorem arrive_own_vault {s s1 : St} {who n : Nat} (h : arrive s who 0 n 0 = some s1) :
    payIn s who n = some s1 ∧ who < 4 ∧ s.kind = 0 ∧ n ≠ 0 := by
  unfold arrive at h
  split at h
  · cases h
  · rename_i hn
    rw [if_pos rfl] at h
    split at h
    · cases h
    · rename_i hk
      rw [if_pos rfl] at h
      exact ⟨h, by omega, by omega, hn⟩

/-- … attached to a router message: a plain transfer to the router -/
theorem arrive_own_router {s s1 : St} {who n : Nat} (h : arrive s who 0 n 1 = some s1) :
    move s who 5 n = some s1 ∧ who < 4 ∧ s.kind = 0 ∧ n ≠ 0 := by
  unfold arrive at h
  split at h
  · cases h
  · rename_i hn
    rw [if_pos rfl] at h
    split at h
    · cases h
    · rename_i hk
      rw [if_neg (by omega)] at h
      exact ⟨h, by omega, by omega, hn⟩

/-- coins of an unrelated denom: nothing but the junk balances changes -/
theorem arrive_junk {s s1 : St} {who sel n dst : Nat} (hsel : sel ≠ 0)
    (h : arrive s who sel n dst = some s1) :
    s1 = { s with jb := lmove s.jb who (if dst = 0 then 7 else 5) n } ∧ n ≤ getN s.jb who ∧
    (who < 4 ∨ who = 6) ∧ n ≠ 0 := by
  unfold arrive at h
  split at h
  · cases h
  · rename_i hn
    split at h
    · cases h
    · rename_i hc
      injection h with h
      exact ⟨h.symm, by omega, by omega, hn⟩

/-- what the arrival of stray coins does to the vault: at most a donation. The invariant holds, the
    vault's balance does not fall, every ledger, the share supply and all share balances are untouched. -/
structure ArriveSpec (s s1 : St) : Prop where
  inv : Inv s1
  balGe : s.bal ≤ s1.bal
  pend : s1.pend = s.pend
  sup : s1.sup = s.sup
  lpVault : s1.lpVault = s.lpVault
  lb : s1.lb = s.lb
  sent : s1.sent = s.sent
  allTime : s1.allTime = s.allTime
  burned : s1.burned = s.burned
  assetSupply : s1.assetSupply = s.assetSupply
  fees : s1.fees = s.fees
  kind : s1.kind = s.kind
  toggles : s1.depOn = s.depOn ∧ s1.wdOn = s.wdOn ∧ s1.flOn = s.flOn

theorem arrive_spec {s s1 : St} {who sel n dst : Nat} (hI : Inv s)
    (h : arrive s who sel n dst = some s1) : ArriveSpec s s1 := by
  by_cases hsel : sel = 0
  · subst hsel
    unfold arrive at h
    split at h
    · cases h
    rw [if_pos rfl] at h
    split at h
    · cases h
    rename_i hk
    split at h
    · obtain ⟨rfl, _, hsum, hlen⟩ := payIn_spec hI.abLen (by omega) h
      refine ⟨⟨hlen, hI.lbLen, ?_, ?_, hI.lpSum, hI.locked, hI.ctr0⟩, ?_, rfl, rfl, rfl, rfl, rfl, rfl, rfl,
        rfl, rfl, rfl, ⟨rfl, rfl, rfl⟩⟩
      · have := hI.pendLe; simp only; omega
      · rw [hsum]; exact hI.assetSum
      · simp only; omega
    · obtain ⟨hI', _, _, _, hb⟩ := move_inv hI (by omega) (by omega) h
      obtain ⟨_, _, heq, _, _⟩ := move_spec hI.abLen (by omega) (by omega) h
      refine ⟨hI', by omega, ?_, ?_, ?_, ?_, ?_, ?_, ?_, ?_, ?_, ?_, ⟨?_, ?_, ?_⟩⟩
      all_goals rw [heq]
  · obtain ⟨rfl, _⟩ := arrive_junk hsel h
    exact ⟨⟨hI.abLen, hI.lbLen, hI.pendLe, hI.assetSum, hI.lpSum, hI.locked, hI.ctr0⟩, le_refl _, rfl, rfl,
      rfl, rfl, rfl, rfl, rfl, rfl, rfl, rfl, ⟨rfl, rfl, rfl⟩⟩

theorem ArriveSpec.backing_le {s s1 : St} (A : ArriveSpec s s1) : backing s ≤ backing s1 := by
  have := A.balGe; have := A.pend
  unfold backing; omega

/-- the unrelated denom only ever moves from a sender to the vault (entry 7) or the router (entry 5):
    no handler of either contract ever sends it anywhere -/
structure JRel (s s' : St) : Prop where
  len : s'.jb.length = s.jb.length
  sum : s'.jb.sum = s.jb.sum
  le : ∀ a, a ≠ 5 → a ≠ 7 → getN s'.jb a ≤ getN s.jb a
  router : getN s.jb 5 ≤ getN s'.jb 5
  vault : getN s.jb 7 ≤ getN s'.jb 7

theorem JRel.of_eq {s s' : St} (h : s'.jb = s.jb) : JRel s s' :=
  ⟨by rw [h], by rw [h], fun a _ _ => by rw [h], by rw [h], by rw [h]⟩

theorem JRel.trans {a b c : St} (h1 : JRel a b) (h2 : JRel b c) : JRel a c :=
  ⟨h2.len.trans h1.len, h2.sum.trans h1.sum, fun x h5 h7 => le_trans (h2.le x h5 h7) (h1.le x h5 h7),
   le_trans h1.router h2.router, le_trans h1.vault h2.vault⟩

theorem arrive_jrel {s s1 : St} {who sel n dst : Nat} (hI : Inv s) (hj : s.jb.length = 8)
    (h : arrive s who sel n dst = some s1) : JRel s s1 := by
  by_cases hsel : sel = 0
  · subst hsel
    apply JRel.of_eq
    unfold arrive at h
    split at h
    · cases h
    rw [if_pos rfl] at h
    split at h
    · cases h
    rename_i hk
    split at h
    · obtain ⟨rfl, _⟩ := payIn_spec hI.abLen (by omega) h
      rfl
    · obtain ⟨_, _, heq, _, _⟩ := move_spec hI.abLen (by omega) (by omega) h
      rw [heq]
  · obtain ⟨rfl, hn, hw, _⟩ := arrive_junk hsel h
    have hd : (if dst = 0 then 7 else 5) < s.jb.length := by rw [hj]; split <;> omega
    have hne : who ≠ (if dst = 0 then 7 else 5) := by split <;> omega
    have hd57 : (if dst = 0 then 7 else 5) = 7 ∨ (if dst = 0 then 7 else 5) = 5 := by split <;> omega
    generalize (if dst = 0 then 7 else 5) = d at *
    have hws : who < s.jb.length := by rw [hj]; omega
    refine ⟨?_, ?_, ?_, ?_, ?_⟩
    · simp only; exact lmove_length _ _ _ _
    · simp only; exact lmove_sum _ _ _ _ hws hd hn
    · intro a h5 h7
      simp only
      by_cases ha : a = who
      · subst ha; rw [lmove_src _ _ _ _ hws hne]; omega
      · rw [lmove_other _ _ _ _ _ ha (by omega)]
    · simp only
      by_cases h5 : d = 5
      · subst h5; rw [lmove_dst _ _ _ _ hd hne]; omega
      · rw [lmove_other _ _ _ _ _ (by omega) (by omega)]
    · simp only
      by_cases h7 : d = 7
      · subst h7; rw [lmove_dst _ _ _ _ hd hne]; omega
      · rw [lmove_other _ _ _ _ _ (by omega) (by omega)]

/-- no operation of the vault or the router moves the unrelated denom, except that coins attached to
    a message land on (and stay with) the contract that receives it -/
theorem step_jrel {s s' : St} (op : Op) (hI : Inv s) (hj : s.jb.length = 8) (h : step s op = some s') :
    JRel s s' := by
  induction op generalizing s s' with
  | deposit who amount sent =>
    simp only [step] at h
    split at h
    · cases h
    · obtain ⟨_, rfl⟩ := deposit_ok_of_some h
      exact JRel.of_eq (by simp only [depositRes])
  | withdraw who lp =>
    simp only [step] at h
    split at h
    · cases h
    · exact JRel.of_eq (withdraw_jb h)
  | collect =>
    simp only [step] at h
    unfold collect at h
    split at h
    · injection h with h; subst h; exact JRel.of_eq rfl
    · split at h
      · cases h
      · injection h with h; subst h; exact JRel.of_eq (by simp only [collectRes])
  | setFees f =>
    simp only [step] at h
    split at h
    · injection h with h; subst h; exact JRel.of_eq rfl
    · cases h
  | setToggles d w f =>
    simp only [step] at h
    injection h with h; subst h; exact JRel.of_eq rfl
  | loan amount cb =>
    simp only [step] at h
    exact JRel.of_eq (loan_spec hI h).jb
  | donate who n =>
    simp only [step] at h
    split at h
    · cases h
    · obtain ⟨rfl, _⟩ := payIn_spec hI.abLen (by omega) h
      exact JRel.of_eq rfl
  | routerLoan initiator amount payload =>
    simp only [step] at h
    split at h
    · cases h
    · exact JRel.of_eq (router_loan_spec hI (by omega) h).jb
  | routerLoanNone who payload =>
    simp only [step] at h
    injection h with h; subst h; exact JRel.of_eq rfl
  | routerLoanMulti who a1 a2 payload => exact absurd h (by simp [step])
  | fundRouter who n =>
    simp only [step] at h
    split at h
    · cases h
    · obtain ⟨_, _, heq, _, _⟩ := move_spec hI.abLen (by omega) (by omega) h
      exact JRel.of_eq (by rw [heq])
  | nextLoanBy who amount payload => exact absurd h (by simp [step])
  | completeLoanBy who initiator amount => exact absurd h (by simp [step])
  | foreign k who a b => exact absurd h (by simp [step])
  | attach who sel n op ih =>
    obtain ⟨dst, s1, _, _, ha, hs⟩ := attach_parts h
    have r1 := arrive_jrel hI hj ha
    exact r1.trans (ih (arrive_spec hI ha).inv (by rw [r1.len]; exact hj) hs)

end WW.Vault
